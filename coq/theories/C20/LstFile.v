(* PV.C20.LstFile — the tag state machine of results_file.py on every well-formed rendered .lst file. *)
From Coq Require Import List NArith ZArith QArith Bool Arith Lia ZifyBool.
From Coq Require Import String.
From PV Require Import C20.Model C20.Proofs C20.Lst C20.LstProofs.
Import ListNotations.
Local Open Scope nat_scope.

(* ---- rows: stripped, no tag ---- *)
Definition ends_nonspace (l : text) : Prop := exists l' c, l = l' ++ [c] /\ is_space_re c = false.

Lemma rstrip_ends : forall l, ends_nonspace l -> rstrip l = l.
Proof.
  intros l [l' [c [E Hc]]]. subst l. unfold rstrip. rewrite rev_app_distr. cbn [rev app span]. rewrite Hc.
  cbn [snd]. cbn [rev]. rewrite rev_involutive. reflexivity.
Qed.

Lemma ends_nonspace_app : forall a b, ends_nonspace b -> ends_nonspace (a ++ b).
Proof. intros a b [l' [c [E Hc]]]. subst b. exists (a ++ l'), c. split; [rewrite app_assoc; reflexivity|exact Hc]. Qed.

Lemma ends_nonspace_digits : forall d, all_digits d = true -> ends_nonspace d.
Proof.
  intros d H. pose proof (all_digits_spec d H) as [Hne Hd].
  destruct (exists_last Hne) as [l' [c E]]. exists l', c. split; [exact E|].
  rewrite E in Hd. rewrite forallb_app' in Hd. apply andb_true_iff in Hd. destruct Hd as [_ Hd]. cbn [forallb] in Hd.
  apply andb_true_iff in Hd. apply digit_not_space. apply Hd.
Qed.

Lemma ends_nonspace_concrete : forall l c, is_space_re c = false -> ends_nonspace (l ++ [c]).
Proof. intros l c H. exists l, c. split; [reflexivity|exact H]. Qed.

(* a row that is data for the state machine: already stripped, not a tag *)
Definition plain (row : text) : Prop := rstrip row = row /\ tag_of row = None.

Record core := mkCore { c_term : list text; c_tere : list text; c_in_term : bool; c_in_tere : bool; c_out : list item }.
Definition core_of (s : tstate) : core := mkCore (ts_term s) (ts_tere s) (ts_in_term s) (ts_in_tere s) (ts_out s).

(* the state machine on the part of the state that matters when no line starts with the HESSIAN message *)
Definition cstep (s : core) (rawrow : text) : core :=
  let row := rstrip rawrow in
  match tag_of row with
  | Some (name, value) =>
      if text_eqb name (st "TERM") then
        if c_in_term s then mkCore (c_term s) (c_tere s) true (c_in_tere s) (c_out s ++ [IErr])
        else mkCore [] (c_tere s) true (c_in_tere s) (c_out s)
      else if text_eqb name (st "TERE") then
        if c_in_term s
        then mkCore [] (c_tere s) false true (c_out s ++ [ITerm (parse_termination (c_term s))])
        else mkCore (c_term s) (c_tere s) false (c_in_tere s) (c_out s ++ [IErr])
      else if c_in_tere s then mkCore (c_term s) (c_tere s) (c_in_term s) false (c_out s)
      else mkCore (c_term s) (c_tere s) (c_in_term s) (c_in_tere s) (c_out s ++ [ITag name (strip (cleanup value))])
  | None =>
      if c_in_tere s then
        match row with
        | c :: _ => if (N.eqb c 48) || (N.eqb c 49)
                    then mkCore (c_term s) [] (c_in_term s) false (c_out s ++ [ITere (parse_tere (c_tere s))])
                    else mkCore (c_term s) (c_tere s ++ [row]) (c_in_term s) true (c_out s)
        | [] => mkCore (c_term s) (c_tere s ++ [row]) (c_in_term s) true (c_out s)
        end
      else if c_in_term s then mkCore (c_term s ++ [row]) (c_tere s) true (c_in_tere s) (c_out s)
      else s
  end.

Definition no_hessian (l : text) : Prop := starts_with hessian_line l = false.

Lemma step_cstep : forall s row, no_hessian (ts_prev2 s) -> core_of (step s row) = cstep (core_of s) row.
Proof.
  intros [tm te it ie p1 p2 out] row H. cbn [ts_prev2] in H. unfold no_hessian in H.
  unfold step, cstep, core_of. cbn [ts_term ts_tere ts_in_term ts_in_tere ts_prev1 ts_prev2 ts_out c_term c_tere c_in_term c_in_tere c_out].
  destruct (tag_of (rstrip row)) as [[name value]|].
  - destruct (text_eqb name (st "TERM")).
    + destruct it; [reflexivity|]. rewrite H. reflexivity.
    + destruct (text_eqb name (st "TERE")); [destruct it; reflexivity|]. destruct ie; reflexivity.
  - destruct ie.
    + destruct (rstrip row) as [|c r]; [reflexivity|]. destruct (N.eqb c 48 || N.eqb c 49); reflexivity.
    + destruct it; reflexivity.
Qed.

Lemma step_prevs : forall s row, ts_prev1 (step s row) = row /\ ts_prev2 (step s row) = ts_prev1 s.
Proof. intros s row. unfold step. split; reflexivity. Qed.

Lemma fold_step_cstep : forall ls s, Forall no_hessian ls -> no_hessian (ts_prev1 s) -> no_hessian (ts_prev2 s) ->
    core_of (fold_left step ls s) = fold_left cstep ls (core_of s).
Proof.
  induction ls as [|l ls IH]; intros s H H1 H2; [reflexivity|]. inversion H as [|? ? Hl Hls]. subst. cbn [fold_left].
  destruct (step_prevs s l) as [P1 P2].
  rewrite IH; [|exact Hls|rewrite P1; exact Hl|rewrite P2; exact H1]. rewrite step_cstep by exact H2. reflexivity.
Qed.

(* ---- plain rows ---- *)
Lemma cstep_plain_term : forall s row, plain row -> c_in_term s = true -> c_in_tere s = false ->
    cstep s row = mkCore (c_term s ++ [row]) (c_tere s) true false (c_out s).
Proof. intros s row [Hr Ht] H1 H2. unfold cstep. rewrite Hr, Ht, H2, H1. reflexivity. Qed.

Lemma fold_plain_term : forall rows s, Forall plain rows -> c_in_term s = true -> c_in_tere s = false ->
    fold_left cstep rows s = mkCore (c_term s ++ rows) (c_tere s) true false (c_out s).
Proof.
  induction rows as [|row rows IH]; intros s H H1 H2.
  - cbn [fold_left]. rewrite app_nil_r. destruct s. cbn in *. subst. reflexivity.
  - inversion H as [|? ? Hp Hps]. subst. cbn [fold_left]. rewrite (cstep_plain_term s row Hp H1 H2).
    rewrite IH by (try exact Hps; reflexivity). cbn [c_term c_tere c_out]. rewrite <- app_assoc. reflexivity.
Qed.

Definition not_01 (row : text) : Prop := match row with c :: _ => (N.eqb c 48 || N.eqb c 49) = false | [] => True end.

Lemma cstep_plain_tere : forall s row, plain row -> not_01 row -> c_in_tere s = true ->
    cstep s row = mkCore (c_term s) (c_tere s ++ [row]) (c_in_term s) true (c_out s).
Proof.
  intros s row [Hr Ht] Hn H1. unfold cstep. rewrite Hr, Ht, H1. destruct row as [|c row']; [reflexivity|].
  cbn in Hn. rewrite Hn. reflexivity.
Qed.

Lemma fold_plain_tere : forall rows s, Forall plain rows -> Forall not_01 rows -> c_in_tere s = true ->
    fold_left cstep rows s = mkCore (c_term s) (c_tere s ++ rows) (c_in_term s) true (c_out s).
Proof.
  induction rows as [|row rows IH]; intros s H Hn H1.
  - cbn [fold_left]. rewrite app_nil_r. destruct s. cbn in *. subst. reflexivity.
  - inversion H as [|? ? Hp Hps]. inversion Hn as [|? ? Hn1 Hns]. subst. cbn [fold_left].
    rewrite (cstep_plain_tere s row Hp Hn1 H1). rewrite IH by (try assumption; reflexivity).
    cbn [c_term c_tere c_in_term c_out]. rewrite <- app_assoc. reflexivity.
Qed.

Lemma cstep_plain_idle : forall s row, plain row -> c_in_term s = false -> c_in_tere s = false -> cstep s row = s.
Proof. intros s row [Hr Ht] H1 H2. unfold cstep. rewrite Hr, Ht, H2, H1. reflexivity. Qed.

Lemma cstep_idle : forall s row, tag_of (rstrip row) = None -> c_in_term s = false -> c_in_tere s = false -> cstep s row = s.
Proof. intros s row Ht H1 H2. unfold cstep. rewrite Ht, H2, H1. reflexivity. Qed.

(* ---- the rows of a block ---- *)
Ltac concrete_plain := split; vm_compute; reflexivity.

Lemma plain_sym : forall pre tail, ends_nonspace tail -> tag_of (pre ++ tail) = None -> plain (pre ++ tail).
Proof. intros pre tail He Ht. split; [apply rstrip_ends; apply ends_nonspace_app; exact He|exact Ht]. Qed.

Lemma ends_rjust_digits : forall w d, all_digits d = true -> ends_nonspace (rjust w d).
Proof. intros w d H. unfold rjust. apply ends_nonspace_app. apply ends_nonspace_digits. exact H. Qed.

Lemma ends_rjust_dec : forall w ab, dec_ok ab = true -> ends_nonspace (rjust w (dec_text ab)).
Proof.
  intros w [ip fp] H. unfold dec_ok in H. cbn [fst snd] in H. apply andb_true_iff in H. destruct H as [_ Hf].
  unfold rjust, dec_text. cbn [fst snd]. apply ends_nonspace_app. apply ends_nonspace_app. apply ends_nonspace_app.
  apply ends_nonspace_digits. exact Hf.
Qed.

Lemma Forall_app_i {A} (P : A -> Prop) (a b : list A) : Forall P a -> Forall P b -> Forall P (a ++ b).
Proof. intros Ha Hb. apply Forall_app. split; assumption. Qed.

Ltac fl := repeat (first [apply Forall_nil | apply Forall_cons]).

Lemma term_rows_plain : forall b, wblock_ok b = true -> Forall plain (render_term_rows b).
Proof.
  intros b H. unfold wblock_ok in H. repeat (apply andb_true_iff in H; destruct H as [H ?]).
  rename H4 into Hout, H2 into Hfev, H1 into Hsig.
  destruct b as [num meth out near fev sig time cov]. cbn [wb_outcome wb_fevals wb_sig wb_near] in *.
  apply Nat.leb_le in Hout. unfold render_term_rows. cbn [wb_outcome wb_near wb_fevals wb_sig].
  apply Forall_app_i; [|apply Forall_app_i; [|apply Forall_app_i]].
  - destruct out as [|[|[|[|[|out]]]]]; [| | | | |lia]; fl; concrete_plain.
  - destruct near; fl; try concrete_plain.
  - destruct fev as [d|]; fl.
    apply plain_sym; [apply ends_rjust_digits; exact Hfev|vm_compute; reflexivity].
  - destruct sig as [ab|]; fl.
    apply plain_sym; [apply ends_rjust_dec; exact Hsig|vm_compute; reflexivity].
Qed.

Lemma tere_rows_plain : forall b, wblock_ok b = true ->
    Forall plain (render_tere_rows b) /\ Forall not_01 (render_tere_rows b).
Proof.
  intros b H. unfold wblock_ok in H. repeat (apply andb_true_iff in H; destruct H as [H ?]).
  rename H0 into Htime, H3 into Hcov.
  destruct b as [num meth out near fev sig time cov]. cbn [wb_time wb_cov] in *.
  apply Nat.leb_le in Hcov. unfold render_tere_rows. cbn [wb_time wb_cov].
  split; apply Forall_app_i.
  - destruct time as [ab|]; fl. apply andb_true_iff in Htime. destruct Htime as [Hd _].
    apply plain_sym; [apply ends_rjust_dec; exact Hd|vm_compute; reflexivity].
  - destruct cov as [|[|[|[|cov]]]]; [| | | |lia]; fl; concrete_plain.
  - destruct time as [ab|]; fl; vm_compute; reflexivity.
  - destruct cov as [|[|[|[|cov]]]]; [| | | |lia]; fl; vm_compute; reflexivity.
Qed.

(* ---- the tag rows ---- *)
Lemma skip_ws_spaces : forall k t, (match t with [] => True | c :: _ => is_space_re c = false end) ->
    skip_ws (spaces k ++ t) = t.
Proof. intros k t H. unfold skip_ws. rewrite span_spaces_re by exact H. reflexivity. Qed.

Definition no_nl_char (c : N) : bool := negb (N.eqb c c_nl).
Lemma span_notnl_all : forall t, forallb no_nl_char t = true -> span no_nl_char t = (t, []).
Proof.
  induction t as [|c t IH]; intros H; [reflexivity|]. cbn [forallb] in H. apply andb_true_iff in H. destruct H as [Hc Ht].
  cbn [span]. rewrite Hc, IH by exact Ht. reflexivity.
Qed.

Lemma cleanup_aux_id : forall fuel s, List.length s < fuel -> existsb (N.eqb 42) s = false -> cleanup_aux fuel s = s.
Proof.
  induction fuel as [|f IH]; intros s Hl H; [lia|]. destruct s as [|c s']; [reflexivity|].
  cbn [existsb] in H. apply orb_false_iff in H. destruct H as [Hc Hs]. cbn [cleanup_aux]. rewrite N.eqb_sym in Hc. rewrite Hc.
  rewrite IH; [reflexivity|cbn in Hl; lia|exact Hs].
Qed.
Lemma cleanup_id : forall s, existsb (N.eqb 42) s = false -> cleanup s = s.
Proof. intros s H. unfold cleanup. apply cleanup_aux_id; [lia|exact H]. Qed.

Lemma strip_id : forall t, (match t with [] => True | c :: _ => is_space_re c = false end) -> ends_nonspace t -> strip t = t.
Proof.
  intros t Hh He. unfold strip. assert (skip_ws t = t).
  { unfold skip_ws. destruct t as [|c t']; [reflexivity|]. cbn [span]. rewrite Hh. reflexivity. }
  rewrite H. apply rstrip_ends. exact He.
Qed.

Lemma digits_props : forall d, all_digits d = true ->
    (match d with [] => True | c :: _ => is_space_re c = false end) /\ forallb no_nl_char d = true /\
    existsb (N.eqb 42) d = false /\ ends_nonspace d.
Proof.
  intros d H. pose proof (all_digits_spec d H) as [Hne Hd]. split; [|split; [|split]].
  - destruct d as [|c d']; [exact I|]. cbn [forallb] in Hd. apply andb_true_iff in Hd. apply digit_not_space. apply Hd.
  - clear H Hne. induction d as [|c d IH]; [reflexivity|]. cbn [forallb] in *. apply andb_true_iff in Hd. destruct Hd as [Hc Hd].
    rewrite IH by exact Hd. unfold no_nl_char, is_digit, c_nl in *. destruct (N.eqb_spec c 10); [lia|reflexivity].
  - clear H Hne. induction d as [|c d IH]; [reflexivity|]. cbn [forallb existsb] in *. apply andb_true_iff in Hd. destruct Hd as [Hc Hd].
    rewrite IH by exact Hd. unfold is_digit in Hc. destruct (N.eqb_spec 42 c); [lia|reflexivity].
  - apply ends_nonspace_digits. exact H.
Qed.

Lemma tag_tbln : forall n, all_digits n = true ->
    rstrip (st " #TBLN:" ++ rjust 7 n) = st " #TBLN:" ++ rjust 7 n /\
    tag_of (st " #TBLN:" ++ rjust 7 n) = Some (st "TBLN", n) /\ strip (cleanup n) = n.
Proof.
  intros n H. destruct (digits_props n H) as [P1 [P2 [P3 P4]]]. split; [|split].
  - apply rstrip_ends. apply ends_nonspace_app. unfold rjust. apply ends_nonspace_app. exact P4.
  - unfold tag_of. change (skip_ws (st " #TBLN:" ++ rjust 7 n)) with (st "#TBLN:" ++ rjust 7 n).
    cbn [st map list_ascii_of_string app]. cbn. unfold rjust.
    change (fun x : N => negb (N.eqb x c_nl)) with no_nl_char.
    rewrite skip_ws_spaces by exact P1. rewrite span_notnl_all by exact P2. reflexivity.
  - rewrite cleanup_id by exact P3. apply strip_id; assumption.
Qed.

Lemma method_props : forall m, method_ok m = true ->
    (match m with [] => True | c :: _ => is_space_re c = false end) /\ forallb no_nl_char m = true /\
    existsb (N.eqb 42) m = false /\ ends_nonspace m.
Proof.
  intros m H. unfold method_ok in H. apply andb_true_iff in H. destruct H as [H H3]. apply andb_true_iff in H. destruct H as [H1 H2].
  split; [|split; [|split]].
  - destruct m as [|c m']; [exact I|]. apply negb_true_iff in H1. exact H1.
  - clear H1 H3. induction m as [|c m IH]; [reflexivity|]. cbn [forallb] in *. apply andb_true_iff in H2. destruct H2 as [Hc Hm].
    rewrite IH by exact Hm. apply andb_true_iff in Hc. destruct Hc as [Hc _].
    unfold no_nl_char. destruct (N.eqb_spec c c_nl) as [E|E]; [|reflexivity]. subst c. discriminate.
  - clear H1 H3. induction m as [|c m IH]; [reflexivity|]. cbn [forallb existsb] in *. apply andb_true_iff in H2. destruct H2 as [Hc Hm].
    rewrite IH by exact Hm. apply andb_true_iff in Hc. destruct Hc as [_ Hc]. apply negb_true_iff in Hc. rewrite N.eqb_sym, Hc. reflexivity.
  - destruct (rev m) as [|c r] eqn:E; [discriminate|]. exists (rev r), c. split.
    + rewrite <- (rev_involutive m), E. reflexivity.
    + apply negb_true_iff in H3. exact H3.
Qed.

Lemma tag_meth : forall m, method_ok m = true ->
    rstrip (st " #METH: " ++ m) = st " #METH: " ++ m /\
    tag_of (st " #METH: " ++ m) = Some (st "METH", m) /\ strip (cleanup m) = m.
Proof.
  intros m H. destruct (method_props m H) as [P1 [P2 [P3 P4]]]. split; [|split].
  - apply rstrip_ends. apply ends_nonspace_app. exact P4.
  - unfold tag_of. change (skip_ws (st " #METH: " ++ m)) with (st "#METH: " ++ m).
    cbn [st map list_ascii_of_string app]. cbn.
    change (fun x : N => negb (N.eqb x c_nl)) with no_nl_char.
    assert (E : skip_ws (32%N :: m) = m).
    { change (32%N :: m) with (spaces 1 ++ m). apply skip_ws_spaces. exact P1. }
    rewrite E. rewrite span_notnl_all by exact P2. reflexivity.
  - rewrite cleanup_id by exact P3. apply strip_id; assumption.
Qed.

Definition s_objv_row : text := st " #OBJV:********************      586.276       ********************".

Definition items_of (b : wblock) : list item :=
  [ITag (st "TBLN") (wb_number b); ITag (st "METH") (wb_method b); ITerm (term_of_wblock b); ITere (tere_of_wblock b);
   ITag (st "OBJV") (st "586.276")].

Definition block_rows (b : wblock) : list text :=
  [st " #TBLN:" ++ rjust 7 (wb_number b); st " #METH: " ++ wb_method b; st " #TERM:"] ++
  render_term_rows b ++ [st " #TERE:"] ++ render_tere_rows b ++ [st "1"; s_objv_row].

Lemma render_block_rows : forall b, render_block b = List.concat (map line (block_rows b)).
Proof. reflexivity. Qed.

Lemma wblock_parts : forall b, wblock_ok b = true -> all_digits (wb_number b) = true /\ method_ok (wb_method b) = true.
Proof.
  intros b H. unfold wblock_ok in H. repeat (apply andb_true_iff in H; destruct H as [H ?]). split; assumption.
Qed.

Theorem block_machine : forall b s, wblock_ok b = true ->
    c_in_term s = false -> c_in_tere s = false -> c_tere s = [] ->
    fold_left cstep (block_rows b) s = mkCore [] [] false false (c_out s ++ items_of b).
Proof.
  intros b s H H1 H2 H3. destruct (wblock_parts b H) as [Hn Hm].
  destruct (tag_tbln _ Hn) as [T1 [T2 T3]]. destruct (tag_meth _ Hm) as [M1 [M2 M3]].
  unfold block_rows. rewrite !fold_left_app. cbn [fold_left].
  (* TBLN, METH, TERM *)
  assert (E1 : cstep s (st " #TBLN:" ++ rjust 7 (wb_number b)) =
               mkCore (c_term s) [] false false (c_out s ++ [ITag (st "TBLN") (wb_number b)])).
  { unfold cstep. rewrite T1, T2. assert (text_eqb (st "TBLN") (st "TERM") = false) as -> by reflexivity.
    assert (text_eqb (st "TBLN") (st "TERE") = false) as -> by reflexivity. rewrite H2, H1, H3, T3. reflexivity. }
  rewrite E1. clear E1.
  set (s1 := mkCore (c_term s) [] false false (c_out s ++ [ITag (st "TBLN") (wb_number b)])).
  assert (E2 : cstep s1 (st " #METH: " ++ wb_method b) =
               mkCore (c_term s) [] false false (c_out s1 ++ [ITag (st "METH") (wb_method b)])).
  { unfold cstep. rewrite M1, M2. assert (text_eqb (st "METH") (st "TERM") = false) as -> by reflexivity.
    assert (text_eqb (st "METH") (st "TERE") = false) as -> by reflexivity. cbn [s1 c_in_tere c_in_term c_term c_tere]. rewrite M3. reflexivity. }
  rewrite E2. clear E2.
  set (s2 := mkCore (c_term s) [] false false (c_out s1 ++ [ITag (st "METH") (wb_method b)])).
  assert (E3 : cstep s2 (st " #TERM:") = mkCore [] [] true false (c_out s2)) by reflexivity.
  rewrite E3. clear E3.
  (* the termination rows *)
  rewrite (fold_plain_term (render_term_rows b) (mkCore [] [] true false (c_out s2)) (term_rows_plain b H) eq_refl eq_refl).
  cbn [c_term c_tere c_out app].
  (* TERE *)
  set (s3 := mkCore (render_term_rows b) [] true false (c_out s2)).
  assert (E4 : cstep s3 (st " #TERE:") = mkCore [] [] false true (c_out s2 ++ [ITerm (parse_termination (render_term_rows b))])) by reflexivity.
  rewrite E4. clear E4.
  destruct (tere_rows_plain b H) as [Hp Hn01].
  rewrite (fold_plain_tere (render_tere_rows b) (mkCore [] [] false true (c_out s2 ++ [ITerm (parse_termination (render_term_rows b))])) Hp Hn01 eq_refl).
  cbn [c_term c_tere c_in_term c_out app].
  (* "1" closes the TERE block, OBJV is an ordinary tag *)
  set (s4 := mkCore [] (render_tere_rows b) false true (c_out s2 ++ [ITerm (parse_termination (render_term_rows b))])).
  assert (E5 : cstep s4 (st "1") = mkCore [] [] false false (c_out s4 ++ [ITere (parse_tere (render_tere_rows b))])) by reflexivity.
  rewrite E5. clear E5.
  set (s5 := mkCore [] [] false false (c_out s4 ++ [ITere (parse_tere (render_tere_rows b))])).
  assert (E6 : cstep s5 s_objv_row = mkCore [] [] false false (c_out s5 ++ [ITag (st "OBJV") (st "586.276")])) by (vm_compute; reflexivity).
  rewrite E6. unfold s5, s4, s2, s1. cbn [c_out].
  rewrite (parse_termination_render_lemma b H), (parse_tere_render_lemma b H).
  unfold items_of. rewrite <- !app_assoc. reflexivity.
Qed.

(* ---- every row of a block: clean (no line end inside) and not the HESSIAN message ---- *)
Definition rowp (l : text) : Prop := clean l /\ no_hessian l.

Lemma rowp_concrete : forall l, no_nl l = true -> existsb (N.eqb c_cr) l = false -> starts_with hessian_line l = false -> rowp l.
Proof. intros l A B C. split; [split; assumption|exact C]. Qed.

Lemma rowp_sym : forall pre tail, clean pre -> clean tail -> starts_with hessian_line (pre ++ tail) = false -> rowp (pre ++ tail).
Proof. intros pre tail A B C. split; [apply clean_app; assumption|exact C]. Qed.

Lemma clean_rjust_digits : forall w d, all_digits d = true -> clean (rjust w d).
Proof. intros w d H. unfold rjust. apply clean_app; [apply spaces_no_nl|apply clean_digits; apply all_digits_forall; exact H]. Qed.
Lemma clean_rjust_dec : forall w ab, dec_ok ab = true -> clean (rjust w (dec_text ab)).
Proof.
  intros w [ip fp] H. unfold dec_ok in H. cbn [fst snd] in H. apply andb_true_iff in H. destruct H as [Hi Hf].
  unfold rjust, dec_text. cbn [fst snd]. apply clean_app; [apply spaces_no_nl|].
  apply clean_app; [apply clean_digits; apply all_digits_forall; exact Hi|].
  apply clean_app; [split; reflexivity|apply clean_digits; apply all_digits_forall; exact Hf].
Qed.
Lemma clean_method : forall m, method_ok m = true -> clean m.
Proof.
  intros m H. unfold method_ok in H. apply andb_true_iff in H. destruct H as [H _]. apply andb_true_iff in H. destruct H as [_ H].
  split.
  - induction m as [|c m IH]; [reflexivity|]. cbn [forallb] in H. apply andb_true_iff in H. destruct H as [Hc Hm].
    cbn [no_nl forallb]. fold (no_nl m). rewrite (IH Hm). apply andb_true_iff in Hc. destruct Hc as [Hc _].
    destruct (N.eqb_spec c c_nl) as [E|E]; [subst c; discriminate|reflexivity].
  - induction m as [|c m IH]; [reflexivity|]. cbn [forallb] in H. apply andb_true_iff in H. destruct H as [Hc Hm].
    cbn [existsb]. rewrite (IH Hm). apply andb_true_iff in Hc. destruct Hc as [Hc _].
    destruct (N.eqb_spec c_cr c) as [E|E]; [subst c; discriminate|reflexivity].
Qed.

Ltac rowp_c := apply rowp_concrete; vm_compute; reflexivity.

Lemma block_rows_rowp : forall b, wblock_ok b = true -> Forall rowp (block_rows b).
Proof.
  intros b H. destruct (wblock_parts b H) as [Hn Hm]. pose proof H as Hw.
  unfold wblock_ok in H. repeat (apply andb_true_iff in H; destruct H as [H ?]).
  rename H4 into Hout, H3 into Hcov, H2 into Hfev, H1 into Hsig, H0 into Htime.
  destruct b as [num meth out near fev sig time cov]. cbn [wb_number wb_method wb_outcome wb_fevals wb_sig wb_near wb_time wb_cov] in *.
  apply Nat.leb_le in Hout. apply Nat.leb_le in Hcov.
  unfold block_rows, render_term_rows, render_tere_rows.
  cbn [wb_number wb_method wb_outcome wb_near wb_fevals wb_sig wb_time wb_cov].
  repeat apply Forall_app_i; fl.
  - apply rowp_sym; [split; reflexivity|apply clean_rjust_digits; exact Hn|vm_compute; reflexivity].
  - apply rowp_sym; [split; reflexivity|apply clean_method; exact Hm|vm_compute; reflexivity].
  - rowp_c.
  - destruct out as [|[|[|[|[|out]]]]]; [| | | | |lia]; fl; rowp_c.
  - destruct near; fl; try rowp_c.
  - destruct fev as [d|]; fl.
    apply rowp_sym; [split; reflexivity|apply clean_rjust_digits; exact Hfev|vm_compute; reflexivity].
  - destruct sig as [ab|]; fl.
    apply rowp_sym; [split; reflexivity|apply clean_rjust_dec; exact Hsig|vm_compute; reflexivity].
  - rowp_c.
  - destruct time as [ab|]; fl. apply andb_true_iff in Htime. destruct Htime as [Hd _].
    apply rowp_sym; [split; reflexivity|apply clean_rjust_dec; exact Hd|vm_compute; reflexivity].
  - destruct cov as [|[|[|[|cov]]]]; [| | | |lia]; fl; rowp_c.
  - rowp_c.
  - rowp_c.
Qed.

(* ---- the whole file ---- *)
Definition s_d1 : text := st "Mon Jan  1 10:00:00 CET 2024".
Definition s_prob : text := st "$PROBLEM synthetic".
Definition s_vpre : text := st "1NONLINEAR MIXED EFFECTS MODEL PROGRAM (NONMEM) VERSION ".
Definition s_stop : text := st "Stop Time:".
Definition s_d2 : text := st "Mon Jan  1 10:00:05 CET 2024".

Definition mid_rows (v : text) (bs : list wblock) : list text :=
  [s_prob; s_vpre ++ v] ++ List.concat (map block_rows bs) ++ [s_stop].

Lemma concat_map_concat {A B} (f : A -> list B) : forall (ls : list (list A)),
    List.concat (map (fun l => List.concat (map f l)) ls) = List.concat (map f (List.concat ls)).
Proof.
  induction ls as [|l ls IH]; [reflexivity|]. cbn [map List.concat]. rewrite IH. rewrite map_app, concat_app. reflexivity.
Qed.

Lemma render_lst_rows : forall v bs, render_lst v bs = List.concat (map line (s_d1 :: mid_rows v bs ++ [s_d2])).
Proof.
  intros v bs. unfold render_lst, lst_head, lst_foot, mid_rows.
  assert (E : List.concat (map render_block bs) = List.concat (map line (List.concat (map block_rows bs)))).
  { rewrite <- (concat_map_concat line). rewrite map_map. reflexivity. }
  rewrite E. cbn [map List.concat app]. rewrite !map_app, !concat_app. cbn [map List.concat app].
  rewrite <- !app_assoc. reflexivity.
Qed.

Lemma split_nl_lines : forall ls, forallb no_nl ls = true -> split_nl (List.concat (map line ls)) = ls ++ [[]].
Proof.
  induction ls as [|l ls IH]; intros H; [reflexivity|]. cbn [forallb] in H. apply andb_true_iff in H. destruct H as [Hl Hls].
  cbn [map List.concat]. unfold line at 1. rewrite <- app_assoc. cbn [app].
  assert (G : forall l0 rest, no_nl l0 = true -> split_nl (l0 ++ c_nl :: rest) = l0 :: split_nl rest).
  { clear. induction l0 as [|c l0 IH0]; intros rest H; [reflexivity|].
    cbn [no_nl forallb] in H. apply andb_true_iff in H. destruct H as [Hc Hl]. apply negb_true_iff in Hc.
    cbn [app split_nl]. rewrite Hc. rewrite IH0 by exact Hl. reflexivity. }
  rewrite G by exact Hl. rewrite IH by exact Hls. reflexivity.
Qed.

Lemma filter_nocr_id : forall t, existsb (N.eqb c_cr) t = false -> filter (fun c => negb (N.eqb c c_cr)) t = t.
Proof.
  induction t as [|c t IH]; intros H; [reflexivity|]. cbn [existsb] in H. apply orb_false_iff in H. destruct H as [Hc Ht].
  cbn [filter]. rewrite N.eqb_sym in Hc. rewrite Hc. cbn [negb]. rewrite IH by exact Ht. reflexivity.
Qed.

Lemma lst_lines_rows : forall a mids z, (forall l, In l (a :: mids ++ [z]) -> clean l) ->
    lst_lines (List.concat (map line (a :: mids ++ [z]))) = line a :: mids ++ [line z].
Proof.
  intros a mids z H. unfold lst_lines.
  destruct (clean_concat_addnl (a :: mids ++ [z]) H) as [_ Hnl].
  assert (El : lines (List.concat (map line (a :: mids ++ [z]))) = map line (a :: mids ++ [z])).
  { pose proof (lines_concat_addnl (a :: mids ++ [z]) [] Hnl) as E. rewrite app_nil_r in E. cbn [lines] in E.
    rewrite app_nil_r in E. exact E. }
  rewrite El. cbn [map]. rewrite map_app. cbn [map].
  rewrite last_last. rewrite removelast_last.
  assert (Hm : forall l, In l mids -> clean l) by (intros l Hl; apply H; right; apply in_or_app; left; exact Hl).
  destruct (clean_concat_addnl mids Hm) as [Hcr Hnl2].
  change (map line mids) with (map addnl mids). rewrite filter_nocr_id by exact Hcr.
  change (map addnl mids) with (map line mids). rewrite split_nl_lines by exact Hnl2.
  change (line a :: mids ++ [[]]) with ((line a :: mids) ++ [[]]). rewrite removelast_last. reflexivity.
Qed.

Lemma machine_blocks : forall bs s, forallb wblock_ok bs = true ->
    c_in_term s = false -> c_in_tere s = false -> c_tere s = [] ->
    fold_left cstep (List.concat (map block_rows bs)) s =
    match bs with [] => s | _ :: _ => mkCore [] [] false false (c_out s ++ List.concat (map items_of bs)) end.
Proof.
  induction bs as [|b bs IH]; intros s H H1 H2 H3; [reflexivity|].
  cbn [forallb] in H. apply andb_true_iff in H. destruct H as [Hb Hbs].
  cbn [map List.concat]. rewrite fold_left_app. rewrite (block_machine b s Hb H1 H2 H3).
  rewrite IH by (try exact Hbs; reflexivity). destruct bs as [|b2 bs2].
  - cbn [map List.concat]. rewrite app_nil_r. reflexivity.
  - cbn [c_out]. rewrite <- app_assoc. reflexivity.
Qed.

Lemma version_props : forall v, version_ok v = true ->
    (exists c r, v = c :: r /\ is_space_re c = false) /\ forallb nonspace v = true /\ clean v /\
    (exists comps, dotted v [] = Some comps /\ ge_720 comps = true) /\ cleanup_version v = v.
Proof.
  intros v H. unfold version_ok in H. repeat (apply andb_true_iff in H; destruct H as [H ?]).
  rename H into Hne, H3 into Hns, H2 into Hd, H1 into HV, H0 into HVI.
  split; [|split; [exact Hns|split; [|split]]].
  - destruct v as [|c r]; [discriminate|]. exists c, r. split; [reflexivity|].
    cbn [forallb] in Hns. apply andb_true_iff in Hns. destruct Hns as [Hc _]. unfold nonspace in Hc. apply negb_true_iff in Hc. exact Hc.
  - split.
    + clear - Hns. induction v as [|c v IH]; [reflexivity|]. cbn [forallb] in Hns. apply andb_true_iff in Hns. destruct Hns as [Hc Hv].
      cbn [no_nl forallb]. fold (no_nl v). rewrite (IH Hv). unfold nonspace, is_space_re in Hc.
      destruct (N.eqb_spec c c_nl) as [E|E]; [subst c; discriminate|reflexivity].
    + clear - Hns. induction v as [|c v IH]; [reflexivity|]. cbn [forallb] in Hns. apply andb_true_iff in Hns. destruct Hns as [Hc Hv].
      cbn [existsb]. rewrite (IH Hv). unfold nonspace, is_space_re in Hc.
      destruct (N.eqb_spec c_cr c) as [E|E]; [subst c; discriminate|reflexivity].
  - destruct (dotted v []) as [comps|]; [|discriminate]. exists comps. split; [reflexivity|exact Hd].
  - unfold cleanup_version. apply negb_true_iff in HV. apply negb_true_iff in HVI. rewrite HV, HVI. reflexivity.
Qed.

Lemma version_line : forall v, version_ok v = true -> version_of (s_vpre ++ v) = Some v.
Proof.
  intros v H. destruct (version_props v H) as [[c [r [E Hc]]] [Hns _]]. unfold version_of.
  assert (E1 : pmatch (lit (st "1NONLINEAR MIXED EFFECTS MODEL PROGRAM (NONMEM) VERSION")) (s_vpre ++ v) = Some (32%N :: v))
    by (vm_compute; reflexivity).
  rewrite E1. change (32%N :: v) with (spaces 1 ++ v). rewrite span_spaces_re by (rewrite E; exact Hc).
  cbn [spaces repeat]. rewrite span_nonspace_all by exact Hns. rewrite E. reflexivity.
Qed.

Definition all_lines (v : text) (bs : list wblock) : list text := line s_d1 :: mid_rows v bs ++ [line s_d2].

Lemma all_lines_rowp : forall v bs, version_ok v = true -> forallb wblock_ok bs = true ->
    Forall rowp (s_d1 :: mid_rows v bs ++ [s_d2]).
Proof.
  intros v bs Hv Hbs. destruct (version_props v Hv) as [_ [_ [Cv _]]].
  constructor; [rowp_c|]. unfold mid_rows. repeat (apply Forall_app; split); fl.
  - rowp_c.
  - apply rowp_sym; [split; reflexivity|exact Cv|vm_compute; reflexivity].
  - clear - Hbs. induction bs as [|b bs IH]; [constructor|]. cbn [forallb] in Hbs. apply andb_true_iff in Hbs. destruct Hbs as [Hb Hr].
    cbn [map List.concat]. apply Forall_app. split; [apply block_rows_rowp; exact Hb|apply IH; exact Hr].
  - rowp_c.
  - rowp_c.
Qed.

Lemma starts_with_line : forall p l, forallb (fun c => negb (N.eqb c c_nl)) p = true ->
    starts_with p l = false -> starts_with p (l ++ [c_nl]) = false.
Proof.
  induction p as [|a p IH]; intros l Hp H; [discriminate|].
  cbn [forallb] in Hp. apply andb_true_iff in Hp. destruct Hp as [Ha Hp]. apply negb_true_iff in Ha.
  destruct l as [|c l].
  - cbn [app starts_with]. rewrite Ha. reflexivity.
  - cbn [app starts_with] in *. destruct (N.eqb a c); [|reflexivity]. cbn [andb] in *. apply IH; assumption.
Qed.

Lemma no_hessian_line : forall l, no_hessian l -> no_hessian (line l).
Proof. intros l H. unfold no_hessian, line in *. apply starts_with_line; [vm_compute; reflexivity|exact H]. Qed.

Lemma nh_lines : forall a mids z, Forall rowp (a :: mids ++ [z]) -> Forall no_hessian (line a :: mids ++ [line z]).
Proof.
  intros a mids z H. rewrite Forall_forall in H. constructor.
  - apply no_hessian_line. apply (H a). left. reflexivity.
  - apply Forall_app_i.
    + apply Forall_forall. intros l Hl. apply (H l). right. apply in_or_app. left. exact Hl.
    + constructor; [|constructor]. apply no_hessian_line. apply (H z). right. apply in_or_app. right. left. reflexivity.
Qed.

Theorem machine_file : forall v bs, version_ok v = true -> forallb wblock_ok bs = true ->
    core_of (fold_left step (all_lines v bs) (mkTS [] [] false false [] [] [])) =
    mkCore [] [] false false (List.concat (map items_of bs)).
Proof.
  intros v bs Hv Hbs. pose proof (all_lines_rowp v bs Hv Hbs) as HR.
  rewrite fold_step_cstep; [| |reflexivity|reflexivity].
  2:{ unfold all_lines. apply nh_lines. exact HR. }
  unfold all_lines, mid_rows. cbn [core_of ts_term ts_tere ts_in_term ts_in_tere ts_out].
  cbn [fold_left]. rewrite !fold_left_app. cbn [fold_left app].
  change (core_of (mkTS [] [] false false [] [] [])) with (mkCore [] [] false false []).
  set (s0 := mkCore [] [] false false []).
  assert (E1 : cstep s0 (line s_d1) = s0) by (vm_compute; reflexivity).
  assert (E2 : cstep s0 s_prob = s0) by (vm_compute; reflexivity).
  assert (E3 : cstep s0 (s_vpre ++ v) = s0).
  { apply cstep_idle; [|reflexivity|reflexivity].
    destruct (version_props v Hv) as [_ [Hns _]].
    assert (Hend : ends_nonspace (s_vpre ++ v)).
    { apply ends_nonspace_app. destruct (exists_last (l := v)) as [l' [c E]].
      - destruct v; [discriminate|discriminate].
      - exists l', c. split; [exact E|]. rewrite E in Hns. rewrite forallb_app' in Hns. apply andb_true_iff in Hns.
        destruct Hns as [_ Hc]. cbn [forallb] in Hc. apply andb_true_iff in Hc. destruct Hc as [Hc _].
        unfold nonspace in Hc. apply negb_true_iff in Hc. exact Hc. }
    rewrite (rstrip_ends _ Hend). vm_compute. reflexivity. }
  rewrite E1, E2, E3. rewrite (machine_blocks bs s0 Hbs eq_refl eq_refl eq_refl).
  destruct bs as [|b bs'].
  - vm_compute. reflexivity.
  - set (s1 := mkCore [] [] false false (c_out s0 ++ List.concat (map items_of (b :: bs')))).
    assert (E4 : cstep s1 s_stop = s1) by (apply cstep_idle; [vm_compute; reflexivity|reflexivity|reflexivity]).
    assert (E5 : cstep s1 (line s_d2) = s1) by (apply cstep_idle; [vm_compute; reflexivity|reflexivity|reflexivity]).
    rewrite E4, E5. reflexivity.
Qed.

Lemma tag_items_file : forall v bs, version_ok v = true -> forallb wblock_ok bs = true ->
    tag_items (all_lines v bs) = Some (v, List.concat (map items_of bs)).
Proof.
  intros v bs Hv Hbs. unfold tag_items.
  assert (Ev : flat_map (fun l => match version_of l with Some v0 => [v0] | None => [] end) (all_lines v bs) =
               v :: flat_map (fun l => match version_of l with Some v0 => [v0] | None => [] end)
                             (List.concat (map block_rows bs) ++ [s_stop] ++ [line s_d2])).
  { unfold all_lines, mid_rows. cbn [flat_map app].
    assert (version_of (line s_d1) = None) as -> by (vm_compute; reflexivity).
    assert (version_of s_prob = None) as -> by (vm_compute; reflexivity).
    rewrite (version_line v Hv). cbn [app]. rewrite <- app_assoc. reflexivity. }
  rewrite Ev. destruct (version_props v Hv) as [_ [_ [_ [[comps [Ed Hg]] Ec]]]].
  rewrite Ec, Ed, Hg.
  pose proof (machine_file v bs Hv Hbs) as M.
  pose proof (f_equal c_in_term M) as M3. pose proof (f_equal c_in_tere M) as M4. pose proof (f_equal c_out M) as M5.
  cbn [core_of c_in_term c_in_tere c_out] in M3, M4, M5. clear M.
  rewrite M3, M4, M5. rewrite !app_nil_r. reflexivity.
Qed.

(* ---- table_blocks / facts ---- *)
Definition blk (b : wblock) : block :=
  mkBlock (Some (digits_val (wb_number b))) [(st "METH", wb_method b); (st "OBJV", st "586.276")]
          (Some (term_of_wblock b)) (Some (tere_of_wblock b)).

Definition push (acc : list block) (cur : block) : list block :=
  match bk_tags cur, bk_term cur, bk_tere cur with [], None, None => acc | _, _, _ => acc ++ [cur] end.

Lemma parse_int_digits : forall n, all_digits n = true -> parse_int n = Some (Zdigits n).
Proof.
  intros d H. pose proof (all_digits_spec d H) as [Hne Hd]. unfold parse_int.
  destruct d as [|c d']; [congruence|].
  assert (Hc : is_digit c = true) by (cbn [forallb] in Hd; apply andb_true_iff in Hd; apply Hd).
  pose proof (split_sign_text false c d' Hc) as S. cbn [sign_text app] in S. rewrite S. rewrite Hd. reflexivity.
Qed.

Lemma add_items_block : forall b acc cur, all_digits (wb_number b) = true ->
    fold_left (fun stt it => add_item (fst stt) (snd stt) it) (items_of b) (acc, cur) = (push acc cur, blk b).
Proof.
  intros b acc cur Hn. unfold items_of, blk. cbn. rewrite (parse_int_digits _ Hn). unfold Zdigits. rewrite N2Z.id.
  fold (push acc cur). reflexivity.
Qed.

Lemma table_blocks_fold : forall bs acc cur, forallb wblock_ok bs = true ->
    fold_left (fun stt it => add_item (fst stt) (snd stt) it) (List.concat (map items_of bs)) (acc, cur) =
    match bs with
    | [] => (acc, cur)
    | _ :: _ => (push acc cur ++ map blk (removelast bs), blk (last bs (mkWBlock [] [] 0 false None None None 0)))
    end.
Proof.
  induction bs as [|b bs IH]; intros acc cur H; [reflexivity|].
  cbn [forallb] in H. apply andb_true_iff in H. destruct H as [Hb Hbs]. destruct (wblock_parts b Hb) as [Hn _].
  cbn [map List.concat]. rewrite fold_left_app. rewrite (add_items_block b acc cur Hn).
  rewrite IH by exact Hbs. destruct bs as [|b2 bs2].
  - cbn. rewrite app_nil_r. reflexivity.
  - assert (Hp : push (push acc cur) (blk b) = push acc cur ++ [blk b]) by reflexivity.
    rewrite Hp. rewrite <- app_assoc. reflexivity.
Qed.

Lemma table_blocks_file : forall bs, forallb wblock_ok bs = true -> table_blocks (List.concat (map items_of bs)) = map blk bs.
Proof.
  intros bs H. unfold table_blocks. rewrite (table_blocks_fold bs [] (mkBlock None [] None None) H).
  destruct bs as [|b bs']; [reflexivity|].
  set (d := mkWBlock [] [] 0 false None None None 0).
  assert (Hp : push [] (mkBlock None [] None None) = []) by reflexivity. rewrite Hp. cbn [app blk bk_tags bk_term bk_tere].
  change (mkBlock (Some (digits_val (wb_number (last (b :: bs') d))))
            [(st "METH", wb_method (last (b :: bs') d)); (st "OBJV", st "586.276")]
            (Some (term_of_wblock (last (b :: bs') d))) (Some (tere_of_wblock (last (b :: bs') d))))
    with (blk (last (b :: bs') d)).
  change [blk (last (b :: bs') d)] with (map blk [last (b :: bs') d]).
  rewrite <- map_app. rewrite <- app_removelast_last by discriminate. reflexivity.
Qed.

Lemma last_opt_filter_map {A B} (f : A -> B) (p : B -> bool) : forall l,
    last_opt (filter p (map f l)) = option_map f (last_opt (filter (fun x => p (f x)) l)).
Proof.
  intros l. assert (E : filter p (map f l) = map f (filter (fun x => p (f x)) l)).
  { induction l as [|x l IH]; [reflexivity|]. cbn [map filter]. destruct (p (f x)); [cbn [map]; rewrite IH|rewrite IH]; reflexivity. }
  rewrite E. apply last_opt_map.
Qed.

Lemma facts_for_file : forall bs n, facts_for (map blk bs) n = expected_facts bs n.
Proof.
  intros bs n. unfold facts_for, block_no, expected_facts.
  rewrite (last_opt_filter_map blk (fun b => match bk_number b with Some k => N.eqb k n | None => false end) bs).
  cbn [blk bk_number].
  destruct (last_opt (filter (fun x => N.eqb (digits_val (wb_number x)) n) bs)) as [b|]; reflexivity.
Qed.

Lemma items_not_bad : forall bs, forallb wblock_ok bs = true -> existsb item_bad (List.concat (map items_of bs)) = false.
Proof.
  induction bs as [|b bs IH]; intros H; [reflexivity|]. cbn [forallb] in H. apply andb_true_iff in H. destruct H as [Hb Hbs].
  cbn [map List.concat]. rewrite existsb_app', (IH Hbs), orb_false_r.
  destruct (wblock_parts b Hb) as [Hn _]. unfold items_of. cbn [existsb item_bad].
  rewrite (parse_int_digits _ Hn).
  assert (Hz : (Zdigits (wb_number b) <? 0)%Z = false) by (unfold Zdigits; lia).
  rewrite Hz. cbn [andb orb].
  assert (text_eqb (st "METH") (st "TBLN") = false) as -> by reflexivity.
  assert (text_eqb (st "OBJV") (st "TBLN") = false) as -> by reflexivity. cbn [andb orb].
  unfold term_bad, term_of_wblock, tere_of_wblock. cbn [tm_sig_digits tm_fevals tm_ofv_const te_est_time].
  destruct (wb_sig b); destruct (wb_fevals b); destruct (wb_time b); reflexivity.
Qed.

(* parse_render_lst: every well-formed rendered results file is read back as the written facts *)
Theorem parse_render_lst_lemma : forall v bs numbers, version_ok v = true -> forallb wblock_ok bs = true ->
    read_lst (render_lst v bs) numbers = LstOk v (map (fun n => (n, expected_facts bs n)) numbers).
Proof.
  intros v bs numbers Hv Hbs. unfold read_lst. rewrite render_lst_rows.
  rewrite lst_lines_rows.
  2:{ intros l Hin. pose proof (all_lines_rowp v bs Hv Hbs) as HR. rewrite Forall_forall in HR. apply HR. exact Hin. }
  fold (all_lines v bs). rewrite (tag_items_file v bs Hv Hbs). rewrite (items_not_bad bs Hbs).
  destruct (version_props v Hv) as [_ [_ [_ [[comps [Ed Hg]] _]]]]. rewrite Ed, Hg.
  rewrite (table_blocks_file bs Hbs). f_equal. apply map_ext. intros n. rewrite facts_for_file. reflexivity.
Qed.
