(* PV.C20.Model — executable model of how pharmpy reads NONMEM output:
     pharmpy/model/external/nonmem/table.py   NONMEMTableFile.__init__/_parse_table, NONMEMTable (pandas
                                              read_table with sep=\s+ as a contract), rename_index, ExtTable,
                                              CovTable, PhiTable
     pharmpy/tools/external/nonmem/results.py _get_iter_df, _parse_ofv, _parse_parameter_estimates,
                                              _parse_standard_errors, _get_fixed_parameters, _parse_matrix
     pharmpy/internals/math.py                triangular_root, flattened_to_symmetric
   plus the reference WRITER of docs/NONMEM.rst (render_wfile) and the decimal -> binary64 rule (round_b64).
   Text is a list of character codes (N); values are exact rationals (Q); NaN is None.
   No proofs in this file. *)
From Coq Require Import List NArith ZArith QArith Qround Bool Arith Lia.
Import ListNotations.
Local Open Scope N_scope.

Definition text := list N.

(* ------------------------------------------------------------------------------------------------ *)
(** * Characters and small text utilities *)

Definition c_nl : N := 10.  Definition c_cr : N := 13.  Definition c_sp : N := 32.  Definition c_tab : N := 9.
Definition c_minus : N := 45.  Definition c_plus : N := 43.  Definition c_dot : N := 46.
Definition c_colon : N := 58.  Definition c_us : N := 95.  Definition c_0 : N := 48.

Definition is_digit (c : N) : bool := (48 <=? c) && (c <=? 57).
Definition is_upper (c : N) : bool := (65 <=? c) && (c <=? 90).
Definition is_lower (c : N) : bool := (97 <=? c) && (c <=? 122).
Definition is_alpha (c : N) : bool := is_upper c || is_lower c.
(* Python's \w on ASCII str *)
Definition is_word (c : N) : bool := is_alpha c || is_digit c || (c =? c_us).
(* Python's \s on ASCII str: \t\n\v\f\r, \x1c..\x1f, space *)
Definition is_space_re (c : N) : bool := ((9 <=? c) && (c <=? 13)) || ((28 <=? c) && (c <=? 32)).
(* pandas C tokenizer in delim_whitespace mode: only blank and tab separate fields *)
Definition is_delim (c : N) : bool := (c =? c_sp) || (c =? c_tab).

Definition text_eqb (a b : text) : bool :=
  (fix go (a b : text) : bool :=
     match a, b with
     | [], [] => true
     | x :: a', y :: b' => (x =? y) && go a' b'
     | _, _ => false
     end) a b.

Fixpoint starts_with (p s : text) : bool :=
  match p, s with
  | [], _ => true
  | a :: p', b :: s' => (a =? b) && starts_with p' s'
  | _ :: _, [] => false
  end.

(* Some rest when s = p ++ rest *)
Fixpoint drop_prefix (p s : text) : option text :=
  match p, s with
  | [], _ => Some s
  | a :: p', b :: s' => if a =? b then drop_prefix p' s' else None
  | _ :: _, [] => None
  end.

Fixpoint contains (p s : text) : bool :=
  starts_with p s || match s with [] => false | _ :: tl => contains p tl end.

Fixpoint span (p : N -> bool) (s : text) : text * text :=
  match s with
  | [] => ([], [])
  | c :: tl => if p c then let (a, b) := span p tl in (c :: a, b) else ([], s)
  end.

Definition digit_val (c : N) : N := c - 48.
Definition digits_val (ds : text) : N := fold_left (fun acc d => acc * 10 + digit_val d) ds 0.

(* string literals used by the code, as character codes *)
Definition s_TABLE_NO_dot : text := [84;65;66;76;69;32;78;79;46].          (* "TABLE NO." *)
Definition s_TABLE_NO : text := [84;65;66;76;69;32;78;79].                 (* "TABLE NO"  *)
Definition s_OBJ : text := [79;66;74].
Definition s_Evaluation : text := [69;118;97;108;117;97;116;105;111;110].
Definition s_colon_sp : text := [58;32].
Definition s_Goal : text := [71;111;97;108;32;70;117;110;99;116;105;111;110;61].   (* "Goal Function=" *)
Definition s_Problem : text := [80;114;111;98;108;101;109;61].                      (* "Problem=" *)
Definition s_Subproblem : text := [32;83;117;98;112;114;111;98;108;101;109;61].     (* " Subproblem=" *)
Definition s_Superproblem1 : text := [32;83;117;112;101;114;112;114;111;98;108;101;109;49;61].
Definition s_Iteration1 : text := [32;73;116;101;114;97;116;105;111;110;49;61].
Definition s_Superproblem2 : text := [32;83;117;112;101;114;112;114;111;98;108;101;109;50;61].
Definition s_Iteration2 : text := [32;73;116;101;114;97;116;105;111;110;50;61].
Definition s_THETA : text := [84;72;69;84;65].
Definition s_OMEGA : text := [79;77;69;71;65].
Definition s_SIGMA : text := [83;73;71;77;65].
Definition s_ITERATION : text := [73;84;69;82;65;84;73;79;78].
Definition s_NAME : text := [78;65;77;69].
Definition s_ID : text := [73;68].
Definition s_ETA : text := [69;84;65].
Definition s_PHI : text := [80;72;73].
Definition s_ETC : text := [69;84;67].
Definition s_PHC : text := [80;72;67].

(* ------------------------------------------------------------------------------------------------ *)
(** * Reading the file: text mode (universal newlines), iteration over lines (keepends) *)

(* open(path, 'r'): "\r\n" and a lone "\r" are translated to "\n" *)
Fixpoint universal_newlines (t : text) : text :=
  match t with
  | [] => []
  | c :: tl =>
      if c =? c_cr then
        match tl with
        | d :: tl' => if d =? c_nl then c_nl :: universal_newlines tl' else c_nl :: universal_newlines tl
        | [] => [c_nl]
        end
      else c :: universal_newlines tl
  end.

(* for line in tablefile: every line keeps its "\n"; a last line without "\n" is a line too *)
Fixpoint lines (t : text) : list text :=
  match t with
  | [] => []
  | c :: tl =>
      if c =? c_nl then [c] :: lines tl
      else match lines tl with
           | [] => [[c]]
           | l :: ls => (c :: l) :: ls
           end
  end.

(* str.splitlines(keepends=True) on ASCII text after newline translation: also \v \f \x1c \x1d \x1e *)
Definition is_splitlines_sep (c : N) : bool :=
  (c =? 10) || (c =? 11) || (c =? 12) || (c =? 13) || (c =? 28) || (c =? 29) || (c =? 30).
Fixpoint splitlines (t : text) : list text :=
  match t with
  | [] => []
  | c :: tl =>
      if is_splitlines_sep c then [c] :: splitlines tl
      else match splitlines tl with
           | [] => [[c]]
           | l :: ls => (c :: l) :: ls
           end
  end.

(* ------------------------------------------------------------------------------------------------ *)
(** * NONMEMTableFile.__init__: splitting into tables on lines that start with "TABLE NO." *)

Definition is_table_line (l : text) : bool := starts_with s_TABLE_NO_dot l.

(*  current = []
    for line in tablefile:
        if line.startswith("TABLE NO."):
            if current: tables.append(parse(current))
            current = [line]
        else: current.append(line)
    tables.append(parse(current))                                                                  *)
Fixpoint split_from (cur : list text) (ls : list text) : list (list text) :=
  match ls with
  | [] => [cur]
  | l :: tl =>
      if is_table_line l then
        match cur with
        | [] => split_from [l] tl
        | _ :: _ => cur :: split_from [l] tl
        end
      else split_from (cur ++ [l]) tl
  end.
Definition split_tables (ls : list text) : list (list text) := split_from [] ls.

(* ------------------------------------------------------------------------------------------------ *)
(** * The title line: re.match(r'TABLE NO.\s+(\d+)', ...), re.search('(Evaluation)'), and the long regex *)

(* r'TABLE NO.\s+(\d+)' anchored at the start: the dot matches any character but a newline; \s+ and \d+
   are greedy and cannot give characters back usefully (a shorter \s+ would need \d to match a blank) *)
Definition match_number_prefix (line : text) : option (N * text) :=
  match drop_prefix s_TABLE_NO line with
  | Some (c :: r) =>
      if c =? c_nl then None else
      let (ws, r1) := span is_space_re r in
      match ws with
      | [] => None
      | _ :: _ => let (ds, r2) := span is_digit r1 in
                  match ds with [] => None | _ :: _ => Some (digits_val ds, r2) end
      end
  | _ => None
  end.
Definition parse_table_number (line : text) : option N := option_map fst (match_number_prefix line).

(* "(\d+)" followed by a literal *)
Definition take_number (s : text) : option (N * text) :=
  let (ds, r) := span is_digit s in
  match ds with [] => None | _ :: _ => Some (digits_val ds, r) end.

Definition lit_number (lit s : text) : option (N * text) :=
  match drop_prefix lit s with Some r => take_number r | None => None end.

(* 'Problem=(\d+) Subproblem=(\d+) Superproblem1=(\d+) Iteration1=(\d+) Superproblem2=(\d+) Iteration2=(\d+)' *)
Definition parse_tail (s : text) : option (list N) :=
  match lit_number s_Problem s with
  | Some (a, s1) =>
    match lit_number s_Subproblem s1 with
    | Some (b, s2) =>
      match lit_number s_Superproblem1 s2 with
      | Some (c, s3) =>
        match lit_number s_Iteration1 s3 with
        | Some (d, s4) =>
          match lit_number s_Superproblem2 s4 with
          | Some (e, s5) =>
            match lit_number s_Iteration2 s5 with
            | Some (f, _) => Some [a; b; c; d; e; f]
            | None => None end
          | None => None end
        | None => None end
      | None => None end
    | None => None end
  | None => None end.

(* the greedy group DOT-STAR followed by ': ' and the tail: the LONGEST prefix g (without newline) such that ': ' and the tail
   follow.  Returns g and the six numbers. *)
Fixpoint goal_longest (s : text) : option (text * list N) :=
  let here := match drop_prefix s_colon_sp s with
              | Some r => match parse_tail r with Some ids => Some ([], ids) | None => None end
              | None => None
              end in
  match s with
  | [] => here
  | c :: tl =>
      if c =? c_nl then here
      else match goal_longest tl with
           | Some (g, ids) => Some (c :: g, ids)
           | None => here
           end
  end.

(* ': ' then the optional non-capturing group 'Goal Function=' DOT-STAR ': ' then the tail — returns (goal function, ids) *)
Definition after_colon (s : text) : option (option text * list N) :=
  match drop_prefix s_colon_sp s with
  | None => None
  | Some r =>
      let without := match parse_tail r with Some ids => Some (None, ids) | None => None end in
      match drop_prefix s_Goal r with
      | Some r' => match goal_longest r' with
                   | Some (g, ids) => Some (Some g, ids)
                   | None => without
                   end
      | None => without
      end
  end.

Definition is_design_char (c : N) : bool := is_word c || (c =? c_minus).

(* at one candidate end of the lazy method group: first WITH the optional design group ': ' [\w-]+ , then without *)
Definition after_method (s : text) : option (option text * option text * list N) :=
  let without := match after_colon s with Some (g, ids) => Some (None, g, ids) | None => None end in
  match drop_prefix s_colon_sp s with
  | Some r =>
      let (w, r2) := span is_design_char r in
      match w with
      | [] => without
      | _ :: _ => match after_colon r2 with
                  | Some (g, ids) => Some (Some w, g, ids)
                  | None => without
                  end
      end
  | None => without
  end.

(* the lazy method group: the SHORTEST method text after which the rest matches *)
Fixpoint method_shortest (s : text) : option (text * option text * option text * list N) :=
  match after_method s with
  | Some (d, g, ids) => Some ([], d, g, ids)
  | None =>
      match s with
      | [] => None
      | c :: tl =>
          if c =? c_nl then None
          else match method_shortest tl with
               | Some (m, d, g, ids) => Some (c :: m, d, g, ids)
               | None => None
               end
      end
  end.

Record title := mkTitle {
  t_number : N;
  t_eval : bool;
  t_fields : option (text * option text * option text * list N)   (* method, design optimality, goal, ids *)
}.

Definition parse_title (line : text) : option title :=
  match match_number_prefix line with
  | None => None
  | Some (n, r) =>
      Some (mkTitle n (contains s_Evaluation line)
              (match drop_prefix s_colon_sp r with
               | Some r' => method_shortest r'
               | None => None
               end))
  end.

(* ------------------------------------------------------------------------------------------------ *)
(** * re.sub(r"[A-Z]*OBJ", "OBJ", content_str) *)

(* greedy [A-Z]* then OBJ with backtracking, tried at the head of s: offset of the LAST "OBJ" that starts
   inside the run of capitals at the head of s *)
Fixpoint last_obj (s : text) : option nat :=
  match s with
  | [] => None
  | c :: tl =>
      if is_upper c then
        match last_obj tl with
        | Some k => Some (S k)
        | None => if starts_with s_OBJ s then Some O else None
        end
      else None
  end.

Fixpoint sub_obj_aux (skip : nat) (s : text) : text :=
  match s with
  | [] => []
  | c :: tl =>
      match skip with
      | S n => sub_obj_aux n tl
      | O => match last_obj s with
             | Some k => s_OBJ ++ sub_obj_aux (k + 2)%nat tl
             | None => c :: sub_obj_aux O tl
             end
      end
  end.
Definition sub_obj (s : text) : text := sub_obj_aux O s.

(* ------------------------------------------------------------------------------------------------ *)
(** * pandas.read_table(StringIO(content), sep=r'\s+', engine='c', float_precision='round_trip') — contract *)

(* one record: fields separated by runs of blanks/tabs, leading and trailing ones ignored *)
Fixpoint tokens (s : text) : list text :=
  match s with
  | [] => []
  | c :: tl =>
      if is_delim c then tokens tl
      else match tl with
           | [] => [[c]]
           | d :: _ => if is_delim d then [c] :: tokens tl
                       else match tokens tl with
                            | t :: ts => (c :: t) :: ts
                            | [] => [[c]]
                            end
           end
  end.

(* records: split at "\n" (terminator dropped); records without any field are skipped *)
Fixpoint records_aux (s : text) : list text :=
  match s with
  | [] => [[]]
  | c :: tl => if c =? c_nl then [] :: records_aux tl
               else match records_aux tl with
                    | l :: ls => (c :: l) :: ls
                    | [] => [[c]]
                    end
  end.
Definition records (s : text) : list (list text) :=
  filter (fun r => match r with [] => false | _ => true end) (map tokens (records_aux s)).

Inductive cell :=
| CNum (q : Q)        (* a number (int64 or float64 column) *)
| CNaN                (* missing *)
| CStr (t : text).    (* an element of a string column *)

Inductive tok_class :=
| KInt (z : Z)
| KFloat (q : Q)
| KNa
| KStr
| KWeird.            (* accepted by pandas in a way this model does not describe: the case is inconclusive *)

Definition pow10 (e : Z) : Q :=
  match e with
  | Z0 => 1%Q
  | Zpos p => inject_Z (Z.pow 10 (Zpos p))
  | Zneg p => (1 # Pos.pow 10 p)%Q
  end.

Definition Zdigits (ds : text) : Z := Z.of_N (digits_val ds).

(* an optional sign *)
Definition split_sign (t : text) : bool * text :=
  match t with
  | c :: r => if c =? c_minus then (true, r) else if c =? c_plus then (false, r) else (false, t)
  | [] => (false, t)
  end.

(* [+-]? digits  — str_to_int64 *)
Definition parse_int (t : text) : option Z :=
  let '(neg, r) := split_sign t in
  match r with
  | [] => None
  | _ :: _ => if forallb is_digit r then Some (if neg then Z.opp (Zdigits r) else Zdigits r) else None
  end.

(* Python float syntax without inf/nan: [+-]? (digits [. digits*] | . digits) ([eE] [+-]? digits)? *)
Definition parse_float (t : text) : option Q :=
  let '(neg, r) := split_sign t in
  let (ip, r1) := span is_digit r in
  let '(fp, r2, hasdot) := match r1 with
                           | c :: r1' => if c =? c_dot then let (f, r2) := span is_digit r1' in (f, r2, true)
                                         else ([], r1, false)
                           | [] => ([], r1, false)
                           end in
  match ip, fp with
  | [], [] => None
  | _, _ =>
      let mant := Zdigits (ip ++ fp) in
      let fexp := Z.opp (Z.of_nat (length fp)) in
      let eo := match r2 with
                | [] => Some 0%Z
                | c :: r3 =>
                    if (c =? 69) || (c =? 101) then
                      let '(eneg, r4) := split_sign r3 in
                      match r4 with
                      | [] => None
                      | _ :: _ => if forallb is_digit r4
                                  then Some (if eneg then Z.opp (Zdigits r4) else Zdigits r4) else None
                      end
                    else None
                end in
      match eo with
      | Some e => let v := Qred (inject_Z mant * pow10 (fexp + e)) in Some (if neg then Qopp v else v)
      | None => None
      end
  end.

(* the default na_values of pandas *)
Definition na_strings : list text :=
  [ [78;97;78]; [110;97;110]; [45;78;97;78]; [45;110;97;110]; [78;65]; [78;47;65]; [110;47;97];
    [78;85;76;76]; [110;117;108;108]; [35;78;47;65]; [35;78;65]; [60;78;65;62]; [78;111;110;101];
    [45;49;46;35;73;78;68]; [49;46;35;73;78;68]; [45;49;46;35;81;78;65;78]; [49;46;35;81;78;65;78] ].

Definition lower (c : N) : N := if is_upper c then c + 32 else c.
Definition strip_sign (t : text) : text :=
  match t with c :: r => if (c =? c_minus) || (c =? c_plus) then r else t | [] => t end.
Definition weird_words : list text :=
  [ [105;110;102]; [105;110;102;105;110;105;116;121]; [110;97;110]; [116;114;117;101]; [102;97;108;115;101] ].

Definition classify (t : text) : tok_class :=
  if existsb (text_eqb t) na_strings then KNa
  else if existsb (N.eqb 34) t then KWeird                                   (* a double quote *)
  else if existsb (text_eqb (map lower (strip_sign t))) weird_words then KWeird
  else match parse_int t with
       | Some z => if (19 <=? N.of_nat (length t)) then KWeird else KInt z   (* possible int64 overflow *)
       | None => match parse_float t with
                 | Some q => KFloat q
                 | None => KStr
                 end
       end.

Definition nth_tok (r : list text) (j : nat) : option text := nth_error r j.

(* a column: string column as soon as one present, non-NA token is not a number *)
Definition col_is_str (rows : list (list text)) (j : nat) : bool :=
  existsb (fun r => match nth_tok r j with
                    | Some t => match classify t with KStr => true | _ => false end
                    | None => false end) rows.
Definition col_is_weird (rows : list (list text)) (j : nat) : bool :=
  existsb (fun r => match nth_tok r j with
                    | Some t => match classify t with KWeird => true | _ => false end
                    | None => false end) rows.

Definition cell_of (isstr : bool) (o : option text) : cell :=
  match o with
  | None => CNaN
  | Some t =>
      match classify t with
      | KNa => CNaN
      | KInt z => if isstr then CStr t else CNum (inject_Z z)
      | KFloat q => if isstr then CStr t else CNum q
      | KStr | KWeird => CStr t
      end
  end.

Record frame := mkFrame {
  f_cols : list text;
  f_rows : list (nat * list cell)      (* index label, cells (one per column) *)
}.

Inductive rres (A : Type) :=
| ROk (a : A)
| RErr (k : N)          (* 1 OSError, 2 ValueError family (EmptyDataError, ParserError, ...), 3 KeyError, 4 other *)
| RUnmodelled.          (* outside the described contract: inconclusive *)
Arguments ROk {A} a. Arguments RErr {A} k. Arguments RUnmodelled {A}.

Fixpoint has_dup (l : list text) : bool :=
  match l with
  | [] => false
  | x :: tl => existsb (text_eqb x) tl || has_dup tl
  end.

Fixpoint number_from (i : nat) {A} (l : list A) : list (nat * A) :=
  match l with [] => [] | x :: tl => (i, x) :: number_from (S i) tl end.

Fixpoint digits_of_nat_aux (fuel n : nat) (acc : text) : text :=
  match fuel with
  | O => acc
  | S f => let acc' := (48 + N.of_nat (n mod 10)) :: acc in
           if (n / 10 =? 0)%nat then acc' else digits_of_nat_aux f (n / 10) acc'
  end.
Definition digits_of_nat (n : nat) : text := digits_of_nat_aux (S n) n [].

(* the records of a table under given column names *)
Definition frame_of_records (header : list text) (rows : list (list text)) : rres frame :=
  let n := length header in
  match rows with
  | r0 :: _ => if (n <? length r0)%nat then RUnmodelled else        (* implicit index columns *)
      if existsb (fun r => (n <? length r)%nat) rows then RErr 2    (* ParserError *)
      else if existsb (col_is_weird rows) (seq 0 n) then RUnmodelled
      else ROk (mkFrame header
                  (number_from 0 (map (fun r => map (fun j => cell_of (col_is_str rows j) (nth_tok r j))
                                                     (seq 0 n)) rows)))
  | [] => ROk (mkFrame header [])
  end.

(* header='infer': the first record gives the column names *)
Definition read_frame (content : text) : rres frame :=
  match records content with
  | [] => RErr 2                                        (* EmptyDataError: No columns to parse *)
  | header :: rows =>
      if has_dup header then RUnmodelled                (* pandas mangles duplicate names *)
      else frame_of_records header rows
  end.

(* header=None ($TABLE NOHEADER / NOLABEL): every record is data, the columns are numbered 0, 1, ... after the
   first record *)
Definition read_frame_nolabel (content : text) : rres frame :=
  match records content with
  | [] => RErr 2
  | r0 :: rest => frame_of_records (map digits_of_nat (seq 0 (length r0))) (r0 :: rest)
  end.

(* ------------------------------------------------------------------------------------------------ *)
(** * NONMEMTableFile._parse_table *)

Inductive suffix := SExt | SPhi | SCov | SOther.

(* re.match(r'\s[A-Za-z_]', line) *)
Definition header_like (l : text) : bool :=
  match l with
  | a :: b :: _ => is_space_re a && (is_alpha b || (b =? c_us))
  | _ => false
  end.

Definition drop_repeated_headers (content : list text) : list text :=
  match content with
  | [] => []
  | h :: tl => h :: filter (fun l => negb (header_like l)) tl
  end.

Record table := mkTable {
  tb_title : option title;         (* None for notitle *)
  tb_frame : frame
}.

(* content: the lines of one table (first the title line unless notitle) *)
Definition parse_table (sfx : suffix) (notitle nolabel : bool) (content : list text) : rres table :=
  let '(tline, body) := if notitle then (None, content)
                        else match content with
                             | l :: b => (Some l, b)
                             | [] => (None, [])        (* unreachable: the file is not empty *)
                             end in
  let fr := match sfx with
            | SOther => (if nolabel then read_frame_nolabel else read_frame) (concat (drop_repeated_headers body))
            | _ => read_frame (sub_obj (concat body))
            end in
  match fr with
  | RErr k => RErr k
  | RUnmodelled => RUnmodelled
  | ROk f =>
      match tline with
      | None => ROk (mkTable None f)
      | Some l => match parse_title l with
                  | None => RErr 2                       (* Illegal file: missing TABLE NO. *)
                  | Some t => ROk (mkTable (Some t) f)
                  end
      end
  end.

Fixpoint sequence {A} (l : list (rres A)) : rres (list A) :=
  match l with
  | [] => ROk []
  | x :: tl => match x with
               | RErr k => RErr k
               | RUnmodelled => RUnmodelled
               | ROk a => match sequence tl with
                          | ROk r => ROk (a :: r)
                          | RErr k => RErr k
                          | RUnmodelled => RUnmodelled
                          end
               end
  end.

(* NONMEMTableFile(path, notitle, nolabel): [raw] is the content of the file *)
Definition read_table_file (sfx : suffix) (notitle nolabel : bool) (raw : text) : rres (list table) :=
  match raw with
  | [] => RErr 1                                         (* OSError("Empty table file") *)
  | _ :: _ =>
      let t := universal_newlines raw in
      if notitle then
        (* the suffix is not passed on this path: generic table *)
        match parse_table SOther true nolabel (splitlines t) with
        | ROk tb => ROk [tb] | RErr k => RErr k | RUnmodelled => RUnmodelled end
      else sequence (map (parse_table sfx false nolabel) (split_tables (lines t)))
  end.

(* ------------------------------------------------------------------------------------------------ *)
(** * Frames: column access, NONMEMTable.rename_index *)

Fixpoint index_of (x : text) (l : list text) : option nat :=
  match l with
  | [] => None
  | y :: tl => if text_eqb x y then Some O else option_map S (index_of x tl)
  end.

Definition cell_at (r : list cell) (j : option nat) : cell :=
  match j with Some k => nth k r CNaN | None => CNaN end.

(* df.reindex(labels, axis=1): columns picked by name, absent ones are NaN *)
Definition reindex_cols (f : frame) (labels : list text) : frame :=
  let idx := map (fun l => index_of l (f_cols f)) labels in
  mkFrame labels (map (fun ir => (fst ir, map (cell_at (snd ir)) idx)) (f_rows f)).

(* str.replace(r'THETA(\d+)', r'THETA(\1)', regex=True): every occurrence *)
Fixpoint theta_paren_aux (skip : nat) (s : text) : text :=
  match s with
  | [] => []
  | c :: tl =>
      match skip with
      | S n => theta_paren_aux n tl
      | O => match drop_prefix s_THETA s with
             | Some r => let (ds, _) := span is_digit r in
                         match ds with
                         | [] => c :: theta_paren_aux O tl
                         | _ :: _ => s_THETA ++ [40] ++ ds ++ [41] ++ theta_paren_aux (4 + length ds)%nat tl
                         end
             | None => c :: theta_paren_aux O tl
             end
      end
  end.
Definition rename_theta (s : text) : text := theta_paren_aux O s.

Definition param_labels (cols : list text) : list text :=
  filter (starts_with s_THETA) cols ++ filter (starts_with s_OMEGA) cols ++ filter (starts_with s_SIGMA) cols.

(* rename_index(df, ext=True) *)
Definition rename_index_ext (f : frame) : frame :=
  let labels := [s_ITERATION] ++ param_labels (f_cols f) ++ [s_OBJ] in
  let g := reindex_cols f labels in
  mkFrame (map rename_theta labels) (f_rows g).

Definition is_nan (c : cell) : bool := match c with CNaN => true | _ => false end.
Definition col_cells (f : frame) (name : text) : list cell :=
  let j := index_of name (f_cols f) in map (fun ir => cell_at (snd ir) j) (f_rows f).

(* ExtTable.data_frame *)
Definition ext_data_frame (f : frame) : rres frame :=
  let g := rename_index_ext f in
  if has_dup (f_cols g) then RUnmodelled
  else if forallb is_nan (col_cells g s_ITERATION) then RErr 2       (* 'Broken table in ext-file' *)
  else if existsb (fun c => match c with CStr _ => true | _ => false end) (col_cells g s_ITERATION)
       then RUnmodelled
  else ROk g.

(* ------------------------------------------------------------------------------------------------ *)
(** * ExtTable: the special ITERATION codes NONMEM designates (NONMEM 7 guide, "$EST: Additional output files") *)

Definition code_final : Z := (-1000000000)%Z.      (* final estimates and objective value *)
Definition code_se : Z := (-1000000001)%Z.         (* standard errors *)
Definition code_eigen : Z := (-1000000002)%Z.      (* eigenvalues of the correlation matrix *)
Definition code_cond : Z := (-1000000003)%Z.       (* condition number, lowest, highest eigenvalue *)
Definition code_sdcorr : Z := (-1000000004)%Z.     (* OMEGA/SIGMA in sd/correlation form *)
Definition code_se_sdcorr : Z := (-1000000005)%Z.  (* standard errors of the sd/correlation form *)
Definition code_fixed : Z := (-1000000006)%Z.      (* 1 = fixed, 0 = estimated *)
Definition code_term : Z := (-1000000007)%Z.       (* termination status *)

(* the codes the pharmpy properties use, in the order
   final_parameter_estimates, standard_errors, condition_number, omega_sigma_stdcorr,
   omega_sigma_se_stdcorr, fixed, final_ofv, initial_ofv (first try), initial_ofv (fallback) *)
Definition used_codes : list Z :=
  [code_final; code_se; code_cond; code_sdcorr; code_se_sdcorr; code_fixed; code_final; 0%Z; code_final].

Definition cell_is (z : Z) (c : cell) : bool :=
  match c with CNum q => Qeq_bool q (inject_Z z) | _ => false end.

(* rows whose ITERATION equals the code (df.loc[df['ITERATION'] == iteration]) *)
Definition rows_with (g : frame) (z : Z) : list (nat * list cell) :=
  let j := index_of s_ITERATION (f_cols g) in
  filter (fun ir => cell_is z (cell_at (snd ir) j)) (f_rows g).

Definition drop_first_last {A} (l : list A) : list A := removelast (tl l).

(* _get_parameters(iteration): the row without ITERATION and OBJ; squeeze() needs exactly one row *)
Definition get_parameters (g : frame) (z : Z) (include_thetas : bool) : rres (list (text * cell)) :=
  match rows_with g z with
  | [] => RErr 3
  | [(_, r)] =>
      let named := drop_first_last (combine (f_cols g) r) in
      ROk (if include_thetas then named
           else filter (fun nc => negb (contains s_THETA (fst nc))) named)
  | _ => RUnmodelled
  end.

Definition get_ofv (g : frame) (z : Z) : rres cell :=
  match rows_with g z with
  | [] => RErr 3
  | [(_, r)] => ROk (cell_at r (index_of s_OBJ (f_cols g)))
  | _ => RUnmodelled
  end.

Definition cell_ge0 (c : cell) : bool := match c with CNum q => Qle_bool 0 q | _ => false end.
Definition cell_q (c : cell) : option Q := match c with CNum q => Some q | _ => None end.

(* iterations: list(it[it >= 0]) *)
Definition iterations (g : frame) : list Q :=
  flat_map (fun c => match c with CNum q => if Qle_bool 0 q then [q] else [] | _ => [] end)
           (col_cells g s_ITERATION).

Definition qmax_list (l : list Q) : option Q :=
  match l with
  | [] => None
  | x :: tl => Some (fold_left (fun a b => if Qle_bool a b then b else a) tl x)
  end.

Definition rows_with_q (g : frame) (q : Q) : list (nat * list cell) :=
  let j := index_of s_ITERATION (f_cols g) in
  filter (fun ir => match cell_at (snd ir) j with CNum x => Qeq_bool x q | _ => false end) (f_rows g).

Definition get_parameters_q (g : frame) (q : Q) : rres (list (text * cell)) :=
  match rows_with_q g q with
  | [] => RErr 3
  | [(_, r)] => ROk (drop_first_last (combine (f_cols g) r))
  | _ => RUnmodelled
  end.
Definition get_ofv_q (g : frame) (q : Q) : rres cell :=
  match rows_with_q g q with
  | [] => RErr 3
  | [(_, r)] => ROk (cell_at r (index_of s_OBJ (f_cols g)))
  | _ => RUnmodelled
  end.

(* final_parameter_estimates: the designated row, else the row of the last iteration *)
Definition final_parameter_estimates (g : frame) : rres (list (text * cell)) :=
  match get_parameters g code_final true with
  | RErr 3 => match qmax_list (iterations g) with
              | Some m => get_parameters_q g m
              | None => RErr 2                     (* max() of an empty list: ValueError *)
              end
  | r => r
  end.

Definition standard_errors (g : frame) := get_parameters g code_se true.
Definition omega_sigma_stdcorr (g : frame) := get_parameters g code_sdcorr false.
Definition omega_sigma_se_stdcorr (g : frame) := get_parameters g code_se_sdcorr false.
Definition condition_number (g : frame) : rres cell :=
  match get_parameters g code_cond true with
  | ROk ((_, c) :: _) => ROk c
  | ROk [] => RErr 4
  | RErr k => RErr k
  | RUnmodelled => RUnmodelled
  end.

(* fixed: fix.apply(bool): anything but 0 (NaN included) is True *)
Definition cell_truthy (c : cell) : bool :=
  match c with CNum q => negb (Qeq_bool q 0) | CNaN => true | CStr t => match t with [] => false | _ => true end end.
Definition fixed_flags (g : frame) : rres (list (text * bool)) :=
  match get_parameters g code_fixed true with
  | ROk l => ROk (map (fun nc => (fst nc, cell_truthy (snd nc))) l)
  | RErr k => RErr k
  | RUnmodelled => RUnmodelled
  end.

Definition final_ofv (g : frame) : rres cell :=
  match get_ofv g code_final with
  | RErr 3 => match qmax_list (iterations g) with
              | Some m => get_ofv_q g m
              | None => RErr 2
              end
  | r => r
  end.

Definition initial_ofv (g : frame) : rres cell :=
  match get_ofv g 0%Z with
  | RErr 3 => get_ofv g code_final
  | r => r
  end.

(* ------------------------------------------------------------------------------------------------ *)
(** * results._get_iter_df *)

Definition iter_cell (g : frame) (r : list cell) : cell := cell_at r (index_of s_ITERATION (f_cols g)).
Definition obj_cell (g : frame) (r : list cell) : cell := cell_at r (index_of s_OBJ (f_cols g)).

Definition set_iter (g : frame) (r : list cell) (v : Q) : list cell :=
  match index_of s_ITERATION (f_cols g) with
  | Some j => firstn j r ++ [CNum v] ++ skipn (S j) r
  | None => r
  end.

Definition nan_row_with_iter (g : frame) (v : Q) : list cell :=
  map (fun c => if text_eqb c s_ITERATION then CNum v else CNaN) (f_cols g).

Definition cell_neq (a b : cell) : bool :=            (* Python != on floats: NaN differs from everything *)
  match a, b with
  | CNum x, CNum y => negb (Qeq_bool x y)
  | _, _ => true
  end.

Fixpoint last_opt {A} (l : list A) : option A :=
  match l with [] => None | [x] => Some x | _ :: tl => last_opt tl end.

Fixpoint set_first_label (lab : nat) (upd : list cell -> list cell) (rows : list (nat * list cell)) :=
  match rows with
  | [] => []
  | (i, r) :: tl => if Nat.eqb i lab then (i, upd r) :: tl else (i, r) :: set_first_label lab upd tl
  end.

Definition get_iter_df (g : frame) : rres frame :=
  let its := col_cells g s_ITERATION in
  let hasnonneg := existsb cell_ge0 its in
  let hasfinal := existsb (cell_is code_final) its in
  if negb hasnonneg && hasfinal then
    (* df = df[iters == -1e9].reset_index(drop=True); df.at[0, 'ITERATION'] = 0 *)
    let sel := number_from 0 (map snd (rows_with g code_final)) in
    ROk (mkFrame (f_cols g) (set_first_label 0 (fun r => set_iter g r 0) sel))
  else
    let final_obj := match last_opt (rows_with g code_final) with
                     | Some (_, r) => obj_cell g r
                     | None => CNaN
                     end in
    match last_opt (filter (fun ir => cell_ge0 (iter_cell g (snd ir))) (f_rows g)) with
    | None => RErr 4                                   (* IndexError *)
    | Some (_, lastr) =>
        let rows1 :=
          if cell_neq final_obj (obj_cell g lastr) then
            match cell_q (iter_cell g lastr) with
            | None => f_rows g
            | Some li =>
                let n1 := (Qred (inject_Z (Qfloor li) + 1))%Q in          (* int(...) + 1 *)
                let '(rows', n2) :=
                  match rows_with g code_final with
                  | (idx, _) :: _ => (set_first_label idx (fun r => set_iter g r n1) (f_rows g), Qred (n1 + 1))
                  | [] => (f_rows g, n1)
                  end in
                rows' ++ [(length (f_rows g), nan_row_with_iter g n2)]
            end
          else f_rows g in
        ROk (mkFrame (f_cols g) (filter (fun ir => cell_ge0 (iter_cell g (snd ir))) rows1))
    end.

(* ------------------------------------------------------------------------------------------------ *)
(** * CovTable.data_frame: set_index('NAME'), rename_index(ext=False), removal of all-zero rows and columns *)

Record matrix := mkMatrix {
  m_rows : list text;
  m_cols : list text;
  m_vals : list (list cell)
}.

Definition cell_nonzero (c : cell) : bool :=          (* df != 0 : NaN != 0 is True *)
  match c with CNum q => negb (Qeq_bool q 0) | _ => true end.

Fixpoint keep_mask {A} (m : list bool) (l : list A) : list A :=
  match m, l with
  | b :: m', x :: l' => if b then x :: keep_mask m' l' else keep_mask m' l'
  | _, _ => []
  end.

Definition col_any (vals : list (list cell)) (j : nat) : bool :=
  existsb (fun r => cell_nonzero (nth j r CNaN)) vals.

Definition cell_text (c : cell) : option text := match c with CStr t => Some t | _ => None end.

(* the parameter labels of a cov/cor/coi table in pharmpy's order (THETA, OMEGA, SIGMA), before renaming *)
Definition cov_labels (f : frame) : list text :=
  param_labels (filter (fun c => negb (text_eqb c s_NAME)) (f_cols f)).

(* df.set_index('NAME').reindex(labels).reindex(labels, axis=1): rows looked up by NAME, absent ones NaN *)
Definition cov_full (f : frame) (names : list text) : list (list cell) :=
  let labels := cov_labels f in
  let cidx := map (fun l => index_of l (f_cols f)) labels in
  map (fun l => match index_of l names with
                | Some i => match nth_error (f_rows f) i with
                            | Some (_, r) => map (cell_at r) cidx
                            | None => map (fun _ => CNaN) cidx
                            end
                | None => map (fun _ => CNaN) cidx
                end) labels.

Definition row_mask (vals : list (list cell)) : list bool := map (fun r => existsb cell_nonzero r) vals.
Definition col_mask (vals : list (list cell)) (n : nat) : list bool := map (col_any vals) (seq 0 n).

Definition cov_names (f : frame) : option (list text) :=
  match index_of s_NAME (f_cols f) with
  | None => None
  | Some jn =>
      let names := map (fun ir => cell_text (nth jn (snd ir) CNaN)) (f_rows f) in
      if existsb (fun o => match o with None => true | _ => false end) names then None
      else Some (flat_map (fun o => match o with Some t => [t] | None => [] end) names)
  end.

Definition cov_data_frame (f : frame) : rres matrix :=
  match index_of s_NAME (f_cols f) with
  | None => RErr 3
  | Some _ =>
      match cov_names f with
      | None => RUnmodelled
      | Some names =>
          let labels := cov_labels f in
          if has_dup names || has_dup (map rename_theta labels) then RUnmodelled else
          let vals := cov_full f names in
          let rmask := row_mask vals in
          let cmask := col_mask vals (length labels) in
          let newlabels := map rename_theta labels in
          ROk (mkMatrix (keep_mask rmask newlabels) (keep_mask cmask newlabels)
                        (map (keep_mask cmask) (keep_mask rmask vals)))
      end
  end.

(* ------------------------------------------------------------------------------------------------ *)
(** * internals/math.py: triangular_root, flattened_to_symmetric *)

(* math.floor(math.sqrt(2 * x)) on the integer model: integer square root *)
Definition triangular_root (x : N) : N := N.sqrt (2 * x).

(* np.tril_indices_from(new) for an n x n matrix: row-major lower triangle *)
Fixpoint tril_row (r : nat) (c : nat) : list (nat * nat) :=       (* (r,0) .. (r,c-1) reversed build *)
  match c with O => [] | S c' => tril_row r c' ++ [(r, c')] end.
Fixpoint tril_upto (n : nat) : list (nat * nat) :=                (* rows 0 .. n-1 *)
  match n with O => [] | S n' => tril_upto n' ++ tril_row n' (S n') end.

Definition mat_set {A} (m : list (list A)) (i j : nat) (v : A) : list (list A) :=
  match nth_error m i with
  | Some row => firstn i m ++ [firstn j row ++ [v] ++ skipn (S j) row] ++ skipn (S i) m
  | None => m
  end.

Definition zeros {A} (z : A) (n : nat) : list (list A) := repeat (repeat z n) n.

(*  new = zeros((n, n)); inds = tril_indices; new[inds] = x; new[(inds[1], inds[0])] = x
    (numpy raises when len(x) differs from the number of indices) *)
Definition flattened_to_symmetric {A} (z : A) (x : list A) : option (list (list A)) :=
  let n := N.to_nat (triangular_root (N.of_nat (length x))) in
  let inds := tril_upto n in
  if Nat.eqb (length inds) (length x) then
    let m1 := fold_left (fun m ix => mat_set m (fst (fst ix)) (snd (fst ix)) (snd ix)) (combine inds x) (zeros z n) in
    let m2 := fold_left (fun m ix => mat_set m (snd (fst ix)) (fst (fst ix)) (snd ix)) (combine inds x) m1 in
    Some m2
  else None.

(* ------------------------------------------------------------------------------------------------ *)
(** * PhiTable *)

Definition cell_any (c : cell) : bool :=     (* DataFrame.any(axis=1), skipna: NaN does not count *)
  match c with CNum q => negb (Qeq_bool q 0) | CNaN => false | CStr t => match t with [] => false | _ => true end end.

(* df.loc[df.iloc[:, 2:].any(axis=1)] *)
Definition phi_nonzero_rows (f : frame) : list (nat * list cell) :=
  filter (fun ir => existsb cell_any (skipn 2 (snd ir))) (f_rows f).

Definition is_eta_col (c : text) : bool := starts_with s_ETA c || starts_with s_PHI c.
Definition is_etc_col (c : text) : bool := starts_with s_ETC c || starts_with s_PHC c.

Definition select_cols (f : frame) (p : text -> bool) (r : list cell) : list cell :=
  keep_mask (map p (f_cols f)) r.

Record phi_view := mkPhi {
  p_ids : list cell;
  p_iofv : list cell;
  p_eta_names : list text;                 (* as in the file *)
  p_etas : list (list cell);
  p_etc_names : list text;                 (* 'ETA' + name[3:] of the eta columns *)
  p_etcs : list (option (list (list cell)))
}.

Definition phi_view_of (f : frame) : phi_view :=
  let rows := phi_nonzero_rows f in
  let jid := index_of s_ID (f_cols f) in
  let jobj := index_of s_OBJ (f_cols f) in
  let eta_names := filter is_eta_col (f_cols f) in
  mkPhi (map (fun ir => cell_at (snd ir) jid) rows)
        (map (fun ir => cell_at (snd ir) jobj) rows)
        eta_names
        (map (fun ir => select_cols f is_eta_col (snd ir)) rows)
        (map (fun nme => s_ETA ++ skipn 3 nme) eta_names)
        (map (fun ir => flattened_to_symmetric (CNum 0) (select_cols f is_etc_col (snd ir))) rows).

(* ------------------------------------------------------------------------------------------------ *)
(** * The reference writer (docs/NONMEM.rst) — the specification side of parse(render x) = x *)

Inductive wnum :=
| WInt (neg : bool) (digits : text)                       (* [-]digits                 *)
| WSci (neg : bool) (d6 : text) (eneg : bool) (e2 : text) (* [-]d.dddddE[+-]ee         *)
| WFix (neg : bool) (ip fp : text)                        (* [-]ddd.ddddddd            *)
| WStr (t : text).                                        (* a bare label (NAME column) *)

Definition sign_text (neg : bool) : text := if neg then [c_minus] else [].

Definition wnum_text (x : wnum) : text :=
  match x with
  | WInt neg ds => sign_text neg ++ ds
  | WSci neg d6 eneg e2 =>
      sign_text neg ++ firstn 1 d6 ++ [c_dot] ++ skipn 1 d6 ++ [69] ++ [if eneg then c_minus else c_plus] ++ e2
  | WFix neg ip fp => sign_text neg ++ ip ++ [c_dot] ++ fp
  | WStr t => t
  end.

Definition signed (neg : bool) (q : Q) : Q := if neg then Qopp q else q.

(* the exact rational the written characters denote *)
Definition wnum_value (x : wnum) : option Q :=
  match x with
  | WInt neg ds => Some (signed neg (inject_Z (Zdigits ds)))
  | WSci neg d6 eneg e2 =>
      let e := if eneg then Z.opp (Zdigits e2) else Zdigits e2 in
      Some (signed neg (Qred (inject_Z (Zdigits d6) * pow10 (e - 5))))
  | WFix neg ip fp =>
      Some (signed neg (Qred (inject_Z (Zdigits (ip ++ fp)) * pow10 (Z.opp (Z.of_nat (length fp))))))
  | WStr _ => None
  end.

Definition spaces (n : nat) : text := repeat c_sp n.
Definition rjust (w : nat) (s : text) : text := spaces (w - length s) ++ s.
Definition ljust (w : nat) (s : text) : text := s ++ spaces (w - length s).

Record wtitle := mkWTitle {
  wt_short : bool;           (* $TABLE files: only 'TABLE NO.' and the number *)
  wt_number : text;          (* digits *)
  wt_method : text;
  wt_design : option text;
  wt_goal : option text;
  wt_ids : list text         (* six digit strings *)
}.

Definition render_title (t : wtitle) : text :=
  if wt_short t then s_TABLE_NO_dot ++ [c_sp] ++ rjust 5 (wt_number t) ++ [c_nl] else
  s_TABLE_NO_dot ++ [c_sp] ++ rjust 5 (wt_number t) ++ s_colon_sp ++ wt_method t ++
  (match wt_design t with Some d => s_colon_sp ++ d | None => [] end) ++ s_colon_sp ++
  (match wt_goal t with Some g => s_Goal ++ g ++ s_colon_sp | None => [] end) ++
  s_Problem ++ nth 0 (wt_ids t) [] ++ s_Subproblem ++ nth 1 (wt_ids t) [] ++
  s_Superproblem1 ++ nth 2 (wt_ids t) [] ++ s_Iteration1 ++ nth 3 (wt_ids t) [] ++
  s_Superproblem2 ++ nth 4 (wt_ids t) [] ++ s_Iteration2 ++ nth 5 (wt_ids t) [] ++ [c_nl].

Fixpoint render_labels_aux (labels : list text) : text :=
  match labels with
  | [] => []
  | [l] => l
  | l :: tl => ljust 13 l ++ render_labels_aux tl
  end.
Definition render_labels (labels : list text) : text := [c_sp] ++ render_labels_aux labels ++ [c_nl].

Fixpoint render_cells (lastwide : bool) (cells : list wnum) : text :=
  match cells with
  | [] => []
  | [c] => rjust (if lastwide then 22 else 13) (wnum_text c)
  | c :: tl => rjust 13 (wnum_text c) ++ render_cells lastwide tl
  end.
Definition render_row (lastwide : bool) (cells : list wnum) : text := render_cells lastwide cells ++ [c_nl].

Record wtable := mkWTable {
  w_title : option wtitle;
  w_labels : list text;
  w_rows : list (list wnum);
  w_lastwide : bool;
  w_repeat : nat;             (* the label line is repeated before every w_repeat-th row; 0 = never *)
  w_showlabels : bool         (* false: $TABLE NOHEADER / NOLABEL, no label line at all *)
}.

Fixpoint render_rows (t : wtable) (i : nat) (rows : list (list wnum)) : text :=
  match rows with
  | [] => []
  | r :: tl =>
      (if w_showlabels t && negb (Nat.eqb (w_repeat t) 0) && negb (Nat.eqb i 0) && Nat.eqb (Nat.modulo i (w_repeat t)) 0
       then render_labels (w_labels t) else []) ++
      render_row (w_lastwide t) r ++ render_rows t (S i) tl
  end.

Definition render_wtable (t : wtable) : text :=
  (match w_title t with Some ti => render_title ti | None => [] end) ++
  (if w_showlabels t then render_labels (w_labels t) else []) ++ render_rows t 0 (w_rows t).

Definition render_wfile (ts : list wtable) : text := concat (map render_wtable ts).

(* ------------------------------------------------------------------------------------------------ *)
(** * Well-formed written tables (executable) and the frame / tables they denote — the right-hand side of
      parse (render x) = x *)

Definition tokchar (c : N) : bool := negb (is_delim c) && negb (is_splitlines_sep c).
Definition good_tok (t : text) : bool := match t with [] => false | _ :: _ => forallb tokchar t end.
Definition all_digits (t : text) : bool := match t with [] => false | _ :: _ => forallb is_digit t end.

(* a number that fits its field (at least one blank in front of it) and has the documented shape *)
Definition wnum_ok (w : nat) (x : wnum) : bool :=
  (length (wnum_text x) <? w)%nat &&
  match x with
  | WInt _ ds => all_digits ds && (length (wnum_text x) <? 19)%nat
  | WSci _ d6 _ e2 => all_digits d6 && (length d6 =? 6)%nat && all_digits e2      (* 2 or 3 exponent digits: E+00 .. E-100 *)
  | WFix _ ip fp => all_digits ip && forallb is_digit fp
  | WStr t => good_tok t && match classify t with KStr => true | _ => false end
  end.

Definition is_wstr (x : wnum) : bool := match x with WStr _ => true | _ => false end.

Definition wcell (x : wnum) : cell :=
  match x with
  | WStr t => CStr t
  | _ => match wnum_value x with Some q => CNum q | None => CNaN end
  end.

Fixpoint row_ok (lastwide : bool) (cells : list wnum) : bool :=
  match cells with
  | [] => true
  | [c] => wnum_ok (if lastwide then 22 else 13) c
  | c :: tl => wnum_ok 13 c && row_ok lastwide tl
  end.

Fixpoint labels_ok (labels : list text) : bool :=
  match labels with
  | [] => true
  | [l] => good_tok l
  | l :: tl => good_tok l && (length l <? 13)%nat && labels_ok tl
  end.

Definition col_homogeneous (rows : list (list wnum)) (j : nat) : bool :=
  forallb (fun r => is_wstr (nth j r (WStr []))) rows || forallb (fun r => negb (is_wstr (nth j r (WStr [])))) rows.

(* the body (label line and data lines) of one written table *)
Definition wbody_ok (t : wtable) : bool :=
  w_showlabels t && Nat.eqb (w_repeat t) 0 &&
  match w_labels t with [] => false | _ :: _ => true end &&
  labels_ok (w_labels t) && negb (has_dup (w_labels t)) &&
  forallb (fun r => Nat.eqb (length r) (length (w_labels t)) && row_ok (w_lastwide t) r) (w_rows t) &&
  forallb (col_homogeneous (w_rows t)) (seq 0 (length (w_labels t))).

Definition frame_of_wtable (t : wtable) : frame :=
  mkFrame (w_labels t) (number_from 0 (map (map wcell) (w_rows t))).

Definition render_body (t : wtable) : text :=
  render_labels (w_labels t) ++ render_rows t 0 (w_rows t).

(* ------------------------------------------------------------------------------------------------ *)
(** * decimal -> binary64: round to nearest, ties to even (what strtod / float_precision='round_trip' do).
      Only the normal range is described (|q| in [2^-1022, 2^1024)); None outside. *)

Definition round_b64 (q : Q) : option Q :=
  let n := Qnum q in
  let d := Zpos (Qden q) in
  match n with
  | Z0 => Some 0%Q
  | _ =>
      let a := Z.abs n in
      (* first guess of the binary exponent e with 2^52 <= a/d / 2^e < 2^53 *)
      let e0 := (Z.log2 a - Z.log2 d - 52)%Z in
      let scaled := fun e => if (0 <=? e)%Z then (a, d * 2 ^ e)%Z else (a * 2 ^ (- e), d)%Z in
      let fits := fun e => let '(x, y) := scaled e in ((2 ^ 52 * y <=? x) && (x <? 2 ^ 53 * y))%Z in
      let e := if fits e0 then Some e0 else if fits (e0 - 1)%Z then Some (e0 - 1)%Z
               else if fits (e0 + 1)%Z then Some (e0 + 1)%Z else None in
      match e with
      | None => None
      | Some e =>
          if ((e <? -1074) || (971 <? e))%Z then None else
          let '(x, y) := scaled e in
          let m := (x / y)%Z in
          let r := (x mod y)%Z in
          let m' := match (2 * r ?= y)%Z with
                    | Lt => m
                    | Gt => (m + 1)%Z
                    | Eq => if Z.even m then m else (m + 1)%Z
                    end in
          let v := if (0 <=? e)%Z then inject_Z (m' * 2 ^ e) else Qred (m' # Pos.pow 2 (Z.to_pos (- e))) in
          if ((e <? -1022 - 52))%Z then None else
          Some (if (n <? 0)%Z then Qopp v else v)
      end
  end.

(* ------------------------------------------------------------------------------------------------ *)
(** * results.py: _parse_ext (_parse_ofv, _parse_parameter_estimates, _parse_standard_errors,
      _get_fixed_parameters) and _parse_matrix on the tables of one run *)

Fixpoint texts_eqb (a b : list text) : bool :=
  match a, b with
  | [], [] => true
  | x :: a', y :: b' => text_eqb x y && texts_eqb a' b'
  | _, _ => false
  end.

Fixpoint alookup (m : list (text * text)) (k : text) : option text :=
  match m with
  | [] => None
  | (a, b) :: tl => if text_eqb a k then Some b else alookup tl k
  end.
(* Series.rename(index=name_map) / DataFrame.rename(columns=name_map): unknown labels stay *)
Definition rename_with (nm : list (text * text)) (l : text) : text :=
  match alookup nm l with Some x => x | None => l end.

Fixpoint blookup (m : list (text * bool)) (k : text) : option bool :=
  match m with
  | [] => None
  | (a, b) :: tl => if text_eqb a k then Some b else blookup tl k
  end.

Definition rbind {A B} (x : rres A) (f : A -> rres B) : rres B :=
  match x with ROk a => f a | RErr k => RErr k | RUnmodelled => RUnmodelled end.

(* _get_fixed_parameters(table, parameters, name_map): row -1000000006, else the model's FIX flags (renamed back to
   NONMEM names) and True for every other column *)
Definition get_fixed_parameters (g : frame) (pfix : list (text * bool)) (nm : list (text * text)) : rres (list (text * bool)) :=
  match fixed_flags g with
  | RErr 3%N =>
      rbind (final_parameter_estimates g) (fun ests =>
        let inv := map (fun ab => (snd ab, fst ab)) nm in
        let fixed := map (fun pb => (rename_with inv (fst pb), snd pb)) pfix in
        ROk (fixed ++ flat_map (fun nc => match blookup fixed (fst nc) with Some _ => [] | None => [(fst nc, true)] end) ests))
  | r => r
  end.

Record ext_results := mkExtRes {
  er_table_numbers : list N;
  er_ofv : cell;
  er_ofv_iterations : list (nat * cell * cell);                 (* step, iteration, OFV *)
  er_pe : list (text * cell);
  er_pe_cols : list text;
  er_pe_iterations : list (nat * cell * list cell);             (* step, iteration, values *)
  er_sdcorr : option (list (text * cell));                      (* None: the KeyError path (NaN over pe.index) *)
  er_se : option (list (text * cell));                          (* None: NaN over pe.index *)
  er_se_sdcorr : option (list (text * cell));
  er_cov_abort : bool
}.

Definition design_of (t : table) : option text :=
  match tb_title t with
  | Some ti => match t_fields ti with Some (_, d, _, _) => d | None => None end
  | None => None
  end.
Definition number_of (t : table) : N := match tb_title t with Some ti => t_number ti | None => 0%N end.

(* the tables that take part: (1-based position, table), design-optimality tables skipped *)
Definition est_tables (ts : list table) : list (nat * table) :=
  filter (fun kt => match design_of (snd kt) with None => true | Some _ => false end) (number_from 1 ts).

Fixpoint rmap {A B} (f : A -> rres B) (l : list A) : rres (list B) :=
  match l with
  | [] => ROk []
  | x :: tl => rbind (f x) (fun y => rbind (rmap f tl) (fun ys => ROk (y :: ys)))
  end.

Definition has_str (l : list cell) : bool := existsb (fun c => match c with CStr _ => true | _ => false end) l.

Definition iter_frame (t : table) : rres (frame * frame) :=     (* data_frame and _get_iter_df of it *)
  rbind (ext_data_frame (tb_frame t)) (fun g =>
    if has_str (col_cells g s_OBJ) then RUnmodelled else
    rbind (get_iter_df g) (fun h => ROk (g, h))).

Definition parse_ofv (ts : list table) : rres (cell * list (nat * cell * cell)) :=
  rbind (rmap (fun kt => rbind (iter_frame (snd kt)) (fun gh => ROk (fst kt, gh))) (est_tables ts)) (fun l =>
    let entries := flat_map (fun kgh => let '(k, (g, h)) := kgh in
                     map (fun ir => (k, iter_cell h (snd ir), obj_cell h (snd ir))) (f_rows h)) l in
    match last_opt l with
    | None => RErr 4%N                                     (* assert isinstance(final_table, ExtTable) *)
    | Some (_, (g, _)) =>
        match last_opt entries with
        | None => RErr 4%N                                 (* ofv[-1] of an empty list *)
        | Some (_, _, o) =>
            match o with
            | CNaN => ROk (CNaN, entries)
            | _ => rbind (final_ofv g) (fun c => ROk (c, entries))
            end
        end
    end).

Definition drop_names (names : list text) (l : list (text * cell)) : list (text * cell) :=
  filter (fun nc => negb (existsb (text_eqb (fst nc)) names)) l.

Definition parse_parameter_estimates (ts : list table) (pfix : list (text * bool)) (nm : list (text * text))
  : rres (list (text * cell) * list text * list (nat * cell * list cell) * option (list (text * cell))) :=
  rbind (rmap (fun kt => rbind (iter_frame (snd kt)) (fun gh =>
                         rbind (get_fixed_parameters (fst gh) pfix nm) (fun fx =>
                         ROk (fst kt, gh, fx)))) (est_tables ts)) (fun l =>
    match last_opt l with
    | None => RErr 4%N
    | Some (_, (gfinal, _), fixfinal) =>
        (* per table: the non-fixed parameter columns of the iteration frame *)
        let per := map (fun x => let '(k, (g, h), fx) := x in
                     let pcols := drop_first_last (f_cols h) in
                     let fixed_names := filter (fun n => match blookup fx n with Some b => b | None => false end) pcols in
                     let keep := map (fun c => negb (existsb (text_eqb c) fixed_names)) pcols in
                     (k, h, fixed_names, keep_mask keep pcols, keep)) l in
        (* fx[name] raises KeyError when a column has no flag *)
        if existsb (fun x => let '(k, (g, h), fx) := x in
                     existsb (fun n => match blookup fx n with None => true | Some _ => false end)
                             (drop_first_last (f_cols h))) l then RErr 3%N else
        match per with
        | [] => RErr 4%N
        | (_, _, _, cols0, _) :: _ =>
            if negb (forallb (fun x => let '(_, _, _, cols, _) := x in
                                       texts_eqb cols cols0) per) then RUnmodelled else
            let rows := flat_map (fun x => let '(k, h, _, _, keep) := x in
                          map (fun ir => (k, iter_cell h (snd ir), keep_mask keep (drop_first_last (snd ir)))) (f_rows h)) per in
            let cols := map (rename_with nm) cols0 in
            if has_dup cols then RUnmodelled else
            match last_opt rows, last_opt per with
            | Some (_, _, lastvals), Some (_, _, fixed_names, _, _) =>
                let final_pe :=
                  if forallb is_nan lastvals
                  then ROk (combine cols lastvals)
                  else rbind (final_parameter_estimates gfinal) (fun fe =>
                         if negb (forallb (fun n => existsb (fun nc => text_eqb (fst nc) n) fe) fixed_names)
                         then RErr 3%N
                         else ROk (map (fun nc => (rename_with nm (fst nc), snd nc)) (drop_names fixed_names fe))) in
                rbind final_pe (fun fpe =>
                  let notfixed := fun (l : list (text * cell)) =>
                    filter (fun nc => match blookup fixfinal (fst nc) with Some b => negb b | None => false end) l in
                  match omega_sigma_stdcorr gfinal with
                  | RErr 3%N => ROk (fpe, cols, rows, None)
                  | RErr k => RErr k
                  | RUnmodelled => RUnmodelled
                  | ROk sd =>
                      let sd' := map (fun nc => (rename_with nm (fst nc), snd nc)) (notfixed sd) in
                      ROk (fpe, cols, rows,
                           Some (map (fun nc => match find (fun x => text_eqb (fst x) (fst nc)) sd' with
                                                | Some (_, CNum q) => (fst nc, CNum q)
                                                | _ => nc end) fpe))
                  end)
            | _, _ => RErr 4%N
            end
        end
    end).

Definition update_with (base upd : list (text * cell)) : list (text * cell) :=      (* Series.update: non-NaN values win *)
  map (fun nc => match find (fun x => text_eqb (fst x) (fst nc)) upd with
                 | Some (_, CNum q) => (fst nc, CNum q)
                 | Some (_, CStr t) => (fst nc, CStr t)
                 | _ => nc end) base.

(* _parse_standard_errors: returns (ses, ses_sdcorr, cov_abort); None = NaN over pe.index *)
Definition parse_standard_errors (ts : list table) (pfix : list (text * bool)) (nm : list (text * text))
  : rres (option (list (text * cell)) * option (list (text * cell)) * bool) :=
  match last_opt ts with
  | None => RErr 4%N
  | Some t =>
      rbind (ext_data_frame (tb_frame t)) (fun g =>
        match standard_errors g with
        | RErr 3%N => ROk (None, None, false)
        | RErr k => RErr k
        | RUnmodelled => RUnmodelled
        | ROk ses =>
            rbind (get_fixed_parameters g pfix nm) (fun fx =>
              let notfixed := fun (l : list (text * cell)) =>
                filter (fun nc => match blookup fx (fst nc) with Some b => negb b | None => false end) l in
              if existsb (fun nc => match blookup fx (fst nc) with None => true | Some _ => false end) ses
              then RUnmodelled else
              match omega_sigma_se_stdcorr g with
              | RErr 3%N => ROk (None, None, true)
              | RErr k => RErr k
              | RUnmodelled => RUnmodelled
              | ROk sd =>
                  let ren := map (fun nc => (rename_with nm (fst nc), snd nc)) in
                  let ses' := ren (notfixed ses) in
                  ROk (Some ses', Some (update_with ses' (ren (notfixed sd))), false)
              end)
        end)
  end.

(* _parse_matrix *)
Definition parse_matrix (raw : option text) (nm : list (text * text)) (table_numbers : list N) : rres (option matrix) :=
  match raw with
  | None => ROk None
  | Some t =>
      match read_table_file SCov false false t with
      | RErr 1%N => ROk None
      | RErr k => RErr k
      | RUnmodelled => RUnmodelled
      | ROk tables =>
          match last_opt table_numbers with
          | None => RErr 4%N
          | Some n =>
              match find (fun tb => N.eqb (number_of tb) n) tables with
              | None => RErr 4%N
              | Some tb =>
                  rbind (cov_data_frame (tb_frame tb)) (fun m =>
                    if negb (Nat.eqb (length (m_rows m)) (length (m_cols m))) then RErr 2%N
                    else let names := map (rename_with nm) (m_rows m) in
                         ROk (Some (mkMatrix names names (m_vals m))))
              end
          end
      end
  end.

(* np.fill_diagonal(cor.values, 1) *)
Fixpoint fill_diag_one (i : nat) (vals : list (list cell)) : list (list cell) :=
  match vals with
  | [] => []
  | r :: tl => (firstn i r ++ match skipn i r with [] => [] | _ :: r' => CNum 1 :: r' end) :: fill_diag_one (S i) tl
  end.

Record run_results := mkRun {
  rr_ext : ext_results;
  rr_cov : option matrix;
  rr_cor : option matrix;
  rr_coi : option matrix
}.

Inductive run_outcome :=
| RunNone                               (* no ext file: read_modelfit_results gives None *)
| RunFailed                             (* broken ext file: ofv NaN, estimates NaN *)
| RunOk (r : run_results).

Definition read_run (ext : option text) (pfix : list (text * bool)) (nm : list (text * text))
           (covstatus : bool) (cov cor coi : option text) : rres run_outcome :=
  match ext with
  | None => ROk RunNone
  | Some raw =>
      match read_table_file SExt false false raw with
      | RErr 1%N => ROk RunNone
      | RErr 2%N => ROk RunFailed
      | RErr k => RErr k
      | RUnmodelled => RUnmodelled
      | ROk ts =>
          let tn := map number_of ts in
          rbind (parse_ofv ts) (fun ofv =>
          rbind (parse_parameter_estimates ts pfix nm) (fun pe =>
          rbind (parse_standard_errors ts pfix nm) (fun se =>
            let '(fpe, cols, rows, sdcorr) := pe in
            let '(ses, ses_sd, abort) := se in
            let er := mkExtRes tn (fst ofv) (snd ofv) fpe cols rows sdcorr ses ses_sd abort in
            if covstatus && negb abort then
              rbind (parse_matrix cov nm tn) (fun mcov =>
              rbind (parse_matrix cor nm tn) (fun mcor =>
              rbind (parse_matrix coi nm tn) (fun mcoi =>
                ROk (RunOk (mkRun er mcov
                              (option_map (fun m => mkMatrix (m_rows m) (m_cols m) (fill_diag_one 0 (m_vals m))) mcor)
                              mcoi)))))
            else ROk (RunOk (mkRun er None None None)))))
      end
  end.

(* ------------------------------------------------------------------------------------------------ *)
(** * results._parse_phi *)

Record phi_results := mkPhiRes {
  pr_ids : list cell;
  pr_iofv : list cell;
  pr_ie_cols : list text;
  pr_ie : list (list cell);
  pr_iec : list (list (list cell))
}.

Definition paren_name (pre : text) (i : nat) : text := pre ++ [40] ++ digits_of_nat i ++ [41].

Fixpoint rsequence {A} (l : list (option A)) : option (list A) :=
  match l with
  | [] => Some []
  | None :: _ => None
  | Some x :: tl => option_map (cons x) (rsequence tl)
  end.

(* raw: the phi file (None = missing); rv_names: the model's eta names that occur in the name map *)
Definition parse_phi (raw : option text) (nm : list (text * text)) (rv_names : list text) : rres (option phi_results) :=
  match raw with
  | None => ROk None
  | Some t =>
      rbind (read_table_file SPhi false false t) (fun tables =>
        match last_opt (filter (fun tb => match design_of tb with None => true | Some _ => false end) tables) with
        | None => ROk None
        | Some tb =>
            let f := tb_frame tb in
            match index_of s_ID (f_cols f), index_of s_OBJ (f_cols f) with
            | Some _, Some _ =>
                let v := phi_view_of f in
                match p_eta_names v with
                | [] => RErr 4%N                                     (* df.columns[0] of no columns *)
                | c0 :: _ =>
                    let prefix := firstn 3 c0 in
                    let d := map (fun ia => (paren_name prefix (fst ia), snd ia)) (number_from 1 rv_names) in
                    let ie_cols := map (rename_with d) (p_eta_names v) in
                    (* index = {name_map[x]: i}; KeyError -> (None, None, None) *)
                    match rsequence (map (alookup nm) (p_etc_names v)) with
                    | None => ROk None
                    | Some keys =>
                        match rsequence (map (fun r => index_of r keys) rv_names) with
                        | None => ROk None
                        | Some idx =>
                            match rsequence (p_etcs v) with
                            | None => RErr 2%N                       (* numpy shape mismatch *)
                            | Some mats =>
                                if has_dup keys then RUnmodelled else
                                ROk (Some (mkPhiRes (p_ids v) (p_iofv v) ie_cols (p_etas v)
                                             (map (fun m => map (fun i => map (fun j => nth j (nth i m []) CNaN) idx) idx) mats)))
                            end
                        end
                    end
                end
            | _, _ => ROk None
            end
        end)
  end.

(* ------------------------------------------------------------------------------------------------ *)
(** * Guards of the "objective value comes from the designated row" theorem (executable) *)

(* the designated final row exists and carries the same OBJ as the last printed (non-negative) iteration *)
Definition g_final_obj_eq_last (g : frame) : bool :=
  match last_opt (rows_with g code_final),
        last_opt (filter (fun ir => cell_ge0 (iter_cell g (snd ir))) (f_rows g)) with
  | Some (_, rf), Some (_, rl) => negb (cell_neq (obj_cell g rf) (obj_cell g rl))
  | _, _ => false
  end.


(* ------------------------------------------------------------------------------------------------ *)
(** * Well-formed written titles and files, and the tables they denote *)

Definition no_colon_nl (t : text) : bool :=
  forallb (fun c => negb (c =? c_colon) && negb (c =? c_nl) && negb (c =? c_cr)) t.

Definition wtitle_ok (t : wtitle) : bool :=
  all_digits (wt_number t) &&
  (wt_short t ||
   (no_colon_nl (wt_method t) &&
    match wt_design t with Some d => (match d with [] => false | _ => true end) && forallb is_design_char d | None => true end &&
    match wt_goal t with Some g => no_colon_nl g | None => true end &&
    Nat.eqb (length (wt_ids t)) 6 && forallb all_digits (wt_ids t))).

Definition title_of_wtitle (t : wtitle) : title :=
  mkTitle (digits_val (wt_number t)) (contains s_Evaluation (render_title t))
          (if wt_short t then None
           else Some (wt_method t, wt_design t, wt_goal t, map digits_val (wt_ids t))).

Definition no_J (t : text) : bool := forallb (fun c => negb (c =? 74)) t.
Definition all_upper (t : text) : bool := forallb is_upper t.

(* the last label of an ext / phi table: some capitals (no J) followed by OBJ, e.g. OBJ, SAEMOBJ, MCMCOBJ *)
Definition obj_label (l : text) : bool :=
  let n := length l in
  (3 <=? n)%nat && text_eqb (skipn (n - 3) l) s_OBJ && all_upper (firstn (n - 3) l) && no_J (firstn (n - 3) l).

(* a label in which "OBJ" does not occur (SUBJECT_NO, OMEGA(1,1), ...) *)
Definition no_obj (t : text) : bool := negb (contains s_OBJ t).

Fixpoint labels_obj_ok (labels : list text) : bool :=
  match labels with
  | [] => true
  | [l] => obj_label l || no_obj l
  | l :: tl => no_obj l && labels_obj_ok tl
  end.

Fixpoint map_last {A} (f : A -> A) (l : list A) : list A :=
  match l with
  | [] => []
  | [x] => [f x]
  | x :: tl => x :: map_last f tl
  end.

Definition labels_as_read (sfx : suffix) (labels : list text) : list text :=
  match sfx with
  | SOther => labels
  | _ => map_last (fun l => if obj_label l then s_OBJ else l) labels
  end.

Definition starts_alpha (l : text) : bool :=
  match l with c :: _ => is_alpha c || (c =? c_us) | [] => false end.
Definition first_cell_numeric (r : list wnum) : bool :=
  match r with x :: _ => negb (is_wstr x) | [] => false end.
Definition wstr_no_J (x : wnum) : bool := match x with WStr t => no_J t | _ => true end.

Definition with_repeat (t : wtable) (k : nat) : wtable :=
  mkWTable (w_title t) (w_labels t) (w_rows t) (w_lastwide t) k (w_showlabels t).

(* a table body without label line ($TABLE ... NOLABEL / NOHEADER), read with nolabel *)
Definition wrows_ok (t : wtable) : bool :=
  negb (w_showlabels t) &&
  match w_labels t with [] => false | _ :: _ => true end &&
  match w_rows t with [] => false | _ :: _ => true end &&
  forallb (fun r => Nat.eqb (length r) (length (w_labels t)) && row_ok (w_lastwide t) r) (w_rows t) &&
  forallb (col_homogeneous (w_rows t)) (seq 0 (length (w_labels t))).

(* header=None: the columns are numbered *)
Definition frame_of_wtable_nolabel (t : wtable) : frame :=
  mkFrame (map digits_of_nat (seq 0 (length (w_labels t)))) (number_from 0 (map (map wcell) (w_rows t))).

(* nolabel only reaches the generic ($TABLE) reader *)
Definition nolabel_effective (sfx : suffix) (nolabel : bool) : bool :=
  match sfx with SOther => nolabel | _ => false end.

Definition first_label_alpha (t : wtable) : bool :=
  match w_labels t with l :: _ => starts_alpha l | [] => false end.

(* the body of one table of a file with the given suffix, read with / without nolabel *)
Definition wtable_body_ok (sfx : suffix) (nolabel : bool) (t : wtable) : bool :=
  match sfx with
  | SOther => (if nolabel then wrows_ok t else wbody_ok (with_repeat t 0) && first_label_alpha t) &&
              forallb first_cell_numeric (w_rows t)
  | _ => wbody_ok (with_repeat t 0) && Nat.eqb (w_repeat t) 0 && labels_obj_ok (w_labels t) &&
         forallb (forallb wstr_no_J) (w_rows t)
  end.

Definition wtable_ok (sfx : suffix) (nolabel : bool) (t : wtable) : bool :=
  match w_title t with Some ti => wtitle_ok ti | None => false end && wtable_body_ok sfx nolabel t.

Definition wfile_ok (sfx : suffix) (nolabel : bool) (ts : list wtable) : bool :=
  match ts with [] => false | _ :: _ => forallb (wtable_ok sfx nolabel) ts end.

Definition frame_as_read (sfx : suffix) (nolabel : bool) (t : wtable) : frame :=
  if nolabel_effective sfx nolabel then frame_of_wtable_nolabel t
  else mkFrame (labels_as_read sfx (w_labels t)) (number_from 0 (map (map wcell) (w_rows t))).

Definition table_of_wtable (sfx : suffix) (nolabel : bool) (t : wtable) : table :=
  mkTable (option_map title_of_wtitle (w_title t)) (frame_as_read sfx nolabel t).

(* $TABLE ... NOTITLE (label line, no title) and NOHEADER (neither): one table, read with notitle *)
Definition wtable_notitle_ok (nolabel : bool) (t : wtable) : bool :=
  match w_title t with None => true | Some _ => false end && wtable_body_ok SOther nolabel t.

(* the same file with Windows line ends *)
Definition crlf (t : text) : text := flat_map (fun c => if c =? c_nl then [c_cr; c_nl] else [c]) t.
