(* PV.C20.Sub — the subproblem argument of results._parse_phi: with subproblem=k the reader takes
   phi_tables.tables[k - 1] (Python list indexing, optimal-design tables NOT skipped) instead of the last table that
   is not an optimal-design table. *)
From Coq Require Import List NArith ZArith Bool Lia.
From PV Require Import C20.Model C20.Check C20.Proofs.
Import ListNotations.

Definition not_design (tb : table) : bool := match design_of tb with None => true | Some _ => false end.

(* everything _parse_phi does once the table is chosen *)
Definition phi_of_table (tb : table) (nm : list (text * text)) (rv_names : list text) : rres (option phi_results) :=
  let f := tb_frame tb in
  match index_of s_ID (f_cols f), index_of s_OBJ (f_cols f) with
  | Some _, Some _ =>
      let v := phi_view_of f in
      match p_eta_names v with
      | [] => RErr 4%N
      | c0 :: _ =>
          let prefix := firstn 3 c0 in
          let d := map (fun ia => (paren_name prefix (fst ia), snd ia)) (number_from 1 rv_names) in
          let ie_cols := map (rename_with d) (p_eta_names v) in
          match rsequence (map (alookup nm) (p_etc_names v)) with
          | None => ROk None
          | Some keys =>
              match rsequence (map (fun r => index_of r keys) rv_names) with
              | None => ROk None
              | Some idx =>
                  match rsequence (p_etcs v) with
                  | None => RErr 2%N
                  | Some mats =>
                      if has_dup keys then RUnmodelled else
                      ROk (Some (mkPhiRes (p_ids v) (p_iofv v) ie_cols (p_etas v)
                                   (map (fun m => map (fun i => map (fun j => nth j (nth i m []) CNaN) idx) idx) mats)))
                  end
              end
          end
      end
  | _, _ => ROk None
  end.

(* Model.parse_phi is: choose the last non-design table, then phi_of_table *)
Lemma parse_phi_unfold : forall (t : text) nm rv,
    parse_phi (Some t) nm rv =
    rbind (read_table_file SPhi false false t) (fun tables =>
      match last_opt (filter not_design tables) with
      | None => ROk None
      | Some tb => phi_of_table tb nm rv
      end).
Proof. reflexivity. Qed.

(* Python l[i] for an int i: negative indices count from the end, out of range is IndexError (None) *)
Definition py_index {A} (l : list A) (i : Z) : option A :=
  let n := Z.of_nat (length l) in
  if (0 <=? i)%Z then nth_error l (Z.to_nat i)
  else if (0 <=? n + i)%Z then nth_error l (Z.to_nat (n + i))
  else None.

(* results._parse_phi(..., subproblem): raw = the phi file (None = missing) *)
Definition parse_phi_sub (raw : option text) (nm : list (text * text)) (rv_names : list text) (sub : option Z)
  : rres (option phi_results) :=
  match sub with
  | None => parse_phi raw nm rv_names
  | Some k =>
      match raw with
      | None => ROk None
      | Some t =>
          rbind (read_table_file SPhi false false t) (fun tables =>
            match py_index tables (k - 1)%Z with
            | None => RErr 4%N                              (* IndexError, not caught *)
            | Some tb => phi_of_table tb nm rv_names
            end)
      end
  end.

(* ---- theorems ---- *)
Lemma py_index_nth : forall {A} (l : list A) (i : Z) (d : A),
    (0 <= i < Z.of_nat (length l))%Z -> py_index l i = Some (nth (Z.to_nat i) l d).
Proof.
  intros A l i d H. unfold py_index. destruct (Z.leb_spec 0 i); [|lia].
  apply nth_error_nth'. lia.
Qed.

Lemma py_index_out : forall {A} (l : list A) (i : Z),
    (Z.of_nat (length l) <= i \/ i < - Z.of_nat (length l))%Z -> py_index l i = None.
Proof.
  intros A l i H. unfold py_index. destruct (Z.leb_spec 0 i).
  - apply nth_error_None. lia.
  - destruct (Z.leb_spec 0 (Z.of_nat (length l) + i)); [lia|reflexivity].
Qed.

Lemma phi_subproblem_render_lemma : forall (ws : list wtable) nm rv (k : Z) (d : wtable),
    wfile_ok SPhi false ws = true -> (1 <= k <= Z.of_nat (length ws))%Z ->
    parse_phi_sub (Some (render_wfile ws)) nm rv (Some k) =
    phi_of_table (table_of_wtable SPhi false (nth (Z.to_nat (k - 1)) ws d)) nm rv.
Proof.
  intros ws nm rv k d Hok Hk. unfold parse_phi_sub.
  rewrite (parse_render_file_lemma SPhi false ws Hok). cbn [rbind].
  rewrite (py_index_nth _ _ (table_of_wtable SPhi false d)) by (rewrite map_length; lia).
  rewrite map_nth. reflexivity.
Qed.

Lemma phi_subproblem_out_of_range_lemma : forall (ws : list wtable) nm rv (k : Z),
    wfile_ok SPhi false ws = true -> (Z.of_nat (length ws) < k \/ k <= - Z.of_nat (length ws))%Z ->
    parse_phi_sub (Some (render_wfile ws)) nm rv (Some k) = RErr 4%N.
Proof.
  intros ws nm rv k Hok Hk. unfold parse_phi_sub.
  rewrite (parse_render_file_lemma SPhi false ws Hok). cbn [rbind].
  rewrite py_index_out by (rewrite map_length; lia). reflexivity.
Qed.

Lemma last_opt_filter_last : forall {A} (p : A -> bool) (l : list A) (x : A),
    p x = true -> last_opt (filter p (l ++ [x])) = Some x.
Proof.
  intros A p l x Hp. rewrite filter_app. cbn [filter]. rewrite Hp.
  induction (filter p l) as [|a m IH]; [reflexivity|]. cbn [app last_opt]. destruct (m ++ [x]) eqn:E.
  - destruct m; discriminate.
  - exact IH.
Qed.

(* subproblem = number of tables agrees with the default when the last table is not an optimal-design table *)
Lemma phi_subproblem_last_lemma : forall (ws : list wtable) (w : wtable) nm rv,
    wfile_ok SPhi false (ws ++ [w]) = true -> not_design (table_of_wtable SPhi false w) = true ->
    parse_phi_sub (Some (render_wfile (ws ++ [w]))) nm rv (Some (Z.of_nat (length (ws ++ [w])))) =
    parse_phi (Some (render_wfile (ws ++ [w]))) nm rv.
Proof.
  intros ws w nm rv Hok Hd.
  rewrite (phi_subproblem_render_lemma _ nm rv _ w Hok) by (rewrite app_length; cbn; lia).
  rewrite parse_phi_unfold, (parse_render_file_lemma SPhi false _ Hok). cbn [rbind].
  rewrite map_app. cbn [map]. rewrite (last_opt_filter_last not_design _ _ Hd).
  replace (Z.to_nat (Z.of_nat (length (ws ++ [w])) - 1)) with (length ws) by (rewrite app_length; cbn; lia).
  rewrite app_nth2 by lia. rewrite Nat.sub_diag. reflexivity.
Qed.

(* ---- correspondence ---- *)
Inductive sub_obs :=
| SubExc                                   (* _parse_phi raised *)
| SubRes (p : option phi_results).         (* (None, None, None) or the three results *)

Record subcase := mkSub {
  sc_phi : text; sc_nm : list (text * text); sc_rv : list text; sc_sub : option Z; sc_obs : sub_obs
}.

Definition subverdict (c : subcase) : list nat :=
  match parse_phi_sub (Some (sc_phi c)) (sc_nm c) (sc_rv c) (sc_sub c), sc_obs c with
  | RUnmodelled, _ => [1006]
  | ROk (Some m), SubRes (Some p) => tag (phi_res_match m p) 6
  | ROk None, SubRes None => []
  | RErr _, SubExc => []
  | _, _ => [6]
  end.
