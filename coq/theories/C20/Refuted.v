(* PV.C20.Refuted — counter-models: one per guard conjunct that exists because the CODE fails (= open finding).
   Each witness is run through the model by vm_compute; the same inputs are replayed on the real code by the
   check (known_findings.d/C20.json). *)
From Coq Require Import List NArith ZArith QArith Qround Bool Arith.
From PV Require Import C20.Model.
Import ListNotations.
Local Open Scope N_scope.

Definition s_THETA1 : text := s_THETA ++ [49].
Definition s_SIGMA11 : text := s_SIGMA ++ [40;49;44;49;41].

Definition fnum (z : Z) : cell := CNum (inject_Z z).

(* ITERATION THETA1 OBJ / 0 1 10 / 10 2 9 / -1000000000 3/2 8 : an MCMC table, the final row is the posterior mean *)
Definition bayes_frame : frame :=
  mkFrame [s_ITERATION; s_THETA1; s_OBJ]
          [(0%nat, [fnum 0; fnum 1; fnum 10]); (1%nat, [fnum 10; fnum 2; fnum 9]);
           (2%nat, [fnum (-1000000000); CNum (3 # 2); fnum 8])].
Definition bayes_table : table := mkTable (Some (mkTitle 1 false None)) bayes_frame.

(* C20-FINAL-OBJ-NEQ-LAST: every other hypothesis of ofv_designated holds, the guard g_final_obj_eq_last is false,
   the designated row says OBJ = 8 and the reported objective value is NaN *)
Theorem ofv_final_obj_neq_last_refuted :
  exists (t : table) (g : frame),
    design_of t = None /\ ext_data_frame (tb_frame t) = ROk g /\
    g_final_obj_eq_last g = false /\
    get_ofv g code_final = ROk (fnum 8) /\
    exists entries, parse_ofv [t] = ROk (CNaN, entries).
Proof.
  exists bayes_table. eexists. split; [reflexivity|]. split; [vm_compute; reflexivity|].
  split; [vm_compute; reflexivity|]. split; [vm_compute; reflexivity|].
  eexists. vm_compute. reflexivity.
Qed.

(* ... and so are the parameter estimates (all NaN although row -1000000000 says THETA(1) = 3/2) *)
Theorem pe_final_obj_neq_last_refuted :
  exists (t : table) (g : frame),
    ext_data_frame (tb_frame t) = ROk g /\ g_final_obj_eq_last g = false /\
    final_parameter_estimates g = ROk [(s_THETA ++ [40;49;41], CNum (3 # 2))] /\
    exists cols rows sd,
      parse_parameter_estimates [t] [] [] = ROk ([(s_THETA ++ [40;49;41], CNaN)], cols, rows, sd).
Proof.
  exists (mkTable (Some (mkTitle 1 false None))
            (mkFrame [s_ITERATION; s_THETA1; s_OBJ]
               [(0%nat, [fnum 0; fnum 1; fnum 10]); (1%nat, [fnum 10; fnum 2; fnum 9]);
                (2%nat, [fnum (-1000000000); CNum (3 # 2); fnum 8]);
                (3%nat, [fnum (-1000000006); fnum 0; fnum 0])])).
  eexists. split; [vm_compute; reflexivity|]. split; [vm_compute; reflexivity|]. split; [vm_compute; reflexivity|].
  eexists. eexists. eexists. vm_compute. reflexivity.
Qed.

(* ---- regression examples of defects that were FIXED in /repo (formerly _refuted witnesses) ---- *)

(* C20-NO-ITER0 (fixed 54e76a4): iterations 5, 10 and the final row (same OBJ as iteration 10), no iteration 0.
   Formerly the objective value was NaN; now it is the designated one and the iterations are 5 and 10. *)
Definition noiter0_frame : frame :=
  mkFrame [s_ITERATION; s_THETA1; s_OBJ]
          [(0%nat, [fnum 5; fnum 1; fnum 10]); (1%nat, [fnum 10; fnum 2; fnum 9]);
           (2%nat, [fnum (-1000000000); fnum 2; fnum 9])].

Example no_iter0_fixed :
  parse_ofv [mkTable (Some (mkTitle 1 false None)) noiter0_frame] =
  ROk (fnum 9, [(1%nat, fnum 5, fnum 10); (1%nat, fnum 10, fnum 9)]).
Proof. vm_compute. reflexivity. Qed.

(* C20-NOHEADER-FIRST-ROW (fixed 5f0fde5): a $TABLE file written with NOHEADER (no title, no label line), read with
   notitle and nolabel.  Formerly the first record was taken for the labels (1 row); now both records are data. *)
Definition e_num (neg : bool) (d6 : text) (eneg : bool) (e2 : text) : wnum := WSci neg d6 eneg e2.
Definition noheader_table : wtable :=
  mkWTable None [s_ID; [68;86]]
    [[e_num false [49;48;48;48;48;48] false [48;48]; e_num false [50;53;48;48;48;48] false [48;48]];
     [e_num false [50;48;48;48;48;48] false [48;48]; e_num true [51;53;48;48;48;48] false [48;48]]]
    false 0 false.

Example noheader_fixed :
  wtable_notitle_ok true noheader_table = true /\
  read_table_file SOther true true (render_wfile [noheader_table]) =
  ROk [mkTable None (mkFrame [[48]; [49]] [(0%nat, [CNum 1; CNum (5 # 2)]); (1%nat, [CNum 2; CNum (-7 # 2)])])].
Proof. split; vm_compute; reflexivity. Qed.

(* C20-COR-READONLY (fixed 67546b1): a run directory with a .cor file.  Formerly np.fill_diagonal(cor.values, 1)
   raised under pandas >= 3; now the correlation matrix is reported with a unit diagonal. *)
Definition nl : N := 10.
Definition sp (k : nat) : text := repeat 32 k.
Definition title1 : text :=
  s_TABLE_NO_dot ++ sp 5 ++ [49] ++ [58;32;70;58;32] ++ s_Problem ++ [49] ++ s_Subproblem ++ [48] ++
  s_Superproblem1 ++ [48] ++ s_Iteration1 ++ [48] ++ s_Superproblem2 ++ [48] ++ s_Iteration2 ++ [48] ++ [nl].
Definition n1 : text := [49;46;48;48;48;48;48;69;43;48;48].   (* 1.00000E+00 *)
Definition n2 : text := [50;46;48;48;48;48;48;69;43;48;48].
Definition n0 : text := [48;46;48;48;48;48;48;69;43;48;48].
Definition ext_text : text :=
  title1 ++ [32] ++ s_ITERATION ++ sp 4 ++ s_THETA1 ++ sp 7 ++ s_OBJ ++ [nl] ++
  sp 12 ++ [48] ++ sp 2 ++ n1 ++ sp 2 ++ n2 ++ [nl] ++
  sp 2 ++ [45;49;48;48;48;48;48;48;48;48;48] ++ sp 2 ++ n1 ++ sp 2 ++ n2 ++ [nl] ++
  sp 2 ++ [45;49;48;48;48;48;48;48;48;48;49] ++ sp 2 ++ n2 ++ sp 2 ++ n0 ++ [nl] ++
  sp 2 ++ [45;49;48;48;48;48;48;48;48;48;53] ++ sp 2 ++ n0 ++ sp 2 ++ n0 ++ [nl] ++
  sp 2 ++ [45;49;48;48;48;48;48;48;48;48;54] ++ sp 2 ++ n0 ++ sp 2 ++ n0 ++ [nl].
Definition cor_text : text :=
  title1 ++ [32] ++ s_NAME ++ sp 9 ++ s_THETA1 ++ [nl] ++ sp 7 ++ s_THETA1 ++ sp 2 ++ n2 ++ [nl].

Example cor_read_fixed :
  exists r, read_run (Some ext_text) [] [] true None (Some cor_text) None = ROk (RunOk r) /\
            option_map m_vals (rr_cor r) = Some [[CNum 1]].
Proof. eexists. split; vm_compute; reflexivity. Qed.

(* C20-FORTRAN-EXP3 (open): NONMEM prints a value below 1e-99 without the E (1.00000-100).  pandas does not read that
   token as a number, so the whole column is a string column: a perfectly ordinary number of the same column
   (1.20000E-01 in the second record) is NOT read as written — number_as_written / parse_render_body fail exactly on
   the conjunct col_homogeneous of wbody_ok; every other conjunct holds. *)
Definition f3_table : wtable :=
  mkWTable None [s_ITERATION; s_THETA1]
    [[WInt false [48]; WStr [49;46;48;48;48;48;48;45;49;48;48]];
     [WInt false [53]; WSci false [49;50;48;48;48;48] true [48;49]]]
    false 0 true.

Theorem fortran_exp3_refuted :
  forallb (col_homogeneous (w_rows f3_table)) (seq 0 2) = false /\
  forallb (fun r => Nat.eqb (length r) 2 && row_ok false r) (w_rows f3_table) = true /\
  labels_ok (w_labels f3_table) = true /\
  exists f, read_frame (render_body f3_table) = ROk f /\
            nth 1 (snd (nth 1 (f_rows f) (0%nat, []))) CNaN = CStr [49;46;50;48;48;48;48;69;45;48;49] /\
            wcell (WSci false [49;50;48;48;48;48] true [48;49]) = CNum (3 # 25).
Proof.
  split; [vm_compute; reflexivity|]. split; [vm_compute; reflexivity|]. split; [vm_compute; reflexivity|].
  eexists. split; [vm_compute; reflexivity|]. split; vm_compute; reflexivity.
Qed.
