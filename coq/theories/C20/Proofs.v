(* PV.C20.Proofs — lemmas about the model of C20. *)
From Coq Require Import List NArith ZArith QArith Qround Qfield Bool Arith Lia ZifyBool Setoid.
From PV Require Import C20.Model.
Import ListNotations.
Local Open Scope nat_scope.

(* ================================================================================================ *)
(** * lines / universal newlines / table splitting *)

Lemma lines_concat : forall t, concat (lines t) = t.
Proof.
  induction t as [|c tl IH]; [reflexivity|].
  cbn [lines]. destruct (N.eqb c c_nl).
  - cbn [concat app]. rewrite IH. reflexivity.
  - destruct (lines tl) as [|l ls] eqn:E.
    + cbn in IH. subst tl. reflexivity.
    + cbn [concat] in *. rewrite <- IH. reflexivity.
Qed.

Lemma splitlines_concat : forall t, concat (splitlines t) = t.
Proof.
  induction t as [|c tl IH]; [reflexivity|].
  cbn [splitlines]. destruct (is_splitlines_sep c).
  - cbn [concat app]. rewrite IH. reflexivity.
  - destruct (splitlines tl) as [|l ls] eqn:E.
    + cbn in IH. subst tl. reflexivity.
    + cbn [concat] in *. rewrite <- IH. reflexivity.
Qed.

Lemma universal_newlines_id : forall t, existsb (N.eqb c_cr) t = false -> universal_newlines t = t.
Proof.
  induction t as [|c tl IH]; intros H; [reflexivity|].
  cbn [existsb] in H. apply orb_false_iff in H. destruct H as [Hc Ht].
  cbn [universal_newlines]. rewrite N.eqb_sym in Hc. rewrite Hc. rewrite IH by exact Ht. reflexivity.
Qed.

Lemma universal_newlines_no_cr : forall t, existsb (N.eqb c_cr) (universal_newlines t) = false.
Proof.
  assert (G : forall n t, length t <= n -> existsb (N.eqb c_cr) (universal_newlines t) = false).
  { induction n as [|n IH]; intros [|c tl] Hl; try reflexivity; cbn [length] in Hl; [lia|].
    cbn [universal_newlines]. destruct (N.eqb c c_cr) eqn:E.
    - destruct tl as [|d tl']; [reflexivity|]. cbn [length] in Hl.
      destruct (N.eqb d c_nl); cbn [existsb]; rewrite IH by (cbn [length]; lia); reflexivity.
    - cbn [existsb]. rewrite IH by lia. rewrite N.eqb_sym, E. reflexivity. }
  intros t. apply (G (length t)). lia.
Qed.

Lemma split_from_concat : forall ls cur, concat (split_from cur ls) = cur ++ ls.
Proof.
  induction ls as [|l tl IH]; intros cur.
  - reflexivity.
  - cbn [split_from]. destruct (is_table_line l).
    + destruct cur as [|c0 cur'].
      * rewrite IH. reflexivity.
      * cbn [concat]. rewrite IH. reflexivity.
    + rewrite IH. rewrite <- app_assoc. reflexivity.
Qed.

Lemma split_tables_concat_lemma : forall ls, concat (split_tables ls) = ls.
Proof. intros. unfold split_tables. rewrite split_from_concat. reflexivity. Qed.

Lemma split_tables_text : forall t, concat (concat (split_tables (lines t))) = t.
Proof. intros. rewrite split_tables_concat_lemma. apply lines_concat. Qed.

(* every table but the first starts with a TABLE NO. line *)
Definition starts_table (t : list text) : Prop := exists l r, t = l :: r /\ is_table_line l = true.
Definition tail_clean (t : list text) : Prop := Forall (fun x => is_table_line x = false) (tl t).

Lemma split_from_later_start : forall ls cur t, In t (tl (split_from cur ls)) -> starts_table t.
Proof.
  induction ls as [|l rest IH]; intros cur t H.
  - cbn in H. contradiction.
  - cbn [split_from] in H. destruct (is_table_line l) eqn:E.
    + destruct cur as [|c0 cur'].
      * apply (IH [l]). exact H.
      * cbn [tl] in H.
        (* split_from [l] rest = first :: others *)
        destruct (split_from [l] rest) as [|f others] eqn:S.
        { contradiction. }
        destruct H as [H|H].
        -- subst t. clear IH.
           (* the head of split_from [l] rest starts with l *)
           assert (G : forall ls c, exists r, hd [] (split_from (l :: c) ls) = l :: r).
           { clear. induction ls as [|x xs IHx]; intros c.
             - cbn. eexists; reflexivity.
             - cbn [split_from]. destruct (is_table_line x).
               + cbn. eexists; reflexivity.
               + cbn [app]. apply IHx. }
           destruct (G rest []) as [r Hr]. rewrite S in Hr. cbn in Hr. subst f.
           exists l, r. split; [reflexivity|exact E].
        -- apply (IH [l]). rewrite S. exact H.
    + apply (IH (cur ++ [l])). exact H.
Qed.

Lemma split_from_tail_clean : forall ls cur,
    tail_clean cur -> forall t, In t (split_from cur ls) -> tail_clean t.
Proof.
  induction ls as [|l rest IH]; intros cur Hc t H.
  - cbn in H. destruct H as [H|[]]. subst. exact Hc.
  - cbn [split_from] in H. destruct (is_table_line l) eqn:E.
    + destruct cur as [|c0 cur'].
      * apply (IH [l]); [constructor|exact H].
      * destruct H as [H|H]; [subst; exact Hc|].
        apply (IH [l]); [constructor|exact H].
    + apply (IH (cur ++ [l])); [|exact H].
      unfold tail_clean in *. destruct cur as [|c0 cur'].
      * cbn. constructor.
      * cbn [tl app] in *. apply Forall_app. split; [exact Hc|]. constructor; [exact E|constructor].
Qed.

Lemma split_from_nonempty : forall ls cur t,
    (cur <> [] \/ ls <> []) -> In t (split_from cur ls) -> t <> [].
Proof.
  induction ls as [|l rest IH]; intros cur t Hne H.
  - cbn in H. destruct H as [H|[]]. subst. destruct Hne as [Hn|Hn]; [exact Hn|congruence].
  - cbn [split_from] in H. destruct (is_table_line l).
    + destruct cur as [|c0 cur'].
      * apply (IH [l] t); [left; discriminate|exact H].
      * destruct H as [H|H]; [subst; discriminate|].
        apply (IH [l] t); [left; discriminate|exact H].
    + apply (IH (cur ++ [l]) t); [|exact H]. left. destruct cur; discriminate.
Qed.

(* the first table starts with a TABLE NO. line iff the first line of the file is one *)
Lemma split_first_start : forall l rest,
    is_table_line l = true -> starts_table (hd [] (split_tables (l :: rest))).
Proof.
  intros l rest E. unfold split_tables. cbn [split_from]. rewrite E.
  assert (G : forall ls c, exists r, hd [] (split_from (l :: c) ls) = l :: r).
  { clear. induction ls as [|x xs IHx]; intros c.
    - cbn. eexists; reflexivity.
    - cbn [split_from]. destruct (is_table_line x).
      + cbn. eexists; reflexivity.
      + cbn [app]. apply IHx. }
  destruct (G rest []) as [r Hr]. exists l, r. split; [exact Hr|exact E].
Qed.

(* number of tables = number of TABLE NO. lines, plus one when the file does not start with one *)
Lemma split_from_count : forall ls cur,
    length (split_from cur ls) =
    (count_occ bool_dec (map is_table_line ls) true +
     match cur, ls with
     | [], l :: _ => if is_table_line l then 0 else 1
     | _, _ => 1
     end).
Proof.
  induction ls as [|l rest IH]; intros cur.
  - cbn. destruct cur; reflexivity.
  - cbn [split_from map count_occ]. destruct (is_table_line l) eqn:E.
    + destruct (bool_dec true true) as [_|n]; [|congruence].
      destruct cur as [|c0 cur'].
      * rewrite IH. destruct rest; lia.
      * cbn [length]. rewrite IH. destruct rest; lia.
    + destruct (bool_dec false true) as [e|_]; [discriminate|].
      rewrite IH. destruct cur as [|c0 cur']; cbn [app].
      * destruct rest as [|l2 r2]; [lia|]. lia.
      * destruct rest as [|l2 r2]; lia.
Qed.

(* ================================================================================================ *)
(** * ExtTable: rows selected by the designated codes *)

Lemma filter_single {A} (p : A -> bool) (l : list A) (x : A) :
  filter p l = [x] -> In x l /\ p x = true /\ forall y, In y l -> p y = true -> y = x.
Proof.
  intros H.
  assert (Hin : In x (filter p l)) by (rewrite H; left; reflexivity).
  apply filter_In in Hin. destruct Hin as [Hi Hp]. split; [exact Hi|split; [exact Hp|]].
  intros y Hy Hpy. assert (In y (filter p l)) by (apply filter_In; split; assumption).
  rewrite H in H0. destruct H0 as [H0|[]]. congruence.
Qed.

Definition row_has_code (g : frame) (z : Z) (ir : nat * list cell) : bool :=
  cell_is z (cell_at (snd ir) (index_of s_ITERATION (f_cols g))).

Lemma rows_with_spec g z : rows_with g z = filter (row_has_code g z) (f_rows g).
Proof. reflexivity. Qed.

(* get_parameters returns the entries of THE row carrying the code *)
Lemma get_parameters_row : forall g z th l,
    get_parameters g z th = ROk l ->
    exists i r, In (i, r) (f_rows g) /\ row_has_code g z (i, r) = true /\
                (forall ir, In ir (f_rows g) -> row_has_code g z ir = true -> ir = (i, r)) /\
                l = (if th then drop_first_last (combine (f_cols g) r)
                     else filter (fun nc => negb (contains s_THETA (fst nc))) (drop_first_last (combine (f_cols g) r))).
Proof.
  intros g z th l H. unfold get_parameters in H. rewrite rows_with_spec in H.
  destruct (filter (row_has_code g z) (f_rows g)) as [|[i r] [|x xs]] eqn:F; try discriminate.
  apply filter_single in F. destruct F as [Hin [Hp Hu]].
  exists i, r. split; [exact Hin|]. split; [exact Hp|]. split; [exact Hu|].
  inversion H. reflexivity.
Qed.

Lemma get_parameters_keyerror : forall g z th,
    get_parameters g z th = RErr 3%N <-> (forall ir, In ir (f_rows g) -> row_has_code g z ir = false).
Proof.
  intros g z th. unfold get_parameters. rewrite rows_with_spec. split.
  - intros H ir Hin. destruct (filter (row_has_code g z) (f_rows g)) as [|[i r] [|x xs]] eqn:F; try discriminate.
    destruct (row_has_code g z ir) eqn:E; [|reflexivity].
    assert (In ir (filter (row_has_code g z) (f_rows g))) by (apply filter_In; split; assumption).
    rewrite F in H0. contradiction.
  - intros H. destruct (filter (row_has_code g z) (f_rows g)) as [|[i r] xs] eqn:F; [reflexivity|].
    assert (Hin : In (i, r) (filter (row_has_code g z) (f_rows g))) by (rewrite F; left; reflexivity).
    apply filter_In in Hin. destruct Hin as [Hi Hp]. rewrite (H _ Hi) in Hp. discriminate.
Qed.

Lemma get_ofv_row : forall g z c,
    get_ofv g z = ROk c ->
    exists i r, In (i, r) (f_rows g) /\ row_has_code g z (i, r) = true /\
                (forall ir, In ir (f_rows g) -> row_has_code g z ir = true -> ir = (i, r)) /\
                c = obj_cell g r.
Proof.
  intros g z c H. unfold get_ofv in H. rewrite rows_with_spec in H.
  destruct (filter (row_has_code g z) (f_rows g)) as [|[i r] [|x xs]] eqn:F; try discriminate.
  apply filter_single in F. destruct F as [Hin [Hp Hu]].
  exists i, r. split; [exact Hin|]. split; [exact Hp|]. split; [exact Hu|].
  inversion H. reflexivity.
Qed.

(* ---- the fallback: the row of the largest non-negative iteration ---- *)
Lemma fold_max_ge : forall l x y, In y (x :: l) ->
    Qle_bool y (fold_left (fun a b => if Qle_bool a b then b else a) l x) = true.
Proof.
  induction l as [|b tl IH]; intros x y H.
  - destruct H as [H|[]]. subst. cbn. apply Qle_bool_iff. apply Qle_refl.
  - cbn [fold_left]. destruct H as [H|[H|H]].
    + subst y. destruct (Qle_bool x b) eqn:E.
      * apply Qle_bool_iff. apply Qle_trans with b.
        -- apply Qle_bool_iff. exact E.
        -- apply Qle_bool_iff. apply IH. left. reflexivity.
      * apply IH. left. reflexivity.
    + subst y. destruct (Qle_bool x b) eqn:E.
      * apply IH. left. reflexivity.
      * apply Qle_bool_iff. apply Qle_trans with x.
        -- destruct (Qlt_le_dec x b) as [L|L].
           ++ exfalso. apply Qlt_le_weak in L. apply Qle_bool_iff in L. congruence.
           ++ exact L.
        -- apply Qle_bool_iff. apply IH. left. reflexivity.
    + apply IH. right. exact H.
Qed.

Lemma fold_max_in : forall l x, In (fold_left (fun a b => if Qle_bool a b then b else a) l x) (x :: l).
Proof.
  induction l as [|b tl IH]; intros x.
  - left. reflexivity.
  - cbn [fold_left]. destruct (Qle_bool x b).
    + right. apply IH.
    + destruct (IH x) as [H|H]; [left; exact H|right; right; exact H].
Qed.

Lemma qmax_list_spec : forall l m, qmax_list l = Some m ->
    In m l /\ forall y, In y l -> Qle_bool y m = true.
Proof.
  intros [|x tl] m H; [discriminate|]. cbn in H. inversion H. subst m. split.
  - apply fold_max_in.
  - intros y Hy. apply fold_max_ge. exact Hy.
Qed.

(* ================================================================================================ *)
(** * triangular_root *)

Lemma triangular_root_correct_lemma : forall n : N, triangular_root (n * (n + 1) / 2) = n.
Proof.
  intros n. unfold triangular_root.
  assert (E : (2 * (n * (n + 1) / 2) = n * (n + 1))%N).
  { assert (Hev : (N.even (n * (n + 1)) = true)%N).
    { rewrite N.even_mul. rewrite N.even_add. destruct (N.even n) eqn:En; cbn; [reflexivity|].
      reflexivity. }
    apply N.even_spec in Hev. destruct Hev as [k Hk]. rewrite Hk.
    replace (2 * k / 2)%N with k; [reflexivity|].
    symmetry. rewrite N.mul_comm. apply N.div_mul. discriminate. }
  rewrite E. apply N.sqrt_unique. lia.
Qed.

(* for every x, the root r satisfies r^2 <= 2x < (r+1)^2 — what the code computes for non-triangular x *)
Lemma triangular_root_spec : forall x : N,
    let r := triangular_root x in (r * r <= 2 * x < (r + 1) * (r + 1))%N.
Proof.
  intros x r. unfold r, triangular_root. pose proof (N.sqrt_spec (2 * x)%N (N.le_0_l _)) as H.
  cbv zeta in H. rewrite <- !N.add_1_r in H. exact H.
Qed.

(* ================================================================================================ *)
(** * flattened_to_symmetric *)

Lemma nth_repeat_lt' {B} (a d : B) : forall n i, i < n -> nth i (repeat a n) d = a.
Proof. induction n as [|n IH]; intros [|i] H; cbn; try lia; [reflexivity|apply IH; lia]. Qed.

Section Flat.
  Context {A : Type} (z : A).

  Definition mget (m : list (list A)) (i j : nat) : A := nth j (nth i m []) z.
  Definition dims (m : list (list A)) (n : nat) : Prop :=
    length m = n /\ forall i, i < n -> length (nth i m []) = n.

  Lemma zeros_dims n : dims (zeros z n) n.
  Proof.
    unfold zeros, dims. split; [apply repeat_length|].
    intros i Hi. rewrite nth_repeat_lt' by exact Hi. apply repeat_length.
  Qed.

  Lemma zeros_get n i j : i < n -> j < n -> mget (zeros z n) i j = z.
  Proof. intros Hi Hj. unfold mget, zeros. rewrite nth_repeat_lt' by exact Hi. apply nth_repeat_lt'. exact Hj. Qed.

  (* replacing position j of a row *)
  Lemma row_set_nth (row : list A) j v k : j < length row ->
    nth k (firstn j row ++ v :: skipn (S j) row) z = if Nat.eqb k j then v else nth k row z.
  Proof.
    intros Hj. destruct (Nat.eqb_spec k j) as [E|E].
    - subst k. rewrite app_nth2; rewrite firstn_length_le by lia; [|lia]. rewrite Nat.sub_diag. reflexivity.
    - destruct (Nat.lt_ge_cases k j) as [L|L].
      + rewrite app_nth1 by (rewrite firstn_length_le; lia).
        rewrite <- (firstn_skipn j row) at 2. rewrite app_nth1 by (rewrite firstn_length_le; lia). reflexivity.
      + rewrite app_nth2; rewrite firstn_length_le by lia; [|lia].
        assert (k - j = S (k - j - 1)) as -> by lia. cbn [app nth].
        rewrite <- (firstn_skipn (S j) row) at 2. rewrite app_nth2; rewrite firstn_length_le by lia; [|lia].
        f_equal. lia.
  Qed.

  Lemma row_set_length (row : list A) j v : j < length row ->
    length (firstn j row ++ v :: skipn (S j) row) = length row.
  Proof. intros Hj. rewrite app_length. cbn [length]. rewrite firstn_length_le, skipn_length by lia. lia. Qed.

  Lemma mat_set_dims m n i j v : dims m n -> i < n -> j < n -> dims (mat_set m i j v) n.
  Proof.
    intros [Hl Hr] Hi Hj. unfold mat_set.
    destruct (nth_error m i) as [row|] eqn:E.
    2:{ apply nth_error_None in E. lia. }
    assert (Hrow : nth i m [] = row) by (apply nth_error_nth; exact E).
    assert (Hlr : length row = n) by (rewrite <- Hrow; apply Hr; exact Hi).
    split.
    - rewrite !app_length, firstn_length_le, skipn_length by lia. cbn. lia.
    - intros k Hk. destruct (Nat.eqb_spec k i) as [Ek|Ek].
      + subst k. rewrite app_nth2; rewrite firstn_length_le by lia; [|lia]. rewrite Nat.sub_diag. cbn [app nth].
        rewrite row_set_length by lia. exact Hlr.
      + destruct (Nat.lt_ge_cases k i) as [L|L].
        * rewrite app_nth1 by (rewrite firstn_length_le; lia).
          rewrite <- (Hr k Hk). f_equal.
          rewrite <- (firstn_skipn i m) at 2. rewrite app_nth1 by (rewrite firstn_length_le; lia). reflexivity.
        * rewrite app_nth2; rewrite firstn_length_le by lia; [|lia].
          assert (k - i = S (k - i - 1)) as -> by lia. cbn [app nth].
          rewrite <- (Hr k Hk). f_equal.
          rewrite <- (firstn_skipn (S i) m) at 2. rewrite app_nth2; rewrite firstn_length_le by lia; [|lia].
          f_equal. lia.
  Qed.

  Lemma mat_set_get m n i j v i' j' : dims m n -> i < n -> j < n ->
    mget (mat_set m i j v) i' j' = if Nat.eqb i' i && Nat.eqb j' j then v else mget m i' j'.
  Proof.
    intros [Hl Hr] Hi Hj. unfold mat_set, mget.
    destruct (nth_error m i) as [row|] eqn:E.
    2:{ apply nth_error_None in E. lia. }
    assert (Hrow : nth i m [] = row) by (apply nth_error_nth; exact E).
    assert (Hlr : length row = n) by (rewrite <- Hrow; apply Hr; exact Hi).
    destruct (Nat.eqb_spec i' i) as [Ek|Ek]; cbn [andb].
    - subst i'. rewrite app_nth2; rewrite firstn_length_le by lia; [|lia]. rewrite Nat.sub_diag. cbn [app nth].
      rewrite row_set_nth by lia. rewrite Hrow. reflexivity.
    - f_equal. destruct (Nat.lt_ge_cases i' i) as [L|L].
      + rewrite app_nth1 by (rewrite firstn_length_le; lia).
        rewrite <- (firstn_skipn i m) at 2. rewrite app_nth1 by (rewrite firstn_length_le; lia). reflexivity.
      + rewrite app_nth2; rewrite firstn_length_le by lia; [|lia].
        assert (i' - i = S (i' - i - 1)) as -> by lia. cbn [app nth].
        rewrite <- (firstn_skipn (S i) m) at 2.
        destruct (Nat.lt_ge_cases i' (length m)) as [L2|L2].
        * rewrite app_nth2; rewrite firstn_length_le by lia; [|lia]. f_equal. lia.
        * rewrite (nth_overflow (firstn (S i) m ++ skipn (S i) m)) by (rewrite firstn_skipn; lia).
          apply nth_overflow. rewrite skipn_length. lia.
  Qed.

  (* a sequence of assignments *)
  Definition assign (m : list (list A)) (a : nat * nat * A) := mat_set m (fst (fst a)) (snd (fst a)) (snd a).
  Definition in_bounds (n : nat) (a : nat * nat * A) : Prop := fst (fst a) < n /\ snd (fst a) < n.

  Fixpoint lookup_last (l : list (nat * nat * A)) (i j : nat) : option A :=
    match l with
    | [] => None
    | a :: tl => match lookup_last tl i j with
                 | Some v => Some v
                 | None => if Nat.eqb i (fst (fst a)) && Nat.eqb j (snd (fst a)) then Some (snd a) else None
                 end
    end.

  Lemma fold_assign : forall l m n, dims m n -> Forall (in_bounds n) l ->
    dims (fold_left assign l m) n /\
    forall i j, mget (fold_left assign l m) i j = match lookup_last l i j with Some v => v | None => mget m i j end.
  Proof.
    induction l as [|a tl IH]; intros m n Hd Hb.
    - split; [exact Hd|reflexivity].
    - inversion Hb as [|? ? [Ha1 Ha2] Hb']. subst.
      cbn [fold_left]. destruct (IH (assign m a) n) as [Hd' Hg].
      + apply mat_set_dims; assumption.
      + exact Hb'.
      + split; [exact Hd'|]. intros i j. rewrite Hg. cbn [lookup_last].
        destruct (lookup_last tl i j); [reflexivity|].
        unfold assign. rewrite (mat_set_get m n) by assumption.
        destruct (Nat.eqb i (fst (fst a)) && Nat.eqb j (snd (fst a))); reflexivity.
  Qed.
End Flat.

Lemma NoDup_app_intro {B} (a b : list B) :
  NoDup a -> NoDup b -> (forall x, In x a -> In x b -> False) -> NoDup (a ++ b).
Proof.
  induction a as [|x a IH]; intros Ha Hb Hd; [exact Hb|].
  inversion Ha as [|? ? Hn Ha']. subst. cbn. constructor.
  - rewrite in_app_iff. intros [H|H]; [contradiction|]. apply (Hd x); [left; reflexivity|exact H].
  - apply IH; [exact Ha'|exact Hb|]. intros y H1 H2. apply (Hd y); [right; exact H1|exact H2].
Qed.

(* ---- the enumeration of the lower triangle ---- *)
Fixpoint tri (n : nat) : nat := match n with O => O | S k => tri k + S k end.

Lemma tri_double n : 2 * tri n = n * (n + 1).
Proof. induction n as [|n IH]; [reflexivity|]. cbn [tri]. lia. Qed.
Lemma tri_div n : tri n = n * (n + 1) / 2.
Proof. rewrite <- tri_double. rewrite Nat.mul_comm. symmetry. apply Nat.div_mul. discriminate. Qed.
Lemma tri_mono a b : a <= b -> tri a <= tri b.
Proof. induction 1; [lia|]. cbn [tri]. lia. Qed.

Lemma tril_row_length r c : length (tril_row r c) = c.
Proof. induction c as [|c IH]; [reflexivity|]. cbn [tril_row]. rewrite app_length, IH. cbn. lia. Qed.
Lemma tril_row_nth r c k d : k < c -> nth k (tril_row r c) d = (r, k).
Proof.
  induction c as [|c IH]; intros H; [lia|]. cbn [tril_row].
  destruct (Nat.eq_dec k c) as [E|E].
  - subst. rewrite app_nth2; rewrite tril_row_length; [|lia]. rewrite Nat.sub_diag. reflexivity.
  - rewrite app_nth1 by (rewrite tril_row_length; lia). apply IH. lia.
Qed.
Lemma tril_row_In r c p : In p (tril_row r c) <-> fst p = r /\ snd p < c.
Proof.
  induction c as [|c IH]; cbn [tril_row].
  - split; [intros []|lia].
  - rewrite in_app_iff, IH. cbn [In]. destruct p as [a b]. cbn [fst snd]. split.
    + intros [[H1 H2]|[H|[]]]; [lia|]. inversion H. lia.
    + intros [H1 H2]. destruct (Nat.eq_dec b c); [right; left; subst; reflexivity|left; lia].
Qed.
Lemma tril_row_NoDup r c : NoDup (tril_row r c).
Proof.
  induction c as [|c IH]; cbn [tril_row]; [constructor|].
  apply NoDup_app_intro; [exact IH|repeat constructor; intros []|].
  intros p H1 H2. apply tril_row_In in H1. destruct H2 as [H2|[]]. subst p. cbn in H1. lia.
Qed.

Lemma tril_upto_length n : length (tril_upto n) = tri n.
Proof. induction n as [|n IH]; [reflexivity|]. cbn [tril_upto tri]. rewrite app_length, IH, tril_row_length. reflexivity. Qed.
Lemma tril_upto_In n p : In p (tril_upto n) <-> snd p <= fst p /\ fst p < n.
Proof.
  induction n as [|n IH]; cbn [tril_upto].
  - split; [intros []|lia].
  - rewrite in_app_iff, IH, tril_row_In. lia.
Qed.
Lemma tril_upto_NoDup n : NoDup (tril_upto n).
Proof.
  induction n as [|n IH]; cbn [tril_upto]; [constructor|].
  apply NoDup_app_intro; [exact IH|apply tril_row_NoDup|].
  intros p H1 H2. apply tril_upto_In in H1. apply tril_row_In in H2. lia.
Qed.
Lemma tril_upto_nth n r c d : c <= r -> r < n -> nth (tri r + c) (tril_upto n) d = (r, c).
Proof.
  induction n as [|n IH]; intros Hc Hr; [lia|]. cbn [tril_upto].
  destruct (Nat.eq_dec r n) as [E|E].
  - subst r. rewrite app_nth2; rewrite tril_upto_length; [|lia].
    replace (tri n + c - tri n) with c by lia. apply tril_row_nth. lia.
  - assert (tri (S r) <= tri n) by (apply tri_mono; lia). cbn [tri] in H.
    rewrite app_nth1 by (rewrite tril_upto_length; lia). apply IH; lia.
Qed.

Section Flat2.
  Context {A : Type} (z : A).

  Lemma lookup_last_none : forall (keys : list (nat * nat)) (vals : list A) i j,
      ~ In (i, j) keys -> lookup_last (combine keys vals) i j = None.
  Proof.
    induction keys as [|[a b] keys IH]; intros vals i j H; [reflexivity|].
    destruct vals as [|v vals]; [reflexivity|]. cbn [combine lookup_last fst snd].
    rewrite IH by (intro; apply H; right; assumption).
    destruct (Nat.eqb_spec i a); destruct (Nat.eqb_spec j b); cbn; try reflexivity.
    subst. exfalso. apply H. left. reflexivity.
  Qed.

  Lemma lookup_last_combine : forall (keys : list (nat * nat)) (vals : list A) k d,
      NoDup keys -> length keys = length vals -> k < length keys ->
      lookup_last (combine keys vals) (fst (nth k keys d)) (snd (nth k keys d)) = Some (nth k vals z).
  Proof.
    induction keys as [|[a b] keys IH]; intros vals k d Hn Hl Hk; [cbn in Hk; lia|].
    destruct vals as [|v vals]; [cbn in Hl; lia|]. inversion Hn as [|? ? Hnot Hn']. subst.
    cbn [combine lookup_last]. destruct k as [|k].
    - cbn [nth fst snd]. rewrite lookup_last_none by exact Hnot.
      rewrite !Nat.eqb_refl. reflexivity.
    - cbn [nth]. cbn [length] in *. rewrite (IH vals k d) by (try assumption; lia). reflexivity.
  Qed.

  Definition swapk (a : nat * nat * A) : nat * nat * A := ((snd (fst a), fst (fst a)), snd a).

  Lemma fold_swap : forall l m,
      fold_left (fun m ix => mat_set m (snd (fst ix)) (fst (fst ix)) (snd ix)) l m = fold_left assign (map swapk l) m.
  Proof. induction l as [|a l IH]; intros m; [reflexivity|]. cbn [fold_left map]. rewrite IH. reflexivity. Qed.

  Lemma lookup_last_swap : forall l i j, lookup_last (map swapk l) i j = lookup_last l j i.
  Proof.
    induction l as [|a l IH]; intros i j; [reflexivity|]. cbn [map lookup_last]. rewrite IH.
    destruct (lookup_last l j i); [reflexivity|]. unfold swapk. cbn [fst snd].
    rewrite andb_comm. reflexivity.
  Qed.

  Lemma troot_nat n : N.to_nat (triangular_root (N.of_nat (n * (n + 1) / 2))) = n.
  Proof.
    replace (N.of_nat (n * (n + 1) / 2)) with (N.of_nat n * (N.of_nat n + 1) / 2)%N.
    - rewrite triangular_root_correct_lemma. apply Nat2N.id.
    - rewrite Nat2N.inj_div, Nat2N.inj_mul, Nat2N.inj_add. reflexivity.
  Qed.

  Theorem flattened_symmetric_lemma : forall (x : list A) (n : nat),
      length x = n * (n + 1) / 2 ->
      exists m, flattened_to_symmetric z x = Some m /\ dims m n /\
        forall r c, c <= r -> r < n ->
          mget z m r c = nth (r * (r + 1) / 2 + c) x z /\ mget z m c r = nth (r * (r + 1) / 2 + c) x z.
  Proof.
    intros x n Hx. unfold flattened_to_symmetric. rewrite Hx, troot_nat.
    rewrite tril_upto_length, tri_div, Nat.eqb_refl.
    eexists. split; [reflexivity|].
    rewrite fold_swap.
    set (L := combine (tril_upto n) x).
    assert (HbL : Forall (in_bounds n) L).
    { apply Forall_forall. intros [[a b] v] Hin. apply in_combine_l in Hin. apply tril_upto_In in Hin.
      unfold in_bounds. cbn [fst snd] in *. lia. }
    assert (HbS : Forall (in_bounds n) (map swapk L)).
    { apply Forall_forall. intros a Hin. apply in_map_iff in Hin. destruct Hin as [[[p q] v] [E Hin]]. subst a.
      rewrite Forall_forall in HbL. specialize (HbL _ Hin). unfold in_bounds, swapk in *. cbn [fst snd] in *. lia. }
    destruct (fold_assign z L (zeros z n) n (zeros_dims z n) HbL) as [Hd1 Hg1].
    destruct (fold_assign z (map swapk L) _ n Hd1 HbS) as [Hd2 Hg2].
    split; [exact Hd2|].
    intros r c Hc Hr.
    assert (Hlen : length (tril_upto n) = length x) by (rewrite tril_upto_length, tri_div; lia).
    assert (Hk : tri r + c < length (tril_upto n)).
    { rewrite tril_upto_length. assert (tri (S r) <= tri n) by (apply tri_mono; lia). cbn [tri] in H. lia. }
    assert (Hrc : lookup_last L r c = Some (nth (tri r + c) x z)).
    { pose proof (lookup_last_combine (tril_upto n) x (tri r + c) (0, 0) (tril_upto_NoDup n) Hlen Hk) as H.
      rewrite tril_upto_nth in H by assumption. exact H. }
    rewrite <- tri_div.
    split; rewrite Hg2, lookup_last_swap.
    - destruct (Nat.eq_dec c r) as [E|E].
      + subst c. rewrite Hrc. reflexivity.
      + unfold L at 1. rewrite lookup_last_none by (rewrite tril_upto_In; cbn [fst snd]; lia).
        rewrite Hg1, Hrc. reflexivity.
    - rewrite Hrc. reflexivity.
  Qed.
End Flat2.

(* ================================================================================================ *)
(** * parse (render x) = x at the level of one table body: tokens, numbers, read_frame *)

(* ---- tokens ---- *)
Lemma tokens_spaces : forall k s, tokens (spaces k ++ s) = tokens s.
Proof. induction k as [|k IH]; intros s; [reflexivity|]. cbn [spaces repeat app tokens]. cbn. apply IH. Qed.

Definition delim_start (rest : text) : Prop := rest = [] \/ exists d r, rest = d :: r /\ is_delim d = true.

Lemma tokchar_not_delim c : tokchar c = true -> is_delim c = false.
Proof. unfold tokchar. intros H. destruct (is_delim c); [discriminate|reflexivity]. Qed.

Lemma tokens_tok : forall f rest, good_tok f = true -> delim_start rest -> tokens (f ++ rest) = f :: tokens rest.
Proof.
  induction f as [|c f IH]; intros rest Hg Hr; [discriminate|].
  cbn [good_tok forallb] in Hg. apply andb_true_iff in Hg. destruct Hg as [Hc Hf].
  pose proof (tokchar_not_delim c Hc) as Hd.
  cbn [app tokens]. rewrite Hd.
  destruct f as [|c' f'].
  - cbn [app]. destruct Hr as [E|[d [r [E Hdd]]]]; subst rest; [reflexivity|].
    rewrite Hdd. reflexivity.
  - cbn [app]. assert (Hc' : is_delim c' = false).
    { cbn [forallb] in Hf. apply andb_true_iff in Hf. apply tokchar_not_delim. apply Hf. }
    rewrite Hc'. change (c' :: f' ++ rest) with ((c' :: f') ++ rest).
    rewrite IH; [reflexivity| |exact Hr]. cbn [good_tok]. exact Hf.
Qed.

(* ---- records ---- *)
Definition no_nl (l : text) : bool := forallb (fun c => negb (N.eqb c c_nl)) l.

Lemma records_aux_line : forall l rest, no_nl l = true -> records_aux (l ++ c_nl :: rest) = l :: records_aux rest.
Proof.
  induction l as [|c l IH]; intros rest H.
  - reflexivity.
  - cbn [no_nl forallb] in H. apply andb_true_iff in H. destruct H as [Hc Hl].
    cbn [app records_aux]. apply negb_true_iff in Hc. rewrite Hc. rewrite IH by exact Hl. reflexivity.
Qed.

Lemma records_lines : forall ls, forallb no_nl ls = true ->
    records_aux (concat (map (fun l => l ++ [c_nl]) ls)) = ls ++ [[]].
Proof.
  induction ls as [|l ls IH]; intros H; [reflexivity|].
  cbn [forallb] in H. apply andb_true_iff in H. destruct H as [Hl Hls].
  cbn [map concat]. rewrite <- app_assoc. cbn [app]. rewrite records_aux_line by exact Hl.
  rewrite IH by exact Hls. reflexivity.
Qed.

(* ---- numbers ---- *)
Lemma text_eqb_eq : forall a b, text_eqb a b = true -> a = b.
Proof.
  unfold text_eqb. induction a as [|x a IH]; intros [|y b] H; try discriminate; [reflexivity|].
  apply andb_true_iff in H. destruct H as [H1 H2]. apply N.eqb_eq in H1. subst. f_equal. apply IH. exact H2.
Qed.
Lemma text_eqb_refl : forall a, text_eqb a a = true.
Proof. unfold text_eqb. induction a as [|x a IH]; [reflexivity|]. rewrite N.eqb_refl. exact IH. Qed.

Definition numchar (c : N) : bool :=
  is_digit c || N.eqb c c_dot || N.eqb c c_plus || N.eqb c c_minus || N.eqb c 69.

Lemma numchar_not_na : forall t, forallb numchar t = true -> existsb (text_eqb t) na_strings = false.
Proof.
  intros t H. destruct (existsb (text_eqb t) na_strings) eqn:E; [|reflexivity].
  apply existsb_exists in E. destruct E as [na [Hin He]]. apply text_eqb_eq in He. subst na.
  unfold na_strings in Hin. cbn [In] in Hin.
  repeat (destruct Hin as [Hin|Hin]; [subst t; vm_compute in H; discriminate|]). contradiction.
Qed.

Lemma numchar_no_quote : forall t, forallb numchar t = true -> existsb (N.eqb 34) t = false.
Proof.
  induction t as [|c t IH]; intros H; [reflexivity|]. cbn [forallb] in H. apply andb_true_iff in H.
  destruct H as [Hc Ht]. cbn [existsb]. rewrite IH by exact Ht.
  destruct (N.eqb_spec 34 c) as [E|E]; [subst c; vm_compute in Hc; discriminate|reflexivity].
Qed.

Definition numchar_l (c : N) : bool :=
  is_digit c || N.eqb c c_dot || N.eqb c c_plus || N.eqb c c_minus || N.eqb c 101.

Lemma numchar_lower c : numchar c = true -> numchar_l (lower c) = true.
Proof.
  unfold numchar, numchar_l, lower, is_upper, is_digit, c_dot, c_plus, c_minus. intros H.
  destruct (N.eqb_spec c 69) as [E|E].
  - subst c. reflexivity.
  - destruct ((65 <=? c)%N && (c <=? 90)%N) eqn:U.
    + exfalso. lia.
    + lia.
Qed.

Lemma numchar_not_weird : forall t, forallb numchar t = true ->
    existsb (text_eqb (map lower (strip_sign t))) weird_words = false.
Proof.
  intros t H.
  assert (H2 : forallb numchar_l (map lower (strip_sign t)) = true).
  { assert (Hs : forallb numchar (strip_sign t) = true).
    { unfold strip_sign. destruct t as [|c r]; [reflexivity|].
      destruct (N.eqb c c_minus || N.eqb c c_plus); [|exact H].
      cbn [forallb] in H. apply andb_true_iff in H. apply H. }
    clear H. induction (strip_sign t) as [|c r IH]; [reflexivity|].
    cbn [forallb] in Hs. apply andb_true_iff in Hs. destruct Hs as [Hc Hr].
    cbn [map forallb]. rewrite numchar_lower by exact Hc. apply IH. exact Hr. }
  destruct (existsb (text_eqb (map lower (strip_sign t))) weird_words) eqn:E; [|reflexivity].
  apply existsb_exists in E. destruct E as [w [Hin He]]. apply text_eqb_eq in He. rewrite He in H2.
  unfold weird_words in Hin. cbn [In] in Hin.
  repeat (destruct Hin as [Hin|Hin]; [subst w; vm_compute in H2; discriminate|]). contradiction.
Qed.

Lemma digit_numchar c : is_digit c = true -> numchar c = true.
Proof. unfold numchar. intros ->. reflexivity. Qed.
Lemma digits_numchar ds : forallb is_digit ds = true -> forallb numchar ds = true.
Proof.
  induction ds as [|c ds IH]; intros H; [reflexivity|]. cbn [forallb] in *. apply andb_true_iff in H.
  destruct H as [Hc Hd]. rewrite digit_numchar by exact Hc. apply IH. exact Hd.
Qed.

Lemma digit_facts c : is_digit c = true ->
  N.eqb c c_minus = false /\ N.eqb c c_plus = false /\ N.eqb c c_dot = false /\ N.eqb c 69 = false /\ N.eqb c 101 = false.
Proof. unfold is_digit, c_minus, c_plus, c_dot. intros H. repeat split; lia. Qed.

Definition nondigit_start (r : text) : Prop := match r with [] => True | c :: _ => is_digit c = false end.

Lemma span_digits_app : forall ds r, forallb is_digit ds = true -> nondigit_start r ->
    span is_digit (ds ++ r) = (ds, r).
Proof.
  induction ds as [|c ds IH]; intros r H Hr.
  - cbn [app]. destruct r as [|c r]; [reflexivity|]. cbn in Hr. cbn [span]. rewrite Hr. reflexivity.
  - cbn [forallb] in H. apply andb_true_iff in H. destruct H as [Hc Hd].
    cbn [app span]. rewrite Hc. rewrite IH by assumption. reflexivity.
Qed.

Lemma all_digits_spec ds : all_digits ds = true -> ds <> [] /\ forallb is_digit ds = true.
Proof. destruct ds; [discriminate|]. intros H. split; [discriminate|exact H]. Qed.

(* the general decimal text: sign, integer digits, '.', fraction digits, optional exponent *)
Definition exp_text (eo : option (bool * text)) : text :=
  match eo with Some (eneg, ed) => [69%N] ++ [if eneg then c_minus else c_plus] ++ ed | None => [] end.
Definition exp_value (eo : option (bool * text)) : Z :=
  match eo with Some (eneg, ed) => if eneg then Z.opp (Zdigits ed) else Zdigits ed | None => 0%Z end.
Definition float_text (neg : bool) (ip fp : text) (eo : option (bool * text)) : text :=
  sign_text neg ++ ip ++ [c_dot] ++ fp ++ exp_text eo.

Lemma split_sign_text : forall neg d r, is_digit d = true -> split_sign (sign_text neg ++ d :: r) = (neg, d :: r).
Proof.
  intros neg d r Hd. destruct (digit_facts d Hd) as [F1 [F2 _]].
  destruct neg; cbn [sign_text app split_sign].
  - reflexivity.
  - rewrite F1, F2. reflexivity.
Qed.

Lemma parse_float_text : forall neg ip fp eo,
    all_digits ip = true -> forallb is_digit fp = true ->
    match eo with Some (_, ed) => all_digits ed = true | None => True end ->
    parse_float (float_text neg ip fp eo) =
    Some (signed neg (Qred (inject_Z (Zdigits (ip ++ fp)) * pow10 (Z.opp (Z.of_nat (length fp)) + exp_value eo)))).
Proof.
  intros neg ip fp eo Hip Hfp Heo.
  apply all_digits_spec in Hip. destruct Hip as [Hne Hip].
  destruct ip as [|i0 ip']; [congruence|].
  assert (Hi0 : is_digit i0 = true) by (cbn [forallb] in Hip; apply andb_true_iff in Hip; apply Hip).
  unfold parse_float, float_text. cbn [app]. rewrite split_sign_text by exact Hi0.
  change (i0 :: ip' ++ c_dot :: fp ++ exp_text eo) with ((i0 :: ip') ++ c_dot :: fp ++ exp_text eo).
  rewrite span_digits_app; [|exact Hip|cbn; reflexivity].
  rewrite N.eqb_refl.
  assert (Hnd : nondigit_start (exp_text eo)).
  { destruct eo as [[eneg ed]|]; cbn; reflexivity. }
  rewrite span_digits_app; [|exact Hfp|exact Hnd].
  destruct eo as [[eneg ed]|].
  - apply all_digits_spec in Heo. destruct Heo as [Hne2 Hed].
    destruct ed as [|e0 ed']; [congruence|].
    assert (He0 : is_digit e0 = true) by (cbn [forallb] in Hed; apply andb_true_iff in Hed; apply Hed).
    cbn [exp_text app]. cbn [N.eqb Pos.eqb orb].
    destruct eneg; cbn [split_sign].
    + rewrite N.eqb_refl. rewrite Hed. cbn [exp_value]. reflexivity.
    + assert ((c_plus =? c_minus)%N = false) as -> by reflexivity. rewrite N.eqb_refl.
      rewrite Hed. cbn [exp_value]. reflexivity.
  - cbn [exp_text exp_value]. reflexivity.
Qed.

Lemma forallb_app' {B} (p : B -> bool) a b : forallb p (a ++ b) = forallb p a && forallb p b.
Proof. induction a as [|x a IH]; [reflexivity|]. cbn. rewrite IH. apply andb_assoc. Qed.

Lemma float_text_numchar neg ip fp eo :
  forallb is_digit ip = true -> forallb is_digit fp = true ->
  match eo with Some (_, ed) => forallb is_digit ed = true | None => True end ->
  forallb numchar (float_text neg ip fp eo) = true.
Proof.
  intros H1 H2 H3. unfold float_text. rewrite !forallb_app'.
  rewrite (digits_numchar ip H1), (digits_numchar fp H2).
  assert (forallb numchar (sign_text neg) = true) as -> by (destruct neg; reflexivity).
  assert (forallb numchar [c_dot] = true) as -> by reflexivity.
  destruct eo as [[eneg ed]|]; [|reflexivity].
  cbn [exp_text]. rewrite !forallb_app'. rewrite (digits_numchar ed H3). destruct eneg; reflexivity.
Qed.

Lemma parse_int_float_text neg ip fp eo : all_digits ip = true -> parse_int (float_text neg ip fp eo) = None.
Proof.
  intros Hip. apply all_digits_spec in Hip. destruct Hip as [Hne Hip].
  destruct ip as [|i0 ip']; [congruence|].
  assert (Hi0 : is_digit i0 = true) by (cbn [forallb] in Hip; apply andb_true_iff in Hip; apply Hip).
  unfold parse_int, float_text. cbn [app]. rewrite split_sign_text by exact Hi0.
  change (i0 :: ip' ++ c_dot :: fp ++ exp_text eo) with ((i0 :: ip') ++ c_dot :: fp ++ exp_text eo).
  rewrite forallb_app'. cbn [forallb]. assert (is_digit c_dot = false) as -> by reflexivity.
  rewrite andb_false_r. reflexivity.
Qed.

Lemma classify_float_text neg ip fp eo :
  all_digits ip = true -> forallb is_digit fp = true ->
  match eo with Some (_, ed) => all_digits ed = true | None => True end ->
  classify (float_text neg ip fp eo) =
  KFloat (signed neg (Qred (inject_Z (Zdigits (ip ++ fp)) * pow10 (Z.opp (Z.of_nat (length fp)) + exp_value eo)))).
Proof.
  intros H1 H2 H3. unfold classify.
  assert (Hn : forallb numchar (float_text neg ip fp eo) = true).
  { apply float_text_numchar; [apply all_digits_spec; exact H1|exact H2|].
    destruct eo as [[e d]|]; [apply all_digits_spec; exact H3|exact I]. }
  rewrite numchar_not_na, numchar_no_quote, numchar_not_weird by exact Hn.
  rewrite parse_int_float_text by exact H1. rewrite parse_float_text by assumption. reflexivity.
Qed.

Lemma classify_int_text neg ds :
  all_digits ds = true -> length (sign_text neg ++ ds) < 19 ->
  classify (sign_text neg ++ ds) = KInt (if neg then Z.opp (Zdigits ds) else Zdigits ds).
Proof.
  intros H Hl. apply all_digits_spec in H. destruct H as [Hne Hd].
  unfold classify.
  assert (Hn : forallb numchar (sign_text neg ++ ds) = true).
  { rewrite forallb_app', (digits_numchar ds Hd). destruct neg; reflexivity. }
  rewrite numchar_not_na, numchar_no_quote, numchar_not_weird by exact Hn.
  destruct ds as [|d0 ds']; [congruence|].
  assert (Hd0 : is_digit d0 = true) by (cbn [forallb] in Hd; apply andb_true_iff in Hd; apply Hd).
  unfold parse_int. rewrite split_sign_text by exact Hd0. rewrite Hd.
  destruct (N.leb_spec 19 (N.of_nat (length (sign_text neg ++ d0 :: ds')))) as [L|L]; [lia|reflexivity].
Qed.

Definition wnum_class (x : wnum) : tok_class :=
  match x with
  | WInt neg ds => KInt (if neg then Z.opp (Zdigits ds) else Zdigits ds)
  | WStr _ => KStr
  | _ => match wnum_value x with Some q => KFloat q | None => KStr end
  end.

Lemma classify_wnum : forall w x, wnum_ok w x = true -> classify (wnum_text x) = wnum_class x.
Proof.
  intros w x H. unfold wnum_ok in H. apply andb_true_iff in H. destruct H as [Hw H].
  destruct x as [neg ds|neg d6 eneg e2|neg ip fp|t]; cbn [wnum_text wnum_class wnum_value].
  - apply andb_true_iff in H. destruct H as [H1 H2]. apply classify_int_text; [exact H1|].
    apply Nat.ltb_lt in H2. exact H2.
  - repeat (apply andb_true_iff in H; destruct H as [H ?]).
    rename H0 into He2, H1 into Hl6.
    apply Nat.eqb_eq in Hl6.
    change (sign_text neg ++ firstn 1 d6 ++ [c_dot] ++ skipn 1 d6 ++ [69%N] ++ [if eneg then c_minus else c_plus] ++ e2)
      with (float_text neg (firstn 1 d6) (skipn 1 d6) (Some (eneg, e2))).
    assert (Hd : forallb is_digit d6 = true) by (apply all_digits_spec; exact H).
    rewrite <- (firstn_skipn 1 d6) in Hd. rewrite forallb_app' in Hd. apply andb_true_iff in Hd. destruct Hd as [Hd1 Hd2].
    rewrite classify_float_text.
    + rewrite firstn_skipn. rewrite skipn_length, Hl6. cbn [exp_value]. f_equal. f_equal. f_equal. f_equal. f_equal.
      destruct eneg; lia.
    + destruct d6 as [|a d6']; [discriminate|]. cbn [firstn] in *. exact Hd1.
    + exact Hd2.
    + exact He2.
  - apply andb_true_iff in H. destruct H as [H1 H2].
    change (sign_text neg ++ ip ++ [c_dot] ++ fp) with (sign_text neg ++ ip ++ [c_dot] ++ fp).
    replace (sign_text neg ++ ip ++ [c_dot] ++ fp) with (float_text neg ip fp None)
      by (unfold float_text; cbn [exp_text]; rewrite app_nil_r; reflexivity).
    rewrite classify_float_text by (try assumption; exact I).
    cbn [exp_value]. rewrite Z.add_0_r. reflexivity.
  - apply andb_true_iff in H. destruct H as [_ H]. destruct (classify t); try discriminate. reflexivity.
Qed.

(* ---- rendered lines ---- *)
Lemma numchar_tokchar c : numchar c = true -> tokchar c = true.
Proof.
  unfold numchar, tokchar, is_delim, is_splitlines_sep, is_digit, c_dot, c_plus, c_minus, c_sp, c_tab. intros H. lia.
Qed.
Lemma numchars_tokchars t : forallb numchar t = true -> forallb tokchar t = true.
Proof.
  induction t as [|c t IH]; intros H; [reflexivity|]. cbn [forallb] in *. apply andb_true_iff in H.
  destruct H as [H1 H2]. rewrite numchar_tokchar by exact H1. apply IH. exact H2.
Qed.

Lemma wnum_ok_good w x : wnum_ok w x = true -> good_tok (wnum_text x) = true /\ length (wnum_text x) < w.
Proof.
  intros H. unfold wnum_ok in H. apply andb_true_iff in H. destruct H as [Hw H]. apply Nat.ltb_lt in Hw.
  split; [|exact Hw].
  assert (G : forall t, t <> [] -> forallb numchar t = true -> good_tok t = true).
  { intros [|c t] Hne Hn; [congruence|]. cbn [good_tok]. apply numchars_tokchars. exact Hn. }
  destruct x as [neg ds|neg d6 eneg e2|neg ip fp|t]; cbn [wnum_text] in *.
  - apply andb_true_iff in H. destruct H as [H _]. apply all_digits_spec in H. destruct H as [Hne Hd].
    apply G.
    + destruct neg; cbn; [discriminate|]. destruct ds; [congruence|discriminate].
    + rewrite forallb_app', (digits_numchar _ Hd). destruct neg; reflexivity.
  - repeat (apply andb_true_iff in H; destruct H as [H ?]).
    apply all_digits_spec in H. destruct H as [_ Hd]. apply all_digits_spec in H0. destruct H0 as [_ He].
    apply G.
    + destruct neg; [cbn; discriminate|]. destruct d6; cbn; discriminate.
    + rewrite <- (firstn_skipn 1 d6) in Hd. rewrite forallb_app' in Hd. apply andb_true_iff in Hd. destruct Hd as [Hd1 Hd2].
      rewrite !forallb_app'. rewrite (digits_numchar _ Hd1), (digits_numchar _ Hd2), (digits_numchar _ He).
      destruct neg; destruct eneg; reflexivity.
  - apply andb_true_iff in H. destruct H as [H1 H2]. apply all_digits_spec in H1. destruct H1 as [Hne Hd].
    apply G.
    + destruct neg; cbn; [discriminate|]. destruct ip; [congruence|discriminate].
    + rewrite !forallb_app'. rewrite (digits_numchar _ Hd), (digits_numchar _ H2). destruct neg; reflexivity.
  - apply andb_true_iff in H. apply H.
Qed.

Lemma good_tok_no_nl t : good_tok t = true -> no_nl t = true /\ existsb (N.eqb c_cr) t = false.
Proof.
  destruct t as [|c0 t0]; [discriminate|]. cbn [good_tok]. generalize (c0 :: t0). clear.
  induction l as [|c t IH]; intros H; [split; reflexivity|].
  cbn [forallb] in H. apply andb_true_iff in H. destruct H as [Hc Ht]. destruct (IH Ht) as [I1 I2].
  unfold tokchar, is_splitlines_sep in Hc. cbn [no_nl forallb existsb]. fold (no_nl t). rewrite I1, I2.
  unfold c_cr, c_nl in *. split; lia.
Qed.

Lemma spaces_no_nl k : no_nl (spaces k) = true /\ existsb (N.eqb c_cr) (spaces k) = false.
Proof. induction k as [|k [I1 I2]]; [split; reflexivity|]. cbn [spaces repeat no_nl forallb existsb]. split; [exact I1|exact I2]. Qed.

Lemma no_nl_app a b : no_nl (a ++ b) = no_nl a && no_nl b.
Proof. apply forallb_app'. Qed.
Lemma existsb_app' {B} (p : B -> bool) a b : existsb p (a ++ b) = existsb p a || existsb p b.
Proof. induction a as [|x a IH]; [reflexivity|]. cbn. rewrite IH. apply orb_assoc. Qed.

Definition clean (t : text) : Prop := no_nl t = true /\ existsb (N.eqb c_cr) t = false.
Lemma clean_app a b : clean a -> clean b -> clean (a ++ b).
Proof. intros [A1 A2] [B1 B2]. split; [rewrite no_nl_app, A1, B1|rewrite existsb_app', A2, B2]; reflexivity. Qed.

Definition space_start (t : text) : Prop := exists r, t = c_sp :: r.

Lemma rjust_tok w x : wnum_ok w x = true ->
  exists k, rjust w (wnum_text x) = spaces (S k) ++ wnum_text x.
Proof.
  intros H. destruct (wnum_ok_good w x H) as [_ Hl]. unfold rjust.
  exists (w - length (wnum_text x) - 1). f_equal. f_equal. lia.
Qed.

Lemma render_cells_tokens : forall lw cells, row_ok lw cells = true ->
  tokens (render_cells lw cells) = map wnum_text cells /\ clean (render_cells lw cells) /\
  (cells <> [] -> space_start (render_cells lw cells)).
Proof.
  intros lw. induction cells as [|c tl IH]; intros H.
  - split; [reflexivity|]. split; [split; reflexivity|congruence].
  - destruct tl as [|c2 tl2].
    + cbn [row_ok render_cells] in *. destruct (rjust_tok _ c H) as [k Hk]. rewrite Hk.
      destruct (wnum_ok_good _ c H) as [Hg _].
      split; [|split].
      * rewrite tokens_spaces. rewrite <- (app_nil_r (wnum_text c)). rewrite tokens_tok; [reflexivity|exact Hg|left; reflexivity].
      * apply clean_app; [apply spaces_no_nl|apply good_tok_no_nl; exact Hg].
      * intros _. eexists. reflexivity.
    + remember (c2 :: tl2) as tl eqn:Etl.
      assert (Hrow : row_ok lw (c :: tl) = wnum_ok 13 c && row_ok lw tl) by (subst tl; reflexivity).
      rewrite Hrow in H. apply andb_true_iff in H. destruct H as [Hc Htl].
      assert (Hren : render_cells lw (c :: tl) = rjust 13 (wnum_text c) ++ render_cells lw tl) by (subst tl; reflexivity).
      rewrite Hren. destruct (IH Htl) as [I1 [I2 I3]].
      destruct (rjust_tok _ c Hc) as [k Hk]. rewrite Hk.
      destruct (wnum_ok_good _ c Hc) as [Hg _].
      assert (Hne : tl <> []) by (subst tl; discriminate).
      destruct (I3 Hne) as [r Hr].
      split; [|split].
      * rewrite <- app_assoc. rewrite tokens_spaces. rewrite tokens_tok; [|exact Hg|].
        -- cbn [map]. rewrite I1. reflexivity.
        -- right. exists c_sp, r. split; [exact Hr|reflexivity].
      * apply clean_app; [apply clean_app; [apply spaces_no_nl|apply good_tok_no_nl; exact Hg]|exact I2].
      * intros _. eexists. cbn [spaces repeat app]. reflexivity.
Qed.

Lemma render_labels_tokens : forall labels, labels_ok labels = true ->
  tokens (render_labels_aux labels) = labels /\ clean (render_labels_aux labels).
Proof.
  induction labels as [|l tl IH]; intros H.
  - split; [reflexivity|split; reflexivity].
  - destruct tl as [|l2 tl2].
    + cbn [labels_ok render_labels_aux] in *. split.
      * rewrite <- (app_nil_r l) at 1. rewrite tokens_tok; [reflexivity|exact H|left; reflexivity].
      * apply good_tok_no_nl. exact H.
    + remember (l2 :: tl2) as tl eqn:Etl.
      assert (Hl : labels_ok (l :: tl) = good_tok l && (length l <? 13) && labels_ok tl) by (subst tl; reflexivity).
      rewrite Hl in H. apply andb_true_iff in H. destruct H as [H Htl]. apply andb_true_iff in H. destruct H as [Hg Hlen].
      apply Nat.ltb_lt in Hlen.
      assert (Hren : render_labels_aux (l :: tl) = ljust 13 l ++ render_labels_aux tl) by (subst tl; reflexivity).
      rewrite Hren. destruct (IH Htl) as [I1 I2]. unfold ljust.
      assert (Hs : spaces (13 - length l) = spaces (S (13 - length l - 1))) by (f_equal; lia).
      rewrite Hs. split.
      * rewrite <- app_assoc. rewrite tokens_tok; [|exact Hg|].
        -- rewrite tokens_spaces, I1. reflexivity.
        -- right. eexists c_sp, _. split; [reflexivity|reflexivity].
      * apply clean_app; [apply clean_app; [apply good_tok_no_nl; exact Hg|apply spaces_no_nl]|exact I2].
Qed.

(* ---- the body of a table through read_frame ---- *)
Lemma render_rows_simple : forall t rows i, w_repeat t = 0 ->
  render_rows t i rows = concat (map (fun r => render_cells (w_lastwide t) r ++ [c_nl]) rows).
Proof.
  intros t rows. induction rows as [|r rows IH]; intros i H0; [reflexivity|].
  cbn [render_rows map concat]. rewrite H0. cbn [Nat.eqb negb andb]. rewrite andb_false_r. cbn [app].
  unfold render_row. rewrite IH by exact H0. reflexivity.
Qed.

Lemma wnum_class_str x : (match wnum_class x with KStr => true | _ => false end) = is_wstr x.
Proof. destruct x; reflexivity. Qed.
Lemma wnum_class_not_weird x : (match wnum_class x with KWeird => true | _ => false end) = false.
Proof. destruct x; reflexivity. Qed.

Lemma cell_of_wnum w x : wnum_ok w x = true -> cell_of (is_wstr x) (Some (wnum_text x)) = wcell x.
Proof.
  intros H. unfold cell_of. rewrite (classify_wnum w x H).
  destruct x as [neg ds|neg d6 eneg e2|neg ip fp|t]; cbn [wnum_class wnum_value is_wstr wcell]; try reflexivity.
  destruct neg; reflexivity.
Qed.

Lemma row_ok_nth : forall lw r j d, row_ok lw r = true -> j < length r -> exists w, wnum_ok w (nth j r d) = true.
Proof.
  intros lw. induction r as [|c tl IH]; intros j d H Hj; [cbn in Hj; lia|].
  destruct tl as [|c2 tl2].
  - cbn [length] in Hj. assert (j = 0) by lia. subst j. cbn [nth row_ok] in *. eexists; exact H.
  - remember (c2 :: tl2) as tl eqn:E.
    assert (Hrow : row_ok lw (c :: tl) = wnum_ok 13 c && row_ok lw tl) by (subst tl; reflexivity).
    rewrite Hrow in H. apply andb_true_iff in H. destruct H as [Hc Htl].
    destruct j as [|j]; [exists 13; exact Hc|]. cbn [nth]. apply (IH j d Htl). cbn [length] in Hj. lia.
Qed.

Lemma list_eq_nth {B} (d : B) : forall (a b : list B), length a = length b ->
  (forall k, k < length a -> nth k a d = nth k b d) -> a = b.
Proof.
  induction a as [|x a IH]; intros [|y b] Hl Hn; try discriminate; [reflexivity|].
  f_equal.
  - apply (Hn 0). cbn. lia.
  - apply IH; [cbn in Hl; lia|]. intros k Hk. apply (Hn (S k)). cbn. lia.
Qed.

Lemma number_from_map {B C} (f : B -> C) : forall l i, number_from i (map f l) = map (fun p => (fst p, f (snd p))) (number_from i l).
Proof. induction l as [|x l IH]; intros i; [reflexivity|]. cbn. rewrite IH. reflexivity. Qed.

Lemma frame_of_records_render : forall (labels : list text) (lw : bool) (rows : list (list wnum)),
    (forall r, In r rows -> length r = length labels /\ row_ok lw r = true) ->
    forallb (col_homogeneous rows) (seq 0 (length labels)) = true ->
    frame_of_records labels (map (map wnum_text) rows) = ROk (mkFrame labels (number_from 0 (map (map wcell) rows))).
Proof.
  intros labels lw rows Hrow Hcols.
  set (R := map (map wnum_text) rows).
  set (n := length labels).
  assert (HRlen : forall r, In r R -> length r = n).
  { intros r Hin. unfold R in Hin. apply in_map_iff in Hin. destruct Hin as [r0 [E Hin]]. subst r.
    rewrite map_length. apply Hrow. exact Hin. }
  assert (Hover : existsb (fun r => n <? length r) R = false).
  { destruct (existsb (fun r => n <? length r) R) eqn:E; [|reflexivity].
    apply existsb_exists in E. destruct E as [r [Hin E]]. rewrite (HRlen r Hin) in E. apply Nat.ltb_lt in E. lia. }
  (* classification of every token *)
  assert (Hcls : forall r j, In r rows -> j < n ->
            nth_tok (map wnum_text r) j = Some (wnum_text (nth j r (WStr []))) /\
            exists w, wnum_ok w (nth j r (WStr [])) = true).
  { intros r j Hin Hj. destruct (Hrow r Hin) as [Hl Hok]. split.
    - unfold nth_tok. rewrite nth_error_map. rewrite (nth_error_nth' r (WStr [])) by lia. reflexivity.
    - apply (row_ok_nth lw); [exact Hok|lia]. }
  assert (Hweird : existsb (col_is_weird R) (seq 0 n) = false).
  { destruct (existsb (col_is_weird R) (seq 0 n)) eqn:E; [|reflexivity].
    apply existsb_exists in E. destruct E as [j [Hj E]]. apply in_seq in Hj.
    unfold col_is_weird in E. apply existsb_exists in E. destruct E as [r [Hin E]].
    unfold R in Hin. apply in_map_iff in Hin. destruct Hin as [r0 [E0 Hin]]. subst r.
    destruct (Hcls r0 j Hin) as [Ht [w Hw]]; [lia|]. rewrite Ht in E. rewrite (classify_wnum w _ Hw) in E.
    rewrite wnum_class_not_weird in E. discriminate. }
  assert (Hstr : forall r j, In r rows -> j < n -> col_is_str R j = is_wstr (nth j r (WStr []))).
  { intros r j Hin Hj.
    assert (Hc : col_is_str R j = existsb (fun r0 => is_wstr (nth j r0 (WStr []))) rows).
    { unfold col_is_str, R. clear - Hcls Hj. induction rows as [|r0 rows IH]; [reflexivity|].
      cbn [map existsb]. destruct (Hcls r0 j (or_introl eq_refl) Hj) as [Ht [w Hw]]. rewrite Ht.
      rewrite (classify_wnum w _ Hw), wnum_class_str. f_equal. apply IH. intros r1 j1 Hin1. apply Hcls. right. exact Hin1. }
    rewrite Hc. rewrite forallb_forall in Hcols. specialize (Hcols j). 
    assert (Hjs : In j (seq 0 (length labels))) by (apply in_seq; fold n; lia).
    specialize (Hcols Hjs). unfold col_homogeneous in Hcols. apply orb_true_iff in Hcols.
    destruct Hcols as [Hall|Hnone].
    - rewrite forallb_forall in Hall. rewrite (Hall r Hin).
      apply existsb_exists. exists r. split; [exact Hin|apply Hall; exact Hin].
    - rewrite forallb_forall in Hnone. pose proof (Hnone r Hin) as Hr. apply negb_true_iff in Hr. rewrite Hr.
      destruct (existsb (fun r0 => is_wstr (nth j r0 (WStr []))) rows) eqn:E; [|reflexivity].
      apply existsb_exists in E. destruct E as [r1 [Hin1 E1]]. specialize (Hnone r1 Hin1). rewrite E1 in Hnone. discriminate. }
  assert (Hcells : map (fun r => map (fun j => cell_of (col_is_str R j) (nth_tok r j)) (seq 0 n)) R = map (map wcell) rows).
  { unfold R at 2. rewrite map_map. apply map_ext_in. intros r Hin.
    destruct (Hrow r Hin) as [Hl Hok].
    apply (list_eq_nth CNaN).
    - rewrite !map_length, seq_length. symmetry. exact Hl.
    - intros k Hk. rewrite map_length, seq_length in Hk.
      rewrite (nth_indep _ CNaN (cell_of (col_is_str R 0) (nth_tok (map wnum_text r) 0))) by (rewrite map_length, seq_length; exact Hk).
      rewrite (map_nth (fun j => cell_of (col_is_str R j) (nth_tok (map wnum_text r) j)) (seq 0 n) 0 k).
      rewrite seq_nth by exact Hk. cbn [plus].
      destruct (Hcls r k Hin Hk) as [Ht [w Hw]]. rewrite Ht. rewrite (Hstr r k Hin Hk).
      rewrite (cell_of_wnum w _ Hw).
      rewrite (nth_indep _ CNaN (wcell (WStr []))) by (rewrite map_length; lia).
      rewrite (map_nth wcell r (WStr []) k). reflexivity. }
  unfold frame_of_records. fold n.
  destruct R as [|r0 R'] eqn:ER.
  - destruct rows as [|x xs]; [reflexivity|discriminate].
  - assert (Hr0 : (n <? length r0) = false).
    { apply Nat.ltb_ge. rewrite (HRlen r0) by (left; reflexivity). lia. }
    rewrite Hr0. fold n. rewrite Hover, Hweird. rewrite Hcells. reflexivity.
Qed.

Theorem read_frame_render_lemma : forall t, wbody_ok t = true -> read_frame (render_body t) = ROk (frame_of_wtable t).
Proof.
  intros t H. unfold wbody_ok in H.
  repeat (apply andb_true_iff in H; destruct H as [H ?]).
  rename H into Hshow, H5 into Hrep, H4 into Hne, H3 into Hlab, H2 into Hdup, H1 into Hrows, H0 into Hcols.
  apply Nat.eqb_eq in Hrep. apply negb_true_iff in Hdup.
  set (labels := w_labels t) in *. set (rows := w_rows t) in *. set (lw := w_lastwide t) in *.
  assert (Hrow : forall r, In r rows -> length r = length labels /\ row_ok lw r = true).
  { intros r Hin. rewrite forallb_forall in Hrows. specialize (Hrows r Hin). apply andb_true_iff in Hrows.
    destruct Hrows as [A B]. apply Nat.eqb_eq in A. split; assumption. }
  destruct (render_labels_tokens labels Hlab) as [HLt HLc].
  (* the records *)
  assert (Hrec : records (render_body t) = labels :: map (map wnum_text) rows).
  { unfold render_body, render_labels. fold labels. fold rows. rewrite render_rows_simple by exact Hrep. fold lw.
    assert (E : ([c_sp] ++ render_labels_aux labels ++ [c_nl]) ++ concat (map (fun r => render_cells lw r ++ [c_nl]) rows)
                = (c_sp :: render_labels_aux labels) ++ c_nl :: concat (map (fun l => l ++ [c_nl]) (map (render_cells lw) rows))).
    { rewrite map_map. cbn [app]. rewrite <- app_assoc. reflexivity. }
    rewrite E. clear E. unfold records. rewrite records_aux_line by (destruct HLc as [A _]; exact A).
    rewrite records_lines.
    - cbn [map filter].
      assert (tokens (c_sp :: render_labels_aux labels) = labels) as ->.
      { change (c_sp :: render_labels_aux labels) with (spaces 1 ++ render_labels_aux labels). rewrite tokens_spaces. exact HLt. }
      destruct labels as [|l0 ls] eqn:El; [discriminate|]. f_equal.
      rewrite map_app, filter_app. cbn [map filter tokens]. rewrite app_nil_r.
      rewrite map_map. clear - Hrow. induction rows as [|r rows IH]; [reflexivity|].
      cbn [map filter]. destruct (Hrow r (or_introl eq_refl)) as [Hl Hok].
      destruct (render_cells_tokens lw r Hok) as [Ht _]. rewrite Ht.
      destruct r as [|c r']; [cbn in Hl; lia|]. cbn [map]. f_equal. apply IH. intros r0 Hin. apply Hrow. right. exact Hin.
    - apply forallb_forall. intros l Hin. apply in_map_iff in Hin. destruct Hin as [r [E Hin]]. subst l.
      destruct (Hrow r Hin) as [_ Hok]. destruct (render_cells_tokens lw r Hok) as [_ [[A _] _]]. exact A. }
  unfold read_frame. rewrite Hrec. rewrite Hdup.
  unfold frame_of_wtable. fold labels. fold rows.
  apply (frame_of_records_render labels lw rows Hrow Hcols).
Qed.

(* ================================================================================================ *)
(** * ExtTable row selection, _get_iter_df, CovTable *)

(* ---- final estimates: the designated row, else the row of the largest non-negative iteration ---- *)
Definition row_iter_is (g : frame) (q : Q) (ir : nat * list cell) : bool :=
  match cell_at (snd ir) (index_of s_ITERATION (f_cols g)) with CNum x => Qeq_bool x q | _ => false end.

Lemma get_parameters_q_row : forall g q l,
    get_parameters_q g q = ROk l ->
    exists i r, In (i, r) (f_rows g) /\ row_iter_is g q (i, r) = true /\
                (forall ir, In ir (f_rows g) -> row_iter_is g q ir = true -> ir = (i, r)) /\
                l = drop_first_last (combine (f_cols g) r).
Proof.
  intros g q l H. unfold get_parameters_q, rows_with_q in H.
  change (fun ir : nat * list cell => match cell_at (snd ir) (index_of s_ITERATION (f_cols g)) with
                                      | CNum x => Qeq_bool x q | _ => false end) with (row_iter_is g q) in H.
  destruct (filter (row_iter_is g q) (f_rows g)) as [|[i r] [|x xs]] eqn:F; try discriminate.
  apply filter_single in F. destruct F as [Hin [Hp Hu]].
  exists i, r. repeat split; try assumption. inversion H. reflexivity.
Qed.

Lemma iterations_In : forall g q, In q (iterations g) ->
    exists ir, In ir (f_rows g) /\ cell_at (snd ir) (index_of s_ITERATION (f_cols g)) = CNum q /\ Qle_bool 0 q = true.
Proof.
  intros g q H. unfold iterations, col_cells in H. apply in_flat_map in H. destruct H as [c [Hc Hq]].
  apply in_map_iff in Hc. destruct Hc as [ir [E Hin]]. subst c.
  destruct (cell_at (snd ir) (index_of s_ITERATION (f_cols g))) as [x| |t] eqn:Ec; try contradiction.
  destruct (Qle_bool 0 x) eqn:L; [|contradiction]. destruct Hq as [Hq|[]]. subst x.
  exists ir. repeat split; assumption.
Qed.

Lemma In_iterations : forall g ir q, In ir (f_rows g) ->
    cell_at (snd ir) (index_of s_ITERATION (f_cols g)) = CNum q -> Qle_bool 0 q = true -> In q (iterations g).
Proof.
  intros g ir q Hin Hc Hq. unfold iterations, col_cells. apply in_flat_map.
  exists (CNum q). split.
  - apply in_map_iff. exists ir. split; [exact Hc|exact Hin].
  - rewrite Hq. left. reflexivity.
Qed.

Theorem ext_final_row_lemma : forall g l,
    final_parameter_estimates g = ROk l ->
    (* the row NONMEM designates ... *)
    (exists i r, In (i, r) (f_rows g) /\ row_has_code g code_final (i, r) = true /\
                 (forall ir, In ir (f_rows g) -> row_has_code g code_final ir = true -> ir = (i, r)) /\
                 l = drop_first_last (combine (f_cols g) r))
    \/
    (* ... or, when there is none, the row of the last (largest non-negative) iteration *)
    ((forall ir, In ir (f_rows g) -> row_has_code g code_final ir = false) /\
     exists m i r, In (i, r) (f_rows g) /\ row_iter_is g m (i, r) = true /\ Qle_bool 0 m = true /\
                   (forall ir q, In ir (f_rows g) -> cell_at (snd ir) (index_of s_ITERATION (f_cols g)) = CNum q ->
                                 Qle_bool 0 q = true -> Qle_bool q m = true) /\
                   l = drop_first_last (combine (f_cols g) r)).
Proof.
  intros g l H. unfold final_parameter_estimates in H.
  destruct (get_parameters g code_final true) as [l0|k|] eqn:G.
  - left. inversion H. subst l0. apply get_parameters_row in G. destruct G as [i [r [A [B [C D]]]]].
    exists i, r. repeat split; assumption.
  - right. assert (Hk : k = 3%N).
    { destruct k as [|p]; try discriminate. do 2 (destruct p; try discriminate). reflexivity. }
    subst k. split; [apply (get_parameters_keyerror g code_final true); exact G|].
    destruct (qmax_list (iterations g)) as [m|] eqn:M; [|discriminate].
    apply qmax_list_spec in M. destruct M as [Min Mmax].
    apply get_parameters_q_row in H. destruct H as [i [r [A [B [C D]]]]].
    apply iterations_In in Min. destruct Min as [ir0 [_ [_ Hm0]]].
    exists m, i, r. repeat split; try assumption.
    intros ir q Hin Hc Hq. apply Mmax. apply (In_iterations g ir q); assumption.
  - discriminate.
Qed.

Theorem ext_se_row_lemma : forall g l,
    standard_errors g = ROk l ->
    exists i r, In (i, r) (f_rows g) /\ row_has_code g code_se (i, r) = true /\
                (forall ir, In ir (f_rows g) -> row_has_code g code_se ir = true -> ir = (i, r)) /\
                l = drop_first_last (combine (f_cols g) r).
Proof.
  intros g l H. apply get_parameters_row in H. destruct H as [i [r [A [B [C D]]]]]. exists i, r. repeat split; assumption.
Qed.

Theorem ext_fixed_row_lemma : forall g l,
    fixed_flags g = ROk l ->
    exists i r, In (i, r) (f_rows g) /\ row_has_code g code_fixed (i, r) = true /\
                (forall ir, In ir (f_rows g) -> row_has_code g code_fixed ir = true -> ir = (i, r)) /\
                l = map (fun nc => (fst nc, cell_truthy (snd nc))) (drop_first_last (combine (f_cols g) r)).
Proof.
  intros g l H. unfold fixed_flags in H. destruct (get_parameters g code_fixed true) as [l0|k|] eqn:G; try discriminate.
  apply get_parameters_row in G. destruct G as [i [r [A [B [C D]]]]]. exists i, r. repeat split; try assumption.
  inversion H. subst l0. reflexivity.
Qed.

Theorem ext_final_ofv_lemma : forall g c,
    final_ofv g = ROk c ->
    (exists i r, In (i, r) (f_rows g) /\ row_has_code g code_final (i, r) = true /\
                 (forall ir, In ir (f_rows g) -> row_has_code g code_final ir = true -> ir = (i, r)) /\ c = obj_cell g r)
    \/ (forall ir, In ir (f_rows g) -> row_has_code g code_final ir = false).
Proof.
  intros g c H. unfold final_ofv in H. destruct (get_ofv g code_final) as [c0|k|] eqn:G.
  - left. inversion H. subst c0. apply get_ofv_row in G. exact G.
  - right. assert (Hk : k = 3%N).
    { destruct k as [|p]; try discriminate. do 2 (destruct p; try discriminate). reflexivity. }
    subst k. unfold get_ofv in G. rewrite rows_with_spec in G.
    intros ir Hin. destruct (filter (row_has_code g code_final) (f_rows g)) as [|[i r] [|x xs]] eqn:F; try discriminate.
    destruct (row_has_code g code_final ir) eqn:E; [|reflexivity].
    assert (In ir (filter (row_has_code g code_final) (f_rows g))) by (apply filter_In; split; assumption).
    rewrite F in H0. contradiction.
  - discriminate.
Qed.

(* ---- _get_iter_df and the objective value ---- *)
Lemma last_opt_map {A B} (f : A -> B) : forall l, last_opt (map f l) = option_map f (last_opt l).
Proof.
  induction l as [|x l IH]; [reflexivity|]. destruct l as [|y l']; [reflexivity|].
  change (map f (x :: y :: l')) with (f x :: map f (y :: l')).
  change (last_opt (f x :: map f (y :: l'))) with (last_opt (map f (y :: l'))) at 1.
  - rewrite IH. reflexivity.
Qed.

Lemma last_opt_In {A} : forall (l : list A) x, last_opt l = Some x -> In x l.
Proof.
  induction l as [|y l IH]; intros x H; [discriminate|]. destruct l as [|z l'].
  - inversion H. left. reflexivity.
  - right. apply IH. exact H.
Qed.

Theorem iter_df_printed_iterations : forall g,
    g_final_obj_eq_last g = true ->
    get_iter_df g = ROk (mkFrame (f_cols g) (filter (fun ir => cell_ge0 (iter_cell g (snd ir))) (f_rows g))).
Proof.
  intros g HF. unfold get_iter_df.
  unfold g_final_obj_eq_last in HF.
  destruct (last_opt (rows_with g code_final)) as [[i1 rf]|]; [|discriminate].
  destruct (last_opt (filter (fun ir => cell_ge0 (iter_cell g (snd ir))) (f_rows g))) as [[i2 rl]|] eqn:EL; [|discriminate].
  (* a non-negative iteration is printed: the branch for final-row-only tables is not taken *)
  assert (Hnn : existsb cell_ge0 (col_cells g s_ITERATION) = true).
  { apply last_opt_In in EL. apply filter_In in EL. destruct EL as [Hin Hge]. cbn [snd] in Hge.
    apply existsb_exists. exists (iter_cell g rl). split; [|exact Hge].
    unfold col_cells. apply in_map_iff. exists (i2, rl). split; [reflexivity|exact Hin]. }
  rewrite Hnn. cbn [negb andb].
  apply negb_true_iff in HF. rewrite HF. reflexivity.
Qed.

(* a single estimation table (no design optimality) whose frame is well formed *)
Theorem ofv_designated_lemma : forall t g c entries,
    design_of t = None ->
    ext_data_frame (tb_frame t) = ROk g ->
    g_final_obj_eq_last g = true ->
    parse_ofv [t] = ROk (c, entries) ->
    (* the reported objective value is the OBJ of the row carrying -1000000000 *)
    get_ofv g code_final = ROk c.
Proof.
  intros t g c entries Hd Hg HF H.
  unfold parse_ofv, est_tables in H. cbn [number_from filter snd] in H. rewrite Hd in H.
  cbn [rmap rbind fst snd] in H. unfold iter_frame in H. rewrite Hg in H. cbn [rbind] in H.
  destruct (has_str (col_cells g s_OBJ)); [discriminate|].
  rewrite (iter_df_printed_iterations g HF) in H. cbn [rbind last_opt flat_map app] in H.
  rewrite app_nil_r in H. cbn [f_rows f_cols] in H.
  unfold g_final_obj_eq_last in HF.
  destruct (last_opt (rows_with g code_final)) as [[i1 rf]|] eqn:L1; [|discriminate].
  destruct (last_opt (filter (fun ir => cell_ge0 (iter_cell g (snd ir))) (f_rows g))) as [[i2 rl]|] eqn:L2; [|discriminate].
  rewrite last_opt_map, L2 in H. cbn [option_map snd] in H.
  apply negb_true_iff in HF.
  assert (Hobj : obj_cell (mkFrame (f_cols g) (filter (fun ir => cell_ge0 (iter_cell g (snd ir))) (f_rows g))) rl = obj_cell g rl) by reflexivity.
  rewrite Hobj in H.
  destruct (obj_cell g rl) as [y| |s] eqn:Eo.
  - destruct (final_ofv g) as [c0|k|] eqn:Fo; cbn [rbind] in H; try discriminate.
    inversion H. subst c0.
    unfold final_ofv in Fo. destruct (get_ofv g code_final) as [c1|k|] eqn:Go.
    + exact Fo.
    + (* KeyError impossible: there is a final row *)
      exfalso. unfold get_ofv in Go. destruct (rows_with g code_final) as [|x xs]; [discriminate L1|].
      destruct x as [ix rx]. destruct xs; discriminate.
    + discriminate.
  - destruct (obj_cell g rf); discriminate.
  - destruct (obj_cell g rf); discriminate.
Qed.

(* ---- CovTable: exactly the all-zero (fixed) rows and columns are dropped ---- *)
Lemma keep_mask_positions_from {A} (d : A) : forall (l : list A) (mask : list bool) (k : nat),
    length mask = length l ->
    keep_mask mask l = map (fun i => nth (i - k) l d) (filter (fun i => nth (i - k) mask false) (seq k (length l))).
Proof.
  induction l as [|x l IH]; intros mask k Hl.
  - destruct mask; reflexivity.
  - destruct mask as [|b mask]; [discriminate|]. cbn [length] in Hl.
    cbn [keep_mask length seq filter]. rewrite Nat.sub_diag. cbn [nth].
    assert (E : forall (f : nat -> bool) (g : nat -> A),
               (forall i, k < i -> f i = nth (i - S k) mask false) -> (forall i, k < i -> g i = nth (i - S k) l d) ->
               map g (filter f (seq (S k) (length l))) =
               map (fun i => nth (i - S k) l d) (filter (fun i => nth (i - S k) mask false) (seq (S k) (length l)))).
    { intros f g Hf Hg. 
      assert (Hfl : filter f (seq (S k) (length l)) = filter (fun i => nth (i - S k) mask false) (seq (S k) (length l))).
      { apply filter_ext_in. intros i Hi. apply in_seq in Hi. apply Hf. lia. }
      rewrite Hfl. apply map_ext_in. intros i Hi. apply filter_In in Hi. destruct Hi as [Hi _]. apply in_seq in Hi. apply Hg. lia. }
    rewrite (IH mask (S k)) by lia.
    destruct b.
    + cbn [map]. rewrite Nat.sub_diag. cbn [nth]. f_equal. symmetry. apply E.
      * intros i Hi. replace (i - k) with (S (i - S k)) by lia. reflexivity.
      * intros i Hi. replace (i - k) with (S (i - S k)) by lia. reflexivity.
    + symmetry. apply E.
      * intros i Hi. replace (i - k) with (S (i - S k)) by lia. reflexivity.
      * intros i Hi. replace (i - k) with (S (i - S k)) by lia. reflexivity.
Qed.

Lemma keep_mask_positions {A} (d : A) (l : list A) (mask : list bool) :
    length mask = length l ->
    keep_mask mask l = map (fun i => nth i l d) (filter (fun i => nth i mask false) (seq 0 (length l))).
Proof.
  intros H. rewrite (keep_mask_positions_from d l mask 0 H).
  assert (Hf : filter (fun i => nth (i - 0) mask false) (seq 0 (length l)) = filter (fun i => nth i mask false) (seq 0 (length l))).
  { apply filter_ext. intros i. rewrite Nat.sub_0_r. reflexivity. }
  rewrite Hf. apply map_ext. intros i. rewrite Nat.sub_0_r. reflexivity.
Qed.

(* indices of the parameters with a non-zero row / column in the full matrix *)
Definition kept_rows (vals : list (list cell)) : list nat :=
  filter (fun i => existsb cell_nonzero (nth i vals [])) (seq 0 (length vals)).
Definition kept_cols (vals : list (list cell)) (n : nat) : list nat :=
  filter (fun j => col_any vals j) (seq 0 n).

Theorem cov_drop_fixed_exact_lemma : forall f m names,
    cov_data_frame f = ROk m -> cov_names f = Some names ->
    let L := cov_labels f in
    let V := cov_full f names in
    m_rows m = map (fun i => rename_theta (nth i L [])) (kept_rows V) /\
    m_cols m = map (fun j => rename_theta (nth j L [])) (kept_cols V (length L)) /\
    m_vals m = map (fun i => map (fun j => nth j (nth i V []) CNaN) (kept_cols V (length L))) (kept_rows V).
Proof.
  intros f m names H Hn L V. unfold cov_data_frame in H.
  destruct (index_of s_NAME (f_cols f)); [|discriminate]. rewrite Hn in H.
  destruct (has_dup names || has_dup (map rename_theta (cov_labels f))); [discriminate|].
  inversion H. clear H. cbn [m_rows m_cols m_vals]. fold L. fold V.
  assert (HVlen : length V = length L) by (unfold V, cov_full; rewrite map_length; reflexivity).
  assert (HVrow : forall i, i < length L -> length (nth i V []) = length L).
  { assert (Hall : forall r, In r V -> length r = length L).
    { intros r Hin. unfold V, cov_full in Hin. apply in_map_iff in Hin. destruct Hin as [l [E _]]. subst r. fold L.
      destruct (index_of l names) as [i0|]; [destruct (nth_error (f_rows f) i0) as [[? r]|]|]; rewrite !map_length; reflexivity. }
    intros i Hi. apply Hall. apply nth_In. lia. }
  assert (Hrm : length (row_mask V) = length V) by (unfold row_mask; apply map_length).
  assert (Hcm : length (col_mask V (length L)) = length L) by (unfold col_mask; rewrite map_length, seq_length; reflexivity).
  split; [|split].
  - rewrite (keep_mask_positions ([] : text) (map rename_theta L) (row_mask V)) by (rewrite map_length; lia).
    rewrite map_length. unfold kept_rows. rewrite HVlen.
    assert (Hf : filter (fun i => nth i (row_mask V) false) (seq 0 (length L)) = filter (fun i => existsb cell_nonzero (nth i V [])) (seq 0 (length L))).
    { apply filter_ext_in. intros i Hi. apply in_seq in Hi. unfold row_mask.
      rewrite (nth_indep _ false (existsb cell_nonzero [])) by (rewrite map_length; lia).
      apply (map_nth (fun r => existsb cell_nonzero r)). }
    rewrite Hf. apply map_ext_in. intros i Hi. apply filter_In in Hi. destruct Hi as [Hi _]. apply in_seq in Hi.
    rewrite (nth_indep _ [] (rename_theta [])) by (rewrite map_length; lia). apply (map_nth rename_theta).
  - rewrite (keep_mask_positions ([] : text) (map rename_theta L) (col_mask V (length L))) by (rewrite map_length; lia).
    rewrite map_length. unfold kept_cols.
    assert (Hf : filter (fun i => nth i (col_mask V (length L)) false) (seq 0 (length L)) = filter (fun j => col_any V j) (seq 0 (length L))).
    { apply filter_ext_in. intros i Hi. apply in_seq in Hi. unfold col_mask.
      rewrite (nth_indep _ false (col_any V 0)) by (rewrite map_length, seq_length; lia).
      rewrite (map_nth (col_any V)). rewrite seq_nth by lia. reflexivity. }
    rewrite Hf. apply map_ext_in. intros i Hi. apply filter_In in Hi. destruct Hi as [Hi _]. apply in_seq in Hi.
    rewrite (nth_indep _ [] (rename_theta [])) by (rewrite map_length; lia). apply (map_nth rename_theta).
  - rewrite (keep_mask_positions ([] : list cell) V (row_mask V)) by lia. rewrite map_map. unfold kept_rows.
    assert (Hf : filter (fun i => nth i (row_mask V) false) (seq 0 (length V)) = filter (fun i => existsb cell_nonzero (nth i V [])) (seq 0 (length V))).
    { apply filter_ext_in. intros i Hi. apply in_seq in Hi. unfold row_mask.
      rewrite (nth_indep _ false (existsb cell_nonzero [])) by (rewrite map_length; lia).
      apply (map_nth (fun r => existsb cell_nonzero r)). }
    rewrite Hf. apply map_ext_in. intros i Hi. apply filter_In in Hi. destruct Hi as [Hi _]. apply in_seq in Hi.
    rewrite (keep_mask_positions CNaN (nth i V []) (col_mask V (length L))) by (rewrite HVrow; lia).
    rewrite HVrow by lia. unfold kept_cols.
    assert (Hf2 : filter (fun i0 => nth i0 (col_mask V (length L)) false) (seq 0 (length L)) = filter (fun j => col_any V j) (seq 0 (length L))).
    { apply filter_ext_in. intros j Hj. apply in_seq in Hj. unfold col_mask.
      rewrite (nth_indep _ false (col_any V 0)) by (rewrite map_length, seq_length; lia).
      rewrite (map_nth (col_any V)). rewrite seq_nth by lia. reflexivity. }
    rewrite Hf2. reflexivity.
Qed.

Lemma existsb_map' {A B} (f : A -> B) (p : B -> bool) : forall l, existsb p (map f l) = existsb (fun x => p (f x)) l.
Proof. induction l as [|x l IH]; [reflexivity|]. cbn. rewrite IH. reflexivity. Qed.

Lemma existsb_nth {A} (p : A -> bool) (d : A) : forall l,
    existsb p l = existsb (fun k => p (nth k l d)) (seq 0 (length l)).
Proof.
  induction l as [|x l IH]; [reflexivity|]. cbn [length seq existsb nth]. f_equal.
  rewrite IH. rewrite <- seq_shift. rewrite existsb_map'. reflexivity.
Qed.

Lemma existsb_ext_in {A} (p q : A -> bool) : forall l, (forall x, In x l -> p x = q x) -> existsb p l = existsb q l.
Proof.
  induction l as [|x l IH]; intros H; [reflexivity|]. cbn. rewrite (H x) by (left; reflexivity).
  rewrite IH by (intros y Hy; apply H; right; exact Hy). reflexivity.
Qed.

(* for a symmetric square matrix the rows and the columns that survive are the same: the result is square
   with identical row and column labels *)
Theorem cov_symmetric_same_kept : forall (V : list (list cell)) n,
    length V = n -> (forall i, i < n -> length (nth i V []) = n) ->
    (forall i j, i < n -> j < n -> nth j (nth i V []) CNaN = nth i (nth j V []) CNaN) ->
    kept_rows V = kept_cols V n.
Proof.
  intros V n Hl Hr Hs. unfold kept_rows, kept_cols. rewrite Hl. apply filter_ext_in. intros i Hi. apply in_seq in Hi.
  rewrite (existsb_nth cell_nonzero CNaN (nth i V [])). rewrite Hr by lia.
  unfold col_any. rewrite (existsb_nth (fun r => cell_nonzero (nth i r CNaN)) [] V). rewrite Hl.
  apply existsb_ext_in. intros j Hj. apply in_seq in Hj. rewrite Hs by lia. reflexivity.
Qed.

(* ================================================================================================ *)
(** * the defining relations of cov / cor / se *)
Local Open Scope Q_scope.
(* ---- cov2corr / corr2cov / calculate_{corr,cov,se}_from_* over an exact field (Q) with the square root as an
   oracle: a Section variable constrained only where it is used ---- *)
Section CorrCovQ.
  Variable n : nat.
  Variable sq : Q -> Q.                         (* np.sqrt *)
  Definition MatQ := nat -> nat -> Q.

  Fixpoint sumQ (k : nat) (f : nat -> Q) : Q :=
    match k with O => 0 | S k' => sumQ k' f + f k' end.

  Definition diagQ (d : nat -> Q) : MatQ := fun i j => if Nat.eqb i j then d i else 0.
  Definition mmulQ (a b : MatQ) : MatQ := fun i j => sumQ n (fun k => a i k * b k j).

  (* v = sqrt(diag(cov)); corr = cov / outer(v, v); corr[cov == 0] = 0 *)
  Definition cov2corrQ (cov : MatQ) : MatQ :=
    fun i j => if Qeq_bool (cov i j) 0 then 0 else cov i j / (sq (cov i i) * sq (cov j j)).
  (* sd_matrix @ corr @ sd_matrix *)
  Definition corr2covQ (corr : MatQ) (sd : nat -> Q) : MatQ := mmulQ (mmulQ (diagQ sd) corr) (diagQ sd).
  Definition se_from_covQ (cov : MatQ) : nat -> Q := fun i => sq (cov i i).

  (* sq is a square root on the diagonal of cov *)
  Definition sqrt_on_diag (cov : MatQ) : Prop :=
    forall k, (k < n)%nat -> sq (cov k k) * sq (cov k k) == cov k k /\ 0 < sq (cov k k).

  Lemma sumQ_zero : forall k (f : nat -> Q), (forall j, (j < k)%nat -> f j == 0) -> sumQ k f == 0.
  Proof.
    induction k as [|k IH]; intros f H; [reflexivity|]. cbn [sumQ]. rewrite IH by (intros j Hj; apply H; lia).
    rewrite (H k) by lia. ring.
  Qed.

  Lemma sumQ_single : forall k (f : nat -> Q) (i : nat),
      (i < k)%nat -> (forall j, (j < k)%nat -> j <> i -> f j == 0) -> sumQ k f == f i.
  Proof.
    induction k as [|k IH]; intros f i Hi Hz; [lia|].
    cbn [sumQ]. destruct (Nat.eq_dec i k) as [E|E].
    - subst i. rewrite sumQ_zero by (intros j Hj; apply Hz; lia). ring.
    - rewrite (IH f i) by (try lia; intros j Hj Hne; apply Hz; lia). rewrite (Hz k) by lia. ring.
  Qed.

  Lemma diagQ_left : forall d a i j, (i < n)%nat -> mmulQ (diagQ d) a i j == d i * a i j.
  Proof.
    intros d a i j Hi. unfold mmulQ. rewrite (sumQ_single n _ i Hi).
    - unfold diagQ. rewrite Nat.eqb_refl. reflexivity.
    - intros k Hk Hne. unfold diagQ. destruct (Nat.eqb_spec i k); [congruence|]. ring.
  Qed.

  Lemma sumQ_ext : forall k (f g : nat -> Q), (forall j, (j < k)%nat -> f j == g j) -> sumQ k f == sumQ k g.
  Proof.
    induction k as [|k IH]; intros f g H; [reflexivity|]. cbn [sumQ]. rewrite (IH f g) by (intros j Hj; apply H; lia).
    rewrite (H k) by lia. reflexivity.
  Qed.

  Lemma diagQ_right : forall d a i j, (j < n)%nat -> mmulQ a (diagQ d) i j == a i j * d j.
  Proof.
    intros d a i j Hj. unfold mmulQ. rewrite (sumQ_single n _ j Hj).
    - unfold diagQ. rewrite Nat.eqb_refl. reflexivity.
    - intros k Hk Hne. unfold diagQ. destruct (Nat.eqb_spec k j); [congruence|]. ring.
  Qed.

  Lemma corr2covQ_entry : forall corr sd i j, (i < n)%nat -> (j < n)%nat ->
      corr2covQ corr sd i j == sd i * corr i j * sd j.
  Proof.
    intros corr sd i j Hi Hj. unfold corr2covQ. rewrite diagQ_right by exact Hj.
    rewrite diagQ_left by exact Hi. reflexivity.
  Qed.

  Lemma cov2corrQ_entry : forall cov i j, cov2corrQ cov i j == cov i j / (sq (cov i i) * sq (cov j j)).
  Proof.
    intros cov i j. unfold cov2corrQ. destruct (Qeq_bool (cov i j) 0) eqn:E; [|reflexivity].
    apply Qeq_bool_iff in E. rewrite E. unfold Qdiv. ring.
  Qed.

  Theorem corQ_is_scaled_cov : forall cov i j, (i < n)%nat -> (j < n)%nat -> sqrt_on_diag cov ->
      cov2corrQ cov i j == mmulQ (mmulQ (diagQ (fun k => / sq (cov k k))) cov) (diagQ (fun k => / sq (cov k k))) i j.
  Proof.
    intros cov i j Hi Hj Hs. rewrite diagQ_right by exact Hj. rewrite diagQ_left by exact Hi.
    rewrite cov2corrQ_entry. destruct (Hs i Hi) as [_ Pi]. destruct (Hs j Hj) as [_ Pj].
    field. split; intro E; rewrite E in *; [apply (Qlt_irrefl 0 Pj)|apply (Qlt_irrefl 0 Pi)].
  Qed.

  Theorem corrQ_diag_one : forall cov i, (i < n)%nat -> sqrt_on_diag cov -> cov2corrQ cov i i == 1.
  Proof.
    intros cov i Hi Hs. rewrite cov2corrQ_entry. destruct (Hs i Hi) as [Sq Pi]. rewrite Sq.
    field. intro E. rewrite <- Sq in E.
    assert (0 < sq (cov i i) * sq (cov i i)) by (apply Qmult_lt_0_compat; exact Pi). rewrite E in H. apply (Qlt_irrefl 0 H).
  Qed.

  Theorem covQ_from_corrse_roundtrip : forall cov i j, (i < n)%nat -> (j < n)%nat -> sqrt_on_diag cov ->
      corr2covQ (cov2corrQ cov) (se_from_covQ cov) i j == cov i j.
  Proof.
    intros cov i j Hi Hj Hs. rewrite corr2covQ_entry by assumption. rewrite cov2corrQ_entry. unfold se_from_covQ.
    destruct (Hs i Hi) as [_ Pi]. destruct (Hs j Hj) as [_ Pj].
    field. split; intro E; rewrite E in *; [apply (Qlt_irrefl 0 Pj)|apply (Qlt_irrefl 0 Pi)].
  Qed.
End CorrCovQ.

(* ================================================================================================ *)
(** * the title line: parse_title (render_title t) = t *)
Local Open Scope nat_scope.

(* ---- the title line ---- *)
Lemma drop_prefix_app : forall p s, drop_prefix p (p ++ s) = Some s.
Proof. induction p as [|a p IH]; intros s; [reflexivity|]. cbn [app drop_prefix]. rewrite N.eqb_refl. apply IH. Qed.

Lemma drop_prefix_head_ne : forall a p b s, N.eqb a b = false -> drop_prefix (a :: p) (b :: s) = None.
Proof. intros a p b s H. cbn [drop_prefix]. rewrite H. reflexivity. Qed.

Lemma take_number_digits : forall ds r, all_digits ds = true -> nondigit_start r ->
    take_number (ds ++ r) = Some (digits_val ds, r).
Proof.
  intros ds r H Hr. apply all_digits_spec in H. destruct H as [Hne Hd]. unfold take_number.
  rewrite span_digits_app by assumption. destruct ds; [congruence|reflexivity].
Qed.

Lemma lit_number_app : forall lit ds r, all_digits ds = true -> nondigit_start r ->
    lit_number lit (lit ++ ds ++ r) = Some (digits_val ds, r).
Proof. intros lit ds r H Hr. unfold lit_number. rewrite drop_prefix_app. apply take_number_digits; assumption. Qed.

Definition tail_text (i0 i1 i2 i3 i4 i5 : text) : text :=
  s_Problem ++ i0 ++ s_Subproblem ++ i1 ++ s_Superproblem1 ++ i2 ++ s_Iteration1 ++ i3 ++
  s_Superproblem2 ++ i4 ++ s_Iteration2 ++ i5.

Lemma parse_tail_text : forall i0 i1 i2 i3 i4 i5 r,
    all_digits i0 = true -> all_digits i1 = true -> all_digits i2 = true -> all_digits i3 = true ->
    all_digits i4 = true -> all_digits i5 = true -> nondigit_start r ->
    parse_tail (tail_text i0 i1 i2 i3 i4 i5 ++ r) = Some (map digits_val [i0; i1; i2; i3; i4; i5]).
Proof.
  intros i0 i1 i2 i3 i4 i5 r H0 H1 H2 H3 H4 H5 Hr. unfold parse_tail, tail_text.
  repeat rewrite <- app_assoc.
  rewrite lit_number_app by (try assumption; reflexivity).
  rewrite lit_number_app by (try assumption; reflexivity).
  rewrite lit_number_app by (try assumption; reflexivity).
  rewrite lit_number_app by (try assumption; reflexivity).
  rewrite lit_number_app by (try assumption; reflexivity).
  rewrite lit_number_app by assumption. reflexivity.
Qed.

(* texts without ':' never match ': ' *)
Definition no_colon (t : text) : bool := forallb (fun c => negb (N.eqb c c_colon)) t.

Lemma goal_longest_none : forall s, no_colon s = true -> goal_longest s = None.
Proof.
  induction s as [|c s IH]; intros H; [reflexivity|].
  cbn [no_colon forallb] in H. apply andb_true_iff in H. destruct H as [Hc Hs]. apply negb_true_iff in Hc.
  cbn [goal_longest]. assert (drop_prefix s_colon_sp (c :: s) = None) as ->.
  { unfold s_colon_sp. apply drop_prefix_head_ne. rewrite N.eqb_sym. exact Hc. }
  destruct (N.eqb c c_nl); [reflexivity|]. rewrite IH by exact Hs. reflexivity.
Qed.

Definition goal_here (s : text) : option (text * list N) :=
  match drop_prefix s_colon_sp s with
  | Some r => match parse_tail r with Some ids => Some ([], ids) | None => None end
  | None => None
  end.

Lemma goal_longest_cons : forall c tl,
    goal_longest (c :: tl) =
    if N.eqb c c_nl then goal_here (c :: tl)
    else match goal_longest tl with Some (g, ids) => Some (c :: g, ids) | None => goal_here (c :: tl) end.
Proof. reflexivity. Qed.

Lemma goal_longest_found : forall g rest ids,
    no_colon_nl g = true -> parse_tail rest = Some ids -> no_colon rest = true ->
    goal_longest (g ++ s_colon_sp ++ rest) = Some (g, ids).
Proof.
  induction g as [|c g IH]; intros rest ids Hg Hp Hr.
  - cbn [app]. unfold s_colon_sp. cbn [app]. rewrite goal_longest_cons.
    assert (E : (58 =? c_nl)%N = false) by reflexivity. rewrite E.
    assert (Hd : goal_longest (32%N :: rest) = None).
    { apply goal_longest_none. unfold no_colon in *. cbn [forallb]. rewrite Hr. reflexivity. }
    rewrite Hd. unfold goal_here, s_colon_sp. cbn [drop_prefix]. rewrite !N.eqb_refl. rewrite Hp. reflexivity.
  - cbn [no_colon_nl forallb] in Hg. apply andb_true_iff in Hg. destruct Hg as [Hc Hg].
    apply andb_true_iff in Hc. destruct Hc as [Hc Hcr]. apply andb_true_iff in Hc. destruct Hc as [Hc1 Hc2].
    apply negb_true_iff in Hc2. cbn [app]. rewrite goal_longest_cons. rewrite Hc2.
    rewrite (IH rest ids Hg Hp Hr). reflexivity.
Qed.

Lemma all_digits_forall ds : all_digits ds = true -> forallb is_digit ds = true.
Proof. intros H. apply all_digits_spec in H. apply H. Qed.

Lemma digits_no_colon ds : forallb is_digit ds = true -> no_colon ds = true.
Proof.
  induction ds as [|c ds IH]; intros H; [reflexivity|]. cbn [forallb] in H. apply andb_true_iff in H. destruct H as [Hc Hd].
  unfold no_colon. cbn [forallb]. fold (no_colon ds). rewrite IH by exact Hd.
  unfold is_digit, c_colon in *. destruct (N.eqb_spec c 58); [lia|reflexivity].
Qed.

Lemma tail_no_colon : forall i0 i1 i2 i3 i4 i5,
    all_digits i0 = true -> all_digits i1 = true -> all_digits i2 = true -> all_digits i3 = true ->
    all_digits i4 = true -> all_digits i5 = true ->
    no_colon (tail_text i0 i1 i2 i3 i4 i5 ++ [c_nl]) = true.
Proof.
  intros i0 i1 i2 i3 i4 i5 H0 H1 H2 H3 H4 H5. unfold tail_text, no_colon. rewrite !forallb_app'.
  fold (no_colon i0) (no_colon i1) (no_colon i2) (no_colon i3) (no_colon i4) (no_colon i5).
  rewrite (digits_no_colon i0), (digits_no_colon i1), (digits_no_colon i2), (digits_no_colon i3), (digits_no_colon i4), (digits_no_colon i5)
    by (apply all_digits_forall; assumption). reflexivity.
Qed.

Section Title.
  Variables (i0 i1 i2 i3 i4 i5 : text).
  Hypotheses (H0 : all_digits i0 = true) (H1 : all_digits i1 = true) (H2 : all_digits i2 = true)
             (H3 : all_digits i3 = true) (H4 : all_digits i4 = true) (H5 : all_digits i5 = true).
  Let TAIL := tail_text i0 i1 i2 i3 i4 i5 ++ [c_nl].
  Let IDS := map digits_val [i0; i1; i2; i3; i4; i5].

  Lemma parse_tail_TAIL : parse_tail TAIL = Some IDS.
  Proof. unfold TAIL. apply parse_tail_text; try assumption. reflexivity. Qed.

  Lemma TAIL_starts : exists r, TAIL = s_Problem ++ r.
  Proof. unfold TAIL, tail_text. eexists. rewrite <- app_assoc. reflexivity. Qed.

  (* ': ' [Goal Function=g ': '] TAIL *)
  Lemma after_colon_goal : forall g, no_colon_nl g = true ->
      after_colon (s_colon_sp ++ s_Goal ++ g ++ s_colon_sp ++ TAIL) = Some (Some g, IDS).
  Proof.
    intros g Hg. unfold after_colon. rewrite drop_prefix_app. rewrite drop_prefix_app.
    rewrite (goal_longest_found g TAIL IDS Hg parse_tail_TAIL).
    - destruct (parse_tail (s_Goal ++ g ++ s_colon_sp ++ TAIL)); reflexivity.
    - unfold TAIL. apply tail_no_colon; assumption.
  Qed.

  Lemma after_colon_nogoal : after_colon (s_colon_sp ++ TAIL) = Some (None, IDS).
  Proof.
    unfold after_colon. rewrite drop_prefix_app. rewrite parse_tail_TAIL.
    destruct TAIL_starts as [r Hr]. rewrite Hr. reflexivity.
  Qed.

  Definition goal_part (g : option text) : text :=
    match g with Some g => s_Goal ++ g ++ s_colon_sp | None => [] end.

  Lemma after_colon_any : forall g, match g with Some x => no_colon_nl x = true | None => True end ->
      after_colon (s_colon_sp ++ goal_part g ++ TAIL) = Some (g, IDS).
  Proof.
    intros [g|] Hg; cbn [goal_part].
    - rewrite <- !app_assoc. apply after_colon_goal. exact Hg.
    - apply after_colon_nogoal.
  Qed.

  (* the text after ': ' when there is no design group does not look like a design group *)
  Lemma no_design_confusion : forall g, match g with Some x => no_colon_nl x = true | None => True end ->
      forall w r2, span is_design_char (goal_part g ++ TAIL) = (w, r2) -> after_colon r2 = None.
  Proof.
    intros g Hg w r2 Hs. destruct TAIL_starts as [r Hr].
    destruct g as [g|]; cbn [goal_part] in Hs.
    - (* "Goal Function=..." : the run is "Goal", the rest starts with a blank *)
      unfold s_Goal in Hs. cbn [app span is_design_char is_word is_alpha is_upper is_lower is_digit] in Hs.
      vm_compute in Hs. inversion Hs. subst r2. reflexivity.
    - rewrite Hr in Hs. unfold s_Problem in Hs. cbn [app] in Hs. vm_compute in Hs.
      inversion Hs. subst r2. reflexivity.
  Qed.
End Title.

Section Title2.
  Variables (i0 i1 i2 i3 i4 i5 : text).
  Hypotheses (H0 : all_digits i0 = true) (H1 : all_digits i1 = true) (H2 : all_digits i2 = true)
             (H3 : all_digits i3 = true) (H4 : all_digits i4 = true) (H5 : all_digits i5 = true).
  Let TAIL := tail_text i0 i1 i2 i3 i4 i5 ++ [c_nl].
  Let IDS := map digits_val [i0; i1; i2; i3; i4; i5].

  Definition design_part (d : option text) : text := match d with Some d => s_colon_sp ++ d | None => [] end.

  (* the rest of the line after the method *)
  Definition rest_line (d g : option text) : text := design_part d ++ s_colon_sp ++ goal_part g ++ TAIL.

  Lemma span_design : forall d r, forallb is_design_char d = true ->
      (match r with [] => True | c :: _ => is_design_char c = false end) -> span is_design_char (d ++ r) = (d, r).
  Proof.
    induction d as [|c d IH]; intros r Hd Hr.
    - cbn [app]. destruct r as [|c r]; [reflexivity|]. cbn [span]. rewrite Hr. reflexivity.
    - cbn [forallb] in Hd. apply andb_true_iff in Hd. destruct Hd as [Hc Hd]. cbn [app span]. rewrite Hc.
      rewrite IH by assumption. reflexivity.
  Qed.

  Lemma after_method_rest : forall d g,
      match d with Some x => x <> [] /\ forallb is_design_char x = true | None => True end ->
      match g with Some x => no_colon_nl x = true | None => True end ->
      after_method (rest_line d g) = Some (d, g, IDS).
  Proof.
    intros d g Hd Hg. unfold after_method, rest_line.
    destruct d as [d|]; cbn [design_part].
    - destruct Hd as [Hne Hdc]. rewrite <- !app_assoc. rewrite drop_prefix_app.
      rewrite span_design; [|exact Hdc|reflexivity].
      destruct d as [|c d']; [congruence|].
      pose proof (after_colon_any i0 i1 i2 i3 i4 i5 H0 H1 H2 H3 H4 H5 g Hg) as Hac. fold TAIL IDS in Hac.
      rewrite Hac. reflexivity.
    - cbn [app]. rewrite drop_prefix_app.
      pose proof (after_colon_any i0 i1 i2 i3 i4 i5 H0 H1 H2 H3 H4 H5 g Hg) as Hac. fold TAIL IDS in Hac.
      rewrite Hac.
      destruct (span is_design_char (goal_part g ++ TAIL)) as [w r2] eqn:Es.
      destruct w as [|c w']; [reflexivity|].
      rewrite (no_design_confusion i0 i1 i2 i3 i4 i5 g Hg (c :: w') r2 Es). reflexivity.
  Qed.

  Lemma after_method_nocolon : forall c s, N.eqb c c_colon = false -> after_method (c :: s) = None.
  Proof.
    intros c s H. unfold after_method, after_colon, s_colon_sp. cbn [drop_prefix].
    rewrite N.eqb_sym in H. unfold c_colon in H. rewrite H. reflexivity.
  Qed.

  Lemma method_shortest_scan : forall m R d g ids,
      no_colon_nl m = true -> after_method R = Some (d, g, ids) ->
      method_shortest (m ++ R) = Some (m, d, g, ids).
  Proof.
    induction m as [|c m IH]; intros R d g ids Hm HR.
    - cbn [app]. destruct R as [|x R']; cbn [method_shortest]; rewrite HR; reflexivity.
    - cbn [no_colon_nl forallb] in Hm. apply andb_true_iff in Hm. destruct Hm as [Hc Hm].
      apply andb_true_iff in Hc. destruct Hc as [Hc Hcr]. apply andb_true_iff in Hc. destruct Hc as [Hc1 Hc2].
      apply negb_true_iff in Hc1. apply negb_true_iff in Hc2.
      cbn [app method_shortest]. rewrite after_method_nocolon by exact Hc1. rewrite Hc2.
      rewrite (IH R d g ids Hm HR). reflexivity.
  Qed.
End Title2.

Lemma span_spaces_re : forall k r, (match r with [] => True | c :: _ => is_space_re c = false end) ->
    span is_space_re (spaces k ++ r) = (spaces k, r).
Proof.
  induction k as [|k IH]; intros r Hr.
  - cbn [spaces repeat app]. destruct r as [|c r]; [reflexivity|]. cbn [span]. rewrite Hr. reflexivity.
  - cbn [spaces repeat app span]. assert (is_space_re c_sp = true) as -> by reflexivity.
    fold (spaces k). rewrite IH by exact Hr. reflexivity.
Qed.

Lemma digit_not_space c : is_digit c = true -> is_space_re c = false.
Proof. unfold is_digit, is_space_re. intros H. lia. Qed.

Lemma match_number_prefix_render : forall num r,
    all_digits num = true -> nondigit_start r ->
    match_number_prefix (s_TABLE_NO_dot ++ [c_sp] ++ rjust 5 num ++ r) = Some (digits_val num, r).
Proof.
  intros num r Hn Hr. pose proof (all_digits_spec num Hn) as [Hne Hd].
  assert (E : [c_sp] ++ rjust 5 num ++ r = spaces (S (5 - length num)) ++ num ++ r).
  { unfold rjust. rewrite <- app_assoc. reflexivity. }
  rewrite E. clear E.
  unfold match_number_prefix, s_TABLE_NO_dot, s_TABLE_NO. cbn [app drop_prefix]. rewrite !N.eqb_refl.
  assert ((46 =? c_nl)%N = false) as -> by reflexivity.
  destruct num as [|d0 num']; [congruence|].
  assert (Hd0 : is_digit d0 = true) by (cbn [forallb] in Hd; apply andb_true_iff in Hd; apply Hd).
  rewrite span_spaces_re by (cbn [app]; apply digit_not_space; exact Hd0).
  cbn [spaces repeat]. rewrite span_digits_app by assumption. reflexivity.
Qed.

Theorem parse_title_render_lemma : forall t, wtitle_ok t = true -> parse_title (render_title t) = Some (title_of_wtitle t).
Proof.
  intros t H. unfold wtitle_ok in H. apply andb_true_iff in H. destruct H as [Hnum H].
  unfold parse_title, title_of_wtitle.
  destruct (wt_short t) eqn:Hs.
  - (* short title *)
    assert (E : render_title t = s_TABLE_NO_dot ++ [c_sp] ++ rjust 5 (wt_number t) ++ [c_nl]).
    { unfold render_title. rewrite Hs. reflexivity. }
    rewrite E. rewrite match_number_prefix_render by (try assumption; reflexivity). reflexivity.
  - cbn [orb] in H. repeat (apply andb_true_iff in H; destruct H as [H ?]).
    rename H into Hm, H3 into Hdes, H2 into Hgoal, H1 into Hlen, H0 into Hids.
    apply Nat.eqb_eq in Hlen.
    destruct (wt_ids t) as [|i0 [|i1 [|i2 [|i3 [|i4 [|i5 [|x xs]]]]]]] eqn:Eids; try discriminate.
    cbn [forallb] in Hids. repeat (apply andb_true_iff in Hids; destruct Hids as [? Hids]).
    assert (E : render_title t = s_TABLE_NO_dot ++ [c_sp] ++ rjust 5 (wt_number t) ++
                 (s_colon_sp ++ wt_method t ++ rest_line i0 i1 i2 i3 i4 i5 (wt_design t) (wt_goal t))).
    { unfold render_title. rewrite Hs, Eids. cbn [nth]. unfold rest_line, design_part, goal_part, tail_text.
      destruct (wt_design t); destruct (wt_goal t); repeat rewrite <- app_assoc; reflexivity. }
    rewrite E. rewrite match_number_prefix_render by (try assumption; reflexivity).
    rewrite drop_prefix_app.
    rewrite (method_shortest_scan (wt_method t) _ (wt_design t) (wt_goal t) (map digits_val [i0; i1; i2; i3; i4; i5]) Hm).
    + reflexivity.
    + apply after_method_rest; try assumption.
      * destruct (wt_design t) as [d|]; [|exact I]. apply andb_true_iff in Hdes. destruct Hdes as [A B].
        split; [destruct d; [discriminate|discriminate]|exact B].
      * destruct (wt_goal t); [exact Hgoal|exact I].
Qed.

(* ================================================================================================ *)
(** * parse (render x) = x for whole files: OBJ renaming, repeated headers, lines, tables *)

(* ---- re.sub("[A-Z]*OBJ", "OBJ") on a rendered body ---- *)
Lemma last_obj_spec : forall s k, last_obj s = Some k ->
    forallb is_upper (firstn (k + 3) s) = true /\ nth (k + 2) s 0%N = 74%N /\ k + 3 <= length s.
Proof.
  induction s as [|c tl IH]; intros k H; [discriminate|].
  cbn [last_obj] in H. destruct (is_upper c) eqn:Uc; [|discriminate].
  destruct (last_obj tl) as [k'|] eqn:L.
  - inversion H. subst k. destruct (IH k' eq_refl) as [A [B C]].
    cbn [plus firstn forallb nth length]. rewrite Uc, A. repeat split; [exact B|lia].
  - destruct (starts_with s_OBJ (c :: tl)) eqn:S; [|discriminate]. inversion H. subst k.
    unfold s_OBJ in S. cbn [starts_with] in S.
    destruct tl as [|c1 [|c2 tl2]]; cbn [starts_with] in S; try (rewrite ?andb_false_r in S; discriminate).
    apply andb_true_iff in S. destruct S as [S0 S]. apply andb_true_iff in S. destruct S as [S1 S].
    apply andb_true_iff in S. destruct S as [S2 _].
    apply N.eqb_eq in S0. apply N.eqb_eq in S1. apply N.eqb_eq in S2. subst c c1 c2.
    cbn. repeat split; lia.
Qed.

Lemma no_J_nth : forall s i, no_J s = true -> i < length s -> nth i s 0%N <> 74%N.
Proof.
  induction s as [|c s IH]; intros i H Hi; [cbn in Hi; lia|].
  unfold no_J in H. cbn [forallb] in H. apply andb_true_iff in H. destruct H as [Hc Hs].
  destruct i as [|i]; cbn [nth].
  - apply negb_true_iff in Hc. apply N.eqb_neq in Hc. exact Hc.
  - apply IH; [exact Hs|cbn in Hi; lia].
Qed.

Lemma last_obj_no_J : forall s, no_J s = true -> last_obj s = None.
Proof.
  intros s H. destruct (last_obj s) as [k|] eqn:L; [|reflexivity].
  destruct (last_obj_spec s k L) as [_ [B C]]. exfalso. apply (no_J_nth s (k + 2) H); [lia|exact B].
Qed.

Lemma no_J_tail c s : no_J (c :: s) = true -> no_J s = true.
Proof. unfold no_J. cbn [forallb]. intros H. apply andb_true_iff in H. apply H. Qed.

Lemma sub_obj_no_J : forall s, no_J s = true -> sub_obj_aux 0 s = s.
Proof.
  induction s as [|c s IH]; intros H; [reflexivity|]. cbn [sub_obj_aux].
  rewrite last_obj_no_J by exact H. rewrite IH by (apply (no_J_tail c); exact H). reflexivity.
Qed.

(* a prefix that has no J and ends with a character that is not a capital cannot start a match *)
Lemma last_obj_blocked : forall a x rest, no_J a = true -> is_upper x = false -> last_obj (a ++ x :: rest) = None.
Proof.
  intros a x rest Ha Hx. destruct (last_obj (a ++ x :: rest)) as [k|] eqn:L; [|reflexivity]. exfalso.
  destruct (last_obj_spec _ k L) as [A [B C]].
  destruct (Nat.lt_ge_cases (k + 2) (length a)) as [Hlt|Hge].
  - rewrite app_nth1 in B by exact Hlt. apply (no_J_nth a (k + 2) Ha Hlt B).
  - (* the position of x lies within the all-capital prefix *)
    assert (Hin : length a < k + 3) by lia.
    assert (Hu : is_upper (nth (length a) (firstn (k + 3) (a ++ x :: rest)) 0%N) = true).
    { rewrite forallb_forall in A. apply A. apply nth_In. rewrite firstn_length. lia. }
    assert (Hn : nth (length a) (firstn (k + 3) (a ++ x :: rest)) 0%N = x).
    { assert (G : forall n (l : text) i d, i < n -> nth i (firstn n l) d = nth i l d).
      { clear. induction n as [|n IH]; intros l i d Hi; [lia|]. destruct l as [|y l]; [destruct i; reflexivity|].
        destruct i as [|i]; [reflexivity|]. cbn [firstn nth]. apply IH. lia. }
      rewrite G by lia. rewrite app_nth2 by lia. rewrite Nat.sub_diag. reflexivity. }
    rewrite Hn in Hu. congruence.
Qed.

Lemma sub_obj_prefix : forall q x s, no_J q = true -> is_upper x = false ->
    sub_obj_aux 0 (q ++ x :: s) = q ++ x :: sub_obj_aux 0 s.
Proof.
  induction q as [|c q IH]; intros x s Hq Hx.
  - cbn [app sub_obj_aux]. cbn [last_obj]. rewrite Hx. reflexivity.
  - change ((c :: q) ++ x :: s) with (c :: (q ++ x :: s)). cbn [sub_obj_aux].
    change (c :: q ++ x :: s) with ((c :: q) ++ x :: s). rewrite last_obj_blocked by assumption.
    rewrite IH by (try assumption; apply (no_J_tail c); exact Hq). reflexivity.
Qed.

Definition nonupper_start (b : text) : Prop := match b with [] => True | c :: _ => is_upper c = false end.

Lemma last_obj_nonupper : forall b, nonupper_start b -> last_obj b = None.
Proof. intros [|c b] H; [reflexivity|]. cbn in H. cbn [last_obj]. rewrite H. reflexivity. Qed.

Lemma last_obj_at : forall U b, all_upper U = true -> nonupper_start b ->
    last_obj (U ++ s_OBJ ++ b) = Some (length U).
Proof.
  induction U as [|u U IH]; intros b HU Hb.
  - cbn [app length]. unfold s_OBJ. cbn [app last_obj]. cbn [is_upper].
    assert (E1 : is_upper 79 = true) by reflexivity. assert (E2 : is_upper 66 = true) by reflexivity.
    assert (E3 : is_upper 74 = true) by reflexivity. rewrite E1, E2, E3.
    rewrite (last_obj_nonupper b Hb). cbn [starts_with]. reflexivity.
  - unfold all_upper in HU. cbn [forallb] in HU. apply andb_true_iff in HU. destruct HU as [Hu HU].
    cbn [app last_obj length]. rewrite Hu. rewrite (IH b HU Hb). reflexivity.
Qed.

Lemma sub_obj_skip : forall x b, sub_obj_aux (length x) (x ++ b) = sub_obj_aux 0 b.
Proof. induction x as [|c x IH]; intros b; [reflexivity|]. cbn [length app]. destruct b; cbn [sub_obj_aux]; apply IH. Qed.

Lemma sub_obj_at : forall U b, all_upper U = true -> nonupper_start b -> no_J b = true ->
    sub_obj_aux 0 (U ++ s_OBJ ++ b) = s_OBJ ++ b.
Proof.
  intros U b HU Hb Hj.
  pose proof (last_obj_at U b HU Hb) as L.
  destruct U as [|u U].
  - cbn [app length] in *. unfold s_OBJ in *. cbn [app] in *. cbn [sub_obj_aux]. rewrite L.
    cbn [app plus sub_obj_aux]. rewrite sub_obj_no_J by exact Hj. destruct b; reflexivity.
  - cbn [app length] in *. cbn [sub_obj_aux]. rewrite L. f_equal.
    rewrite app_assoc. replace (S (length U) + 2) with (length (U ++ s_OBJ)) by (rewrite app_length; cbn; lia).
    rewrite sub_obj_skip. apply sub_obj_no_J. exact Hj.
Qed.

(* ---- pieces: a text without "OBJ" followed by a character that is not a capital ---- *)
Lemma last_obj_spec2 : forall s k, last_obj s = Some k -> starts_with s_OBJ (skipn k s) = true.
Proof.
  induction s as [|c tl IH]; intros k H; [discriminate|].
  cbn [last_obj] in H. destruct (is_upper c); [|discriminate].
  destruct (last_obj tl) as [k'|] eqn:L.
  - inversion H. subst k. cbn [skipn]. apply IH. reflexivity.
  - destruct (starts_with s_OBJ (c :: tl)) eqn:S; [|discriminate]. inversion H. subst k. exact S.
Qed.

Lemma contains_skipn : forall p s k, p <> [] -> starts_with p (skipn k s) = true -> contains p s = true.
Proof.
  intros p. induction s as [|c s IH]; intros k Hp H.
  - destruct k; cbn [skipn] in H; destruct p; try congruence; discriminate.
  - destruct k as [|k]; cbn [skipn] in H.
    + cbn [contains]. rewrite H. reflexivity.
    + cbn [contains]. rewrite (IH k Hp H). apply orb_true_r.
Qed.

Lemma starts_with_app_long : forall p a b, length p <= length a -> starts_with p (a ++ b) = starts_with p a.
Proof.
  induction p as [|x p IH]; intros a b H; [reflexivity|]. destruct a as [|y a]; [cbn in H; lia|].
  cbn [app starts_with]. rewrite IH by (cbn in H; lia). reflexivity.
Qed.

Lemma no_obj_tail c u : no_obj (c :: u) = true -> no_obj u = true.
Proof. unfold no_obj. cbn [contains]. intros H. apply negb_true_iff in H. apply orb_false_iff in H. destruct H as [_ H]. rewrite H. reflexivity. Qed.

Lemma last_obj_confined : forall u x rest, no_obj u = true -> is_upper x = false -> last_obj (u ++ x :: rest) = None.
Proof.
  intros u x rest Hu Hx. destruct (last_obj (u ++ x :: rest)) as [k|] eqn:L; [|reflexivity]. exfalso.
  destruct (last_obj_spec _ k L) as [A [_ C]]. pose proof (last_obj_spec2 _ k L) as S.
  destruct (Nat.lt_ge_cases (length u) (k + 3)) as [Hlt|Hge].
  - assert (Hup : is_upper (nth (length u) (firstn (k + 3) (u ++ x :: rest)) 0%N) = true).
    { rewrite forallb_forall in A. apply A. apply nth_In. rewrite firstn_length. lia. }
    assert (Hn : nth (length u) (firstn (k + 3) (u ++ x :: rest)) 0%N = x).
    { assert (G : forall n (l : text) i d, i < n -> nth i (firstn n l) d = nth i l d).
      { clear. induction n as [|n IH]; intros l i d Hi; [lia|]. destruct l as [|y l]; [destruct i; reflexivity|].
        destruct i as [|i]; [reflexivity|]. cbn [firstn nth]. apply IH. lia. }
      rewrite G by lia. rewrite app_nth2 by lia. rewrite Nat.sub_diag. reflexivity. }
    rewrite Hn in Hup. congruence.
  - (* the occurrence lies inside u *)
    rewrite skipn_app in S. replace (k - length u) with 0 in S by lia. cbn [skipn] in S.
    rewrite starts_with_app_long in S by (rewrite skipn_length; cbn; lia).
    unfold no_obj in Hu. apply negb_true_iff in Hu.
    rewrite (contains_skipn s_OBJ u k) in Hu; [discriminate|discriminate|exact S].
Qed.

Lemma sub_obj_piece : forall u x s, no_obj u = true -> is_upper x = false ->
    sub_obj_aux 0 (u ++ x :: s) = u ++ x :: sub_obj_aux 0 s.
Proof.
  induction u as [|c u IH]; intros x s Hu Hx.
  - cbn [app sub_obj_aux]. cbn [last_obj]. rewrite Hx. reflexivity.
  - change ((c :: u) ++ x :: s) with (c :: (u ++ x :: s)). cbn [sub_obj_aux].
    change (c :: u ++ x :: s) with ((c :: u) ++ x :: s). rewrite last_obj_confined by assumption.
    rewrite IH by (try assumption; apply (no_obj_tail c); exact Hu). reflexivity.
Qed.

Lemma sub_obj_spaces : forall k s, sub_obj_aux 0 (spaces k ++ s) = spaces k ++ sub_obj_aux 0 s.
Proof.
  induction k as [|k IH]; intros s; [reflexivity|]. cbn [spaces repeat app]. fold (spaces k).
  change (c_sp :: spaces k ++ s) with ([] ++ c_sp :: (spaces k ++ s)).
  rewrite sub_obj_piece by reflexivity. cbn [app]. rewrite IH. reflexivity.
Qed.

Lemma sub_obj_label_prefix : forall init s,
    (forall l, In l init -> no_obj l = true /\ length l < 13) ->
    sub_obj_aux 0 (concat (map (ljust 13) init) ++ s) = concat (map (ljust 13) init) ++ sub_obj_aux 0 s.
Proof.
  induction init as [|l init IH]; intros s H; [reflexivity|].
  destruct (H l (or_introl eq_refl)) as [Hn Hl]. cbn [map concat]. unfold ljust at 1 3.
  replace (13 - length l) with (S (13 - length l - 1)) by lia. cbn [spaces repeat]. fold (spaces (13 - length l - 1)).
  rewrite <- !app_assoc. cbn [app]. rewrite sub_obj_piece by (try assumption; reflexivity).
  rewrite sub_obj_spaces. rewrite IH by (intros l0 Hl0; apply H; right; exact Hl0). reflexivity.
Qed.

(* ---- no J / cleanliness of rendered pieces ---- *)
Lemma no_J_app a b : no_J (a ++ b) = no_J a && no_J b.
Proof. apply forallb_app'. Qed.
Lemma no_J_spaces k : no_J (spaces k) = true.
Proof. induction k as [|k IH]; [reflexivity|]. cbn [spaces repeat]. unfold no_J in *. cbn [forallb]. exact IH. Qed.
Lemma numchar_no_J t : forallb numchar t = true -> no_J t = true.
Proof.
  induction t as [|c t IH]; intros H; [reflexivity|]. cbn [forallb] in H. apply andb_true_iff in H. destruct H as [Hc Ht].
  unfold no_J. cbn [forallb]. fold (no_J t). rewrite IH by exact Ht.
  unfold numchar, is_digit, c_dot, c_plus, c_minus in Hc. destruct (N.eqb_spec c 74); [subst c; discriminate|reflexivity].
Qed.

Lemma wnum_text_numchar w x : wnum_ok w x = true -> is_wstr x = false -> forallb numchar (wnum_text x) = true.
Proof.
  intros H Hs. unfold wnum_ok in H. apply andb_true_iff in H. destruct H as [_ H].
  destruct x as [neg ds|neg d6 eneg e2|neg ip fp|t]; [| | |discriminate]; cbn [wnum_text].
  - apply andb_true_iff in H. destruct H as [H _]. rewrite forallb_app', (digits_numchar _ (all_digits_forall _ H)).
    destruct neg; reflexivity.
  - repeat (apply andb_true_iff in H; destruct H as [H ?]).
    pose proof (all_digits_forall _ H) as Hd. pose proof (all_digits_forall _ H0) as He.
    rewrite <- (firstn_skipn 1 d6) in Hd. rewrite forallb_app' in Hd. apply andb_true_iff in Hd. destruct Hd as [Hd1 Hd2].
    rewrite !forallb_app'. rewrite (digits_numchar _ Hd1), (digits_numchar _ Hd2), (digits_numchar _ He).
    destruct neg; destruct eneg; reflexivity.
  - apply andb_true_iff in H. destruct H as [H1 H2].
    rewrite !forallb_app'. rewrite (digits_numchar _ (all_digits_forall _ H1)), (digits_numchar _ H2). destruct neg; reflexivity.
Qed.

Lemma wnum_text_no_J w x : wnum_ok w x = true -> wstr_no_J x = true -> no_J (wnum_text x) = true.
Proof.
  intros H Hj. destruct (is_wstr x) eqn:E.
  - destruct x; try discriminate. exact Hj.
  - apply numchar_no_J. apply (wnum_text_numchar w); assumption.
Qed.

Lemma render_cells_no_J : forall lw cells, row_ok lw cells = true -> forallb wstr_no_J cells = true ->
    no_J (render_cells lw cells) = true.
Proof.
  intros lw. induction cells as [|c tl IH]; intros H Hj; [reflexivity|].
  cbn [forallb] in Hj. apply andb_true_iff in Hj. destruct Hj as [Hc Hj].
  destruct tl as [|c2 tl2].
  - cbn [row_ok render_cells] in *. unfold rjust. rewrite no_J_app, no_J_spaces. apply (wnum_text_no_J _ c H Hc).
  - remember (c2 :: tl2) as tl eqn:E.
    assert (Hrow : row_ok lw (c :: tl) = wnum_ok 13 c && row_ok lw tl) by (subst tl; reflexivity).
    rewrite Hrow in H. apply andb_true_iff in H. destruct H as [H1 H2].
    assert (Hren : render_cells lw (c :: tl) = rjust 13 (wnum_text c) ++ render_cells lw tl) by (subst tl; reflexivity).
    rewrite Hren. unfold rjust. rewrite !no_J_app, no_J_spaces, (wnum_text_no_J _ c H1 Hc), (IH H2 Hj). reflexivity.
Qed.

Lemma rows_text_no_J : forall lw rows,
    (forall r, In r rows -> row_ok lw r = true /\ forallb wstr_no_J r = true) ->
    no_J (concat (map (fun r => render_cells lw r ++ [c_nl]) rows)) = true.
Proof.
  induction rows as [|r rows IH]; intros H; [reflexivity|]. cbn [map concat].
  destruct (H r (or_introl eq_refl)) as [A B].
  rewrite !no_J_app, (render_cells_no_J lw r A B), IH by (intros r0 Hr0; apply H; right; exact Hr0). reflexivity.
Qed.

(* ---- the label line: everything before the last label, which ends with a blank ---- *)
Lemma spaces_snoc k : spaces (S k) = spaces k ++ [c_sp].
Proof. induction k as [|k IH]; [reflexivity|]. cbn [spaces repeat app] in *. f_equal. exact IH. Qed.

Lemma render_labels_aux_snoc : forall init last,
    render_labels_aux (init ++ [last]) = concat (map (ljust 13) init) ++ last.
Proof.
  induction init as [|l init IH]; intros last; [reflexivity|].
  cbn [app map concat]. destruct (init ++ [last]) as [|x xs] eqn:E.
  - destruct init; discriminate.
  - change (render_labels_aux (l :: x :: xs)) with (ljust 13 l ++ render_labels_aux (x :: xs)).
    rewrite <- E. rewrite IH. rewrite app_assoc. reflexivity.
Qed.

Lemma labels_ok_snoc : forall init last, labels_ok (init ++ [last]) = true ->
    (forall l, In l init -> good_tok l = true /\ length l < 13) /\ good_tok last = true.
Proof.
  induction init as [|l init IH]; intros last H.
  - split; [intros l []|exact H].
  - cbn [app] in H. destruct (init ++ [last]) as [|x xs] eqn:E; [destruct init; discriminate|].
    change (labels_ok (l :: x :: xs)) with (good_tok l && (length l <? 13) && labels_ok (x :: xs)) in H.
    apply andb_true_iff in H. destruct H as [H H2]. apply andb_true_iff in H. destruct H as [Hg Hl].
    apply Nat.ltb_lt in Hl. rewrite <- E in H2. destruct (IH last H2) as [A B]. split; [|exact B].
    intros l0 [Hl0|Hl0]; [subst; split; assumption|apply A; exact Hl0].
Qed.

Definition with_labels (t : wtable) (labels : list text) : wtable :=
  mkWTable (w_title t) labels (w_rows t) (w_lastwide t) (w_repeat t) (w_showlabels t).

Lemma map_last_snoc {A} (f : A -> A) : forall init x, map_last f (init ++ [x]) = init ++ [f x].
Proof.
  induction init as [|a init IH]; intros x; [reflexivity|]. cbn [app]. destruct (init ++ [x]) as [|y ys] eqn:E.
  - destruct init; discriminate.
  - change (map_last f (a :: y :: ys)) with (a :: map_last f (y :: ys)). rewrite <- E, IH. reflexivity.
Qed.

Lemma labels_obj_ok_snoc : forall init last,
    labels_obj_ok (init ++ [last]) = forallb no_obj init && (obj_label last || no_obj last).
Proof.
  induction init as [|a init IH]; intros last; [reflexivity|]. cbn [app forallb].
  destruct (init ++ [last]) as [|y ys] eqn:E; [destruct init; discriminate|].
  change (labels_obj_ok (a :: y :: ys)) with (no_obj a && labels_obj_ok (y :: ys)). rewrite <- E, IH. rewrite andb_assoc. reflexivity.
Qed.

Lemma labels_ok_snoc_intro : forall init last,
    (forall l, In l init -> good_tok l = true /\ length l < 13) -> good_tok last = true ->
    labels_ok (init ++ [last]) = true.
Proof.
  induction init as [|a init IH]; intros last H Hl; [exact Hl|]. cbn [app].
  destruct (init ++ [last]) as [|y ys] eqn:E; [destruct init; discriminate|].
  change (labels_ok (a :: y :: ys)) with (good_tok a && (length a <? 13) && labels_ok (y :: ys)).
  destruct (H a (or_introl eq_refl)) as [A B]. rewrite A. apply Nat.ltb_lt in B. rewrite B. rewrite <- E.
  apply IH; [intros l Hin; apply H; right; exact Hin|exact Hl].
Qed.

Lemma has_dup_snoc : forall init x, has_dup (init ++ [x]) = has_dup init || existsb (fun l => text_eqb l x) init.
Proof.
  induction init as [|a init IH]; intros x; [reflexivity|]. cbn [app has_dup existsb]. rewrite IH.
  rewrite existsb_app'. cbn [existsb]. rewrite orb_false_r.
  destruct (existsb (text_eqb a) init); destruct (text_eqb a x); destruct (has_dup init); destruct (existsb (fun l => text_eqb l x) init); reflexivity.
Qed.

Lemma obj_label_split : forall l, obj_label l = true ->
    exists U, l = U ++ s_OBJ /\ all_upper U = true /\ no_J U = true.
Proof.
  intros l H. unfold obj_label in H. repeat (apply andb_true_iff in H; destruct H as [H ?]).
  exists (firstn (length l - 3) l). repeat split; try assumption.
  apply text_eqb_eq in H2. rewrite <- H2. symmetry. apply firstn_skipn.
Qed.

Lemma exists_last' {A} : forall (l : list A), l <> [] -> exists init x, l = init ++ [x].
Proof. intros l H. destruct (exists_last H) as [init [x E]]. exists init, x. exact E. Qed.

Theorem sub_obj_render_body_lemma : forall t,
    wbody_ok t = true -> labels_obj_ok (w_labels t) = true -> forallb (forallb wstr_no_J) (w_rows t) = true ->
    sub_obj (render_body t) = render_body (with_labels t (labels_as_read SExt (w_labels t))) /\
    wbody_ok (with_labels t (labels_as_read SExt (w_labels t))) = true.
Proof.
  intros t H Hobj Hj. pose proof H as Hwf. unfold wbody_ok in H.
  repeat (apply andb_true_iff in H; destruct H as [H ?]).
  rename H into Hshow, H5 into Hrep, H4 into Hne, H3 into Hlab, H2 into Hdup, H1 into Hrows, H0 into Hcols.
  apply Nat.eqb_eq in Hrep. apply negb_true_iff in Hdup.
  destruct (exists_last' (w_labels t)) as [init [last El]]; [destruct (w_labels t); [discriminate|discriminate]|].
  rewrite El in *.
  rewrite labels_obj_ok_snoc in Hobj. apply andb_true_iff in Hobj. destruct Hobj as [Hinit Hlast].
  destruct (labels_ok_snoc init last Hlab) as [Hgi Hgl].
  assert (Hinit' : forall l, In l init -> no_obj l = true /\ length l < 13).
  { intros l Hin. split; [rewrite forallb_forall in Hinit; apply Hinit; exact Hin|apply Hgi; exact Hin]. }
  assert (Hrowsok : forall r, In r (w_rows t) -> row_ok (w_lastwide t) r = true /\ forallb wstr_no_J r = true).
  { intros r Hin. rewrite forallb_forall in Hrows, Hj. specialize (Hrows r Hin). apply andb_true_iff in Hrows.
    split; [apply Hrows|apply Hj; exact Hin]. }
  set (RT := concat (map (fun r => render_cells (w_lastwide t) r ++ [c_nl]) (w_rows t))).
  assert (HRT : no_J RT = true) by (apply rows_text_no_J; exact Hrowsok).
  assert (Hbody : forall lastl, render_body (with_labels t (init ++ [lastl])) =
                   [] ++ c_sp :: (concat (map (ljust 13) init) ++ lastl ++ c_nl :: RT)).
  { intros lastl. unfold render_body, with_labels. cbn [w_labels w_rows]. rewrite render_rows_simple by exact Hrep.
    cbn [w_lastwide]. fold RT. unfold render_labels. rewrite render_labels_aux_snoc. cbn [app]. rewrite <- !app_assoc. reflexivity. }
  assert (Hbody0 : render_body t = [] ++ c_sp :: (concat (map (ljust 13) init) ++ last ++ c_nl :: RT)).
  { rewrite <- (Hbody last). f_equal. unfold with_labels. rewrite <- El. destruct t; reflexivity. }
  unfold labels_as_read. rewrite map_last_snoc.
  destruct (obj_label last) eqn:Eo.
  - destruct (obj_label_split last Eo) as [U [EU [HU HUj]]].
    split.
    + rewrite Hbody0, Hbody. unfold sub_obj. rewrite sub_obj_piece by reflexivity.
      rewrite sub_obj_label_prefix by exact Hinit'. rewrite EU. rewrite <- app_assoc.
      rewrite sub_obj_at; [reflexivity|exact HU|reflexivity|].
      change (c_nl :: RT) with ([c_nl] ++ RT). rewrite no_J_app, HRT. reflexivity.
    + unfold wbody_ok, with_labels. cbn [w_showlabels w_repeat w_labels w_rows w_lastwide].
      rewrite Hshow, Hrep. cbn [Nat.eqb andb].
      assert (Hne' : match init ++ [s_OBJ] with [] => false | _ :: _ => true end = true) by (destruct init; reflexivity).
      rewrite Hne'. rewrite (labels_ok_snoc_intro init s_OBJ Hgi eq_refl).
      rewrite has_dup_snoc in Hdup |- *. apply orb_false_iff in Hdup. destruct Hdup as [Hd1 _]. rewrite Hd1.
      assert (Hno : existsb (fun l => text_eqb l s_OBJ) init = false).
      { destruct (existsb (fun l => text_eqb l s_OBJ) init) eqn:Ex; [|reflexivity].
        apply existsb_exists in Ex. destruct Ex as [l [Hin Heq]]. apply text_eqb_eq in Heq. subst l.
        rewrite forallb_forall in Hinit. specialize (Hinit _ Hin). discriminate. }
      rewrite Hno. cbn [orb negb andb].
      rewrite !app_length in *. cbn [length] in *. rewrite Hrows, Hcols. reflexivity.
  - cbn [orb] in Hlast.
    assert (Et : with_labels t (init ++ [last]) = t).
    { unfold with_labels. rewrite <- El. destruct t; reflexivity. }
    rewrite Et. split; [|exact Hwf].
    rewrite Hbody0. unfold sub_obj. rewrite sub_obj_piece by reflexivity.
    rewrite sub_obj_label_prefix by exact Hinit'.
    rewrite sub_obj_piece by (try exact Hlast; reflexivity). rewrite sub_obj_no_J by exact HRT. reflexivity.
Qed.

(* ---- the lines of a rendered table ---- *)
Definition addnl (l : text) : text := l ++ [c_nl].
Definition label_line (t : wtable) : text := c_sp :: render_labels_aux (w_labels t).
Definition repeat_here (t : wtable) (i : nat) : bool :=
  w_showlabels t && negb (Nat.eqb (w_repeat t) 0) && negb (Nat.eqb i 0) && Nat.eqb (Nat.modulo i (w_repeat t)) 0.

Fixpoint body_lines (t : wtable) (i : nat) (rows : list (list wnum)) : list text :=
  match rows with
  | [] => []
  | r :: tl => (if repeat_here t i then [label_line t] else []) ++ render_cells (w_lastwide t) r :: body_lines t (S i) tl
  end.

Lemma render_rows_lines : forall t rows i, render_rows t i rows = concat (map addnl (body_lines t i rows)).
Proof.
  intros t. induction rows as [|r rows IH]; intros i; [reflexivity|].
  cbn [render_rows body_lines]. fold (repeat_here t i). rewrite IH.
  destruct (repeat_here t i); cbn [app map concat]; unfold render_labels, render_row, addnl, label_line;
    cbn [app]; rewrite <- ?app_assoc; reflexivity.
Qed.

Lemma render_body_lines : forall t, render_body t = concat (map addnl (label_line t :: body_lines t 0 (w_rows t))).
Proof.
  intros t. unfold render_body. rewrite render_rows_lines. cbn [map concat]. unfold render_labels, addnl, label_line.
  cbn [app]. rewrite <- app_assoc. reflexivity.
Qed.

(* $TABLE files: the repeated label lines are exactly the lines that look like a header *)
Lemma header_like_label : forall t, match w_labels t with l :: _ => starts_alpha l | [] => false end = true ->
    header_like (addnl (label_line t)) = true.
Proof.
  intros t H. unfold label_line, addnl. destruct (w_labels t) as [|l ls]; [discriminate|].
  destruct l as [|c l']; [discriminate|]. cbn [starts_alpha] in H.
  destruct ls as [|l2 ls2]; cbn [render_labels_aux ljust app header_like]; rewrite H; reflexivity.
Qed.

Lemma wnum_text_head : forall w x, wnum_ok w x = true -> is_wstr x = false ->
    exists c tx, wnum_text x = c :: tx /\ (is_digit c = true \/ c = c_minus).
Proof.
  intros w x H Hs. unfold wnum_ok in H. apply andb_true_iff in H. destruct H as [_ H].
  assert (G : forall neg ds rest, all_digits ds = true ->
             exists c tx, sign_text neg ++ ds ++ rest = c :: tx /\ (is_digit c = true \/ c = c_minus)).
  { intros neg ds rest Hd. destruct neg; cbn [sign_text app].
    - eexists; eexists; split; [reflexivity|right; reflexivity].
    - pose proof (all_digits_spec ds Hd) as [Hne Hf]. destruct ds as [|d ds']; [congruence|].
      cbn [forallb] in Hf. apply andb_true_iff in Hf. eexists; eexists; split; [reflexivity|left; apply Hf]. }
  destruct x as [neg ds|neg d6 eneg e2|neg ip fp|t]; [| | |discriminate]; cbn [wnum_text].
  - apply andb_true_iff in H. destruct H as [H _]. rewrite <- (app_nil_r ds). apply G. exact H.
  - repeat (apply andb_true_iff in H; destruct H as [H ?]).
    pose proof (all_digits_spec d6 H) as [Hne Hf]. destruct d6 as [|d d']; [congruence|]. cbn [firstn skipn].
    apply (G neg [d]). cbn [all_digits forallb] in *. apply andb_true_iff in Hf. rewrite (proj1 Hf). reflexivity.
  - apply andb_true_iff in H. destruct H as [H _]. apply G. exact H.
Qed.

Lemma not_header_like_row : forall lw r, row_ok lw r = true -> first_cell_numeric r = true ->
    header_like (addnl (render_cells lw r)) = false.
Proof.
  intros lw r H Hf. destruct r as [|x r']; [discriminate|]. cbn [first_cell_numeric] in Hf. apply negb_true_iff in Hf.
  assert (G : forall w rest, wnum_ok w x = true -> header_like ((rjust w (wnum_text x) ++ rest) ++ [c_nl]) = false).
  { intros w rest Hw. destruct (wnum_ok_good w x Hw) as [Hg Hl].
    destruct (wnum_text_head w x Hw Hf) as [c [tx [Etx Hc]]].
    unfold rjust. destruct (w - length (wnum_text x)) as [|[|k]] eqn:Ek; [lia| |].
    - (* one blank, then the number: its first character is a digit or a sign *)
      rewrite Etx. cbn [spaces repeat app header_like].
      assert (is_alpha c || N.eqb c c_us = false) as ->.
      { unfold is_alpha, is_upper, is_lower, c_us. destruct Hc as [Hc|Hc]; [unfold is_digit in Hc; lia|subst c; reflexivity]. }
      rewrite andb_false_r. reflexivity.
    - cbn [spaces repeat app header_like]. reflexivity. }
  destruct r' as [|y r''].
  - cbn [row_ok render_cells] in *. unfold addnl. rewrite <- (app_nil_r (rjust _ _)). apply G. exact H.
  - remember (y :: r'') as tl eqn:E.
    assert (Hrow : row_ok lw (x :: tl) = wnum_ok 13 x && row_ok lw tl) by (subst tl; reflexivity).
    rewrite Hrow in H. apply andb_true_iff in H. destruct H as [H1 _].
    assert (Hren : render_cells lw (x :: tl) = rjust 13 (wnum_text x) ++ render_cells lw tl) by (subst tl; reflexivity).
    rewrite Hren. unfold addnl. apply G. exact H1.
Qed.

Lemma repeat_here_0 : forall t i, repeat_here (with_repeat t 0) i = false.
Proof. intros t i. unfold repeat_here, with_repeat. cbn [w_repeat w_showlabels Nat.eqb negb]. rewrite andb_false_r. reflexivity. Qed.

Lemma drop_headers_body : forall t,
    match w_labels t with l :: _ => starts_alpha l | [] => false end = true ->
    (forall r, In r (w_rows t) -> row_ok (w_lastwide t) r = true /\ first_cell_numeric r = true) ->
    concat (drop_repeated_headers (map addnl (label_line t :: body_lines t 0 (w_rows t)))) =
    render_body (with_repeat t 0).
Proof.
  intros t Hl Hr. cbn [map drop_repeated_headers concat].
  rewrite (render_body_lines (with_repeat t 0)). cbn [map concat]. f_equal.
  assert (G : forall rows i, (forall r, In r rows -> row_ok (w_lastwide t) r = true /\ first_cell_numeric r = true) ->
             filter (fun l => negb (header_like l)) (map addnl (body_lines t i rows)) =
             map addnl (body_lines (with_repeat t 0) i rows)).
  { induction rows as [|r rows IH]; intros i Hrows; [reflexivity|].
    cbn [body_lines]. rewrite repeat_here_0. cbn [app]. change (w_lastwide (with_repeat t 0)) with (w_lastwide t).
    destruct (Hrows r (or_introl eq_refl)) as [A B].
    destruct (repeat_here t i); cbn [app map filter].
    - rewrite (header_like_label t Hl). cbn [negb]. rewrite (not_header_like_row _ r A B). cbn [negb].
      f_equal. apply IH. intros r0 Hin. apply Hrows. right. exact Hin.
    - rewrite (not_header_like_row _ r A B). cbn [negb].
      f_equal. apply IH. intros r0 Hin. apply Hrows. right. exact Hin. }
  rewrite (G (w_rows t) 0 Hr). reflexivity.
Qed.

(* ---- the title line as a line ---- *)
Lemma clean_digits ds : forallb is_digit ds = true -> clean ds.
Proof.
  intros H. split.
  - induction ds as [|c ds IH]; [reflexivity|]. cbn [forallb] in H. apply andb_true_iff in H. destruct H as [Hc Hd].
    cbn [no_nl forallb]. fold (no_nl ds). rewrite IH by exact Hd. unfold is_digit, c_nl in *. destruct (N.eqb_spec c 10); [lia|reflexivity].
  - induction ds as [|c ds IH]; [reflexivity|]. cbn [forallb] in H. apply andb_true_iff in H. destruct H as [Hc Hd].
    cbn [existsb]. rewrite IH by exact Hd. unfold is_digit, c_cr in *. destruct (N.eqb_spec 13 c); [lia|reflexivity].
Qed.

Lemma clean_no_colon_nl t : no_colon_nl t = true -> clean t.
Proof.
  intros H. split.
  - induction t as [|c t IH]; [reflexivity|]. cbn [no_colon_nl forallb] in H. apply andb_true_iff in H. destruct H as [Hc Ht].
    apply andb_true_iff in Hc. destruct Hc as [Hc Hcr]. apply andb_true_iff in Hc. destruct Hc as [_ Hnl].
    cbn [no_nl forallb]. fold (no_nl t). rewrite (IH Ht), Hnl. reflexivity.
  - induction t as [|c t IH]; [reflexivity|]. cbn [no_colon_nl forallb] in H. apply andb_true_iff in H. destruct H as [Hc Ht].
    apply andb_true_iff in Hc. destruct Hc as [Hc Hcr]. cbn [existsb]. rewrite (IH Ht).
    apply negb_true_iff in Hcr. rewrite N.eqb_sym, Hcr. reflexivity.
Qed.

Lemma clean_design d : forallb is_design_char d = true -> clean d.
Proof.
  intros H. split.
  - induction d as [|c d IH]; [reflexivity|]. cbn [forallb] in H. apply andb_true_iff in H. destruct H as [Hc Hd].
    cbn [no_nl forallb]. fold (no_nl d). rewrite IH by exact Hd.
    unfold is_design_char, is_word, is_alpha, is_upper, is_lower, is_digit, c_us, c_minus, c_nl in *.
    destruct (N.eqb_spec c 10); [subst c; discriminate|reflexivity].
  - induction d as [|c d IH]; [reflexivity|]. cbn [forallb] in H. apply andb_true_iff in H. destruct H as [Hc Hd].
    cbn [existsb]. rewrite IH by exact Hd.
    unfold is_design_char, is_word, is_alpha, is_upper, is_lower, is_digit, c_us, c_minus, c_cr in *.
    destruct (N.eqb_spec 13 c); [subst c; discriminate|reflexivity].
Qed.

Lemma clean_literal t : no_nl t = true -> existsb (N.eqb c_cr) t = false -> clean t.
Proof. intros A B. split; assumption. Qed.

Lemma title_line_shape : forall ti, wtitle_ok ti = true ->
    exists core, render_title ti = core ++ [c_nl] /\ clean core /\ starts_with s_TABLE_NO_dot core = true.
Proof.
  intros ti H. unfold wtitle_ok in H. apply andb_true_iff in H. destruct H as [Hnum H].
  assert (Cn : clean (rjust 5 (wt_number ti))).
  { unfold rjust. apply clean_app; [apply spaces_no_nl|apply clean_digits; apply all_digits_forall; exact Hnum]. }
  assert (Cp : clean (s_TABLE_NO_dot ++ [c_sp])) by (apply clean_literal; reflexivity).
  unfold render_title. destruct (wt_short ti) eqn:Hs.
  - exists (s_TABLE_NO_dot ++ [c_sp] ++ rjust 5 (wt_number ti)). split; [rewrite <- !app_assoc; reflexivity|].
    split; [rewrite app_assoc; apply clean_app; assumption|reflexivity].
  - cbn [orb] in H. repeat (apply andb_true_iff in H; destruct H as [H ?]).
    rename H into Hm, H3 into Hdes, H2 into Hgoal, H1 into Hlen, H0 into Hids.
    apply Nat.eqb_eq in Hlen.
    destruct (wt_ids ti) as [|i0 [|i1 [|i2 [|i3 [|i4 [|i5 [|x xs]]]]]]] eqn:Eids; try discriminate.
    cbn [forallb] in Hids. repeat (apply andb_true_iff in Hids; destruct Hids as [? Hids]).
    cbn [nth].
    exists (s_TABLE_NO_dot ++ [c_sp] ++ rjust 5 (wt_number ti) ++ s_colon_sp ++ wt_method ti ++
            (match wt_design ti with Some d => s_colon_sp ++ d | None => [] end) ++ s_colon_sp ++
            (match wt_goal ti with Some g => s_Goal ++ g ++ s_colon_sp | None => [] end) ++
            s_Problem ++ i0 ++ s_Subproblem ++ i1 ++ s_Superproblem1 ++ i2 ++ s_Iteration1 ++ i3 ++
            s_Superproblem2 ++ i4 ++ s_Iteration2 ++ i5).
    split; [repeat rewrite <- app_assoc; reflexivity|]. split; [|reflexivity].
    assert (Cl : forall l, no_nl l = true -> existsb (N.eqb c_cr) l = false -> clean l) by (intros; split; assumption).
    assert (Cd : forall ds, all_digits ds = true -> clean ds) by (intros ds Hd; apply clean_digits; apply all_digits_forall; exact Hd).
    assert (Cdes : clean (match wt_design ti with Some d => s_colon_sp ++ d | None => [] end)).
    { destruct (wt_design ti) as [d|]; [|split; reflexivity]. apply andb_true_iff in Hdes.
      apply clean_app; [apply Cl; reflexivity|apply clean_design; apply Hdes]. }
    assert (Cgoal : clean (match wt_goal ti with Some g => s_Goal ++ g ++ s_colon_sp | None => [] end)).
    { destruct (wt_goal ti) as [g|]; [|split; reflexivity].
      apply clean_app; [apply Cl; reflexivity|]. apply clean_app; [apply clean_no_colon_nl; exact Hgoal|apply Cl; reflexivity]. }
    assert (Cm : clean (wt_method ti)) by (apply clean_no_colon_nl; exact Hm).
    repeat (apply clean_app; [first [exact Cn | exact Cdes | exact Cgoal | exact Cm | apply Cl; reflexivity | apply Cd; assumption]|]).
    apply Cd. assumption.
Qed.

(* ---- lines of the rendered file and its tables ---- *)
Lemma lines_addnl : forall l rest, no_nl l = true -> lines (addnl l ++ rest) = addnl l :: lines rest.
Proof.
  induction l as [|c l IH]; intros rest H; [reflexivity|].
  cbn [no_nl forallb] in H. apply andb_true_iff in H. destruct H as [Hc Hl]. apply negb_true_iff in Hc.
  unfold addnl in *. cbn [app lines]. rewrite Hc. rewrite IH by exact Hl. reflexivity.
Qed.

Lemma lines_concat_addnl : forall ls rest, forallb no_nl ls = true ->
    lines (concat (map addnl ls) ++ rest) = map addnl ls ++ lines rest.
Proof.
  induction ls as [|l ls IH]; intros rest H; [reflexivity|].
  cbn [forallb] in H. apply andb_true_iff in H. destruct H as [Hl Hls].
  cbn [map concat]. rewrite <- app_assoc. rewrite lines_addnl by exact Hl. rewrite IH by exact Hls. reflexivity.
Qed.

Lemma split_from_nontable : forall Ls cur rest, Forall (fun x => is_table_line x = false) Ls ->
    split_from cur (Ls ++ rest) = split_from (cur ++ Ls) rest.
Proof.
  induction Ls as [|l Ls IH]; intros cur rest H; [rewrite app_nil_r; reflexivity|].
  inversion H as [|? ? Hl HLs]. subst. cbn [app split_from]. rewrite Hl. rewrite IH by exact HLs.
  rewrite <- app_assoc. reflexivity.
Qed.

Definition group_ok (g : list text) : Prop :=
  exists T Ls, g = T :: Ls /\ is_table_line T = true /\ Forall (fun x => is_table_line x = false) Ls.

Lemma split_from_groups : forall groups cur, Forall group_ok groups -> cur <> [] ->
    split_from cur (concat groups) = cur :: groups.
Proof.
  induction groups as [|g gs IH]; intros cur H Hc.
  - reflexivity.
  - inversion H as [|? ? [T [Ls [Eg [HT HL]]]] Hgs]. subst. cbn [concat app split_from]. rewrite HT.
    destruct cur as [|c0 cur']; [congruence|]. f_equal.
    rewrite split_from_nontable by exact HL. apply IH; [exact Hgs|discriminate].
Qed.

Lemma split_tables_groups : forall groups, groups <> [] -> Forall group_ok groups -> split_tables (concat groups) = groups.
Proof.
  intros [|g gs] Hne H; [congruence|]. inversion H as [|? ? [T [Ls [Eg [HT HL]]]] Hgs]. subst.
  unfold split_tables. cbn [concat app split_from]. rewrite HT.
  rewrite split_from_nontable by exact HL. apply split_from_groups; [exact Hgs|discriminate].
Qed.

(* ================================================================================================ *)
(** * the run's parameter estimates: designated row, fixed parameters dropped, model names *)

Lemma texts_eqb_refl : forall l, texts_eqb l l = true.
Proof. induction l as [|x l IH]; [reflexivity|]. cbn [texts_eqb]. rewrite text_eqb_refl. exact IH. Qed.

Lemma combine_all_nan : forall (names : list text) (vals : list cell),
    forallb is_nan vals = true -> forallb (fun nc => is_nan (snd nc)) (combine names vals) = true.
Proof.
  induction names as [|n names IH]; intros vals H; [reflexivity|]. destruct vals as [|v vals]; [reflexivity|].
  cbn [forallb] in H. apply andb_true_iff in H. destruct H as [Hv Hvs]. cbn [combine forallb snd]. rewrite Hv. apply IH. exact Hvs.
Qed.

Definition fixed_names_of (fx : list (text * bool)) (pcols : list text) : list text :=
  filter (fun n => match blookup fx n with Some b => b | None => false end) pcols.

Theorem pe_designated_lemma : forall t g pfix nm fpe cols rows sd,
    design_of t = None -> ext_data_frame (tb_frame t) = ROk g ->
    g_final_obj_eq_last g = true ->
    parse_parameter_estimates [t] pfix nm = ROk (fpe, cols, rows, sd) ->
    exists fx,
      get_fixed_parameters g pfix nm = ROk fx /\
      ((exists fe, final_parameter_estimates g = ROk fe /\
                   fpe = map (fun nc => (rename_with nm (fst nc), snd nc))
                             (drop_names (fixed_names_of fx (drop_first_last (f_cols g))) fe))
       \/ forallb (fun nc => is_nan (snd nc)) fpe = true).
Proof.
  intros t g pfix nm fpe cols rows sd Hd Hg HF H.
  unfold parse_parameter_estimates, est_tables in H. cbn [number_from filter snd] in H. rewrite Hd in H.
  cbn [rmap rbind fst snd] in H. unfold iter_frame in H. rewrite Hg in H. cbn [rbind] in H.
  destruct (has_str (col_cells g s_OBJ)); [discriminate|].
  rewrite (iter_df_printed_iterations g HF) in H. cbn [rbind fst snd] in H.
  destruct (get_fixed_parameters g pfix nm) as [fx|k|] eqn:Efx; cbn [rbind] in H; try discriminate.
  exists fx. split; [reflexivity|].
  cbn [last_opt map existsb orb f_cols f_rows] in H.
  set (pcols := drop_first_last (f_cols g)) in *.
  destruct (existsb (fun n => match blookup fx n with None => true | Some _ => false end) pcols || false); [discriminate|].
  cbn [forallb andb] in H. rewrite texts_eqb_refl in H. cbn [negb andb flat_map app] in H. rewrite app_nil_r in H.
  fold (fixed_names_of fx pcols) in H.
  set (keep := map (fun c => negb (existsb (text_eqb c) (fixed_names_of fx pcols))) pcols) in *.
  destruct (has_dup (map (rename_with nm) (keep_mask keep pcols))); [discriminate|].
  match type of H with context [last_opt ?x] => destruct (last_opt x) as [[[k1 it1] lastvals]|] eqn:EL end; [|discriminate].
  destruct (forallb is_nan lastvals) eqn:Enan.
  - (* the last printed iteration carries no value: NaN is reported *)
    right. cbn [rbind] in H.
    destruct (omega_sigma_stdcorr g) as [sdv|k|]; try discriminate;
      [|destruct k as [|p]; try discriminate; do 2 (destruct p; try discriminate)]; inversion H; subst.
    + apply combine_all_nan. exact Enan.
    + apply combine_all_nan. exact Enan.
  - left. destruct (final_parameter_estimates g) as [fe|k|] eqn:Efe; cbn [rbind] in H; try discriminate.
    destruct (negb (forallb (fun n => existsb (fun nc => text_eqb (fst nc) n) fe) (fixed_names_of fx pcols))); cbn [rbind] in H; [discriminate|].
    exists fe. split; [reflexivity|].
    destruct (omega_sigma_stdcorr g) as [sdv|k|]; try discriminate;
      [|destruct k as [|p]; try discriminate; do 2 (destruct p; try discriminate)]; inversion H; reflexivity.
Qed.

(* ---- the lines of one table: title, label line (unless NOLABEL / NOHEADER), records ---- *)
Definition blines (t : wtable) : list text :=
  (if w_showlabels t then [label_line t] else []) ++ body_lines t 0 (w_rows t).
Definition tll (t : wtable) (core : text) : list text := core :: blines t.

Lemma body_lines_In : forall t rows i l, In l (body_lines t i rows) ->
    (w_showlabels t = true /\ l = label_line t) \/ exists r, In r rows /\ l = render_cells (w_lastwide t) r.
Proof.
  intros t. induction rows as [|r rows IH]; intros i l H; [contradiction|].
  cbn [body_lines] in H. apply in_app_or in H. destruct H as [H|H].
  - destruct (repeat_here t i) eqn:E; [|contradiction]. destruct H as [H|[]]. left. split; [|symmetry; exact H].
    unfold repeat_here in E. destruct (w_showlabels t); [reflexivity|discriminate].
  - destruct H as [H|H].
    + right. exists r. split; [left; reflexivity|symmetry; exact H].
    + destruct (IH (S i) l H) as [A|[r0 [A B]]]; [left; exact A|right; exists r0; split; [right; exact A|exact B]].
Qed.

Lemma space_line_not_table : forall l, space_start l -> is_table_line (addnl l) = false.
Proof. intros l [r E]. subst l. reflexivity. Qed.

Lemma wbody_parts : forall t, wbody_ok t = true ->
    w_showlabels t = true /\ w_repeat t = 0 /\ w_labels t <> [] /\ labels_ok (w_labels t) = true /\
    (forall r, In r (w_rows t) -> length r = length (w_labels t) /\ row_ok (w_lastwide t) r = true).
Proof.
  intros t H. unfold wbody_ok in H. repeat (apply andb_true_iff in H; destruct H as [H ?]).
  apply Nat.eqb_eq in H5. repeat split; try assumption.
  - destruct (w_labels t); [discriminate|discriminate].
  - rewrite forallb_forall in H1. specialize (H1 r H6). apply andb_true_iff in H1. apply Nat.eqb_eq. apply H1.
  - rewrite forallb_forall in H1. specialize (H1 r H6). apply andb_true_iff in H1. apply H1.
Qed.

Lemma wrows_parts : forall t, wrows_ok t = true ->
    w_showlabels t = false /\ w_labels t <> [] /\ w_rows t <> [] /\
    (forall r, In r (w_rows t) -> length r = length (w_labels t) /\ row_ok (w_lastwide t) r = true) /\
    forallb (col_homogeneous (w_rows t)) (seq 0 (length (w_labels t))) = true.
Proof.
  intros t H. unfold wrows_ok in H. repeat (apply andb_true_iff in H; destruct H as [H ?]).
  apply negb_true_iff in H. repeat split; try assumption.
  - destruct (w_labels t); [discriminate|discriminate].
  - destruct (w_rows t); [discriminate|discriminate].
  - rewrite forallb_forall in H1. specialize (H1 r H4). apply andb_true_iff in H1. apply Nat.eqb_eq. apply H1.
  - rewrite forallb_forall in H1. specialize (H1 r H4). apply andb_true_iff in H1. apply H1.
Qed.

(* what every well-formed body provides, with or without label line *)
Lemma body_facts : forall sfx nolabel t, wtable_body_ok sfx nolabel t = true ->
    w_showlabels t = negb (nolabel_effective sfx nolabel) /\ w_labels t <> [] /\
    (w_showlabels t = true -> labels_ok (w_labels t) = true) /\
    (forall r, In r (w_rows t) -> length r = length (w_labels t) /\ row_ok (w_lastwide t) r = true).
Proof.
  intros sfx nolabel t H. unfold wtable_body_ok in H.
  assert (G : wbody_ok (with_repeat t 0) = true ->
              w_showlabels t = true /\ w_labels t <> [] /\ (w_showlabels t = true -> labels_ok (w_labels t) = true) /\
              (forall r, In r (w_rows t) -> length r = length (w_labels t) /\ row_ok (w_lastwide t) r = true)).
  { intros Hb. destruct (wbody_parts _ Hb) as [A [_ [B [C D]]]].
    cbn [with_repeat w_showlabels w_labels w_rows w_lastwide] in A, B, C, D. repeat split; try assumption.
    - intros _. exact C.
    - apply D. exact H0.
    - apply D. exact H0. }
  destruct sfx; cbn [nolabel_effective negb].
  1-3: apply andb_true_iff in H; destruct H as [H _]; apply andb_true_iff in H; destruct H as [H _];
    apply andb_true_iff in H; destruct H as [H _]; apply (G H).
  apply andb_true_iff in H. destruct H as [H _]. destruct nolabel; cbn [negb].
  - destruct (wrows_parts t H) as [A [B [_ [D _]]]]. repeat split; try assumption.
    + intros E. rewrite A in E. discriminate.
    + apply D. exact H0.
    + apply D. exact H0.
  - apply andb_true_iff in H. destruct H as [H _]. apply (G H).
Qed.

(* no character on which str.splitlines would break a line *)
Definition nosep (l : text) : bool := forallb (fun c => negb (is_splitlines_sep c)) l.
Lemma nosep_app a b : nosep (a ++ b) = nosep a && nosep b.
Proof. apply forallb_app'. Qed.
Lemma nosep_spaces k : nosep (spaces k) = true.
Proof. induction k as [|k IH]; [reflexivity|]. cbn [spaces repeat]. unfold nosep in *. cbn [forallb]. exact IH. Qed.
Lemma good_tok_nosep t : good_tok t = true -> nosep t = true.
Proof.
  destruct t as [|c0 t0]; [discriminate|]. cbn [good_tok]. generalize (c0 :: t0). clear.
  induction l as [|c t IH]; intros H; [reflexivity|]. cbn [forallb] in H. apply andb_true_iff in H. destruct H as [Hc Ht].
  unfold nosep. cbn [forallb]. fold (nosep t). rewrite (IH Ht). unfold tokchar in Hc. apply andb_true_iff in Hc.
  destruct Hc as [_ Hc]. rewrite Hc. reflexivity.
Qed.
Lemma nosep_clean l : nosep l = true -> clean l.
Proof.
  intros H. split.
  - induction l as [|c l IH]; [reflexivity|]. unfold nosep in H. cbn [forallb] in H. apply andb_true_iff in H. destruct H as [Hc Hl].
    cbn [no_nl forallb]. fold (no_nl l). rewrite (IH Hl). unfold is_splitlines_sep, c_nl in *. destruct (N.eqb_spec c 10); [subst c; discriminate|reflexivity].
  - induction l as [|c l IH]; [reflexivity|]. unfold nosep in H. cbn [forallb] in H. apply andb_true_iff in H. destruct H as [Hc Hl].
    cbn [existsb]. rewrite (IH Hl). unfold is_splitlines_sep, c_cr in *. destruct (N.eqb_spec 13 c); [subst c; discriminate|reflexivity].
Qed.

Lemma render_cells_nosep : forall lw cells, row_ok lw cells = true -> nosep (render_cells lw cells) = true.
Proof.
  intros lw. induction cells as [|c tl IH]; intros H; [reflexivity|].
  destruct tl as [|c2 tl2].
  - cbn [row_ok render_cells] in *. unfold rjust. rewrite nosep_app, nosep_spaces.
    apply good_tok_nosep. apply (wnum_ok_good _ c H).
  - remember (c2 :: tl2) as tl eqn:E.
    assert (Hrow : row_ok lw (c :: tl) = wnum_ok 13 c && row_ok lw tl) by (subst tl; reflexivity).
    rewrite Hrow in H. apply andb_true_iff in H. destruct H as [H1 H2].
    assert (Hren : render_cells lw (c :: tl) = rjust 13 (wnum_text c) ++ render_cells lw tl) by (subst tl; reflexivity).
    rewrite Hren. unfold rjust. rewrite !nosep_app, nosep_spaces, (IH H2).
    rewrite (good_tok_nosep _ (proj1 (wnum_ok_good _ c H1))). reflexivity.
Qed.

Lemma render_labels_nosep : forall labels, labels_ok labels = true -> nosep (render_labels_aux labels) = true.
Proof.
  induction labels as [|l tl IH]; intros H; [reflexivity|].
  destruct tl as [|l2 tl2].
  - cbn [labels_ok render_labels_aux] in *. apply good_tok_nosep. exact H.
  - remember (l2 :: tl2) as tl eqn:Etl.
    assert (Hl : labels_ok (l :: tl) = good_tok l && (length l <? 13) && labels_ok tl) by (subst tl; reflexivity).
    rewrite Hl in H. apply andb_true_iff in H. destruct H as [H Htl]. apply andb_true_iff in H. destruct H as [Hg _].
    assert (Hren : render_labels_aux (l :: tl) = ljust 13 l ++ render_labels_aux tl) by (subst tl; reflexivity).
    rewrite Hren. unfold ljust. rewrite !nosep_app, nosep_spaces, (IH Htl), (good_tok_nosep _ Hg). reflexivity.
Qed.

Lemma table_lines_facts : forall sfx nolabel t, wtable_body_ok sfx nolabel t = true ->
    (if w_showlabels t then render_labels (w_labels t) else []) ++ render_rows t 0 (w_rows t) = concat (map addnl (blines t)) /\
    (forall l, In l (blines t) -> nosep l = true /\ space_start l).
Proof.
  intros sfx nolabel t H. destruct (body_facts sfx nolabel t H) as [_ [Hne [Hlab Hrows]]].
  assert (Hll : w_showlabels t = true -> nosep (label_line t) = true /\ space_start (label_line t)).
  { intros Hs. split; [|unfold label_line; eexists; reflexivity].
    unfold label_line. change (c_sp :: render_labels_aux (w_labels t)) with ([c_sp] ++ render_labels_aux (w_labels t)).
    rewrite nosep_app, (render_labels_nosep _ (Hlab Hs)). reflexivity. }
  split.
  - unfold blines. rewrite render_rows_lines. destruct (w_showlabels t); [|reflexivity].
    cbn [app map concat]. unfold render_labels, addnl, label_line. cbn [app]. rewrite <- !app_assoc. reflexivity.
  - intros l Hin. unfold blines in Hin. apply in_app_or in Hin. destruct Hin as [Hin|Hin].
    + destruct (w_showlabels t) eqn:Es; [|contradiction]. destruct Hin as [E|[]]. subst l. apply Hll. reflexivity.
    + destruct (body_lines_In t _ _ l Hin) as [[Hs A]|[r [A B]]].
      * subst l. apply Hll. exact Hs.
      * subst l. destruct (Hrows r A) as [Hlen Hok]. split; [apply render_cells_nosep; exact Hok|].
        destruct (render_cells_tokens (w_lastwide t) r Hok) as [_ [_ S]]. apply S.
        intro E. subst r. cbn in Hlen. destruct (w_labels t); [congruence|discriminate].
Qed.

Lemma table_structure : forall sfx nolabel t, wtable_ok sfx nolabel t = true ->
    exists ti core, w_title t = Some ti /\ wtitle_ok ti = true /\ render_title ti = addnl core /\
      render_wtable t = concat (map addnl (tll t core)) /\
      (forall l, In l (tll t core) -> clean l) /\
      group_ok (map addnl (tll t core)).
Proof.
  intros sfx nolabel t H. unfold wtable_ok in H. apply andb_true_iff in H. destruct H as [Ht Hb].
  destruct (w_title t) as [ti|] eqn:Eti; [|discriminate].
  destruct (title_line_shape ti Ht) as [core [Ec [Cc Sc]]].
  destruct (table_lines_facts sfx nolabel t Hb) as [Er Hbl].
  exists ti, core. split; [reflexivity|]. split; [exact Ht|]. split; [exact Ec|].
  split; [|split].
  - unfold render_wtable. rewrite Eti, Ec. unfold tll. cbn [map concat]. rewrite <- Er. reflexivity.
  - intros l [E|Hin]; [subst l; exact Cc|apply nosep_clean; apply Hbl; exact Hin].
  - unfold group_ok, tll. cbn [map]. eexists; eexists. split; [reflexivity|]. split.
    + unfold is_table_line, addnl. clear - Sc. revert Sc. generalize s_TABLE_NO_dot. intros p. revert core.
      induction p as [|a p IH]; intros core Sc; [reflexivity|]. destruct core as [|c core]; [discriminate|].
      cbn [starts_with app] in *. apply andb_true_iff in Sc. destruct Sc as [A B]. rewrite A. apply IH. exact B.
    + apply Forall_forall. intros l Hin. apply in_map_iff in Hin. destruct Hin as [l0 [E Hin]]. subst l.
      apply space_line_not_table. apply Hbl. exact Hin.
Qed.

Lemma with_repeat_same : forall t, w_repeat t = 0 -> with_repeat t 0 = t.
Proof. intros t H. unfold with_repeat. rewrite <- H. destruct t; reflexivity. Qed.

Lemma frame_of_with_labels : forall t labels,
    frame_of_wtable (with_labels t labels) = mkFrame labels (number_from 0 (map (map wcell) (w_rows t))).
Proof. reflexivity. Qed.

Lemma body_lines_noshow : forall t rows i, w_showlabels t = false ->
    body_lines t i rows = map (render_cells (w_lastwide t)) rows.
Proof.
  intros t rows. induction rows as [|r rows IH]; intros i H; [reflexivity|].
  cbn [body_lines map]. unfold repeat_here. rewrite H. cbn [andb app]. rewrite IH by exact H. reflexivity.
Qed.

Lemma records_rows : forall lw rows,
    (forall r, In r rows -> r <> [] /\ row_ok lw r = true) ->
    records (concat (map addnl (map (render_cells lw) rows))) = map (map wnum_text) rows.
Proof.
  intros lw rows H. unfold records, addnl. rewrite records_lines.
  - rewrite map_app, filter_app. cbn [map filter tokens]. rewrite app_nil_r. rewrite map_map.
    induction rows as [|r rows IH]; [reflexivity|]. cbn [map filter].
    destruct (H r (or_introl eq_refl)) as [Hne Hok]. destruct (render_cells_tokens lw r Hok) as [Ht _]. rewrite Ht.
    destruct r as [|c r']; [congruence|]. cbn [map]. f_equal. apply IH. intros r0 Hin. apply H. right. exact Hin.
  - apply forallb_forall. intros l Hin. apply in_map_iff in Hin. destruct Hin as [r [E Hin]]. subst l.
    destruct (H r Hin) as [_ Hok]. destruct (render_cells_tokens lw r Hok) as [_ [[A _] _]]. exact A.
Qed.

Lemma filter_all {A} (p : A -> bool) : forall l, (forall x, In x l -> p x = true) -> filter p l = l.
Proof.
  induction l as [|x l IH]; intros H; [reflexivity|]. cbn [filter]. rewrite (H x) by (left; reflexivity).
  rewrite IH by (intros y Hy; apply H; right; exact Hy). reflexivity.
Qed.

(* a body without label line, read with nolabel *)
Lemma read_nolabel_body : forall t, wrows_ok t = true -> forallb first_cell_numeric (w_rows t) = true ->
    read_frame_nolabel (concat (drop_repeated_headers (map addnl (blines t)))) = ROk (frame_of_wtable_nolabel t).
Proof.
  intros t H Hf. destruct (wrows_parts t H) as [Hs [Hne [Hnr [Hrows Hcols]]]].
  unfold blines. rewrite Hs. cbn [app]. rewrite body_lines_noshow by exact Hs.
  set (lw := w_lastwide t). set (rows := w_rows t) in *.
  assert (Hrows' : forall r, In r rows -> r <> [] /\ row_ok lw r = true).
  { intros r Hin. destruct (Hrows r Hin) as [A B]. split; [|exact B]. intro E. subst r. cbn in A. destruct (w_labels t); [congruence|discriminate]. }
  assert (Hd : drop_repeated_headers (map addnl (map (render_cells lw) rows)) = map addnl (map (render_cells lw) rows)).
  { destruct rows as [|r0 rest]; [reflexivity|]. cbn [map drop_repeated_headers]. f_equal.
    apply filter_all. intros l Hin. apply in_map_iff in Hin. destruct Hin as [l0 [E Hin]]. subst l.
    apply in_map_iff in Hin. destruct Hin as [r [E Hin]]. subst l0.
    rewrite (not_header_like_row lw r); [reflexivity|apply Hrows; right; exact Hin|].
    rewrite forallb_forall in Hf. apply Hf. right. exact Hin. }
  rewrite Hd. unfold read_frame_nolabel. rewrite (records_rows lw rows Hrows').
  destruct rows as [|r0 rest] eqn:Er; [congruence|]. cbn [map].
  change (map wnum_text r0 :: map (map wnum_text) rest) with (map (map wnum_text) (r0 :: rest)).
  rewrite map_length. destruct (Hrows r0 (or_introl eq_refl)) as [Hl0 _]. rewrite Hl0.
  unfold frame_of_wtable_nolabel. fold rows. rewrite Er.
  apply (frame_of_records_render _ lw (r0 :: rest)).
  - intros r Hin. rewrite map_length, seq_length. apply Hrows. exact Hin.
  - rewrite map_length, seq_length. exact Hcols.
Qed.

Theorem parse_table_body_lemma : forall sfx nolabel t,
    wtable_body_ok sfx nolabel t = true ->
    (match sfx with
     | SOther => (if nolabel then read_frame_nolabel else read_frame) (concat (drop_repeated_headers (map addnl (blines t))))
     | _ => read_frame (sub_obj (concat (map addnl (blines t))))
     end) = ROk (frame_as_read sfx nolabel t).
Proof.
  intros sfx nolabel t H. pose proof (body_facts sfx nolabel t H) as [Hshow _].
  unfold wtable_body_ok in H. unfold frame_as_read.
  assert (Hlab : forall s, nolabel_effective s nolabel = false -> w_showlabels t = negb (nolabel_effective s nolabel) ->
                 concat (map addnl (blines t)) = render_body t /\ blines t = label_line t :: body_lines t 0 (w_rows t)).
  { intros s E Hs. rewrite E in Hs. cbn [negb] in Hs. unfold blines. rewrite Hs. cbn [app]. split; [|reflexivity].
    symmetry. apply render_body_lines. }
  destruct sfx; cbn [nolabel_effective] in *.
  1-3: apply andb_true_iff in H; destruct H as [H Hj]; apply andb_true_iff in H; destruct H as [H Hobj];
    apply andb_true_iff in H; destruct H as [Hb Hrep]; apply Nat.eqb_eq in Hrep;
    rewrite (with_repeat_same t Hrep) in Hb;
    destruct (Hlab SExt eq_refl Hshow) as [E _]; rewrite E;
    destruct (sub_obj_render_body_lemma t Hb Hobj Hj) as [E2 W]; rewrite E2;
    rewrite (read_frame_render_lemma _ W); rewrite frame_of_with_labels; reflexivity.
  apply andb_true_iff in H. destruct H as [H Hf]. destruct nolabel.
  - apply read_nolabel_body; assumption.
  - apply andb_true_iff in H. destruct H as [Hb Hl].
    destruct (Hlab SOther eq_refl Hshow) as [_ E]. rewrite E.
    destruct (wbody_parts _ Hb) as [_ [_ [_ [_ Hrows]]]].
    cbn [with_repeat w_labels w_rows w_lastwide] in Hrows.
    change (map addnl (label_line t :: body_lines t 0 (w_rows t))) with (map addnl (label_line t :: body_lines t 0 (w_rows t))).
    rewrite (drop_headers_body t Hl).
    + rewrite (read_frame_render_lemma _ Hb). reflexivity.
    + intros r Hin. split; [apply Hrows; exact Hin|]. rewrite forallb_forall in Hf. apply Hf. exact Hin.
Qed.

Theorem parse_table_render_lemma : forall sfx nolabel t ti core,
    wtable_ok sfx nolabel t = true -> w_title t = Some ti -> render_title ti = addnl core ->
    parse_table sfx false nolabel (map addnl (tll t core)) = ROk (table_of_wtable sfx nolabel t).
Proof.
  intros sfx nolabel t ti core H Eti Ec. unfold wtable_ok in H. rewrite Eti in H.
  apply andb_true_iff in H. destruct H as [Ht Hb].
  unfold parse_table, tll. cbn [map]. rewrite <- Ec. rewrite (parse_title_render_lemma ti Ht).
  unfold table_of_wtable. rewrite Eti. cbn [option_map].
  pose proof (parse_table_body_lemma sfx nolabel t Hb) as E.
  destruct sfx; rewrite E; reflexivity.
Qed.

Lemma sequence_map_ok {A B} (f : A -> rres B) (g : A -> B) : forall l,
    (forall x, In x l -> f x = ROk (g x)) -> sequence (map f l) = ROk (map g l).
Proof.
  induction l as [|x l IH]; intros H; [reflexivity|]. cbn [map sequence].
  rewrite (H x) by (left; reflexivity). rewrite IH by (intros y Hy; apply H; right; exact Hy). reflexivity.
Qed.

Lemma clean_concat_addnl : forall ls, (forall l, In l ls -> clean l) ->
    existsb (N.eqb c_cr) (concat (map addnl ls)) = false /\ forallb no_nl ls = true.
Proof.
  induction ls as [|l ls IH]; intros H; [split; reflexivity|].
  destruct (H l (or_introl eq_refl)) as [A B]. destruct IH as [I1 I2]; [intros l0 Hl0; apply H; right; exact Hl0|].
  cbn [map concat forallb]. rewrite existsb_app', I1, A, I2. unfold addnl. rewrite existsb_app', B. split; reflexivity.
Qed.

Lemma file_structure : forall sfx nolabel ws, wfile_ok sfx nolabel ws = true ->
    exists groups, groups <> [] /\ Forall group_ok groups /\
      existsb (N.eqb c_cr) (render_wfile ws) = false /\ lines (render_wfile ws) = concat groups /\
      sequence (map (parse_table sfx false nolabel) groups) = ROk (map (table_of_wtable sfx nolabel) ws).
Proof.
  intros sfx nolabel ws H. unfold wfile_ok in H. destruct ws as [|w0 ws0] eqn:Ews; [discriminate|]. rewrite <- Ews in *.
  assert (Hall : forall t, In t ws -> wtable_ok sfx nolabel t = true) by (apply forallb_forall; exact H).
  assert (Hstruct : forall t, In t ws -> exists g, render_wtable t = concat g /\ group_ok g /\
             existsb (N.eqb c_cr) (concat g) = false /\ (forall rest, lines (concat g ++ rest) = g ++ lines rest) /\
             parse_table sfx false nolabel g = ROk (table_of_wtable sfx nolabel t)).
  { intros t Hin. destruct (table_structure sfx nolabel t (Hall t Hin)) as [ti [core [Eti [Hti [Ec [Er [Hc Hg]]]]]]].
    exists (map addnl (tll t core)). destruct (clean_concat_addnl _ Hc) as [C1 C2].
    split; [exact Er|]. split; [exact Hg|]. split; [exact C1|]. split.
    - intros rest. apply lines_concat_addnl. exact C2.
    - apply (parse_table_render_lemma sfx nolabel t ti core (Hall t Hin) Eti Ec). }
  assert (Hfile : exists groups, Forall group_ok groups /\ length groups = length ws /\
             existsb (N.eqb c_cr) (render_wfile ws) = false /\ lines (render_wfile ws) = concat groups /\
             sequence (map (parse_table sfx false nolabel) groups) = ROk (map (table_of_wtable sfx nolabel) ws)).
  { clear H Ews w0 ws0 Hall. induction ws as [|t ws IH].
    - exists []. repeat split; try reflexivity. constructor.
    - destruct (Hstruct t (or_introl eq_refl)) as [g [Er [Hg [Hc [Hl Hp]]]]].
      destruct IH as [gs [E2 [E3 [E4 [E5 E6]]]]]; [intros t0 Ht0; apply Hstruct; right; exact Ht0|].
      exists (g :: gs). unfold render_wfile in *. cbn [map concat length]. rewrite Er.
      split; [constructor; assumption|]. split; [rewrite E3; reflexivity|].
      split; [rewrite existsb_app', Hc, E4; reflexivity|].
      split; [rewrite Hl, E5; reflexivity|].
      cbn [sequence]. rewrite Hp, E6. reflexivity. }
  destruct Hfile as [groups [G1 [G2 [G3 [G4 G5]]]]]. exists groups. split.
  - intro E. subst groups. rewrite Ews in G2. discriminate.
  - repeat split; assumption.
Qed.

Lemma group_lines_nonempty : forall groups, groups <> [] -> Forall group_ok groups -> concat groups <> [].
Proof.
  intros [|g gs] Hne H; [congruence|]. inversion H as [|? ? [T [Ls [Eg _]]] _]. subst. discriminate.
Qed.

Theorem parse_render_file_lemma : forall sfx nolabel ws, wfile_ok sfx nolabel ws = true ->
    read_table_file sfx false nolabel (render_wfile ws) = ROk (map (table_of_wtable sfx nolabel) ws).
Proof.
  intros sfx nolabel ws H. destruct (file_structure sfx nolabel ws H) as [groups [Hne [G1 [G3 [G4 G5]]]]].
  unfold read_table_file. destruct (render_wfile ws) as [|c0 txt] eqn:Et.
  - exfalso. cbn [lines] in G4. apply (group_lines_nonempty groups Hne G1). symmetry. exact G4.
  - rewrite <- Et in *. rewrite universal_newlines_id by exact G3. rewrite G4.
    rewrite split_tables_groups; [exact G5|exact Hne|exact G1].
Qed.

Lemma universal_newlines_crlf : forall t, existsb (N.eqb c_cr) t = false -> universal_newlines (crlf t) = t.
Proof.
  induction t as [|c t IH]; intros H; [reflexivity|].
  cbn [existsb] in H. apply orb_false_iff in H. destruct H as [Hc Ht].
  unfold crlf. cbn [flat_map]. fold (crlf t). destruct (N.eqb_spec c c_nl) as [E|E].
  - subst c. cbn [app universal_newlines]. rewrite N.eqb_refl. cbn [N.eqb c_nl c_cr Pos.eqb]. rewrite IH by exact Ht. reflexivity.
  - cbn [app universal_newlines]. rewrite N.eqb_sym in Hc. rewrite Hc. rewrite IH by exact Ht. reflexivity.
Qed.

Theorem parse_render_crlf_lemma : forall sfx nolabel ws, wfile_ok sfx nolabel ws = true ->
    read_table_file sfx false nolabel (crlf (render_wfile ws)) = ROk (map (table_of_wtable sfx nolabel) ws).
Proof.
  intros sfx nolabel ws H. destruct (file_structure sfx nolabel ws H) as [groups [Hne [G1 [G3 [G4 G5]]]]].
  unfold read_table_file. destruct (crlf (render_wfile ws)) as [|c0 txt] eqn:Et.
  - exfalso. destruct (render_wfile ws) as [|c t] eqn:Er.
    + cbn [lines] in G4. apply (group_lines_nonempty groups Hne G1). symmetry. exact G4.
    + unfold crlf in Et. cbn [flat_map] in Et. destruct (N.eqb c c_nl); discriminate.
  - rewrite <- Et. rewrite universal_newlines_crlf by exact G3. rewrite G4.
    rewrite split_tables_groups; [exact G5|exact Hne|exact G1].
Qed.

(* ---- $TABLE ... NOTITLE / NOHEADER: one table without title line, read with notitle ---- *)
Lemma splitlines_addnl : forall l rest, nosep l = true -> splitlines (addnl l ++ rest) = addnl l :: splitlines rest.
Proof.
  induction l as [|c l IH]; intros rest H; [reflexivity|].
  unfold nosep in H. cbn [forallb] in H. apply andb_true_iff in H. destruct H as [Hc Hl]. apply negb_true_iff in Hc.
  unfold addnl in *. cbn [app splitlines]. rewrite Hc. rewrite IH by exact Hl. reflexivity.
Qed.

Lemma splitlines_concat_addnl : forall ls, forallb nosep ls = true -> splitlines (concat (map addnl ls)) = map addnl ls.
Proof.
  induction ls as [|l ls IH]; intros H; [reflexivity|].
  cbn [forallb] in H. apply andb_true_iff in H. destruct H as [Hl Hls].
  cbn [map concat]. rewrite splitlines_addnl by exact Hl. rewrite IH by exact Hls. reflexivity.
Qed.

Theorem parse_render_notitle_lemma : forall sfx nolabel t, wtable_notitle_ok nolabel t = true ->
    read_table_file sfx true nolabel (render_wtable t) = ROk [mkTable None (frame_as_read SOther nolabel t)].
Proof.
  intros sfx nolabel t H. unfold wtable_notitle_ok in H. apply andb_true_iff in H. destruct H as [Ht Hb].
  destruct (w_title t) as [ti|] eqn:Eti; [discriminate|].
  destruct (table_lines_facts SOther nolabel t Hb) as [Er Hbl].
  assert (Etext : render_wtable t = concat (map addnl (blines t))).
  { unfold render_wtable. rewrite Eti. cbn [app]. exact Er. }
  assert (Hsep : forallb nosep (blines t) = true) by (apply forallb_forall; intros l Hin; apply Hbl; exact Hin).
  assert (Hclean : forall l, In l (blines t) -> clean l) by (intros l Hin; apply nosep_clean; apply Hbl; exact Hin).
  destruct (clean_concat_addnl _ Hclean) as [Hcr _].
  assert (Hne : blines t <> []).
  { destruct (body_facts SOther nolabel t Hb) as [Hs _]. unfold blines.
    unfold wtable_body_ok in Hb. apply andb_true_iff in Hb. destruct Hb as [Hb _]. cbn [nolabel_effective] in Hs.
    destruct nolabel; cbn [negb] in Hs; rewrite Hs.
    - destruct (wrows_parts t Hb) as [_ [_ [Hnr _]]]. cbn [app]. destruct (w_rows t) as [|r rs]; [congruence|].
      cbn [body_lines]. intro E. apply app_eq_nil in E. destruct E as [_ E]. discriminate.
    - cbn [app]. discriminate. }
  unfold read_table_file. rewrite Etext.
  destruct (concat (map addnl (blines t))) as [|c0 txt] eqn:Ec.
  - exfalso. destruct (blines t) as [|l ls]; [congruence|]. cbn [map concat] in Ec. unfold addnl in Ec.
    apply app_eq_nil in Ec. destruct Ec as [Ec _]. apply app_eq_nil in Ec. destruct Ec as [_ Ec]. discriminate.
  - rewrite <- Ec in *. rewrite universal_newlines_id by exact Hcr. rewrite splitlines_concat_addnl by exact Hsep.
    unfold parse_table. pose proof (parse_table_body_lemma SOther nolabel t Hb) as E. cbn beta iota in E. rewrite E. reflexivity.
Qed.

(* ================================================================================================ *)
(** * run level, any number of tables: standard errors, matrices, phi, objective value, estimates *)

(* ---- _parse_standard_errors, any number of tables: the LAST table of the file decides ---- *)
Definition not_fixed (fx : list (text * bool)) (l : list (text * cell)) : list (text * cell) :=
  filter (fun nc => match blookup fx (fst nc) with Some b => negb b | None => false end) l.
Definition renamed (nm : list (text * text)) (l : list (text * cell)) : list (text * cell) :=
  map (fun nc => (rename_with nm (fst nc), snd nc)) l.

Lemma rerr3 : forall k : N, k <> 3%N -> forall A (x y : rres A), match k with 3%N => x | _ => y end = y.
Proof. intros k H A x y. destruct k as [|p]; [reflexivity|]. do 2 (destruct p; try reflexivity). congruence. Qed.

Theorem se_designated_lemma : forall ts t g pfix nm ses sesd abort,
    last_opt ts = Some t -> ext_data_frame (tb_frame t) = ROk g ->
    parse_standard_errors ts pfix nm = ROk (ses, sesd, abort) ->
    (* row -1000000001 and row -1000000005 both present: the standard errors are the former, the sd/corr variant takes
       the latter's OMEGA/SIGMA entries; fixed columns dropped, model names *)
    (exists fx se_row sd_row,
        get_fixed_parameters g pfix nm = ROk fx /\ standard_errors g = ROk se_row /\
        omega_sigma_se_stdcorr g = ROk sd_row /\
        ses = Some (renamed nm (not_fixed fx se_row)) /\
        sesd = Some (update_with (renamed nm (not_fixed fx se_row)) (renamed nm (not_fixed fx sd_row))) /\ abort = false)
    \/ (* no row -1000000001: nothing is reported (NaN) *)
       (standard_errors g = RErr 3%N /\ ses = None /\ sesd = None /\ abort = false)
    \/ (* row -1000000001 without row -1000000005: the covariance step was aborted *)
       (exists se_row, standard_errors g = ROk se_row /\ omega_sigma_se_stdcorr g = RErr 3%N /\
                       ses = None /\ sesd = None /\ abort = true).
Proof.
  intros ts t g pfix nm ses sesd abort Hl Hg H. unfold parse_standard_errors in H. rewrite Hl, Hg in H. cbn [rbind] in H.
  destruct (standard_errors g) as [se_row|k|] eqn:Ese.
  - destruct (get_fixed_parameters g pfix nm) as [fx|k|] eqn:Efx; cbn [rbind] in H; try discriminate.
    destruct (existsb (fun nc => match blookup fx (fst nc) with None => true | Some _ => false end) se_row); [discriminate|].
    destruct (omega_sigma_se_stdcorr g) as [sd_row|k|] eqn:Esd.
    + left. exists fx, se_row, sd_row. inversion H. repeat split; reflexivity.
    + right. right. exists se_row. destruct k as [|p]; try discriminate. do 2 (destruct p; try discriminate).
      inversion H. repeat split; reflexivity.
    + discriminate.
  - right. left. destruct k as [|p]; try discriminate. do 2 (destruct p; try discriminate).
    inversion H. repeat split; reflexivity.
  - discriminate.
Qed.

(* ---- _parse_matrix ---- *)
Theorem matrix_designated_lemma : forall raw nm tn m,
    parse_matrix (Some raw) nm tn = ROk (Some m) ->
    exists tables n tb m0,
      read_table_file SCov false false raw = ROk tables /\ last_opt tn = Some n /\
      find (fun tb => N.eqb (number_of tb) n) tables = Some tb /\
      cov_data_frame (tb_frame tb) = ROk m0 /\ length (m_rows m0) = length (m_cols m0) /\
      m = mkMatrix (map (rename_with nm) (m_rows m0)) (map (rename_with nm) (m_rows m0)) (m_vals m0).
Proof.
  intros raw nm tn m H. unfold parse_matrix in H.
  destruct (read_table_file SCov false false raw) as [tables|k|] eqn:Er.
  - destruct (last_opt tn) as [n|] eqn:El; [|discriminate].
    destruct (find (fun tb => N.eqb (number_of tb) n) tables) as [tb|] eqn:Ef; [|discriminate].
    destruct (cov_data_frame (tb_frame tb)) as [m0|k|] eqn:Ec; cbn [rbind] in H; try discriminate.
    destruct (Nat.eqb (length (m_rows m0)) (length (m_cols m0))) eqn:En; cbn [negb] in H; [|discriminate].
    apply Nat.eqb_eq in En. inversion H. exists tables, n, tb, m0. repeat split; try assumption; reflexivity.
  - destruct k as [|[p|p|]]; discriminate.
  - discriminate.
Qed.

(* ---- _parse_phi ---- *)
Definition select_sub (idx : list nat) (m : list (list cell)) : list (list cell) :=
  map (fun i => map (fun j => nth j (nth i m []) CNaN) idx) idx.

Theorem phi_designated_lemma : forall raw nm rv pr,
    parse_phi (Some raw) nm rv = ROk (Some pr) ->
    exists tables tb keys idx mats c0,
      read_table_file SPhi false false raw = ROk tables /\
      (* the last table that is not an optimal-design table *)
      last_opt (filter (fun tb => match design_of tb with None => true | Some _ => false end) tables) = Some tb /\
      let v := phi_view_of (tb_frame tb) in
      (* individuals with any non-zero entry, their ID and OBJ, the ETA / PHI columns as they are *)
      pr_ids pr = p_ids v /\ pr_iofv pr = p_iofv v /\ pr_ie pr = p_etas v /\
      p_eta_names v = c0 :: tl (p_eta_names v) /\
      pr_ie_cols pr = map (rename_with (map (fun ia => (paren_name (firstn 3 c0) (fst ia), snd ia)) (number_from 1 rv)))
                          (p_eta_names v) /\
      (* one symmetric matrix per individual from the flattened ETC / PHC columns, re-ordered like the model's etas *)
      rsequence (p_etcs v) = Some mats /\
      rsequence (map (alookup nm) (p_etc_names v)) = Some keys /\
      rsequence (map (fun r => index_of r keys) rv) = Some idx /\
      pr_iec pr = map (select_sub idx) mats.
Proof.
  intros raw nm rv pr H. unfold parse_phi in H.
  destruct (read_table_file SPhi false false raw) as [tables|k|] eqn:Er; cbn [rbind] in H; try discriminate.
  destruct (last_opt (filter (fun tb => match design_of tb with None => true | Some _ => false end) tables)) as [tb|] eqn:El;
    [|discriminate].
  destruct (index_of s_ID (f_cols (tb_frame tb))); [|discriminate].
  destruct (index_of s_OBJ (f_cols (tb_frame tb))); [|discriminate].
  destruct (p_eta_names (phi_view_of (tb_frame tb))) as [|c0 rest] eqn:En; [discriminate|].
  destruct (rsequence (map (alookup nm) (p_etc_names (phi_view_of (tb_frame tb))))) as [keys|] eqn:Ek; [|discriminate].
  destruct (rsequence (map (fun r => index_of r keys) rv)) as [idx|] eqn:Ei; [|discriminate].
  destruct (rsequence (p_etcs (phi_view_of (tb_frame tb)))) as [mats|] eqn:Em; [|discriminate].
  destruct (has_dup keys); [discriminate|]. inversion H. subst pr. cbn [pr_ids pr_iofv pr_ie pr_ie_cols pr_iec].
  exists tables, tb, keys, idx, mats, c0. cbv zeta. rewrite En. repeat split; try reflexivity; assumption.
Qed.

(* every matrix of p_etcs is the symmetric n x n matrix of its n(n+1)/2 flattened entries *)
Theorem phi_etcs_symmetric : forall (f : frame) (k n : nat) (m : list (list cell)),
    nth k (p_etcs (phi_view_of f)) None = Some m ->
    (forall ir, In ir (phi_nonzero_rows f) -> length (select_cols f is_etc_col (snd ir)) = n * (n + 1) / 2) ->
    k < length (phi_nonzero_rows f) ->
    dims m n /\
    forall r c, c <= r -> r < n ->
      let x := select_cols f is_etc_col (snd (nth k (phi_nonzero_rows f) (0, []))) in
      mget (CNum 0) m r c = nth (r * (r + 1) / 2 + c) x (CNum 0) /\ mget (CNum 0) m c r = nth (r * (r + 1) / 2 + c) x (CNum 0).
Proof.
  intros f k n m H Hlen Hk. unfold phi_view_of in H. cbn [p_etcs] in H.
  rewrite (nth_indep _ None (flattened_to_symmetric (CNum 0) (select_cols f is_etc_col (snd (0, []))))) in H
    by (rewrite map_length; exact Hk).
  rewrite (map_nth (fun ir => flattened_to_symmetric (CNum 0) (select_cols f is_etc_col (snd ir)))) in H.
  set (ir := nth k (phi_nonzero_rows f) (0, [])) in *.
  assert (Hin : In ir (phi_nonzero_rows f)) by (apply nth_In; exact Hk).
  destruct (flattened_symmetric_lemma (CNum 0) (select_cols f is_etc_col (snd ir)) n (Hlen ir Hin)) as [m' [E [D G]]].
  rewrite E in H. inversion H. subst m'. split; [exact D|]. intros r c Hc Hr. cbv zeta. apply G; assumption.
Qed.

(* ---- any number of estimation tables: the LAST one that is not an optimal-design table decides ---- *)
Lemma rmap_last {A B} (f : A -> rres B) : forall l l' x,
    rmap f l = ROk l' -> last_opt l = Some x -> exists y, f x = ROk y /\ last_opt l' = Some y.
Proof.
  induction l as [|a l IH]; intros l' x H Hl; [discriminate|].
  cbn [rmap] in H. destruct (f a) as [b|k|] eqn:Ea; cbn [rbind] in H; try discriminate.
  destruct (rmap f l) as [bs|k|] eqn:El; cbn [rbind] in H; try discriminate. inversion H. subst l'.
  destruct l as [|a2 l2].
  - cbn in Hl. inversion Hl. subst a. cbn in El. inversion El. subst bs. exists b. split; [exact Ea|reflexivity].
  - change (last_opt (a :: a2 :: l2)) with (last_opt (a2 :: l2)) in Hl.
    destruct (IH bs x eq_refl Hl) as [y [Hy Hb]]. exists y. split; [exact Hy|].
    destruct bs as [|b2 bs2]; [discriminate|]. exact Hb.
Qed.

Lemma last_opt_app {A} : forall (a b : list A), b <> [] -> last_opt (a ++ b) = last_opt b.
Proof.
  induction a as [|x a IH]; intros b Hb; [reflexivity|]. cbn [app].
  destruct (a ++ b) as [|y r] eqn:E.
  - destruct a; [cbn in E; congruence|discriminate].
  - change (last_opt (x :: y :: r)) with (last_opt (y :: r)). rewrite <- E. apply IH. exact Hb.
Qed.

Lemma last_opt_flat_map {A B} (f : A -> list B) : forall l y,
    last_opt l = Some y -> f y <> [] -> last_opt (flat_map f l) = last_opt (f y).
Proof.
  induction l as [|a l IH]; intros y Hl Hf; [discriminate|]. cbn [flat_map].
  destruct l as [|a2 l2].
  - cbn in Hl. inversion Hl. subst a. cbn [flat_map]. rewrite app_nil_r. reflexivity.
  - change (last_opt (a :: a2 :: l2)) with (last_opt (a2 :: l2)) in Hl.
    rewrite last_opt_app.
    + apply IH; assumption.
    + intro E. apply last_opt_In in Hl. destruct (f y) as [|z zs] eqn:Efy; [congruence|].
      assert (Hz : In z (flat_map f (a2 :: l2))) by (apply in_flat_map; exists y; split; [exact Hl|rewrite Efy; left; reflexivity]).
      rewrite E in Hz. contradiction.
Qed.

Theorem ofv_designated_any_lemma : forall ts k t g c entries,
    last_opt (est_tables ts) = Some (k, t) -> ext_data_frame (tb_frame t) = ROk g ->
    g_final_obj_eq_last g = true ->
    parse_ofv ts = ROk (c, entries) ->
    get_ofv g code_final = ROk c.
Proof.
  intros ts k t g c entries Hl Hg HF H. unfold parse_ofv in H.
  destruct (rmap (fun kt => rbind (iter_frame (snd kt)) (fun gh => ROk (fst kt, gh))) (est_tables ts)) as [l|e|] eqn:Er;
    cbn [rbind] in H; try discriminate.
  destruct (rmap_last _ _ _ _ Er Hl) as [y [Hy Hly]]. cbn [fst snd] in Hy.
  unfold iter_frame in Hy. rewrite Hg in Hy. cbn [rbind] in Hy.
  destruct (has_str (col_cells g s_OBJ)); [discriminate|].
  rewrite (iter_df_printed_iterations g HF) in Hy. cbn [rbind] in Hy. inversion Hy. subst y. clear Hy.
  rewrite Hly in H.
  set (h := mkFrame (f_cols g) (filter (fun ir => cell_ge0 (iter_cell g (snd ir))) (f_rows g))) in *.
  unfold g_final_obj_eq_last in HF.
  destruct (last_opt (rows_with g code_final)) as [[i1 rf]|] eqn:L1; [|discriminate].
  destruct (last_opt (filter (fun ir => cell_ge0 (iter_cell g (snd ir))) (f_rows g))) as [[i2 rl]|] eqn:L2; [|discriminate].
  set (E := fun kgh : nat * (frame * frame) => let '(k0, (g0, h0)) := kgh in
               map (fun ir => (k0, iter_cell h0 (snd ir), obj_cell h0 (snd ir))) (f_rows h0)) in *.
  assert (Hne : E (k, (g, h)) <> []).
  { unfold E, h. cbn [f_rows]. intro E0. apply map_eq_nil in E0. rewrite E0 in L2. discriminate. }
  rewrite (last_opt_flat_map E l (k, (g, h)) Hly Hne) in H.
  unfold E in H. cbn [f_rows h] in H. rewrite last_opt_map, L2 in H. cbn [option_map snd] in H.
  apply negb_true_iff in HF.
  assert (Hobj : obj_cell h rl = obj_cell g rl) by reflexivity. rewrite Hobj in H.
  destruct (obj_cell g rl) as [yv| |s] eqn:Eo.
  - destruct (final_ofv g) as [c0|e|] eqn:Fo; cbn [rbind] in H; try discriminate.
    inversion H. subst c0.
    unfold final_ofv in Fo. destruct (get_ofv g code_final) as [c1|e|] eqn:Go.
    + exact Fo.
    + exfalso. unfold get_ofv in Go. destruct (rows_with g code_final) as [|x xs]; [discriminate L1|].
      destruct x as [ix rx]. destruct xs; discriminate.
    + discriminate.
  - destruct (obj_cell g rf); discriminate.
  - destruct (obj_cell g rf); discriminate.
Qed.

Definition keep_of (fx : list (text * bool)) (pcols : list text) : list bool :=
  map (fun c => negb (existsb (text_eqb c) (fixed_names_of fx pcols))) pcols.

Theorem pe_designated_any_lemma : forall ts k t g pfix nm fpe cols rows sd,
    last_opt (est_tables ts) = Some (k, t) -> ext_data_frame (tb_frame t) = ROk g ->
    g_final_obj_eq_last g = true ->
    parse_parameter_estimates ts pfix nm = ROk (fpe, cols, rows, sd) ->
    exists fx i rl,
      get_fixed_parameters g pfix nm = ROk fx /\
      last_opt (filter (fun ir => cell_ge0 (iter_cell g (snd ir))) (f_rows g)) = Some (i, rl) /\
      let pcols := drop_first_last (f_cols g) in
      let lastvals := keep_mask (keep_of fx pcols) (drop_first_last rl) in
      if forallb is_nan lastvals
      then (* the last printed iteration carries no value in any estimated column: NaN under the same names *)
           fpe = combine cols lastvals
      else exists fe, final_parameter_estimates g = ROk fe /\
                      fpe = map (fun nc => (rename_with nm (fst nc), snd nc)) (drop_names (fixed_names_of fx pcols) fe).
Proof.
  intros ts k t g pfix nm fpe cols rows sd Hl Hg HF H. unfold parse_parameter_estimates in H.
  match type of H with rbind (rmap ?F0 _) _ = _ => set (F := F0) in * end.
  destruct (rmap F (est_tables ts)) as [l|e|] eqn:Er; cbn [rbind] in H; try discriminate.
  destruct (rmap_last F _ _ _ Er Hl) as [y [Hy Hly]]. unfold F in Hy. cbn [fst snd] in Hy.
  unfold iter_frame in Hy. rewrite Hg in Hy. cbn [rbind] in Hy.
  destruct (has_str (col_cells g s_OBJ)); [discriminate|].
  rewrite (iter_df_printed_iterations g HF) in Hy. cbn [rbind fst] in Hy.
  destruct (get_fixed_parameters g pfix nm) as [fx|e|] eqn:Efx; cbn [rbind] in Hy; try discriminate.
  inversion Hy. subst y. clear Hy.
  set (h := mkFrame (f_cols g) (filter (fun ir => cell_ge0 (iter_cell g (snd ir))) (f_rows g))) in *.
  rewrite Hly in H.
  pose proof HF as HF'. unfold g_final_obj_eq_last in HF'.
  destruct (last_opt (rows_with g code_final)) as [[i1 rf]|] eqn:L1; [|discriminate].
  destruct (last_opt (filter (fun ir => cell_ge0 (iter_cell g (snd ir))) (f_rows g))) as [[i2 rl]|] eqn:L2; [|discriminate].
  exists fx, i2, rl. split; [reflexivity|]. split; [reflexivity|].
  match type of H with context [map ?P0 l] => set (P := P0) in * end.
  destruct (existsb _ l); [discriminate|].
  destruct (map P l) as [|p0 per'] eqn:Ep; [discriminate|].
  assert (Hlp : last_opt (p0 :: per') = Some (P (k, (g, h), fx))).
  { rewrite <- Ep. rewrite last_opt_map, Hly. reflexivity. }
  destruct p0 as [[[[k0 h0] fn0] cols0] keep0].
  destruct (negb (forallb _ (_ :: per'))); [discriminate|].
  destruct (has_dup (map (rename_with nm) cols0)); [discriminate|].
  match type of H with context [flat_map ?R0 _] => set (R := R0) in * end.
  assert (HPl : P (k, (g, h), fx) = (k, h, fixed_names_of fx (drop_first_last (f_cols g)),
                                      keep_mask (keep_of fx (drop_first_last (f_cols g))) (drop_first_last (f_cols g)),
                                      keep_of fx (drop_first_last (f_cols g)))) by reflexivity.
  assert (Hne : R (P (k, (g, h), fx)) <> []).
  { rewrite HPl. unfold R, h. cbn [f_rows]. intro E0. apply map_eq_nil in E0. rewrite E0 in L2. discriminate. }
  rewrite (last_opt_flat_map R _ _ Hlp Hne) in H. rewrite Hlp in H.
  rewrite HPl in H. unfold R in H. cbn [f_rows h] in H. rewrite last_opt_map, L2 in H. cbn [option_map snd] in H.
  cbv zeta.
  destruct (forallb is_nan (keep_mask (keep_of fx (drop_first_last (f_cols g))) (drop_first_last rl))) eqn:En.
  - cbn [rbind] in H.
    destruct (omega_sigma_stdcorr g) as [sdv|e|]; try discriminate;
      [|destruct e as [|[[p|p|]|p|]]; try discriminate]; inversion H; subst; reflexivity.
  - destruct (final_parameter_estimates g) as [fe|e|] eqn:Efe; cbn [rbind] in H; try discriminate.
    destruct (negb (forallb _ _)); cbn [rbind] in H; [discriminate|].
    exists fe. split; [reflexivity|].
    destruct (omega_sigma_stdcorr g) as [sdv|e|]; try discriminate;
      [|destruct e as [|[[p|p|]|p|]]; try discriminate]; inversion H; subst; reflexivity.
Qed.
