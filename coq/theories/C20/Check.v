(* PV.C20.Check — the comparison run inside Coq by the correspondence check.
   fverdict: one NONMEM table file.  Re-runs the model (C20.Model) on the file's text, compares with what the
   real NONMEMTableFile / ExtTable / CovTable / PhiTable / _get_iter_df returned (tags 1..9), evaluates the
   property itself on the implementation's answers against WHAT WAS WRITTEN by the reference writer
   (tags 11..29), reports guard facts (tags >= 200) and inconclusive sub-checks (tags >= 1000).
   rverdict (below): one run directory read by read_modelfit_results. *)
From Coq Require Import List NArith ZArith QArith Qround Qabs Bool Arith.
From Coq Require String Ascii.
From PV Require Import C20.Model.
Import ListNotations.
Local Open Scope nat_scope.

(* texts are exported as Coq string literals (fast to parse) and turned into character codes here *)
Definition tx (s : String.string) : text := map (fun a => Ascii.N_of_ascii a) (String.list_ascii_of_string s).

(* a binary64 value m * 2^e as exported by the harness (float.as_integer_ratio in mantissa/exponent form) *)
Definition fl (m e : Z) : cell :=
  CNum (if (0 <=? e)%Z then inject_Z (m * 2 ^ e) else (m # Pos.pow 2 (Z.to_pos (- e)))).

Definition tag (b : bool) (t : nat) : list nat := if b then [] else [t].

(* ---- equality of observations ------------------------------------------------------------------ *)
Definition opt_eqb {A} (eqb : A -> A -> bool) (a b : option A) : bool :=
  match a, b with Some x, Some y => eqb x y | None, None => true | _, _ => false end.

Fixpoint list_eqb {A B} (eqb : A -> B -> bool) (a : list A) (b : list B) : bool :=
  match a, b with
  | [], [] => true
  | x :: a', y :: b' => eqb x y && list_eqb eqb a' b'
  | _, _ => false
  end.

(* model cell (exact decimal) against observed cell (the float pandas produced, as an exact rational):
   the observed value must be the decimal itself (integers) or its correctly rounded binary64 *)
Definition cell_match (m o : cell) : bool :=
  match m, o with
  | CNum q, CNum x => Qeq_bool q x || match round_b64 q with Some y => Qeq_bool y x | None => false end
  | CNaN, CNaN => true
  | CStr a, CStr b => text_eqb a b
  | _, _ => false
  end.

(* observed against observed (both floats): exact *)
Definition cell_same (a b : cell) : bool :=
  match a, b with
  | CNum x, CNum y => Qeq_bool x y
  | CNaN, CNaN => true
  | CStr s, CStr t => text_eqb s t
  | _, _ => false
  end.

Definition row_match (m o : nat * list cell) : bool :=
  Nat.eqb (fst m) (fst o) && list_eqb cell_match (snd m) (snd o).

Definition frame_match (m o : frame) : bool :=
  list_eqb text_eqb (f_cols m) (f_cols o) && list_eqb row_match (f_rows m) (f_rows o).

Definition rres_match {A} (f : A -> A -> bool) (m o : rres A) : nat :=   (* 0 agree, 1 disagree, 2 inconclusive *)
  match m, o with
  | ROk a, ROk b => if f a b then 0 else 1
  | RErr j, RErr k => if N.eqb j k then 0 else 1
  | RUnmodelled, _ => 2
  | _, _ => 1
  end.
Definition tag3 (v : nat) (tfail tinc : nat) : list nat :=
  match v with 0 => [] | 1 => [tfail] | _ => [tinc] end.

Definition named_cells_match (m o : list (text * cell)) : bool :=
  list_eqb (fun a b => text_eqb (fst a) (fst b) && cell_match (snd a) (snd b)) m o.
Definition named_bools_eqb (m o : list (text * bool)) : bool :=
  list_eqb (fun a b => text_eqb (fst a) (fst b) && Bool.eqb (snd a) (snd b)) m o.

Definition title_eqb (a b : title) : bool :=
  N.eqb (t_number a) (t_number b) && Bool.eqb (t_eval a) (t_eval b) &&
  opt_eqb (fun x y =>
             let '(m1, d1, g1, i1) := x in let '(m2, d2, g2, i2) := y in
             text_eqb m1 m2 && opt_eqb text_eqb d1 d2 && opt_eqb text_eqb g1 g2 && list_eqb N.eqb i1 i2)
          (t_fields a) (t_fields b).

Definition matrix_match (m o : matrix) : bool :=
  list_eqb text_eqb (m_rows m) (m_rows o) && list_eqb text_eqb (m_cols m) (m_cols o) &&
  list_eqb (list_eqb cell_match) (m_vals m) (m_vals o).

(* ---- what the implementation returned ----------------------------------------------------------- *)
Record ext_obs := mkExtObs {
  eo_df : rres frame;                              (* ExtTable.data_frame *)
  eo_final : rres (list (text * cell));            (* final_parameter_estimates *)
  eo_se : rres (list (text * cell));               (* standard_errors *)
  eo_fixed : rres (list (text * bool));            (* fixed *)
  eo_sdcorr : rres (list (text * cell));           (* omega_sigma_stdcorr *)
  eo_se_sdcorr : rres (list (text * cell));        (* omega_sigma_se_stdcorr *)
  eo_cond : rres cell;                             (* condition_number *)
  eo_final_ofv : rres cell;
  eo_initial_ofv : rres cell;
  eo_iter_df : rres frame                          (* results._get_iter_df(table.data_frame) *)
}.

Record phi_obs := mkPhiObs {
  po_ids : list cell;
  po_iofv : list cell;
  po_eta_names : list text;
  po_etas : list (list cell);
  po_etc_names : list text;
  po_etcs : list (list (list cell))
}.

Inductive kind_obs :=
| KOExt (e : ext_obs)
| KOCov (m : rres matrix)
| KOPhi (p : rres phi_obs)
| KONone.

Record otable := mkOT {
  o_title : option title;
  o_frame : frame;                 (* the raw _df *)
  o_kind : kind_obs
}.

Inductive ofile := OErr (k : N) | OTables (l : list otable).

Record fcase := mkF {
  fc_suffix : suffix;
  fc_notitle : bool;
  fc_nolabel : bool;
  fc_text : text;
  fc_written : option (list wtable);
  fc_obs : ofile
}.

(* ---- correspondence: model against implementation ------------------------------------------------ *)
Definition check_ext (f : frame) (e : ext_obs) : list nat :=
  let md := ext_data_frame f in
  tag3 (rres_match frame_match md (eo_df e)) 4 1004 ++
  match md with
  | ROk g =>
      tag3 (rres_match named_cells_match (final_parameter_estimates g) (eo_final e)) 4 1004 ++
      tag3 (rres_match named_cells_match (standard_errors g) (eo_se e)) 4 1004 ++
      tag3 (rres_match named_bools_eqb (fixed_flags g) (eo_fixed e)) 4 1004 ++
      tag3 (rres_match named_cells_match (omega_sigma_stdcorr g) (eo_sdcorr e)) 4 1004 ++
      tag3 (rres_match named_cells_match (omega_sigma_se_stdcorr g) (eo_se_sdcorr e)) 4 1004 ++
      tag3 (rres_match cell_match (condition_number g) (eo_cond e)) 4 1004 ++
      tag3 (rres_match cell_match (final_ofv g) (eo_final_ofv e)) 4 1004 ++
      tag3 (rres_match cell_match (initial_ofv g) (eo_initial_ofv e)) 4 1004 ++
      tag3 (rres_match frame_match (get_iter_df g) (eo_iter_df e)) 5 1005
  | _ => []
  end.

Definition phi_has_keys (f : frame) : bool :=
  match index_of s_ID (f_cols f), index_of s_OBJ (f_cols f) with Some _, Some _ => true | _, _ => false end.

Definition phi_match (m : phi_view) (o : phi_obs) : bool :=
  list_eqb cell_match (p_ids m) (po_ids o) && list_eqb cell_match (p_iofv m) (po_iofv o) &&
  list_eqb text_eqb (p_eta_names m) (po_eta_names o) &&
  list_eqb (list_eqb cell_match) (p_etas m) (po_etas o) &&
  list_eqb text_eqb (p_etc_names m) (po_etc_names o) &&
  list_eqb (fun a b => match a with Some x => list_eqb (list_eqb cell_match) x b | None => false end)
           (p_etcs m) (po_etcs o).

(* string columns (a malformed number somewhere) go through numpy's own str -> float conversions: not described *)
Definition phi_has_str (f : frame) : bool :=
  existsb (fun ir => existsb (fun c => match c with CStr _ => true | _ => false end) (snd ir)) (f_rows f).

Definition check_phi (f : frame) (p : rres phi_obs) : list nat :=
  if phi_has_str f then [1007] else
  if phi_has_keys f then
    let v := phi_view_of f in
    match p with
    | ROk o => tag (phi_match v o) 7
    | RErr _ => (* the implementation raised: only explained when some etc vector is not triangular *)
        tag (existsb (fun x => match x with None => true | Some _ => false end) (p_etcs v)) 7
    | RUnmodelled => [1007]
    end
  else match p with RErr 3%N => [] | _ => [7] end.

Definition check_table (m : table) (o : otable) : list nat :=
  tag (opt_eqb title_eqb (tb_title m) (o_title o)) 2 ++
  tag (frame_match (tb_frame m) (o_frame o)) 3 ++
  match o_kind o with
  | KOExt e => check_ext (tb_frame m) e
  | KOCov mo => tag3 (rres_match matrix_match (cov_data_frame (tb_frame m)) mo) 6 1006
  | KOPhi p => check_phi (tb_frame m) p
  | KONone => []
  end.

Fixpoint check_tables (ms : list table) (os : list otable) : list nat :=
  match ms, os with
  | [], [] => []
  | m :: ms', o :: os' => check_table m o ++ check_tables ms' os'
  | _, _ => [1]
  end.

Definition correspondence (c : fcase) : list nat :=
  match read_table_file (fc_suffix c) (fc_notitle c) (fc_nolabel c) (fc_text c), fc_obs c with
  | ROk ms, OTables os => check_tables ms os
  | RErr j, OErr k => tag (N.eqb j k) 1
  | RUnmodelled, _ => [1001]
  | _, _ => [1]
  end.

(* ---- the property on the implementation's answers, against what was written ------------------------ *)
(* ---- NONMEM's (Fortran 1PE12.5) form of a number with a three digit exponent: the E is dropped, 1.00000-100.
   The specification side knows which number that text denotes; pandas does not (finding C20-FORTRAN-EXP3). ---- *)
Definition fortran_short_value (t : text) : option Q :=
  let '(neg, r) := split_sign t in
  let (ip, r1) := span is_digit r in
  match ip, r1 with
  | _ :: _, c :: r2 =>
      if N.eqb c c_dot then
        let (fp, r3) := span is_digit r2 in
        match r3 with
        | s :: ed =>
            if (N.eqb s c_minus || N.eqb s c_plus) && forallb is_digit ed && Nat.leb 3 (length ed) then
              let e := if N.eqb s c_minus then Z.opp (Zdigits ed) else Zdigits ed in
              let v := Qred (inject_Z (Zdigits (ip ++ fp)) * pow10 (e - Z.of_nat (length fp))) in
              Some (if neg then Qopp v else v)
            else None
        | [] => None
        end
      else None
  | _, _ => None
  end.

Definition wcell_o (x : wnum) : cell :=
  match x with
  | WStr t => match fortran_short_value t with Some q => CNum q | None => CStr t end
  | _ => wcell x
  end.

Definition wtitle_matches (w : option wtitle) (o : option title) : bool :=
  match w, o with
  | None, None => true
  | Some w, Some t =>
      N.eqb (digits_val (wt_number w)) (t_number t) &&
      match t_fields t with
      | Some (m, d, g, ids) =>
          negb (wt_short w) && text_eqb m (wt_method w) && opt_eqb text_eqb d (wt_design w) && opt_eqb text_eqb g (wt_goal w) &&
          list_eqb N.eqb ids (map digits_val (wt_ids w))
      | None => wt_short w
      end
  | _, _ => false
  end.

(* ext columns OBJ carry method prefixes in the file (SAEMOBJ, MCMCOBJ); the code renames them to OBJ *)
Definition label_as_read (sfx : suffix) (l : text) : text :=
  match sfx with SOther => l | _ => sub_obj l end.

Definition rows_as_written (w : wtable) (o : otable) : bool :=
  list_eqb (fun wr orow => list_eqb cell_match (map wcell_o wr) (snd orow)) (w_rows w) (f_rows (o_frame o)) &&
  list_eqb Nat.eqb (seq 0 (length (w_rows w))) (map fst (f_rows (o_frame o))).

(* the written row with a given ITERATION code, as (label as pharmpy names it, value) without ITERATION/OBJ *)
Definition wrow_iter (r : list wnum) : option Q := match r with x :: _ => wnum_value x | [] => None end.
Definition wrows_with (w : wtable) (z : Z) : list (list wnum) :=
  filter (fun r => match wrow_iter r with Some q => Qeq_bool q (inject_Z z) | None => false end) (w_rows w).

(* the written parameter columns in pharmpy's order (THETA, OMEGA, SIGMA; THETAn -> THETA(n)) *)
Definition wnamed (w : wtable) (r : list wnum) : list (text * cell) :=
  let labs := map (label_as_read SExt) (w_labels w) in
  let named := combine labs (map wcell_o r) in
  flat_map (fun l => match find (fun nc => text_eqb (fst nc) l) named with
                     | Some nc => [(rename_theta l, snd nc)] | None => [] end) (param_labels labs).
Definition wobj (w : wtable) (r : list wnum) : cell :=
  match find (fun nc => text_eqb (fst nc) s_OBJ) (combine (map (label_as_read SExt) (w_labels w)) (map wcell_o r)) with
  | Some nc => snd nc | None => CNaN end.

Definition wnonneg_rows (w : wtable) : list (list wnum) :=
  filter (fun r => match wrow_iter r with Some q => Qle_bool 0 q | None => false end) (w_rows w).
Definition wlast_iter_row (w : wtable) : option (list wnum) :=
  (* the row of the highest non-negative iteration *)
  match wnonneg_rows w with
  | [] => None
  | x :: tl => Some (fold_left (fun a b => match wrow_iter a, wrow_iter b with
                                           | Some qa, Some qb => if Qle_bool qa qb then b else a
                                           | _, _ => a end) tl x)
  end.

Definition designated (w : wtable) (z : Z) (o : rres (list (text * cell))) (thetas : bool) : bool :=
  match wrows_with w z with
  | [r] => match o with
           | ROk l => named_cells_match (filter (fun nc => thetas || negb (contains s_THETA (fst nc))) (wnamed w r)) l
           | _ => false end
  | [] => match o with RErr 3%N => true | _ => false end
  | _ => true
  end.

Definition oracle_ext (w : wtable) (e : ext_obs) : list nat :=
  (* final estimates: the -1000000000 row, else the row of the last iteration *)
  tag (match wrows_with w code_final with
       | [r] => match eo_final e with ROk l => named_cells_match (wnamed w r) l | _ => false end
       | [] => match wlast_iter_row w, eo_final e with
               | Some r, ROk l => named_cells_match (wnamed w r) l
               | None, RErr _ => true
               | _, _ => false end
       | _ => true end) 14 ++
  tag (designated w code_se (eo_se e) true) 15 ++
  tag (match wrows_with w code_fixed with
       | [r] => match eo_fixed e with
                | ROk l => named_bools_eqb (map (fun nc => (fst nc, cell_truthy (snd nc))) (wnamed w r)) l
                | _ => false end
       | [] => match eo_fixed e with RErr 3%N => true | _ => false end
       | _ => true end) 16 ++
  tag (match wrows_with w code_final with
       | [r] => match eo_final_ofv e with ROk c => cell_match (wobj w r) c | _ => false end
       | [] => match wlast_iter_row w, eo_final_ofv e with
               | Some r, ROk c => cell_match (wobj w r) c
               | None, RErr _ => true
               | _, _ => false end
       | _ => true end) 17 ++
  tag (designated w code_sdcorr (eo_sdcorr e) false) 18 ++
  tag (designated w code_se_sdcorr (eo_se_sdcorr e) false) 18.

(* cov/cor/coi: the written matrix in pharmpy's order with the all-zero (fixed) rows and columns removed *)
Definition wmatrix (w : wtable) : matrix :=
  let names := flat_map (fun r => match r with WStr t :: _ => [t] | _ => [] end) (w_rows w) in
  let labs := param_labels (tl (w_labels w)) in
  let colidx := map (fun l => index_of l (w_labels w)) labs in
  let vals := map (fun l => match index_of l names with
                            | Some i => let r := nth i (w_rows w) [] in
                                        map (fun j => match j with Some k => wcell_o (nth k r (WStr [])) | None => CNaN end) colidx
                            | None => map (fun _ => CNaN) colidx end) labs in
  let keep := map (fun r => existsb cell_nonzero r) vals in
  mkMatrix (keep_mask keep (map rename_theta labs)) (keep_mask keep (map rename_theta labs))
           (map (keep_mask keep) (keep_mask keep vals)).

Definition wsymmetric (w : wtable) : bool :=
  let m := wmatrix w in
  list_eqb (list_eqb cell_same) (m_vals m)
           (map (fun j => map (fun r => nth j r CNaN) (m_vals m)) (seq 0 (length (m_vals m)))).

(* phi: ids, iofv, etas by column, etcs symmetric with the written entries; all-zero individuals removed *)
Definition wphi_rows (w : wtable) : list (list cell) :=
  filter (fun r => existsb cell_any (skipn 2 r)) (map (map wcell_o) (w_rows w)).
Definition wcol (w : wtable) (r : list cell) (l : text) : cell :=
  match index_of l (w_labels w) with Some j => nth j r CNaN | None => CNaN end.

Definition etc_entry (w : wtable) (pre : text) (r : list cell) (i j : nat) : cell :=
  (* the written value labelled ETC(i+1,j+1) with i >= j *)
  let (a, b) := if (j <=? i) then (i, j) else (j, i) in
  let digits := fun n => map (fun d => (48 + N.of_nat d)%N)
                             (if (n <? 10) then [n] else [n / 10; n mod 10]) in
  wcol w r (pre ++ [40%N] ++ digits (S a) ++ [44%N] ++ digits (S b) ++ [41%N]).

Definition oracle_phi (w : wtable) (p : phi_obs) : bool :=
  let rows := wphi_rows w in
  let etan := filter is_eta_col (w_labels w) in
  let n := length etan in
  let pre := match filter is_etc_col (w_labels w) with l :: _ => firstn 3 l | [] => s_ETC end in
  list_eqb cell_match (map (fun r => wcol w r s_ID) rows) (po_ids p) &&
  list_eqb cell_match (map (fun r => wcol w r s_OBJ) rows) (po_iofv p) &&
  list_eqb text_eqb etan (po_eta_names p) &&
  list_eqb (list_eqb cell_match) (map (fun r => map (wcol w r) etan) rows) (po_etas p) &&
  list_eqb (fun r m => list_eqb (list_eqb cell_match)
                         (map (fun i => map (fun j => etc_entry w pre r i j) (seq 0 n)) (seq 0 n)) m)
           rows (po_etcs p).

Definition oracle_table (sfx : suffix) (w : wtable) (o : otable) : list nat :=
  tag (wtitle_matches (w_title w) (o_title o)) 11 ++
  tag (negb (w_showlabels w) || list_eqb text_eqb (map (label_as_read sfx) (w_labels w)) (f_cols (o_frame o))) 12 ++
  tag (rows_as_written w o) 13 ++
  match o_kind o with
  | KOExt e => oracle_ext w e
  | KOCov (ROk m) => tag (matrix_match (wmatrix w) m) 19
  | KOCov _ => [19]
  | KOPhi (ROk p) => tag (oracle_phi w p) 20
  | KOPhi _ => [20]
  | KONone => []
  end.

Fixpoint oracle_tables (sfx : suffix) (ws : list wtable) (os : list otable) : list nat :=
  match ws, os with
  | [], [] => []
  | w :: ws', o :: os' => oracle_table sfx w o ++ oracle_tables sfx ws' os'
  | _, _ => [11]
  end.

Definition oracle (c : fcase) : list nat :=
  match fc_written c with
  | None => []
  | Some ws =>
      tag (text_eqb (render_wfile ws) (fc_text c) || text_eqb (crlf (render_wfile ws)) (fc_text c)) 9 ++
      match fc_obs c with
      | OTables os => oracle_tables (fc_suffix c) ws os
      | OErr _ => [11]
      end
  end.

(* ---- guard facts ---------------------------------------------------------------------------------- *)
(* 201: an ext table whose designated final row carries another OBJ than the last printed iteration
   202: (informational since the fix 54e76a4) an ext table without iteration 0 whose final row is not the first row
   203: (informational since the fix 5f0fde5) a table without label line (NOHEADER / NOLABEL) *)
Definition guard_ext_table (w : wtable) : list nat :=
  match wrows_with w code_final with
  | [] => []
  | rf :: _ =>
      (match wlast_iter_row w with
       | Some rl => tag (cell_same (wobj w rf) (wobj w rl)) 201
       | None => []
       end) ++
      tag (negb (negb (existsb (fun r => match wrow_iter r with Some q => Qeq_bool q 0 | None => false end) (w_rows w))
                 && match w_rows w with r0 :: _ => negb (match wrow_iter r0 with
                                                          | Some q => Qeq_bool q (inject_Z code_final) | None => false end)
                                      | [] => false end)) 202
  end.

Definition guards (c : fcase) : list nat :=
  match fc_written c with
  | Some ws =>
      (match fc_suffix c with SExt => flat_map guard_ext_table ws | _ => [] end) ++
      tag (forallb w_showlabels ws) 203 ++
      (* 206: a number in Fortran's E-less three digit exponent form occurs *)
      tag (negb (existsb (fun w => existsb (existsb (fun x => match x with
                                                              | WStr t => match fortran_short_value t with Some _ => true | None => false end
                                                              | _ => false end)) (w_rows w)) ws)) 206 ++
      (* 210: the written file lies in the domain of the theorems parse_render / parse_render_notitle *)
      tag (negb (if fc_notitle c
                 then match ws with [t] => wtable_notitle_ok (fc_nolabel c) t | _ => false end
                 else wfile_ok (fc_suffix c) (fc_nolabel c) ws)) 210
  | None => []
  end.

Definition fverdict (c : fcase) : list nat := correspondence c ++ oracle c ++ guards c.

(* ================================================================================================== *)
(** * rverdict: one run directory read by read_modelfit_results *)

Record robs := mkRObs {
  ro_ofv : cell;
  ro_ofv_iter : list (nat * cell * cell);
  ro_pe : list (text * cell);
  ro_pe_cols : list text;
  ro_pe_iter : list (nat * cell * list cell);
  ro_sdcorr : list (text * cell);
  ro_se : list (text * cell);
  ro_se_sdcorr : list (text * cell);
  ro_rse : list (text * cell);
  ro_cov : option matrix;
  ro_cor : option matrix;
  ro_coi : option matrix;
  ro_cov_psd : bool;                               (* numpy judged the covariance matrix read positive semidefinite *)
  ro_phi : option phi_results;
  ro_pred : option (list text * list (list cell));  (* predictions: columns, rows *)
  ro_resid : option (list text * list (list cell));
  ro_json_ofv : cell;                               (* the same fields after to_json / read_results *)
  ro_json_pe : list (text * cell);
  ro_json_se : list (text * cell);
  ro_json_cov : option matrix;
  ro_json_rest : bool;                              (* every other field compares equal exactly *)
  ro_json_rest_close : bool                         (* ... equal up to 15 significant digits, labels and shape exactly *)
}.

Inductive rresult :=
| RRNone
| RRExc (k : N)
| RRFailed (ofv : cell) (pe : list (text * cell))
| RROk (o : robs).

Record wtab := mkWTab { wtb_table : wtable; wtb_cols : list text }.   (* the $TABLE file and its column list *)

Record rcase := mkR {
  rc_ext : option text; rc_cov : option text; rc_cor : option text; rc_coi : option text; rc_phi : option text;
  rc_pfix : list (text * bool);            (* model.parameters.fix *)
  rc_nm : list (text * text);              (* NONMEM label -> parameter / eta name (inverted create_name_map) *)
  rc_rv : list text;
  rc_covstatus : bool;                     (* covariance step status the .lst parser derived *)
  rc_wext : list wtable;
  rc_wcov : option wtable; rc_wcor : option wtable; rc_wcoi : option wtable; rc_wphi : option (list wtable);
  rc_wtab : option wtab;
  rc_expected : list (text * text);        (* NONMEM label -> the name the generator gave it in the model *)
  rc_tol_file : Q; rc_tol_num : Q;
  rc_obs : rresult
}.

Definition named_cells_same (a b : list (text * cell)) : bool :=
  list_eqb (fun x y => text_eqb (fst x) (fst y) && cell_same (snd x) (snd y)) a b.
Definition matrix_same (a b : matrix) : bool :=
  list_eqb text_eqb (m_rows a) (m_rows b) && list_eqb text_eqb (m_cols a) (m_cols b) &&
  list_eqb (list_eqb cell_same) (m_vals a) (m_vals b).

Definition nan_named (l : list (text * cell)) : bool := forallb (fun nc => is_nan (snd nc)) l.

(* None on the model side: NaN for every row of pe.index *)
Definition opt_named_match (m : option (list (text * cell))) (o : list (text * cell)) (npe : nat) : bool :=
  match m with
  | Some l => named_cells_match l o
  | None => nan_named o && Nat.eqb (length o) npe
  end.

Definition iter_match (m o : nat * cell * cell) : bool :=
  let '(k1, i1, v1) := m in let '(k2, i2, v2) := o in Nat.eqb k1 k2 && cell_match i1 i2 && cell_match v1 v2.
Definition piter_match (m o : nat * cell * list cell) : bool :=
  let '(k1, i1, v1) := m in let '(k2, i2, v2) := o in Nat.eqb k1 k2 && cell_match i1 i2 && list_eqb cell_match v1 v2.

(* rse = se / pe in binary64 *)
Definition rse_ok (o : robs) : bool :=
  list_eqb (fun s r =>
      text_eqb (fst s) (fst r) &&
      match snd s, find (fun p => text_eqb (fst p) (fst s)) (ro_pe o), snd r with
      | CNum a, Some (_, CNum b), CNum x =>
          if Qeq_bool b 0 then true else match round_b64 (a / b) with Some y => Qeq_bool x y | None => true end
      | CNum _, Some (_, CNum b), CNaN => Qeq_bool b 0
      | _, _, CNaN => true
      | _, _, _ => false
      end) (ro_se o) (ro_rse o).

Definition omatrix_match (m o : option matrix) : bool :=
  match m, o with
  | Some a, Some b => matrix_match a b
  | None, _ => true             (* computed by numpy from the others: only the relations are checked *)
  | Some _, None => false
  end.

Definition phi_res_match (m o : phi_results) : bool :=
  list_eqb cell_match (pr_ids m) (pr_ids o) && list_eqb cell_match (pr_iofv m) (pr_iofv o) &&
  list_eqb text_eqb (pr_ie_cols m) (pr_ie_cols o) &&
  list_eqb (list_eqb cell_match) (pr_ie m) (pr_ie o) &&
  list_eqb (list_eqb (list_eqb cell_match)) (pr_iec m) (pr_iec o).

Definition rcorrespondence (c : rcase) : list nat :=
  match read_run (rc_ext c) (rc_pfix c) (rc_nm c) (rc_covstatus c) (rc_cov c) (rc_cor c) (rc_coi c), rc_obs c with
  | RUnmodelled, _ => [1001]
  | ROk RunNone, RRNone => []
  | ROk RunFailed, RRFailed ofv pe => tag (is_nan ofv && nan_named pe) 1
  | RErr _, RRExc _ => []
  | ROk (RunOk r), RROk o =>
      let e := rr_ext r in
      let npe := length (er_pe_iterations e) in
      tag (cell_match (er_ofv e) (ro_ofv o) && list_eqb iter_match (er_ofv_iterations e) (ro_ofv_iter o)) 2 ++
      tag (named_cells_match (er_pe e) (ro_pe o) && list_eqb text_eqb (er_pe_cols e) (ro_pe_cols o) &&
           list_eqb piter_match (er_pe_iterations e) (ro_pe_iter o)) 3 ++
      tag (opt_named_match (er_sdcorr e) (ro_sdcorr o) npe &&
           (* without row -1000000001 (or -1000000005): NaN under the names of the final estimates *)
           let nan_pe := map (fun nc => (fst nc, CNaN)) (er_pe e) in
           named_cells_match (match er_se e with Some l => l | None => nan_pe end) (ro_se o) &&
           named_cells_match (match er_se_sdcorr e with Some l => l | None => nan_pe end) (ro_se_sdcorr o)) 4 ++
      (if ro_cov_psd o then tag (omatrix_match (rr_cov r) (ro_cov o)) 5 else [1005]) ++
      tag (omatrix_match (rr_cor r) (ro_cor o) && omatrix_match (rr_coi r) (ro_coi o)) 5 ++
      tag (rse_ok o) 7 ++
      match parse_phi (rc_phi c) (rc_nm c) (rc_rv c), ro_phi o with
      | ROk (Some m), Some p => tag (phi_res_match m p) 6
      | ROk None, None => []
      | RUnmodelled, _ => [1006]
      | _, _ => [6]
      end
  | _, _ => [1]
  end.

(* ---- oracle: against what was written -------------------------------------------------------------- *)
Definition est_wtables (ws : list wtable) : list wtable :=
  filter (fun w => match w_title w with Some ti => match wt_design ti with None => true | Some _ => false end | None => true end) ws.

Definition wdesignated_row (w : wtable) : option (list wnum) :=
  match wrows_with w code_final with
  | r :: _ => Some r
  | [] => wlast_iter_row w
  end.

Definition expected_name (c : rcase) (l : text) : text :=
  match alookup (rc_expected c) l with Some x => x | None => l end.

(* fixed flags as written in row -1000000006 of that table; without the row: the model's FIX flags *)
Definition wfixed (c : rcase) (w : wtable) (l : text) : bool :=
  match wrows_with w code_fixed with
  | r :: _ => match find (fun nc => text_eqb (fst nc) l) (wnamed w r) with
              | Some (_, v) => cell_truthy v | None => true end
  | [] => match blookup (rc_pfix c) (expected_name c l) with Some b => b | None => true end
  end.

Definition wexpected_named (c : rcase) (w : wtable) (r : list wnum) (thetas : bool) : list (text * cell) :=
  map (fun nc => (expected_name c (fst nc), snd nc))
      (filter (fun nc => negb (wfixed c w (fst nc)) && (thetas || negb (contains s_THETA (fst nc)))) (wnamed w r)).

Local Open Scope Q_scope.
Definition qabs_le (x tol : Q) : bool := Qle_bool (Qabs x) tol.
Definition mval (m : matrix) (i j : nat) : option Q := cell_q (nth j (nth i (m_vals m) []) CNaN).
Definition oq_all {A} (f : A -> option bool) (l : list A) : bool :=
  forallb (fun x => match f x with Some b => b | None => false end) l.

(* cor_ii = 1, cor_ij^2 cov_ii cov_jj = cov_ij^2 with equal signs (no square root needed), se_i^2 = cov_ii *)
Definition rel_cor (cov cor : matrix) (tol : Q) : bool :=
  let n := length (m_vals cov) in
  Nat.eqb (length (m_vals cor)) n &&
  oq_all (fun ij => let '(i, j) := ij in
    match mval cov i j, mval cov i i, mval cov j j, mval cor i j with
    | Some cij, Some cii, Some cjj, Some rij =>
        Some (if Nat.eqb i j then qabs_le (rij - 1) tol
              else qabs_le (rij * rij * cii * cjj - cij * cij) (tol * cii * cjj) &&
                   Qle_bool 0 (rij * cij))
    | _, _, _, _ => None end) (list_prod (seq 0%nat n) (seq 0%nat n)).

Definition rel_se (cov : matrix) (se : list (text * cell)) (tol : Q) : bool :=
  list_eqb (fun i nc =>
    text_eqb (nth i (m_rows cov) []) (fst nc) &&
    match mval cov i i, snd nc with
    | Some cii, CNum s => qabs_le (s * s - cii) (tol * cii)
    | _, _ => false end) (seq 0%nat (length (m_vals cov))) se.

Definition rel_inv (cov coi : matrix) (tol : Q) : bool :=
  let n := length (m_vals cov) in
  let q := fun (m : matrix) i j => match mval m i j with Some x => x | None => 0 end in
  let rowsum := fun (m : matrix) i => fold_left Qplus (map (fun k => Qabs (q m i k)) (seq 0%nat n)) 0 in
  let scale := fold_left (fun a i => if Qle_bool a (rowsum cov i) then rowsum cov i else a) (seq 0%nat n) 0 *
               fold_left (fun a i => if Qle_bool a (rowsum coi i) then rowsum coi i else a) (seq 0%nat n) 0 in
  Nat.eqb (length (m_vals coi)) n &&
  forallb (fun ij => let '(i, j) := ij in
    let s := fold_left Qplus (map (fun k => q cov i k * q coi k j) (seq 0%nat n)) 0 in
    qabs_le (s - (if Nat.eqb i j then 1 else 0)) (tol * scale)) (list_prod (seq 0%nat n) (seq 0%nat n)).

Close Scope Q_scope.

Definition wmatrix_named (c : rcase) (w : wtable) (diag_one : bool) : matrix :=
  let m := wmatrix w in
  let names := map (expected_name c) (m_rows m) in
  mkMatrix names names (if diag_one then fill_diag_one 0 (m_vals m) else m_vals m).

Definition tab_column (t : wtab) (name : text) : option (list cell) :=
  match index_of name (wtb_cols t) with
  | Some j => Some (map (fun r => wcell_o (nth j r (WStr []))) (w_rows (wtb_table t)))
  | None => None
  end.

Definition transpose_cols (cols : list (list cell)) (n : nat) : list (list cell) :=
  map (fun i => map (fun col => nth i col CNaN) cols) (seq 0 n).

Local Open Scope N_scope.
Definition s_PRED : text := [80;82;69;68].  Definition s_CIPREDI : text := [67;73;80;82;69;68;73].
Definition s_CPRED : text := [67;80;82;69;68].  Definition s_IPRED : text := [73;80;82;69;68].
Definition s_RES : text := [82;69;83].  Definition s_WRES : text := [87;82;69;83].  Definition s_CWRES : text := [67;87;82;69;83].

Close Scope N_scope.

Definition expect_table_view (t : wtab) (names : list text) (drop_zero_rows : bool)
  : option (list text * list (list cell)) :=
  let present := filter (fun nme => match index_of nme (wtb_cols t) with Some _ => true | None => false end) names in
  match present with
  | [] => None
  | _ :: _ =>
      let cols := flat_map (fun nme => match tab_column t nme with Some c => [c] | None => [] end) present in
      let rows := transpose_cols cols (length (w_rows (wtb_table t))) in
      Some (present, if drop_zero_rows then filter (fun r => existsb cell_nonzero r) rows else rows)
  end.

Definition view_match (m o : option (list text * list (list cell))) : bool :=
  match m, o with
  | Some (c1, r1), Some (c2, r2) => list_eqb text_eqb c1 c2 && list_eqb (list_eqb cell_match) r1 r2
  | None, None => true
  | _, _ => false
  end.

Definition roracle (c : rcase) : list nat :=
  match rc_obs c with
  | RROk o =>
      match last_opt (est_wtables (rc_wext c)), last_opt (rc_wext c) with
      | Some w, Some wl =>
          (* with the designated final row: its OBJ and entries; without it (interrupted run) nothing is
             designated and NaN is reported under the same names *)
          match wrows_with w code_final, w_rows w with
          | r :: _, _ =>
              tag (cell_match (wobj w r) (ro_ofv o)) 21 ++
              tag (named_cells_match (wexpected_named c w r true) (ro_pe o)) 22
          | [], r0 :: _ =>
              tag (is_nan (ro_ofv o)) 21 ++
              tag (named_cells_match (map (fun nc => (fst nc, CNaN)) (wexpected_named c w r0 true)) (ro_pe o)) 22
          | [], [] => []
          end ++
          (* standard errors: row -1000000001 of the last table, when -1000000005 is there as well *)
          match wrows_with wl code_se, wrows_with wl code_se_sdcorr with
          | r :: _, _ :: _ => tag (named_cells_match (wexpected_named c wl r true) (ro_se o)) 23
          | _, _ => tag (nan_named (ro_se o)) 23
          end
      | _, _ => []
      end ++
      (* matrices that were written are reported as written, minus fixed parameters, under the model's names *)
      (if rc_covstatus c && negb (nan_named (ro_se o)) then
         (match rc_wcov c, ro_cov o with
          | Some w, Some m => if ro_cov_psd o then tag (matrix_match (wmatrix_named c w false) m) 24 else []
          | Some _, None => [24] | None, _ => [] end) ++
         (match rc_wcor c, ro_cor o with
          | Some w, Some m => tag (matrix_match (wmatrix_named c w true) m) 24
          | Some _, None => [24] | None, _ => [] end) ++
         (match rc_wcoi c, ro_coi o with
          | Some w, Some m => tag (matrix_match (wmatrix_named c w false) m) 24
          | Some _, None => [24] | None, _ => [] end)
       else []) ++
      (* the defining relations among what is reported together *)
      (match ro_cov o, ro_cor o, ro_coi o with
       | Some cov, Some cor, Some coi =>
           let tol := match rc_wcov c, rc_wcor c, rc_wcoi c with
                      | Some _, None, None | None, Some _, None | None, None, Some _ => rc_tol_num c
                      | _, _, _ => rc_tol_file c end in
           tag (rel_cor cov cor tol) 25 ++ tag (rel_inv cov coi tol) 25 ++
           (match rc_wcov c with
            | Some _ => if nan_named (ro_se o) then [] else tag (rel_se cov (ro_se o) (rc_tol_file c)) 25
            | None => [] end)
       | None, None, None => []
       | _, _, _ => [25]
       end) ++
      (match rc_wtab c with
       | Some t =>
           tag (view_match (expect_table_view t [s_PRED; s_CIPREDI; s_CPRED; s_IPRED] false) (ro_pred o)) 26 ++
           tag (view_match (expect_table_view t [s_RES; s_WRES; s_CWRES] true) (ro_resid o)) 26
       | None => []
       end) ++
      tag (cell_same (ro_ofv o) (ro_json_ofv o) && named_cells_same (ro_pe o) (ro_json_pe o) &&
           named_cells_same (ro_se o) (ro_json_se o) && opt_eqb matrix_same (ro_cov o) (ro_json_cov o) &&
           ro_json_rest o) 27 ++
      (match rc_wphi c, ro_phi o with
       | Some ws, Some p =>
           match last_opt (est_wtables ws) with
           | Some w =>
               let po := mkPhiObs (pr_ids p) (pr_iofv p) (filter is_eta_col (w_labels w)) (pr_ie p) [] (pr_iec p) in
               tag (oracle_phi w po) 28
           | None => []
           end
       | _, _ => []
       end)
  | RRExc _ => [29]          (* every generated run directory is well formed: no exception is acceptable *)
  | RRNone | RRFailed _ _ => match rc_wext c with [] => [] | _ :: _ => [29] end
  end.

Definition cell_close (a b : cell) : bool :=
  match a, b with
  | CNum x, CNum y => Qle_bool (Qabs (x - y) * (1000000000000000 # 1)) (1 + Qabs x)   (* 1e-15 absolute + relative *)
  | CNaN, CNaN => true
  | CStr s, CStr t => text_eqb s t
  | _, _ => false
  end.
Definition named_cells_close (a b : list (text * cell)) : bool :=
  list_eqb (fun x y => text_eqb (fst x) (fst y) && cell_close (snd x) (snd y)) a b.
Definition matrix_close (a b : matrix) : bool :=
  list_eqb text_eqb (m_rows a) (m_rows b) && list_eqb text_eqb (m_cols a) (m_cols b) &&
  list_eqb (list_eqb cell_close) (m_vals a) (m_vals b).

(* 204: the JSON round trip changes values by at most 1e-15 (absolute, or relative for large values): 15 decimal places *)
Definition rguards_json (c : rcase) : list nat :=
  match rc_obs c with
  | RROk o =>
      tag (negb (cell_close (ro_ofv o) (ro_json_ofv o) && named_cells_close (ro_pe o) (ro_json_pe o) &&
                 named_cells_close (ro_se o) (ro_json_se o) && opt_eqb matrix_close (ro_cov o) (ro_json_cov o) &&
                 ro_json_rest_close o)) 204
  | _ => []
  end.

Definition rguards (c : rcase) : list nat :=
  rguards_json c ++
  tag (negb (existsb (fun w => existsb (existsb (fun x => match x with
                                                          | WStr t => match fortran_short_value t with Some _ => true | None => false end
                                                          | _ => false end)) (w_rows w)) (rc_wext c))) 206 ++
  (match last_opt (est_wtables (rc_wext c)) with Some w => guard_ext_table w | None => [] end) ++
  (match rc_wtab c with Some t => tag (w_showlabels (wtb_table t)) 203 | None => [] end).

Definition rverdict (c : rcase) : list nat := rcorrespondence c ++ roracle c ++ rguards c.
