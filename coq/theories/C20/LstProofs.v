(* PV.C20.LstProofs — parse (render x) = x for the TERM / TERE rows of a .lst block. *)
From Coq Require Import List NArith ZArith QArith Bool Arith Lia ZifyBool.
From Coq Require Import String.
From PV Require Import C20.Model C20.Proofs C20.Lst.
Import ListNotations.
Local Open Scope nat_scope.

Lemma span_space_spaces : forall k r, (match r with [] => True | c :: _ => is_space_re c = false end) ->
    span is_space_re (spaces k ++ r) = (spaces k, r).
Proof. exact span_spaces_re. Qed.

Lemma digits_nonspace : forall d, forallb is_digit d = true -> forallb nonspace d = true.
Proof.
  induction d as [|c d IH]; intros H; [reflexivity|]. cbn [forallb] in *. apply andb_true_iff in H. destruct H as [Hc Hd].
  rewrite IH by exact Hd. unfold nonspace. rewrite (digit_not_space c Hc). reflexivity.
Qed.


Lemma span_nonspace_all : forall t, forallb nonspace t = true -> span nonspace t = (t, []).
Proof.
  induction t as [|c t IH]; intros H; [reflexivity|]. cbn [forallb] in H. apply andb_true_iff in H. destruct H as [Hc Ht].
  cbn [span]. rewrite Hc, IH by exact Ht. reflexivity.
Qed.

Lemma ws_token_spaces : forall k t, t <> [] -> forallb nonspace t = true -> ws_token (spaces k ++ t) = Some t.
Proof.
  intros k t Hne H. unfold ws_token, skip_ws.
  destruct t as [|c t']; [congruence|].
  assert (Hc : is_space_re c = false).
  { cbn [forallb] in H. apply andb_true_iff in H. destruct H as [Hc _]. unfold nonspace in Hc. apply negb_true_iff in Hc. exact Hc. }
  rewrite span_space_spaces by exact Hc. cbn [snd]. rewrite span_nonspace_all by exact H. reflexivity.
Qed.

Lemma int_of_digits : forall d, all_digits d = true -> int_of d = LNum (inject_Z (Zdigits d)).
Proof.
  intros d H. pose proof (all_digits_spec d H) as [Hne Hd]. unfold int_of, parse_int.
  destruct d as [|c d']; [congruence|].
  assert (Hc : is_digit c = true) by (cbn [forallb] in Hd; apply andb_true_iff in Hd; apply Hd).
  pose proof (split_sign_text false c d' Hc) as S. cbn [sign_text app] in S. rewrite S. rewrite Hd. reflexivity.
Qed.

Lemma float_of_dec : forall ab, dec_ok ab = true -> float_of (dec_text ab) = LNum (dec_value ab).
Proof.
  intros [ip fp] H. unfold dec_ok in H. cbn [fst snd] in H. apply andb_true_iff in H. destruct H as [Hi Hf].
  unfold float_of, dec_text, dec_value. cbn [fst snd].
  assert (E : ip ++ [46%N] ++ fp = float_text false ip fp None).
  { unfold float_text. cbn [sign_text exp_text app]. rewrite app_nil_r. reflexivity. }
  rewrite E. rewrite parse_float_text; [|exact Hi|apply all_digits_forall; exact Hf|exact I].
  cbn [signed exp_value]. rewrite Z.add_0_r. reflexivity.
Qed.

Lemma dec_text_nonspace : forall ab, dec_ok ab = true -> dec_text ab <> [] /\ forallb nonspace (dec_text ab) = true.
Proof.
  intros [ip fp] H. unfold dec_ok in H. cbn [fst snd] in H. apply andb_true_iff in H. destruct H as [Hi Hf].
  unfold dec_text. cbn [fst snd]. split.
  - destruct ip; [discriminate|discriminate].
  - rewrite !forallb_app'. rewrite (digits_nonspace _ (all_digits_forall _ Hi)), (digits_nonspace _ (all_digits_forall _ Hf)). reflexivity.
Qed.

Definition set_fev (r : term_result) (v : lval) : term_result :=
  mkTerm (tm_min_success r) (tm_near_boundary r) (tm_rounding r) (tm_maxevals r) (tm_warning r) (tm_sig_digits r) v (tm_ofv_const r).
Definition set_sig (r : term_result) (v : lval) : term_result :=
  mkTerm (tm_min_success r) (tm_near_boundary r) (tm_rounding r) (tm_maxevals r) (tm_warning r) v (tm_fevals r) (tm_ofv_const r).

Lemma term_row_fevals : forall r d, all_digits d = true ->
    term_row r (st " NO. OF FUNCTION EVALUATIONS USED:"%string ++ rjust 9 d) = set_fev r (LNum (inject_Z (Zdigits d))).
Proof.
  intros r d H. pose proof (all_digits_spec d H) as [Hne Hd].
  unfold term_row.
  assert (E1 : pmatch p_sig (st " NO. OF FUNCTION EVALUATIONS USED:"%string ++ rjust 9 d) = None) by (vm_compute; reflexivity).
  assert (E2 : pmatch p_ofvc (st " NO. OF FUNCTION EVALUATIONS USED:"%string ++ rjust 9 d) = None) by (vm_compute; reflexivity).
  assert (E3 : pmatch p_feval (st " NO. OF FUNCTION EVALUATIONS USED:"%string ++ rjust 9 d) = Some (rjust 9 d)) by (vm_compute; reflexivity).
  rewrite E1, E2, E3. unfold rjust. rewrite ws_token_spaces; [|exact Hne|apply digits_nonspace; exact Hd].
  rewrite int_of_digits by exact H. reflexivity.
Qed.

Lemma term_row_sig : forall r ab, dec_ok ab = true ->
    term_row r (st " NO. OF SIG. DIGITS IN FINAL EST.:"%string ++ rjust 5 (dec_text ab)) = set_sig r (LNum (dec_value ab)).
Proof.
  intros r ab H. destruct (dec_text_nonspace ab H) as [Hne Hns]. unfold term_row.
  assert (E1 : pmatch p_sig (st " NO. OF SIG. DIGITS IN FINAL EST.:"%string ++ rjust 5 (dec_text ab)) = Some (rjust 5 (dec_text ab)))
    by (vm_compute; reflexivity).
  rewrite E1. unfold rjust. rewrite ws_token_spaces by assumption. rewrite float_of_dec by exact H. reflexivity.
Qed.

Definition set_round (r : term_result) : term_result :=
  mkTerm (tm_min_success r) (tm_near_boundary r) (Some true) (tm_maxevals r) (tm_warning r) (tm_sig_digits r) (tm_fevals r) (tm_ofv_const r).
Definition set_maxev (r : term_result) : term_result :=
  mkTerm (tm_min_success r) (tm_near_boundary r) (tm_rounding r) (Some true) (tm_warning r) (tm_sig_digits r) (tm_fevals r) (tm_ofv_const r).
Definition set_near (r : term_result) : term_result :=
  mkTerm (tm_min_success r) (Some true) (tm_rounding r) (tm_maxevals r) (tm_warning r) (tm_sig_digits r) (tm_fevals r) (tm_ofv_const r).

Lemma row_success : forall r, term_row r (st "0MINIMIZATION SUCCESSFUL"%string) = r.
Proof. intros []. vm_compute. reflexivity. Qed.
Lemma row_terminated : forall r, term_row r (st "0MINIMIZATION TERMINATED"%string) = r.
Proof. intros []. vm_compute. reflexivity. Qed.
Lemma row_completed : forall r, term_row r (st " OPTIMIZATION WAS COMPLETED"%string) = r.
Proof. intros []. vm_compute. reflexivity. Qed.
Lemma row_rounding : forall r, term_row r (st " DUE TO ROUNDING ERRORS (ERROR=134)"%string) = set_round r.
Proof. intros []. vm_compute. reflexivity. Qed.
Lemma row_maxev : forall r, term_row r (st " DUE TO MAX. NO. OF FUNCTION EVALUATIONS EXCEEDED"%string) = set_maxev r.
Proof. intros []. vm_compute. reflexivity. Qed.
Lemma row_near : forall r, term_row r (st "0PARAMETER ESTIMATE IS NEAR ITS BOUNDARY"%string) = set_near r.
Proof. intros []. vm_compute. reflexivity. Qed.

Lemma min_success_first_true : forall row tl, is_success row = true -> min_success false (row :: tl) = Some true.
Proof. intros row tl H. cbn [min_success]. rewrite H. reflexivity. Qed.
Lemma min_success_first_false : forall row tl, is_success row = false -> is_failure row = true ->
    min_success false (row :: tl) = Some false.
Proof. intros row tl H1 H2. cbn [min_success]. rewrite H1, H2. reflexivity. Qed.

Theorem parse_termination_render_lemma : forall b, wblock_ok b = true ->
    parse_termination (render_term_rows b) = term_of_wblock b.
Proof.
  intros b H. unfold wblock_ok in H. repeat (apply andb_true_iff in H; destruct H as [H ?]).
  rename H4 into Hout, H2 into Hfev, H1 into Hsig, H0 into Htime.
  destruct b as [num meth out near fev sig time cov]. cbn [wb_outcome wb_fevals wb_sig wb_near] in *.
  apply Nat.leb_le in Hout.
  unfold render_term_rows, term_of_wblock, parse_termination.
  cbn [wb_outcome wb_near wb_fevals wb_sig].
  destruct out as [|[|[|[|[|out]]]]]; [| | | | |lia];
    destruct near; destruct fev as [d|]; destruct sig as [ab|]; cbn [app fold_left Nat.eqb];
    first [rewrite min_success_first_true by (vm_compute; reflexivity)
          |rewrite min_success_first_false by (vm_compute; reflexivity)];
    rewrite ?row_success, ?row_terminated, ?row_completed, ?row_rounding, ?row_maxev, ?row_near;
    rewrite ?term_row_fevals by exact Hfev; rewrite ?term_row_sig by exact Hsig; reflexivity.
Qed.

Lemma span_dot_digits : forall fp, all_digits fp = true -> span (N.eqb 46) (46%N :: fp) = ([46%N], fp).
Proof.
  intros fp H. pose proof (all_digits_spec fp H) as [Hne Hd]. destruct fp as [|c fp']; [congruence|].
  cbn -[N.eqb]. rewrite N.eqb_refl.
  assert (Hc : is_digit c = true) by (cbn [forallb] in Hd; apply andb_true_iff in Hd; apply Hd).
  destruct (digit_facts c Hc) as [_ [_ [F _]]]. unfold c_dot in F. rewrite N.eqb_sym in F. cbn -[N.eqb]. rewrite F. reflexivity.
Qed.

Lemma digits_dots_digits_dec : forall ab, dec_ok ab = true -> digits_dots_digits (dec_text ab) = Some (dec_text ab).
Proof.
  intros [ip fp] H. unfold dec_ok in H. cbn [fst snd] in H. apply andb_true_iff in H. destruct H as [Hi Hf].
  unfold digits_dots_digits, dec_text. cbn [fst snd app].
  pose proof (all_digits_spec ip Hi) as [Hni Hdi]. pose proof (all_digits_spec fp Hf) as [Hnf Hdf].
  rewrite span_digits_app; [|exact Hdi|reflexivity]. destruct ip as [|i0 ip']; [congruence|].
  rewrite span_dot_digits by exact Hf.
  rewrite <- (app_nil_r fp) at 1. rewrite span_digits_app; [|exact Hdf|exact I].
  destruct fp as [|f0 fp']; [congruence|]. reflexivity.
Qed.

Lemma est_time_row : forall ab, dec_ok ab = true -> List.length (dec_text ab) < 9 ->
    est_time (st " Elapsed estimation  time in seconds:"%string ++ rjust 9 (dec_text ab)) = Some (LNum (dec_value ab)).
Proof.
  intros ab H Hl. destruct (dec_text_nonspace ab H) as [Hne Hns]. unfold est_time.
  assert (E1 : pmatch (lit (st " Elapsed estimation"%string))
                      (st " Elapsed estimation  time in seconds:"%string ++ rjust 9 (dec_text ab)) =
               Some (st "  time in seconds:"%string ++ rjust 9 (dec_text ab))) by (vm_compute; reflexivity).
  rewrite E1.
  assert (E2 : span is_space_re (st "  time in seconds:"%string ++ rjust 9 (dec_text ab)) =
               (st "  "%string, st "time in seconds:"%string ++ rjust 9 (dec_text ab))) by (vm_compute; reflexivity).
  rewrite E2. cbn [st].
  assert (E3 : pmatch (lit (st "time in seconds:"%string)) (st "time in seconds:"%string ++ rjust 9 (dec_text ab)) =
               Some (rjust 9 (dec_text ab))) by (vm_compute; reflexivity).
  change (map (fun a => Ascii.N_of_ascii a) (list_ascii_of_string "  ")) with (st "  "%string).
  destruct (st "  "%string) as [|s0 s1] eqn:Es; [vm_compute in Es; discriminate|].
  rewrite E3. unfold rjust.
  replace (9 - List.length (dec_text ab)) with (S (9 - List.length (dec_text ab) - 1)) by lia.
  destruct (dec_text ab) as [|c t'] eqn:Ed; [congruence|].
  assert (Hc : is_space_re c = false).
  { cbn [forallb] in Hns. apply andb_true_iff in Hns. destruct Hns as [Hc _]. unfold nonspace in Hc. apply negb_true_iff in Hc. exact Hc. }
  rewrite span_spaces_re by exact Hc. cbn [spaces repeat].
  rewrite <- Ed. rewrite digits_dots_digits_dec by exact H. cbn [option_map]. rewrite float_of_dec by exact H. reflexivity.
Qed.

Theorem parse_tere_render_lemma : forall b, wblock_ok b = true -> parse_tere (render_tere_rows b) = tere_of_wblock b.
Proof.
  intros b H. unfold wblock_ok in H. repeat (apply andb_true_iff in H; destruct H as [H ?]).
  rename H0 into Htime, H3 into Hcov. destruct b as [num meth out near fev sig time cov]. cbn [wb_time wb_cov] in *.
  apply Nat.leb_le in Hcov.
  unfold render_tere_rows, tere_of_wblock, parse_tere. cbn [wb_time wb_cov].
  destruct time as [ab|].
  - apply andb_true_iff in Htime. destruct Htime as [Hd Hl]. apply Nat.ltb_lt in Hl.
    cbn [app tere_loop].
    assert (N1 : cov_not_ok (st " Elapsed estimation  time in seconds:"%string ++ rjust 9 (dec_text ab)) = false) by (vm_compute; reflexivity).
    assert (N2 : cov_ok (st " Elapsed estimation  time in seconds:"%string ++ rjust 9 (dec_text ab)) = false) by (vm_compute; reflexivity).
    rewrite N1, N2, (est_time_row ab Hd Hl).
    destruct cov as [|[|[|[|cov]]]]; [| | | |lia]; vm_compute; reflexivity.
  - destruct cov as [|[|[|[|cov]]]]; [| | | |lia]; vm_compute; reflexivity.
Qed.
