(* PV.C04.ProofsRemove — OmegaRecord.remove on a record without BLOCK: which diagonal items survive, and
   what the shrunk record means. *)
From Coq Require Import List NArith Bool Arith Lia.
From PV Require Import C04.Cst C04.Lcs C04.Model C04.ModelOmega C04.ProofsTheta C04.ProofsTheta2 C04.ProofsOmega.
Import ListNotations.
Local Open Scope nat_scope.

(* every child carrying the rule diag_item is a tree (lark never makes a token of a rule) *)
Definition items_are_trees (ch : list node) : bool :=
  forallb (fun c => is_tree c || negb (has_rule r_diag_item c)) ch.

Lemma remove_children_items (inds : list nat) : forall (ch : list node) (i : nat) (in_keep : bool),
  items_are_trees ch = true ->
  subtrees r_diag_item (fst (odiag_remove_children ch i in_keep inds))
  = remove_idx (subtrees r_diag_item ch) i inds.
Proof.
  induction ch as [|c tl IH]; intros i in_keep W; [reflexivity|].
  cbn [items_are_trees forallb] in W. apply andb_true_iff in W. destruct W as [Wc Wtl].
  cbn [odiag_remove_children].
  destruct (has_rule r_diag_item c) eqn:Ec.
  - assert (Ht : is_tree c = true) by (destruct (is_tree c); [reflexivity | cbn in Wc; discriminate]).
    destruct (odiag_remove_children tl (S i) (negb (memn' i inds)) inds) as [rest final] eqn:Er.
    cbn [fst]. pose proof (IH (S i) (negb (memn' i inds)) Wtl) as H. rewrite Er in H. cbn [fst] in H.
    unfold subtrees in *. cbn [filter]. rewrite Ht, Ec. cbn [andb remove_idx].
    destruct (memn' i inds); cbn [negb app filter]; [exact H|]. rewrite Ht, Ec. cbn [andb]. f_equal. exact H.
  - set (k1 := if has_rule r_diagonal c then false else in_keep).
    destruct (odiag_remove_children tl i k1 inds) as [rest final] eqn:Er.
    cbn [fst]. pose proof (IH i k1 Wtl) as H. rewrite Er in H. cbn [fst] in H.
    unfold subtrees in *. cbn [filter]. rewrite Ec, andb_false_r.
    destruct k1; cbn [app filter]; [rewrite Ec, andb_false_r|]; exact H.
Qed.

(* the diagonal items of the shrunk record are the items whose index is not removed, in order *)
Lemma odiag_remove_items (root : node) (inds : list nat) :
  items_are_trees (children root) = true ->
  items_of (odiag_remove root inds) = remove_idx (items_of root) 0 inds.
Proof.
  intro W. unfold items_of, odiag_remove. destruct inds as [|i0 tl0].
  - clear. generalize 0. induction (subtrees r_diag_item (children root)) as [|x l IH]; intro n; [reflexivity|].
    cbn. f_equal. apply IH.
  - pose proof (remove_children_items (i0 :: tl0) (children root) 0 true W) as H.
    destruct (odiag_remove_children (children root) 0 true (i0 :: tl0)) as [keep last_kept]. cbn [fst] in H.
    cbn [children]. destruct keep as [|k0 ktl]; [exact H|].
    destruct (last (map Some (children root)) None) as [l|]; [|exact H].
    destruct (has_rule r_NEWLINE l && negb last_kept) eqn:E; [|exact H].
    apply andb_true_iff in E. destruct E as [En _].
    unfold subtrees in *. rewrite filter_app, H. cbn [filter].
    rewrite (rule_pred_false r_diag_item r_NEWLINE l eq_refl En), andb_false_r. apply app_nil_r.
Qed.

Lemma mapM_remove_idx {A B} (f : A -> res B) (inds : list nat) : forall (l : list A) (ys : list B) (i : nat),
  mapM f l = Ok ys -> mapM f (remove_idx l i inds) = Ok (remove_idx ys i inds).
Proof.
  induction l as [|x l IH]; intros ys i H.
  - cbn in H. injection H as <-. reflexivity.
  - cbn [mapM] in H. destruct (f x) as [y|] eqn:Ex; [|discriminate]. cbn [bind] in H.
    destruct (mapM f l) as [ys'|] eqn:El; [|discriminate]. cbn [bind] in H. injection H as <-.
    cbn [remove_idx]. destruct (memn' i inds); cbn [app].
    + apply IH. reflexivity.
    + apply mapM_cons; [exact Ex | apply IH; reflexivity].
Qed.

Lemma concat_remove_singletons {A} (inds : list nat) : forall (VS : list (list A)) (i : nat),
  Forall (fun v => length v = 1) VS -> concat (remove_idx VS i inds) = remove_idx (concat VS) i inds.
Proof.
  induction VS as [|v VS IH]; intros i H; [reflexivity|].
  pose proof (Forall_inv H) as Hv. pose proof (Forall_inv_tail H) as Htl.
  destruct v as [|a [|b v']]; try (cbn in Hv; discriminate).
  cbn [remove_idx concat app]. destruct (memn' i inds); cbn [app concat]; [apply IH; exact Htl|].
  f_equal. apply IH. exact Htl.
Qed.

Section Sem.
Variable V : Type.
Variable F : fops V.

(* OmegaRecord.remove, diagonal branch: for a record all of whose items stand for ONE parameter (no (v)xn
   item), the shrunk record means the old parameter list without the removed indices *)
Theorem odiag_remove_sem_lemma (root : node) (inds : list nat) (ps : list (oparam V)) :
  items_are_trees (children root) = true ->
  forallb (fun c => match item_n (children c) with Ok n => N.eqb n 1 | Err _ => false end) (items_of root) = true ->
  osem V F root = Ok ps ->
  osem V F (odiag_remove root inds) = Ok (remove_idx ps 0 inds).
Proof.
  intros W Hn Hs. unfold osem in *. rewrite (odiag_remove_items root inds W).
  destruct (mapM (item_vals V F) (map children (items_of root))) as [VS|] eqn:Em; [|discriminate].
  cbn [bind] in Hs. injection Hs as <-.
  assert (Hmap : forall (l : list node) i, map children (remove_idx l i inds) = remove_idx (map children l) i inds).
  { induction l as [|x l IH]; intro i; [reflexivity|]. cbn [remove_idx map]. destruct (memn' i inds); cbn [app map]; rewrite IH; reflexivity. }
  rewrite Hmap, (mapM_remove_idx (item_vals V F) inds _ VS 0 Em). cbn [bind]. f_equal.
  apply concat_remove_singletons.
  clear Hmap W. revert VS Em. induction (items_of root) as [|c l IH]; intros VS Em.
  - cbn in Em. injection Em as <-. constructor.
  - cbn [forallb] in Hn. apply andb_true_iff in Hn. destruct Hn as [Hc Hl].
    cbn [map mapM] in Em. destruct (item_vals V F (children c)) as [v|] eqn:Ev; [|discriminate]. cbn [bind] in Em.
    destruct (mapM (item_vals V F) (map children l)) as [VS'|] eqn:El; [|discriminate]. cbn [bind] in Em. injection Em as <-.
    constructor; [|apply IH; [exact Hl | reflexivity]].
    unfold item_vals in Ev. destruct (item_init V F (children c)) as [x|]; [|discriminate]. cbn [bind] in Ev.
    destruct (item_n (children c)) as [n|]; [|discriminate]. apply N.eqb_eq in Hc. subst n. cbn [bind] in Ev.
    destruct (has r_SD (children c) && has r_VAR (children c)); [discriminate|].
    destruct (veqb F x (vzero F) && negb (has r_FIX (children c))); [discriminate|].
    injection Ev as <-. reflexivity.
Qed.

End Sem.
