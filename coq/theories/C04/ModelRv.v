(* PV.C04.ModelRv — executable model of update.update_random_variables / update_random_variable_records at
   record-planning level: which $OMEGA / $SIGMA records are rewritten (OmegaRecord.update), shrunk
   (OmegaRecord.remove), created (create_omega_single / create_omega_block) and in which order, with the
   running eta number.  A distribution is represented by what the loop looks at: its identity under
   Distribution.__eq__ (a key the harness assigns with python's ==), its number of etas and the names of the
   parameters of its lower triangle (row by row, the order in which the loop collects them).
   Definitions only. *)
From Coq Require Import List NArith Bool Arith.
From PV Require Import C04.Cst C04.Lcs C04.Model.
Import ListNotations.
Local Open Scope nat_scope.

Record pdist := mkPD { pd_key : nat; pd_size : nat; pd_pnames : list text }.

Fixpoint texts_eqb (a b : list text) : bool :=
  match a, b with
  | [], [] => true
  | x :: a', y :: b' => text_eqb x y && texts_eqb a' b'
  | _, _ => false
  end.
Definition pdist_eqb (a b : pdist) : bool :=
  Nat.eqb (pd_key a) (pd_key b) && Nat.eqb (pd_size a) (pd_size b) && texts_eqb (pd_pnames a) (pd_pnames b).

Inductive paction :=
| PUpdate (idx : nat) (d : pdist)          (* records[idx].update(params of d) *)
| PRemove (idx : nat) (inds : list nat)    (* records[idx].remove([(i, 0) ...]) *)
| PUpdateNew (names : list text)           (* .update(diag_change) on the record remove just returned *)
| PSingle (d : pdist) (eta : nat)          (* create_omega_single(model, d, eta_number) *)
| PBlock (d : pdist) (eta : nat).          (* create_omega_block(model, d, eta_number) *)

(* the state of the loop: recindex, diag_index, diag_remove, diag_change, eta_number *)
Definition pstate := (nat * nat * list nat * list text * nat)%type.

Section Plan.
Variable oldkeys : list nat.        (* keys of the distributions for which python evaluates
                                       "rvs in model.internals.old_random_variables" to True.  On the current
                                       code this is none: RandomVariables.__contains__ only looks up NAMES, a
                                       Distribution object is never "in" - the "Changed" branches are dead *)
Variable kept : list text.          (* kept_names = old parameter names & new parameter names *)
Variable lens : list nat.           (* len(record): 1 for a BLOCK record, the number of etas otherwise *)

(* rvs in old_random_variables and set(rvs.parameter_names).issubset(kept_names) *)
Definition was_kept (rv : pdist) : bool :=
  memn' (pd_key rv) oldkeys && forallb (fun n => mem_text n kept) (pd_pnames rv).

Definition in_diag (recindex : nat) (rv : pdist) : bool :=
  match nth_error lens recindex with
  | Some l => Nat.eqb (pd_size rv) 1 && Nat.ltb 1 l
  | None => false
  end.

(* one entry of the diff: the actions it appends and the new state; Err = IndexError on records[recindex] *)
Definition rv_entry (o : op) (rv : pdist) (st : pstate) : res (list paction * pstate) :=
  let '(recindex, diag_index, drem, dchg, eta) := st in
  let diag := in_diag recindex rv in
  let upd := match nth_error lens recindex with
             | Some _ => Ok ([PUpdate recindex rv], (S recindex, diag_index, drem, dchg, eta + pd_size rv))
             | None => Err EInternal
             end in
  match o with
  | Add =>
      if was_kept rv
      then (if diag then Ok ([], (recindex, diag_index, drem, dchg ++ pd_pnames rv, eta + pd_size rv)) else upd)
      else Ok ([if Nat.eqb (pd_size rv) 1 then PSingle rv eta else PBlock rv eta],
               (recindex, diag_index, drem, dchg, eta + pd_size rv))
  | Del =>
      if negb (was_kept rv)
      then (if diag then Ok ([], (recindex, S diag_index, drem ++ [diag_index], dchg, eta))
            else Ok ([], (S recindex, diag_index, drem, dchg, eta)))
      else Ok ([], st)
  | Keep =>
      if diag then Ok ([], (recindex, S diag_index, drem, dchg ++ pd_pnames rv, eta + pd_size rv)) else upd
  end.

(* the check after every entry: the diagonal record under construction is complete *)
Definition rv_flush (st : pstate) : list paction * pstate :=
  let '(recindex, diag_index, drem, dchg, eta) := st in
  match nth_error lens recindex with
  | Some l =>
      if Nat.eqb diag_index l
      then ((if negb (Nat.eqb (length drem) l)
             then PRemove recindex drem :: match dchg with [] => [] | _ => [PUpdateNew dchg] end
             else []),
            (S recindex, 0, [], [], eta))
      else ([], st)
  | None => ([], st)
  end.

Fixpoint rv_loop (d : list (op * pdist)) (st : pstate) : res (list paction) :=
  match d with
  | [] => Ok []
  | (o, rv) :: tl =>
      bind (rv_entry o rv st) (fun r1 =>
      let '(out2, st2) := rv_flush (snd r1) in
      bind (rv_loop tl st2) (fun rest => Ok (fst r1 ++ out2 ++ rest)))
  end.

End Plan.

Definition inter_texts (a b : list text) : list text := filter (fun x => mem_text x b) a.

(* update_random_variables for one record type: diff of the old and new distributions, then the loop *)
Definition rv_plan (old_all_keys : list nat) (old_names new_names : list text) (lens : list nat)
           (old new : list pdist) : res (list paction) :=
  rv_loop old_all_keys (inter_texts old_names new_names) lens (diff pdist_eqb old new) (0, 0, [], [], 1).

(* ---- guard: every record the loop looks at holds ONE distribution (len(record) = 1: a BLOCK record or a
        record with a single diagonal item), so the DIAGONAL bookkeeping (diag_index / diag_remove /
        diag_change) never starts *)
Section Aligned.
Variable oldkeys : list nat.
Variable kept : list text.
Variable lens : list nat.

Fixpoint g_aligned (d : list (op * pdist)) (recindex : nat) : bool :=
  match d with
  | [] => true
  | (o, rv) :: tl =>
      let here := match nth_error lens recindex with Some l => Nat.eqb l 1 | None => false end in
      let k := was_kept oldkeys kept rv in
      match o with
      | Add => if k then here && g_aligned tl (S recindex) else g_aligned tl recindex
      | Del => if negb k then here && g_aligned tl (S recindex) else g_aligned tl recindex
      | Keep => here && g_aligned tl (S recindex)
      end
      && forallb (fun l => negb (Nat.eqb l 0)) lens
  end.
End Aligned.

(* what a planned action stands for *)
Definition paction_dist (a : paction) : list pdist :=
  match a with
  | PUpdate _ d | PSingle d _ | PBlock d _ => [d]
  | _ => []
  end.
Definition paction_eta (a : paction) : list nat :=
  match a with PSingle _ n | PBlock _ n => [n] | _ => [] end.
