(* PV.C04.Lcs — executable model of pharmpy.internals.sequence.lcs (diff, _matrix, _diff) and of
   update.reorder_diff, as pure list functions.  Definitions only. *)
From Coq Require Import List Bool Arith PArith.
Import ListNotations.
Local Open Scope nat_scope.

Inductive op := Keep | Add | Del.          (* 0, +1, -1 *)
Definition op_eqb (a b : op) : bool :=
  match a, b with Keep, Keep | Add, Add | Del, Del => true | _, _ => false end.

Section Diff.
Variable A : Type.
Variable eqb : A -> A -> bool.

(* for a, b in zip(old, new): if a == b: yield (0, b) else break *)
Fixpoint common_prefix (old new : list A) : list A :=
  match old, new with
  | a :: old', b :: new' => if eqb a b then b :: common_prefix old' new' else []
  | _, _ => []
  end.

(* _matrix(a, b): lengths[i+1][j+1], row by row.  A row is the list for j = 0..len b. *)
Fixpoint next_row (x : A) (b : list A) (prev : list nat) (left : nat) : list nat :=
  (* prev = lengths[i][j..], left = lengths[i+1][j]; produces lengths[i+1][j+1..] *)
  match b, prev with
  | y :: b', diag :: ((up :: _) as prev') =>
      let v := if eqb x y then diag + 1 else Nat.max left up in
      v :: next_row x b' prev' v
  | _, _ => []
  end.
Fixpoint rows (a b : list A) (prev : list nat) : list (list nat) :=
  match a with
  | [] => []
  | x :: a' => let r := 0 :: next_row x b prev 0 in r :: rows a' b r
  end.
Definition matrix (a b : list A) : list (list nat) :=
  let r0 := repeat 0 (S (length b)) in r0 :: rows a b r0.

Definition cell (c : list (list nat)) (i j : nat) : nat := nth j (nth i c []) 0.

(* _diff(c, x, y, i, j) with xr = rev x[:i+1], yr = rev y[:j+1] *)
Fixpoint bt (c : list (list nat)) (xr : list A) : list A -> list (op * A) :=
  fix bt_y (yr : list A) : list (op * A) :=
    match xr, yr with
    | [], [] => []
    | [], y :: yr' => bt_y yr' ++ [(Add, y)]
    | x :: xr', [] => bt c xr' [] ++ [(Del, x)]
    | x :: xr', y :: yr' =>
        if eqb x y then bt c xr' yr' ++ [(Keep, x)]
        else if cell c (length xr') (length yr) <=? cell c (length xr) (length yr')
             (* c[i+1][j] >= c[i][j+1] *)
             then bt_y yr' ++ [(Add, y)]
             else bt c xr' yr ++ [(Del, x)]
    end.

Definition diff (old new : list A) : list (op * A) :=
  let pre := common_prefix old new in
  let i := length pre in
  let rold := skipn i old in
  let rnew := skipn i new in
  let saved := common_prefix (rev rold) (rev rnew) in       (* reversed order, as pushed *)
  let k := length saved in
  let rold' := firstn (length rold - k) rold in
  let rnew' := firstn (length rnew - k) rnew in
  map (fun b => (Keep, b)) pre
  ++ bt (matrix rold' rnew') (rev rold') (rev rnew')
  ++ map (fun b => (Keep, b)) (rev saved).

(* what an edit script means *)
Definition olds (d : list (op * A)) : list A :=
  flat_map (fun p => match fst p with Add => [] | _ => [snd p] end) d.
Definition news (d : list (op * A)) : list A :=
  flat_map (fun p => match fst p with Del => [] | _ => [snd p] end) d.
Definition kepts (d : list (op * A)) : list A :=
  flat_map (fun p => match fst p with Keep => [snd p] | _ => [] end) d.

(* longest common subsequence length, the specification of _matrix *)
Fixpoint lcs_len (a : list A) : list A -> nat :=
  fix inner (b : list A) : nat :=
    match a, b with
    | x :: a', y :: b' => if eqb x y then S (lcs_len a' b') else Nat.max (lcs_len a' b) (inner b')
    | _, _ => 0
    end.

End Diff.
Arguments common_prefix {A}. Arguments diff {A}. Arguments olds {A}. Arguments news {A}.
Arguments kepts {A}. Arguments matrix {A}. Arguments bt {A}. Arguments lcs_len {A}.

(* ---- update.reorder_diff(diff, kept_names) --------------------------------------------------- *)
Section Reorder.
Variable A : Type.
Variable name_eqb : A -> A -> bool.      (* curpar.name == param.name *)
Variable in_kept : A -> bool.            (* param.name in kept_names *)

(* scan diff[i+1:]: Some (inl j) = a (+1, same name) at offset j met before any 0;
   Some (inr tt) = a 0 met first; None = end of list (the for-else) *)
Fixpoint scan (p : A) (j : nat) (l : list (op * A)) : option (nat * A + unit) :=
  match l with
  | [] => None
  | (o, q) :: tl =>
      if op_eqb o Add && name_eqb q p then Some (inl (j, q))
      else if op_eqb o Keep then Some (inr tt)
      else scan p (S j) tl
  end.

Fixpoint memn' (x : nat) (l : list nat) : bool :=
  match l with [] => false | y :: tl => Nat.eqb x y || memn' x tl end.

Fixpoint reorder_from (i : nat) (handled : list nat) (l : list (op * A)) : list (op * A) :=
  match l with
  | [] => []
  | (o, p) :: tl =>
      if op_eqb o Del && in_kept p
      then match scan p (S i) tl with
           | Some (inl (j, q)) => (Add, q) :: (Del, p) :: reorder_from (S i) (j :: handled) tl
           | _ => (Del, p) :: reorder_from (S i) handled tl
           end
      else if memn' i handled then reorder_from (S i) handled tl
           else (o, p) :: reorder_from (S i) handled tl
  end.
Definition reorder_diff (d : list (op * A)) : list (op * A) := reorder_from 0 [] d.
End Reorder.
Arguments reorder_diff {A}.
