(* PV.C04.ProofsRv — the record plan of update_random_variable_records on aligned records: one planned
   record (rewritten or created) per in-memory distribution, in the order of the model. *)
From Coq Require Import List NArith Bool Arith Lia.
From PV Require Import C04.Cst C04.Lcs C04.Model C04.ProofsLcs C04.ProofsDriver.
From PV Require Import C04.ModelRv.
Import ListNotations.
Local Open Scope nat_scope.

Lemma texts_eqb_eq (a b : list text) : texts_eqb a b = true -> a = b.
Proof.
  revert b. induction a as [|x a IH]; intros [|y b] H; try discriminate; [reflexivity|].
  cbn in H. apply andb_true_iff in H. destruct H as [H1 H2].
  apply text_eqb_eq in H1. subst y. f_equal. apply IH. exact H2.
Qed.
Lemma pdist_eqb_eq (a b : pdist) : pdist_eqb a b = true -> a = b.
Proof.
  unfold pdist_eqb. intro H. apply andb_true_iff in H. destruct H as [H H3]. apply andb_true_iff in H. destruct H as [H1 H2].
  apply Nat.eqb_eq in H1, H2. apply texts_eqb_eq in H3. destruct a, b; cbn in *. subst. reflexivity.
Qed.

Definition plain_action (a : paction) : bool :=
  match a with PRemove _ _ | PUpdateNew _ => false | _ => true end.

Section Aligned.
Variable oldkeys : list nat.
Variable kept : list text.
Variable lens : list nat.

Lemma flush_idle recindex eta :
  forallb (fun l => negb (Nat.eqb l 0)) lens = true ->
  rv_flush lens (recindex, 0, [], [], eta) = ([], (recindex, 0, [], [], eta)).
Proof.
  intro H. unfold rv_flush. destruct (nth_error lens recindex) as [l|] eqn:E; [|reflexivity].
  assert (Hl : negb (Nat.eqb l 0) = true).
  { rewrite forallb_forall in H. apply H. eapply nth_error_In. exact E. }
  apply negb_true_iff in Hl. rewrite Nat.eqb_sym in Hl. rewrite Hl. reflexivity.
Qed.

Lemma rv_loop_aligned : forall (d : list (op * pdist)) (recindex eta : nat),
  g_aligned oldkeys kept lens d recindex = true ->
  exists plan,
    rv_loop oldkeys kept lens d (recindex, 0, [], [], eta) = Ok plan
    /\ flat_map paction_dist plan = news d
    /\ forallb plain_action plan = true.
Proof.
  induction d as [|[o rv] tl IH]; intros recindex eta G.
  - exists []. repeat split; reflexivity.
  - cbn [g_aligned] in G. apply andb_true_iff in G. destruct G as [G Hl].
    cbn [rv_loop]. unfold rv_entry.
    assert (Hdiag : forall l, nth_error lens recindex = Some l -> Nat.eqb l 1 = true ->
                    in_diag lens recindex rv = false).
    { intros l E H. unfold in_diag. rewrite E. apply Nat.eqb_eq in H. subst l. apply andb_false_r. }
    assert (Step : forall recindex' eta' out,
              g_aligned oldkeys kept lens tl recindex' = true ->
              forallb plain_action out = true ->
              exists plan,
                bind (Ok (out, (recindex', 0, @nil nat, @nil text, eta')))
                  (fun r1 : list paction * pstate => let '(out2, st2) := rv_flush lens (snd r1) in
                     bind (rv_loop oldkeys kept lens tl st2) (fun rest => Ok (fst r1 ++ out2 ++ rest))) = Ok plan
                /\ flat_map paction_dist plan = flat_map paction_dist out ++ news tl
                /\ forallb plain_action plan = true).
    { intros r' e' out G' Hout. cbn [bind snd fst]. rewrite (flush_idle r' e' Hl).
      destruct (IH r' e' G') as [plan [A1 [A2 A3]]]. rewrite A1. cbn [bind app].
      exists (out ++ plan). split; [reflexivity|]. split.
      - rewrite flat_map_app, A2. reflexivity.
      - rewrite forallb_app, Hout, A3. reflexivity. }
    destruct o.
    + (* Keep *)
      apply andb_true_iff in G. destruct G as [Hh G'].
      destruct (nth_error lens recindex) as [l|] eqn:E; [|discriminate].
      rewrite (Hdiag l eq_refl Hh).
      destruct (Step (S recindex) (eta + pd_size rv) [PUpdate recindex rv] G' eq_refl) as [plan [A1 [A2 A3]]].
      exists plan. split; [exact A1|]. split; [exact A2 | exact A3].
    + (* Add *)
      destruct (was_kept oldkeys kept rv) eqn:K.
      * apply andb_true_iff in G. destruct G as [Hh G'].
        destruct (nth_error lens recindex) as [l|] eqn:E; [|discriminate].
        rewrite (Hdiag l eq_refl Hh).
        destruct (Step (S recindex) (eta + pd_size rv) [PUpdate recindex rv] G' eq_refl) as [plan [A1 [A2 A3]]].
        exists plan. split; [exact A1|]. split; [exact A2 | exact A3].
      * destruct (Step recindex (eta + pd_size rv)
                    [if Nat.eqb (pd_size rv) 1 then PSingle rv eta else PBlock rv eta] G) as [plan [A1 [A2 A3]]].
        { destruct (Nat.eqb (pd_size rv) 1); reflexivity. }
        exists plan. split; [exact A1|]. split; [|exact A3].
        rewrite A2. destruct (Nat.eqb (pd_size rv) 1); reflexivity.
    + (* Del *)
      destruct (was_kept oldkeys kept rv) eqn:K; cbn [negb] in *.
      * destruct (Step recindex eta [] G eq_refl) as [plan [A1 [A2 A3]]].
        exists plan. split; [exact A1|]. split; [exact A2 | exact A3].
      * apply andb_true_iff in G. destruct G as [Hh G'].
        destruct (nth_error lens recindex) as [l|] eqn:E; [|discriminate].
        rewrite (Hdiag l eq_refl Hh).
        destruct (Step (S recindex) eta [] G' eq_refl) as [plan [A1 [A2 A3]]].
        exists plan. split; [exact A1|]. split; [exact A2 | exact A3].
Qed.

End Aligned.

(* update_random_variables for one record type, on records each of which holds one distribution
   (BLOCK records and records with a single diagonal item: no DIAGONAL record with several etas is entered): the plan succeeds,
   never shrinks a record, and lists one rewritten or created record per NEW distribution, in the order of
   the in-memory model. *)
Theorem rv_plan_realises_lemma (old_all_keys : list nat) (old_names new_names : list text) (lens : list nat)
        (old new : list pdist) :
  g_aligned old_all_keys (inter_texts old_names new_names) lens (diff pdist_eqb old new) 0 = true ->
  exists plan,
    rv_plan old_all_keys old_names new_names lens old new = Ok plan
    /\ flat_map paction_dist plan = new
    /\ forallb plain_action plan = true.
Proof.
  intro G. unfold rv_plan.
  destruct (rv_loop_aligned _ _ _ _ 0 1 G) as [plan [A1 [A2 A3]]].
  exists plan. split; [exact A1|]. split; [|exact A3].
  rewrite A2. apply (diff_script pdist pdist_eqb pdist_eqb_eq).
Qed.
