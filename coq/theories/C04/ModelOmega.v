(* PV.C04.ModelOmega — executable model of OmegaRecord for records without BLOCK
   (pharmpy/model/external/nonmem/records/omega_record.py: parse / _get_name / update / remove / __len__,
   the "not (block or bare_block)" branches), on the concrete syntax trees of PV.C04.Cst.
   The BLOCK branch of update is modelled as tree surgery given the converted value array (the numpy
   conversion covariance -> sd / correlation / cholesky is an engine).  No proofs in this file. *)
From Coq Require Import List NArith ZArith PArith Bool Arith.
From PV Require Import C04.Cst C04.Lcs C04.Model.
Import ListNotations.
Local Open Scope nat_scope.

Section Omega.
Variable V : Type.
Variable F : fops V.

Record oparam := mkO { o_init : V; o_fix : bool }.
Definition oparam_eqb (a b : oparam) : bool := veqb F (o_init a) (o_init b) && Bool.eqb (o_fix a) (o_fix b).

Definition is_block_record (root : node) : bool :=
  has r_block (children root) || has r_bare_block (children root).

Definition is_item (c : node) : bool := is_tree c && has_rule r_diag_item c.
Definition items_of (root : node) : list node := subtrees r_diag_item (children root).

(* eval_token(node.subtree('init').leaf('NUMERIC')) *)
Definition item_init (ch : list node) : res V := init_value V F ch.
(* n = eval_token(node.subtree('n').leaf('INT')) if node.find('n') else 1 *)
Definition item_n (ch : list node) : res N := multiple ch.

(* OmegaRecord._get_name(node) for the k-th diag_item child of the root: the first NEWLINE/COMMENT with
   a name after the node (its own children included) and before the next item *)
Fixpoint get_name_walk (l : list node) (k : nat) (found : bool) : option text :=
  match l with
  | [] => None
  | c :: tl =>
      if found
      then if has_rule r_omega c || has_rule r_diag_item c then None
           else if has_rule r_NEWLINE c || has_rule r_COMMENT c
                then match comment_name (str c) with
                     | Some nm => Some nm
                     | None => get_name_walk tl k true
                     end
                else get_name_walk tl k true
      else if is_item c
           then match k with O => get_name_walk tl O true | S k' => get_name_walk tl k' false end
           else get_name_walk tl k false
  end.
Definition get_name (root : node) (k : nat) : option text := get_name_walk (walk root) k false.

(* OmegaRecord.parse, diagonal branch, one diag_item: (init, fixed) per eta *)
Definition item_vals (ch : list node) : res (list oparam) :=
  bind (item_init ch) (fun init =>
  let fixed := has r_FIX ch in
  let sd := has r_SD ch in
  let var := has r_VAR ch in
  bind (item_n ch) (fun n =>
  if sd && var then Err ESyntax
  else if veqb F init (vzero F) && negb fixed then Err ESyntax
  else let v := if sd then fsq F init else init in
       Ok (rep n (mkO v fixed)))).

(* ... with the name _get_name finds for it (the same for every copy of an xn item) *)
Definition parse_item (root : node) (k : nat) (c : node) : res (list (option text * oparam)) :=
  bind (item_vals (children c)) (fun vs => Ok (map (fun v => (get_name root k, v)) vs)).

Fixpoint parse_items (root : node) (k : nat) (l : list node) : res (list (option text * oparam)) :=
  match l with
  | [] => Ok []
  | c :: tl => bind (parse_item root k c) (fun a => bind (parse_items root (S k) tl) (fun b => Ok (a ++ b)))
  end.
Definition parse_diag (root : node) : res (list (option text * oparam)) := parse_items root 0 (items_of root).

(* what a diagonal record means (names aside) *)
Definition osem (root : node) : res (list oparam) :=
  bind (mapM item_vals (map children (items_of root))) (fun l => Ok (concat l)).

(* OmegaRecord.__len__ for a diagonal record *)
Definition diag_len (root : node) : res N :=
  bind (mapM (fun t => item_n (children t)) (items_of root)) (fun ns => Ok (fold_left N.add ns 0%N)).

(* ---------------------------------------------------------------- update, diagonal branch *)
Definition ws_tree : node := Tree r_ws [ws_tok].      (* AttrTree.create('ws', {'WS': ' '}) *)

(* replace the init token when the evaluated value differs *)
Definition set_init (ch : list node) (new_init : V) : res (list node) :=
  match subtree r_init ch with
  | None => Err EInternal
  | Some init =>
      match leaf r_NUMERIC (children init) with
      | None => Err EInternal
      | Some t =>
          bind (of_opt (tokval F t)) (fun cur =>
          let init' := if veqb F cur new_init then init
                       else Tree (rule_of init) (replace_first (Tok r_NUMERIC (fmtnum F new_init)) (children init)) in
          Ok (replace_first init' ch))
      end
  end.

Definition add_fix (ch : list node) : list node := insert_before_or_at_end r_RPAR [ws_tok; fix_tok] ch.

(* the loop of the "Need to split xn" branch; ch is the running node.  (Since commit b54b188 every copy gets
   FIX iff its own parameter is fixed; before, the test "new_fix[j] != fix" against the ORIGINAL flag inverted it.) *)
Fixpoint split_items (ch : list node) (vals : list (V * bool)) : res (list node) :=
  match vals with
  | [] => Ok []
  | (v, fx) :: tl =>
      bind (set_init ch v) (fun ch1 =>
      let has_fix := has r_FIX ch1 in
      let ch2 := if fx && negb has_fix then add_fix ch1
                 else if negb fx && has_fix then rtas r_FIX ch1 else ch1 in
      bind (split_items ch2 tl) (fun rest =>
      Ok (Tree r_diag_item ch2 :: match tl with [] => [] | _ => [ws_tree] end ++ rest)))
  end.

Definition all_eqb {A} (eqb : A -> A -> bool) (l : list A) : bool :=
  match l with [] => true | x :: tl => forallb (eqb x) tl end.

Definition update_item (ch : list node) (grp : list oparam) : res (list node) :=
  let sd := has r_SD ch in
  let fix0 := has r_FIX ch in
  let vals := map (fun p => (if sd then fsqrt F (o_init p) else o_init p, o_fix p)) grp in
  match vals with
  | [] => Err EInternal                               (* new_inits[0]: IndexError *)
  | (v0, f0) :: _ =>
      if Nat.eqb (length vals) 1 || (all_eqb (veqb F) (map fst vals) && all_eqb Bool.eqb (map snd vals))
      then bind (set_init ch v0) (fun ch1 =>
           Ok [Tree r_diag_item (if negb (Bool.eqb f0 fix0)
                                 then (if f0 then add_fix ch1 else rtas r_FIX ch1)
                                 else ch1)])
      else split_items (remove_rule r_n ch) vals
  end.

Fixpoint odiag_update_children (ch : list node) (ps : list oparam) : res (list node) :=
  match ch with
  | [] => Ok []
  | c :: tl =>
      if is_item c
      then bind (item_n (children c)) (fun n =>
           let k := N.to_nat n in
           if Nat.ltb (length ps) k then Err EInternal              (* parameters[j]: IndexError *)
           else bind (update_item (children c) (firstn k ps)) (fun cs =>
                bind (odiag_update_children tl (skipn k ps)) (fun tl' => Ok (cs ++ tl'))))
      else bind (odiag_update_children tl ps) (fun tl' => Ok (c :: tl'))
  end.
Definition odiag_update (root : node) (ps : list oparam) : res node :=
  bind (odiag_update_children (children root) ps) (fun ch => Ok (Tree (rule_of root) ch)).

(* ---------------------------------------------------------------- remove, diagonal branch *)
(* inds: indices i of the diag_item NODES to drop; everything from a dropped item (or the DIAGONAL(n)
   option) up to the next kept item goes with it *)
Fixpoint odiag_remove_children (ch : list node) (i : nat) (in_keep : bool) (inds : list nat) : list node * bool :=
  match ch with
  | [] => ([], in_keep)
  | c :: tl =>
      let in_keep1 := if has_rule r_diagonal c then false else in_keep in
      let '(in_keep2, i2) := if has_rule r_diag_item c then (negb (memn' i inds), S i) else (in_keep1, i) in
      let '(rest, final) := odiag_remove_children tl i2 in_keep2 inds in
      ((if in_keep2 then [c] else []) ++ rest, final)
  end.
(* (since commit 5bd60d8 the record keeps its final NEWLINE when the scan dropped it) *)
Definition odiag_remove (root : node) (inds : list nat) : node :=
  match inds with
  | [] => root
  | _ =>
      let '(keep, last_kept) := odiag_remove_children (children root) 0 true inds in
      let keep' := match keep, last (map Some (children root)) None with
                   | _ :: _, Some l => if has_rule r_NEWLINE l && negb last_kept then keep ++ [l] else keep
                   | _, _ => keep
                   end in
      Tree (rule_of root) keep'
  end.

(* ---------------------------------------------------------------- guards *)
Definition g_sd_exact (sd : bool) (p : oparam) : bool :=
  negb sd || veqb F (fsq F (fsqrt F (o_init p))) (o_init p).
Definition g_orepr (p : oparam) : bool := o_fix p || negb (veqb F (o_init p) (vzero F)).
(* ... and the value that is written (the standard deviation on the SD scale) is not 0 either *)
Definition g_owritten (sd : bool) (p : oparam) : bool :=
  o_fix p || negb (veqb F (if sd then fsqrt F (o_init p) else o_init p) (vzero F)).

(* the parameters of a (..)xn item stay equal (otherwise the item is split: values and FIX are written
   correctly since commit b54b188, but the name comment moves to the last copy and later copies are
   re-spelled).  Not a conjunct of the read-back guard any more; used for names / spelling only. *)
Definition g_oxn (ch : list node) (grp : list oparam) : bool :=
  all_eqb (veqb F) (map (@o_init) grp) && all_eqb Bool.eqb (map (@o_fix) grp).

(* the conditions of the read-back theorem for one item and its group of new parameters *)
Definition oguard_item (ch : list node) (n : N) (grp : list oparam) : bool :=
  Nat.eqb (length grp) (N.to_nat n) && negb (N.eqb n 0)
  && forallb (g_sd_exact (has r_SD ch)) grp
  && forallb (g_owritten (has r_SD ch)) grp
  && negb (has r_SD ch && has r_VAR ch).
Fixpoint oguard_children (ch : list node) (ps : list oparam) : bool :=
  match ch with
  | [] => match ps with [] => true | _ => false end
  | c :: tl =>
      if is_item c
      then match item_n (children c), item_init (children c) with
           | Ok n, Ok _ => oguard_item (children c) n (firstn (N.to_nat n) ps)
                           && oguard_children tl (skipn (N.to_nat n) ps)
           | _, _ => false
           end
      else oguard_children tl ps
  end.

(* plain diag item: the children without white space are  init opt*  or  ( opt* init opt* ) [x n]
   with opt in FIX / SD / VAR, at most one of each *)
Definition is_opt (c : node) : bool :=
  negb (is_tree c) && (has_rule r_FIX c || has_rule r_SD c || has_rule r_VAR c).
Definition count_rule (r : rule) (l : list node) : nat := length (filter (has_rule r) l).
Definition n_shape (c : node) : bool :=
  match dec_n c with
  | Some (_, ti) => match int_of_text ti with Some n => (2 <=? n)%N | None => false end
  | None => false
  end.
Definition init_node_ok (c : node) : bool :=
  match c with Tree r [Tok r' t] => Pos.eqb r r_init && Pos.eqb r' r_NUMERIC | _ => false end.
Fixpoint strip_opts (l : list node) : list node :=
  match l with c :: tl => if is_opt c then strip_opts tl else l | [] => [] end.
Definition plain_item (ch : list node) : bool :=
  let l := nt ch in
  forallb (fun c => negb (has_rule r_COMMENT c)) ch
  && Nat.leb (count_rule r_FIX l) 1 && Nat.leb (count_rule r_SD l) 1 && Nat.leb (count_rule r_VAR l) 1
  && negb (Nat.eqb (count_rule r_SD l) 1 && Nat.eqb (count_rule r_VAR l) 1)
  && match l with
     | c :: tl =>
         if init_node_ok c then match strip_opts tl with [] => true | _ => false end
         else if negb (is_tree c) && has_rule r_LPAR c
              then match strip_opts tl with
                   | i :: tl2 =>
                       init_node_ok i &&
                       match strip_opts tl2 with
                       | [rp] => negb (is_tree rp) && has_rule r_RPAR rp
                       | [rp; nn] => negb (is_tree rp) && has_rule r_RPAR rp && n_shape nn
                       | _ => false
                       end
                   | [] => false
                   end
              else false
     | [] => false
     end.

(* which conjunct fails: 1 plain, 2 xn, 3 sd exact, 4 repr, 6 count *)
Fixpoint oguard_fail_children (ch : list node) (ps : list oparam) : list nat :=
  match ch with
  | [] => match ps with [] => [] | _ => [6] end
  | c :: tl =>
      if is_item c
      then match item_n (children c) with
           | Ok n =>
               let k := N.to_nat n in
               let grp := firstn k ps in
               let kk := children c in
               (if plain_item kk then [] else [1])
               ++ (if Nat.eqb (length grp) k && negb (Nat.eqb k 0) then [] else [6])
               ++ (if g_oxn kk grp then [] else [2])
               ++ (if forallb (g_sd_exact (has r_SD kk)) grp then [] else [3])
               ++ (if forallb (g_owritten (has r_SD kk)) grp then [] else [4])
               ++ oguard_fail_children tl (skipn k ps)
           | Err _ => [6]
           end
      else oguard_fail_children tl ps
  end.
Definition oguard_record (root : node) (ps : list oparam) : bool :=
  negb (is_block_record root) && oguard_children (children root) ps.

(* ---------------------------------------------------------------- update, BLOCK branch: tree surgery
   given the array of values to write (inits already converted to the record's scale) *)
Definition is_omega (c : node) : bool := is_tree c && has_rule r_omega c.

(* "NOTE: Split xn": one omega node per value, each made from the running node *)
Fixpoint split_omega (cur : list node) (vs : list V) : res (list node) :=
  match vs with
  | [] => Ok []
  | v :: tl =>
      bind (set_init cur v) (fun c1 =>
      bind (split_omega c1 tl) (fun rest =>
      Ok (Tree r_omega c1 :: match tl with [] => [] | _ => [ws_tree] end ++ rest)))
  end.

Definition update_omega_node (ch : list node) (vals : list V) : res (list node) :=
  match vals with
  | [] => Err EInternal
  | v0 :: _ =>
      if all_eqb (veqb F) vals
      then bind (set_init ch v0) (fun ch1 => Ok [Tree r_omega ch1])
      else (* drop n and the parentheses, then one node per value *)
           split_omega (filter (fun c => negb (has_rule r_n c || has_rule r_LPAR c || has_rule r_RPAR c)) ch) vals
  end.

Fixpoint oblock_update_children (ch : list node) (arr : list V) : res (list node) :=
  match ch with
  | [] => Ok []
  | c :: tl =>
      if is_omega c
      then bind (item_n (children c)) (fun n =>
           let k := N.to_nat n in
           if Nat.ltb (length arr) k || Nat.eqb k 0 then Err EInternal
           else bind (update_omega_node (children c) (firstn k arr)) (fun cs =>
                bind (oblock_update_children tl (skipn k arr)) (fun tl' => Ok (cs ++ tl'))))
      else bind (oblock_update_children tl arr) (fun tl' => Ok (c :: tl'))
  end.

(* _block_flags: fix only (error cases are not modelled: they are refused when the record is read) *)
Definition block_fix (root : node) : bool :=
  has r_FIX (children root) || existsb (fun c => is_omega c && has r_FIX (children c)) (children root).

Definition oblock_update (root : node) (arr : list V) (new_fix : bool) : res node :=
  if has r_same (children root) then Ok root
  else bind (oblock_update_children (children root) arr) (fun ch =>
       let fix0 := block_fix root in
       let ch' := if negb (Bool.eqb new_fix fix0)
                  then (if new_fix then insert_after r_block [ws_tok; fix_tok] ch else rtas_rec r_FIX ch)
                  else ch in
       Ok (Tree (rule_of root) ch')).

End Omega.
Arguments mkO {V}. Arguments o_init {V}. Arguments o_fix {V}.

(* what a BLOCK record's tokens say: the initial values in order ((v)xn expanded) - on the record's own
   scale - and whether FIX appears anywhere *)
Section BlockRead.
Variable V : Type.
Variable F : fops V.
Definition omega_vals (ch : list node) : res (list V) :=
  bind (init_value V F ch) (fun v => bind (multiple ch) (fun n => Ok (rep n v))).
Definition block_inits (root : node) : res (list V) :=
  bind (mapM omega_vals (map children (subtrees r_omega (children root)))) (fun l => Ok (concat l)).

(* each (v)xn group of the record receives n values *)
Fixpoint oblock_guard (ch : list node) (arr : list V) : bool :=
  match ch with
  | [] => match arr with [] => true | _ => false end
  | c :: tl =>
      if is_omega c
      then match multiple (children c), init_value V F (children c) with
           | Ok n, Ok _ => Nat.leb (N.to_nat n) (length arr) && negb (N.eqb n 0)
                           && oblock_guard tl (skipn (N.to_nat n) arr)
           | _, _ => false
           end
      else oblock_guard tl arr
  end.
End BlockRead.
