(* PV.C04.ProofsOmega — read-back of OmegaRecord.update on a diagonal record. *)
From Coq Require Import List NArith ZArith PArith Bool Arith Lia.
From PV Require Import C04.Cst C04.Lcs C04.Model C04.ModelOmega C04.ProofsTheta C04.ProofsTheta2.
Import ListNotations.
Local Open Scope nat_scope.

(* ---- find / subtree / has through filter --------------------------------------------------- *)
Lemma find_filter r l : find r l = hd_error (filter (has_rule r) l).
Proof. induction l as [|c tl IH]; [reflexivity|]. cbn [find filter]. destruct (has_rule r c); [reflexivity | exact IH]. Qed.
Lemma subtree_filter r l : subtree r l = hd_error (filter (fun c => is_tree c && has_rule r c) l).
Proof. induction l as [|c tl IH]; [reflexivity|]. cbn [subtree filter]. destruct (is_tree c && has_rule r c); [reflexivity | exact IH]. Qed.

Lemma filter_rev {A} (P : A -> bool) l : filter P (rev l) = rev (filter P l).
Proof.
  induction l as [|x tl IH]; [reflexivity|]. cbn [rev filter]. rewrite filter_app, IH. cbn [filter].
  destruct (P x); [reflexivity | apply app_nil_r].
Qed.

Lemma rtas_aux_filter (P : node -> bool) r0 acc l :
  (forall c, has_rule r_WS c = true -> P c = false) -> (forall c, has_rule r0 c = true -> P c = false) ->
  filter P (rtas_aux r0 acc l) = rev (filter P acc) ++ filter P l.
Proof.
  intros Hws Hr. revert acc. induction l as [|x tl IH]; intro acc.
  - cbn [rtas_aux filter]. rewrite filter_rev. symmetry. apply app_nil_r.
  - cbn [rtas_aux]. destruct (has_rule r0 x) eqn:Hx.
    + cbn [filter]. rewrite (Hr x Hx).
      destruct acc as [|w acc']; [apply IH|]. destruct (has_rule r_WS w) eqn:Hw.
      * rewrite IH. cbn [filter]. rewrite (Hws w Hw). reflexivity.
      * apply IH.
    + rewrite IH. cbn [filter]. destruct (P x); [|reflexivity]. cbn [rev]. rewrite <- app_assoc. reflexivity.
Qed.
Lemma rtas_filter P r0 l :
  (forall c, has_rule r_WS c = true -> P c = false) -> (forall c, has_rule r0 c = true -> P c = false) ->
  filter P (rtas r0 l) = filter P l.
Proof. intros H1 H2. unfold rtas. rewrite rtas_aux_filter by assumption. reflexivity. Qed.

Lemma ins_before_spec r nodes ch :
  let '(l, found) := ins_before r nodes ch in
  (forall P, (forall c, In c nodes -> P c = false) -> filter P l = filter P ch)
  /\ (found = true -> forall x, In x nodes -> In x l).
Proof.
  induction ch as [|x tl IH]; cbn [ins_before].
  - split; [intros; reflexivity | discriminate].
  - destruct (ins_before r nodes tl) as [tl' found]. destruct IH as [IH1 IH2].
    destruct (has_rule r x).
    + split.
      * intros P HP. rewrite filter_app. cbn [filter]. rewrite (IH1 P HP).
        assert (E : filter P nodes = []).
        { clear -HP. induction nodes as [|y ys IHy]; [reflexivity|]. cbn [filter].
          rewrite (HP y (or_introl eq_refl)). apply IHy. intros c Hc. apply HP. right. exact Hc. }
        rewrite E. reflexivity.
      * intros _ y Hy. apply in_or_app. left. exact Hy.
    + split.
      * intros P HP. cbn [filter]. rewrite (IH1 P HP). reflexivity.
      * intros Hf y Hy. right. exact (IH2 Hf y Hy).
Qed.

Lemma insert_filter P r nodes ch :
  (forall c, In c nodes -> P c = false) -> filter P (insert_before_or_at_end r nodes ch) = filter P ch.
Proof.
  intro HP. unfold insert_before_or_at_end. pose proof (ins_before_spec r nodes ch) as H.
  destruct (ins_before r nodes ch) as [l found]. destruct H as [H1 _].
  destruct found; [apply H1; exact HP|]. rewrite filter_app, (H1 P HP).
  assert (E : filter P nodes = []).
  { clear -HP. induction nodes as [|y ys IHy]; [reflexivity|]. cbn [filter].
    rewrite (HP y (or_introl eq_refl)). apply IHy. intros c Hc. apply HP. right. exact Hc. }
  rewrite E. apply app_nil_r.
Qed.
Lemma insert_in r nodes ch x : In x nodes -> In x (insert_before_or_at_end r nodes ch).
Proof.
  intro Hx. unfold insert_before_or_at_end. pose proof (ins_before_spec r nodes ch) as H.
  destruct (ins_before r nodes ch) as [l found]. destruct H as [_ H2].
  destruct found; [apply H2; [reflexivity | exact Hx]|]. apply in_or_app. right. exact Hx.
Qed.

Lemma has_in r l c : In c l -> has_rule r c = true -> has r l = true.
Proof.
  unfold has. induction l as [|x tl IH]; [contradiction|]. intros [->|Hin] Hc; cbn [find].
  - rewrite Hc. reflexivity.
  - destruct (has_rule r x); [reflexivity | exact (IH Hin Hc)].
Qed.
Lemma has_false_filter r l : filter (has_rule r) l = [] -> has r l = false.
Proof. intro H. unfold has. rewrite find_filter, H. reflexivity. Qed.

Lemma has_eq_filter r l l' : filter (has_rule r) l = filter (has_rule r) l' -> has r l = has r l'.
Proof. intro H. unfold has. rewrite !find_filter, H. reflexivity. Qed.
Lemma subtree_eq_filter r l l' :
  filter (fun c => is_tree c && has_rule r c) l = filter (fun c => is_tree c && has_rule r c) l' ->
  subtree r l = subtree r l'.
Proof. intro H. rewrite !subtree_filter, H. reflexivity. Qed.
Lemma find_eq_filter r l l' : filter (has_rule r) l = filter (has_rule r) l' -> find r l = find r l'.
Proof. intro H. rewrite !find_filter, H. reflexivity. Qed.

(* a predicate that only looks at a rule different from r1, r2 is false on nodes of those rules *)
Lemma rule_pred_false r r1 c : Pos.eqb r1 r = false -> has_rule r1 c = true -> has_rule r c = false.
Proof. unfold has_rule. intros H H1. apply Pos.eqb_eq in H1. rewrite H1. exact H. Qed.

Section OmegaReadback.
Variable V : Type.
Variable F : fops V.
Hypothesis HF : fops_ok F.

(* every reading of an item that does not look at FIX or white space is unchanged by adding / removing FIX *)
Lemma readings_same (ch ch' : list node) :
  (forall r, Pos.eqb r_WS r = false -> Pos.eqb r_FIX r = false ->
     filter (has_rule r) ch' = filter (has_rule r) ch
     /\ filter (fun c => is_tree c && has_rule r c) ch' = filter (fun c => is_tree c && has_rule r c) ch) ->
  item_init V F ch' = item_init V F ch /\ item_n ch' = item_n ch
  /\ has r_SD ch' = has r_SD ch /\ has r_VAR ch' = has r_VAR ch.
Proof.
  intro H.
  destruct (H r_init eq_refl eq_refl) as [_ Hi]. destruct (H r_n eq_refl eq_refl) as [Hn1 Hn2].
  destruct (H r_SD eq_refl eq_refl) as [Hsd _]. destruct (H r_VAR eq_refl eq_refl) as [Hvar _].
  unfold item_init, init_value, item_n, multiple.
  rewrite (subtree_eq_filter r_init _ _ Hi), (find_eq_filter r_n _ _ Hn1), (subtree_eq_filter r_n _ _ Hn2).
  rewrite (has_eq_filter r_SD _ _ Hsd), (has_eq_filter r_VAR _ _ Hvar). repeat split; reflexivity.
Qed.

Lemma add_fix_readings ch :
  has r_FIX (add_fix ch) = true /\
  (forall r, Pos.eqb r_WS r = false -> Pos.eqb r_FIX r = false ->
     filter (has_rule r) (add_fix ch) = filter (has_rule r) ch
     /\ filter (fun c => is_tree c && has_rule r c) (add_fix ch) = filter (fun c => is_tree c && has_rule r c) ch).
Proof.
  unfold add_fix. split.
  - apply (has_in r_FIX _ fix_tok); [apply insert_in; right; left; reflexivity | reflexivity].
  - intros r Hw Hf. split; apply insert_filter; intros c [<-|[<-|[]]]; unfold has_rule, ws_tok, fix_tok;
      cbn [rule_of is_tree andb]; rewrite ?Hw, ?Hf; reflexivity.
Qed.

Lemma rtas_fix_readings ch :
  has r_FIX (rtas r_FIX ch) = false /\
  (forall r, Pos.eqb r_WS r = false -> Pos.eqb r_FIX r = false ->
     filter (has_rule r) (rtas r_FIX ch) = filter (has_rule r) ch
     /\ filter (fun c => is_tree c && has_rule r c) (rtas r_FIX ch) = filter (fun c => is_tree c && has_rule r c) ch).
Proof.
  split.
  - apply has_false_filter.
    assert (H : forall acc l, filter (has_rule r_FIX) acc = [] -> filter (has_rule r_FIX) (rtas_aux r_FIX acc l) = []).
    { intros acc l. revert acc. induction l as [|x tl IH]; intros acc Ha.
      - cbn [rtas_aux]. rewrite filter_rev, Ha. reflexivity.
      - cbn [rtas_aux]. destruct (has_rule r_FIX x) eqn:Hx.
        + destruct acc as [|w acc']; [apply IH; reflexivity|].
          cbn [filter] in Ha. destruct (has_rule r_FIX w) eqn:Hw; [discriminate|].
          destruct (has_rule r_WS w); apply IH; [exact Ha | cbn [filter]; rewrite Hw; exact Ha].
        + apply IH. cbn [filter]. rewrite Hx. exact Ha. }
    apply H. reflexivity.
  - intros r Hw Hf. split; apply rtas_filter; intros c Hc.
    + exact (rule_pred_false r r_WS c Hw Hc).
    + exact (rule_pred_false r r_FIX c Hf Hc).
    + rewrite (rule_pred_false r r_WS c Hw Hc). apply andb_false_r.
    + rewrite (rule_pred_false r r_FIX c Hf Hc). apply andb_false_r.
Qed.

(* set_init: the init token now evaluates to v, everything else reads as before *)
Lemma replace_first_filter_other (c : node) (P : node -> bool) l :
  P c = false -> (forall x, has_rule (rule_of c) x = true -> P x = false) ->
  filter P (replace_first c l) = filter P l.
Proof.
  intros Hc Hx. induction l as [|x tl IH]; [reflexivity|]. cbn [replace_first].
  destruct (has_rule (rule_of c) x) eqn:E.
  - cbn [filter]. rewrite Hc, (Hx x E). reflexivity.
  - cbn [filter]. rewrite IH. reflexivity.
Qed.

Lemma subtree_replace_first (c : node) l x :
  is_tree c = true -> subtree (rule_of c) l = Some x -> subtree (rule_of c) (replace_first c l) = Some c.
Proof.
  intros Hc. induction l as [|y tl IH]; [discriminate|]. cbn [subtree replace_first].
  destruct (has_rule (rule_of c) y) eqn:E.
  - intros _. cbn [subtree]. rewrite Hc. unfold has_rule at 1. rewrite Pos.eqb_refl. reflexivity.
  - rewrite andb_false_r. intro H. cbn [subtree]. rewrite E, andb_false_r. exact (IH H).
Qed.

Lemma set_init_spec ch v cur :
  item_init V F ch = Ok cur ->
  exists ch1, set_init V F ch v = Ok ch1 /\ item_init V F ch1 = Ok v
    /\ has r_FIX ch1 = has r_FIX ch /\ has r_SD ch1 = has r_SD ch /\ has r_VAR ch1 = has r_VAR ch
    /\ item_n ch1 = item_n ch.
Proof.
  unfold item_init, init_value, set_init. intro H.
  destruct (subtree r_init ch) as [init|] eqn:Si; [|discriminate].
  destruct (leaf r_NUMERIC (children init)) as [t|] eqn:Lf; [|discriminate].
  destruct (tokval F t) as [c0|] eqn:Tv; [|discriminate]. cbn in H. injection H as ->. cbn [of_opt bind].
  destruct (subtree_has _ _ _ Si) as [Hr Ht]. apply Pos.eqb_eq in Hr.
  set (init' := if veqb F cur v then init
                else Tree (rule_of init) (replace_first (Tok r_NUMERIC (fmtnum F v)) (children init))).
  assert (Hrule : rule_of init' = r_init). { unfold init'. destruct (veqb F cur v); cbn; exact Hr. }
  assert (Htree : is_tree init' = true). { unfold init'. destruct (veqb F cur v); [exact Ht | reflexivity]. }
  exists (replace_first init' ch). split; [reflexivity|].
  assert (Hsub : subtree r_init (replace_first init' ch) = Some init').
  { rewrite <- Hrule. apply (subtree_replace_first init' ch init Htree). rewrite Hrule. exact Si. }
  split.
  - rewrite Hsub. unfold init'. destruct (veqb F cur v) eqn:E.
    + apply (veqb_true F HF) in E. subst v. rewrite Lf, Tv. reflexivity.
    + cbn [children]. destruct init as [ri ti|ri chi]; [discriminate|]. cbn [children] in *.
      assert (L : leaf r_NUMERIC (replace_first (Tok r_NUMERIC (fmtnum F v)) chi) = Some (fmtnum F v)).
      { clear -Lf. induction chi as [|x tl IH]; [discriminate|].
        cbn [replace_first]. unfold has_rule at 1. cbn [rule_of].
        destruct x as [r' t'|r' c']; cbn [rule_of leaf] in *.
        - destruct (Pos.eqb r' r_NUMERIC) eqn:E.
          + reflexivity.
          + cbn [leaf]. rewrite E. apply IH. exact Lf.
        - destruct (Pos.eqb r' r_NUMERIC) eqn:E.
          + reflexivity.
          + cbn [leaf]. apply IH. exact Lf. }
      rewrite L, (tok_fmt F HF). reflexivity.
  - assert (Hother : forall r, Pos.eqb r_init r = false ->
              filter (has_rule r) (replace_first init' ch) = filter (has_rule r) ch
              /\ filter (fun c => is_tree c && has_rule r c) (replace_first init' ch)
                 = filter (fun c => is_tree c && has_rule r c) ch).
    { intros r Hne. split; apply replace_first_filter_other.
      - unfold has_rule. rewrite Hrule. exact Hne.
      - intros x Hx. rewrite Hrule in Hx. exact (rule_pred_false r r_init x Hne Hx).
      - unfold has_rule. rewrite Hrule, Hne. apply andb_false_r.
      - intros x Hx. rewrite Hrule in Hx. rewrite (rule_pred_false r r_init x Hne Hx). apply andb_false_r. }
    destruct (Hother r_FIX eq_refl) as [Hf _]. destruct (Hother r_SD eq_refl) as [Hs _].
    destruct (Hother r_VAR eq_refl) as [Hv _]. destruct (Hother r_n eq_refl) as [Hn1 Hn2].
    rewrite (has_eq_filter _ _ _ Hf), (has_eq_filter _ _ _ Hs), (has_eq_filter _ _ _ Hv).
    unfold item_n, multiple. rewrite (find_eq_filter _ _ _ Hn1), (subtree_eq_filter _ _ _ Hn2).
    repeat split; reflexivity.
Qed.

End OmegaReadback.

Section OmegaRecord.
Variable V : Type.
Variable F : fops V.
Hypothesis HF : fops_ok F.

Lemma all_eqb_repeat {A} (eqb : A -> A -> bool) (x : A) k : (forall a, eqb a a = true) -> all_eqb eqb (repeat x k) = true.
Proof.
  intro R. destruct k as [|k]; [reflexivity|]. cbn [repeat all_eqb].
  induction k as [|k IH]; [reflexivity|]. cbn [repeat forallb]. rewrite R. exact IH.
Qed.

Lemma oparam_eqb_eq (a b : oparam V) : oparam_eqb V F a b = true -> a = b.
Proof.
  unfold oparam_eqb. intro H. apply andb_true_iff in H. destruct H as [H1 H2].
  apply (veqb_true F HF) in H1. apply Bool.eqb_prop in H2. destruct a, b; cbn in *. subst. reflexivity.
Qed.

(* a uniform group is a repetition of its first parameter *)
Lemma oxn_repeat (ch : list node) (grp : list (oparam V)) p tl :
  grp = p :: tl -> g_oxn V F ch grp = true -> grp = repeat p (length grp).
Proof.
  intros -> H. unfold g_oxn in H. apply andb_true_iff in H. destruct H as [Hi Hf].
  cbn [map all_eqb] in Hi, Hf. cbn [length repeat]. f_equal.
  induction tl as [|q tl IH]; [reflexivity|].
  cbn [map forallb] in Hi, Hf. apply andb_true_iff in Hi, Hf. destruct Hi as [Hi1 Hi2]. destruct Hf as [Hf1 Hf2].
  cbn [length repeat]. f_equal; [|exact (IH Hi2 Hf2)].
  apply (veqb_true F HF) in Hi1. apply Bool.eqb_prop in Hf1. destruct p, q; cbn in *. subst. reflexivity.
Qed.

Lemma update_item_uniform (ch : list node) (p : oparam V) (n : N) (cur : V) :
  item_init V F ch = Ok cur -> item_n ch = Ok n -> N.eqb n 0 = false ->
  g_sd_exact V F (has r_SD ch) p = true -> g_owritten V F (has r_SD ch) p = true ->
  has r_SD ch && has r_VAR ch = false ->
  exists ch', update_item V F ch (repeat p (N.to_nat n)) = Ok [Tree r_diag_item ch']
              /\ item_vals V F ch' = Ok (rep n p).
Proof.
  intros Hi Hn Hn0 Gsd Gw Hsv.
  unfold update_item.
  set (v0 := if has r_SD ch then fsqrt F (o_init p) else o_init p).
  assert (Hvals : map (fun q => (if has r_SD ch then fsqrt F (o_init q) else o_init q, o_fix q)) (repeat p (N.to_nat n))
                  = repeat (v0, o_fix p) (N.to_nat n)).
  { exact (map_repeat (fun q : oparam V => (if has r_SD ch then fsqrt F (o_init q) else o_init q, o_fix q)) p (N.to_nat n)). }
  rewrite Hvals.
  destruct (N.to_nat n) as [|k] eqn:Ek; [apply N.eqb_neq in Hn0; lia|].
  assert (Hall : all_eqb (veqb F) (map fst (repeat (v0, o_fix p) (S k))) &&
                 all_eqb Bool.eqb (map snd (repeat (v0, o_fix p) (S k))) = true).
  { rewrite !map_repeat. cbn [fst snd]. rewrite (all_eqb_repeat _ _ _ (veqb_refl F HF)).
    rewrite (all_eqb_repeat _ _ _ Bool.eqb_reflx). reflexivity. }
  change (repeat (v0, o_fix p) (S k)) with ((v0, o_fix p) :: repeat (v0, o_fix p) k) in Hall |- *.
  cbv iota beta. rewrite Hall, orb_true_r.
  destruct (set_init_spec V F HF ch v0 cur Hi) as [ch1 [Hs [Hi1 [Hf1 [Hsd1 [Hv1 Hn1]]]]]].
  rewrite Hs. cbn [bind].
  set (ch' := if negb (Bool.eqb (o_fix p) (has r_FIX ch))
              then (if o_fix p then add_fix ch1 else rtas r_FIX ch1) else ch1).
  exists ch'. split; [reflexivity|].
  (* the readings of ch' *)
  assert (R : item_init V F ch' = Ok v0 /\ item_n ch' = Ok n /\ has r_SD ch' = has r_SD ch
              /\ has r_VAR ch' = has r_VAR ch /\ has r_FIX ch' = o_fix p).
  { unfold ch'. destruct (Bool.eqb (o_fix p) (has r_FIX ch)) eqn:Eb; cbn [negb].
    - apply Bool.eqb_prop in Eb. rewrite Hi1, Hn1, Hn, Hsd1, Hv1, Hf1, Eb. repeat split; reflexivity.
    - destruct (o_fix p) eqn:Ef.
      + destruct (add_fix_readings ch1) as [Hfx Hr]. destruct (readings_same V F _ _ Hr) as [A [B [C D]]].
        rewrite A, B, C, D, Hi1, Hn1, Hn, Hsd1, Hv1, Hfx. repeat split; reflexivity.
      + destruct (rtas_fix_readings ch1) as [Hfx Hr]. destruct (readings_same V F _ _ Hr) as [A [B [C D]]].
        rewrite A, B, C, D, Hi1, Hn1, Hn, Hsd1, Hv1, Hfx. repeat split; reflexivity. }
  destruct R as [Ri [Rn [Rsd [Rvar Rfix]]]].
  unfold item_vals. rewrite Ri, Rn, Rsd, Rvar, Rfix. cbn [bind]. rewrite Hsv.
  unfold g_owritten in Gw. fold v0 in Gw.
  assert (Hz : veqb F v0 (vzero F) && negb (o_fix p) = false).
  { destruct (o_fix p); [apply andb_false_r|]. cbn in Gw. apply negb_true_iff in Gw. rewrite Gw. reflexivity. }
  rewrite Hz. f_equal. f_equal. unfold v0. destruct p as [pi pf]. cbn [o_init o_fix] in *. f_equal.
  unfold g_sd_exact in Gsd. destruct (has r_SD ch); [|reflexivity].
  cbn in Gsd. apply (veqb_true F HF) in Gsd. exact Gsd.
Qed.

(* dropping the repeat count keeps the other readings and makes the count 1 *)
Lemma remove_n_readings (ch : list node) :
  item_init V F (remove_rule r_n ch) = item_init V F ch /\ item_n (remove_rule r_n ch) = Ok 1%N
  /\ has r_FIX (remove_rule r_n ch) = has r_FIX ch /\ has r_SD (remove_rule r_n ch) = has r_SD ch
  /\ has r_VAR (remove_rule r_n ch) = has r_VAR ch.
Proof.
  unfold remove_rule.
  assert (Hf : forall r, Pos.eqb r_n r = false -> forall Q : node -> bool, (forall c, Q c = true -> has_rule r c = true) ->
            filter Q (filter (fun c => negb (has_rule r_n c)) ch) = filter Q ch).
  { intros r H1 Q HQ. induction ch as [|c tl IH]; [reflexivity|]. cbn [filter].
    destruct (has_rule r_n c) eqn:En; cbn [negb filter]; [|rewrite IH; reflexivity].
    destruct (Q c) eqn:Eq; [|exact IH]. exfalso. apply HQ in Eq. rewrite (rule_pred_false r r_n c H1 En) in Eq. discriminate. }
  split; [|split; [|split; [|split]]].
  - unfold item_init, init_value. rewrite !subtree_filter.
    rewrite (Hf r_init eq_refl (fun c => is_tree c && has_rule r_init c)); [reflexivity|].
    intros c H. apply andb_true_iff in H. tauto.
  - unfold item_n, multiple. rewrite find_filter.
    assert (E : filter (has_rule r_n) (filter (fun c => negb (has_rule r_n c)) ch) = []).
    { clear Hf. induction ch as [|c tl IH]; [reflexivity|]. cbn [filter].
      destruct (has_rule r_n c) eqn:En; cbn [negb]; [exact IH|]. cbn [filter]. rewrite En. exact IH. }
    rewrite E. reflexivity.
  - unfold has. rewrite !find_filter, (Hf r_FIX eq_refl (has_rule r_FIX)); [reflexivity | auto].
  - unfold has. rewrite !find_filter, (Hf r_SD eq_refl (has_rule r_SD)); [reflexivity | auto].
  - unfold has. rewrite !find_filter, (Hf r_VAR eq_refl (has_rule r_VAR)); [reflexivity | auto].
Qed.

Definition conv (sd : bool) (p : oparam V) : V * bool := (if sd then fsqrt F (o_init p) else o_init p, o_fix p).

(* the split branch (since commit b54b188): one item per parameter, each meaning exactly its parameter *)
Lemma split_items_spec (sd var : bool) (grp : list (oparam V)) : forall cur c0,
  item_init V F cur = Ok c0 -> item_n cur = Ok 1%N -> has r_SD cur = sd -> has r_VAR cur = var ->
  sd && var = false ->
  forallb (g_sd_exact V F sd) grp = true -> forallb (g_owritten V F sd) grp = true ->
  exists out,
    split_items V F cur (map (conv sd) grp) = Ok out
    /\ mapM (item_vals V F) (map children (subtrees r_diag_item out)) = Ok (map (fun p => [p]) grp).
Proof.
  induction grp as [|p tl IH]; intros cur c0 Hi Hn Hsd Hvar Hsv Gsd Gw.
  - exists []. split; reflexivity.
  - cbn [forallb] in Gsd, Gw. apply andb_true_iff in Gsd, Gw. destruct Gsd as [Gsd1 Gsd2]. destruct Gw as [Gw1 Gw2].
    cbn [map split_items conv].
    set (v := if sd then fsqrt F (o_init p) else o_init p).
    destruct (set_init_spec V F HF cur v c0 Hi) as [ch1 [Hs [Hi1 [Hf1 [Hsd1 [Hv1 Hn1]]]]]].
    rewrite Hs. cbn [bind].
    set (ch2 := if o_fix p && negb (has r_FIX ch1) then add_fix ch1
                else if negb (o_fix p) && has r_FIX ch1 then rtas r_FIX ch1 else ch1).
    assert (R : item_init V F ch2 = Ok v /\ item_n ch2 = Ok 1%N /\ has r_SD ch2 = sd /\ has r_VAR ch2 = var
                /\ has r_FIX ch2 = o_fix p).
    { unfold ch2. destruct (o_fix p) eqn:Ef; destruct (has r_FIX ch1) eqn:Eh; cbn [andb negb].
      - rewrite Hi1, Hn1, Hn, Hsd1, Hv1, Hsd, Hvar. repeat split; reflexivity || exact Eh.
      - destruct (add_fix_readings ch1) as [Hfx Hr]. destruct (readings_same V F _ _ Hr) as [A [B [C D]]].
        rewrite A, B, C, D, Hi1, Hn1, Hn, Hsd1, Hv1, Hfx, Hsd, Hvar. repeat split; reflexivity.
      - destruct (rtas_fix_readings ch1) as [Hfx Hr]. destruct (readings_same V F _ _ Hr) as [A [B [C D]]].
        rewrite A, B, C, D, Hi1, Hn1, Hn, Hsd1, Hv1, Hfx, Hsd, Hvar. repeat split; reflexivity.
      - rewrite Hi1, Hn1, Hn, Hsd1, Hv1, Hsd, Hvar. repeat split; reflexivity || exact Eh. }
    destruct R as [Ri [Rn [Rsd [Rvar Rfix]]]].
    destruct (IH ch2 v Ri Rn Rsd Rvar Hsv Gsd2 Gw2) as [rest [Hrest Hvals]].
    rewrite Hrest. cbn [bind].
    eexists. split; [reflexivity|].
    assert (Hsub : forall l, subtrees r_diag_item (Tree r_diag_item ch2 :: match tl with [] => [] | _ => [ws_tree] end ++ l)
                   = Tree r_diag_item ch2 :: subtrees r_diag_item l).
    { intro l. destruct tl; reflexivity. }
    assert (Hmap : match map (conv sd) tl with [] => [] | _ :: _ => [ws_tree] end = match tl with [] => [] | _ => [ws_tree] end)
      by (destruct tl; reflexivity).
    rewrite Hmap, Hsub. cbn [map children]. apply mapM_cons; [|exact Hvals].
    unfold item_vals. rewrite Ri, Rn, Rsd, Rvar, Rfix. cbn [bind]. rewrite Hsv.
    unfold g_owritten in Gw1. fold v in Gw1.
    assert (Hz : veqb F v (vzero F) && negb (o_fix p) = false).
    { destruct (o_fix p); [apply andb_false_r|]. cbn in Gw1. apply negb_true_iff in Gw1. rewrite Gw1. reflexivity. }
    rewrite Hz. unfold rep. change (N.to_nat 1) with 1%nat. cbn [repeat]. f_equal. f_equal.
    destruct p as [pi pf]. cbn [o_init o_fix] in *. f_equal. unfold v.
    unfold g_sd_exact in Gsd1. destruct sd; [|reflexivity].
    cbn in Gsd1. apply (veqb_true F HF) in Gsd1. exact Gsd1.
Qed.

Lemma all_eqb_all {A} (eqb : A -> A -> bool) (l : list A) x tl :
  (forall a b, eqb a b = true -> a = b) -> l = x :: tl -> all_eqb eqb l = true -> l = repeat x (length l).
Proof.
  intros E -> H. cbn [all_eqb] in H. cbn [length repeat]. f_equal.
  induction tl as [|y tl IH]; [reflexivity|]. cbn [forallb] in H. apply andb_true_iff in H. destruct H as [H1 H2].
  apply E in H1. subst y. cbn [length repeat]. f_equal. exact (IH H2).
Qed.

(* update of one item with its group of parameters, uniform or not *)
Lemma update_item_spec (ch : list node) (grp : list (oparam V)) (n : N) (cur : V) :
  item_init V F ch = Ok cur -> item_n ch = Ok n -> length grp = N.to_nat n -> N.eqb n 0 = false ->
  forallb (g_sd_exact V F (has r_SD ch)) grp = true -> forallb (g_owritten V F (has r_SD ch)) grp = true ->
  has r_SD ch && has r_VAR ch = false ->
  exists out VS, update_item V F ch grp = Ok out
    /\ mapM (item_vals V F) (map children (subtrees r_diag_item out)) = Ok VS /\ concat VS = grp.
Proof.
  intros Hi Hn Hlen Hn0 Gsd Gw Hsv.
  destruct grp as [|p grp'] eqn:Eg; [cbn in Hlen; apply N.eqb_neq in Hn0; lia|]. rewrite <- Eg in *.
  set (sd := has r_SD ch) in *.
  set (vals := map (conv sd) grp).
  assert (Hvals : map (fun q => (if sd then fsqrt F (o_init q) else o_init q, o_fix q)) grp = vals) by reflexivity.
  unfold update_item. fold sd. rewrite Hvals.
  assert (Hv0 : vals = conv sd p :: map (conv sd) grp') by (unfold vals; rewrite Eg; reflexivity).
  rewrite Hv0. cbv iota beta. rewrite <- Hv0. unfold conv at 1. cbv iota beta.
  destruct (Nat.eqb (length vals) 1 || (all_eqb (veqb F) (map fst vals) && all_eqb Bool.eqb (map snd vals))) eqn:Eu.
  - (* one item: all converted values are equal, hence (exact SD scale) all parameters *)
    assert (Hall : grp = repeat p (N.to_nat n)).
    { rewrite <- Hlen.
      assert (Hc : forall q, In q grp -> conv sd q = conv sd p).
      { apply orb_true_iff in Eu. destruct Eu as [Eu|Eu].
        - apply Nat.eqb_eq in Eu. unfold vals in Eu. rewrite map_length in Eu. rewrite Eg in *.
          destruct grp'; [|discriminate]. intros q [<-|[]]. reflexivity.
        - apply andb_true_iff in Eu. destruct Eu as [E1 E2].
          assert (F1 : map fst vals = repeat (fst (conv sd p)) (length (map fst vals))).
          { apply (all_eqb_all (veqb F) _ (fst (conv sd p)) (map fst (map (conv sd) grp')) (veqb_true F HF)); [rewrite Hv0; reflexivity | exact E1]. }
          assert (F2 : map snd vals = repeat (snd (conv sd p)) (length (map snd vals))).
          { apply (all_eqb_all Bool.eqb _ (snd (conv sd p)) (map snd (map (conv sd) grp')) Bool.eqb_prop); [rewrite Hv0; reflexivity | exact E2]. }
          intros q Hq. assert (Hin : In (conv sd q) vals) by (unfold vals; apply in_map; exact Hq).
          destruct (conv sd q) as [a b] eqn:Eq. destruct (conv sd p) as [a0 b0] eqn:Ep. cbn [fst snd] in *.
          assert (In a (map fst vals)) by (change a with (fst (a, b)); apply in_map; exact Hin).
          assert (In b (map snd vals)) by (change b with (snd (a, b)); apply in_map; exact Hin).
          rewrite F1 in H. rewrite F2 in H0. apply repeat_spec in H, H0. subst. reflexivity. }
      assert (Hp : forall q, In q grp -> q = p).
      { intros q Hq. pose proof (Hc q Hq) as E. unfold conv in E. injection E as E1 E2.
        assert (Gq : g_sd_exact V F sd q = true) by (rewrite forallb_forall in Gsd; apply Gsd; exact Hq).
        assert (Gp : g_sd_exact V F sd p = true) by (rewrite forallb_forall in Gsd; apply Gsd; rewrite Eg; left; reflexivity).
        destruct q as [qi qf], p as [pi pf]. cbn [o_init o_fix] in *. subst qf. f_equal.
        unfold g_sd_exact in Gq, Gp. cbn [o_init] in Gq, Gp. destruct sd; [|exact E1].
        cbn in Gq, Gp. apply (veqb_true F HF) in Gq, Gp. rewrite <- Gq, <- Gp, E1. reflexivity. }
      clear -Hp. induction grp as [|q tl IH]; [reflexivity|]. cbn [length repeat].
      rewrite (Hp q (or_introl eq_refl)). f_equal. apply IH. intros x Hx. apply Hp. right. exact Hx. }
    assert (Gsd1 : g_sd_exact V F sd p = true) by (rewrite forallb_forall in Gsd; apply Gsd; rewrite Eg; left; reflexivity).
    assert (Gw1 : g_owritten V F sd p = true) by (rewrite forallb_forall in Gw; apply Gw; rewrite Eg; left; reflexivity).
    destruct (update_item_uniform ch p n cur Hi Hn Hn0 Gsd1 Gw1 Hsv) as [c' [Hu Hv]].
    unfold update_item in Hu. fold sd in Hu. rewrite <- Hall, Hvals, Hv0 in Hu. cbv iota beta in Hu. rewrite <- Hv0 in Hu.
    unfold conv at 1 in Hu. cbv iota beta in Hu. rewrite Eu in Hu.
    exists [Tree r_diag_item c'], [rep n p]. split; [exact Hu|]. split.
    + cbn. rewrite Hv. reflexivity.
    + cbn [concat]. rewrite app_nil_r. unfold rep. symmetry. exact Hall.
  - (* the group is split *)
    destruct (remove_n_readings ch) as [R1 [R2 [R3 [R4 R5]]]].
    destruct (split_items_spec sd (has r_VAR ch) grp (remove_rule r_n ch) cur (eq_trans R1 Hi) R2 R4 R5 Hsv Gsd Gw)
      as [out [Ho Hv]].
    exists out, (map (fun q => [q]) grp). split; [exact Ho|]. split; [exact Hv|].
    clear. induction grp as [|q tl IH]; [reflexivity|]. cbn. f_equal. exact IH.
Qed.

Lemma ovalues_update (ch : list node) (ps : list (oparam V)) :
  oguard_children V F ch ps = true ->
  exists ch' VS,
    odiag_update_children V F ch ps = Ok ch'
    /\ mapM (item_vals V F) (map children (subtrees r_diag_item ch')) = Ok VS
    /\ concat VS = ps.
Proof.
  revert ps. induction ch as [|c tl IH]; intros ps G.
  - cbn in G. destruct ps; [|discriminate]. exists [], []. repeat split; reflexivity.
  - cbn [oguard_children] in G. cbn [odiag_update_children].
    destruct (is_item c) eqn:Et.
    + destruct (item_n (children c)) as [n|e] eqn:En; [|discriminate].
      destruct (item_init V F (children c)) as [cur|e] eqn:Ei; [|discriminate].
      apply andb_true_iff in G. destruct G as [Gi Gtl].
      unfold oguard_item in Gi.
      apply andb_true_iff in Gi. destruct Gi as [Gi Gsv]. apply andb_true_iff in Gi. destruct Gi as [Gi Gw].
      apply andb_true_iff in Gi. destruct Gi as [Gi Gsd].
      apply andb_true_iff in Gi. destruct Gi as [Glen Gn0].
      apply Nat.eqb_eq in Glen. apply negb_true_iff in Gn0. apply negb_true_iff in Gsv.
      cbn [bind].
      assert (Hlt : Nat.ltb (length ps) (N.to_nat n) = false).
      { apply Nat.ltb_ge. rewrite <- Glen. rewrite firstn_length. lia. }
      rewrite Hlt.
      destruct (update_item_spec (children c) (firstn (N.to_nat n) ps) n cur Ei En Glen Gn0 Gsd Gw Gsv)
        as [out [VS0 [Hu [Hv Hc]]]].
      rewrite Hu. cbn [bind].
      destruct (IH _ Gtl) as [tl' [VS [Hutl [HVS Hcat]]]]. rewrite Hutl. cbn [bind].
      exists (out ++ tl'), (VS0 ++ VS). split; [reflexivity|].
      assert (Hsub : subtrees r_diag_item (out ++ tl') = subtrees r_diag_item out ++ subtrees r_diag_item tl').
      { unfold subtrees. apply filter_app. }
      rewrite Hsub, map_app. split.
      { clear -Hv HVS. revert VS0 Hv. generalize (map children (subtrees r_diag_item out)) as l.
        induction l as [|x xs IHx]; intros VS0 Hv.
        - cbn in Hv. injection Hv as <-. exact HVS.
        - cbn [mapM app] in *. destruct (item_vals V F x) as [y|]; [|discriminate]. cbn [bind] in *.
          destruct (mapM (item_vals V F) xs) as [ys|] eqn:Ey; [|discriminate]. cbn [bind] in Hv. injection Hv as <-.
          rewrite (IHx ys eq_refl). reflexivity. }
      rewrite concat_app, Hc, Hcat. apply firstn_skipn.
    + destruct (IH _ G) as [tl' [VS [Hutl [HVS Hcat]]]]. rewrite Hutl. cbn [bind].
      exists (c :: tl'), VS. split; [reflexivity|].
      assert (Hs : subtrees r_diag_item (c :: tl') = subtrees r_diag_item tl').
      { unfold subtrees. cbn [filter]. unfold is_item in Et. rewrite Et. reflexivity. }
      rewrite Hs. split; assumption.
Qed.

(* OmegaRecord.update on a diagonal record, read back *)
Theorem odiag_update_readback (root : node) (ps : list (oparam V)) :
  oguard_record V F root ps = true ->
  exists root', odiag_update V F root ps = Ok root' /\ osem V F root' = Ok ps.
Proof.
  unfold oguard_record, odiag_update. intro G. apply andb_true_iff in G. destruct G as [_ G].
  destruct (ovalues_update _ _ G) as [ch' [VS [Hu [HVS Hcat]]]].
  rewrite Hu. cbn [bind]. eexists. split; [reflexivity|].
  unfold osem, items_of. cbn [children]. rewrite HVS. cbn [bind]. rewrite Hcat. reflexivity.
Qed.

End OmegaRecord.

(* ================================================================ BLOCK records: the surgery writes the array *)
Section BlockProofs.
Variable V : Type.
Variable F : fops V.
Hypothesis HF : fops_ok F.

Lemma all_eqb_true_repeat (l : list V) v tl : l = v :: tl -> all_eqb (veqb F) l = true -> l = repeat v (length l).
Proof.
  intros -> H. cbn [all_eqb] in H. cbn [length repeat]. f_equal.
  induction tl as [|w tl IH]; [reflexivity|]. cbn [forallb] in H. apply andb_true_iff in H. destruct H as [H1 H2].
  apply (veqb_true F HF) in H1. subst w. cbn [length repeat]. f_equal. exact (IH H2).
Qed.

(* filtering out the repeat count and the parentheses keeps the init readable *)
Lemma strip_readings (ch : list node) :
  let ch0 := filter (fun c => negb (has_rule r_n c || has_rule r_LPAR c || has_rule r_RPAR c)) ch in
  init_value V F ch0 = init_value V F ch /\ multiple ch0 = Ok 1%N /\ has r_FIX ch0 = has r_FIX ch.
Proof.
  cbv zeta. set (P := fun c => negb (has_rule r_n c || has_rule r_LPAR c || has_rule r_RPAR c)).
  assert (Hf : forall r, Pos.eqb r_n r = false -> Pos.eqb r_LPAR r = false -> Pos.eqb r_RPAR r = false ->
            forall Q : node -> bool, (forall c, Q c = true -> has_rule r c = true) ->
            filter Q (filter P ch) = filter Q ch).
  { intros r H1 H2 H3 Q HQ. induction ch as [|c tl IH]; [reflexivity|]. cbn [filter].
    destruct (P c) eqn:Ep; cbn [filter]; [rewrite IH; reflexivity|].
    destruct (Q c) eqn:Eq; [|exact IH]. exfalso. apply HQ in Eq. unfold P in Ep.
    apply negb_false_iff in Ep. apply orb_true_iff in Ep. destruct Ep as [Ep|Ep]; [apply orb_true_iff in Ep; destruct Ep as [Ep|Ep]|].
    - rewrite (rule_pred_false r r_n c H1 Ep) in Eq. discriminate.
    - rewrite (rule_pred_false r r_LPAR c H2 Ep) in Eq. discriminate.
    - rewrite (rule_pred_false r r_RPAR c H3 Ep) in Eq. discriminate. }
  split; [|split].
  - unfold init_value. rewrite !subtree_filter.
    rewrite (Hf r_init eq_refl eq_refl eq_refl (fun c => is_tree c && has_rule r_init c)); [reflexivity|].
    intros c H. apply andb_true_iff in H. tauto.
  - unfold multiple. rewrite find_filter.
    assert (E : filter (has_rule r_n) (filter P ch) = []).
    { clear Hf. induction ch as [|c tl IH]; [reflexivity|]. cbn [filter]. destruct (P c) eqn:Ep; [|exact IH].
      cbn [filter]. destruct (has_rule r_n c) eqn:En; [|exact IH]. unfold P in Ep. rewrite En in Ep. discriminate. }
    rewrite E. reflexivity.
  - unfold has. rewrite !find_filter.
    rewrite (Hf r_FIX eq_refl eq_refl eq_refl (has_rule r_FIX)); [reflexivity | auto].
Qed.

Lemma split_go (vs : list V) : forall cur c0,
  init_value V F cur = Ok c0 -> multiple cur = Ok 1%N -> vs <> [] ->
  exists out,
    split_omega V F cur vs = Ok out
    /\ mapM (omega_vals V F) (map children (subtrees r_omega out)) = Ok (map (fun v => [v]) vs)
    /\ (forall c, In c out -> is_omega c = true -> has r_FIX (children c) = has r_FIX cur)
    /\ (exists c, In c out /\ is_omega c = true).
Proof.
  induction vs as [|v tl IH]; intros cur c0 Hi Hn Hne; [contradiction|].
  destruct (set_init_spec V F HF cur v c0 Hi) as [c1 [Hs [Hi1 [Hf1 [_ [_ Hn1]]]]]].
  unfold item_init, item_n in *. cbn [split_omega]. rewrite Hs. cbn [bind].
  destruct tl as [|v2 tl2].
  - exists [Tree r_omega c1]. cbn [split_omega bind app]. split; [reflexivity|]. split.
    + cbn. unfold omega_vals. rewrite Hi1, Hn1, Hn. reflexivity.
    + split; [intros c [<-|[]] _; exact Hf1 | exists (Tree r_omega c1); split; [left; reflexivity | reflexivity]].
  - destruct (IH c1 v Hi1 (eq_trans Hn1 Hn) ltac:(discriminate)) as [out [Hgo [Hvals [Hfix _]]]].
    rewrite Hgo. cbn [bind]. exists (Tree r_omega c1 :: [ws_tree] ++ out). split; [reflexivity|]. split.
    + change (map children (subtrees r_omega (Tree r_omega c1 :: [ws_tree] ++ out)))
        with (c1 :: map children (subtrees r_omega out)).
      cbn [map]. apply mapM_cons; [|exact Hvals]. unfold omega_vals. rewrite Hi1, Hn1, Hn. reflexivity.
    + split; [|exists (Tree r_omega c1); split; [left; reflexivity | reflexivity]].
      intros c [<-|[<-|Hin]] Ho.
      * exact Hf1.
      * discriminate Ho.
      * rewrite (Hfix c Hin Ho). exact Hf1.
Qed.

Lemma update_omega_node_spec (ch : list node) (vals : list V) (n : N) (c0 : V) :
  init_value V F ch = Ok c0 -> multiple ch = Ok n -> length vals = N.to_nat n -> N.eqb n 0 = false ->
  exists out VS,
    update_omega_node V F ch vals = Ok out
    /\ mapM (omega_vals V F) (map children (subtrees r_omega out)) = Ok VS /\ concat VS = vals
    /\ (forall c, In c out -> is_omega c = true -> has r_FIX (children c) = has r_FIX ch)
    /\ (exists c, In c out /\ is_omega c = true).
Proof.
  intros Hi Hn Hlen Hn0. unfold update_omega_node.
  destruct vals as [|v0 tl] eqn:Ev; [cbn in Hlen; apply N.eqb_neq in Hn0; lia|]. rewrite <- Ev in *.
  destruct (all_eqb (veqb F) vals) eqn:Ea.
  - destruct (set_init_spec V F HF ch v0 c0 Hi) as [c1 [Hs [Hi1 [Hf1 [_ [_ Hn1]]]]]].
    unfold item_init, item_n in *. rewrite Hs. cbn [bind].
    exists [Tree r_omega c1], [rep n v0]. split; [reflexivity|]. split.
    + cbn. unfold omega_vals. rewrite Hi1, Hn1, Hn. reflexivity.
    + split.
      * cbn [concat]. rewrite app_nil_r. unfold rep. rewrite <- Hlen.
        symmetry. apply (all_eqb_true_repeat vals v0 tl Ev Ea).
      * split; [intros c [<-|[]] _; exact Hf1 | exists (Tree r_omega c1); split; [left; reflexivity | reflexivity]].
  - destruct (strip_readings ch) as [S1 [S2 S3]].
    set (ch0 := filter (fun c => negb (has_rule r_n c || has_rule r_LPAR c || has_rule r_RPAR c)) ch) in *.
    destruct (split_go vals ch0 c0 (eq_trans S1 Hi) S2 ltac:(rewrite Ev; discriminate)) as [out [Hgo [Hvals [Hfix Hex]]]].
    exists out, (map (fun v => [v]) vals). split; [exact Hgo|]. split; [exact Hvals|]. split.
    + clear. induction vals as [|v tl IH]; [reflexivity|]. cbn. f_equal. exact IH.
    + split; [intros c Hin Ho; rewrite (Hfix c Hin Ho); exact S3 | exact Hex].
Qed.

End BlockProofs.

Section BlockRecord.
Variable V : Type.
Variable F : fops V.
Hypothesis HF : fops_ok F.

Definition inner_fix (ch : list node) : bool := existsb (fun c => is_omega c && has r_FIX (children c)) ch.

Lemma existsb_app' {A} (f : A -> bool) a b : existsb f (a ++ b) = existsb f a || existsb f b.
Proof. apply existsb_app. Qed.

Lemma oblock_children_spec (ch : list node) : forall arr,
  oblock_guard V F ch arr = true ->
  exists ch' VS,
    oblock_update_children V F ch arr = Ok ch'
    /\ mapM (omega_vals V F) (map children (subtrees r_omega ch')) = Ok VS /\ concat VS = arr
    /\ inner_fix ch' = inner_fix ch
    /\ (forall r, Pos.eqb r_omega r = false -> Pos.eqb r_ws r = false ->
          filter (has_rule r) ch' = filter (has_rule r) ch).
Proof.
  induction ch as [|c tl IH]; intros arr G.
  - cbn in G. destruct arr; [|discriminate]. exists [], []. repeat split; reflexivity.
  - cbn [oblock_guard] in G. cbn [oblock_update_children].
    destruct (is_omega c) eqn:Eo.
    + destruct (multiple (children c)) as [n|e] eqn:En; [|discriminate].
      destruct (init_value V F (children c)) as [c0|e] eqn:Ei; [|discriminate].
      apply andb_true_iff in G. destruct G as [G Gtl]. apply andb_true_iff in G. destruct G as [Gle Gn0].
      apply Nat.leb_le in Gle. apply negb_true_iff in Gn0.
      unfold item_n. rewrite En. cbn [bind].
      assert (E1 : Nat.ltb (length arr) (N.to_nat n) || Nat.eqb (N.to_nat n) 0 = false).
      { apply orb_false_iff. split; [apply Nat.ltb_ge; exact Gle|]. apply Nat.eqb_neq. apply N.eqb_neq in Gn0. lia. }
      rewrite E1.
      destruct (update_omega_node_spec V F HF (children c) (firstn (N.to_nat n) arr) n c0 Ei En
                  ltac:(rewrite firstn_length; lia) Gn0) as [out [VS0 [Hu [Hv [Hc [Hfix [cx [Hin Hox]]]]]]]].
      rewrite Hu. cbn [bind].
      destruct (IH _ Gtl) as [tl' [VS [Hutl [HVS [Hcat [Hif Hoth]]]]]]. rewrite Hutl. cbn [bind].
      exists (out ++ tl'), (VS0 ++ VS). split; [reflexivity|].
      assert (Hsub : subtrees r_omega (out ++ tl') = subtrees r_omega out ++ subtrees r_omega tl').
      { unfold subtrees. apply filter_app. }
      rewrite Hsub, map_app. split.
      { clear -Hv HVS. revert VS0 Hv. generalize (map children (subtrees r_omega out)) as l.
        induction l as [|x xs IHx]; intros VS0 Hv.
        - cbn in Hv. injection Hv as <-. exact HVS.
        - cbn [mapM app] in *. destruct (omega_vals V F x) as [y|]; [|discriminate]. cbn [bind] in *.
          destruct (mapM (omega_vals V F) xs) as [ys|] eqn:Ey; [|discriminate]. cbn [bind] in Hv. injection Hv as <-.
          rewrite (IHx ys eq_refl). reflexivity. }
      split; [rewrite concat_app, Hc, Hcat; apply firstn_skipn|].
      split.
      * unfold inner_fix. rewrite existsb_app'. fold (inner_fix tl'). rewrite Hif.
        cbn [existsb]. rewrite Eo. cbn [andb]. fold (inner_fix tl). f_equal.
        (* every omega node of out has the FIX of c, and there is one *)
        destruct (has r_FIX (children c)) eqn:Ef.
        -- apply existsb_exists. exists cx. split; [exact Hin|]. rewrite Hox, (Hfix cx Hin Hox). reflexivity.
        -- apply not_true_is_false. intro Hex. apply existsb_exists in Hex. destruct Hex as [y [Hy Hy2]].
           apply andb_true_iff in Hy2. destruct Hy2 as [Hy2 Hy3]. rewrite (Hfix y Hy Hy2) in Hy3. discriminate.
      * intros r Hr1 Hr2. rewrite filter_app, (Hoth r Hr1 Hr2). cbn [filter].
        assert (Ec : has_rule r c = false).
        { unfold is_omega in Eo. apply andb_true_iff in Eo. destruct Eo as [_ Eo]. exact (rule_pred_false r r_omega c Hr1 Eo). }
        rewrite Ec.
        assert (Eout : filter (has_rule r) out = []).
        { clear -Hu Hr1 Hr2. unfold update_omega_node in Hu.
          destruct (firstn (N.to_nat n) arr) as [|v0 vs]; [discriminate|].
          destruct (all_eqb (veqb F) (v0 :: vs)).
          - destruct (set_init V F (children c) v0); [|discriminate]. cbn in Hu. injection Hu as <-.
            cbn [filter]. unfold has_rule. cbn [rule_of]. rewrite Hr1. reflexivity.
          - revert Hu. generalize (filter (fun c1 => negb (has_rule r_n c1 || has_rule r_LPAR c1 || has_rule r_RPAR c1)) (children c)).
            generalize (v0 :: vs) as l. intro l. revert out.
            induction l as [|v tl0 IHl]; intros out cur Hu; cbn [split_omega] in Hu.
            + injection Hu as <-. reflexivity.
            + destruct (set_init V F cur v) as [c1|]; [|discriminate]. cbn [bind] in Hu.
              destruct (split_omega V F c1 tl0) as [rest|] eqn:Er; [|discriminate]. cbn [bind] in Hu. injection Hu as <-.
              cbn [filter]. unfold has_rule at 1. cbn [rule_of]. rewrite Hr1.
              rewrite filter_app, (IHl rest c1 Er).
              destruct tl0; [reflexivity|]. cbn [filter]. unfold has_rule, ws_tree. cbn [rule_of]. rewrite Hr2. reflexivity. }
        rewrite Eout. reflexivity.
    + destruct (IH _ G) as [tl' [VS [Hutl [HVS [Hcat [Hif Hoth]]]]]]. rewrite Hutl. cbn [bind].
      exists (c :: tl'), VS. split; [reflexivity|].
      assert (Hs : subtrees r_omega (c :: tl') = subtrees r_omega tl').
      { unfold subtrees. cbn [filter]. unfold is_omega in Eo. rewrite Eo. reflexivity. }
      rewrite Hs. split; [exact HVS|]. split; [exact Hcat|]. split.
      * unfold inner_fix. cbn [existsb]. rewrite Eo. cbn [andb orb]. exact Hif.
      * intros r H1 H2. cbn [filter]. rewrite (Hoth r H1 H2). reflexivity.
Qed.

(* OmegaRecord.update on a BLOCK record: the init tokens of the regenerated tree are exactly the values
   handed to the surgery and FIX is present iff asked for - proved for "FIX unchanged" and "FIX added"
   (partial: the recursive FIX removal is tied by the correspondence only) *)
Theorem oblock_update_writes_array_partial (root : node) (arr : list V) (nf : bool) :
  has r_same (children root) = false -> has r_block (children root) = true ->
  oblock_guard V F (children root) arr = true ->
  (nf = block_fix root \/ nf = true) ->
  exists root', oblock_update V F root arr nf = Ok root'
    /\ block_inits V F root' = Ok arr /\ block_fix root' = nf.
Proof.
  intros Hsame Hblock G Hnf. unfold oblock_update. rewrite Hsame.
  destruct (oblock_children_spec _ _ G) as [ch' [VS [Hu [HVS [Hcat [Hif Hoth]]]]]].
  rewrite Hu. cbn [bind].
  assert (Hfx : has r_FIX ch' = has r_FIX (children root)).
  { apply has_eq_filter. apply Hoth; reflexivity. }
  assert (Hbf : has r_FIX ch' || inner_fix ch' = block_fix root).
  { rewrite Hfx, Hif. reflexivity. }
  destruct (Bool.eqb nf (block_fix root)) eqn:Eb.
  - apply Bool.eqb_prop in Eb. cbn [negb]. eexists. split; [reflexivity|]. split.
    + unfold block_inits. cbn [children]. rewrite HVS. cbn [bind]. rewrite Hcat. reflexivity.
    + unfold block_fix at 1. cbn [children]. fold (inner_fix ch'). rewrite Hbf. symmetry. exact Eb.
  - cbn [negb]. destruct Hnf as [ -> | -> ]; [rewrite Bool.eqb_reflx in Eb; discriminate|].
    eexists. split; [reflexivity|].
    set (ch2 := insert_after r_block [ws_tok; fix_tok] ch').
    assert (Hsub : subtrees r_omega ch2 = subtrees r_omega ch').
    { unfold ch2, insert_after, subtrees. clear. induction ch' as [|x xs IHx]; [reflexivity|].
      cbn [flat_map]. rewrite filter_app, IHx. destruct (has_rule r_block x); cbn [filter]; unfold ws_tok, fix_tok;
        cbn [is_tree andb app]; destruct (is_tree x && has_rule r_omega x); reflexivity. }
    split.
    + unfold block_inits. cbn [children]. rewrite Hsub, HVS. cbn [bind]. rewrite Hcat. reflexivity.
    + unfold block_fix. cbn [children].
      assert (Hb' : has r_block ch' = true).
      { rewrite <- Hblock. apply has_eq_filter. apply Hoth; reflexivity. }
      assert (Hf2 : has r_FIX ch2 = true).
      { unfold has in Hb'. destruct (find r_block ch') as [b|] eqn:Efb; [|discriminate].
        unfold ch2, insert_after. clear -Efb. induction ch' as [|x xs IHx]; [discriminate|].
        cbn [find] in Efb. cbn [flat_map]. destruct (has_rule r_block x) eqn:Ex.
        - apply (has_in r_FIX _ fix_tok); [right; right; left; reflexivity | reflexivity].
        - unfold has. cbn [app find]. destruct (has_rule r_FIX x); [reflexivity|]. apply IHx. exact Efb. }
      rewrite Hf2. reflexivity.
Qed.

End BlockRecord.
