(* PV.C04.Examples — non-vacuity: concrete, non-trivial inputs meeting the hypotheses / guards of
   the theorems of Properties.v. *)
From Coq Require Import List NArith ZArith PArith Bool.
From PV Require Import C04.Proofs C04.Refuted.
Import ListNotations.
Local Open Scope Z_scope.

(* the float laws assumed by the theorems hold of a concrete printing / parsing pair *)
Example float_laws_satisfiable : fops_ok demo.
Proof. exact demo_ok. Qed.

(* "$THETA (0.5,1.5,2) FIX ; TVCL\n 3 (1)x2": four parameters in three thetas, one repeat group.
   New parameters: THETA_1 unfixed with lower -inf and upper 3, THETA_2 gets bounds (0, 4, 10),
   the repeat group as a whole becomes 2.5 within (1, 5).  The guard holds ... *)
Definition ex_ps : list (param Z) :=
  [P 15 MInf (Fin 30) false; P 40 (Fin 0) (Fin 100) false; P 25 (Fin 10) (Fin 50) false; P 25 (Fin 10) (Fin 50) false].

Example guard_record_nonvacuous : guard_record Z demo w_plain3 ex_ps = true.
Proof. vm_compute. reflexivity. Qed.

(* ... the regenerated text is " (-inf,1.5,3) ; TVCL\n (0,4.0,10) (1,2.5,5)x2\n", it is accepted, and it means ex_ps *)
Example readback_example :
  exists root', theta_update Z demo w_plain3 ex_ps = Ok root'
    /\ str root' = T [32; 40; 45; 105; 110; 102; 44; 49; 46; 53; 44; 51; 41; 32; 59; 32; 84; 86; 67; 76; 10;
                      32; 40; 48; 44; 52; 46; 48; 44; 49; 48; 41; 32; 40; 49; 44; 50; 46; 53; 44; 53; 41; 120; 50; 10]%nat
    /\ reparse_ok root' = true
    /\ sem Z demo (relex root') = Ok ex_ps.
Proof. eexists. repeat split; vm_compute; reflexivity. Qed.

(* the hypotheses of theta_update_grammatical on the repeat group "(1)x2" *)
Example grammatical_nonvacuous :
  let ch := children (nth 8 (children w_plain3) w_plain3) in
  plain_theta Z demo ch = true /\ multiple ch = Ok 2%N /\ g_xn_nofix Z ch 2%N (P 25 (Fin 10) (Fin 50) false) = true
  /\ exists ch', update_theta Z demo ch (P 25 (Fin 10) (Fin 50) false) = Ok (ch', 2%N).
Proof. cbv zeta. repeat split; try (vm_compute; reflexivity). eexists. vm_compute. reflexivity. Qed.

(* an unchanged record is left alone token for token when its bounds are spelled canonically *)
Example noop_example :
  theta_update Z demo w_xn [P 10 (Fin 0) (Fin 20) false; P 10 (Fin 0) (Fin 20) false] = Ok w_xn.
Proof. vm_compute. reflexivity. Qed.

(* diff on [1;2;3;4] -> [1;3;5;4]: keep 1, delete 2, keep 3, add 5, keep 4 *)
Example diff_example :
  diff Nat.eqb [1; 2; 3; 4]%nat [1; 3; 5; 4]%nat = [(Keep, 1); (Del, 2); (Keep, 3); (Add, 5); (Keep, 4)]%nat.
Proof. vm_compute. reflexivity. Qed.

(* update_thetas over two records: one kept untouched, a parameter added at the end *)
Example update_thetas_example :
  exists roots,
    update_thetas Z demo [w_names] [(n1, P 10 MInf PInf false); (n2, P 20 MInf PInf false); (n3, P 30 MInf PInf false)]
      [(n1, P 10 MInf PInf false); (n2, P 25 (Fin 0) PInf false); (n3, P 30 MInf PInf false);
       (T [75; 65]%nat, P 5 (Fin 0) (Fin 10) true)] = Ok roots
    /\ map str roots = [T [32; 49; 32; 40; 48; 44; 50; 46; 53; 41; 32; 51; 10]%nat;      (* " 1 (0,2.5) 3\n" *)
                        T [32; 32; 40; 48; 44; 48; 46; 53; 44; 49; 46; 48; 41; 32; 70; 73; 88; 32; 59; 32; 75; 65; 10]%nat].
                        (* "  (0,0.5,1.0) FIX ; KA\n" *)
Proof. eexists. split; vm_compute; reflexivity. Qed.

(* "$OMEGA 0.1 ; IIV_CL\n (0.2 FIX)x2 (SD 0.5)": new variances 0.3, the repeat group unfixed as a whole with
   0.4, the SD item fixed with variance 0.9 (demo arithmetic: sqrt and square are the identity on tenths) *)
Example omega_guard_nonvacuous :
  oguard_record Z demo w_oplain [O 3 false; O 4 false; O 4 false; O 9 true] = true.
Proof. vm_compute. reflexivity. Qed.
Example omega_readback_example :
  exists root', odiag_update Z demo w_oplain [O 3 false; O 4 false; O 4 false; O 9 true] = Ok root'
    /\ str root' = T [32; 48; 46; 51; 32; 59; 32; 73; 73; 86; 95; 67; 76; 10; 32; 40; 48; 46; 52; 41; 120; 50; 32;
                      40; 83; 68; 32; 48; 46; 57; 32; 70; 73; 88; 41; 10]%nat     (* " 0.3 ; IIV_CL\n (0.4)x2 (SD 0.9 FIX)\n" *)
    /\ osem Z demo root' = Ok [O 3 false; O 4 false; O 4 false; O 9 true].
Proof. eexists. repeat split; vm_compute; reflexivity. Qed.

(* reorder_diff on the script of "THETA_2 changed, THETA_3 removed": the +1 of the changed parameter is moved
   in front of its -1; the hypothesis of reorder_diff_perm (distinct removed kept names) holds *)
Example reorder_example :
  let d := [(Keep, 1%nat); (Del, 2%nat); (Del, 3%nat); (Add, 2%nat); (Keep, 4%nat)] in
  reorder_diff Nat.eqb (fun x => Nat.eqb x 2) d = [(Keep, 1%nat); (Add, 2%nat); (Del, 2%nat); (Del, 3%nat); (Keep, 4%nat)]
  /\ NoDup (map (fun x => snd x) (filter (fun x => op_eqb (fst x) Del && Nat.eqb (snd x) 2) d)).
Proof. cbv zeta. split; [vm_compute; reflexivity|]. vm_compute. constructor; [intros []|constructor]. Qed.

(* without distinct names the hypothesis is needed: both removals grab the same addition *)
Example reorder_needs_distinct_names :
  reorder_diff Nat.eqb (fun _ => true) [(Del, 1%nat); (Del, 1%nat); (Add, 1%nat)]
  = [(Add, 1%nat); (Del, 1%nat); (Add, 1%nat); (Del, 1%nat)].
Proof. vm_compute. reflexivity. Qed.

(* create_theta_record for a fixed parameter with bounds (0, 0.5, 1.0) in the demo instance *)
Example create_example :
  g_repr Z demo (P 5 (Fin 0) (Fin 10) true) = true
  /\ str (create_theta_root Z demo (T [75; 65]%nat) (P 5 (Fin 0) (Fin 10) true))
     = T [32; 32; 40; 48; 44; 48; 46; 53; 44; 49; 46; 48; 41; 32; 70; 73; 88; 32; 59; 32; 75; 65; 10]%nat.
Proof. split; vm_compute; reflexivity. Qed.

(* spelling: "(0.5,1.5,2) FIX" with only the init changed keeps "0.5" and "2" (canonical), and an
   unchanged init keeps "1.5" *)
Example spelling_example :
  let ch := children (nth 1 (children w_plain3) w_plain3) in
  exists ch', update_theta Z demo ch (P 15 (Fin 5) (Fin 20) true) = Ok (ch', 1%N)
    /\ tok_text r_init ch' = tok_text r_init ch /\ tok_text r_low ch' = tok_text r_low ch
    /\ tok_text r_up ch' = tok_text r_up ch.
Proof. cbv zeta. eexists. repeat split; vm_compute; reflexivity. Qed.

(* "$OMEGA BLOCK(3)\n 0.5 (0.1)x2 0.6\n 0.1 0.7": new values 0.5 0.2 0.3 0.6 0.1 0.7 (the (0.1)x2 group has to
   be split) and FIX added: the tokens read back as exactly these values, FIX is there *)
Example oblock_example :
  has r_same (children w_oblock) = false /\ has r_block (children w_oblock) = true
  /\ oblock_guard Z demo (children w_oblock) [5; 2; 3; 6; 1; 7] = true
  /\ exists root', oblock_update Z demo w_oblock [5; 2; 3; 6; 1; 7] true = Ok root'
       /\ block_inits Z demo root' = Ok [5; 2; 3; 6; 1; 7] /\ block_fix root' = true
       /\ str root' = T [32; 66; 76; 79; 67; 75; 40; 51; 41; 32; 70; 73; 88; 10; 32; 48; 46; 53; 32; 48; 46; 50; 32; 48; 46; 51;
                          32; 48; 46; 54; 10; 32; 48; 46; 49; 32; 48; 46; 55; 10]%nat.
                          (* " BLOCK(3) FIX\n 0.5 0.2 0.3 0.6\n 0.1 0.7\n" *)
Proof. repeat split; try (vm_compute; reflexivity). eexists. repeat split; vm_compute; reflexivity. Qed.

(* update_thetas_realises_values on "$THETA 1 2 3" + "$THETA 4 ; KA": THETA_2 gets a lower bound and a new
   value, KA is unchanged (its one-theta record is kept as it is) *)
Definition nKA : text := T [75; 65]%nat.
Definition ex_old : list (nparam Z) :=
  [(n1, P 10 MInf PInf false); (n2, P 20 MInf PInf false); (n3, P 30 MInf PInf false); (nKA, P 40 MInf PInf false)].
Definition ex_parts : list (part Z) :=
  [(w_names, [(n1, P 10 MInf PInf false); (n2, P 25 (Fin 0) PInf false); (n3, P 30 MInf PInf false)]);
   (w_single, [(nKA, P 40 MInf PInf false)])].
Example driver_example :
  let new := concat (map snd ex_parts) in
  map fst ex_old = map fst new
  /\ Forall (part_ok Z demo) ex_parts
  /\ news (reorder_diff (name_eqb Z) (fun p => mem_text (fst p) (inter_names (names_of Z ex_old) (names_of Z new)))
            (diff (nparam_eqb Z demo) ex_old new)) = new
  /\ (forall r p q, In (r, [p]) ex_parts -> In q ex_old -> fst q = fst p -> sem Z demo (relex r) = Ok [snd q])
  /\ map str (match update_thetas Z demo (map fst ex_parts) ex_old new with Ok l => l | Err _ => [] end)
     = [T [32; 49; 32; 40; 48; 44; 50; 46; 53; 41; 32; 51; 10]%nat; T [32; 52; 32; 59; 32; 75; 65; 10]%nat].
Proof.
  cbv zeta. split; [vm_compute; reflexivity|]. split.
  { repeat constructor; vm_compute; try reflexivity; intro H; discriminate H. }
  split; [vm_compute; reflexivity|]. split; [|vm_compute; reflexivity].
  intros r p q [E|[E|[]]] Hq Hn; [discriminate E|]. injection E as <- <-.
  destruct Hq as [<-|[<-|[<-|[<-|[]]]]]; try discriminate Hn. vm_compute. reflexivity.
Qed.

(* update_thetas_realises is not vacuous on a compound step: "$THETA 1 2 3" + "$THETA 4 ; KA", in ONE
   update THETA_2 is removed, THETA_3 gets a new value and a lower bound, KA stays, X is added (fixed, with
   an upper bound): guard_plan holds, the texts are " 1  (0,3.5)" / " 4 ; KA" / "  (-INF,5.0,9.0) FIX ; X" and
   the records re-read as the new list (default names are positional, hence THETA_2 for the moved one). *)
Definition nX : text := T [88]%nat.
Definition ex_new2 : list (nparam Z) :=
  [(n1, P 10 MInf PInf false); (n3, P 35 (Fin 0%Z) PInf false); (nKA, P 40 MInf PInf false); (nX, P 50 MInf (Fin 90%Z) true)].
Example realises_example :
  guard_plan Z demo [w_names; w_single] ex_old ex_new2 = true
  /\ map str (match update_thetas Z demo [w_names; w_single] ex_old ex_new2 with Ok l => l | Err _ => [] end)
     = [T [32; 49; 32; 32; 40; 48; 44; 51; 46; 53; 41; 10]%nat; T [32; 52; 32; 59; 32; 75; 65; 10]%nat;
        T [32; 32; 40; 45; 73; 78; 70; 44; 53; 46; 48; 44; 57; 46; 48; 41; 32; 70; 73; 88; 32; 59; 32; 88; 10]%nat]
  /\ map snd (match bind (update_thetas Z demo [w_names; w_single] ex_old ex_new2) (reread Z demo []) with Ok l => l | Err _ => [] end)
     = map snd ex_new2.
Proof. repeat split; vm_compute; reflexivity. Qed.

(* rv_plan_realises is not vacuous: three single $OMEGA records, create_joint_distribution of the first two
   etas: the script removes two distributions and adds the joint one; the plan creates the BLOCK with eta
   number 1 and rewrites the third record. *)
Definition pd_name (i j : N) : text := [79; 77; 69; 71; 65; 95; 48 + i; 95; 48 + j]%N.
Definition pd1 := mkPD 0 1 [pd_name 1 1].
Definition pd2 := mkPD 1 1 [pd_name 2 2].
Definition pd3 := mkPD 2 1 [pd_name 3 3].
Definition pd12 := mkPD 3 2 [pd_name 1 1; pd_name 2 1; pd_name 2 2].
Example rv_plan_example :
  let old_names := [pd_name 1 1; pd_name 2 2; pd_name 3 3] in
  let new_names := [pd_name 1 1; pd_name 2 1; pd_name 2 2; pd_name 3 3] in
  g_aligned [] (inter_texts old_names new_names) [1; 1; 1]%nat (diff pdist_eqb [pd1; pd2; pd3] [pd12; pd3]) 0 = true
  /\ rv_plan [] old_names new_names [1; 1; 1]%nat [pd1; pd2; pd3] [pd12; pd3] = Ok [PBlock pd12 1; PUpdate 2 pd3]
  (* a record with three diagonal items is outside the guard *)
  /\ g_aligned [] (inter_texts old_names new_names) [3]%nat (diff pdist_eqb [pd1; pd2; pd3] [pd12; pd3]) 0 = false.
Proof. repeat split; vm_compute; reflexivity. Qed.

(* the create theorems are not vacuous: the demo float instance prints without letters, so the upper-case
   law holds; '$OMEGA  0.1 FIX ; IIV_X' and a fixed BLOCK(2) with one named covariance *)
Example create_examples :
  (exists root, create_single_root Z demo false SPlain 1%Z true (T [73; 73; 86; 95; 88]%nat) 3 = Ok root
     /\ str root = T [32; 32; 48; 46; 49; 32; 70; 73; 88; 32; 59; 32; 73; 73; 86; 95; 88; 10]%nat
     /\ osem Z demo root = Ok [mkO 1%Z true])
  /\ (let elems := [(1%Z, pd_name 1 1); (0%Z, T [67; 79; 86]%nat); (2%Z, pd_name 2 2)] in
      Forall (fun e => d_tok (upper (d_str (fst e))) = Some (fst e)) elems
      /\ str (create_block_root Z demo false false 2 elems true 1)
         = T [32; 66; 76; 79; 67; 75; 40; 50; 41; 32; 70; 73; 88; 10; 48; 46; 49; 10; 48; 46; 48; 9; 59; 32; 67; 79; 86; 10;
              48; 46; 50; 10]%nat
      /\ block_inits Z demo (create_block_root Z demo false false 2 elems true 1) = Ok [1%Z; 0%Z; 2%Z])
  (* a later IOV occasion of a FIXED parameter: 'BLOCK(1) SAME FIX' is refused by the grammar *)
  /\ create_single_root Z demo false SIovSame 1%Z true [] 2 = Err EParse.
Proof.
  split; [eexists; repeat split; vm_compute; reflexivity|]. split; [|reflexivity].
  cbv zeta. split; [repeat constructor|]. split; vm_compute; reflexivity.
Qed.

(* odiag_remove_sem is not vacuous: '$OMEGA 0.1 0.2 0.3' (Refuted.w_o3), remove the middle item *)
Example odiag_remove_example :
  items_are_trees (children w_o3) = true
  /\ forallb (fun c => match item_n (children c) with Ok n => N.eqb n 1 | Err _ => false end) (items_of w_o3) = true
  /\ osem Z demo w_o3 = Ok [mkO 1%Z false; mkO 2%Z false; mkO 3%Z false]
  /\ osem Z demo (odiag_remove w_o3 [1%nat]) = Ok [mkO 1%Z false; mkO 3%Z false]
  (* with a (v)xn item the hypothesis fails: '$OMEGA (0.1 FIX)x3' *)
  /\ forallb (fun c => match item_n (children c) with Ok n => N.eqb n 1 | Err _ => false end) (items_of w_oxn) = false.
Proof. repeat split; vm_compute; reflexivity. Qed.
