(* PV.C04.ProofsDriver — update_thetas for edits that change values only (same names in the same order):
   the loop hands every record exactly its own new parameters (or leaves an unchanged one-theta record
   alone), so the regenerated records together mean the new parameter list. *)
From Coq Require Import List NArith ZArith PArith Bool Arith Lia.
From PV Require Import C04.Cst C04.Lcs C04.Model C04.ProofsLcs C04.ProofsTheta C04.ProofsTheta2.
Import ListNotations.
Local Open Scope nat_scope.

Section Driver.
Variable V : Type.
Variable F : fops V.
Hypothesis HF : fops_ok F.

Notation nparam := (nparam V).
Definition part := (node * list nparam)%type.

Definition part_ok (p : part) : Prop :=
  record_len (fst p) = Ok (N.of_nat (length (snd p))) /\ 1 <= length (snd p)
  /\ guard_record V F (fst p) (map snd (snd p)) = true.

Definition all_values (parts : list part) : list (param V) := map snd (concat (map snd parts)).

Lemma news_cons_add (np : nparam) d : news ((Add, np) :: d) = np :: news d.
Proof. reflexivity. Qed.
Lemma news_cons_keep (np : nparam) d : news ((Keep, np) :: d) = np :: news d.
Proof. reflexivity. Qed.
Lemma news_cons_del (np : nparam) d : news ((Del, np) :: d) = news d.
Proof. reflexivity. Qed.

Lemma skipn_cons_nth {A} (l : list A) : forall i x rest,
  skipn i l = x :: rest -> firstn (S i) l = firstn i l ++ [x] /\ skipn (S i) l = rest.
Proof.
  induction l as [|y l IH]; intros i x rest H.
  - destruct i; discriminate.
  - destruct i as [|i].
    + cbn in H. injection H as -> ->. split; reflexivity.
    + change (skipn (S i) (y :: l)) with (skipn i l) in H. destruct (IH i x rest H) as [H1 H2].
      split; [|exact H2].
      change (firstn (S (S i)) (y :: l)) with (y :: firstn (S i) l).
      change (firstn (S i) (y :: l)) with (y :: firstn i l). rewrite H1. reflexivity.
Qed.

(* the state of the loop in front of the remaining script d *)
Definition state_ok (parts : list part) (i : nat) (chg : list (param V)) (d : list (op * nparam)) : Prop :=
  match parts with
  | [] => i = 0 /\ chg = [] /\ news d = []
  | (r, ps) :: tlp => i < length ps /\ chg = map snd (firstn i ps)
                      /\ news d = skipn i ps ++ concat (map snd tlp)
  end.

Lemma loop_spec (kept : list text) : forall (d : list (op * nparam)) (parts : list part) (i : nat) (chg : list (param V)),
  (forall o np, In (o, np) d -> mem_text (fst np) kept = true) ->
  state_ok parts i chg d ->
  Forall part_ok parts ->
  (forall r ps p, In (r, ps) parts -> In (Keep, p) d -> ps = [p] -> sem V F (relex r) = Ok [snd p]) ->
  exists acts roots sems,
    ut_loop V kept d (map fst parts) (N.of_nat i) chg [] = Ok acts
    /\ mapM (run_action V F) acts = Ok roots
    /\ mapM (fun r => sem V F (relex r)) roots = Ok sems
    /\ concat sems = all_values parts.
Proof.
  induction d as [|[o np] tl IH]; intros parts i chg Hkept Hst Hok Hkeep.
  - (* end of script *)
    destruct parts as [|[r ps] tlp].
    + exists [], [], []. repeat split; reflexivity.
    + destruct Hst as [Hi [_ Hn]]. cbn in Hn. exfalso.
      assert (Hlen : length (skipn i ps ++ concat (map snd tlp)) = 0) by (rewrite <- Hn; reflexivity).
      rewrite app_length, skipn_length in Hlen. lia.
  - assert (Hk : mem_text (fst np) kept = true) by (apply (Hkept o np); left; reflexivity).
    assert (Hkept' : forall o' np', In (o', np') tl -> mem_text (fst np') kept = true).
    { intros o' np' H. apply (Hkept o' np'). right. exact H. }
    cbn [ut_loop]. rewrite Hk.
    (* an entry that consumes the next new parameter: Add, or Keep in a record with several thetas *)
    assert (Consume : forall r ps tlp, parts = (r, ps) :: tlp -> news ((o, np) :: tl) = np :: news tl ->
              (forall p, In (Keep, p) tl -> In (Keep, p) ((o, np) :: tl)) ->
              exists acts roots sems,
                bind (Ok ([] : list (action V), map fst parts, (N.of_nat i + 1)%N, chg ++ [snd np], [] : list nat))
                  (fun st => let '(out, recs1, i1, chg1, rem1) := st in
                     bind (match recs1 with
                           | [] => Ok ([], recs1, i1, chg1, rem1)
                           | r0 :: recs2 =>
                               bind (record_len r0) (fun n =>
                               if N.eqb n i1
                               then Ok ((if negb (Nat.eqb (length rem1) (N.to_nat n)) then [AUpdate r0 rem1 chg1] else []),
                                        recs2, 0%N, [], [])
                               else Ok ([], recs1, i1, chg1, rem1))
                           end)
                       (fun st2 => let '(out2, recs3, i3, chg3, rem3) := st2 in
                          bind (ut_loop V kept tl recs3 i3 chg3 rem3) (fun rest => Ok (out ++ out2 ++ rest))))
                = Ok acts
                /\ mapM (run_action V F) acts = Ok roots
                /\ mapM (fun r => sem V F (relex r)) roots = Ok sems
                /\ concat sems = all_values parts).
    { intros r ps tlp -> Hnews HkeepIn.
      destruct Hst as [Hi [Hchg Hn]]. rewrite Hnews in Hn.
      pose proof (Forall_inv Hok) as [Hlen [Hpos Hg]]. pose proof (Forall_inv_tail Hok) as Hok'. cbn [fst snd] in *.
      destruct (skipn i ps) as [|x rest] eqn:Esk.
      { exfalso. assert (L : length (skipn i ps) = 0) by (rewrite Esk; reflexivity). rewrite skipn_length in L. lia. }
      cbn [app] in Hn. injection Hn as Hx Hrest. subst x.
      destruct (skipn_cons_nth ps i np rest Esk) as [Hf Hs].
      cbn [bind map fst]. rewrite Hlen. cbn [bind].
      replace (N.of_nat i + 1)%N with (N.of_nat (S i)) by lia.
      destruct (Nat.eq_dec (S i) (length ps)) as [Efull|Enot].
      - (* the record is complete: update it *)
        rewrite Efull, N.eqb_refl, Nat2N.id.
        assert (Hneg : negb (Nat.eqb (length (@nil nat)) (length ps)) = true)
          by (destruct (length ps); [lia | reflexivity]).
        rewrite Hneg. cbn [bind].
        assert (Hchg1 : chg ++ [snd np] = map snd ps).
        { assert (Eps : firstn i ps ++ [np] = ps) by (rewrite <- Hf, Efull; apply firstn_all).
          transitivity (map snd (firstn i ps ++ [np])); [rewrite Hchg, map_app; reflexivity | rewrite Eps; reflexivity]. }
        rewrite Hchg1.
        destruct (record_update_readback V F HF r (map snd ps) Hg) as [r' [Hu Hsem]].
        assert (Hrest0 : rest = []).
        { rewrite <- Hs, Efull. apply skipn_all. }
        rewrite Hrest0 in Hrest. cbn [app] in Hrest.
        destruct (IH tlp 0 [] Hkept') as [acts [roots [sems [A1 [A2 [A3 A4]]]]]].
        + destruct tlp as [|[r2 ps2] tlp2]; cbn; [repeat split; exact Hrest|].
          pose proof (Forall_inv Hok') as [_ [Hpos2 _]]. cbn [snd] in Hpos2.
          split; [lia|]. split; [reflexivity|]. exact Hrest.
        + exact Hok'.
        + intros r0 ps0 p Hin Hk0 E. apply (Hkeep r0 ps0 p); [right; exact Hin | apply HkeepIn; exact Hk0 | exact E].
        + change (N.of_nat 0) with 0%N in A1. rewrite A1. cbn [bind app].
          exists (AUpdate r [] (map snd ps) :: acts), (r' :: roots), (map snd ps :: sems).
          split; [reflexivity|]. split.
          * apply mapM_cons; [cbn [run_action theta_remove]; exact Hu | exact A2].
          * split; [apply mapM_cons; assumption|].
            cbn [concat]. rewrite A4. unfold all_values. cbn [map concat snd]. rewrite map_app. reflexivity.
      - (* more parameters of this record to come *)
        replace (N.eqb (N.of_nat (length ps)) (N.of_nat (S i))) with false
          by (symmetry; apply N.eqb_neq; lia).
        cbn [bind].
        destruct (IH ((r, ps) :: tlp) (S i) (chg ++ [snd np]) Hkept') as [acts [roots [sems [A1 [A2 [A3 A4]]]]]].
        + unfold state_ok. split; [lia|]. split; [rewrite Hchg, Hf, map_app; reflexivity|]. rewrite Hs. exact Hrest.
        + exact Hok.
        + intros r0 ps0 p Hin Hk0 E. apply (Hkeep r0 ps0 p); [exact Hin | apply HkeepIn; exact Hk0 | exact E].
        + cbn [map fst] in A1. rewrite A1. cbn [bind app]. exists acts, roots, sems. repeat split; assumption. }
    destruct o.
    + (* Keep *)
      destruct parts as [|[r ps] tlp].
      { destruct Hst as [_ [_ Hn]]. rewrite news_cons_keep in Hn. discriminate. }
      pose proof (Forall_inv Hok) as [Hlen [Hpos Hg]]. pose proof (Forall_inv_tail Hok) as Hok'. cbn [fst snd map] in *. rewrite Hlen. cbn [bind].
      destruct (N.eqb (N.of_nat (length ps)) 1) eqn:E1.
      * (* a record with a single theta is appended unchanged *)
        apply N.eqb_eq in E1. assert (Hl1 : length ps = 1) by lia.
        destruct Hst as [Hi [Hchg Hn]]. assert (i = 0) by lia. subst i. cbn [skipn firstn map] in Hchg, Hn. subst chg.
        rewrite news_cons_keep in Hn.
        destruct ps as [|p0 [|p1 ps']]; try (cbn in Hl1; lia). cbn [app] in Hn. injection Hn as <- Hrest.
        assert (Hsem : sem V F (relex r) = Ok [snd np]).
        { apply (Hkeep r [np] np); [left; reflexivity | left; reflexivity | reflexivity]. }
        destruct (IH tlp 0 [] Hkept') as [acts [roots [sems [A1 [A2 [A3 A4]]]]]].
        -- destruct tlp as [|[r2 ps2] tlp2]; cbn; [repeat split; exact Hrest|].
           pose proof (Forall_inv Hok') as [_ [Hpos2 _]]. cbn [snd] in Hpos2.
           split; [lia|]. split; [reflexivity|]. exact Hrest.
        -- exact Hok'.
        -- intros r0 ps0 p Hin Hk0 E. apply (Hkeep r0 ps0 p); [right; exact Hin | right; exact Hk0 | exact E].
        -- cbn [bind].
           (* the check after the branch looks at the NEXT record with i = 0: never complete *)
           assert (Hnext : match map fst tlp with
                           | [] => Ok ([], map fst tlp, 0%N, [], [])
                           | r0 :: recs2 =>
                               bind (record_len r0) (fun n =>
                               if N.eqb n 0
                               then Ok ((if negb (Nat.eqb (length (@nil nat)) (N.to_nat n)) then [AUpdate r0 [] []] else []),
                                        recs2, 0%N, [], [])
                               else Ok ([], map fst tlp, 0%N, [], []))
                           end = Ok ([] : list (action V), map fst tlp, 0%N, [] : list (param V), [] : list nat)).
           { destruct tlp as [|[r2 ps2] tlp2]; [reflexivity|]. cbn [map fst].
             pose proof (Forall_inv Hok') as [Hlen2 [Hpos2 _]]. cbn [fst snd] in *. rewrite Hlen2. cbn [bind].
             replace (N.eqb (N.of_nat (length ps2)) 0) with false by (symmetry; apply N.eqb_neq; lia). reflexivity. }
           change (N.of_nat 0) with 0%N in *. rewrite Hnext. cbn [bind]. rewrite A1. cbn [bind app].
           exists (AKeep r :: acts), (r :: roots), ([snd np] :: sems).
           split; [reflexivity|]. split; [apply mapM_cons; [reflexivity | exact A2]|].
           split; [apply mapM_cons; assumption|].
           cbn [concat]. rewrite A4. unfold all_values. cbn [map concat snd app]. reflexivity.
      * (* otherwise it counts like a changed parameter *)
        destruct (Consume r ps tlp eq_refl (news_cons_keep np tl) (fun p H => or_intror H))
          as [acts [roots [sems [A1 [A2 [A3 A4]]]]]].
        exists acts, roots, sems. split; [exact A1 | repeat split; assumption].
    + (* Add of a kept name *)
      destruct parts as [|[r ps] tlp].
      { destruct Hst as [_ [_ Hn]]. rewrite news_cons_add in Hn. discriminate. }
      destruct (Consume r ps tlp eq_refl (news_cons_add np tl) (fun p H => or_intror H))
        as [acts [roots [sems [A1 [A2 [A3 A4]]]]]].
      cbn [bind]. exists acts, roots, sems. split; [exact A1 | repeat split; assumption].
    + (* Del of a kept name: nothing happens *)
      cbn [bind].
      assert (Hnone : match map fst parts with
                      | [] => Ok ([], map fst parts, N.of_nat i, chg, [])
                      | r0 :: recs2 =>
                          bind (record_len r0) (fun n =>
                          if N.eqb n (N.of_nat i)
                          then Ok ((if negb (Nat.eqb (length (@nil nat)) (N.to_nat n)) then [AUpdate r0 [] chg] else []),
                                   recs2, 0%N, [], [])
                          else Ok ([], map fst parts, N.of_nat i, chg, []))
                      end = Ok ([] : list (action V), map fst parts, N.of_nat i, chg, [] : list nat)).
      { destruct parts as [|[r ps] tlp]; [reflexivity|]. cbn [map fst].
        pose proof (Forall_inv Hok) as [Hlen [Hpos _]]. cbn [fst snd] in *. rewrite Hlen. cbn [bind].
        destruct Hst as [Hi _].
        replace (N.eqb (N.of_nat (length ps)) (N.of_nat i)) with false by (symmetry; apply N.eqb_neq; lia). reflexivity. }
      rewrite Hnone. cbn [bind].
      destruct (IH parts i chg Hkept') as [acts [roots [sems [A1 [A2 [A3 A4]]]]]].
      * unfold state_ok in *. rewrite news_cons_del in Hst. exact Hst.
      * exact Hok.
      * intros r0 ps0 p Hin Hk0 E. apply (Hkeep r0 ps0 p); [exact Hin | right; exact Hk0 | exact E].
      * rewrite A1. cbn [bind app]. exists acts, roots, sems. repeat split; assumption.
Qed.

End Driver.

Section DriverTop.
Variable V : Type.
Variable F : fops V.
Hypothesis HF : fops_ok F.

Lemma text_eqb_eq (a b : text) : text_eqb a b = true <-> a = b.
Proof.
  revert b. induction a as [|x a IH]; intros [|y b]; cbn; split; try discriminate; try reflexivity.
  - intro H. apply andb_true_iff in H. destruct H as [H1 H2]. apply N.eqb_eq in H1. apply IH in H2. subst. reflexivity.
  - intro H. injection H as -> ->. rewrite N.eqb_refl. apply IH. reflexivity.
Qed.
Lemma mem_text_In x l : mem_text x l = true <-> In x l.
Proof.
  induction l as [|y tl IH]; cbn; [split; [discriminate | contradiction]|].
  rewrite orb_true_iff, IH, text_eqb_eq. split; intros [E|E]; auto.
Qed.
Lemma nparam_eqb_eq (a b : nparam V) : nparam_eqb V F a b = true -> a = b.
Proof.
  unfold nparam_eqb. intro H. apply andb_true_iff in H. destruct H as [H1 H2].
  apply text_eqb_eq in H1. apply (param_eqb_eq V F HF) in H2. destruct a, b; cbn in *. subst. reflexivity.
Qed.

(* update_thetas when only values change: parts = the records with the new parameters each defines *)
Theorem update_thetas_values_lemma (parts : list (part V)) (old new : list (nparam V)) :
  new = concat (map snd parts) ->
  map fst old = map fst new ->
  Forall (part_ok V F) parts ->
  (* the reordered script still lists the new parameters in their order (an executable side condition) *)
  news (reorder_diff (name_eqb V) (fun p => mem_text (fst p) (inter_names (names_of V old) (names_of V new)))
          (diff (nparam_eqb V F) old new)) = new ->
  (* a record with a single theta means the old parameter of that name *)
  (forall r p q, In (r, [p]) parts -> In q old -> fst q = fst p -> sem V F (relex r) = Ok [snd q]) ->
  exists roots sems,
    update_thetas V F (map fst parts) old new = Ok roots
    /\ mapM (fun r => sem V F (relex r)) roots = Ok sems
    /\ concat sems = map snd new.
Proof.
  intros Hnew Hnames Hok Horder Hold.
  unfold update_thetas, ut_plan.
  set (kept := inter_names (names_of V old) (names_of V new)) in *.
  set (d0 := diff (nparam_eqb V F) old new) in *.
  set (d := reorder_diff (name_eqb V) (fun p => mem_text (fst p) kept) d0) in *.
  destruct (diff_script (nparam V) (nparam_eqb V F) nparam_eqb_eq old new) as [Do Dn]. fold d0 in Do, Dn.
  assert (Hkept : forall o np, In (o, np) d -> mem_text (fst np) kept = true).
  { intros o np Hin. apply reorder_diff_In in Hin.
    assert (Hname : In (fst np) (map fst new)).
    { destruct (in_script_cases _ d0 o np Hin) as [H|H].
      - rewrite Do in H. rewrite <- Hnames. apply in_map. exact H.
      - rewrite Dn in H. apply in_map. exact H. }
    unfold kept, inter_names, names_of. apply mem_text_In. apply filter_In. split.
    - rewrite Hnames. exact Hname.
    - apply mem_text_In. exact Hname. }
  destruct (loop_spec V F HF kept d parts 0 [] Hkept) as [acts [roots [sems [A1 [A2 [A3 A4]]]]]].
  - unfold state_ok. destruct parts as [|[r ps] tlp].
    + cbn in Hnew. subst new. split; [reflexivity|]. split; [reflexivity|]. exact Horder.
    + pose proof (Forall_inv Hok) as [_ [Hpos _]]. cbn [snd] in Hpos.
      split; [lia|]. split; [reflexivity|]. cbn [skipn]. rewrite Horder, Hnew. reflexivity.
  - exact Hok.
  - intros r ps p Hin Hk E. subst ps. apply (Hold r p p Hin); [|reflexivity].
    apply reorder_diff_In in Hk. apply keep_in_olds in Hk. rewrite Do in Hk. exact Hk.
  - change (N.of_nat 0) with 0%N in A1. rewrite A1. cbn [bind]. exists roots, sems.
    split; [exact A2|]. split; [exact A3|]. rewrite A4. unfold all_values. rewrite Hnew. reflexivity.
Qed.

End DriverTop.
