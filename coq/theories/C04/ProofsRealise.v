(* PV.C04.ProofsRealise — update_thetas for arbitrary edits (changed + removed + added thetas in one
   step): inside guard_plan every planned action succeeds and its record reads back as the values the
   plan handed to it, so the regenerated records together mean the new parameter list. *)
From Coq Require Import List NArith ZArith PArith Bool Arith Lia.
From PV Require Import C04.Cst C04.Lcs C04.Model C04.ProofsTheta C04.ProofsTheta2.
Import ListNotations.
Local Open Scope nat_scope.

Section Realise.
Variable V : Type.
Variable F : fops V.
Hypothesis HF : fops_ok F.

Lemma params_eqb_eq (a b : list (param V)) : params_eqb V F a b = true -> a = b.
Proof.
  revert b. induction a as [|x a IH]; intros [|y b] H; try discriminate; [reflexivity|].
  cbn in H. apply andb_true_iff in H. destruct H as [H1 H2].
  apply (param_eqb_eq V F HF) in H1. subst y. f_equal. apply IH. exact H2.
Qed.

(* one planned action inside its guard: it succeeds and the record it produces means the values the
   plan attached to it *)
Lemma action_realises (a : action V) (vs : list (param V)) :
  g_action V F a = true -> action_values V F a = Ok vs ->
  exists root, run_action V F a = Ok root /\ out_sem V F a root = Ok vs.
Proof.
  destruct a as [r|nm p|r rem chg]; cbn [g_action action_values run_action out_sem]; intros G Hv.
  - exists r. split; [reflexivity | exact Hv].
  - injection Hv as <-. eexists. split; [reflexivity|]. apply (create_theta_readback_lemma V F HF). exact G.
  - injection Hv as <-. destruct (record_update_readback V F HF _ _ G) as [r' [Hu Hs]].
    exists r'. split; assumption.
Qed.

Lemma actions_realise (acts : list (action V)) : forall (VS : list (list (param V))),
  forallb (g_action V F) acts = true -> mapM (action_values V F) acts = Ok VS ->
  exists roots, mapM (run_action V F) acts = Ok roots
    /\ length roots = length acts
    /\ mapM (fun ar => out_sem V F (fst ar) (snd ar)) (combine acts roots) = Ok VS.
Proof.
  induction acts as [|a tl IH]; intros VS G Hv.
  - cbn in Hv. injection Hv as <-. exists []. repeat split; reflexivity.
  - cbn [forallb] in G. apply andb_true_iff in G. destruct G as [Ga Gtl].
    cbn [mapM] in Hv. destruct (action_values V F a) as [vs|] eqn:Ea; [|discriminate]. cbn [bind] in Hv.
    destruct (mapM (action_values V F) tl) as [VS'|] eqn:Etl; [|discriminate]. cbn [bind] in Hv. injection Hv as <-.
    destruct (action_realises a vs Ga Ea) as [root [Hr Hs]].
    destruct (IH VS' Gtl eq_refl) as [roots [Hrs [Hlen Hss]]].
    exists (root :: roots). split; [apply mapM_cons; assumption|]. split; [cbn; rewrite Hlen; reflexivity|].
    cbn [combine]. apply mapM_cons; [exact Hs | exact Hss].
Qed.

Theorem update_thetas_realises_lemma (recs : list node) (old new : list (nparam V)) :
  guard_plan V F recs old new = true ->
  exists acts roots sems,
    ut_plan V F recs old new = Ok acts
    /\ update_thetas V F recs old new = Ok roots
    /\ length roots = length acts
    /\ mapM (fun ar => out_sem V F (fst ar) (snd ar)) (combine acts roots) = Ok sems
    /\ concat sems = map snd new.
Proof.
  unfold guard_plan, update_thetas. intro G.
  destruct (ut_plan V F recs old new) as [acts|] eqn:Ep; [|discriminate].
  apply andb_true_iff in G. destruct G as [Ga Go]. unfold g_order in Go.
  destruct (mapM (action_values V F) acts) as [VS|] eqn:Ev; [|discriminate].
  apply params_eqb_eq in Go.
  destruct (actions_realise acts VS Ga Ev) as [roots [Hr [Hlen Hs]]].
  exists acts, roots, VS. cbn [bind]. repeat split; assumption.
Qed.

End Realise.
