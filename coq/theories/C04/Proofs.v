(* PV.C04.Proofs — the lemmas behind Properties.v are developed in ProofsLcs.v (edit scripts),
   ProofsTheta.v (white space is invisible to reading and to update; update on a plain layout),
   ProofsTheta2.v (read-back of one theta and of a whole record; grammar of the result) and
   ProofsDemo.v (the demo float instance obeys the float laws); ProofsDriver.v / ProofsRealise.v: update_thetas.  This file only gathers them. *)
From PV Require Export C04.Cst C04.Lcs C04.Model C04.ModelOmega C04.ModelRv C04.ModelCreate C04.ProofsLcs C04.ProofsTheta C04.ProofsTheta2 C04.ProofsOmega C04.ProofsDriver C04.ProofsRealise C04.ProofsRv C04.ProofsCreate C04.ProofsRemove C04.Demo C04.ProofsDemo.
