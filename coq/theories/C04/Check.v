(* PV.C04.Check — the comparison run inside Coq by the correspondence check of C04: re-runs the model
   on the exported real syntax trees, compares with what the implementation produced (tags 1..9),
   evaluates the property itself on the implementation's outputs (tags >= 11) and reports which guard
   conjuncts are false (tags >= 200). *)
From Coq Require Import QArith List Bool PArith NArith ZArith Arith.
From PV Require Import C04.Cst C04.Lcs C04.Model.
Import ListNotations.
Local Open Scope nat_scope.

(* ---- Python floats as exact rationals + the tables exported from CPython ---------------------- *)
Record ftab := mkT {
  t_tok : list (text * Q);       (* float(text) *)
  t_str : list (Q * text);       (* str(x) *)
  t_fmt : list (Q * text);       (* format_number(x) *)
  t_sqrt : list (Q * Q);         (* x ** 0.5 *)
  t_sq : list (Q * Q)            (* x ** 2 *)
}.
Fixpoint look_text {A} (k : text) (l : list (text * A)) : option A :=
  match l with [] => None | (k', v) :: tl => if text_eqb k k' then Some v else look_text k tl end.
Fixpoint look_q {A} (k : Q) (l : list (Q * A)) : option A :=
  match l with [] => None | (k', v) :: tl => if Qeq_bool k k' then Some v else look_q k tl end.
Definition missing : text := [63%N; 63%N].          (* "??": a float the harness did not tabulate *)
Definition Qltb (a b : Q) : bool := match Qcompare a b with Lt => true | _ => false end.

Definition ops_of (t : ftab) : fops Q :=
  mkF Q Qeq_bool Qltb 0%Q (1000000#1)%Q (-1000000#1)%Q
      (fun s => look_text s (t_tok t))
      (fun x => match look_q x (t_str t) with Some s => s | None => missing end)
      (fun x => match look_q x (t_fmt t) with Some s => s | None => missing end)
      (fun x => match look_q x (t_sqrt t) with Some y => y | None => (-7#1)%Q end)
      (fun x => match look_q x (t_sq t) with Some y => y | None => (-7#1)%Q end).

(* the contract the theorems assume of float printing, checked on every tabulated value *)
Definition table_contract (t : ftab) : bool :=
  let F := ops_of t in
  forallb (fun p => match tokval F (snd p) with Some v => Qeq_bool v (fst p) | None => false end) (t_str t)
  && forallb (fun p => match tokval F (snd p) with Some v => Qeq_bool v (fst p) | None => false end) (t_fmt t).

(* ---- exported observations ------------------------------------------------------------------- *)
Inductive xq := XM | XF (q : Q) | XP.
Definition rp := (Q * xq * xq * bool)%type.                 (* init, lower, upper, fix *)
Inductive rres (A : Type) := ROk (a : A) | RErr (k : nat).  (* 1 ModelSyntaxError, 2 lark error, 3 other *)
Arguments ROk {A}. Arguments RErr {A}.

Definition to_ext (x : xq) : ext Q := match x with XM => MInf | XF q => Fin q | XP => PInf end.
Definition to_param (x : rp) : param Q :=
  let '(i, l, u, f) := x in mkP i (to_ext l) (to_ext u) f.
Definition to_nparams (l : list (text * rp)) : list (text * param Q) :=
  map (fun x => (fst x, to_param (snd x))) l.

Record parse_obs := mkPO {
  po_names : list text;                  (* symbols of the statements + data columns *)
  po_roots : list node;                  (* the $THETA record trees lark produced *)
  po_result : rres (list (text * rp))    (* the theta parameters pharmpy built, or the error *)
}.

Record tstep := mkTS {
  ts_tab : ftab;
  ts_names : list text;
  ts_before : list node;                 (* $THETA record trees before the edit *)
  ts_old : list (text * rp);             (* old_thetas, new_thetas as update_thetas computes them *)
  ts_new : list (text * rp);
  ts_after : rres (list node);           (* $THETA record trees after update_source, or the error *)
  ts_parse : list parse_obs;             (* fresh parses observed in this step *)
  ts_reread : option (rres (list (text * rp)))   (* read_model_from_string(edited.code), thetas *)
}.

(* ---- comparison helpers ---------------------------------------------------------------------- *)
Definition tag (b : bool) (t : nat) : list nat := if b then [] else [t].
Definition err_code (e : err) : nat := match e with ESyntax => 1 | EParse => 2 | EInternal => 3 end.

Definition F_of (c : tstep) := ops_of (ts_tab c).
Definition nparams_eqb (F : fops Q) (a b : list (text * param Q)) : bool :=
  Nat.eqb (length a) (length b) && forallb (fun ab => nparam_eqb Q F (fst ab) (snd ab)) (combine a b).
Definition values_eqb (F : fops Q) (a b : list (text * param Q)) : bool :=
  Nat.eqb (length a) (length b) && forallb (fun ab => param_eqb Q F (snd (fst ab)) (snd (snd ab))) (combine a b).
Definition names_eqb (a b : list (text * param Q)) : bool :=
  Nat.eqb (length a) (length b) && forallb (fun ab => text_eqb (fst (fst ab)) (fst (snd ab))) (combine a b).

Definition res_matches (F : fops Q) (m : res (list (text * param Q))) (i : rres (list (text * rp))) : bool :=
  match m, i with
  | Ok a, ROk b => nparams_eqb F a (to_nparams b)
  | Err e, RErr k => Nat.eqb (err_code e) k
  | _, _ => false
  end.

(* the spelled tokens of every theta parameter of a record: init, low, up texts *)
Definition theta_spelling (t : node) : list (option text * option text * option text) :=
  let ch := children t in
  let n := match multiple ch with Ok n => n | Err _ => 1%N end in
  repeat (tok_text r_init ch, tok_text r_low ch, tok_text r_up ch) (N.to_nat n).
Definition spellings (roots : list node) : list (option text * option text * option text) :=
  flat_map (fun r => flat_map theta_spelling (thetas_of r)) roots.

(* a token that is still there is spelled the same (a bound that is written for the first time or no
   longer written at all is not a re-spelling) *)
Definition otext_eqb (a b : option text) : bool :=
  match a, b with Some x, Some y => text_eqb x y | _, _ => true end.
Fixpoint lookup_name {A} (k : text) (l : list (text * A)) : option A :=
  match l with [] => None | (k', v) :: tl => if text_eqb k k' then Some v else lookup_name k tl end.

(* every parameter present before and after under the same name whose init / lower / upper did not
   change is spelled by the same token text *)
Definition spelling_kept (F : fops Q) (old new : list (text * param Q)) (before after : list node) : bool :=
  let sb := spellings before in
  let sa := spellings after in
  if negb (Nat.eqb (length sb) (length old) && Nat.eqb (length sa) (length new)) then true
  else
    let ob := combine (map fst old) (combine (map snd old) sb) in
    forallb (fun x =>
      let '(nm, (pn, (ia, la, ua))) := x in
      match lookup_name nm ob with
      | None => true
      | Some (po, (ib, lb, ub)) =>
          (negb (veqb F (p_init po) (p_init pn)) || otext_eqb ib ia)
          && (negb (ext_eqb Q F (p_lower po) (p_lower pn)) || otext_eqb lb la)
          && (negb (ext_eqb Q F (p_upper po) (p_upper pn)) || otext_eqb ub ua)
      end) (combine (map fst new) (combine (map snd new) sa)).

Definition tstep_verdict (c : tstep) : list nat :=
  let F := F_of c in
  let old := to_nparams (ts_old c) in
  let new := to_nparams (ts_new c) in
  let plan := ut_plan Q F (ts_before c) old new in
  tag (table_contract (ts_tab c)) 5
  (* 1: the regenerated record trees *)
  ++ tag (match update_thetas Q F (ts_before c) old new, ts_after c with
          | Ok m, ROk i => nodes_eqb m i
          | Err _, RErr _ => true
          | _, _ => false
          end) 1
  (* 2: parsing of trees produced by lark *)
  ++ flat_map (fun po => tag (res_matches F (parse_thetas Q F (po_names po) (po_roots po)) (po_result po)) 2)
              (ts_parse c)
  (* 4: what re-reading the implementation's regenerated trees yields, as the model predicts it *)
  (* (6: the model's recogniser refuses a text that lark accepted - tolerated only outside the guard) *)
  ++ match ts_after c, ts_reread c with
     | ROk i, Some rr =>
         match reread Q F (ts_names c) i, rr with
         | Err EParse, ROk _ => [6]
         | m, _ => tag (res_matches F m rr) 4
         end
     | _, _ => []
     end
  (* the property on the implementation's own outputs *)
  ++ match ts_after c with RErr _ => [14] | ROk _ => [] end
  ++ match ts_reread c with
     | Some (RErr _) => [11]
     | Some (ROk r) =>
         tag (values_eqb F (to_nparams r) new) 12
         ++ (if values_eqb F (to_nparams r) new then tag (names_eqb (to_nparams r) new) 15 else [])
     | None => []
     end
  ++ match ts_after c with
     | ROk i => tag (spelling_kept F old new (ts_before c) i) 13
     | RErr _ => []
     end
  (* guard conjuncts that are false *)
  ++ match plan with
     | Ok acts =>
         let fails := flat_map (action_guard_fail Q F) acts in
         let go := g_order Q F acts new in
         map (fun k => 200 + k) fails
         ++ tag (g_names Q (ts_names c) acts new) 209
         ++ tag (forallb (action_respell_free Q F) acts) 210
         (* 211: the values the plan hands out, in emission order, are not the new list (g_order);
            212: guard_plan (= forallb g_action acts && g_order acts new on this plan) is false although no
                 conjunct is listed - the two ways of evaluating the guard disagree (a correspondence tag) *)
         ++ tag go 211
         ++ (if negb (forallb (g_action Q F) acts) && match fails with [] => true | _ => false end
             then [212] else [])
     | Err _ => [299]
     end.

(* ================================================================ $OMEGA / $SIGMA records *)
From PV Require Import C04.ModelOmega.

Definition to_oparam (x : Q * bool) : oparam Q := mkO (fst x) (snd x).

Record orec := mkOR {
  or_before : node;                   (* the record tree before the edit *)
  or_params : list (Q * bool);        (* the new (init, fix) of the parameters this record defines *)
  or_arr : list Q;                    (* BLOCK: the values to write, converted to the record's scale by numpy *)
  or_after : rres node                (* the record tree after update_source *)
}.
Record oparse := mkOP {
  op_root : node;                                         (* a lark-produced diagonal record *)
  op_result : rres (list (option text * (Q * bool)))      (* OmegaRecord.parse(): name, init, fixed per eta *)
}.
Record ostep := mkOS {
  os_tab : ftab;
  os_recs : list orec;
  os_parse : list oparse;
  os_reparse : list (node * rres (list (Q * bool)));      (* impl tree after the edit, parse() of its re-read text *)
  os_reread : option (rres (list (text * (Q * bool)) * list (text * (Q * bool))));   (* names, values re-read / in memory *)
  os_spell : list (option text * option text)             (* init token text before / after of unchanged parameters *)
}.

Definition oparams_eqb (F : fops Q) (a b : list (oparam Q)) : bool :=
  Nat.eqb (length a) (length b) && forallb (fun ab => oparam_eqb Q F (fst ab) (snd ab)) (combine a b).
Definition ores_eqb (F : fops Q) (m : res (list (oparam Q))) (i : rres (list (Q * bool))) : bool :=
  match m, i with
  | Ok a, ROk b => oparams_eqb F a (map to_oparam b)
  | Err e, RErr k => Nat.eqb (err_code e) k
  | _, _ => false
  end.
Definition oname_eqb (a b : option text) : bool :=
  match a, b with Some x, Some y => text_eqb x y | None, None => true | _, _ => false end.

Definition orec_verdict (F : fops Q) (r : orec) : list nat :=
  let root := or_before r in
  let ps := map to_oparam (or_params r) in
  if has r_same (children root) then
    match or_after r with ROk a => tag (node_eqb a root) 23 | RErr _ => [34] end
  else if is_block_record root then
    let new_fix := match or_params r with (_, f) :: _ => f | [] => false end in
    match oblock_update Q F root (or_arr r) new_fix, or_after r with
    | Ok m, ROk a => tag (node_eqb m a) 23
    | Err _, RErr _ => []
    | _, RErr _ => [34]
    | _, _ => [23]
    end
    (* 227: the record is written on the SD / CORRELATION / CHOLESKY scale (float conversions, not modelled) *)
    ++ (if existsb (fun c => has_rule r_SD c || has_rule r_CORR c || has_rule r_CHOLESKY c) (walk root)
        then [227] else [])
  else
    match odiag_update Q F root ps, or_after r with
    | Ok m, ROk a => tag (node_eqb m a) 21
    | Err _, RErr _ => []
    | _, RErr _ => [34]
    | _, _ => [21]
    end
    ++ map (fun k => 220 + k) (oguard_fail_children Q F (children root) ps).

Definition ostep_verdict (c : ostep) : list nat :=
  let F := ops_of (os_tab c) in
  tag (table_contract (os_tab c)) 5
  ++ flat_map (orec_verdict F) (os_recs c)
  ++ flat_map (fun po =>
       tag (match parse_diag Q F (op_root po), op_result po with
            | Ok a, ROk b =>
                Nat.eqb (length a) (length b)
                && forallb (fun ab => oname_eqb (fst (fst ab)) (fst (snd ab))
                                      && oparam_eqb Q F (snd (fst ab)) (to_oparam (snd (snd ab)))) (combine a b)
            | Err e, RErr k => Nat.eqb (err_code e) k
            | _, _ => false
            end) 22) (os_parse c)
  (* the regenerated tree means what pharmpy reads from its text *)
  ++ flat_map (fun p => if is_block_record (fst p) then [] else tag (ores_eqb F (osem Q F (fst p)) (snd p)) 24)
              (os_reparse c)
  ++ match os_reread c with
     | Some (RErr _) => [31]
     | Some (ROk (rr, mem)) =>
         let vals l := map (fun x => to_oparam (snd x)) l in
         tag (oparams_eqb F (vals rr) (vals mem)) 32
         ++ (if oparams_eqb F (vals rr) (vals mem)
             then tag (Nat.eqb (length rr) (length mem)
                       && forallb (fun ab => text_eqb (fst (fst ab)) (fst (snd ab))) (combine rr mem)) 35
             else [])
     | None => []
     end
  ++ tag (forallb (fun p => otext_eqb (fst p) (snd p)) (os_spell c)) 33.

(* one verdict function for every kind of case *)
Inductive case := CTheta (c : tstep) | COmega (c : ostep).
Definition verdict (c : case) : list nat :=
  match c with CTheta t => tstep_verdict t | COmega o => ostep_verdict o end.

(* ================================================================ structural random-effect histories
   (create_joint_distribution / split_joint_distribution / add_iiv / remove_iiv / add_iov / remove_iov ...):
   ORACLE ONLY - there is no model of update_random_variable_records behind these tags.  The class
   predicates (tags 241..246) are evaluated here on exported facts; they are not guards of any theorem. *)
Record hdist := mkHD {
  hd_names : list text;                                   (* names of the etas / epsilons of the distribution *)
  hd_level : nat;                                         (* 0 IIV, 1 IOV, 2 RUV *)
  hd_sigma : bool;
  hd_params : list (text * (Q * bool) * (nat * nat))      (* lower triangle: name, (init, fix), global (row, col) *)
}.
(* ---- the record plan of update_random_variable_records (ModelRv.v), one pstep per invocation ---- *)
From PV Require Import C04.ModelRv C04.ModelCreate.
(* one call of create_omega_single / create_omega_block: its inputs and the record it returned *)
Record cobs := mkCO {
  co_block : bool;                       (* create_omega_block (else create_omega_single) *)
  co_tab : list (Q * text);              (* str(x) of the values involved *)
  co_level : nat;                        (* 0 IIV, 1 IOV, 2 RUV *)
  co_first : bool;                       (* IOV: the distribution is the first with its parameter names *)
  co_size : nat;
  co_elems : list (Q * text * bool);     (* lower triangle row by row: init, name, fix of the parameter *)
  co_eta : nat;                          (* eta_number *)
  co_root : rres node                    (* the tree of the returned record *)
}.
Definition cobs_verdict (c : cobs) : list nat :=
  let F := ops_of (mkT [] (co_tab c) [] [] []) in
  let sigma := Nat.eqb (co_level c) 2 in
  let iov := Nat.eqb (co_level c) 1 in
  let m := if co_block c
           then Ok (create_block_root Q F sigma (iov && negb (co_first c)) (co_size c)
                      (map (fun e => (fst (fst e), snd (fst e))) (co_elems c))
                      (forallb (fun e => snd e) (co_elems c)) (co_eta c))
           else match co_elems c with
                | [(v, name, fx)] =>
                    create_single_root Q F sigma
                      (if iov then (if co_first c then SIovFirst else SIovSame) else SPlain) v fx name (co_eta c)
                | _ => Err EInternal
                end in
  (* 27: the record create_omega_single / create_omega_block returned is the model's *)
  tag (match m, co_root c with
       | Ok a, ROk b => node_eqb a b
       | Err _, RErr _ => true
       | _, _ => false
       end) 27.

(* 252: a later IOV occasion is created for a FIXED parameter ('BLOCK(1) SAME FIX') *)
Definition cobs_same_fix (c : cobs) : bool :=
  negb (co_block c) && Nat.eqb (co_level c) 1 && negb (co_first c) && existsb (fun e => snd e) (co_elems c).

Record pstep := mkPS {
  ps_in_old : list nat;            (* keys of the distributions python finds "in" old_random_variables *)
  ps_old_names : list text;        (* parameter names of the old / new etas (or epsilons) *)
  ps_new_names : list text;
  ps_lens : list nat;              (* len(record) of the records of this type *)
  ps_diff : list (nat * pdist);    (* the rvs_diff handed to the loop: 0 keep, 1 add, 2 remove *)
  ps_raised : bool;                (* the invocation raised *)
  ps_log : list paction;           (* the calls the loop made, in order (PUpdate carries only the names) *)
  ps_created : list cobs;          (* the create_omega_* calls among them, with their results *)
  ps_removed : list (node * list nat * node)   (* OmegaRecord.remove on records without BLOCK: tree, indices, result *)
}.
Definition op_of_nat (n : nat) : op := match n with 0 => Keep | 1 => Add | _ => Del end.
Fixpoint nats_eqb (a b : list nat) : bool :=
  match a, b with
  | [], [] => true
  | x :: a', y :: b' => Nat.eqb x y && nats_eqb a' b'
  | _, _ => false
  end.
(* a planned action against an observed call *)
Definition paction_matches (m o : paction) : bool :=
  match m, o with
  | PUpdate i d, PUpdate j e => Nat.eqb i j && texts_eqb (pd_pnames d) (pd_pnames e)
  | PRemove i l, PRemove j k => Nat.eqb i j && nats_eqb l k
  | PUpdateNew a, PUpdateNew b => texts_eqb a b
  | PSingle d n, PSingle e k | PBlock d n, PBlock e k => pdist_eqb d e && Nat.eqb n k
  | _, _ => false
  end.
Fixpoint plan_matches (exact : bool) (m o : list paction) : bool :=
  match m, o with
  | [], [] => true
  | x :: m', y :: o' => paction_matches x y && plan_matches exact m' o'
  | _ :: _, [] => negb exact          (* the observed loop stopped early: a callee raised *)
  | [], _ :: _ => false
  end.
Definition pstep_verdict (p : pstep) : list nat :=
  let d := map (fun x => (op_of_nat (fst x), snd x)) (ps_diff p) in
  let kept := inter_texts (ps_old_names p) (ps_new_names p) in
  (* 25: lcs.diff on the distributions, recomputed from what the script removes / keeps / adds *)
  tag (let d' := diff pdist_eqb (olds d) (news d) in
       Nat.eqb (length d) (length d')
       && forallb (fun ab => op_eqb (fst (fst ab)) (fst (snd ab)) && pdist_eqb (snd (fst ab)) (snd (snd ab)))
            (combine d d')) 25
  (* 26: the plan of the loop against the calls the real loop made *)
  ++ tag (match rv_loop (ps_in_old p) kept (ps_lens p) d (0, 0, [], [], 1) with
          | Ok plan => plan_matches (negb (ps_raised p)) plan (ps_log p)
          | Err _ => ps_raised p
          end) 26
  ++ flat_map cobs_verdict (ps_created p)
  (* 28: OmegaRecord.remove, diagonal branch *)
  ++ flat_map (fun x => let '(before, inds, after) := x in
                 if is_block_record before then [] else tag (node_eqb (odiag_remove before inds) after) 28)
       (ps_removed p).
(* 251: some invocation is outside the guard of rv_plan_realises (a record with several diagonal items
   is entered); class information only *)
Definition pstep_aligned (p : pstep) : bool :=
  g_aligned (ps_in_old p) (inter_texts (ps_old_names p) (ps_new_names p)) (ps_lens p)
    (map (fun x => (op_of_nat (fst x), snd x)) (ps_diff p)) 0.

Record hstep := mkHS {
  hs_before : list node;          (* the $OMEGA and $SIGMA record trees before the step *)
  hs_gone : list nat;             (* 0-based indices (etas first, then epsilons offset by 1000) of the random
                                     effects of the old model whose distribution does not survive *)
  hs_nomega : nat;                (* how many of hs_before are $OMEGA records *)
  hs_status : nat;                (* 0 edited, 1 refused with ValueError, 2 crashed *)
  hs_mem : list hdist;            (* the in-memory model after the step: etas, then epsilons *)
  hs_rr : option (rres (list hdist));    (* read_model_from_string(edited.code) *)
  hs_plans : list pstep                  (* every invocation of update_random_variable_records during the step *)
}.

(* 241: a parameter carrying a positional default name sits at another position *)
Definition default_name_moved (d : hdist) : bool :=
  existsb (fun p => let '(nm, _, rc) := p in
             is_prefix (if hd_sigma d then [83; 73; 71; 77; 65; 95] else [79; 77; 69; 71; 65; 95])%N nm
             && negb (text_eqb nm (default_rv_name (hd_sigma d) rc))) (hd_params d).
(* 242: a joint distribution with some but not all parameters fixed - NM-TRAN can only fix a whole block
   (since commit f6a49ae create_omega_block writes FIX when all parameters are fixed) *)
Definition partial_fix (d : hdist) : bool :=
  Nat.ltb 1 (length (hd_names d)) && existsb (fun p => snd (snd (fst p))) (hd_params d)
  && negb (forallb (fun p => snd (snd (fst p))) (hd_params d)).

(* the number of random effects a record defines *)
Definition rec_neta (prev : nat) (root : node) : nat :=
  if has r_same (children root) then prev
  else if is_block_record root
       then match subtree r_block (children root) with
            | Some b => match subtree r_size (children b) with
                        | Some s => match leaf r_INT (children s) with
                                    | Some t => match int_of_text t with Some n => N.to_nat n | None => 0 end
                                    | None => 0
                                    end
                        | None => 0
                        end
            | None => prev
            end
       else match diag_len root with Ok n => N.to_nat n | Err _ => 0 end.
(* 244: a record without BLOCK that defines several random effects loses one of them *)
Fixpoint multi_item_touched (recs : list node) (start prev : nat) (gone : list nat) : bool :=
  match recs with
  | [] => false
  | r :: tl =>
      let k := rec_neta prev r in
      (negb (is_block_record r) && Nat.ltb 1 k
       && existsb (fun g => Nat.leb start g && Nat.ltb g (start + k)) gone)
      || multi_item_touched tl (start + k) k gone
  end.

(* 246: a record with a (v)xn repeat loses one of its random effects *)
Fixpoint xn_item_touched (recs : list node) (start prev : nat) (gone : list nat) : bool :=
  match recs with
  | [] => false
  | r :: tl =>
      let k := rec_neta prev r in
      (negb (is_block_record r) && existsb (has_rule r_n) (walk r)
       && existsb (fun g => Nat.leb start g && Nat.ltb g (start + k)) gone)
      || xn_item_touched tl (start + k) k gone
  end.

Definition hparams (l : list hdist) := flat_map (@hd_params) l.
Definition hstep_verdict (c : hstep) : list nat :=
  let mem := hs_mem c in
  let omegas := firstn (hs_nomega c) (hs_before c) in
  let sigmas := skipn (hs_nomega c) (hs_before c) in
  match hs_status c with
  | 1 => []                                  (* the API refused the edit: nothing was generated *)
  | 2 => [47]
  | _ =>
      match hs_rr c with
      | None => []
      | Some (RErr _) => [41]
      | Some (ROk rr) =>
          tag (Nat.eqb (length mem) (length rr)
               && forallb (fun ab => Nat.eqb (length (hd_names (fst ab))) (length (hd_names (snd ab)))
                                     && forallb (fun xy => text_eqb (fst xy) (snd xy))
                                          (combine (hd_names (fst ab)) (hd_names (snd ab)))) (combine mem rr)) 42
          ++ tag (Nat.eqb (length mem) (length rr)
                  && forallb (fun ab => Nat.eqb (hd_level (fst ab)) (hd_level (snd ab))
                                        && Nat.eqb (length (hd_names (fst ab))) (length (hd_names (snd ab))))
                       (combine mem rr)) 43
          ++ (let pm := hparams mem in let pr := hparams rr in
              if negb (Nat.eqb (length pm) (length pr)) then [43]
              else tag (forallb (fun ab => Qeq_bool (fst (snd (fst (fst ab)))) (fst (snd (fst (snd ab))))) (combine pm pr)) 44
                   (* FIX flags: 45 for a distribution of one random effect, 48 inside joint distributions *)
                   ++ tag (forallb (fun ab => Nat.ltb 1 (length (hd_names (fst ab)))
                                              || forallb (fun xy => Bool.eqb (snd (snd (fst (fst xy)))) (snd (snd (fst (snd xy)))))
                                                   (combine (hd_params (fst ab)) (hd_params (snd ab)))) (combine mem rr)) 45
                   ++ tag (forallb (fun ab => negb (Nat.ltb 1 (length (hd_names (fst ab))))
                                              || forallb (fun xy => Bool.eqb (snd (snd (fst (fst xy)))) (snd (snd (fst (snd xy)))))
                                                   (combine (hd_params (fst ab)) (hd_params (snd ab)))) (combine mem rr)) 48
                   ++ tag (forallb (fun ab => text_eqb (fst (fst (fst ab))) (fst (fst (snd ab)))) (combine pm pr)) 46)
      end
  end
  ++ flat_map pstep_verdict (hs_plans c)
  ++ (if forallb pstep_aligned (hs_plans c) then [] else [251])
  ++ (if existsb (fun p => existsb cobs_same_fix (ps_created p)) (hs_plans c) then [252] else [])
  ++ (if existsb default_name_moved mem then [241] else [])
  ++ (if existsb partial_fix mem then [242] else [])
  ++ (if multi_item_touched omegas 0 0 (hs_gone c)
         || multi_item_touched sigmas 1000 0 (hs_gone c) then [244] else [])
  ++ (if existsb (fun r => existsb (fun x => has_rule r_SD x || has_rule r_CORR x || has_rule r_CHOLESKY x) (walk r))
               (hs_before c) then [245] else [])
  ++ (if xn_item_touched omegas 0 0 (hs_gone c) || xn_item_touched sigmas 1000 0 (hs_gone c) then [246] else []).

Inductive case2 := C1 (c : case) | CHist (c : hstep).
Definition verdict2 (c : case2) : list nat :=
  match c with C1 x => verdict x | CHist h => hstep_verdict h end.
