(* PV.C04.Cst — concrete syntax trees of NONMEM parameter records as pharmpy holds them
   (pharmpy.internals.parse.generic.AttrTree / AttrToken) and the generic child-list surgery
   helpers of that module, mirrored statement by statement.  Definitions only (no proofs).
   The rule numbering below is the single source of truth: harness/props/c04.py reads this
   file to build its name -> number table. *)
From Coq Require Import List NArith PArith Bool Arith.
Import ListNotations.

Definition rule := positive.
Definition text := list N.          (* a Python str as code points *)

Inductive node :=
| Tok (r : rule) (v : text)
| Tree (r : rule) (ch : list node).

(* BEGIN-RULES *)
Definition r_root : rule := 1%positive.
Definition r_theta : rule := 2%positive.
Definition r_init : rule := 3%positive.
Definition r_low : rule := 4%positive.
Definition r_up : rule := 5%positive.
Definition r_n : rule := 6%positive.
Definition r_LPAR : rule := 7%positive.
Definition r_RPAR : rule := 8%positive.
Definition r_COMMA : rule := 9%positive.
Definition r_NUMERIC : rule := 10%positive.
Definition r_NEG_INF : rule := 11%positive.
Definition r_POS_INF : rule := 12%positive.
Definition r_FIX : rule := 13%positive.
Definition r_WS : rule := 14%positive.
Definition r_COMMENT : rule := 15%positive.
Definition r_NEWLINE : rule := 16%positive.
Definition r_X : rule := 17%positive.
Definition r_INT : rule := 18%positive.
Definition r_option : rule := 19%positive.
Definition r_KEY : rule := 20%positive.
Definition r_VALUE : rule := 21%positive.
Definition r_EQUAL : rule := 22%positive.
Definition r_diag_item : rule := 23%positive.
Definition r_omega : rule := 24%positive.
Definition r_block : rule := 25%positive.
Definition r_bare_block : rule := 26%positive.
Definition r_same : rule := 27%positive.
Definition r_diagonal : rule := 28%positive.
Definition r_size : rule := 29%positive.
Definition r_SD : rule := 30%positive.
Definition r_VAR : rule := 31%positive.
Definition r_CORR : rule := 32%positive.
Definition r_COV : rule := 33%positive.
Definition r_CHOLESKY : rule := 34%positive.
Definition r_BLOCK : rule := 35%positive.
Definition r_SAME : rule := 36%positive.
Definition r_DIAGONAL : rule := 37%positive.
Definition r_ws : rule := 38%positive.
Definition r_LPAR_INT : rule := 39%positive.
(* END-RULES *)

Definition rule_of (n : node) : rule := match n with Tok r _ => r | Tree r _ => r end.
Definition is_tree (n : node) : bool := match n with Tree _ _ => true | Tok _ _ => false end.
Definition children (n : node) : list node := match n with Tree _ ch => ch | Tok _ _ => [] end.
Definition has_rule (r : rule) (n : node) : bool := Pos.eqb (rule_of n) r.

Fixpoint text_eqb (a b : text) : bool :=
  match a, b with
  | [], [] => true
  | x :: a', y :: b' => N.eqb x y && text_eqb a' b'
  | _, _ => false
  end.

Fixpoint node_eqb (a b : node) : bool :=
  match a, b with
  | Tok r v, Tok r' v' => Pos.eqb r r' && text_eqb v v'
  | Tree r ch, Tree r' ch' =>
      Pos.eqb r r' &&
      (fix leq (l l' : list node) : bool :=
         match l, l' with
         | [], [] => true
         | x :: t, y :: t' => node_eqb x y && leq t t'
         | _, _ => false
         end) ch ch'
  | _, _ => false
  end.

Fixpoint nodes_eqb (l l' : list node) : bool :=
  match l, l' with
  | [], [] => true
  | x :: t, y :: t' => node_eqb x y && nodes_eqb t t'
  | _, _ => false
  end.

(* AttrTree.__str__ / AttrToken.__str__ *)
Fixpoint str (n : node) : text :=
  match n with
  | Tok _ v => v
  | Tree _ ch => flat_map str ch
  end.
Definition str_list (l : list node) : text := flat_map str l.

(* AttrTree.tree_walk: depth first, every child followed by its own walk *)
Fixpoint walk (n : node) : list node :=
  match n with
  | Tok _ _ => []
  | Tree _ ch => flat_map (fun c => c :: walk c) ch
  end.

(* AttrTree.tokens: all tokens in depth-first order *)
Definition tokens (n : node) : list node := filter (fun c => negb (is_tree c)) (walk n).

(* first child matching rule (AttrTree.find) *)
Fixpoint find (r : rule) (ch : list node) : option node :=
  match ch with
  | [] => None
  | c :: tl => if has_rule r c then Some c else find r tl
  end.
Definition has (r : rule) (ch : list node) : bool :=
  match find r ch with Some _ => true | None => false end.

(* AttrTree.subtree: first child that is a tree with the rule; None = NoSuchRuleException *)
Fixpoint subtree (r : rule) (ch : list node) : option node :=
  match ch with
  | [] => None
  | c :: tl => if is_tree c && has_rule r c then Some c else subtree r tl
  end.
(* AttrTree.subtrees *)
Definition subtrees (r : rule) (ch : list node) : list node :=
  filter (fun c => is_tree c && has_rule r c) ch.

(* AttrTree.leaf: first child that is a token with the rule *)
Fixpoint leaf (r : rule) (ch : list node) : option text :=
  match ch with
  | [] => None
  | Tok r' v :: tl => if Pos.eqb r' r then Some v else leaf r tl
  | Tree _ _ :: tl => leaf r tl
  end.

(* AttrTree.replace_first(child): replace the first child having the rule of [c] (no-op when
   there is none; replacing by an equal node yields an equal list, so the identity shortcut of the
   Python code is not observable) *)
Fixpoint replace_first (c : node) (ch : list node) : list node :=
  match ch with
  | [] => []
  | x :: tl => if has_rule (rule_of c) x then c :: tl else x :: replace_first c tl
  end.

(* AttrTree.remove(rule): all children with the rule, not recursively *)
Definition remove_rule (r : rule) (ch : list node) : list node :=
  filter (fun c => negb (has_rule r c)) ch.

Definition ws_tok : node := Tok r_WS [32%N].
Definition fix_tok : node := Tok r_FIX [70%N; 73%N; 88%N].
Definition comma_tok : node := Tok r_COMMA [44%N].
Definition lpar_tok : node := Tok r_LPAR [40%N].
Definition rpar_tok : node := Tok r_RPAR [41%N].

(* remove_token_and_space(tree, rule) (non recursive): drop every child with the rule and, for each,
   the WS that is then last among the kept children.  [acc] is the kept list, reversed. *)
Fixpoint rtas_aux (r : rule) (acc : list node) (l : list node) : list node :=
  match l with
  | [] => rev acc
  | x :: tl =>
      if has_rule r x
      then match acc with
           | w :: acc' => if has_rule r_WS w then rtas_aux r acc' tl else rtas_aux r acc tl
           | [] => rtas_aux r [] tl
           end
      else rtas_aux r (x :: acc) tl
  end.
Definition rtas (r : rule) (ch : list node) : list node := rtas_aux r [] ch.

(* remove_token_and_space(tree, rule, recursive=True): the same at every level below *)
Fixpoint rtas_rec_node (r : rule) (n : node) : node :=
  match n with
  | Tok _ _ => n
  | Tree r' ch => Tree r' (rtas r (map (rtas_rec_node r) ch))
  end.
(* (the removal looks at rules only and the recursion keeps rules, so recursing first is the same) *)
Definition rtas_rec (r : rule) (ch : list node) : list node := rtas r (map (rtas_rec_node r) ch).

(* insert_before_or_at_end(tree, rule, nodes) *)
Fixpoint ins_before (r : rule) (nodes : list node) (ch : list node) : list node * bool :=
  match ch with
  | [] => ([], false)
  | x :: tl =>
      let '(tl', found) := ins_before r nodes tl in
      if has_rule r x then (nodes ++ x :: tl', true) else (x :: tl', found)
  end.
Definition insert_before_or_at_end (r : rule) (nodes : list node) (ch : list node) : list node :=
  let '(l, found) := ins_before r nodes ch in if found then l else l ++ nodes.

(* insert_after(tree, rule, nodes) *)
Definition insert_after (r : rule) (nodes : list node) (ch : list node) : list node :=
  flat_map (fun x => if has_rule r x then x :: nodes else [x]) ch.

(* ---- small text utilities ------------------------------------------------------------------- *)
Definition is_digit (c : N) : bool := (48 <=? c)%N && (c <=? 57)%N.
Definition is_alpha_ (c : N) : bool :=
  ((65 <=? c)%N && (c <=? 90)%N) || ((97 <=? c)%N && (c <=? 122)%N) || (c =? 95)%N.
Definition is_word (c : N) : bool := is_alpha_ c || is_digit c.
(* Python's \s on ASCII: space, \t \n \v \f \r and the separators 0x1c-0x1f *)
Definition is_space (c : N) : bool :=
  (c =? 32)%N || ((9 <=? c)%N && (c <=? 13)%N) || ((28 <=? c)%N && (c <=? 31)%N).

(* int(token.value) for a token made of ASCII digits; None = ValueError *)
Fixpoint digits_val (acc : N) (l : text) : option N :=
  match l with
  | [] => Some acc
  | c :: tl => if is_digit c then digits_val (acc * 10 + (c - 48))%N tl else None
  end.
Definition int_of_text (l : text) : option N :=
  match l with [] => None | _ => digits_val 0%N l end.

(* str(n) for a non negative int *)
Fixpoint N_digits_fuel (fuel : nat) (n : N) (acc : text) : text :=
  match fuel with
  | O => acc
  | S f => let d := (48 + n mod 10)%N in
           if (n <? 10)%N then d :: acc else N_digits_fuel f (n / 10)%N (d :: acc)
  end.
Definition text_of_N (n : N) : text := N_digits_fuel (S (N.to_nat (N.log2 n))) n [].

(* re.search of the pattern  ; \s* ( [a-zA-Z_] \w* )  : the name after the first ';' that is followed, after optional
   white space, by an identifier (ASCII classes; the generator stays within ASCII) *)
Fixpoint skip_space (l : text) : text :=
  match l with
  | c :: tl => if is_space c then skip_space tl else l
  | [] => []
  end.
Fixpoint take_word (l : text) : text :=
  match l with
  | c :: tl => if is_word c then c :: take_word tl else []
  | [] => []
  end.
Fixpoint comment_name (l : text) : option text :=
  match l with
  | [] => None
  | c :: tl =>
      if (c =? 59)%N
      then match skip_space tl with
           | (d :: _) as rest => if is_alpha_ d then Some (take_word rest) else comment_name tl
           | [] => comment_name tl
           end
      else comment_name tl
  end.
