(* PV.C04.ProofsTheta2 — decode soundness, the read-back of one updated theta (Part IV) and of a whole record. *)
From Coq Require Import List NArith ZArith PArith Bool Arith Lia.
From PV Require Import C04.Cst C04.Lcs C04.Model C04.ProofsTheta.
Import ListNotations.
Local Open Scope nat_scope.

(* ================================================================ decode is sound *)
Lemma take_tok_some r l t tl : take_tok r l = Some (t, tl) -> l = Tok r t :: tl.
Proof.
  destruct l as [|[r' t'|r' ch] l']; unfold take_tok; try discriminate.
  destruct (Pos.eqb r' r) eqn:E; [|discriminate]. apply Pos.eqb_eq in E. subst r'.
  intro H. injection H as <- <-. reflexivity.
Qed.
Lemma take_lab_some lab l rn t tl : take_lab lab l = Some (rn, t, tl) -> l = Tree lab [Tok rn t] :: tl.
Proof.
  destruct l as [|[r' t'|r' ch] l']; unfold take_lab; try discriminate.
  destruct ch as [|[r1 t1|r1 c1] [|x ch']]; try discriminate.
  destruct (Pos.eqb r' lab) eqn:E; [|discriminate]. apply Pos.eqb_eq in E. subst r'.
  intro H. injection H as <- <- <-. reflexivity.
Qed.
Lemma dec_n_some c tx ti : dec_n c = Some (tx, ti) -> c = n_node tx ti.
Proof.
  destruct c as [r t|r ch]; unfold dec_n; try discriminate.
  destruct ch as [|[r1 t1|r1 c1] [|[r2 t2|r2 c2] [|x ch']]]; try discriminate.
  destruct (Pos.eqb r r_n) eqn:E1; [|discriminate]. destruct (Pos.eqb r1 r_X) eqn:E2; [|discriminate].
  destruct (Pos.eqb r2 r_INT) eqn:E3; [|discriminate]. cbn [andb].
  apply Pos.eqb_eq in E1, E2, E3. subst. intro H. injection H as <- <-. reflexivity.
Qed.
Lemma dec_close_some l cl : dec_close l = Some cl -> l = enc_close cl.
Proof.
  destruct l as [|c [|d [|e l']]]; cbn [dec_close]; try discriminate.
  - intro H. injection H as <-. reflexivity.
  - destruct (take_tok r_FIX [c]) as [[t tl]|] eqn:E.
    + intro H. injection H as <-. apply take_tok_some in E. injection E as -> _. reflexivity.
    + destruct (dec_n c) as [[tx ti]|] eqn:En; [|discriminate].
      intro H. injection H as <-. apply dec_n_some in En. subst c. reflexivity.
  - destruct (dec_n c) as [[tx ti]|] eqn:En; [|discriminate].
    destruct (take_tok r_FIX [d]) as [[t tl]|] eqn:E; [|discriminate].
    intro H. injection H as <-. apply dec_n_some in En. apply take_tok_some in E. injection E as -> _.
    subst c. reflexivity.
Qed.

Lemma decode_sound l s : decode l = Some s -> l = encode s.
Proof.
  unfold decode.
  destruct (take_lab r_init l) as [[[rn ti] tl]|] eqn:Ei.
  - apply take_lab_some in Ei. subst l.
    destruct (Pos.eqb rn r_NUMERIC) eqn:En; [|discriminate]. apply Pos.eqb_eq in En. subst rn.
    destruct tl as [|c tl'].
    + intro H. injection H as <-. reflexivity.
    + destruct (take_tok r_FIX (c :: tl')) as [[t [|x y]]|] eqn:Ef; try discriminate.
      intro H. injection H as <-. apply take_tok_some in Ef. rewrite Ef. reflexivity.
  - destruct (take_tok r_LPAR l) as [[tlp l1]|] eqn:El; [|discriminate].
    apply take_tok_some in El. subst l.
    destruct (dec_lo l1) as [[lo l3]|] eqn:Elo; [|discriminate].
    destruct (take_lab r_init l3) as [[[rn ti] l4]|] eqn:Ei2; [|discriminate].
    destruct (Pos.eqb rn r_NUMERIC) eqn:En; [|discriminate]. apply Pos.eqb_eq in En. subst rn.
    destruct (dec_up l4) as [[up l6]|] eqn:Eup; [|discriminate].
    destruct (take_tok r_RPAR l6) as [[tr l7]|] eqn:Er; [|discriminate].
    destruct (dec_close l7) as [cl|] eqn:Ec; [|discriminate].
    intro H. injection H as <-.
    apply take_lab_some in Ei2. apply take_tok_some in Er. apply dec_close_some in Ec. subst l3 l6 l7.
    cbn [encode]. f_equal.
    assert (Hlo : l1 = enc_lo lo ++ Tree r_init [Tok r_NUMERIC ti] :: l4).
    { unfold dec_lo in Elo. destruct (take_lab r_low l1) as [[[rl tlow] l2]|] eqn:E1.
      - destruct (take_tok r_COMMA l2) as [[tc l3']|] eqn:E2; [|discriminate].
        injection Elo as <- <-. apply take_lab_some in E1. apply take_tok_some in E2. subst. reflexivity.
      - injection Elo as <- <-. reflexivity. }
    assert (Hup : l4 = enc_up up ++ Tok r_RPAR tr :: enc_close cl).
    { unfold dec_up in Eup. destruct (take_tok r_COMMA l4) as [[tc l2]|] eqn:E1.
      - destruct (take_lab r_up l2) as [[[ru tu] l3']|] eqn:E2; [|discriminate].
        injection Eup as <- <-. apply take_tok_some in E1. apply take_lab_some in E2. subst. reflexivity.
      - injection Eup as <- <-. reflexivity. }
    rewrite Hlo, Hup. reflexivity.
Qed.

(* ================================================================ Part IV: read-back of one theta *)
Section Readback.
Variable V : Type.
Variable F : fops V.
Hypothesis HF : fops_ok F.

Lemma close_set_fix_n cl b : close_n (close_set_fix cl b) = close_n cl.
Proof. destruct cl, b; reflexivity. Qed.
Lemma close_set_fix_has cl b : close_has_fix (close_set_fix cl b) = b.
Proof. destruct cl, b; reflexivity. Qed.

(* the components of the updated shape *)
Lemma upd_proj (s : shape) (p : param V) (cur : V) (n : N) :
  shape_ok V F s = true ->
  close_n (shape_close s) = Some n ->
  let s' := upd_shape V F s p cur n in
  shape_lo s' = (if p_need_low V F p then Some (r_NUMERIC, ext_text V F (p_lower p)) else None)
  /\ shape_up s' = (if p_need_up V F p then Some (r_NUMERIC, ext_text V F (p_upper p)) else None)
  /\ shape_init s' = (if veqb F cur (p_init p) then shape_init s else vstr F (p_init p))
  /\ shape_has_fix s' = p_fix p
  /\ shape_n s' = Some n.
Proof.
  intros Hok Hn. unfold upd_shape, p_need_low.
  generalize (p_need_up V F p); intro nu.
  generalize (ext_ltb V F (Fin (vmin F)) (p_lower p)); intro gl.
  generalize (veqb F cur (p_init p)); intro same.
  destruct s as [ti fx | tl lo ti up tr cl].
  - destruct fx; cbn in Hn; injection Hn as <-;
      destruct (p_fix p), nu, gl, same; repeat split; reflexivity.
  - cbn [shape_ok] in Hok. cbn [shape_close] in Hn.
    apply andb_true_iff in Hok. destruct Hok as [Hok Hcl].
    apply andb_true_iff in Hok. destruct Hok as [_ Hup].
    destruct (close_ok_n cl Hcl) as [n' [Hn' Hn1]]. rewrite Hn in Hn'. injection Hn' as <-.
    destruct lo as [[[rl tlo] tcl]|]; destruct up as [[[tcu ru] tu]|];
      try (cbn in Hup; rewrite andb_false_r in Hup; discriminate).
    all: destruct cl as [|t|tx ti0|tx ti0 tf]; try discriminate;
      cbn in Hn, Hn1; try (match type of Hn with Some _ = Some _ => injection Hn as <- end);
      try rewrite Hn1;
      destruct (p_fix p), nu, gl, same; cbn; repeat split; try reflexivity; try exact Hn.
Qed.

Definition raw (p : param V) : V * (ext V * ext V) * bool := (p_init p, (p_lower p, p_upper p), p_fix p).

Lemma vltb_neq a b : vltb F a b = true -> veqb F a b = false.
Proof.
  intro H. destruct (veqb F a b) eqn:E; [|reflexivity].
  apply (veqb_true F HF) in E. subst b. rewrite (vltb_irrefl F HF) in H. discriminate.
Qed.
Lemma vltb_neq' a b : vltb F a b = true -> veqb F b a = false.
Proof.
  intro H. destruct (veqb F b a) eqn:E; [|reflexivity].
  apply (veqb_true F HF) in E. subst b. rewrite (vltb_irrefl F HF) in H. discriminate.
Qed.

(* the lower bound update wrote reads back as the parameter's lower bound *)
Lemma read_lower (p : param V) :
  g_repr V F p = true ->
  exists lowtok,
    read_bound V F neg_inf_spelling
      (if p_need_low V F p then Some (r_NUMERIC, ext_text V F (p_lower p)) else None) = Ok lowtok
    /\ match lowtok with
       | BVal l => p_lower p = Fin l /\ veqb F l (vmin F) = false /\ vltb F l (vmin F) = false
       | BInf => p_lower p = MInf
       | BNone => p_lower p = MInf /\ p_need_up V F p = false
       end.
Proof.
  unfold g_repr. intro G. repeat (apply andb_true_iff in G; destruct G as [G ?]).
  unfold p_need_low. destruct (p_lower p) as [|l|] eqn:El; try discriminate.
  - cbn [ext_ltb orb]. destruct (p_need_up V F p) eqn:Nu.
    + exists BInf. split; reflexivity.
    + exists BNone. split; [reflexivity | split; reflexivity].
  - cbn [ext_ltb]. match goal with H : vltb F (vmin F) l = true |- _ => rename H into Hl end.
    rewrite Hl. cbn [orb read_bound ext_text].
    destruct (neg_inf_spelling (fmtnum F l)) eqn:Es.
    + exfalso. pose proof (neg_inf_val F HF _ _ Es (tok_fmt F HF l)) as E. subst l.
      rewrite (vltb_irrefl F HF) in Hl. discriminate.
    + rewrite (tok_fmt F HF). exists (BVal l). split; [reflexivity|].
      split; [reflexivity|]. split; [apply vltb_neq'; exact Hl | apply (vltb_asym F HF); exact Hl].
Qed.

Lemma read_upper (p : param V) :
  g_repr V F p = true ->
  exists uptok,
    read_bound V F pos_inf_spelling
      (if p_need_up V F p then Some (r_NUMERIC, ext_text V F (p_upper p)) else None) = Ok uptok
    /\ match uptok with
       | BVal u => p_upper p = Fin u /\ veqb F u (vmax F) = false /\ vltb F (vmax F) u = false
                   /\ p_need_up V F p = true
       | BInf => False
       | BNone => p_upper p = PInf /\ p_need_up V F p = false
       end.
Proof.
  unfold g_repr. intro G. repeat (apply andb_true_iff in G; destruct G as [G ?]).
  unfold p_need_up. destruct (p_upper p) as [|u|] eqn:Eu; try discriminate.
  - cbn [ext_ltb]. match goal with H : vltb F u (vmax F) = true |- _ => rename H into Hu end.
    rewrite Hu. cbn [read_bound ext_text].
    destruct (pos_inf_spelling (fmtnum F u)) eqn:Es.
    + exfalso. pose proof (pos_inf_val F HF _ _ Es (tok_fmt F HF u)) as E. subst u.
      rewrite (vltb_irrefl F HF) in Hu. discriminate.
    + rewrite (tok_fmt F HF). exists (BVal u). split; [reflexivity|].
      split; [reflexivity|]. split; [apply vltb_neq; exact Hu |]. split; [apply (vltb_asym F HF); exact Hu | reflexivity].
  - cbn [ext_ltb]. exists BNone. split; [reflexivity | split; reflexivity].
Qed.

End Readback.

Section Readback2.
Variable V : Type.
Variable F : fops V.
Hypothesis HF : fops_ok F.

Lemma rule_of_relex c : rule_of (relex_bound c) = rule_of c.
Proof.
  destruct c as [r t|r ch]; [reflexivity|]. unfold relex_bound.
  destruct ch as [|[r' t|r' c'] [|x l]]; try reflexivity.
  destruct (_ && _ && _); [reflexivity|]. destruct (_ && _ && _); reflexivity.
Qed.
Lemma nt_relex l : nt (map relex_bound l) = map relex_bound (nt l).
Proof.
  induction l as [|c tl IH]; [reflexivity|]. cbn [map].
  assert (E : is_trivia (relex_bound c) = is_trivia c).
  { unfold is_trivia, has_rule. rewrite rule_of_relex. reflexivity. }
  destruct (is_trivia c) eqn:Ec.
  - rewrite (nt_cons_triv c tl Ec), nt_cons_triv by exact E. exact IH.
  - rewrite (nt_cons_keep c tl Ec), nt_cons_keep by exact E. cbn [map]. f_equal. exact IH.
Qed.

Lemma multiple_encode s : multiple (encode s) = of_opt (shape_n s).
Proof.
  destruct s as [ti fx | tl lo ti up tr cl].
  - destruct fx; reflexivity.
  - destruct lo as [[[rl tlo] tcl]|]; destruct up as [[[tcu ru] tu]|]; destruct cl; reflexivity.
Qed.

Lemma g_repr_parts p : g_repr V F p = true ->
  veqb F (p_init p) (vmax F) = false /\ veqb F (p_init p) (vmin F) = false
  /\ (p_fix p = false -> veqb F (p_init p) (vzero F) = false)
  /\ (p_fix p = false -> forall l, p_lower p = Fin l -> p_upper p = PInf -> veqb F l (p_init p) = false)
  /\ (p_fix p = false -> forall l u, p_lower p = Fin l -> p_upper p = Fin u ->
        veqb F l u && veqb F u (p_init p) = false).
Proof.
  unfold g_repr. intro G.
  apply andb_true_iff in G. destruct G as [G G6]. apply andb_true_iff in G. destruct G as [G G5].
  apply andb_true_iff in G. destruct G as [G G4]. apply andb_true_iff in G. destruct G as [G G3].
  apply andb_true_iff in G. destruct G as [G1 G2].
  apply negb_true_iff in G1, G2.
  split; [exact G1|]. split; [exact G2|]. split.
  - intro Hf. rewrite Hf in G5. cbn in G5. apply negb_true_iff in G5. exact G5.
  - split.
    + intros Hf l Hl Hu. rewrite Hf, Hl, Hu in G6. cbn in G6. apply negb_true_iff in G6. exact G6.
    + intros Hf l u Hl Hu. rewrite Hf, Hl, Hu in G6. cbn in G6. apply negb_true_iff in G6. exact G6.
Qed.

Lemma autofix_raw p : g_repr V F p = true -> autofix V F (raw V p) = p.
Proof.
  intro G. destruct (g_repr_parts p G) as [_ [_ [_ [_ G5]]]].
  unfold autofix, raw. destruct p as [i lo up fx]. cbn [p_init p_lower p_upper p_fix] in *.
  destruct lo as [|l|]; try reflexivity. destruct up as [|u|]; try reflexivity.
  destruct fx; [destruct (_ && _); reflexivity|].
  rewrite (G5 eq_refl l u eq_refl eq_refl). reflexivity.
Qed.

(* update of one plain theta, read back *)
Lemma theta_readback (ch : list node) (p : param V) (n : N) :
  plain_theta V F ch = true -> g_repr V F p = true -> multiple ch = Ok n ->
  exists ch', update_theta V F ch p = Ok (ch', n)
    /\ theta_bounds V F (map relex_bound ch') = Ok (rep n (p_lower p, p_upper p))
    /\ theta_inits V F (map relex_bound ch') = Ok (rep n (p_init p))
    /\ theta_fixs V F (map relex_bound ch') = Ok (rep n (p_fix p)).
Proof.
  intros Hplain G Hn.
  unfold plain_theta in Hplain. apply andb_true_iff in Hplain. destruct Hplain as [_ Hd].
  destruct (decode (nt ch)) as [s|] eqn:Ed; [|discriminate].
  apply decode_sound in Ed.
  assert (Hcur : exists cur, tokval F (shape_init s) = Some cur).
  { destruct s as [ti fx|tl lo ti up tr cl]; cbn [shape_ok shape_init] in *.
    - destruct (tokval F ti); [eexists; reflexivity | discriminate].
    - destruct (tokval F ti); [eexists; reflexivity | discriminate]. }
  destruct Hcur as [cur Hcur].
  destruct (update_encode V F s p cur Hd Hcur) as [n' [Hn' Hupd]].
  rewrite close_set_fix_n in Hn'.
  assert (En : n' = n).
  { rewrite <- multiple_nt, Ed, multiple_encode in Hn. unfold shape_n in Hn. rewrite Hn' in Hn.
    cbn in Hn. injection Hn as ->. reflexivity. }
  subst n'.
  pose proof (update_theta_erase V F ch p) as He. rewrite Ed, Hupd in He.
  destruct (update_theta V F ch p) as [[ch' n2]|e] eqn:Eu; [|discriminate].
  injection He as He1 He2. subst n2. exists ch'. split; [reflexivity|].
  set (s' := upd_shape V F s p cur n) in *.
  rewrite <- theta_bounds_nt, <- theta_inits_nt, <- theta_fixs_nt, nt_relex, <- He1.
  destruct (upd_proj V F s p cur n Hd Hn') as [Plo [Pup [Pin [Pfx Pn]]]]. fold s' in Plo, Pup, Pin, Pfx, Pn.
  assert (W : written s').
  { split; intros r t H.
    - rewrite Plo in H. destruct (p_need_low V F p); [injection H as <- _; reflexivity | discriminate].
    - rewrite Pup in H. destruct (p_need_up V F p); [injection H as <- _; reflexivity | discriminate]. }
  destruct (read_encode V F s' W) as [Rlo [Rup [Rin [Rfx Rn]]]]. fold (relexed (encode s')).
  rewrite Plo in Rlo. rewrite Pup in Rup. rewrite Pin in Rin. rewrite Pfx in Rfx. rewrite Pn in Rn.
  destruct (read_lower V F HF p G) as [lowtok [Hlow Plow]]. rewrite Hlow in Rlo.
  destruct (read_upper V F HF p G) as [uptok [Hup Pupp]]. rewrite Hup in Rup.
  assert (Hinit : init_value V F (relexed (encode s')) = Ok (p_init p)).
  { rewrite Rin. destruct (veqb F cur (p_init p)) eqn:Es.
    - apply (veqb_true F HF) in Es. subst cur. rewrite Hcur. reflexivity.
    - rewrite (tok_str F HF). reflexivity. }
  destruct (g_repr_parts p G) as [G1 [G2 [G3 [G4 G5]]]].
  split; [|split].
  - (* bounds *)
    unfold theta_bounds. rewrite Rlo, Rup, Rn. cbn [bind of_opt].
    destruct lowtok as [| |l].
    + destruct Plow as [Pl _]. rewrite Pl. cbn [bind].
      destruct uptok as [| |u]; [destruct Pupp as [Pu _]; rewrite Pu; reflexivity | contradiction |].
      destruct Pupp as [Pu [Pu1 [Pu2 _]]]. rewrite Pu, Pu1, Pu2. reflexivity.
    + rewrite Plow. cbn [bind].
      destruct uptok as [| |u]; [destruct Pupp as [Pu _]; rewrite Pu; reflexivity | contradiction |].
      destruct Pupp as [Pu [Pu1 [Pu2 _]]]. rewrite Pu, Pu1, Pu2. reflexivity.
    + destruct Plow as [Pl [Pl1 Pl2]]. rewrite Pl, Pl1, Pl2. cbn [bind].
      destruct uptok as [| |u]; [destruct Pupp as [Pu _]; rewrite Pu; reflexivity | contradiction |].
      destruct Pupp as [Pu [Pu1 [Pu2 _]]]. rewrite Pu, Pu1, Pu2. reflexivity.
  - (* inits *)
    unfold theta_inits. rewrite Hinit, Rn. cbn [bind of_opt]. rewrite G1, G2. reflexivity.
  - (* fixs *)
    unfold theta_fixs. rewrite Hinit, Rlo, Rup, Rfx, Rn. cbn [bind of_opt].
    destruct (p_fix p) eqn:Ef; cbn [bind negb andb]; [reflexivity|].
    rewrite (G3 eq_refl).
    destruct uptok as [| |u]; [|contradiction|].
    + destruct Pupp as [Pu _].
      destruct lowtok as [| |l]; cbn [btok_is_val andb]; try reflexivity.
      destruct Plow as [Pl _]. rewrite (G4 eq_refl l Pl Pu). reflexivity.
    + cbn [andb]. reflexivity.
Qed.

End Readback2.

(* ================================================================ a whole record *)
Section Record.
Variable V : Type.
Variable F : fops V.
Hypothesis HF : fops_ok F.

Lemma ext_eqb_eq (a b : ext V) : ext_eqb V F a b = true -> a = b.
Proof.
  destruct a, b; cbn; try discriminate; try reflexivity.
  intro H. apply (veqb_true F HF) in H. subst. reflexivity.
Qed.
Lemma param_eqb_eq (a b : param V) : param_eqb V F a b = true -> a = b.
Proof.
  unfold param_eqb. intro H.
  apply andb_true_iff in H. destruct H as [H H4]. apply andb_true_iff in H. destruct H as [H H3].
  apply andb_true_iff in H. destruct H as [H1 H2].
  apply (veqb_true F HF) in H1. apply ext_eqb_eq in H2, H3. apply Bool.eqb_prop in H4.
  destruct a, b; cbn in *. subst. reflexivity.
Qed.

Lemma uniform_repeat (grp : list (param V)) p tl :
  grp = p :: tl -> g_xn_uniform V F grp = true -> grp = repeat p (length grp).
Proof.
  intros -> H. cbn in H |- *. f_equal. induction tl as [|q tl IH]; [reflexivity|].
  cbn in H |- *. apply andb_true_iff in H. destruct H as [H1 H2].
  apply param_eqb_eq in H1. subst q. f_equal. exact (IH H2).
Qed.

Lemma relex_theta_other c : is_theta_tree c = false -> relex_theta c = c.
Proof.
  destruct c as [r t|r ch]; [reflexivity|]. unfold is_theta_tree, relex_theta, has_rule. cbn [is_tree rule_of andb].
  intro H. rewrite H. reflexivity.
Qed.

Lemma mapM_cons {A B} (f : A -> res B) x l y ys :
  f x = Ok y -> mapM f l = Ok ys -> mapM f (x :: l) = Ok (y :: ys).
Proof. intros H1 H2. cbn [mapM]. rewrite H1. cbn [bind]. rewrite H2. reflexivity. Qed.

Lemma map_repeat {A B} (f : A -> B) x n : map f (repeat x n) = repeat (f x) n.
Proof. induction n; cbn; [reflexivity | f_equal; assumption]. Qed.

Lemma values_update (ch : list node) (ps : list (param V)) :
  guard_children V F ch ps = true ->
  exists ch' BS IS FS,
    update_children V F ch ps = Ok ch'
    /\ mapM (theta_bounds V F) (map children (subtrees r_theta (map relex_theta ch'))) = Ok BS
    /\ mapM (theta_inits V F) (map children (subtrees r_theta (map relex_theta ch'))) = Ok IS
    /\ mapM (theta_fixs V F) (map children (subtrees r_theta (map relex_theta ch'))) = Ok FS
    /\ concat BS = map (fun p => (p_lower p, p_upper p)) ps
    /\ concat IS = map (@p_init V) ps
    /\ concat FS = map (@p_fix V) ps
    /\ Forall (fun p => g_repr V F p = true) ps.
Proof.
  revert ps. induction ch as [|c tl IH]; intros ps G.
  - cbn in G. destruct ps; [|discriminate]. exists [], [], [], []. repeat split; constructor.
  - cbn [guard_children] in G. cbn [update_children].
    destruct (is_theta_tree c) eqn:Et.
    + destruct (multiple (children c)) as [n|e] eqn:En; [|discriminate].
      apply andb_true_iff in G. destruct G as [Gt Gtl].
      unfold guard_theta in Gt.
      destruct (firstn (N.to_nat n) ps) as [|p grp'] eqn:Egrp; [discriminate|].
      apply andb_true_iff in Gt. destruct Gt as [Gt Grepr].
      apply andb_true_iff in Gt. destruct Gt as [Gt _].
      apply andb_true_iff in Gt. destruct Gt as [Gt Gun].
      apply andb_true_iff in Gt. destruct Gt as [Gplain Glen]. apply Nat.eqb_eq in Glen.
      pose proof (uniform_repeat _ p grp' eq_refl Gun) as Hrep. rewrite Glen in Hrep.
      destruct ps as [|p0 ps']; [destruct (N.to_nat n); discriminate|].
      assert (p0 = p). { destruct (N.to_nat n); cbn in Egrp; [discriminate | injection Egrp as -> _; reflexivity]. }
      subst p0.
      destruct (theta_readback V F HF (children c) p n Gplain Grepr En) as [c' [Hu [Hb [Hi Hf]]]].
      rewrite Hu. cbn [bind].
      destruct (IH _ Gtl) as [tl' [BS [IS [FS [Hutl [HB [HI [HFx [CB [CI [CF Hall]]]]]]]]]]].
      rewrite Hutl. cbn [bind].
      exists (Tree r_theta c' :: tl'), (rep n (p_lower p, p_upper p) :: BS), (rep n (p_init p) :: IS),
        (rep n (p_fix p) :: FS).
      split; [reflexivity|].
      change (map children (subtrees r_theta (map relex_theta (Tree r_theta c' :: tl'))))
        with (map relex_bound c' :: map children (subtrees r_theta (map relex_theta tl'))).
      split; [apply mapM_cons; assumption|]. split; [apply mapM_cons; assumption|].
      split; [apply mapM_cons; assumption|].
      rewrite <- (firstn_skipn (N.to_nat n) (p :: ps')) at 1 2 3 4. rewrite Egrp, Hrep.
      cbn [concat]. rewrite !map_app, !map_repeat, CB, CI, CF. unfold rep.
      split; [reflexivity|]. split; [reflexivity|]. split; [reflexivity|].
      apply Forall_app. split; [|exact Hall].
      apply Forall_forall. intros q Hq. apply repeat_spec in Hq. subst q. exact Grepr.
    + destruct (IH _ G) as [tl' [BS [IS [FS [Hutl [HB [HI [HFx [CB [CI [CF Hall]]]]]]]]]]].
      rewrite Hutl. cbn [bind]. exists (c :: tl'), BS, IS, FS.
      split; [reflexivity|]. cbn [map]. rewrite (relex_theta_other c Et).
      assert (Hs : subtrees r_theta (c :: map relex_theta tl') = subtrees r_theta (map relex_theta tl')).
      { unfold subtrees. cbn [filter]. unfold is_theta_tree in Et. rewrite Et. reflexivity. }
      rewrite Hs. repeat split; assumption.
Qed.

Lemma combine_maps {A B C D} (f : A -> B) (g : A -> C) (h : A -> D) (l : list A) :
  combine (combine (map f l) (map g l)) (map h l) = map (fun x => (f x, g x, h x)) l.
Proof. induction l as [|x tl IH]; cbn; [reflexivity | f_equal; exact IH]. Qed.

Lemma map_autofix_raw (ps : list (param V)) :
  Forall (fun p => g_repr V F p = true) ps ->
  map (fun x => autofix V F (p_init x, (p_lower x, p_upper x), p_fix x)) ps = ps.
Proof.
  induction 1 as [|p tl Hp Htl IH]; [reflexivity|]. cbn [map]. f_equal; [apply (autofix_raw V F p Hp) | exact IH].
Qed.

(* updating a record whose layouts are plain with representable, group-wise equal parameters and
   reading the regenerated tree back gives exactly those parameters *)
Theorem record_update_readback (root : node) (ps : list (param V)) :
  guard_record V F root ps = true ->
  exists root', theta_update V F root ps = Ok root' /\ sem V F (relex root') = Ok ps.
Proof.
  unfold guard_record, theta_update. intro G.
  destruct (values_update _ _ G) as [ch' [BS [IS [FS [Hu [HB [HI [HFx [CB [CI [CF Hall]]]]]]]]]]].
  rewrite Hu. cbn [bind]. eexists. split; [reflexivity|].
  unfold sem, record_values, thetas_of. cbn [relex children].
  rewrite HB, HI, HFx. cbn [bind]. rewrite CB, CI, CF.
  rewrite (combine_maps (@p_init V) (fun p => (p_lower p, p_upper p)) (@p_fix V)).
  rewrite map_map. f_equal. apply map_autofix_raw. exact Hall.
Qed.

End Record.

(* ================================================================ the regenerated theta is grammatical *)
Section Grammar.
Variable V : Type.
Variable F : fops V.

Lemma gram_encode (s : shape) :
  (match shape_close s with CNFix _ _ _ => false | _ => true end) = true ->
  (isSome (shape_up s) = true -> isSome (shape_lo s) = true) ->
  theta_gram (map rule_of (encode s)) = true.
Proof.
  destruct s as [ti fx | tl lo ti up tr cl].
  - intros _ _. destruct fx; reflexivity.
  - cbn [shape_close shape_up shape_lo]. intros Hc Hu.
    destruct lo as [[[rl tlo] tcl]|]; destruct up as [[[tcu ru] tu]|]; destruct cl; try discriminate;
      try reflexivity; exfalso; specialize (Hu eq_refl); discriminate.
Qed.

Lemma skeleton_nt ch : skeleton ch = map rule_of (nt ch).
Proof. reflexivity. Qed.

Lemma theta_update_gram (ch : list node) (p : param V) (n : N) (ch' : list node) :
  plain_theta V F ch = true -> multiple ch = Ok n -> g_xn_nofix V ch n p = true ->
  update_theta V F ch p = Ok (ch', n) ->
  theta_gram (skeleton ch') = true.
Proof.
  intros Hplain Hn Gx Hu.
  unfold plain_theta in Hplain. apply andb_true_iff in Hplain. destruct Hplain as [_ Hd].
  destruct (decode (nt ch)) as [s|] eqn:Ed; [|discriminate].
  apply decode_sound in Ed.
  assert (Hcur : exists cur, tokval F (shape_init s) = Some cur).
  { destruct s as [ti fx|tl lo ti up tr cl]; cbn [shape_ok shape_init] in *.
    - destruct (tokval F ti); [eexists; reflexivity | discriminate].
    - destruct (tokval F ti); [eexists; reflexivity | discriminate]. }
  destruct Hcur as [cur Hcur].
  destruct (update_encode V F s p cur Hd Hcur) as [n' [Hn' Hupd]].
  pose proof (update_theta_erase V F ch p) as He. rewrite Ed, Hupd, Hu in He.
  injection He as He1 He2. subst n'.
  rewrite skeleton_nt, <- He1.
  rewrite close_set_fix_n in Hn'.
  destruct (upd_proj V F s p cur n Hd Hn') as [Plo [Pup [_ [_ _]]]].
  apply gram_encode.
  - (* no FIX after a repeat count *)
    assert (Hfix : has r_FIX ch = shape_has_fix s).
    { rewrite <- (has_nt r_FIX ch eq_refl), Ed.
      destruct s as [ti fx | tl lo ti up tr cl]; [destruct fx; reflexivity|].
      destruct lo as [[[rl tlo] tcl]|]; destruct up as [[[tcu ru] tu]|]; destruct cl; reflexivity. }
    unfold g_xn_nofix in Gx. rewrite Hfix in Gx.
    unfold upd_shape.
    destruct s as [ti fx | tl lo ti up tr cl].
    + destruct (p_need_low V F p); [|destruct (fx_set_fix fx (p_fix p)); reflexivity].
      cbn [shape_close]. destruct (fx_set_fix fx (p_fix p)); reflexivity.
    + cbn [shape_ok] in Hd. apply andb_true_iff in Hd. destruct Hd as [_ Hcl].
      cbn [shape_close shape_has_fix] in Hn', Gx.
      assert (Hc : match close_set_fix cl (p_fix p) with CNFix _ _ _ => false | _ => true end = true).
      { destruct cl as [|t|tx ti0|tx ti0 tf]; try discriminate; destruct (p_fix p) eqn:Ef; try reflexivity.
        cbn in Gx, Hn', Hcl. rewrite Hn' in Hcl. try rewrite Ef in Gx. cbn in Gx.
        rewrite ?orb_false_r in Gx. apply N.eqb_eq in Gx. subst n. discriminate. }
      destruct lo as [[[rl tlo] tcl]|]; destruct (p_need_low V F p); try exact Hc;
        destruct (N.eqb n 1); try exact Hc; cbn [shape_close];
        destruct (close_set_fix cl (p_fix p)); reflexivity.
  - rewrite Plo, Pup. unfold p_need_low. destruct (p_need_up V F p); [|discriminate].
    rewrite orb_true_r. reflexivity.
Qed.

End Grammar.

(* ================================================================ spelling *)
Section Spelling.
Variable V : Type.
Variable F : fops V.

Lemma tok_text_nt which ch : nontriv which = true -> tok_text which (nt ch) = tok_text which ch.
Proof. intro N. unfold tok_text. rewrite find_nt by exact N. reflexivity. Qed.

Lemma tok_text_encode (s : shape) :
  tok_text r_init (encode s) = Some (shape_init s)
  /\ tok_text r_low (encode s) = option_map snd (shape_lo s)
  /\ tok_text r_up (encode s) = option_map snd (shape_up s).
Proof.
  destruct s as [ti fx | tl lo ti up tr cl].
  - destruct fx; repeat split; reflexivity.
  - destruct lo as [[[rl tlo] tcl]|]; destruct up as [[[tcu ru] tu]|]; destruct cl; repeat split; reflexivity.
Qed.

(* a value that is not changed and is spelled the way update spells it keeps its token text:
   always for the init; for a bound when it stays and its text is format_number's *)
Lemma theta_update_spelling_lemma (ch : list node) (p : param V) (n : N) (ch' : list node) :
  plain_theta V F ch = true -> multiple ch = Ok n -> update_theta V F ch p = Ok (ch', n) ->
  (forall cur, init_value V F ch = Ok cur -> veqb F cur (p_init p) = true ->
     tok_text r_init ch' = tok_text r_init ch)
  /\ (p_need_low V F p = true -> tok_text r_low ch' = Some (ext_text V F (p_lower p)))
  /\ (p_need_up V F p = true -> tok_text r_up ch' = Some (ext_text V F (p_upper p))).
Proof.
  intros Hplain Hn Hu.
  unfold plain_theta in Hplain. apply andb_true_iff in Hplain. destruct Hplain as [_ Hd].
  destruct (decode (nt ch)) as [s|] eqn:Ed; [|discriminate].
  apply decode_sound in Ed.
  assert (Hcur : exists cur, tokval F (shape_init s) = Some cur).
  { destruct s as [ti fx|tl lo ti up tr cl]; cbn [shape_ok shape_init] in *.
    - destruct (tokval F ti); [eexists; reflexivity | discriminate].
    - destruct (tokval F ti); [eexists; reflexivity | discriminate]. }
  destruct Hcur as [cur Hcur].
  destruct (update_encode V F s p cur Hd Hcur) as [n' [Hn' Hupd]].
  pose proof (update_theta_erase V F ch p) as He. rewrite Ed, Hupd, Hu in He.
  injection He as He1 He2. subst n'. rewrite close_set_fix_n in Hn'.
  destruct (upd_proj V F s p cur n Hd Hn') as [Plo [Pup [Pin _]]].
  destruct (tok_text_encode (upd_shape V F s p cur n)) as [Ti [Tl Tu]].
  destruct (tok_text_encode s) as [Ti0 _].
  rewrite <- (tok_text_nt r_init ch' eq_refl), <- (tok_text_nt r_low ch' eq_refl), <- (tok_text_nt r_up ch' eq_refl).
  rewrite <- He1, Ti, Tl, Tu, Plo, Pup, Pin.
  split; [|split].
  - intros cur' Hi Hs. rewrite <- (tok_text_nt r_init ch eq_refl), Ed, Ti0.
    assert (cur' = cur).
    { rewrite <- init_value_nt, Ed in Hi.
      destruct s as [ti fx|tl lo ti up tr cl]; cbn [shape_init] in Hcur.
      - destruct fx; unfold init_value in Hi; cbn in Hi; rewrite Hcur in Hi; cbn in Hi; injection Hi as ->; reflexivity.
      - destruct lo as [[[rl tlo] tcl]|]; unfold init_value in Hi; cbn in Hi; rewrite Hcur in Hi; cbn in Hi;
          injection Hi as ->; reflexivity. }
    subst cur'. rewrite Hs. reflexivity.
  - intros ->. reflexivity.
  - intros ->. reflexivity.
Qed.

End Spelling.

(* ================================================================ create_theta_record *)
Section Create.
Variable V : Type.
Variable F : fops V.
Hypothesis HF : fops_ok F.

Lemma tok_vstr0 v : tokval F (vstr0 V F v) = Some v.
Proof.
  unfold vstr0. destruct (veqb F v (vzero F)) eqn:E.
  - apply (veqb_true F HF) in E. subst v. apply (tok_zero F HF).
  - apply (tok_str F HF).
Qed.

(* the record create_theta_record builds for a representable parameter means exactly that parameter *)
Lemma create_theta_readback_lemma (name : text) (p : param V) :
  g_repr V F p = true -> sem V F (create_theta_root V F name p) = Ok [p].
Proof.
  intro G. destruct (g_repr_parts V F p G) as [G1 [G2 [G3 [G4 G5]]]].
  pose proof G as G'. unfold g_repr in G'.
  apply andb_true_iff in G'. destruct G' as [G' _]. apply andb_true_iff in G'. destruct G' as [G' _].
  apply andb_true_iff in G'. destruct G' as [G' Gup]. apply andb_true_iff in G'. destruct G' as [_ Glo].
  destruct p as [pi plo pup pf]. cbn [p_init p_lower p_upper p_fix] in *.
  unfold sem, record_values, create_theta_root, thetas_of. cbn [p_init p_lower p_upper p_fix].
  destruct pup as [|u|]; try discriminate; destruct plo as [|l|]; try discriminate;
    cbn [ext_ltb negb] in *; rewrite ?Gup, ?Glo; cbn [negb];
    destruct pf;
    cbv -[tokval vstr0 veqb vltb vmin vmax vzero];
    rewrite ?tok_vstr0; cbv -[tokval vstr0 veqb vltb vmin vmax vzero];
    rewrite ?G1, ?G2;
    try (rewrite (vltb_neq V F HF _ _ Gup), (vltb_asym F HF _ _ Gup));
    try (rewrite (vltb_neq' V F HF _ _ Glo), (vltb_asym F HF _ _ Glo));
    rewrite ?(G3 eq_refl);
    try (rewrite (G4 eq_refl l eq_refl eq_refl));
    try (destruct (veqb F l u && veqb F u pi) eqn:E5; [try (rewrite (G5 eq_refl l u eq_refl eq_refl) in E5; discriminate)|]);
    try reflexivity.
  all: destruct (veqb F l u) eqn:A1; destruct (veqb F u pi) eqn:A2; try reflexivity;
    exfalso; specialize (G5 eq_refl l u eq_refl eq_refl); rewrite A1, A2 in G5; discriminate.
Qed.

End Create.
