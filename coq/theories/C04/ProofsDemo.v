(* PV.C04.ProofsDemo — the demo instance satisfies the float laws (so the theorems are not vacuous);
   decimal printing of naturals is inverted by parsing. *)
From Coq Require Import List NArith ZArith PArith Bool Arith Lia.
From PV Require Import C04.Cst C04.Lcs C04.Model C04.ProofsTheta C04.Demo.
Import ListNotations.

Local Open Scope N_scope.

Lemma digits_val_app (ds rest : text) (a : N) :
  forallb is_digit ds = true ->
  digits_val a (ds ++ rest) = digits_val (fold_left (fun acc c => acc * 10 + (c - 48)) ds a) rest.
Proof.
  revert a. induction ds as [|c tl IH]; intros a H; [reflexivity|].
  cbn in H. apply andb_true_iff in H. destruct H as [Hc Ht]. cbn [app digits_val fold_left]. rewrite Hc.
  apply IH. exact Ht.
Qed.

(* the digits produced for n, read back after any accumulator a, give a * 10^k + n *)
Lemma digit_char (m : N) : m < 10 -> is_digit (48 + m) = true.
Proof.
  intro H. unfold is_digit.
  replace (48 <=? 48 + m) with true by (symmetry; apply N.leb_le; lia).
  replace (48 + m <=? 57) with true by (symmetry; apply N.leb_le; lia). reflexivity.
Qed.

Lemma N_digits_fuel_S f n acc :
  N_digits_fuel (S f) n acc =
  if n <? 10 then (48 + n mod 10) :: acc else N_digits_fuel f (n / 10) ((48 + n mod 10) :: acc).
Proof. reflexivity. Qed.

Lemma digits_fuel (f : nat) : forall n acc, n < 10 ^ N.of_nat (S f) ->
  exists ds, N_digits_fuel (S f) n acc = ds ++ acc /\ forallb is_digit ds = true /\ ds <> [] /\
             forall a, fold_left (fun x c => x * 10 + (c - 48)) ds a = a * 10 ^ N.of_nat (length ds) + n.
Proof.
  induction f as [|f IH]; intros n acc Hn.
  - change (10 ^ N.of_nat 1) with 10 in Hn. rewrite N_digits_fuel_S.
    replace (n <? 10) with true by (symmetry; apply N.ltb_lt; exact Hn).
    exists [48 + n mod 10]. split; [reflexivity|]. rewrite N.mod_small by lia. split.
    + cbn [forallb]. rewrite digit_char by exact Hn. reflexivity.
    + split; [discriminate|]. intro a. cbn [fold_left length]. change (N.of_nat 1) with 1. rewrite N.pow_1_r. lia.
  - rewrite N_digits_fuel_S. destruct (n <? 10) eqn:E.
    + apply N.ltb_lt in E. exists [48 + n mod 10]. split; [reflexivity|]. rewrite N.mod_small by lia. split.
      * cbn [forallb]. rewrite digit_char by exact E. reflexivity.
      * split; [discriminate|]. intro a. cbn [fold_left length]. change (N.of_nat 1) with 1. rewrite N.pow_1_r. lia.
    + apply N.ltb_ge in E.
      assert (Hd : n / 10 < 10 ^ N.of_nat (S f)).
      { apply N.div_lt_upper_bound; [lia|].
        rewrite (Nat2N.inj_succ (S f)), N.pow_succ_r' in Hn. lia. }
      destruct (IH (n / 10) ((48 + n mod 10) :: acc) Hd) as [ds [H1 [H2 [H3 H4]]]].
      exists (ds ++ [48 + n mod 10]). split; [rewrite H1, <- app_assoc; reflexivity|].
      assert (Hm : n mod 10 < 10) by (apply N.mod_lt; lia).
      split.
      * rewrite forallb_app, H2. cbn [forallb]. rewrite digit_char by exact Hm. reflexivity.
      * split; [destruct ds; discriminate|]. intro a.
        rewrite fold_left_app, H4. cbn [fold_left]. rewrite app_length. cbn [length].
        rewrite Nat.add_1_r, Nat2N.inj_succ, N.pow_succ_r'.
        pose proof (N.div_mod n 10 ltac:(lia)) as Hdm.
        replace (48 + n mod 10 - 48) with (n mod 10) by (rewrite N.add_comm; symmetry; apply N.add_sub).
        rewrite Hdm at 3. ring.
Qed.

Lemma int_of_text_of_N (n : N) : int_of_text (text_of_N n) = Some n.
Proof.
  unfold text_of_N.
  assert (Hn : n < 10 ^ N.of_nat (S (N.to_nat (N.log2 n)))).
  { rewrite Nat2N.inj_succ, N2Nat.id.
    destruct (N.eq_dec n 0) as [->|Hz]; [cbn; lia|].
    pose proof (N.log2_spec n ltac:(lia)) as [_ H].
    eapply N.lt_le_trans; [exact H|]. apply N.pow_le_mono_l. lia. }
  destruct (digits_fuel _ n [] Hn) as [ds [H1 [H2 [H3 H4]]]].
  rewrite H1, app_nil_r. unfold int_of_text. destruct ds as [|c tl]; [contradiction|].
  rewrite <- (app_nil_r (c :: tl)), digits_val_app by exact H2. rewrite H4. cbn [digits_val]. f_equal; lia.
Qed.

Lemma text_of_N_digits (n : N) : forallb is_digit (text_of_N n) = true /\ text_of_N n <> [].
Proof.
  unfold text_of_N.
  assert (Hn : n < 10 ^ N.of_nat (S (N.to_nat (N.log2 n)))).
  { rewrite Nat2N.inj_succ, N2Nat.id.
    destruct (N.eq_dec n 0) as [->|Hz]; [cbn; lia|].
    pose proof (N.log2_spec n ltac:(lia)) as [_ H].
    eapply N.lt_le_trans; [exact H|]. apply N.pow_le_mono_l. lia. }
  destruct (digits_fuel _ n [] Hn) as [ds [H1 [H2 [H3 H4]]]].
  rewrite H1, app_nil_r. split; assumption.
Qed.

Lemma digit_not_dot c : is_digit c = true -> (c =? dot_c) = false /\ (c =? minus_c) = false /\ (c =? 43) = false.
Proof.
  unfold is_digit, dot_c, minus_c. intro H. apply andb_true_iff in H. destruct H as [H1 H2].
  apply N.leb_le in H1, H2. repeat split; apply N.eqb_neq; lia.
Qed.

Lemma split_dot_digits ds rest : forallb is_digit ds = true ->
  split_dot (ds ++ dot_c :: rest) = (ds, Some rest) /\ split_dot ds = (ds, None).
Proof.
  induction ds as [|c tl IH]; intro H.
  - split; reflexivity.
  - cbn [forallb] in H. apply andb_true_iff in H. destruct H as [Hc Ht].
    destruct (digit_not_dot c Hc) as [Hd _]. destruct (IH Ht) as [I1 I2].
    cbn [app split_dot]. rewrite Hd, I1, I2. split; reflexivity.
Qed.

Lemma parse_abs_str (a : N) : parse_abs (text_of_N (a / 10) ++ [dot_c; 48 + a mod 10]) = Some (Z.of_N a).
Proof.
  destruct (text_of_N_digits (a / 10)) as [Hd _].
  unfold parse_abs. destruct (split_dot_digits _ [48 + a mod 10] Hd) as [-> _].
  rewrite int_of_text_of_N.
  assert (Hm : a mod 10 < 10) by (apply N.mod_lt; lia).
  rewrite digit_char by exact Hm. f_equal.
  replace (48 + a mod 10 - 48) with (a mod 10) by (rewrite N.add_comm; symmetry; apply N.add_sub).
  pose proof (N.div_mod a 10 ltac:(lia)). lia.
Qed.
Lemma parse_abs_int (q : N) : parse_abs (text_of_N q) = Some (Z.of_N q * 10)%Z.
Proof.
  destruct (text_of_N_digits q) as [Hd _].
  unfold parse_abs. destruct (split_dot_digits _ [] Hd) as [_ ->]. rewrite int_of_text_of_N. reflexivity.
Qed.

Lemma d_tok_signed (z : Z) (body : text) :
  (exists c tl, body = c :: tl /\ is_digit c = true) ->
  parse_abs body = Some (Z.abs z) ->
  d_tok ((if (z <? 0)%Z then [minus_c] else []) ++ body) = Some z.
Proof.
  intros [c [tl [-> Hc]]] Hp. destruct (digit_not_dot c Hc) as [_ [Hm Hpl]].
  destruct (z <? 0)%Z eqn:Ez.
  - cbn [app d_tok]. rewrite N.eqb_refl, Hp. cbn. f_equal. apply Z.ltb_lt in Ez. lia.
  - cbn [app d_tok]. rewrite Hm, Hpl, Hp. f_equal. apply Z.ltb_ge in Ez. lia.
Qed.

Lemma first_digit (q : N) : exists c tl, text_of_N q = c :: tl /\ is_digit c = true.
Proof.
  destruct (text_of_N_digits q) as [Hd Hne]. destruct (text_of_N q) as [|c tl]; [contradiction|].
  exists c, tl. split; [reflexivity|]. cbn in Hd. apply andb_true_iff in Hd. tauto.
Qed.

Lemma demo_tok_str (z : Z) : d_tok (d_str z) = Some z.
Proof.
  unfold d_str. apply d_tok_signed.
  - unfold str_abs. destruct (first_digit (Z.to_N (Z.abs z) / 10)) as [c [tl [E Hc]]].
    rewrite E. exists c, (tl ++ [dot_c; 48 + Z.to_N (Z.abs z) mod 10]). split; [reflexivity | exact Hc].
  - unfold str_abs. rewrite parse_abs_str. f_equal. lia.
Qed.

Lemma demo_tok_fmt (z : Z) : d_tok (d_fmt z) = Some z.
Proof.
  unfold d_fmt. destruct (Z.eqb (z mod 10) 0) eqn:E; [|apply demo_tok_str].
  apply Z.eqb_eq in E. apply d_tok_signed.
  - apply first_digit.
  - rewrite parse_abs_int. f_equal.
    assert (Hz : (Z.abs z mod 10 = 0)%Z).
    { destruct (Z.abs_spec z) as [[_ ->]|[_ ->]]; [exact E|].
      apply Z.mod_divide in E; [|lia]. apply Z.mod_divide; [lia|]. apply Z.divide_opp_r. exact E. }
    rewrite N2Z.inj_div, Z2N.id by lia. change (Z.of_N 10) with 10%Z.
    pose proof (Z.div_mod (Z.abs z) 10 ltac:(lia)). lia.
Qed.

(* a text that spells an infinity does not denote a finite float, except +-1000000 *)
Lemma parse_abs_nondigit c tl : is_digit c = false -> (c =? dot_c) = false -> parse_abs (c :: tl) = None.
Proof.
  intros Hd Hdot. unfold parse_abs. cbn [split_dot]. rewrite Hdot.
  destruct (split_dot tl) as [a b]. unfold int_of_text. cbn [digits_val]. rewrite Hd. reflexivity.
Qed.

Lemma lower_is (c target : N) : lower_ascii c = target -> c = target \/ (c + 32 = target /\ 65 <= c <= 90).
Proof.
  unfold lower_ascii. destruct ((65 <=? c) && (c <=? 90)) eqn:E.
  - apply andb_true_iff in E. destruct E as [E1 E2]. apply N.leb_le in E1, E2. intro H. right. lia.
  - intro H. left. exact H.
Qed.

Lemma demo_neg_inf t w : neg_inf_spelling t = true -> d_tok t = Some w -> w = (-10000000)%Z.
Proof.
  unfold neg_inf_spelling. intro H. apply orb_true_iff in H. destruct H as [H|H].
  - unfold text_ieqb in H.
    destruct t as [|c0 [|c1 t']]; try discriminate H.
    { cbn [map text_eqb] in H. rewrite andb_false_r in H. discriminate H. }
    cbn [map text_eqb] in H. apply andb_true_iff in H. destruct H as [H0 H]. apply andb_true_iff in H. destruct H as [H1 _].
    apply N.eqb_eq in H0, H1.
    destruct (lower_is c0 45 H0) as [->|[E R]]; [|lia].
    assert (Hc1 : is_digit c1 = false /\ (c1 =? dot_c) = false).
    { destruct (lower_is c1 105 H1) as [->|[E R]]; [split; reflexivity|].
      assert (c1 = 73) by lia. subst c1. split; reflexivity. }
    destruct Hc1 as [Hd Hdot]. cbn [d_tok]. change (45 =? minus_c) with true. cbv iota.
    rewrite (parse_abs_nondigit c1 t' Hd Hdot). discriminate.
  - assert (E : t = [45; 49; 48; 48; 48; 48; 48; 48]).
    { revert H. generalize [45; 49; 48; 48; 48; 48; 48; 48]. induction t as [|c tl IH]; intros [|d l]; cbn; try discriminate; [reflexivity|].
      intro H'. apply andb_true_iff in H'. destruct H' as [H1 H2]. apply N.eqb_eq in H1. subst d. f_equal. apply IH. exact H2. }
    subst t. vm_compute. intro Hw. injection Hw as <-. reflexivity.
Qed.

Lemma demo_pos_inf t w : pos_inf_spelling t = true -> d_tok t = Some w -> w = 10000000%Z.
Proof.
  unfold pos_inf_spelling. intro H. apply orb_true_iff in H. destruct H as [H|H].
  - unfold text_ieqb in H.
    destruct t as [|c0 t']; try discriminate H.
    cbn [map text_eqb] in H. apply andb_true_iff in H. destruct H as [H0 _]. apply N.eqb_eq in H0.
    assert (Hc : is_digit c0 = false /\ (c0 =? dot_c) = false /\ (c0 =? minus_c) = false /\ (c0 =? 43) = false).
    { destruct (lower_is c0 105 H0) as [->|[E R]]; [repeat split; reflexivity|].
      assert (c0 = 73) by lia. subst c0. repeat split; reflexivity. }
    destruct Hc as [Hd [Hdot [Hm Hp]]]. cbn [d_tok]. rewrite Hm, Hp.
    rewrite (parse_abs_nondigit c0 t' Hd Hdot). discriminate.
  - assert (E : t = [49; 48; 48; 48; 48; 48; 48]).
    { revert H. generalize [49; 48; 48; 48; 48; 48; 48]. induction t as [|c tl IH]; intros [|d l]; cbn; try discriminate; [reflexivity|].
      intro H'. apply andb_true_iff in H'. destruct H' as [H1 H2]. apply N.eqb_eq in H1. subst d. f_equal. apply IH. exact H2. }
    subst t. vm_compute. intro Hw. injection Hw as <-. reflexivity.
Qed.

Theorem demo_ok : fops_ok demo.
Proof.
  constructor; cbn.
  - intros a b H. apply Z.eqb_eq. exact H.
  - apply Z.eqb_refl.
  - apply Z.ltb_irrefl.
  - intros a b H. apply Z.ltb_lt in H. apply Z.ltb_ge. lia.
  - exact demo_tok_str.
  - exact demo_tok_fmt.
  - reflexivity.
  - exact demo_neg_inf.
  - exact demo_pos_inf.
Qed.
