(* PV.C04.ProofsLcs — lemmas about the model of lcs.diff and update.reorder_diff. *)
From Coq Require Import List Bool Arith Lia Permutation.
From PV Require Import C04.Lcs.
Import ListNotations.
Local Open Scope nat_scope.

Section DiffProofs.
Variable A : Type.
Variable eqb : A -> A -> bool.
Hypothesis eqb_eq : forall x y, eqb x y = true -> x = y.

Lemma olds_app (d e : list (op * A)) : olds (d ++ e) = olds d ++ olds e.
Proof. unfold olds. apply flat_map_app. Qed.
Lemma news_app (d e : list (op * A)) : news (d ++ e) = news d ++ news e.
Proof. unfold news. apply flat_map_app. Qed.
Lemma kepts_app (d e : list (op * A)) : kepts (d ++ e) = kepts d ++ kepts e.
Proof. unfold kepts. apply flat_map_app. Qed.

Lemma olds_keep (l : list A) : olds (map (fun b => (Keep, b)) l) = l.
Proof. induction l as [|x tl IH]; cbn; [reflexivity | f_equal; exact IH]. Qed.
Lemma news_keep (l : list A) : news (map (fun b => (Keep, b)) l) = l.
Proof. induction l as [|x tl IH]; cbn; [reflexivity | f_equal; exact IH]. Qed.

Lemma bt_nil_cons c y yr : bt eqb c [] (y :: yr) = bt eqb c [] yr ++ [(Add, y)].
Proof. reflexivity. Qed.
Lemma bt_cons_nil c x xr : bt eqb c (x :: xr) [] = bt eqb c xr [] ++ [(Del, x)].
Proof. reflexivity. Qed.
Lemma bt_cons_cons c x xr y yr :
  bt eqb c (x :: xr) (y :: yr) =
  if eqb x y then bt eqb c xr yr ++ [(Keep, x)]
  else if cell c (length xr) (length (y :: yr)) <=? cell c (length (x :: xr)) (length yr)
       then bt eqb c (x :: xr) yr ++ [(Add, y)]
       else bt eqb c xr (y :: yr) ++ [(Del, x)].
Proof. reflexivity. Qed.

(* the backtracking yields a script from x to y whatever the table says *)
Lemma bt_script (c : list (list nat)) (xr yr : list A) :
  olds (bt eqb c xr yr) = rev xr /\ news (bt eqb c xr yr) = rev yr.
Proof.
  revert yr. induction xr as [|x xr' IHx]; intro yr.
  - induction yr as [|y yr' IHy].
    + split; reflexivity.
    + destruct IHy as [Ho Hn]. rewrite bt_nil_cons, olds_app, news_app, Ho, Hn. cbn.
      split; reflexivity.
  - induction yr as [|y yr' IHy].
    + destruct (IHx []) as [Ho Hn]. rewrite bt_cons_nil, olds_app, news_app, Ho, Hn. cbn.
      split; reflexivity.
    + rewrite bt_cons_cons. destruct (eqb x y) eqn:E.
      * apply eqb_eq in E. subst y. destruct (IHx yr') as [Ho Hn].
        rewrite olds_app, news_app, Ho, Hn. cbn. split; reflexivity.
      * destruct (_ <=? _).
        -- destruct IHy as [Ho Hn].
           rewrite olds_app, news_app, Ho, Hn. cbn. split; [rewrite app_nil_r; reflexivity | reflexivity].
        -- destruct (IHx (y :: yr')) as [Ho Hn].
           rewrite olds_app, news_app, Ho, Hn. cbn. split; [reflexivity | rewrite app_nil_r; reflexivity].
Qed.

Lemma common_prefix_split (old new : list A) :
  let pre := common_prefix eqb old new in
  old = pre ++ skipn (length pre) old /\ new = pre ++ skipn (length pre) new.
Proof.
  revert new. induction old as [|a old' IH]; intro new; cbn.
  - split; reflexivity.
  - destruct new as [|b new']; cbn; [split; reflexivity|].
    destruct (eqb a b) eqn:E; cbn.
    + apply eqb_eq in E. subst b. destruct (IH new') as [H1 H2]. cbn in H1, H2.
      split; f_equal; assumption.
    + split; reflexivity.
Qed.

Lemma common_prefix_length_le (old new : list A) :
  length (common_prefix eqb old new) <= length old /\ length (common_prefix eqb old new) <= length new.
Proof.
  revert new. induction old as [|a old' IH]; intro new; cbn; [lia|].
  destruct new as [|b new']; cbn; [lia|]. destruct (eqb a b); cbn; [|lia].
  destruct (IH new'). lia.
Qed.

(* stripping the common suffix: l = firstn (len - k) l ++ rev saved *)
Lemma suffix_split (l m : list A) :
  let saved := common_prefix eqb (rev l) (rev m) in
  l = firstn (length l - length saved) l ++ rev saved
  /\ m = firstn (length m - length saved) m ++ rev saved.
Proof.
  intro saved.
  destruct (common_prefix_split (rev l) (rev m)) as [H1 H2]. fold saved in H1, H2.
  destruct (common_prefix_length_le (rev l) (rev m)) as [L1 L2]. fold saved in L1, L2.
  rewrite rev_length in L1, L2.
  split.
  - rewrite <- (rev_involutive l) at 1. rewrite H1, rev_app_distr. f_equal.
    rewrite skipn_rev, rev_involutive. reflexivity.
  - rewrite <- (rev_involutive m) at 1. rewrite H2, rev_app_distr. f_equal.
    rewrite skipn_rev, rev_involutive. reflexivity.
Qed.

Theorem diff_script (old new : list A) :
  olds (diff eqb old new) = old /\ news (diff eqb old new) = new.
Proof.
  unfold diff.
  set (pre := common_prefix eqb old new).
  destruct (common_prefix_split old new) as [Ho Hn]. fold pre in Ho, Hn.
  set (rold := skipn (length pre) old) in *. set (rnew := skipn (length pre) new) in *.
  set (saved := common_prefix eqb (rev rold) (rev rnew)).
  destruct (suffix_split rold rnew) as [So Sn]. fold saved in So, Sn.
  set (rold' := firstn (length rold - length saved) rold) in *.
  set (rnew' := firstn (length rnew - length saved) rnew) in *.
  destruct (bt_script (matrix eqb rold' rnew') (rev rold') (rev rnew')) as [Bo Bn].
  rewrite !olds_app, !news_app, olds_keep, news_keep, olds_keep, news_keep, Bo, Bn, !rev_involutive.
  split.
  - rewrite <- So. symmetry. exact Ho.
  - rewrite <- Sn. symmetry. exact Hn.
Qed.

(* the kept items form a common subsequence of old and new *)
Inductive subseq : list A -> list A -> Prop :=
| sub_nil : forall l, subseq [] l
| sub_take : forall x s l, subseq s l -> subseq (x :: s) (x :: l)
| sub_skip : forall x s l, subseq s l -> subseq s (x :: l).

Lemma kepts_subseq_olds (d : list (op * A)) : subseq (kepts d) (olds d).
Proof.
  induction d as [|[o a] tl IH]; cbn; [constructor|].
  destruct o; cbn; [apply sub_take | | apply sub_skip]; exact IH.
Qed.
Lemma kepts_subseq_news (d : list (op * A)) : subseq (kepts d) (news d).
Proof.
  induction d as [|[o a] tl IH]; cbn; [constructor|].
  destruct o; cbn; [apply sub_take | apply sub_skip |]; exact IH.
Qed.

Theorem diff_kept_common (old new : list A) :
  subseq (kepts (diff eqb old new)) old /\ subseq (kepts (diff eqb old new)) new.
Proof.
  destruct (diff_script old new) as [Ho Hn]. split.
  - rewrite <- Ho at 2. apply kepts_subseq_olds.
  - rewrite <- Hn at 2. apply kepts_subseq_news.
Qed.

End DiffProofs.

(* ================================================================ reorder_diff *)
Section ReorderProofs.
Variable A K : Type.
Variable key : A -> K.
Variable name_eqb : A -> A -> bool.
Variable in_kept : A -> bool.
Hypothesis name_spec : forall a b, name_eqb a b = true <-> key a = key b.

(* the entries of l (which starts at absolute index i) whose index is not handled *)
Fixpoint live (i : nat) (H : list nat) (l : list (op * A)) : list (op * A) :=
  match l with
  | [] => []
  | x :: tl => (if memn' i H then [] else [x]) ++ live (S i) H tl
  end.

Lemma memn'_In x l : memn' x l = true <-> In x l.
Proof.
  induction l as [|y tl IH]; cbn; [split; [discriminate | contradiction]|].
  rewrite orb_true_iff, IH, Nat.eqb_eq. split; intros [E|E]; auto.
Qed.

Lemma scan_spec p j0 l j q :
  scan A name_eqb p j0 l = Some (inl (j, q)) ->
  j0 <= j /\ nth_error l (j - j0) = Some (Add, q) /\ name_eqb q p = true.
Proof.
  revert j0. induction l as [|[o a] tl IH]; intros j0; cbn [scan]; [discriminate|].
  destruct (op_eqb o Add && name_eqb a p) eqn:E.
  - intro H. injection H as <- <-. apply andb_true_iff in E. destruct E as [E1 E2].
    destruct o; try discriminate. rewrite Nat.sub_diag. cbn. repeat split; auto.
  - destruct (op_eqb o Keep); [discriminate|]. intro H. apply IH in H. destruct H as [H1 [H2 H3]].
    split; [lia|]. split; [|exact H3].
    replace (j - j0) with (S (j - S j0)) by lia. exact H2.
Qed.

Lemma live_add_small j H l : forall k, j < k -> live k (j :: H) l = live k H l.
Proof.
  induction l as [|z zs IHz]; intros k Hk; [reflexivity|]. cbn [live memn'].
  replace (Nat.eqb k j) with false by (symmetry; apply Nat.eqb_neq; lia). cbn [orb].
  f_equal. apply IHz. lia.
Qed.

Lemma live_extract l : forall i H j x,
  i <= j -> nth_error l (j - i) = Some x -> ~ In j H ->
  Permutation (live i H l) (x :: live i (j :: H) l).
Proof.
  induction l as [|y tl IH]; intros i H j x Hle Hn Hni.
  - destruct (j - i); discriminate.
  - cbn [live]. destruct (Nat.eq_dec i j) as [->|Hne].
    + rewrite Nat.sub_diag in Hn. cbn in Hn. injection Hn as ->.
      assert (E1 : memn' j H = false).
      { destruct (memn' j H) eqn:E; [apply memn'_In in E; contradiction | reflexivity]. }
      assert (E2 : memn' j (j :: H) = true) by (cbn; rewrite Nat.eqb_refl; reflexivity).
      rewrite E1, E2. cbn [app]. rewrite live_add_small by lia. apply Permutation_refl.
    + replace (j - i) with (S (j - S i)) in Hn by lia. cbn in Hn.
      assert (Hm : memn' i (j :: H) = memn' i H).
      { cbn. replace (Nat.eqb i j) with false by (symmetry; apply Nat.eqb_neq; exact Hne). reflexivity. }
      rewrite Hm. destruct (memn' i H).
      * cbn [app]. apply IH; [lia | exact Hn | exact Hni].
      * cbn [app]. eapply perm_trans; [apply perm_skip; apply (IH (S i) H j x); [lia | exact Hn | exact Hni]|].
        apply perm_swap.
Qed.

(* invariant: every handled index at or after i points at an Add entry whose key is in DK;
   the Del entries of l that are in kept_names have pairwise distinct keys outside DK *)
Definition inv (i : nat) (H : list nat) (DK : list K) (l : list (op * A)) : Prop :=
  (forall j, In j H -> i <= j -> exists q, nth_error l (j - i) = Some (Add, q) /\ In (key q) DK)
  /\ NoDup (DK ++ map (fun x => key (snd x)) (filter (fun x => op_eqb (fst x) Del && in_kept (snd x)) l)).

Lemma reorder_from_perm l : forall i H DK,
  inv i H DK l -> Permutation (reorder_from A name_eqb in_kept i H l) (live i H l).
Proof.
  induction l as [|[o p] tl IH]; intros i H DK [I1 I2]; [apply Permutation_refl|].
  cbn [reorder_from live].
  (* the invariant for the tail when nothing is matched *)
  assert (Itl : forall DK', (forall k, In k DK -> In k DK') ->
            NoDup (DK' ++ map (fun x => key (snd x)) (filter (fun x => op_eqb (fst x) Del && in_kept (snd x)) tl)) ->
            (forall j, In j H -> S i <= j -> exists q, nth_error tl (j - S i) = Some (Add, q) /\ In (key q) DK')).
  { intros DK' Hsub _ j Hj Hle. destruct (I1 j Hj ltac:(lia)) as [q [Hq Hk]].
    replace (j - i) with (S (j - S i)) in Hq by lia. cbn in Hq. exists q. split; [exact Hq | apply Hsub; exact Hk]. }
  destruct (op_eqb o Del && in_kept p) eqn:Edel.
  - (* a removal of a kept name *)
    apply andb_true_iff in Edel. destruct Edel as [Eo Ek]. destruct o; try discriminate.
    assert (Hi : memn' i H = false).
    { destruct (memn' i H) eqn:E; [|reflexivity]. apply memn'_In in E.
      destruct (I1 i E (le_n i)) as [q [Hq _]]. rewrite Nat.sub_diag in Hq. cbn in Hq. discriminate. }
    rewrite Hi. cbn [app].
    cbn [filter fst snd op_eqb andb] in I2. rewrite Ek in I2. cbn [map snd] in I2.
    assert (ND : NoDup ((key p :: DK) ++ map (fun x => key (snd x))
                          (filter (fun x => op_eqb (fst x) Del && in_kept (snd x)) tl))).
    { cbn [app]. apply NoDup_cons.
      - apply NoDup_remove_2 in I2. exact I2.
      - apply NoDup_remove_1 in I2. exact I2. }
    destruct (scan A name_eqb p (S i) tl) as [[[j q]|[]]|] eqn:Es.
    + destruct (scan_spec _ _ _ _ _ Es) as [Hle [Hn Hnm]].
      assert (Hkq : key q = key p) by (apply name_spec; exact Hnm).
      assert (Hnj : ~ In j H).
      { intro Hj. destruct (Itl DK (fun k h => h) ltac:(apply NoDup_remove_1 in I2; exact I2) j Hj Hle) as [q' [Hq' Hk']].
        rewrite Hn in Hq'. injection Hq' as <-. rewrite Hkq in Hk'.
        apply NoDup_remove_2 in I2. apply I2. apply in_or_app. left. exact Hk'. }
      eapply perm_trans.
      2:{ apply perm_skip. apply Permutation_sym. apply (live_extract tl (S i) H j (Add, q) Hle Hn Hnj). }
      eapply perm_trans; [apply perm_swap|]. apply perm_skip. apply perm_skip.
      apply (IH (S i) (j :: H) (key p :: DK)). split; [|exact ND].
      intros j' [<-|Hj'] Hle'.
      * exists q. split; [exact Hn | left; symmetry; exact Hkq].
      * destruct (Itl (key p :: DK) (fun k h => or_intror h) ND j' Hj' Hle') as [q' [A1 A2]]. exists q'. tauto.
    + apply perm_skip. apply (IH (S i) H (key p :: DK)). split; [|exact ND].
      apply Itl; [intros k h; right; exact h | exact ND].
    + apply perm_skip. apply (IH (S i) H (key p :: DK)). split; [|exact ND].
      apply Itl; [intros k h; right; exact h | exact ND].
  - (* anything else *)
    assert (ND : NoDup (DK ++ map (fun x => key (snd x))
                          (filter (fun x => op_eqb (fst x) Del && in_kept (snd x)) tl))).
    { cbn [filter fst snd] in I2. rewrite Edel in I2. exact I2. }
    assert (Inv' : inv (S i) H DK tl).
    { split; [|exact ND]. apply Itl; [auto | exact ND]. }
    destruct (memn' i H).
    + cbn [app]. apply (IH _ _ _ Inv').
    + cbn [app]. apply perm_skip. apply (IH _ _ _ Inv').
Qed.

Lemma live_nothing l : forall i, live i [] l = l.
Proof. induction l as [|x tl IH]; intro i; [reflexivity|]. cbn. f_equal. apply IH. Qed.

(* reorder_diff only permutes the script (the names of the removed kept parameters being distinct) *)
Theorem reorder_diff_permutation (d : list (op * A)) :
  NoDup (map (fun x => key (snd x)) (filter (fun x => op_eqb (fst x) Del && in_kept (snd x)) d)) ->
  Permutation (reorder_diff name_eqb in_kept d) d.
Proof.
  intro ND. unfold reorder_diff. rewrite <- (live_nothing d 0) at 2.
  apply (reorder_from_perm d 0 [] []). split; [intros j [] | exact ND].
Qed.

(* ... and keeps the relative order of the entries that are neither a moved addition nor a removal:
   the unchanged (0) entries in particular *)
Lemma live_kepts l : forall i H,
  (forall j, In j H -> i <= j -> exists q, nth_error l (j - i) = Some (Add, q)) ->
  kepts (live i H l) = kepts l.
Proof.
  induction l as [|[o p] tl IH]; intros i H I1; [reflexivity|]. cbn [live].
  rewrite kepts_app. rewrite IH.
  2:{ intros j Hj Hle. destruct (I1 j Hj ltac:(lia)) as [q Hq].
      replace (j - i) with (S (j - S i)) in Hq by lia. exists q. exact Hq. }
  destruct (memn' i H) eqn:E.
  2:{ unfold kepts. cbn [flat_map]. rewrite app_nil_r. reflexivity. }
  apply memn'_In in E. destruct (I1 i E (le_n i)) as [q Hq]. rewrite Nat.sub_diag in Hq. cbn in Hq.
  injection Hq as -> _. reflexivity.
Qed.

Lemma reorder_from_kepts l : forall i H,
  (forall j, In j H -> i <= j -> exists q, nth_error l (j - i) = Some (Add, q)) ->
  kepts (reorder_from A name_eqb in_kept i H l) = kepts l.
Proof.
  induction l as [|[o p] tl IH]; intros i H I1; [reflexivity|]. cbn [reorder_from].
  assert (Itl : forall j, In j H -> S i <= j -> exists q, nth_error tl (j - S i) = Some (Add, q)).
  { intros j Hj Hle. destruct (I1 j Hj ltac:(lia)) as [q Hq].
    replace (j - i) with (S (j - S i)) in Hq by lia. exists q. exact Hq. }
  destruct (op_eqb o Del && in_kept p) eqn:Edel.
  - apply andb_true_iff in Edel. destruct Edel as [Eo _]. destruct o; try discriminate.
    destruct (scan A name_eqb p (S i) tl) as [[[j q]|[]]|] eqn:Es.
    + destruct (scan_spec _ _ _ _ _ Es) as [Hle [Hn _]].
      change (kepts ((Add, q) :: (Del, p) :: reorder_from A name_eqb in_kept (S i) (j :: H) tl))
        with (kepts (reorder_from A name_eqb in_kept (S i) (j :: H) tl)).
      change (kepts ((Del, p) :: tl)) with (kepts tl). apply IH.
      intros j' [<-|Hj'] Hle'; [exists q; exact Hn | apply Itl; assumption].
    + change (kepts ((Del, p) :: reorder_from A name_eqb in_kept (S i) H tl))
        with (kepts (reorder_from A name_eqb in_kept (S i) H tl)).
      change (kepts ((Del, p) :: tl)) with (kepts tl). apply IH. exact Itl.
    + change (kepts ((Del, p) :: reorder_from A name_eqb in_kept (S i) H tl))
        with (kepts (reorder_from A name_eqb in_kept (S i) H tl)).
      change (kepts ((Del, p) :: tl)) with (kepts tl). apply IH. exact Itl.
  - destruct (memn' i H) eqn:E.
    + apply memn'_In in E. destruct (I1 i E (le_n i)) as [q Hq]. rewrite Nat.sub_diag in Hq. cbn in Hq.
      injection Hq as -> _. change (kepts ((Add, p) :: tl)) with (kepts tl). apply IH. exact Itl.
    + unfold kepts. cbn [flat_map]. f_equal. apply IH. exact Itl.
Qed.

(* the unchanged entries come out in the same order *)
Theorem reorder_diff_kepts (d : list (op * A)) : kepts (reorder_diff name_eqb in_kept d) = kepts d.
Proof. unfold reorder_diff. apply reorder_from_kepts. intros j []. Qed.

End ReorderProofs.

(* every entry of the reordered script is an entry of the script *)
Section ReorderIn.
Variable A : Type.
Variable name_eqb : A -> A -> bool.
Variable in_kept : A -> bool.

Lemma reorder_from_In (l : list (op * A)) : forall i H x,
  In x (reorder_from A name_eqb in_kept i H l) -> In x l.
Proof.
  induction l as [|[o p] tl IH]; intros i H x Hx; [exact Hx|]. cbn [reorder_from] in Hx.
  destruct (op_eqb o Del && in_kept p) eqn:Ed.
  - apply andb_true_iff in Ed. destruct Ed as [Ed _]. destruct o; try discriminate.
    destruct (scan A name_eqb p (S i) tl) as [[[j q]|[]]|] eqn:Es.
    + destruct Hx as [<-|[<-|Hx]].
      * right. destruct (scan_spec A name_eqb _ _ _ _ _ Es) as [_ [Hn _]]. exact (nth_error_In _ _ Hn).
      * left. reflexivity.
      * right. exact (IH _ _ _ Hx).
    + destruct Hx as [<-|Hx]; [left; reflexivity | right; exact (IH _ _ _ Hx)].
    + destruct Hx as [<-|Hx]; [left; reflexivity | right; exact (IH _ _ _ Hx)].
  - destruct (memn' i H).
    + right. exact (IH _ _ _ Hx).
    + destruct Hx as [<-|Hx]; [left; reflexivity | right; exact (IH _ _ _ Hx)].
Qed.

Lemma reorder_diff_In d x : In x (reorder_diff name_eqb in_kept d) -> In x d.
Proof. apply reorder_from_In. Qed.

Lemma in_script_cases (d : list (op * A)) o p : In (o, p) d -> In p (olds d) \/ In p (news d).
Proof.
  induction d as [|[o' q] tl IH]; [contradiction|]. intros [E|H].
  - injection E as -> ->. destruct o; cbn; auto.
  - destruct (IH H) as [H1|H1]; [left|right]; destruct o'; cbn; auto.
Qed.
Lemma keep_in_olds (d : list (op * A)) p : In (Keep, p) d -> In p (olds d).
Proof.
  induction d as [|[o' q] tl IH]; [contradiction|]. intros [E|H].
  - injection E as -> ->. left. reflexivity.
  - destruct o'; cbn; auto.
Qed.
End ReorderIn.
