(* PV.C04.Refuted — counter-models: for every guard conjunct that exists because the CODE fails, a
   concrete input (real lark trees of the quoted record text, exported by the harness printer) on which
   the guard is false and the property fails in the faithful model.  Values are in the demo float
   instance (Z standing for tenths: 10 = 1.0).  Each witness is replayed on the real code by the check
   (known_findings.d/C04.json). *)
From Coq Require Import List NArith ZArith PArith Bool.
From PV Require Import C04.Cst C04.Lcs C04.Model C04.ModelOmega C04.ModelCreate C04.Demo.
Import ListNotations.
Local Open Scope Z_scope.

(* '$THETA (0,1,2)x2' *)
Definition w_xn : node :=
  (Tree 1%positive [(Tok 14%positive [32]%N); (Tree 2%positive [(Tok 7%positive [40]%N); (Tree 4%positive [(Tok 10%positive [48]%N)]); (Tok 9%positive [44]%N); (Tree 3%positive [(Tok 10%positive [49]%N)]); (Tok 9%positive [44]%N); (Tree 5%positive [(Tok 10%positive [50]%N)]); (Tok 8%positive [41]%N); (Tree 6%positive [(Tok 17%positive [120]%N); (Tok 18%positive [50]%N)])]); (Tok 16%positive [10]%N)]).
(* '$THETA (0,1,2)FIX' *)
Definition w_glued : node :=
  (Tree 1%positive [(Tok 14%positive [32]%N); (Tree 2%positive [(Tok 7%positive [40]%N); (Tree 4%positive [(Tok 10%positive [48]%N)]); (Tok 9%positive [44]%N); (Tree 3%positive [(Tok 10%positive [49]%N)]); (Tok 9%positive [44]%N); (Tree 5%positive [(Tok 10%positive [50]%N)]); (Tok 8%positive [41]%N); (Tok 13%positive [70; 73; 88]%N)]); (Tok 16%positive [10]%N)]).
(* '$THETA (0,1,)' *)
Definition w_trail : node :=
  (Tree 1%positive [(Tok 14%positive [32]%N); (Tree 2%positive [(Tok 7%positive [40]%N); (Tree 4%positive [(Tok 10%positive [48]%N)]); (Tok 9%positive [44]%N); (Tree 3%positive [(Tok 10%positive [49]%N)]); (Tok 9%positive [44]%N); (Tok 8%positive [41]%N)]); (Tok 16%positive [10]%N)]).
(* '$THETA (1,1 FIX,1)' *)
Definition w_infix : node :=
  (Tree 1%positive [(Tok 14%positive [32]%N); (Tree 2%positive [(Tok 7%positive [40]%N); (Tree 4%positive [(Tok 10%positive [49]%N)]); (Tok 9%positive [44]%N); (Tree 3%positive [(Tok 10%positive [49]%N)]); (Tok 14%positive [32]%N); (Tok 13%positive [70; 73; 88]%N); (Tok 9%positive [44]%N); (Tree 5%positive [(Tok 10%positive [49]%N)]); (Tok 8%positive [41]%N)]); (Tok 16%positive [10]%N)]).
(* '$THETA (0,1,2.0) 5' *)
Definition w_respell : node :=
  (Tree 1%positive [(Tok 14%positive [32]%N); (Tree 2%positive [(Tok 7%positive [40]%N); (Tree 4%positive [(Tok 10%positive [48]%N)]); (Tok 9%positive [44]%N); (Tree 3%positive [(Tok 10%positive [49]%N)]); (Tok 9%positive [44]%N); (Tree 5%positive [(Tok 10%positive [50; 46; 48]%N)]); (Tok 8%positive [41]%N)]); (Tok 14%positive [32]%N); (Tree 2%positive [(Tree 3%positive [(Tok 10%positive [53]%N)])]); (Tok 16%positive [10]%N)]).
(* '$THETA 1 2 ; TVV' *)
Definition w_rmcomment : node :=
  (Tree 1%positive [(Tok 14%positive [32]%N); (Tree 2%positive [(Tree 3%positive [(Tok 10%positive [49]%N)])]); (Tok 14%positive [32]%N); (Tree 2%positive [(Tree 3%positive [(Tok 10%positive [50]%N)])]); (Tok 14%positive [32]%N); (Tok 15%positive [59; 32; 84; 86; 86]%N); (Tok 16%positive [10]%N)]).
(* '$THETA (0,1,2)x2 3' *)
Definition w_rmxn : node :=
  (Tree 1%positive [(Tok 14%positive [32]%N); (Tree 2%positive [(Tok 7%positive [40]%N); (Tree 4%positive [(Tok 10%positive [48]%N)]); (Tok 9%positive [44]%N); (Tree 3%positive [(Tok 10%positive [49]%N)]); (Tok 9%positive [44]%N); (Tree 5%positive [(Tok 10%positive [50]%N)]); (Tok 8%positive [41]%N); (Tree 6%positive [(Tok 17%positive [120]%N); (Tok 18%positive [50]%N)])]); (Tok 14%positive [32]%N); (Tree 2%positive [(Tree 3%positive [(Tok 10%positive [51]%N)])]); (Tok 16%positive [10]%N)]).
(* '$THETA 1 2 3' *)
Definition w_names : node :=
  (Tree 1%positive [(Tok 14%positive [32]%N); (Tree 2%positive [(Tree 3%positive [(Tok 10%positive [49]%N)])]); (Tok 14%positive [32]%N); (Tree 2%positive [(Tree 3%positive [(Tok 10%positive [50]%N)])]); (Tok 14%positive [32]%N); (Tree 2%positive [(Tree 3%positive [(Tok 10%positive [51]%N)])]); (Tok 16%positive [10]%N)]).
(* '$THETA (FIX 1,1)' *)
Definition w_leadfix : node :=
  (Tree 1%positive [(Tok 14%positive [32]%N); (Tree 2%positive [(Tok 7%positive [40]%N); (Tok 13%positive [70; 73; 88]%N); (Tok 14%positive [32]%N); (Tree 4%positive [(Tok 10%positive [49]%N)]); (Tok 9%positive [44]%N); (Tree 3%positive [(Tok 10%positive [49]%N)]); (Tok 8%positive [41]%N)]); (Tok 16%positive [10]%N)]).
(* '$THETA (0.5,1.5,2) FIX ; TVCL\n 3 (1)x2' *)
Definition w_plain3 : node :=
  (Tree 1%positive [(Tok 14%positive [32]%N); (Tree 2%positive [(Tok 7%positive [40]%N); (Tree 4%positive [(Tok 10%positive [48; 46; 53]%N)]); (Tok 9%positive [44]%N); (Tree 3%positive [(Tok 10%positive [49; 46; 53]%N)]); (Tok 9%positive [44]%N); (Tree 5%positive [(Tok 10%positive [50]%N)]); (Tok 8%positive [41]%N); (Tok 14%positive [32]%N); (Tok 13%positive [70; 73; 88]%N)]); (Tok 14%positive [32]%N); (Tok 15%positive [59; 32; 84; 86; 67; 76]%N); (Tok 16%positive [10]%N); (Tok 14%positive [32]%N); (Tree 2%positive [(Tree 3%positive [(Tok 10%positive [51]%N)])]); (Tok 14%positive [32]%N); (Tree 2%positive [(Tok 7%positive [40]%N); (Tree 3%positive [(Tok 10%positive [49]%N)]); (Tok 8%positive [41]%N); (Tree 6%positive [(Tok 17%positive [120]%N); (Tok 18%positive [50]%N)])]); (Tok 16%positive [10]%N)]).

Definition P (i : Z) (l u : ext Z) (f : bool) : param Z := mkP i l u f.
Definition readback_ok (root : node) (ps : list (param Z)) : Prop :=
  exists root', theta_update Z demo root ps = Ok root' /\ sem Z demo (relex root') = Ok ps.

(* $THETA (0,1,2)x2 and set_initial_estimates({'THETA_2': 1.5}): the record is unchanged, the edit is lost *)
Theorem theta_refuted_xn :
  exists root ps, guard_record Z demo root ps = false /\ guard_fail_children Z demo (children root) ps = [2%nat]
                  /\ ~ readback_ok root ps.
Proof.
  exists w_xn, [P 10 (Fin 0) (Fin 20) false; P 15 (Fin 0) (Fin 20) false].
  split; [vm_compute; reflexivity|]. split; [vm_compute; reflexivity|].
  intros [root' [H1 H2]]. vm_compute in H1. injection H1 as <-. vm_compute in H2. discriminate H2.
Qed.

(* $THETA (0,1,2)x2, fix both: FIX lands after the repeat count, which the grammar refuses *)
Theorem theta_refuted_xn_fix :
  exists ch p n ch', g_xn_nofix Z ch n p = false /\ plain_theta Z demo ch = true /\ multiple ch = Ok n
                     /\ update_theta Z demo ch p = Ok (ch', n) /\ theta_gram (skeleton ch') = false.
Proof.
  exists (children (nth 1 (children w_xn) w_xn)), (P 10 (Fin 0) (Fin 20) true), 2%N.
  eexists. repeat split; try (vm_compute; reflexivity).
Qed.

(* FIXED (C01-THETA-XN-REFUSED, commit bd27e55, VALUE may no longer start with ")"): $THETA (0,1,2)FIX with
   upper := inf becomes (0,1)FIX, which the grammar used to lex as "(0,1" + VALUE ")FIX" and refuse.  The former
   witness of theta_refuted_glued is now a regression example of the repaired behaviour: the guard holds,
   the regenerated text is accepted and reads back. *)
Example theta_glued_rpar_fixed :
  exists root', guard_record Z demo w_glued [P 10 (Fin 0) PInf true] = true
                /\ theta_update Z demo w_glued [P 10 (Fin 0) PInf true] = Ok root'
                /\ str root' = T [32; 40; 48; 44; 49; 41; 70; 73; 88; 10]%nat          (* " (0,1)FIX\n" *)
                /\ reparse_ok root' = true
                /\ sem Z demo (relex root') = Ok [P 10 (Fin 0) PInf true].
Proof. eexists. repeat split; vm_compute; reflexivity. Qed.
(* the same for a repeat group: (0,1,2)x2 with the upper bound removed from both -> (0,1)x2 *)
Example theta_glued_xn_fixed :
  exists root', guard_record Z demo w_xn [P 10 (Fin 0) PInf false; P 10 (Fin 0) PInf false] = true
                /\ theta_update Z demo w_xn [P 10 (Fin 0) PInf false; P 10 (Fin 0) PInf false] = Ok root'
                /\ reparse_ok root' = true
                /\ sem Z demo (relex root') = Ok [P 10 (Fin 0) PInf false; P 10 (Fin 0) PInf false].
Proof. eexists. repeat split; vm_compute; reflexivity. Qed.

(* $THETA (0,1,) and upper := 2: (0,1,2,) is no sentence of the theta grammar *)
Theorem theta_refuted_layout_trailing_separator :
  exists root ps root', guard_fail_children Z demo (children root) ps = [1%nat]
                        /\ theta_update Z demo root ps = Ok root' /\ reparse_ok root' = false.
Proof.
  exists w_trail, [P 10 (Fin 0) (Fin 20) false]. eexists. repeat split; vm_compute; reflexivity.
Qed.

(* $THETA (1,1 FIX,1) and upper := inf: remove_upper_bound drops the FIX with the bound *)
Theorem theta_refuted_layout_inner_fix :
  exists root ps, guard_fail_children Z demo (children root) ps = [1%nat] /\ ~ readback_ok root ps.
Proof.
  exists w_infix, [P 10 (Fin 10) PInf true]. split; [vm_compute; reflexivity|].
  intros [root' [H1 H2]]. vm_compute in H1. injection H1 as <-. vm_compute in H2. discriminate H2.
Qed.

(* $THETA (FIX 1,1) and lower := -inf: the parentheses go, "FIX 1" stays *)
Theorem theta_refuted_layout_leading_fix :
  exists root ps root', guard_fail_children Z demo (children root) ps = [1%nat]
                        /\ theta_update Z demo root ps = Ok root' /\ reparse_ok root' = false.
Proof.
  exists w_leadfix, [P 10 MInf PInf true]. eexists. repeat split; vm_compute; reflexivity.
Qed.

(* $THETA (0,1,2.0) 5 and only THETA_2 := 6: the untouched bound 2.0 is re-spelled 2 *)
Theorem theta_refuted_respell :
  exists root ps root',
    sem Z demo root = Ok [P 10 (Fin 0) (Fin 20) false; P 50 MInf PInf false]
    /\ ps = [P 10 (Fin 0) (Fin 20) false; P 60 MInf PInf false]
    /\ canon_children Z demo (children root) ps = false
    /\ theta_update Z demo root ps = Ok root'
    /\ str root' = T [32; 40; 48; 44; 49; 44; 50; 41; 32; 54; 46; 48; 10]%nat.   (* " (0,1,2) 6.0\n" *)
Proof.
  exists w_respell, [P 10 (Fin 0) (Fin 20) false; P 60 MInf PInf false]. eexists.
  repeat split; vm_compute; reflexivity.
Qed.

(* $THETA 1 2 ; TVV, remove the second theta: its name comment stays and names the first *)
Theorem theta_refuted_remove_comment :
  removed_unnamed (children w_rmcomment) 0 [1%nat] = false
  /\ comment_names w_rmcomment = Ok [None; Some (T [84; 86; 86]%nat)]
  /\ comment_names (theta_remove w_rmcomment [1%nat]) = Ok [Some (T [84; 86; 86]%nat)].
Proof. repeat split; vm_compute; reflexivity. Qed.

(* $THETA (0,1,2)x2 3, remove THETA_3 (parameter index 2): no node has index 2, update runs out of parameters *)
Theorem theta_refuted_remove_xn :
  all_single w_rmxn = false
  /\ theta_update Z demo (theta_remove w_rmxn [2%nat]) [P 10 (Fin 0) (Fin 20) false; P 10 (Fin 0) (Fin 20) false]
     = Err EInternal.
Proof. split; vm_compute; reflexivity. Qed.

(* $THETA 1 2 3, remove THETA_2: in memory THETA_1, THETA_3 - re-read THETA_1, THETA_2 *)
Definition n1 : text := T [84; 72; 69; 84; 65; 95; 49]%nat.
Definition n2 : text := T [84; 72; 69; 84; 65; 95; 50]%nat.
Definition n3 : text := T [84; 72; 69; 84; 65; 95; 51]%nat.
Theorem theta_refuted_names_shift :
  exists recs old new acts roots,
    ut_plan Z demo recs old new = Ok acts /\ g_names Z [] acts new = false
    /\ update_thetas Z demo recs old new = Ok roots
    /\ reread Z demo [] roots = Ok [(n1, P 10 MInf PInf false); (n2, P 30 MInf PInf false)]
    /\ map fst new = [n1; n3].
Proof.
  exists [w_names], [(n1, P 10 MInf PInf false); (n2, P 20 MInf PInf false); (n3, P 30 MInf PInf false)],
    [(n1, P 10 MInf PInf false); (n3, P 30 MInf PInf false)].
  eexists. eexists. repeat split; vm_compute; reflexivity.
Qed.

(* ================================================================ $OMEGA / $SIGMA *)
(* '$OMEGA (0.1 FIX)x3' *)
Definition w_oxn : node :=
  (Tree 1%positive [(Tok 14%positive [32]%N); (Tree 23%positive [(Tok 7%positive [40]%N); (Tree 3%positive [(Tok 10%positive [48; 46; 49]%N)]); (Tok 14%positive [32]%N); (Tok 13%positive [70; 73; 88]%N); (Tok 8%positive [41]%N); (Tree 6%positive [(Tok 17%positive [120]%N); (Tok 18%positive [51]%N)])]); (Tok 16%positive [10]%N)]).
(* '$OMEGA 1.0 SD' *)
Definition w_osd : node :=
  (Tree 1%positive [(Tok 14%positive [32]%N); (Tree 23%positive [(Tree 3%positive [(Tok 10%positive [49; 46; 48]%N)]); (Tok 14%positive [32]%N); (Tok 30%positive [83; 68]%N)]); (Tok 16%positive [10]%N)]).
(* '$OMEGA 0.1 ; IIV_CL\n (0.2 FIX)x2 (SD 0.5)' *)
Definition w_oplain : node :=
  (Tree 1%positive [(Tok 14%positive [32]%N); (Tree 23%positive [(Tree 3%positive [(Tok 10%positive [48; 46; 49]%N)])]); (Tok 14%positive [32]%N); (Tok 15%positive [59; 32; 73; 73; 86; 95; 67; 76]%N); (Tok 16%positive [10]%N); (Tok 14%positive [32]%N); (Tree 23%positive [(Tok 7%positive [40]%N); (Tree 3%positive [(Tok 10%positive [48; 46; 50]%N)]); (Tok 14%positive [32]%N); (Tok 13%positive [70; 73; 88]%N); (Tok 8%positive [41]%N); (Tree 6%positive [(Tok 17%positive [120]%N); (Tok 18%positive [50]%N)])]); (Tok 14%positive [32]%N); (Tree 23%positive [(Tok 7%positive [40]%N); (Tok 30%positive [83; 68]%N); (Tok 14%positive [32]%N); (Tree 3%positive [(Tok 10%positive [48; 46; 53]%N)]); (Tok 8%positive [41]%N)]); (Tok 16%positive [10]%N)]).

Definition O (i : Z) (f : bool) : oparam Z := mkO i f.

(* regression for the repaired finding C04-OMEGA-XN-SPLIT (commit b54b188): $OMEGA (0.1 FIX)x3, unfix
   the middle one.  Before the fix the item was split with FIX inverted - (0.1) (0.1 FIX) (0.1); now the
   guard holds and the text is (0.1 FIX) (0.1) (0.1 FIX), meaning exactly the requested parameters. *)
Example omega_xn_fix_fixed :
  exists root',
    oguard_record Z demo w_oxn [O 1 true; O 1 false; O 1 true] = true
    /\ odiag_update Z demo w_oxn [O 1 true; O 1 false; O 1 true] = Ok root'
    /\ str root' = T [32; 40; 48; 46; 49; 32; 70; 73; 88; 41; 32; 40; 48; 46; 49; 41; 32; 40; 48; 46; 49; 32; 70; 73; 88; 41; 10]%nat
    /\ osem Z demo root' = Ok [O 1 true; O 1 false; O 1 true].
Proof. eexists. repeat split; vm_compute; reflexivity. Qed.

(* the part of the (v)xn split that is still open (finding C04-OMEGA-XN-SPLIT-NAMES):
   '$OMEGA (0.3)x2 ; IOV1', first variance := 0.4.  The values are written correctly (the guard holds),
   but the name comment stays behind the LAST copy: '(0.4) (0.3) ; IOV1' - the edited parameter IOV1
   re-reads without a name and the comment now names the second one. *)
Definition w_oname : node :=
  (Tree 1%positive [(Tok 14%positive [32]%N); (Tree 23%positive [(Tok 7%positive [40]%N); (Tree 3%positive [(Tok 10%positive [48; 46; 51]%N)]); (Tok 8%positive [41]%N); (Tree 6%positive [(Tok 17%positive [120]%N); (Tok 18%positive [50]%N)])]); (Tok 14%positive [32]%N); (Tok 15%positive [59; 32; 73; 79; 86; 49]%N); (Tok 16%positive [10]%N)]).
Theorem omega_refuted_xn_name_moves :
  exists root ps root' nm,
    oguard_record Z demo root ps = true
    /\ odiag_update Z demo root ps = Ok root' /\ osem Z demo root' = Ok ps
    /\ str root' = T [32; 40; 48; 46; 52; 41; 32; 40; 48; 46; 51; 41; 32; 59; 32; 73; 79; 86; 49; 10]%nat
    /\ map fst (match parse_diag Z demo root with Ok l => l | Err _ => [] end) = [Some nm; Some nm]
    /\ map fst (match parse_diag Z demo root' with Ok l => l | Err _ => [] end) = [None; Some nm].
Proof.
  exists w_oname, [O 4 false; O 3 false]. eexists. eexists. repeat split; vm_compute; reflexivity.
Qed.

(* regression for the repaired finding C04-OMEGA-DIAG-ITEM-REMOVED (commit 5bd60d8): removing the last
   item of '$OMEGA 0.1 0.2 0.3' keeps the final NEWLINE (' 0.1 0.2 \n'); before the fix the record lost
   it and the next record was glued to the line. *)
Definition w_o3 : node :=
  (Tree 1%positive [(Tok 14%positive [32]%N); (Tree 23%positive [(Tree 3%positive [(Tok 10%positive [48; 46; 49]%N)])]); (Tok 14%positive [32]%N); (Tree 23%positive [(Tree 3%positive [(Tok 10%positive [48; 46; 50]%N)])]); (Tok 14%positive [32]%N); (Tree 23%positive [(Tree 3%positive [(Tok 10%positive [48; 46; 51]%N)])]); (Tok 16%positive [10]%N)]).
Example omega_remove_last_item_fixed :
  str (odiag_remove w_o3 [2%nat]) = T [32; 48; 46; 49; 32; 48; 46; 50; 32; 10]%nat
  /\ osem Z demo (odiag_remove w_o3 [2%nat]) = Ok [O 1 false; O 2 false]
  /\ str (odiag_remove w_o3 [1%nat]) = T [32; 48; 46; 49; 32; 48; 46; 51; 10]%nat.
Proof. repeat split; vm_compute; reflexivity. Qed.

(* $OMEGA 1.0 SD, variance := 2.0 with finite-precision arithmetic: 1.4 SD is written, 1.9 is read back
   (on the real code: $OMEGA 0.3 SD, variance := 0.2 -> 0.4472135954999579 SD -> 0.19999999999999998) *)
Theorem omega_refuted_sd_inexact :
  exists root ps root',
    oguard_fail_children Z demo_sqrt (children root) ps = [3%nat]
    /\ odiag_update Z demo_sqrt root ps = Ok root' /\ osem Z demo_sqrt root' = Ok [O 19 false] /\ ps = [O 20 false].
Proof.
  exists w_osd, [O 20 false]. eexists. repeat split; vm_compute; reflexivity.
Qed.

(* a BLOCK record used by Examples.v *)
(* '$OMEGA BLOCK(3)\n 0.5 (0.1)x2 0.6\n 0.1 0.7\n' *)
Definition w_oblock : node :=
  (Tree 1%positive [(Tok 14%positive [32]%N); (Tree 25%positive [(Tok 35%positive [66; 76; 79; 67; 75]%N); (Tok 7%positive [40]%N); (Tree 29%positive [(Tok 18%positive [51]%N)]); (Tok 8%positive [41]%N)]); (Tok 16%positive [10]%N); (Tok 14%positive [32]%N); (Tree 24%positive [(Tree 3%positive [(Tok 10%positive [48; 46; 53]%N)])]); (Tok 14%positive [32]%N); (Tree 24%positive [(Tok 7%positive [40]%N); (Tree 3%positive [(Tok 10%positive [48; 46; 49]%N)]); (Tok 8%positive [41]%N); (Tree 6%positive [(Tok 17%positive [120]%N); (Tok 18%positive [50]%N)])]); (Tok 14%positive [32]%N); (Tree 24%positive [(Tree 3%positive [(Tok 10%positive [48; 46; 54]%N)])]); (Tok 16%positive [10]%N); (Tok 14%positive [32]%N); (Tree 24%positive [(Tree 3%positive [(Tok 10%positive [48; 46; 49]%N)])]); (Tok 14%positive [32]%N); (Tree 24%positive [(Tree 3%positive [(Tok 10%positive [48; 46; 55]%N)])]); (Tok 16%positive [10]%N)]).

(* '$THETA 4 ; KA' *)
Definition w_single : node :=
  (Tree 1%positive [(Tok 14%positive [32]%N); (Tree 2%positive [(Tree 3%positive [(Tok 10%positive [52]%N)])]); (Tok 14%positive [32]%N); (Tok 15%positive [59; 32; 75; 65]%N); (Tok 16%positive [10]%N)]).

(* ================================================================ update_thetas, order of the records *)
(* '$THETA 4 ; KA' with new parameters [X = 5 (new); KA = 2 (changed)]: X is inserted IN FRONT of a changed
   theta.  The loop appends a created record at once but the record under construction only when it is
   complete, so the code lists KA first: ' 2.0 ; KA' / '  5.0 ; X' re-reads as [KA; X] although the model has
   [X; KA] - every action is inside its guard, only g_order fails (finding C04-THETA-INSERT-ORDER). *)
Definition w_ka : node :=
  (Tree 1%positive [(Tok 14%positive [32]%N); (Tree 2%positive [(Tree 3%positive [(Tok 10%positive [52]%N)])]); (Tok 14%positive [32]%N); (Tok 15%positive [59; 32; 75; 65]%N); (Tok 16%positive [10]%N)]).
Theorem theta_refuted_insert_order :
  exists recs old new acts roots nKA nX,
    new = [(nX, P 50 MInf PInf false); (nKA, P 20 MInf PInf false)]
    /\ ut_plan Z demo recs old new = Ok acts
    /\ forallb (g_action Z demo) acts = true /\ g_order Z demo acts new = false
    /\ guard_plan Z demo recs old new = false
    /\ update_thetas Z demo recs old new = Ok roots
    /\ reread Z demo [] roots = Ok [(nKA, P 20 MInf PInf false); (nX, P 50 MInf PInf false)].
Proof.
  exists [w_ka], [(T [75; 65]%nat, P 40 MInf PInf false)]. eexists. eexists. eexists. exists (T [75; 65]%nat), (T [88]%nat).
  repeat split; vm_compute; reflexivity.
Qed.

(* ================================================================ create_omega_single, IOV *)
(* a later occasion of an IOV eta whose variance parameter is fixed: the code composes
   '$OMEGA  BLOCK(1) SAME FIX', which the omega grammar refuses - the model returns the parse error, for every
   value, name and eta number (finding C04-OMEGA-IOV-SAME-FIX); unfixed it is the SAME record *)
Theorem omega_refuted_iov_same_fix :
  forall (sigma : bool) (v : Z) (name : text) (eta : nat),
    create_single_root Z demo sigma SIovSame v true name eta = Err EParse
    /\ exists root, create_single_root Z demo sigma SIovSame v false name eta = Ok root
                    /\ str root = T [32; 32; 66; 76; 79; 67; 75; 40; 49; 41; 32; 83; 65; 77; 69; 10]%nat.
Proof. intros. split; [reflexivity|]. eexists. split; [reflexivity|]. vm_compute. reflexivity. Qed.
