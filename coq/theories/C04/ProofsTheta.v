(* PV.C04.ProofsTheta — lemmas about the model of ThetaRecord: white space never matters for what a theta
   means or for what update does to it (Part I), the effect of update on a plain layout (Part II), what a
   plain layout means (Part III), and the read-back of an update (Part IV). *)
From Coq Require Import List NArith ZArith PArith Bool Arith Lia.
From PV Require Import C04.Cst C04.Lcs C04.Model.
Import ListNotations.
Local Open Scope nat_scope.

(* the laws of Python floats the theorems rely on (each is re-checked on the tabulated values of every case) *)
Record fops_ok {V : Type} (F : fops V) : Prop := {
  veqb_true : forall a b, veqb F a b = true -> a = b;
  veqb_refl : forall a, veqb F a a = true;
  vltb_irrefl : forall a, vltb F a a = false;
  vltb_asym : forall a b, vltb F a b = true -> vltb F b a = false;
  tok_str : forall v, tokval F (vstr F v) = Some v;          (* float(str(x)) == x *)
  tok_fmt : forall v, tokval F (fmtnum F v) = Some v;        (* float(format_number(x)) == x *)
  tok_zero : tokval F [48%N] = Some (vzero F);
  neg_inf_val : forall t w, neg_inf_spelling t = true -> tokval F t = Some w -> w = vmin F;
  pos_inf_val : forall t w, pos_inf_spelling t = true -> tokval F t = Some w -> w = vmax F
}.

(* ================================================================ Part I: white space is invisible *)
Definition nontriv (r : rule) : bool :=
  negb (Pos.eqb r_WS r || Pos.eqb r_COMMENT r || Pos.eqb r_NEWLINE r).

Lemma trivia_has (c : node) (r : rule) : is_trivia c = true -> nontriv r = true -> has_rule r c = false.
Proof.
  unfold is_trivia, has_rule, nontriv. intros H N.
  apply negb_true_iff in N. apply orb_false_iff in N. destruct N as [N N3].
  apply orb_false_iff in N. destruct N as [N1 N2].
  apply orb_true_iff in H. destruct H as [H|H]; [apply orb_true_iff in H; destruct H as [H|H]|];
    apply Pos.eqb_eq in H; rewrite H; assumption.
Qed.

Lemma nt_cons_triv c l : is_trivia c = true -> nt (c :: l) = nt l.
Proof. intro H. unfold nt. cbn. rewrite H. reflexivity. Qed.
Lemma nt_cons_keep c l : is_trivia c = false -> nt (c :: l) = c :: nt l.
Proof. intro H. unfold nt. cbn. rewrite H. reflexivity. Qed.
Lemma nt_app a b : nt (a ++ b) = nt a ++ nt b.
Proof. unfold nt. apply filter_app. Qed.
Lemma nt_rev l : nt (rev l) = rev (nt l).
Proof.
  induction l as [|c tl IH]; [reflexivity|]. cbn [rev]. rewrite nt_app, IH.
  destruct (is_trivia c) eqn:E.
  - rewrite (nt_cons_triv c [] E), (nt_cons_triv c tl E). apply app_nil_r.
  - rewrite (nt_cons_keep c [] E), (nt_cons_keep c tl E). reflexivity.
Qed.
Lemma nt_idem l : nt (nt l) = nt l.
Proof.
  unfold nt. induction l as [|c tl IH]; cbn; [reflexivity|].
  destruct (is_trivia c) eqn:E; cbn; [exact IH | rewrite E; cbn; f_equal; exact IH].
Qed.
Lemma nt_all l : forallb (fun c => negb (is_trivia c)) l = true -> nt l = l.
Proof.
  unfold nt. induction l as [|c tl IH]; cbn; [reflexivity|]. intro H.
  apply andb_true_iff in H. destruct H as [H1 H2]. rewrite H1. f_equal. exact (IH H2).
Qed.

Lemma find_nt r l : nontriv r = true -> find r (nt l) = find r l.
Proof.
  intro N. induction l as [|c tl IH]; [reflexivity|].
  destruct (is_trivia c) eqn:E.
  - rewrite nt_cons_triv by exact E. cbn [find]. rewrite (trivia_has c r E N). exact IH.
  - rewrite nt_cons_keep by exact E. cbn [find]. destruct (has_rule r c); [reflexivity | exact IH].
Qed.
Lemma has_nt r l : nontriv r = true -> has r (nt l) = has r l.
Proof. intro N. unfold has. rewrite find_nt by exact N. reflexivity. Qed.
Lemma subtree_nt r l : nontriv r = true -> subtree r (nt l) = subtree r l.
Proof.
  intro N. induction l as [|c tl IH]; [reflexivity|].
  destruct (is_trivia c) eqn:E.
  - rewrite nt_cons_triv by exact E. cbn [subtree]. rewrite (trivia_has c r E N), andb_false_r. exact IH.
  - rewrite nt_cons_keep by exact E. cbn [subtree]. destruct (is_tree c && has_rule r c); [reflexivity | exact IH].
Qed.

Lemma first_fix_nt b l : first_fix b (nt l) = first_fix b l.
Proof.
  revert b. induction l as [|c tl IH]; intro b; [reflexivity|].
  destruct (is_trivia c) eqn:E.
  - rewrite nt_cons_triv by exact E. cbn [first_fix].
    rewrite (trivia_has c r_LPAR E eq_refl), (trivia_has c r_RPAR E eq_refl), (trivia_has c r_FIX E eq_refl).
    apply IH.
  - rewrite nt_cons_keep by exact E. cbn [first_fix].
    destruct (has_rule r_LPAR c); [apply IH|]. destruct (has_rule r_RPAR c); [apply IH|].
    destruct (has_rule r_FIX c); [reflexivity | apply IH].
Qed.

Section Erase.
Variable V : Type.
Variable F : fops V.

Lemma bound_token_nt w i l : nontriv w = true -> bound_token V F w i (nt l) = bound_token V F w i l.
Proof. intro N. unfold bound_token. rewrite find_nt, subtree_nt by exact N. reflexivity. Qed.
Lemma init_value_nt l : init_value V F (nt l) = init_value V F l.
Proof. unfold init_value. rewrite subtree_nt by reflexivity. reflexivity. Qed.
Lemma multiple_nt l : multiple (nt l) = multiple l.
Proof. unfold multiple. rewrite find_nt, subtree_nt by reflexivity. reflexivity. Qed.

Lemma theta_bounds_nt l : theta_bounds V F (nt l) = theta_bounds V F l.
Proof.
  unfold theta_bounds, lower_token, upper_token.
  rewrite !bound_token_nt by reflexivity. rewrite multiple_nt. reflexivity.
Qed.
Lemma theta_inits_nt l : theta_inits V F (nt l) = theta_inits V F l.
Proof. unfold theta_inits. rewrite init_value_nt, multiple_nt. reflexivity. Qed.
Lemma theta_fixs_nt l : theta_fixs V F (nt l) = theta_fixs V F l.
Proof.
  unfold theta_fixs, lower_token, upper_token.
  rewrite init_value_nt, !bound_token_nt, first_fix_nt, multiple_nt by reflexivity. reflexivity.
Qed.

(* ---- the surgery steps commute with erasing white space ---------------------------------------- *)
Lemma flat_map_nt (f : node -> list node) l :
  (forall c, is_trivia c = true -> f c = [c]) ->
  (forall c, is_trivia c = false -> nt (f c) = f c) ->
  nt (flat_map f l) = flat_map f (nt l).
Proof.
  intros Ht Hk. induction l as [|c tl IH]; [reflexivity|]. cbn [flat_map]. rewrite nt_app, IH.
  destruct (is_trivia c) eqn:E.
  - rewrite (Ht c E), (nt_cons_triv c tl E), (nt_cons_triv c [] E). reflexivity.
  - rewrite (Hk c E), (nt_cons_keep c tl E). reflexivity.
Qed.

Lemma bound_node_nontriv w b : nontriv w = true -> is_trivia (bound_node V F w b) = false.
Proof.
  intro N. unfold is_trivia, has_rule, bound_node. cbn [rule_of].
  unfold nontriv in N. apply negb_true_iff in N.
  rewrite (Pos.eqb_sym w r_WS), (Pos.eqb_sym w r_COMMENT), (Pos.eqb_sym w r_NEWLINE). exact N.
Qed.

Lemma add_upper_nt l b : nt (add_upper_bound V F l b) = add_upper_bound V F (nt l) b.
Proof.
  unfold add_upper_bound. apply flat_map_nt; intros c E.
  - rewrite (trivia_has c r_init E eq_refl). reflexivity.
  - destruct (has_rule r_init c); [|apply nt_cons_keep with (l := []); exact E].
    rewrite nt_cons_keep by exact E. f_equal.
Qed.
Lemma add_lower_nt l b : nt (add_lower_bound V F l b) = add_lower_bound V F (nt l) b.
Proof.
  unfold add_lower_bound. apply flat_map_nt; intros c E.
  - rewrite (trivia_has c r_init E eq_refl). reflexivity.
  - destruct (has_rule r_init c); [|apply nt_cons_keep with (l := []); exact E].
    cbn. unfold nt. cbn. rewrite E. reflexivity.
Qed.

Lemma remove_upper_aux_nt b l : nt (remove_upper_aux b l) = remove_upper_aux b (nt l).
Proof.
  revert b. induction l as [|c tl IH]; intro b; [reflexivity|]. cbn [remove_upper_aux].
  destruct (is_trivia c) eqn:E.
  - rewrite (trivia_has c r_init E eq_refl), (trivia_has c r_up E eq_refl). cbv iota.
    rewrite nt_app, IH, (nt_cons_triv c tl E).
    destruct b; [reflexivity | rewrite (nt_cons_triv c [] E); reflexivity].
  - rewrite nt_app, IH, (nt_cons_keep c tl E). cbn [remove_upper_aux]. f_equal.
    destruct b; [reflexivity | apply (nt_cons_keep c [] E)].
Qed.
Lemma remove_lower_aux_nt b l : nt (remove_lower_aux b l) = remove_lower_aux b (nt l).
Proof.
  revert b. induction l as [|c tl IH]; intro b; [reflexivity|]. cbn [remove_lower_aux].
  destruct (is_trivia c) eqn:E.
  - rewrite (trivia_has c r_init E eq_refl), (trivia_has c r_low E eq_refl). cbv iota.
    rewrite nt_app, IH, (nt_cons_triv c tl E).
    destruct b; [reflexivity | rewrite (nt_cons_triv c [] E); reflexivity].
  - rewrite nt_app, IH, (nt_cons_keep c tl E). cbn [remove_lower_aux]. f_equal.
    destruct (if has_rule r_low c then true else if has_rule r_init c then false else b);
      [reflexivity | apply (nt_cons_keep c [] E)].
Qed.

Lemma replace_bound_nt w l b : nontriv w = true -> nt (replace_bound V F w l b) = replace_bound V F w (nt l) b.
Proof.
  intro N. unfold replace_bound. induction l as [|c tl IH]; [reflexivity|]. cbn [map].
  destruct (is_trivia c) eqn:E.
  - rewrite (trivia_has c w E N), !nt_cons_triv by exact E. exact IH.
  - rewrite (nt_cons_keep c tl E). cbn [map]. destruct (has_rule w c).
    + rewrite nt_cons_keep by (apply bound_node_nontriv; exact N). f_equal. exact IH.
    + rewrite nt_cons_keep by exact E. f_equal. exact IH.
Qed.

Lemma filter_comm {A} (f g : A -> bool) (l : list A) : filter f (filter g l) = filter g (filter f l).
Proof.
  induction l as [|a tl IH]; [reflexivity|]. cbn [filter].
  destruct (g a) eqn:Eg; destruct (f a) eqn:Ef; cbn [filter]; rewrite ?Eg, ?Ef, IH; reflexivity.
Qed.
Lemma remove_parentheses_nt l : nt (remove_parentheses l) = remove_parentheses (nt l).
Proof. unfold remove_parentheses, nt. apply filter_comm. Qed.

Lemma add_parentheses_nt l : nt (add_parentheses l) = add_parentheses (nt l).
Proof.
  unfold add_parentheses. rewrite !has_nt by reflexivity.
  destruct (has r_LPAR l); [reflexivity|].
  apply flat_map_nt; intros c E.
  - rewrite (trivia_has c r_low E eq_refl), (trivia_has c r_init E eq_refl), (trivia_has c r_up E eq_refl).
    rewrite !andb_false_r. reflexivity.
  - destruct (has_rule r_low c).
    + unfold nt. cbn. rewrite E. reflexivity.
    + destruct (negb (has r_up l) && has_rule r_init c || has r_up l && has_rule r_up c);
        unfold nt; cbn; rewrite E; reflexivity.
Qed.

Lemma replace_first_nt c l : is_trivia c = false -> nontriv (rule_of c) = true ->
  nt (replace_first c l) = replace_first c (nt l).
Proof.
  intros Ec N. induction l as [|x tl IH]; [reflexivity|]. cbn [replace_first].
  destruct (is_trivia x) eqn:E.
  - rewrite (trivia_has x _ E N), !nt_cons_triv by exact E. exact IH.
  - rewrite (nt_cons_keep x tl E). cbn [replace_first]. destruct (has_rule (rule_of c) x).
    + apply nt_cons_keep. exact Ec.
    + rewrite nt_cons_keep by exact E. f_equal. exact IH.
Qed.

(* remove_token_and_space only ever drops the token and white space *)
Lemma rtas_aux_nt r acc l : nontriv r = true ->
  nt (rtas_aux r acc l) = rev (nt acc) ++ remove_rule r (nt l).
Proof.
  intro N. revert acc. induction l as [|x tl IH]; intro acc.
  - cbn [rtas_aux]. rewrite nt_rev. symmetry. apply app_nil_r.
  - cbn [rtas_aux]. destruct (has_rule r x) eqn:Hx.
    + assert (Ex : is_trivia x = false).
      { destruct (is_trivia x) eqn:E; [|reflexivity]. rewrite (trivia_has x r E N) in Hx. discriminate. }
      rewrite (nt_cons_keep x tl Ex). unfold remove_rule at 1. cbn [filter]. rewrite Hx. cbn [negb].
      fold (remove_rule r (nt tl)).
      destruct acc as [|w acc']; [apply IH|].
      destruct (has_rule r_WS w) eqn:Hw.
      * rewrite IH. f_equal. rewrite nt_cons_triv; [reflexivity|].
        unfold is_trivia. rewrite Hw. reflexivity.
      * apply IH.
    + rewrite IH. destruct (is_trivia x) eqn:E.
      * rewrite !nt_cons_triv by exact E. reflexivity.
      * rewrite !nt_cons_keep by exact E. unfold remove_rule at 2. cbn [filter]. rewrite Hx. cbn [negb rev].
        rewrite <- app_assoc. reflexivity.
Qed.
Lemma rtas_nt r l : nontriv r = true -> nt (rtas r l) = remove_rule r (nt l).
Proof. intro N. unfold rtas. rewrite rtas_aux_nt by exact N. reflexivity. Qed.

End Erase.

(* ================================================================ Part I.4: update on erased lists *)
Section UpdateErase.
Variable V : Type.
Variable F : fops V.

Definition step_fix_nt (l : list node) (p : param V) : list node :=
  if Bool.eqb (has r_FIX l) (p_fix p) then l
  else if p_fix p then l ++ [fix_tok] else remove_rule r_FIX l.

Definition update_nt (l : list node) (p : param V) : res (list node * N) :=
  match subtree r_init l with
  | None => Err EInternal
  | Some init =>
      match leaf r_NUMERIC (children init) with
      | None => Err EInternal
      | Some v =>
          bind (of_opt (tokval F v)) (fun cur =>
          let l1 := replace_first (new_init_node V F init p cur) l in
          let l2 := step_fix_nt l1 p in
          bind (multiple l2) (fun n =>
          Ok (step_low V F (step_up V F l2 p) p n (has r_low l2), n)))
      end
  end.

Lemma subtree_has r l x : subtree r l = Some x -> has_rule r x = true /\ is_tree x = true.
Proof.
  induction l as [|c tl IH]; cbn [subtree]; [discriminate|].
  destruct (is_tree c && has_rule r c) eqn:E.
  - intro H. injection H as <-. apply andb_true_iff in E. tauto.
  - exact IH.
Qed.

Lemma new_init_node_rule init p cur : is_tree init = true -> rule_of (new_init_node V F init p cur) = rule_of init.
Proof. intro T. unfold new_init_node. destruct (veqb F cur (p_init p)); reflexivity. Qed.

Lemma nontriv_not_trivia c : nontriv (rule_of c) = true -> is_trivia c = false.
Proof.
  intro N. unfold is_trivia, has_rule. unfold nontriv in N. apply negb_true_iff in N.
  rewrite (Pos.eqb_sym (rule_of c) r_WS), (Pos.eqb_sym (rule_of c) r_COMMENT), (Pos.eqb_sym (rule_of c) r_NEWLINE).
  exact N.
Qed.

Lemma step_fix_erase l p : nt (step_fix V l p) = step_fix_nt (nt l) p.
Proof.
  unfold step_fix, step_fix_nt. rewrite has_nt by reflexivity.
  destruct (Bool.eqb (has r_FIX l) (p_fix p)); [reflexivity|].
  destruct (p_fix p).
  - rewrite nt_app. f_equal.
  - apply rtas_nt. reflexivity.
Qed.

Lemma step_up_erase l p : nt (step_up V F l p) = step_up V F (nt l) p.
Proof.
  unfold step_up. rewrite has_nt by reflexivity.
  destruct (negb (has r_up l) && p_need_up V F p); [apply add_upper_nt|].
  destruct (has r_up l && negb (p_need_up V F p)); [apply remove_upper_aux_nt|].
  apply replace_bound_nt. reflexivity.
Qed.

Lemma step_low_erase l p n h : nt (step_low V F l p n h) = step_low V F (nt l) p n h.
Proof.
  unfold step_low.
  destruct (negb h && p_need_low V F p); [rewrite add_parentheses_nt, add_lower_nt; reflexivity|].
  destruct (h && negb (p_need_low V F p)).
  - destruct (N.eqb n 1); [rewrite remove_parentheses_nt|]; unfold remove_lower_bound; rewrite remove_lower_aux_nt; reflexivity.
  - apply replace_bound_nt. reflexivity.
Qed.

Lemma update_theta_erase ch p :
  update_nt (nt ch) p =
  match update_theta V F ch p with Ok (ch', n) => Ok (nt ch', n) | Err e => Err e end.
Proof.
  unfold update_nt, update_theta. rewrite subtree_nt by reflexivity.
  destruct (subtree r_init ch) as [init|] eqn:Si; [|reflexivity].
  destruct (leaf r_NUMERIC (children init)) as [v|]; [|reflexivity].
  destruct (tokval F v) as [cur|]; [|reflexivity]. cbn [of_opt bind].
  destruct (subtree_has _ _ _ Si) as [Hr Ht].
  assert (Hrule : rule_of (new_init_node V F init p cur) = r_init).
  { rewrite new_init_node_rule by exact Ht. apply Pos.eqb_eq. exact Hr. }
  rewrite <- replace_first_nt.
  2:{ apply nontriv_not_trivia. rewrite Hrule. reflexivity. }
  2:{ rewrite Hrule. reflexivity. }
  rewrite <- step_fix_erase. rewrite multiple_nt, has_nt by reflexivity.
  destruct (multiple (step_fix V (replace_first (new_init_node V F init p cur) ch) p)) as [n|e]; [|reflexivity].
  cbn [bind]. rewrite <- step_up_erase, <- step_low_erase. reflexivity.
Qed.

End UpdateErase.

(* ================================================================ Part II: update on a plain layout *)
Section Shapes.
Variable V : Type.
Variable F : fops V.

Definition t_comma : text := [44%N].
Definition t_lpar : text := [40%N].
Definition t_rpar : text := [41%N].
Definition t_fix : text := [70%N; 73%N; 88%N].

Definition close_has_fix (cl : close) : bool :=
  match cl with CFix _ | CNFix _ _ _ => true | _ => false end.
Definition close_set_fix (cl : close) (want : bool) : close :=
  if Bool.eqb (close_has_fix cl) want then cl
  else if want then match cl with CNone => CFix t_fix | CN tx ti => CNFix tx ti t_fix | c => c end
       else match cl with CFix _ => CNone | CNFix tx ti _ => CN tx ti | c => c end.
Definition fx_set_fix (fx : option text) (want : bool) : option text :=
  if Bool.eqb (isSome fx) want then fx else if want then Some t_fix else None.
Definition close_of_fx (fx : option text) : close := match fx with Some t => CFix t | None => CNone end.

(* the shape update_theta produces from a plain shape; cur = float(init token), n = the repeat count *)
Definition upd_shape (s : shape) (p : param V) (cur : V) (n : N) : shape :=
  let nu := p_need_up V F p in
  let nl := p_need_low V F p in
  let lo_t := ext_text V F (p_lower p) in
  let up_t := ext_text V F (p_upper p) in
  match s with
  | SBare ti fx =>
      let ti' := if veqb F cur (p_init p) then ti else vstr F (p_init p) in
      let fx' := fx_set_fix fx (p_fix p) in
      if nl
      then SPar t_lpar (Some (r_NUMERIC, lo_t, t_comma)) ti'
                (if nu then Some (t_comma, r_NUMERIC, up_t) else None) t_rpar (close_of_fx fx')
      else SBare ti' fx'
  | SPar tl lo ti up tr cl =>
      let ti' := if veqb F cur (p_init p) then ti else vstr F (p_init p) in
      let cl' := close_set_fix cl (p_fix p) in
      let up' := match up with
                 | Some (tc, _, _) => if nu then Some (tc, r_NUMERIC, up_t) else None
                 | None => if nu then Some (t_comma, r_NUMERIC, up_t) else None
                 end in
      match lo with
      | Some (_, _, tc) =>
          if nl then SPar tl (Some (r_NUMERIC, lo_t, tc)) ti' up' tr cl'
          else if N.eqb n 1
               then SBare ti' (match cl' with CFix t => Some t | _ => None end)
               else SPar tl None ti' None tr cl'
      | None =>
          if nl then SPar tl (Some (r_NUMERIC, lo_t, t_comma)) ti' up' tr cl'
          else SPar tl None ti' None tr cl'
      end
  end.

Definition shape_init (s : shape) : text := match s with SBare ti _ => ti | SPar _ _ ti _ _ _ => ti end.
Definition shape_close (s : shape) : close := match s with SBare _ fx => close_of_fx fx | SPar _ _ _ _ _ cl => cl end.

Lemma close_ok_n cl : close_ok cl = true -> exists n, close_n cl = Some n /\ (match cl with CN _ _ => N.eqb n 1 = false | _ => n = 1%N end).
Proof.
  destruct cl as [|t|tx ti|tx ti tf]; cbn; try discriminate.
  - exists 1%N. split; reflexivity.
  - exists 1%N. split; reflexivity.
  - destruct (int_of_text ti) as [n|]; [|discriminate]. intro H. exists n. split; [reflexivity|].
    apply N.leb_le in H. apply N.eqb_neq. lia.
Qed.

(* the computation of update on the encoding of a plain shape *)
Definition update_nt_body (l : list node) (p : param V) (init : node) (cur : V) : res (list node * N) :=
  let l1 := replace_first (new_init_node V F init p cur) l in
  let l2 := step_fix_nt V l1 p in
  bind (multiple l2) (fun n => Ok (step_low V F (step_up V F l2 p) p n (has r_low l2), n)).

Lemma update_nt_unfold l p init v cur :
  subtree r_init l = Some init -> leaf r_NUMERIC (children init) = Some v -> tokval F v = Some cur ->
  update_nt V F l p = update_nt_body l p init cur.
Proof. intros H1 H2 H3. unfold update_nt. rewrite H1, H2, H3. reflexivity. Qed.

Ltac unfold_upd p ti cur Hcur :=
  match goal with
  | |- update_nt V F ?l p = _ =>
      rewrite (update_nt_unfold l p (Tree r_init [Tok r_NUMERIC ti]) ti cur eq_refl eq_refl Hcur)
  end.
Ltac gen_decisions p cur :=
  unfold update_nt_body, upd_shape, step_up, step_low, step_fix_nt, p_need_low, new_init_node,
    add_upper_bound, add_lower_bound, replace_bound, bound_node;
  generalize (p_need_up V F p); intro nu;
  generalize (ext_ltb V F (Fin (vmin F)) (p_lower p)); intro gl;
  generalize (ext_text V F (p_lower p)); intro lot;
  generalize (ext_text V F (p_upper p)); intro upt;
  generalize (vstr F (p_init p)); intro it;
  generalize (veqb F cur (p_init p)); intro same.

Lemma update_encode (s : shape) (p : param V) (cur : V) :
  shape_ok V F s = true ->
  tokval F (shape_init s) = Some cur ->
  exists n, close_n (close_set_fix (shape_close s) (p_fix p)) = Some n /\
    update_nt V F (encode s) p = Ok (encode (upd_shape s p cur n), n).
Proof.
  intros Hok Hcur.
  destruct s as [ti fx | tl lo ti up tr cl].
  - (* bare *)
    exists 1%N. cbn [shape_init] in Hcur.
    split; [destruct fx, (p_fix p); reflexivity|].
    destruct fx as [tf|];
      unfold_upd p ti cur Hcur;
      gen_decisions p cur; generalize (p_fix p); intro pf;
      destruct same, pf, nu, gl; reflexivity.
  - (* parenthesised *)
    cbn [shape_ok] in Hok. cbn [shape_init] in Hcur. cbn [shape_close].
    apply andb_true_iff in Hok. destruct Hok as [Hok Hcl].
    apply andb_true_iff in Hok. destruct Hok as [Hok Hup].
    assert (Hcl' : exists n, close_n (close_set_fix cl (p_fix p)) = Some n /\
                   (N.eqb n 1 = true -> match close_set_fix cl (p_fix p) with CNone | CFix _ => True | _ => False end)).
    { destruct (close_ok_n cl Hcl) as [n [Hn Hn1]].
      destruct cl as [|t|tx ti0|tx ti0 tf]; try discriminate; cbn in Hn |- *; destruct (p_fix p); cbn;
        try (exists 1%N; split; [reflexivity | intros _; exact I]);
        rewrite Hn; exists n; (split; [reflexivity | intro H; rewrite H in Hn1; discriminate]). }
    destruct Hcl' as [n [Hn Hn1]]. exists n. split; [exact Hn|].
    destruct lo as [[[rl tlo] tcl]|]; destruct up as [[[tcu ru] tu]|];
      try (cbn in Hup; rewrite andb_false_r in Hup; discriminate).
    all: destruct cl as [|t|tx ti0|tx ti0 tf]; try discriminate;
      unfold_upd p ti cur Hcur;
      revert Hn Hn1; gen_decisions p cur; generalize (p_fix p); intro pf; intros Hn Hn1;
      destruct pf; cbv -[int_of_text N.eqb] in Hn, Hn1;
      try (match type of Hn with Some _ = Some _ => injection Hn as <- end);
      cbv -[int_of_text N.eqb];
      destruct same, nu, gl; try rewrite Hn; try reflexivity;
      try (destruct (N.eqb n 1) eqn:En; [exfalso; exact (Hn1 eq_refl) | reflexivity]).
Qed.

End Shapes.

(* ================================================================ Part III: what an encoded shape means *)
Section ShapeSem.
Variable V : Type.
Variable F : fops V.

Definition shape_lo (s : shape) : option (rule * text) :=
  match s with SPar _ (Some (r, t, _)) _ _ _ _ => Some (r, t) | _ => None end.
Definition shape_up (s : shape) : option (rule * text) :=
  match s with SPar _ _ _ (Some (_, r, t)) _ _ => Some (r, t) | _ => None end.
Definition shape_has_fix (s : shape) : bool :=
  match s with SBare _ fx => isSome fx | SPar _ _ _ _ _ cl => close_has_fix cl end.
Definition shape_n (s : shape) : option N := close_n (shape_close s).

(* the bounds are NUMERIC tokens (what update writes) *)
Definition written (s : shape) : Prop :=
  (forall r t, shape_lo s = Some (r, t) -> r = r_NUMERIC) /\
  (forall r t, shape_up s = Some (r, t) -> r = r_NUMERIC).

Definition read_bound (spelling : text -> bool) (b : option (rule * text)) : res (btok V) :=
  match b with
  | None => Ok BNone
  | Some (_, t) => if spelling t then Ok BInf
                   else match tokval F t with Some x => Ok (BVal x) | None => Err EInternal end
  end.

Definition relexed (l : list node) : list node := map relex_bound l.

Lemma read_encode (s : shape) : written s ->
  lower_token V F (relexed (encode s)) = read_bound neg_inf_spelling (shape_lo s)
  /\ upper_token V F (relexed (encode s)) = read_bound pos_inf_spelling (shape_up s)
  /\ init_value V F (relexed (encode s)) = of_opt (tokval F (shape_init s))
  /\ first_fix false (relexed (encode s)) = (if shape_has_fix s then Some false else None)
  /\ multiple (relexed (encode s)) = of_opt (shape_n s).
Proof.
  intros [Wl Wu].
  destruct s as [ti fx | tl lo ti up tr cl].
  - destruct fx; repeat split; reflexivity.
  - destruct lo as [[[rl tlo] tcl]|]; destruct up as [[[tcu ru] tu]|];
      try (rewrite (Wl rl tlo eq_refl) in * ); try (rewrite (Wu ru tu eq_refl) in * );
      destruct cl; cbv -[tokval int_of_text neg_inf_spelling pos_inf_spelling];
      repeat (match goal with |- context [neg_inf_spelling ?t] => destruct (neg_inf_spelling t) end);
      repeat (match goal with |- context [pos_inf_spelling ?t] => destruct (pos_inf_spelling t) end);
      repeat split; reflexivity.
Qed.

End ShapeSem.

