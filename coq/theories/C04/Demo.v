(* PV.C04.Demo — a small concrete instance of the float operations (one decimal digit fixed point:
   the Z value z stands for z/10) used for the vm_compute witnesses in Refuted.v and to show that
   the hypotheses of the theorems are satisfiable (Examples.v).  Definitions only. *)
From Coq Require Import List NArith ZArith PArith Bool Arith.
From PV Require Import C04.Cst C04.Lcs C04.Model.
Import ListNotations.
Local Open Scope Z_scope.

Definition minus_c : N := 45%N.
Definition dot_c : N := 46%N.

Definition str_abs (z : Z) : text :=          (* |z|/10 "." |z| mod 10 *)
  let a := Z.to_N (Z.abs z) in
  text_of_N (a / 10)%N ++ [dot_c; (48 + a mod 10)%N].
Definition d_str (z : Z) : text := (if z <? 0 then [minus_c] else []) ++ str_abs z.
Definition d_fmt (z : Z) : text :=
  if Z.eqb (z mod 10) 0
  then (if z <? 0 then [minus_c] else []) ++ text_of_N (Z.to_N (Z.abs z) / 10)%N
  else d_str z.

(* split at the first '.' *)
Fixpoint split_dot (l : text) : text * option text :=
  match l with
  | [] => ([], None)
  | c :: tl => if N.eqb c dot_c then ([], Some tl)
               else let '(a, b) := split_dot tl in (c :: a, b)
  end.
Definition parse_abs (l : text) : option Z :=
  let '(ip, fp) := split_dot l in
  match int_of_text ip with
  | None => None
  | Some i =>
      match fp with
      | None => Some (Z.of_N i * 10)
      | Some [] => Some (Z.of_N i * 10)
      | Some [d] => if is_digit d then Some (Z.of_N i * 10 + Z.of_N (d - 48)) else None
      | Some _ => None
      end
  end.
Definition d_tok (l : text) : option Z :=
  match l with
  | c :: tl => if N.eqb c minus_c then option_map Z.opp (parse_abs tl)
               else if N.eqb c 43%N then parse_abs tl else parse_abs l
  | [] => None
  end.

Definition demo : fops Z :=
  mkF Z Z.eqb Z.ltb 0 10000000 (-10000000) d_tok d_str d_fmt (fun z => z) (fun z => z).

(* the same instance with a finite-precision square root / square on tenths: sqrt(2.0) = 1.4, 1.4^2 = 1.9 *)
Definition demo_sqrt : fops Z :=
  mkF Z Z.eqb Z.ltb 0 10000000 (-10000000) d_tok d_str d_fmt (fun z => Z.sqrt (z * 10)) (fun z => z * z / 10).

Definition T (s : list nat) : text := map N.of_nat s.
