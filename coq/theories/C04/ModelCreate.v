(* PV.C04.ModelCreate — the record trees create_omega_single / create_omega_block (update.py) build: the
   text they compose, as lark parses it (the same convention as create_theta_root).  Definitions only. *)
From Coq Require Import List NArith Bool Arith.
From PV Require Import C04.Cst C04.Model C04.ModelOmega.
Import ListNotations.
Local Open Scope nat_scope.

Definition digits_nat (n : nat) : text := text_of_N (N.of_nat n).
(* f'{record_type}_{r}_{c}' *)
Definition default_rv_name (sigma : bool) (rc : nat * nat) : text :=
  (if sigma then [83; 73; 71; 77; 65; 95] else [79; 77; 69; 71; 65; 95])%N
  ++ digits_nat (fst rc) ++ [95%N] ++ digits_nat (snd rc).
Fixpoint is_prefix (p t : text) : bool :=
  match p, t with
  | [], _ => true
  | x :: p', y :: t' => N.eqb x y && is_prefix p' t'
  | _, [] => false
  end.
(* not re.match(default name, name): re.match anchors at the start only, so OMEGA_1_10 "matches" OMEGA_1_1 *)
Definition wants_name (sigma : bool) (r c : nat) (name : text) : bool :=
  negb (is_prefix (default_rv_name sigma (r, c)) name).

Definition upper_ascii (c : N) : N := if ((97 <=? c) && (c <=? 122))%N then (c - 32)%N else c.
Definition upper (t : text) : text := map upper_ascii t.

Definition nl_tok : node := Tok r_NEWLINE [10%N].
Definition ws2_tok : node := Tok r_WS [32; 32]%N.
Definition tab_tok : node := Tok r_WS [9%N].
Definition comment_tok (name : text) : node := Tok r_COMMENT ([59; 32]%N ++ name).
Definition block_node (n : nat) : node :=
  Tree r_block [Tok r_BLOCK [66; 76; 79; 67; 75]%N; Tok r_LPAR [40%N]; Tree r_size [Tok r_INT (digits_nat n)];
                Tok r_RPAR [41%N]].
Definition same_node : node := Tree r_same [Tok r_SAME [83; 65; 77; 69]%N].

Inductive skind := SPlain | SIovFirst | SIovSame.

Section Create.
Variable V : Type.
Variable F : fops V.

Definition init_node (t : text) : node := Tree r_init [Tok r_NUMERIC t].

(* create_omega_single(model, rv, eta_number): v, fx, name = init, fix, name of the variance parameter *)
Definition create_single_root (sigma : bool) (kind : skind) (v : V) (fx : bool) (name : text) (eta : nat)
  : res node :=
  let fixpart := if fx then [ws_tok; fix_tok] else [] in
  let namepart := if wants_name sigma eta eta name then [ws_tok; comment_tok name] else [] in
  match kind with
  | SPlain =>       (* '$OMEGA  {init}[ FIX][ ; name]\n' *)
      Ok (Tree r_root ([ws2_tok; Tree r_diag_item (init_node (vstr F v) :: fixpart)] ++ namepart ++ [nl_tok]))
  | SIovFirst =>    (* '$OMEGA  BLOCK(1)\n{init}[ FIX][ ; name]\n' *)
      Ok (Tree r_root ([ws2_tok; block_node 1; nl_tok; Tree r_omega (init_node (vstr F v) :: fixpart)]
                       ++ namepart ++ [nl_tok]))
  | SIovSame =>     (* '$OMEGA  BLOCK(1) SAME[ FIX]\n' - with FIX the grammar refuses the text *)
      if fx then Err EParse else Ok (Tree r_root [ws2_tok; block_node 1; ws_tok; same_node; nl_tok])
  end.

(* the lines of a new BLOCK: one element per line, '{init}'.upper() and '\t; name' unless the name is the
   default one for its position *)
Fixpoint block_lines (sigma : bool) (eta row col : nat) (elems : list (V * text)) : list node :=
  match elems with
  | [] => []
  | (v, name) :: tl =>
      [Tree r_omega [init_node (upper (vstr F v))]]
      ++ (if wants_name sigma (row + eta) (col + eta) name then [tab_tok; comment_tok name] else [])
      ++ [nl_tok]
      ++ (if Nat.eqb col row then block_lines sigma eta (S row) 0 tl else block_lines sigma eta row (S col) tl)
  end.

(* create_omega_block(model, distribution, eta_number): elems = (init, name) of the lower triangle row by
   row, allfix = all its parameters are fixed (commit f6a49ae) *)
Definition create_block_root (sigma same : bool) (size : nat) (elems : list (V * text)) (allfix : bool)
           (eta : nat) : node :=
  if same then Tree r_root [ws_tok; block_node size; ws_tok; same_node; nl_tok]
  else Tree r_root ([ws_tok; block_node size] ++ (if allfix then [ws_tok; fix_tok] else []) ++ [nl_tok]
                    ++ block_lines sigma eta 0 0 elems).

End Create.
