(* PV.C04.Properties — the property theorems of C04 and nothing else.
   V, F: Python floats and the CPython functions on them (float(text), str, format_number, comparisons);
   fops_ok F: float(str(x)) == x, float(format_number(x)) == x, == and < behave, a text spelling an
   infinity denotes no finite float other than +-1000000.  These laws are engine contracts; the check
   re-validates them on every tabulated value, ProofsDemo.demo_ok shows they are satisfiable. *)
From Coq Require Import List NArith ZArith PArith Bool.
From PV Require Import C04.Proofs.
Import ListNotations.

(* ThetaRecord.update written back and re-read: for EVERY record tree whose thetas have a plain layout
   "init [FIX]" or "( [low,] init [,up] ) [FIX | xn]" with white space / newlines anywhere, and every
   parameter list that the guard admits (repeat groups get equal parameters, FIX is not added to a
   repeat group, the values are representable in NM-TRAN; the former conjunct g_spaced is gone since
   the grammar fix bd27e55), update succeeds and the regenerated tree
   - with the bounds re-lexed the way lark lexes "-inf"/"1000000" - means exactly the new parameters:
   init, lower, upper (with the +-1000000 <=> infinity convention) and FIX. *)
Theorem theta_update_readback :
  forall (V : Type) (F : fops V), fops_ok F ->
  forall (root : node) (ps : list (param V)),
    guard_record V F root ps = true ->
    exists root', theta_update V F root ps = Ok root' /\ sem V F (relex root') = Ok ps.
Proof. exact record_update_readback. Qed.

(* ... and every regenerated theta is a sentence of the theta grammar of theta_record.lark (the
   reference recogniser theta_gram on the labelled token skeleton), provided FIX is not added to a
   repeat group (g_xn_nofix). *)
Theorem theta_update_grammatical :
  forall (V : Type) (F : fops V) (ch : list node) (p : param V) (n : N) (ch' : list node),
    plain_theta V F ch = true -> multiple ch = Ok n -> g_xn_nofix V ch n p = true ->
    update_theta V F ch p = Ok (ch', n) ->
    theta_gram (skeleton ch') = true.
Proof. exact theta_update_gram. Qed.

(* update_thetas (all $THETA records of a control stream) for edits that change values only - set init /
   lower / upper / fix of any number of parameters, same names in the same order: every record is handed
   exactly the new parameters it defines (a one-theta record whose parameter did not change is left
   alone), so the regenerated records together mean the new parameter list.  parts pairs each record
   with the new parameters it defines; the side condition on the reordered script is executable. *)
Theorem update_thetas_realises_values :
  forall (V : Type) (F : fops V), fops_ok F ->
  forall (parts : list (part V)) (old new : list (nparam V)),
    new = concat (map snd parts) ->
    map fst old = map fst new ->
    Forall (part_ok V F) parts ->
    news (reorder_diff (name_eqb V) (fun p => mem_text (fst p) (inter_names (names_of V old) (names_of V new)))
            (diff (nparam_eqb V F) old new)) = new ->
    (forall r p q, In (r, [p]) parts -> In q old -> fst q = fst p -> sem V F (relex r) = Ok [snd q]) ->
    exists roots sems,
      update_thetas V F (map fst parts) old new = Ok roots
      /\ mapM (fun r => sem V F (relex r)) roots = Ok sems
      /\ concat sems = map snd new.
Proof. exact update_thetas_values_lemma. Qed.

(* update_thetas for ANY edit of the theta list in one step - changed, removed and added thetas, several
   records: when the plan the driver derives from lcs.diff / reorder_diff is inside guard_plan (every
   record surgery - evaluated on the tree after the removal - is inside the guard of theta_update_readback,
   every created parameter is representable, and the values the plan hands out in emission order are the
   new list: g_order, the conjunct Refuted.theta_refuted_insert_order shows to be needed), update_thetas
   succeeds, produces one record per action, and the regenerated records together mean exactly the new
   parameter list. *)
Theorem update_thetas_realises :
  forall (V : Type) (F : fops V), fops_ok F ->
  forall (recs : list node) (old new : list (nparam V)),
    guard_plan V F recs old new = true ->
    exists acts roots sems,
      ut_plan V F recs old new = Ok acts
      /\ update_thetas V F recs old new = Ok roots
      /\ length roots = length acts
      /\ mapM (fun ar => out_sem V F (fst ar) (snd ar)) (combine acts roots) = Ok sems
      /\ concat sems = map snd new.
Proof. exact update_thetas_realises_lemma. Qed.

(* update_random_variables / update_random_variable_records for one record type ($OMEGA or $SIGMA), at
   record-planning level (ModelRv.v; the plan is tied call by call to the real loop, Check tag 26): for all
   old and new lists of distributions, whenever every record the loop looks at holds ONE distribution (BLOCK
   records and records with a single diagonal item - g_aligned, evaluated on the script of lcs.diff), the
   loop does not fail, never shrinks a record, and plans exactly one rewritten (OmegaRecord.update with that
   distribution's parameters, lower triangle row by row) or created (create_omega_single / create_omega_block)
   record per distribution of the in-memory model, in the model's order: names and block structure of what
   is written follow the new random variables.  (Records with several diagonal items: tie only; they are
   where the open findings C04-OMEGA-DIAG-ITEM-ORDER / C04-OMEGA-XN-REMOVE live.) *)
Theorem rv_plan_realises :
  forall (old_all_keys : list nat) (old_names new_names : list text) (lens : list nat) (old new : list pdist),
    g_aligned old_all_keys (inter_texts old_names new_names) lens (diff pdist_eqb old new) 0 = true ->
    exists plan,
      rv_plan old_all_keys old_names new_names lens old new = Ok plan
      /\ flat_map paction_dist plan = new
      /\ forallb plain_action plan = true.
Proof. exact rv_plan_realises_lemma. Qed.

(* The records rv_plan_realises plans to CREATE (ModelCreate.v; the trees are tied node by node to what
   create_omega_single / create_omega_block return, Check tag 27).  For every float instance obeying the
   float laws, every value, FIX flag, name and eta number:
   - '$OMEGA  {init}[ FIX][ ; name]' is a diagonal record meaning exactly the parameter (init, fix)
     (an unfixed 0 cannot be read back: NM-TRAN and pharmpy refuse it);
   - '$OMEGA  BLOCK(1)\n{init}[ FIX][ ; name]' (first occasion of an IOV eta) is a BLOCK record with that one
     value, FIX iff the parameter is fixed, not SAME;
   - '$OMEGA  BLOCK(1) SAME' (later occasions) is SAME - but for a FIXED parameter the code writes
     'BLOCK(1) SAME FIX', which the grammar refuses (the model returns the parse error). *)
Theorem create_omega_single_readback :
  forall (V : Type) (F : fops V), fops_ok F ->
  forall (sigma : bool) (v : V) (fx : bool) (name : text) (eta : nat),
    (forall root, fx || negb (veqb F v (vzero F)) = true ->
       create_single_root V F sigma SPlain v fx name eta = Ok root ->
       osem V F root = Ok [mkO v fx] /\ is_block_record root = false)
    /\ (forall root, create_single_root V F sigma SIovFirst v fx name eta = Ok root ->
         block_inits V F root = Ok [v] /\ block_fix root = fx /\ is_block_record root = true
         /\ has r_same (children root) = false)
    /\ match create_single_root V F sigma SIovSame v fx name eta with
       | Ok root => fx = false /\ has r_same (children root) = true /\ is_block_record root = true
       | Err _ => fx = true
       end.
Proof.
  intros V F HF sigma v fx name eta. split; [|split].
  - intros root. apply (create_single_plain_readback V F HF).
  - intros root. apply (create_single_iov_readback V F HF).
  - apply create_single_same_readback.
Qed.

(* '$OMEGA BLOCK(n)[ FIX]\n' followed by one element per line ('{init}'.upper(), '\t; name' unless the name is
   the default one of its position): for every list of (value, name) - the lower triangle row by row - whose
   values survive float(str(x).upper()) (exponents are written with 'E'; a hypothesis on the values at hand,
   not a law of fops_ok), the record is a BLOCK record, not SAME, whose values in order are exactly the handed
   ones and which carries FIX iff all parameters are fixed; for a later IOV occasion it is SAME. *)
Theorem create_omega_block_readback :
  forall (V : Type) (F : fops V), fops_ok F ->
  forall (sigma : bool) (size : nat) (elems : list (V * text)) (allfix : bool) (eta : nat),
    (Forall (fun e => tokval F (upper (vstr F (fst e))) = Some (fst e)) elems ->
     let root := create_block_root V F sigma false size elems allfix eta in
     block_inits V F root = Ok (map fst elems) /\ block_fix root = allfix /\ is_block_record root = true
     /\ has r_same (children root) = false)
    /\ (let root := create_block_root V F sigma true size elems allfix eta in
        has r_same (children root) = true /\ is_block_record root = true).
Proof.
  intros V F HF sigma size elems allfix eta. split.
  - apply (create_block_readback V F).
  - apply create_block_same.
Qed.

(* OmegaRecord.remove on a record without BLOCK (the model odiag_remove is tied node by node to the
   implementation, Check tag 28).  For every record tree whose diag_item children are trees, and every index list:
   the diagonal items of the shrunk record are exactly the items whose index is not removed, in order (whatever
   white space, comments, options or DIAGONAL(n) surround them; the final NEWLINE is kept since 5bd60d8); and
   when every item stands for one parameter (no (v)xn item - with one, indices count nodes, not parameters:
   finding C04-OMEGA-XN-REMOVE), the shrunk record means the old parameter list without the removed indices. *)
Theorem odiag_remove_keeps_the_other_items :
  forall (root : node) (inds : list nat),
    items_are_trees (children root) = true ->
    items_of (odiag_remove root inds) = remove_idx (items_of root) 0 inds.
Proof. exact odiag_remove_items. Qed.

Theorem odiag_remove_sem :
  forall (V : Type) (F : fops V) (root : node) (inds : list nat) (ps : list (oparam V)),
    items_are_trees (children root) = true ->
    forallb (fun c => match item_n (children c) with Ok n => N.eqb n 1 | Err _ => false end) (items_of root) = true ->
    osem V F root = Ok ps ->
    osem V F (odiag_remove root inds) = Ok (remove_idx ps 0 inds).
Proof. exact odiag_remove_sem_lemma. Qed.

(* "Values that were not changed keep their original spelling", for one plain theta: the init token is
   untouched whenever its value is the new value; a bound that stays is written with format_number's
   text - so it keeps its spelling exactly when it was spelled that way (Refuted.theta_refuted_respell
   shows the other case is real). *)
Theorem theta_update_spelling :
  forall (V : Type) (F : fops V) (ch : list node) (p : param V) (n : N) (ch' : list node),
    plain_theta V F ch = true -> multiple ch = Ok n -> update_theta V F ch p = Ok (ch', n) ->
    (forall cur, init_value V F ch = Ok cur -> veqb F cur (p_init p) = true ->
       tok_text r_init ch' = tok_text r_init ch)
    /\ (p_need_low V F p = true -> tok_text r_low ch' = Some (ext_text V F (p_lower p)))
    /\ (p_need_up V F p = true -> tok_text r_up ch' = Some (ext_text V F (p_upper p))).
Proof. exact theta_update_spelling_lemma. Qed.

(* create_theta_record (add_population_parameter): the record built for a representable parameter
   means exactly that parameter. *)
Theorem create_theta_readback :
  forall (V : Type) (F : fops V), fops_ok F ->
  forall (name : text) (p : param V), g_repr V F p = true -> sem V F (create_theta_root V F name p) = Ok [p].
Proof. exact create_theta_readback_lemma. Qed.

(* White space, comments and newlines inside a theta never influence what update does to its tokens:
   update commutes with erasing them. *)
Theorem theta_update_ignores_layout :
  forall (V : Type) (F : fops V) (ch : list node) (p : param V),
    update_nt V F (nt ch) p =
    match update_theta V F ch p with Ok (ch', n) => Ok (nt ch', n) | Err e => Err e end.
Proof. exact update_theta_erase. Qed.

(* OmegaRecord.update on a record without BLOCK (DIAGONAL(n) or plain $OMEGA / $SIGMA), any layout of
   the items (options FIX / SD / VAR in any position, parentheses, (..)xn, white space and comments):
   when the SD scale round-trips on the written values (fsq (fsqrt x) = x, a property of the floats at
   hand), no unfixed value is written as 0 and no item carries both SD and VAR, the regenerated tree
   means exactly the new (init, fix) list.  Since commit b54b188 (finding C04-OMEGA-XN-SPLIT) this
   holds at full strength: a (v)xn group whose parameters become different is split into one item per
   parameter, each with its own value and FIX (the former guard conjunct g_oxn is gone). *)
Theorem omega_diag_update_readback :
  forall (V : Type) (F : fops V), fops_ok F ->
  forall (root : node) (ps : list (oparam V)),
    oguard_record V F root ps = true ->
    exists root', odiag_update V F root ps = Ok root' /\ osem V F root' = Ok ps.
Proof. exact odiag_update_readback. Qed.

(* OmegaRecord.update on a BLOCK(n) record, the tree surgery: given the values to write (the covariance
   matrix converted to the record's scale by numpy - an engine), the init tokens of the regenerated
   tree are exactly these values, (v)xn groups being split where the values differ, and FIX is present
   iff requested.  Partial: proved for "FIX unchanged" and "FIX added"; the recursive removal of FIX is
   tied by the correspondence only. *)
Theorem omega_block_update_writes_array_partial :
  forall (V : Type) (F : fops V), fops_ok F ->
  forall (root : node) (arr : list V) (nf : bool),
    has r_same (children root) = false -> has r_block (children root) = true ->
    oblock_guard V F (children root) arr = true ->
    (nf = block_fix root \/ nf = true) ->
    exists root', oblock_update V F root arr nf = Ok root'
      /\ block_inits V F root' = Ok arr /\ block_fix root' = nf.
Proof. exact oblock_update_writes_array_partial. Qed.

(* lcs.diff returns an edit script from old to new: deleting the -1 entries' complement gives old,
   dropping the -1 entries gives new - for all lists over any type whose == implies equality. *)
Theorem diff_correct :
  forall (A : Type) (eqb : A -> A -> bool), (forall x y, eqb x y = true -> x = y) ->
  forall old new : list A, olds (diff eqb old new) = old /\ news (diff eqb old new) = new.
Proof. exact diff_script. Qed.

(* the entries marked 0 form a common subsequence of old and new *)
Theorem diff_kept_is_common_subsequence :
  forall (A : Type) (eqb : A -> A -> bool), (forall x y, eqb x y = true -> x = y) ->
  forall old new : list A,
    subseq A (kepts (diff eqb old new)) old /\ subseq A (kepts (diff eqb old new)) new.
Proof. exact diff_kept_common. Qed.

(* update.reorder_diff only reorders the script (it moves the +1 of a changed parameter in front of its
   -1): the result is a permutation of the input, provided the removed kept names are distinct (they
   are: parameter names are unique) ... *)
Theorem reorder_diff_perm :
  forall (A K : Type) (key : A -> K) (name_eqb : A -> A -> bool) (in_kept : A -> bool),
    (forall a b, name_eqb a b = true <-> key a = key b) ->
  forall d : list (op * A),
    NoDup (map (fun x => key (snd x)) (filter (fun x => op_eqb (fst x) Del && in_kept (snd x)) d)) ->
    Permutation.Permutation (reorder_diff name_eqb in_kept d) d.
Proof. exact reorder_diff_permutation. Qed.

(* ... and the unchanged (0) entries keep their relative order, unconditionally *)
Theorem reorder_diff_keeps_unchanged_order :
  forall (A : Type) (name_eqb : A -> A -> bool) (in_kept : A -> bool) (d : list (op * A)),
    kepts (reorder_diff name_eqb in_kept d) = kepts d.
Proof. exact reorder_diff_kepts. Qed.

(* str(int) is inverted by int(str): the decimal digits the model prints (default names THETA_n,
   the demo instance) read back as the same number. *)
Theorem decimal_roundtrip : forall n : N, int_of_text (text_of_N n) = Some n.
Proof. exact int_of_text_of_N. Qed.
