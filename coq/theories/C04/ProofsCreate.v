(* PV.C04.ProofsCreate — what the records built by create_omega_single / create_omega_block mean when they
   are read back (values, FIX, SAME). *)
From Coq Require Import List NArith Bool Arith Lia.
From PV Require Import C04.Cst C04.Model C04.ModelOmega C04.ProofsTheta C04.ProofsTheta2.
From PV Require Import C04.ModelCreate.
Import ListNotations.
Local Open Scope nat_scope.

Section Create.
Variable V : Type.
Variable F : fops V.
Hypothesis HF : fops_ok F.

(* '$OMEGA  {init}[ FIX][ ; name]': the record means the one parameter (init, fix) *)
Lemma create_single_plain_readback (sigma : bool) (v : V) (fx : bool) (name : text) (eta : nat) (root : node) :
  fx || negb (veqb F v (vzero F)) = true ->
  create_single_root V F sigma SPlain v fx name eta = Ok root ->
  osem V F root = Ok [mkO v fx] /\ is_block_record root = false.
Proof.
  intros G H. cbn [create_single_root] in H. injection H as <-.
  split.
  - unfold osem, items_of. destruct fx.
    + destruct (wants_name sigma eta eta name);
        unfold item_vals, item_init, item_n, init_value, multiple;
        cbv -[tokval vstr veqb vzero fsq]; rewrite (tok_str F HF); cbv -[tokval vstr veqb vzero fsq];
        destruct (veqb F v (vzero F)); reflexivity.
    + cbn in G. apply negb_true_iff in G.
      destruct (wants_name sigma eta eta name);
        unfold item_vals, item_init, item_n, init_value, multiple;
        cbv -[tokval vstr veqb vzero fsq]; rewrite (tok_str F HF); cbv -[tokval vstr veqb vzero fsq];
        rewrite G; reflexivity.
  - destruct (wants_name sigma eta eta name); destruct fx; reflexivity.
Qed.

(* '$OMEGA  BLOCK(1)\n{init}[ FIX][ ; name]' (the first occasion of an IOV eta): a BLOCK record with the one
   value, FIX iff the parameter is fixed *)
Lemma create_single_iov_readback (sigma : bool) (v : V) (fx : bool) (name : text) (eta : nat) (root : node) :
  create_single_root V F sigma SIovFirst v fx name eta = Ok root ->
  block_inits V F root = Ok [v] /\ block_fix root = fx /\ is_block_record root = true
  /\ has r_same (children root) = false.
Proof.
  intro H. cbn [create_single_root] in H. injection H as <-.
  repeat split; destruct (wants_name sigma eta eta name); destruct fx;
    try reflexivity;
    unfold block_inits, omega_vals, init_value, multiple;
    cbv -[tokval vstr]; rewrite (tok_str F HF); reflexivity.
Qed.

(* '$OMEGA  BLOCK(1) SAME' (a later occasion): SAME, no value; with a fixed parameter the text is
   '... SAME FIX', which the grammar refuses *)
Lemma create_single_same_readback (sigma : bool) (v : V) (fx : bool) (name : text) (eta : nat) :
  match create_single_root V F sigma SIovSame v fx name eta with
  | Ok root => fx = false /\ has r_same (children root) = true /\ is_block_record root = true
  | Err _ => fx = true
  end.
Proof. destruct fx; cbn; repeat split; reflexivity. Qed.

(* the values on the lines of a new BLOCK, in order *)
Lemma block_lines_vals (sigma : bool) (eta : nat) (elems : list (V * text)) : forall row col,
  Forall (fun e => tokval F (upper (vstr F (fst e))) = Some (fst e)) elems ->
  mapM (omega_vals V F) (map children (subtrees r_omega (block_lines V F sigma eta row col elems)))
  = Ok (map (fun e => [fst e]) elems).
Proof.
  induction elems as [|[v name] tl IH]; intros row col Hall; [reflexivity|].
  pose proof (Forall_inv Hall) as Hv. pose proof (Forall_inv_tail Hall) as Htl. cbn [fst] in Hv.
  cbn [block_lines].
  assert (Hsub : forall mid rest, (mid = [] \/ mid = [tab_tok; comment_tok name]) ->
            subtrees r_omega ([Tree r_omega [init_node (upper (vstr F v))]] ++ mid ++ [nl_tok] ++ rest)
            = Tree r_omega [init_node (upper (vstr F v))] :: subtrees r_omega rest).
  { intros mid rest [-> | ->]; reflexivity. }
  rewrite Hsub by (destruct (wants_name sigma (row + eta) (col + eta) name); auto).
  cbn [map children]. apply mapM_cons.
  - unfold omega_vals, init_value, multiple. cbv -[tokval vstr upper]. rewrite Hv. reflexivity.
  - destruct (Nat.eqb col row); apply IH; exact Htl.
Qed.

(* '$OMEGA BLOCK(n)[ FIX]\n' + one element per line: the record is a BLOCK record whose values, in order, are
   the lower triangle handed in, FIX iff all parameters are fixed; SAME otherwise.  The float law needed is
   float(str(x).upper()) == x (exponents are written 'E'), stated as a hypothesis on the values at hand. *)
Lemma create_block_readback (sigma : bool) (size : nat) (elems : list (V * text)) (allfix : bool) (eta : nat) :
  Forall (fun e => tokval F (upper (vstr F (fst e))) = Some (fst e)) elems ->
  let root := create_block_root V F sigma false size elems allfix eta in
  block_inits V F root = Ok (map fst elems) /\ block_fix root = allfix /\ is_block_record root = true
  /\ has r_same (children root) = false.
Proof.
  intros Hall root. unfold root, create_block_root.
  assert (Hsub : subtrees r_omega (children (Tree r_root ([ws_tok; block_node size] ++ (if allfix then [ws_tok; fix_tok] else [])
                   ++ [nl_tok] ++ block_lines V F sigma eta 0 0 elems)))
                 = subtrees r_omega (block_lines V F sigma eta 0 0 elems)).
  { destruct allfix; reflexivity. }
  assert (Hnofix : forall row col l, existsb (fun c => is_omega c && has r_FIX (children c)) (block_lines V F sigma eta row col l) = false
                   /\ has r_FIX (block_lines V F sigma eta row col l) = false /\ has r_same (block_lines V F sigma eta row col l) = false).
  { intros row col l. revert row col. induction l as [|[v name] tl IH]; intros row col; [repeat split; reflexivity|].
    cbn [block_lines].
    assert (E : forall rest, (existsb (fun c => is_omega c && has r_FIX (children c)) rest = false
                              /\ has r_FIX rest = false /\ has r_same rest = false) ->
              existsb (fun c => is_omega c && has r_FIX (children c))
                ([Tree r_omega [init_node (upper (vstr F v))]]
                 ++ (if wants_name sigma (row + eta) (col + eta) name then [tab_tok; comment_tok name] else []) ++ [nl_tok] ++ rest) = false
              /\ has r_FIX ([Tree r_omega [init_node (upper (vstr F v))]]
                 ++ (if wants_name sigma (row + eta) (col + eta) name then [tab_tok; comment_tok name] else []) ++ [nl_tok] ++ rest) = false
              /\ has r_same ([Tree r_omega [init_node (upper (vstr F v))]]
                 ++ (if wants_name sigma (row + eta) (col + eta) name then [tab_tok; comment_tok name] else []) ++ [nl_tok] ++ rest) = false).
    { intros rest [R1 [R2 R3]]. unfold has in *.
      destruct (wants_name sigma (row + eta) (col + eta) name); cbn -[upper]; repeat split; assumption. }
    destruct (Nat.eqb col row); apply E; apply IH. }
  destruct (Hnofix 0 0 elems) as [N1 [N2 N3]].
  split; [|split; [|split]].
  - unfold block_inits. rewrite Hsub, (block_lines_vals sigma eta elems 0 0 Hall). cbn [bind]. f_equal.
    clear. induction elems as [|e tl IH]; [reflexivity|]. cbn. f_equal. exact IH.
  - unfold block_fix. unfold has in *. destruct allfix; cbn -[block_lines]; [reflexivity|].
    rewrite N1. destruct (find r_FIX (block_lines V F sigma eta 0 0 elems)); [discriminate N2 | reflexivity].
  - destruct allfix; reflexivity.
  - unfold has in *. destruct allfix; cbn -[block_lines];
      destruct (find r_same (block_lines V F sigma eta 0 0 elems)); try discriminate N3; reflexivity.
Qed.

Lemma create_block_same (sigma : bool) (size : nat) (elems : list (V * text)) (allfix : bool) (eta : nat) :
  let root := create_block_root V F sigma true size elems allfix eta in
  has r_same (children root) = true /\ is_block_record root = true.
Proof. split; reflexivity. Qed.

End Create.
