(* PV.C04.Model — executable model of
     pharmpy/model/external/nonmem/records/theta_record.py   (ThetaRecord.inits/fixs/bounds/
         comment_names/update/remove/__len__ and the bound / parenthesis surgery helpers),
     pharmpy/model/external/nonmem/parsing.py                (parse_thetas, _fix_thetas_with_same_bounds,
         the naming loop of parse_parameters),
     pharmpy/model/external/nonmem/update.py                 (update_thetas, create_theta_record)
   mirroring the Python statement by statement on the concrete syntax trees of PV.C04.Cst.
   Python floats are an engine: they are an abstract carrier [fV] with the operations the code uses
   ([float(text)], [str(x)], [format_number], comparisons); the check instantiates them with tables
   exported from CPython, the theorems quantify over them.  No proofs in this file. *)
From Coq Require Import List NArith ZArith PArith Bool Arith.
From PV Require Import C04.Cst C04.Lcs.
Import ListNotations.
Local Open Scope nat_scope.

Record fops := mkF {
  fV : Type;                         (* finite Python floats *)
  veqb : fV -> fV -> bool;           (* == *)
  vltb : fV -> fV -> bool;           (* <  *)
  vzero : fV;                        (* 0.0 *)
  vmax : fV;                         (* 1000000.0  (MAX_UPPER_BOUND) *)
  vmin : fV;                         (* -1000000.0 (MIN_LOWER_BOUND) *)
  tokval : text -> option fV;        (* float(token.value); None = ValueError *)
  vstr : fV -> text;                 (* str(x) *)
  fmtnum : fV -> text;               (* str(int(x)) if int(x) == x else str(x) *)
  fsqrt : fV -> fV;                  (* x ** 0.5 *)
  fsq : fV -> fV                     (* x ** 2 *)
}.

Inductive err := ESyntax | EInternal.          (* ModelSyntaxError | any other exception *)
Inductive res (A : Type) := Ok (a : A) | Err (e : err).
Arguments Ok {A}. Arguments Err {A}.
Definition bind {A B} (x : res A) (f : A -> res B) : res B :=
  match x with Ok a => f a | Err e => Err e end.
Fixpoint mapM {A B} (f : A -> res B) (l : list A) : res (list B) :=
  match l with
  | [] => Ok []
  | x :: tl => bind (f x) (fun y => bind (mapM f tl) (fun ys => Ok (y :: ys)))
  end.
Definition of_opt {A} (x : option A) : res A := match x with Some a => Ok a | None => Err EInternal end.

Section Theta.
Variable F : fops.
Notation V := (fV F).

Inductive ext := MInf | Fin (v : V) | PInf.
Record param := mkP { p_init : V; p_lower : ext; p_upper : ext; p_fix : bool }.

Definition ext_eqb (a b : ext) : bool :=
  match a, b with
  | MInf, MInf | PInf, PInf => true
  | Fin x, Fin y => veqb F x y
  | _, _ => false
  end.
Definition param_eqb (a b : param) : bool :=
  veqb F (p_init a) (p_init b) && ext_eqb (p_lower a) (p_lower b) && ext_eqb (p_upper a) (p_upper b)
  && Bool.eqb (p_fix a) (p_fix b).

(* ---------------------------------------------------------------- reading a theta subtree *)
(* raw bound: None, 'neginf'/'inf', or a float *)
Inductive btok := BNone | BInf | BVal (v : V).

Definition first_token (n : node) : option node := hd_error (tokens n).

(* eval_token of the first token of a low/up subtree *)
Definition bound_token (which inf_rule : rule) (ch : list node) : res btok :=
  match find which ch with
  | None => Ok BNone
  | Some _ =>
      match subtree which ch with
      | None => Err EInternal
      | Some b =>
          if has inf_rule (children b) then Ok BInf
          else match first_token b with
               | Some (Tok r v) =>
                   if Pos.eqb r r_NUMERIC
                   then match tokval F v with Some x => Ok (BVal x) | None => Err EInternal end
                   else Err EInternal
               | _ => Err EInternal
               end
      end
  end.
Definition lower_token (ch : list node) : res btok := bound_token r_low r_NEG_INF ch.
Definition upper_token (ch : list node) : res btok := bound_token r_up r_POS_INF ch.

(* eval_token(theta.subtree('init').leaf('NUMERIC')) *)
Definition init_value (ch : list node) : res V :=
  match subtree r_init ch with
  | None => Err EInternal
  | Some i => match leaf r_NUMERIC (children i) with
              | None => Err EInternal
              | Some v => of_opt (tokval F v)
              end
  end.

(* ThetaRecord._multiple *)
Definition multiple (ch : list node) : res N :=
  match find r_n ch with
  | None => Ok 1%N
  | Some _ => match subtree r_n ch with
              | None => Err EInternal
              | Some n => match leaf r_INT (children n) with
                          | None => Err EInternal
                          | Some v => of_opt (int_of_text v)
                          end
              end
  end.

Definition rep {A} (n : N) (x : A) : list A := repeat x (N.to_nat n).

(* ThetaRecord.bounds, one theta *)
Definition theta_bounds (ch : list node) : res (list (ext * ext)) :=
  bind (lower_token ch) (fun lowtok =>
  bind (match lowtok with
        | BVal l => if veqb F l (vmin F) then Ok MInf
                    else if vltb F l (vmin F) then Err ESyntax else Ok (Fin l)
        | _ => Ok MInf
        end) (fun lower =>
  bind (upper_token ch) (fun uptok =>
  bind (match uptok with
        | BVal u => if veqb F u (vmax F) then Ok PInf
                    else if vltb F (vmax F) u then Err ESyntax else Ok (Fin u)
        | _ => Ok PInf
        end) (fun upper =>
  bind (multiple ch) (fun n => Ok (rep n (lower, upper))))))).

(* ThetaRecord.inits, one theta *)
Definition theta_inits (ch : list node) : res (list V) :=
  bind (init_value ch) (fun init =>
  if veqb F init (vmax F) || veqb F init (vmin F) then Err ESyntax
  else bind (multiple ch) (fun n => Ok (rep n init))).

Definition btok_is_val (b : btok) (v : V) : bool :=
  match b with BVal x => veqb F x v | _ => false end.
Definition btok_eqb (a b : btok) : bool :=
  match a, b with
  | BVal x, BVal y => veqb F x y
  | _, _ => false          (* 'neginf' is never equal to 'inf' or to a float *)
  end.

(* the scan over theta.children looking for the first FIX: Some true = found inside parentheses *)
Fixpoint first_fix (inparens : bool) (ch : list node) : option bool :=
  match ch with
  | [] => None
  | c :: tl =>
      if has_rule r_LPAR c then first_fix true tl
      else if has_rule r_RPAR c then first_fix false tl
      else if has_rule r_FIX c then Some inparens
      else first_fix inparens tl
  end.

(* ThetaRecord.fixs, one theta *)
Definition theta_fixs (ch : list node) : res (list bool) :=
  bind (init_value ch) (fun init =>
  bind (lower_token ch) (fun lowtok =>
  bind (upper_token ch) (fun uptok =>
  bind (match first_fix false ch with
        | None => Ok false
        | Some inparens =>
            if inparens
            then match lowtok with
                 | BNone => Ok true
                 | _ => match uptok with
                        | BNone => if btok_is_val lowtok init then Ok true else Err ESyntax
                        | _ => if btok_eqb lowtok uptok && btok_is_val uptok init then Ok true
                               else Err ESyntax
                        end
                 end
            else Ok true
        end) (fun fix =>
  if negb fix && (match uptok with BNone => true | _ => false end) && btok_is_val lowtok init
  then Err ESyntax
  else if negb fix && veqb F init (vzero F) then Err ESyntax
  else bind (multiple ch) (fun n => Ok (rep n fix)))))).

(* the direct children of the root that are theta subtrees *)
Definition thetas_of (root : node) : list node := subtrees r_theta (children root).

(* ThetaRecord.comment_names: the walk with the counter n (an int, it may go negative) *)
Fixpoint names_walk (l : list node) (intheta : bool) (n : Z) (acc : list (option text))
  : res (list (option text)) :=
  match l with
  | [] => Ok (acc ++ (if (0 <? n)%Z then repeat None (Z.to_nat n) else []))
  | c :: tl =>
      bind (if has_rule r_theta c
            then bind (multiple (children c)) (fun m =>
                   Ok (true, Z.of_N m, acc ++ (if (0 <? n)%Z then repeat None (Z.to_nat n) else [])))
            else Ok (intheta, n, acc)) (fun st =>
      let '(intheta1, n1, acc1) := st in
      if intheta1 && has_rule r_COMMENT c
      then let n2 := (n1 - 1)%Z in
           names_walk tl (if (n2 =? 0)%Z then false else intheta1) n2 (acc1 ++ [comment_name (str c)])
      else names_walk tl intheta1 n1 acc1)
  end.
Definition comment_names (root : node) : res (list (option text)) := names_walk (walk root) false 0%Z [].

(* one record as parse_thetas consumes it: bounds, then inits, then fixs, then comment_names *)
Definition record_sem (root : node) : res (list (option text * (V * (ext * ext) * bool))) :=
  let ths := map children (thetas_of root) in
  bind (mapM theta_bounds ths) (fun bs =>
  bind (mapM theta_inits ths) (fun is_ =>
  bind (mapM theta_fixs ths) (fun fs =>
  bind (comment_names root) (fun ns =>
  Ok (combine ns (combine (combine (concat is_) (concat bs)) (concat fs))))))).

(* _fix_thetas_with_same_bounds *)
Definition autofix (x : V * (ext * ext) * bool) : param :=
  let '(init, (lo, up), fx) := x in
  let same := match lo, up with
              | Fin l, Fin u => veqb F l u && veqb F u init
              | _, _ => false
              end in
  mkP init lo up (if same then true else fx).

(* the parameters of one record without names: what the record means *)
Definition sem (root : node) : res (list param) :=
  bind (record_sem root) (fun l => Ok (map (fun x => autofix (snd x)) l)).

(* ThetaRecord.__len__ *)
Definition record_len (root : node) : res N :=
  bind (mapM (fun t => multiple (children t)) (thetas_of root)) (fun ns => Ok (fold_left N.add ns 0%N)).

(* ---------------------------------------------------------------- naming (parse_parameters) *)
Fixpoint mem_text (x : text) (l : list text) : bool :=
  match l with [] => false | y :: tl => text_eqb x y || mem_text x tl end.

Definition theta_prefix : text := [84; 72; 69; 84; 65; 95]%N.     (* "THETA_" *)
Definition default_name (i : N) : text := theta_prefix ++ text_of_N i.

(* while name in all_names: name += "_"   (fuel = |all_names| + 1 suffices) *)
Fixpoint fresh (fuel : nat) (name : text) (all : list text) : text :=
  match fuel with
  | O => name
  | S f => if mem_text name all then fresh f (name ++ [95%N]) all else name
  end.

Fixpoint name_thetas (i : N) (all : list text) (l : list (option text * param)) : list (text * param) :=
  match l with
  | [] => []
  | (cn, p) :: tl =>
      let cn' := match cn with Some nm => if mem_text nm all then None else Some nm | None => None end in
      let nm := match cn' with
                | Some nm => nm
                | None => fresh (S (length all)) (default_name i) all
                end in
      (nm, p) :: name_thetas (i + 1)%N (nm :: all) tl
  end.

(* parse_thetas + the theta loop of parse_parameters: all $THETA records of a control stream *)
Definition parse_thetas (all_names : list text) (roots : list node) : res (list (text * param)) :=
  bind (mapM record_sem roots) (fun rs =>
  Ok (name_thetas 1%N all_names (map (fun x => (fst x, autofix (snd x))) (concat rs)))).

(* ---------------------------------------------------------------- surgery helpers *)
Definition ext_text (b : ext) : text :=       (* format_number *)
  match b with
  | Fin v => fmtnum F v
  | PInf => [105; 110; 102]%N                 (* "inf" *)
  | MInf => [45; 105; 110; 102]%N             (* "-inf" *)
  end.
Definition bound_node (which : rule) (b : ext) : node := Tree which [Tok r_NUMERIC (ext_text b)].

Definition add_upper_bound (ch : list node) (b : ext) : list node :=
  flat_map (fun c => if has_rule r_init c then [c; comma_tok; bound_node r_up b] else [c]) ch.
Definition add_lower_bound (ch : list node) (b : ext) : list node :=
  flat_map (fun c => if has_rule r_init c then [bound_node r_low b; comma_tok; c] else [c]) ch.

Fixpoint remove_upper_aux (in_upper : bool) (ch : list node) : list node :=
  match ch with
  | [] => []
  | c :: tl =>
      let keep := if in_upper then [] else [c] in
      let in_upper' := if has_rule r_init c then true
                       else if has_rule r_up c then false else in_upper in
      keep ++ remove_upper_aux in_upper' tl
  end.
Definition remove_upper_bound (ch : list node) : list node := remove_upper_aux false ch.

Fixpoint remove_lower_aux (in_lower : bool) (ch : list node) : list node :=
  match ch with
  | [] => []
  | c :: tl =>
      let in_lower' := if has_rule r_low c then true
                       else if has_rule r_init c then false else in_lower in
      (if in_lower' then [] else [c]) ++ remove_lower_aux in_lower' tl
  end.
Definition remove_lower_bound (ch : list node) : list node := remove_lower_aux false ch.

Definition replace_bound (which : rule) (ch : list node) (b : ext) : list node :=
  map (fun c => if has_rule which c then bound_node which b else c) ch.

Definition remove_parentheses (ch : list node) : list node :=
  filter (fun c => negb (has_rule r_LPAR c || has_rule r_RPAR c)) ch.

Definition add_parentheses (ch : list node) : list node :=
  if has r_LPAR ch then ch
  else let up := has r_up ch in
       flat_map (fun c => if has_rule r_low c then [lpar_tok; c]
                          else if (negb up && has_rule r_init c) || (up && has_rule r_up c)
                               then [c; rpar_tok] else [c]) ch.

Definition ext_ltb (a b : ext) : bool :=       (* Python float comparison a < b *)
  match a, b with
  | MInf, MInf => false | MInf, _ => true
  | Fin x, Fin y => vltb F x y | Fin _, PInf => true | Fin _, MInf => false
  | PInf, _ => false
  end.

(* _update_theta on the children of one theta; returns the new children and n *)
Definition update_theta (ch : list node) (p : param) : res (list node * N) :=
  match subtree r_init ch with
  | None => Err EInternal
  | Some init =>
      match leaf r_NUMERIC (children init) with
      | None => Err EInternal
      | Some v =>
          bind (of_opt (tokval F v)) (fun cur =>
          let init' := if veqb F cur (p_init p) then init
                       else Tree (rule_of init)
                                 (replace_first (Tok r_NUMERIC (vstr F (p_init p))) (children init)) in
          let ch1 := replace_first init' ch in
          let fix := has r_FIX ch1 in
          let ch2 := if Bool.eqb fix (p_fix p) then ch1
                     else if p_fix p then ch1 ++ [ws_tok; fix_tok] else rtas r_FIX ch1 in
          let have_up := has r_up ch2 in
          let have_low := has r_low ch2 in
          bind (multiple ch2) (fun n =>
          let need_up := ext_ltb (p_upper p) (Fin (vmax F)) in
          let ch3 := if negb have_up && need_up then add_upper_bound ch2 (p_upper p)
                     else if have_up && negb need_up then remove_upper_bound ch2
                     else replace_bound r_up ch2 (p_upper p) in
          let need_low := ext_ltb (Fin (vmin F)) (p_lower p) || need_up in
          let ch4 := if negb have_low && need_low
                     then add_parentheses (add_lower_bound ch3 (p_lower p))
                     else if have_low && negb need_low
                          then let c := remove_lower_bound ch3 in
                               if N.eqb n 1 then remove_parentheses c else c
                          else replace_bound r_low ch3 (p_lower p) in
          Ok (ch4, n)))
      end
  end.

Definition is_theta_tree (c : node) : bool := is_tree c && has_rule r_theta c.

(* ThetaRecord.update: root.map(_update_theta) with the running index i (ps = parameters[i:]) *)
Fixpoint update_children (ch : list node) (ps : list param) : res (list node) :=
  match ch with
  | [] => Ok []
  | c :: tl =>
      if is_theta_tree c
      then match ps with
           | [] => Err EInternal                       (* IndexError *)
           | p :: _ =>
               bind (update_theta (children c) p) (fun r =>
               let '(c', n) := r in
               bind (update_children tl (skipn (N.to_nat n) ps)) (fun tl' =>
               Ok (Tree r_theta c' :: tl')))
           end
      else bind (update_children tl ps) (fun tl' => Ok (c :: tl'))
  end.
Definition theta_update (root : node) (ps : list param) : res node :=
  bind (update_children (children root) ps) (fun ch => Ok (Tree (rule_of root) ch)).

(* ThetaRecord.remove(inds): the i-th child with rule theta (node index!) *)
Fixpoint remove_nodes (ch : list node) (i : nat) (inds : list nat) : list node :=
  match ch with
  | [] => []
  | c :: tl =>
      if has_rule r_theta c
      then (if memn' i inds then [] else [c]) ++ remove_nodes tl (S i) inds
      else c :: remove_nodes tl i inds
  end.
Definition theta_remove (root : node) (inds : list nat) : node :=
  match inds with
  | [] => root
  | _ => Tree (rule_of root) (remove_nodes (children root) 0 inds)
  end.

(* ---------------------------------------------------------------- create_theta_record *)
(* f'{x}' with the "== 0.0 -> 0" rule *)
Definition vstr0 (v : V) : text := if veqb F v (vzero F) then [48%N] else vstr F v.
Definition ext_str0 (b : ext) : text :=
  match b with Fin v => vstr0 v | PInf => [105; 110; 102]%N | MInf => [45; 105; 110; 102]%N end.
Definition neg_inf_tok : node := Tok r_NEG_INF [45; 73; 78; 70]%N.       (* "-INF" *)
Definition num_node (which : rule) (t : text) : node := Tree which [Tok r_NUMERIC t].

(* the tree lark + with_ignored_tokens produce for the generated text
   '$THETA  ' + body + [' FIX'] + ' ; name\n' *)
Definition create_theta_root (name : text) (p : param) : node :=
  let up_lt := ext_ltb (p_upper p) (Fin (vmax F)) in
  let low_le := negb (ext_ltb (Fin (vmin F)) (p_lower p)) in          (* lower <= -1000000 *)
  let initn := num_node r_init (vstr0 (p_init p)) in
  let body :=
    if up_lt
    then [lpar_tok;
          (if low_le then Tree r_low [neg_inf_tok] else num_node r_low (ext_str0 (p_lower p)));
          comma_tok; initn; comma_tok; num_node r_up (ext_str0 (p_upper p)); rpar_tok]
    else if low_le then [initn]
         else [lpar_tok; num_node r_low (ext_str0 (p_lower p)); comma_tok; initn; rpar_tok] in
  let th := Tree r_theta (body ++ (if p_fix p then [ws_tok; fix_tok] else [])) in
  Tree r_root [Tok r_WS [32; 32]%N; th; ws_tok; Tok r_COMMENT ([59; 32]%N ++ name); Tok r_NEWLINE [10%N]].

(* ---------------------------------------------------------------- update_thetas *)
Definition nparam := (text * param)%type.
Definition nparam_eqb (a b : nparam) : bool := text_eqb (fst a) (fst b) && param_eqb (snd a) (snd b).
Definition name_eqb (a b : nparam) : bool := text_eqb (fst a) (fst b).

Inductive recout := Kept (root : node) | Created (root : node).
Definition recout_root (r : recout) : node := match r with Kept x | Created x => x end.

(* the loop of update_thetas.  State: records still to visit (recs = theta_records[record_index:]),
   i, cur_to_change (in order), cur_to_remove (in order); output accumulated in order. *)
Fixpoint ut_loop (kept_names : list text) (d : list (op * nparam)) (recs : list node)
         (i : N) (chg : list param) (rem : list nat) : res (list recout) :=
  match d with
  | [] => Ok []
  | (o, np) :: tl =>
      let inkept := mem_text (fst np) kept_names in
      (* the body of the three branches: (emitted records, recs, i, chg, rem) *)
      bind (match o with
            | Add => if inkept then Ok ([], recs, (i + 1)%N, chg ++ [snd np], rem)
                     else Ok ([Created (create_theta_root (fst np) (snd np))], recs, i, chg, rem)
            | Del => if inkept then Ok ([], recs, i, chg, rem)
                     else Ok ([], recs, (i + 1)%N, chg, rem ++ [N.to_nat i])
            | Keep => match recs with
                      | [] => Err EInternal                 (* IndexError *)
                      | r :: recs' =>
                          bind (record_len r) (fun n =>
                          if N.eqb n 1 then Ok ([Kept r], recs', i, chg, rem)
                          else Ok ([], recs, (i + 1)%N, chg ++ [snd np], rem))
                      end
            end) (fun st =>
      let '(out, recs1, i1, chg1, rem1) := st in
      bind (match recs1 with
            | [] => Ok ([], recs1, i1, chg1, rem1)
            | r :: recs2 =>
                bind (record_len r) (fun n =>
                if N.eqb n i1
                then bind (if negb (Nat.eqb (length rem1) (N.to_nat n))
                           then bind (theta_update (theta_remove r rem1) chg1) (fun r' => Ok [Kept r'])
                           else Ok []) (fun o2 => Ok (o2, recs2, 0%N, [], []))
                else Ok ([], recs1, i1, chg1, rem1))
            end) (fun st2 =>
      let '(out2, recs3, i3, chg3, rem3) := st2 in
      bind (ut_loop kept_names tl recs3 i3 chg3 rem3) (fun rest => Ok (out ++ out2 ++ rest))))
  end.

Definition names_of (l : list nparam) : list text := map fst l.
Definition inter_names (a b : list text) : list text := filter (fun x => mem_text x b) a.

Definition update_thetas (recs : list node) (old new : list nparam) : res (list recout) :=
  let kept := inter_names (names_of old) (names_of new) in
  let d := reorder_diff name_eqb (fun p => mem_text (fst p) kept) (diff nparam_eqb old new) in
  ut_loop kept d recs 0%N [] [].

End Theta.

Arguments Fin {F}. Arguments MInf {F}. Arguments PInf {F}.
Arguments mkP {F}. Arguments p_init {F}. Arguments p_lower {F}. Arguments p_upper {F}. Arguments p_fix {F}.

