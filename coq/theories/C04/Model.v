(* PV.C04.Model — executable model of
     pharmpy/model/external/nonmem/records/theta_record.py   (ThetaRecord.inits/fixs/bounds/
         comment_names/update/remove/__len__ and the bound / parenthesis surgery helpers),
     pharmpy/model/external/nonmem/parsing.py                (parse_thetas, _fix_thetas_with_same_bounds,
         the naming loop of parse_parameters),
     pharmpy/model/external/nonmem/update.py                 (update_thetas, create_theta_record)
   mirroring the Python statement by statement on the concrete syntax trees of PV.C04.Cst.
   Python floats are an engine: they are an abstract carrier [V] with the operations the code uses
   ([float(text)], [str(x)], [format_number], comparisons); the check instantiates them with tables
   exported from CPython, the theorems quantify over them.  No proofs in this file. *)
From Coq Require Import List NArith ZArith PArith Bool Arith.
From PV Require Import C04.Cst C04.Lcs.
Import ListNotations.
Local Open Scope nat_scope.

Record fops (V : Type) := mkF {   (* V = finite Python floats *)
  veqb : V -> V -> bool;             (* == *)
  vltb : V -> V -> bool;             (* <  *)
  vzero : V;                         (* 0.0 *)
  vmax : V;                          (* 1000000.0  (MAX_UPPER_BOUND) *)
  vmin : V;                          (* -1000000.0 (MIN_LOWER_BOUND) *)
  tokval : text -> option V;         (* float(token.value); None = ValueError *)
  vstr : V -> text;                  (* str(x) *)
  fmtnum : V -> text;                (* str(int(x)) if int(x) == x else str(x) *)
  fsqrt : V -> V;                    (* x ** 0.5 *)
  fsq : V -> V                       (* x ** 2 *)
}.
Arguments veqb {V}. Arguments vltb {V}. Arguments vzero {V}. Arguments vmax {V}. Arguments vmin {V}.
Arguments tokval {V}. Arguments vstr {V}. Arguments fmtnum {V}. Arguments fsqrt {V}. Arguments fsq {V}.

Inductive err := ESyntax | EParse | EInternal.   (* ModelSyntaxError | lark refuses the text | any other exception *)
Inductive res (A : Type) := Ok (a : A) | Err (e : err).
Arguments Ok {A}. Arguments Err {A}.
Definition bind {A B} (x : res A) (f : A -> res B) : res B :=
  match x with Ok a => f a | Err e => Err e end.
Fixpoint mapM {A B} (f : A -> res B) (l : list A) : res (list B) :=
  match l with
  | [] => Ok []
  | x :: tl => bind (f x) (fun y => bind (mapM f tl) (fun ys => Ok (y :: ys)))
  end.
Definition of_opt {A} (x : option A) : res A := match x with Some a => Ok a | None => Err EInternal end.

(* the spelled text of the init / low / up token of a theta *)
Definition tok_text (which : rule) (ch : list node) : option text :=
  match find which ch with
  | Some n => match tokens n with Tok _ t :: _ => Some t | _ => None end
  | None => None
  end.

Section Theta.
Variable V : Type.
Variable F : fops V.

Inductive ext := MInf | Fin (v : V) | PInf.
Record param := mkP { p_init : V; p_lower : ext; p_upper : ext; p_fix : bool }.

Definition ext_eqb (a b : ext) : bool :=
  match a, b with
  | MInf, MInf | PInf, PInf => true
  | Fin x, Fin y => veqb F x y
  | _, _ => false
  end.
Definition param_eqb (a b : param) : bool :=
  veqb F (p_init a) (p_init b) && ext_eqb (p_lower a) (p_lower b) && ext_eqb (p_upper a) (p_upper b)
  && Bool.eqb (p_fix a) (p_fix b).

(* ---------------------------------------------------------------- reading a theta subtree *)
(* raw bound: None, 'neginf'/'inf', or a float *)
Inductive btok := BNone | BInf | BVal (v : V).

Definition first_token (n : node) : option node := hd_error (tokens n).

(* eval_token of the first token of a low/up subtree *)
Definition bound_token (which inf_rule : rule) (ch : list node) : res btok :=
  match find which ch with
  | None => Ok BNone
  | Some _ =>
      match subtree which ch with
      | None => Err EInternal
      | Some b =>
          if has inf_rule (children b) then Ok BInf
          else match first_token b with
               | Some (Tok r v) =>
                   if Pos.eqb r r_NUMERIC
                   then match tokval F v with Some x => Ok (BVal x) | None => Err EInternal end
                   else Err EInternal
               | _ => Err EInternal
               end
      end
  end.
Definition lower_token (ch : list node) : res btok := bound_token r_low r_NEG_INF ch.
Definition upper_token (ch : list node) : res btok := bound_token r_up r_POS_INF ch.

(* eval_token(theta.subtree('init').leaf('NUMERIC')) *)
Definition init_value (ch : list node) : res V :=
  match subtree r_init ch with
  | None => Err EInternal
  | Some i => match leaf r_NUMERIC (children i) with
              | None => Err EInternal
              | Some v => of_opt (tokval F v)
              end
  end.

(* ThetaRecord._multiple *)
Definition multiple (ch : list node) : res N :=
  match find r_n ch with
  | None => Ok 1%N
  | Some _ => match subtree r_n ch with
              | None => Err EInternal
              | Some n => match leaf r_INT (children n) with
                          | None => Err EInternal
                          | Some v => of_opt (int_of_text v)
                          end
              end
  end.

Definition rep {A} (n : N) (x : A) : list A := repeat x (N.to_nat n).

(* ThetaRecord.bounds, one theta *)
Definition theta_bounds (ch : list node) : res (list (ext * ext)) :=
  bind (lower_token ch) (fun lowtok =>
  bind (match lowtok with
        | BVal l => if veqb F l (vmin F) then Ok MInf
                    else if vltb F l (vmin F) then Err ESyntax else Ok (Fin l)
        | _ => Ok MInf
        end) (fun lower =>
  bind (upper_token ch) (fun uptok =>
  bind (match uptok with
        | BVal u => if veqb F u (vmax F) then Ok PInf
                    else if vltb F (vmax F) u then Err ESyntax else Ok (Fin u)
        | _ => Ok PInf
        end) (fun upper =>
  bind (multiple ch) (fun n => Ok (rep n (lower, upper))))))).

(* ThetaRecord.inits, one theta *)
Definition theta_inits (ch : list node) : res (list V) :=
  bind (init_value ch) (fun init =>
  if veqb F init (vmax F) || veqb F init (vmin F) then Err ESyntax
  else bind (multiple ch) (fun n => Ok (rep n init))).

Definition btok_is_val (b : btok) (v : V) : bool :=
  match b with BVal x => veqb F x v | _ => false end.
Definition btok_eqb (a b : btok) : bool :=
  match a, b with
  | BVal x, BVal y => veqb F x y
  | _, _ => false          (* 'neginf' is never equal to 'inf' or to a float *)
  end.

(* the scan over theta.children looking for the first FIX: Some true = found inside parentheses *)
Fixpoint first_fix (inparens : bool) (ch : list node) : option bool :=
  match ch with
  | [] => None
  | c :: tl =>
      if has_rule r_LPAR c then first_fix true tl
      else if has_rule r_RPAR c then first_fix false tl
      else if has_rule r_FIX c then Some inparens
      else first_fix inparens tl
  end.

(* ThetaRecord.fixs, one theta *)
Definition theta_fixs (ch : list node) : res (list bool) :=
  bind (init_value ch) (fun init =>
  bind (lower_token ch) (fun lowtok =>
  bind (upper_token ch) (fun uptok =>
  bind (match first_fix false ch with
        | None => Ok false
        | Some inparens =>
            if inparens
            then match lowtok with
                 | BNone => Ok true
                 | _ => match uptok with
                        | BNone => if btok_is_val lowtok init then Ok true else Err ESyntax
                        | _ => if btok_eqb lowtok uptok && btok_is_val uptok init then Ok true
                               else Err ESyntax
                        end
                 end
            else Ok true
        end) (fun fx =>
  if negb fx && (match uptok with BNone => true | _ => false end) && btok_is_val lowtok init
  then Err ESyntax
  else if negb fx && veqb F init (vzero F) then Err ESyntax
  else bind (multiple ch) (fun n => Ok (rep n fx)))))).

(* the direct children of the root that are theta subtrees *)
Definition thetas_of (root : node) : list node := subtrees r_theta (children root).

(* ThetaRecord.comment_names: the walk with the counter n (an int, it may go negative) *)
Fixpoint names_walk (l : list node) (intheta : bool) (n : Z) (acc : list (option text))
  : res (list (option text)) :=
  match l with
  | [] => Ok (acc ++ (if (0 <? n)%Z then repeat None (Z.to_nat n) else []))
  | c :: tl =>
      bind (if has_rule r_theta c
            then bind (multiple (children c)) (fun m =>
                   Ok (true, Z.of_N m, acc ++ (if (0 <? n)%Z then repeat None (Z.to_nat n) else [])))
            else Ok (intheta, n, acc)) (fun st =>
      let '(intheta1, n1, acc1) := st in
      if intheta1 && has_rule r_COMMENT c
      then let n2 := (n1 - 1)%Z in
           names_walk tl (if (n2 =? 0)%Z then false else intheta1) n2 (acc1 ++ [comment_name (str c)])
      else names_walk tl intheta1 n1 acc1)
  end.
Definition comment_names (root : node) : res (list (option text)) := names_walk (walk root) false 0%Z [].

(* one record as parse_thetas consumes it: bounds, then inits, then fixs, then comment_names *)
Definition record_values (root : node) : res (list (V * (ext * ext) * bool)) :=
  let ths := map children (thetas_of root) in
  bind (mapM theta_bounds ths) (fun bs =>
  bind (mapM theta_inits ths) (fun is_ =>
  bind (mapM theta_fixs ths) (fun fs =>
  Ok (combine (combine (concat is_) (concat bs)) (concat fs))))).
Definition record_sem (root : node) : res (list (option text * (V * (ext * ext) * bool))) :=
  bind (record_values root) (fun vs =>
  bind (comment_names root) (fun ns => Ok (combine ns vs))).

(* _fix_thetas_with_same_bounds *)
Definition autofix (x : V * (ext * ext) * bool) : param :=
  let '(init, (lo, up), fx) := x in
  let same := match lo, up with
              | Fin l, Fin u => veqb F l u && veqb F u init
              | _, _ => false
              end in
  mkP init lo up (if same then true else fx).

(* the parameters of one record without names: what the record means *)
Definition sem (root : node) : res (list param) :=
  bind (record_values root) (fun l => Ok (map autofix l)).

(* ThetaRecord.__len__ *)
Definition record_len (root : node) : res N :=
  bind (mapM (fun t => multiple (children t)) (thetas_of root)) (fun ns => Ok (fold_left N.add ns 0%N)).

(* ---------------------------------------------------------------- naming (parse_parameters) *)
Fixpoint mem_text (x : text) (l : list text) : bool :=
  match l with [] => false | y :: tl => text_eqb x y || mem_text x tl end.

Definition theta_prefix : text := [84; 72; 69; 84; 65; 95]%N.     (* "THETA_" *)
Definition default_name (i : N) : text := theta_prefix ++ text_of_N i.

(* while name in all_names: name += "_"   (fuel = |all_names| + 1 suffices) *)
Fixpoint fresh (fuel : nat) (name : text) (all : list text) : text :=
  match fuel with
  | O => name
  | S f => if mem_text name all then fresh f (name ++ [95%N]) all else name
  end.

Fixpoint name_thetas (i : N) (all : list text) (l : list (option text * param)) : list (text * param) :=
  match l with
  | [] => []
  | (cn, p) :: tl =>
      let cn' := match cn with Some nm => if mem_text nm all then None else Some nm | None => None end in
      let nm := match cn' with
                | Some nm => nm
                | None => fresh (S (length all)) (default_name i) all
                end in
      (nm, p) :: name_thetas (i + 1)%N (nm :: all) tl
  end.

(* parse_thetas + the theta loop of parse_parameters: all $THETA records of a control stream *)
Definition parse_thetas (all_names : list text) (roots : list node) : res (list (text * param)) :=
  bind (mapM record_sem roots) (fun rs =>
  Ok (name_thetas 1%N all_names (map (fun x => (fst x, autofix (snd x))) (concat rs)))).

(* ---------------------------------------------------------------- surgery helpers *)
Definition ext_text (b : ext) : text :=       (* format_number *)
  match b with
  | Fin v => fmtnum F v
  | PInf => [105; 110; 102]%N                 (* "inf" *)
  | MInf => [45; 105; 110; 102]%N             (* "-inf" *)
  end.
Definition bound_node (which : rule) (b : ext) : node := Tree which [Tok r_NUMERIC (ext_text b)].

Definition add_upper_bound (ch : list node) (b : ext) : list node :=
  flat_map (fun c => if has_rule r_init c then [c; comma_tok; bound_node r_up b] else [c]) ch.
Definition add_lower_bound (ch : list node) (b : ext) : list node :=
  flat_map (fun c => if has_rule r_init c then [bound_node r_low b; comma_tok; c] else [c]) ch.

Fixpoint remove_upper_aux (in_upper : bool) (ch : list node) : list node :=
  match ch with
  | [] => []
  | c :: tl =>
      let keep := if in_upper then [] else [c] in
      let in_upper' := if has_rule r_init c then true
                       else if has_rule r_up c then false else in_upper in
      keep ++ remove_upper_aux in_upper' tl
  end.
Definition remove_upper_bound (ch : list node) : list node := remove_upper_aux false ch.

Fixpoint remove_lower_aux (in_lower : bool) (ch : list node) : list node :=
  match ch with
  | [] => []
  | c :: tl =>
      let in_lower' := if has_rule r_low c then true
                       else if has_rule r_init c then false else in_lower in
      (if in_lower' then [] else [c]) ++ remove_lower_aux in_lower' tl
  end.
Definition remove_lower_bound (ch : list node) : list node := remove_lower_aux false ch.

Definition replace_bound (which : rule) (ch : list node) (b : ext) : list node :=
  map (fun c => if has_rule which c then bound_node which b else c) ch.

Definition remove_parentheses (ch : list node) : list node :=
  filter (fun c => negb (has_rule r_LPAR c || has_rule r_RPAR c)) ch.

Definition add_parentheses (ch : list node) : list node :=
  if has r_LPAR ch then ch
  else let up := has r_up ch in
       flat_map (fun c => if has_rule r_low c then [lpar_tok; c]
                          else if (negb up && has_rule r_init c) || (up && has_rule r_up c)
                               then [c; rpar_tok] else [c]) ch.

Definition ext_ltb (a b : ext) : bool :=       (* Python float comparison a < b *)
  match a, b with
  | MInf, MInf => false | MInf, _ => true
  | Fin x, Fin y => vltb F x y | Fin _, PInf => true | Fin _, MInf => false
  | PInf, _ => false
  end.

(* _update_theta on the children of one theta, in the order of the Python statements *)
Definition new_init_node (init : node) (p : param) (cur : V) : node :=
  if veqb F cur (p_init p) then init
  else Tree (rule_of init) (replace_first (Tok r_NUMERIC (vstr F (p_init p))) (children init)).

Definition step_fix (ch1 : list node) (p : param) : list node :=
  if Bool.eqb (has r_FIX ch1) (p_fix p) then ch1
  else if p_fix p then ch1 ++ [ws_tok; fix_tok] else rtas r_FIX ch1.

Definition p_need_up (p : param) : bool := ext_ltb (p_upper p) (Fin (vmax F)).      (* param.upper < 1000000 *)
Definition p_need_low (p : param) : bool := ext_ltb (Fin (vmin F)) (p_lower p) || p_need_up p.

Definition step_up (ch2 : list node) (p : param) : list node :=     (* "if up != param.upper": always true *)
  let have_up := has r_up ch2 in
  if negb have_up && p_need_up p then add_upper_bound ch2 (p_upper p)
  else if have_up && negb (p_need_up p) then remove_upper_bound ch2
  else replace_bound r_up ch2 (p_upper p).

Definition step_low (ch3 : list node) (p : param) (n : N) (have_low : bool) : list node :=
  if negb have_low && p_need_low p then add_parentheses (add_lower_bound ch3 (p_lower p))
  else if have_low && negb (p_need_low p)
       then let c := remove_lower_bound ch3 in if N.eqb n 1 then remove_parentheses c else c
       else replace_bound r_low ch3 (p_lower p).

Definition update_theta (ch : list node) (p : param) : res (list node * N) :=
  match subtree r_init ch with
  | None => Err EInternal
  | Some init =>
      match leaf r_NUMERIC (children init) with
      | None => Err EInternal
      | Some v =>
          bind (of_opt (tokval F v)) (fun cur =>
          let ch1 := replace_first (new_init_node init p cur) ch in
          let ch2 := step_fix ch1 p in
          bind (multiple ch2) (fun n =>
          Ok (step_low (step_up ch2 p) p n (has r_low ch2), n)))
      end
  end.

Definition is_theta_tree (c : node) : bool := is_tree c && has_rule r_theta c.

(* ThetaRecord.update: root.map(_update_theta) with the running index i (ps = parameters[i:]) *)
Fixpoint update_children (ch : list node) (ps : list param) : res (list node) :=
  match ch with
  | [] => Ok []
  | c :: tl =>
      if is_theta_tree c
      then match ps with
           | [] => Err EInternal                       (* IndexError *)
           | p :: _ =>
               bind (update_theta (children c) p) (fun r =>
               let '(c', n) := r in
               bind (update_children tl (skipn (N.to_nat n) ps)) (fun tl' =>
               Ok (Tree r_theta c' :: tl')))
           end
      else bind (update_children tl ps) (fun tl' => Ok (c :: tl'))
  end.
Definition theta_update (root : node) (ps : list param) : res node :=
  bind (update_children (children root) ps) (fun ch => Ok (Tree (rule_of root) ch)).

(* ThetaRecord.remove(inds): the i-th child with rule theta (node index!) *)
Fixpoint remove_nodes (ch : list node) (i : nat) (inds : list nat) : list node :=
  match ch with
  | [] => []
  | c :: tl =>
      if has_rule r_theta c
      then (if memn' i inds then [] else [c]) ++ remove_nodes tl (S i) inds
      else c :: remove_nodes tl i inds
  end.
Definition theta_remove (root : node) (inds : list nat) : node :=
  match inds with
  | [] => root
  | _ => Tree (rule_of root) (remove_nodes (children root) 0 inds)
  end.

(* ---------------------------------------------------------------- create_theta_record *)
(* f'{x}' with the "== 0.0 -> 0" rule *)
Definition vstr0 (v : V) : text := if veqb F v (vzero F) then [48%N] else vstr F v.
Definition ext_str0 (b : ext) : text :=
  match b with Fin v => vstr0 v | PInf => [105; 110; 102]%N | MInf => [45; 105; 110; 102]%N end.
Definition neg_inf_tok : node := Tok r_NEG_INF [45; 73; 78; 70]%N.       (* "-INF" *)
Definition num_node (which : rule) (t : text) : node := Tree which [Tok r_NUMERIC t].

(* the tree lark + with_ignored_tokens produce for the generated text
   '$THETA  ' + body + [' FIX'] + ' ; name\n' *)
Definition create_theta_root (name : text) (p : param) : node :=
  let up_lt := ext_ltb (p_upper p) (Fin (vmax F)) in
  let low_le := negb (ext_ltb (Fin (vmin F)) (p_lower p)) in          (* lower <= -1000000 *)
  let initn := num_node r_init (vstr0 (p_init p)) in
  let body :=
    if up_lt
    then [lpar_tok;
          (if low_le then Tree r_low [neg_inf_tok] else num_node r_low (ext_str0 (p_lower p)));
          comma_tok; initn; comma_tok; num_node r_up (ext_str0 (p_upper p)); rpar_tok]
    else if low_le then [initn]
         else [lpar_tok; num_node r_low (ext_str0 (p_lower p)); comma_tok; initn; rpar_tok] in
  let th := Tree r_theta (body ++ (if p_fix p then [ws_tok; fix_tok] else [])) in
  Tree r_root [Tok r_WS [32; 32]%N; th; ws_tok; Tok r_COMMENT ([59; 32]%N ++ name); Tok r_NEWLINE [10%N]].

(* ---------------------------------------------------------------- update_thetas *)
Definition nparam := (text * param)%type.
Definition nparam_eqb (a b : nparam) : bool := text_eqb (fst a) (fst b) && param_eqb (snd a) (snd b).
Definition name_eqb (a b : nparam) : bool := text_eqb (fst a) (fst b).

(* what update_thetas decides to do, in order; [run_action] then does it *)
Inductive action :=
| AKeep (root : node)                                  (* record appended unchanged *)
| ACreate (name : text) (p : param)                    (* create_theta_record(param) *)
| AUpdate (root : node) (rem : list nat) (chg : list param).   (* record.remove(rem).update(chg) *)

(* the loop of update_thetas.  State: records still to visit (recs = theta_records[record_index:]),
   i, cur_to_change (in order), cur_to_remove (in order). *)
Fixpoint ut_loop (kept_names : list text) (d : list (op * nparam)) (recs : list node)
         (i : N) (chg : list param) (rem : list nat) : res (list action) :=
  match d with
  | [] => Ok []
  | (o, np) :: tl =>
      let inkept := mem_text (fst np) kept_names in
      bind (match o with
            | Add => if inkept then Ok ([], recs, (i + 1)%N, chg ++ [snd np], rem)
                     else Ok ([ACreate (fst np) (snd np)], recs, i, chg, rem)
            | Del => if inkept then Ok ([], recs, i, chg, rem)
                     else Ok ([], recs, (i + 1)%N, chg, rem ++ [N.to_nat i])
            | Keep => match recs with
                      | [] => Err EInternal                 (* IndexError *)
                      | r :: recs' =>
                          bind (record_len r) (fun n =>
                          if N.eqb n 1 then Ok ([AKeep r], recs', i, chg, rem)
                          else Ok ([], recs, (i + 1)%N, chg ++ [snd np], rem))
                      end
            end) (fun st =>
      let '(out, recs1, i1, chg1, rem1) := st in
      bind (match recs1 with
            | [] => Ok ([], recs1, i1, chg1, rem1)
            | r :: recs2 =>
                bind (record_len r) (fun n =>
                if N.eqb n i1
                then Ok ((if negb (Nat.eqb (length rem1) (N.to_nat n)) then [AUpdate r rem1 chg1] else []),
                         recs2, 0%N, [], [])
                else Ok ([], recs1, i1, chg1, rem1))
            end) (fun st2 =>
      let '(out2, recs3, i3, chg3, rem3) := st2 in
      bind (ut_loop kept_names tl recs3 i3 chg3 rem3) (fun rest => Ok (out ++ out2 ++ rest))))
  end.

Definition names_of (l : list nparam) : list text := map fst l.
Definition inter_names (a b : list text) : list text := filter (fun x => mem_text x b) a.

Definition ut_plan (recs : list node) (old new : list nparam) : res (list action) :=
  let kept := inter_names (names_of old) (names_of new) in
  let d := reorder_diff name_eqb (fun p => mem_text (fst p) kept) (diff nparam_eqb old new) in
  ut_loop kept d recs 0%N [] [].

Definition run_action (a : action) : res node :=
  match a with
  | AKeep r => Ok r
  | ACreate nm p => Ok (create_theta_root nm p)
  | AUpdate r rem chg => theta_update (theta_remove r rem) chg
  end.

Definition update_thetas (recs : list node) (old new : list nparam) : res (list node) :=
  bind (ut_plan recs old new) (mapM run_action).

End Theta.

Arguments Fin {V}. Arguments MInf {V}. Arguments PInf {V}.
Arguments mkP {V}. Arguments p_init {V}. Arguments p_lower {V}. Arguments p_upper {V}. Arguments p_fix {V}.
Arguments BNone {V}. Arguments BInf {V}. Arguments BVal {V}.
Arguments AKeep {V}. Arguments ACreate {V}. Arguments AUpdate {V}.


(* ================================================================================================
   What re-reading the regenerated text yields, as far as pharmpy's own logic goes: the lexer
   classifies a bound written as "-inf"/"inf"/"-1000000"/"1000000" as NEG_INF/POS_INF (relex);
   lark + with_ignored_tokens never leave white space or comments at the edges of a subtree (hoist);
   the theta grammar and the observed lexer quirk decide acceptance (reparse_ok).
   ================================================================================================ *)
Section Reread.
Variable V : Type.
Variable F : fops V.

Definition lower_ascii (c : N) : N := if ((65 <=? c) && (c <=? 90))%N then (c + 32)%N else c.
Definition text_ieqb (a b : text) : bool := text_eqb (map lower_ascii a) (map lower_ascii b).
Definition neg_inf_spelling (t : text) : bool :=
  text_ieqb t [45; 105; 110; 102]%N || text_eqb t [45; 49; 48; 48; 48; 48; 48; 48]%N.
Definition pos_inf_spelling (t : text) : bool :=
  text_ieqb t [105; 110; 102]%N || text_eqb t [49; 48; 48; 48; 48; 48; 48]%N.

Definition relex_bound (n : node) : node :=
  match n with
  | Tree r [Tok r' t] =>
      if Pos.eqb r r_low && Pos.eqb r' r_NUMERIC && neg_inf_spelling t then Tree r [Tok r_NEG_INF t]
      else if Pos.eqb r r_up && Pos.eqb r' r_NUMERIC && pos_inf_spelling t then Tree r [Tok r_POS_INF t]
      else n
  | _ => n
  end.
Definition relex_theta (n : node) : node :=
  match n with
  | Tree r ch => if Pos.eqb r r_theta then Tree r (map relex_bound ch) else n
  | _ => n
  end.
Definition relex (root : node) : node :=
  match root with Tree r ch => Tree r (map relex_theta ch) | _ => root end.

Definition is_trivia (c : node) : bool :=
  has_rule r_WS c || has_rule r_COMMENT c || has_rule r_NEWLINE c.

(* leading / trailing trivia of a theta node belong to the root *)
Fixpoint span_trivia (l : list node) : list node * list node :=
  match l with
  | c :: tl => if is_trivia c then let '(a, b) := span_trivia tl in (c :: a, b) else ([], l)
  | [] => ([], [])
  end.
Definition hoist_theta (n : node) : list node :=
  match n with
  | Tree r ch =>
      if Pos.eqb r r_theta
      then let '(pre, rest) := span_trivia ch in
           let '(post_r, core_r) := span_trivia (rev rest) in
           pre ++ [Tree r (rev core_r)] ++ rev post_r
      else [n]
  | _ => [n]
  end.
Definition hoist (root : node) : node :=
  match root with Tree r ch => Tree r (flat_map hoist_theta ch) | _ => root end.

(* ---- the theta grammar on the labelled skeleton (children without trivia, as rules) ---------- *)
Definition skeleton (ch : list node) : list rule := map rule_of (filter (fun c => negb (is_trivia c)) ch).

Fixpoint strip_fix (l : list rule) : list rule :=
  match l with r :: tl => if Pos.eqb r r_FIX then strip_fix tl else l | [] => [] end.
Fixpoint rules_eqb (a b : list rule) : bool :=
  match a, b with
  | [], [] => true
  | x :: a', y :: b' => Pos.eqb x y && rules_eqb a' b'
  | _, _ => false
  end.
Definition gram_close (l : list rule) : bool :=       (* _rpar _after? *)
  match l with
  | r :: a => Pos.eqb r r_RPAR && (rules_eqb a [] || rules_eqb a [r_n] || rules_eqb a [r_FIX])
  | [] => false
  end.
Definition after_init (l : list rule) : bool :=     (* after "init": _fixes? then the rest of _rest *)
  let t := strip_fix l in
  match t with
  | r :: t' =>
      if Pos.eqb r r_COMMA
      then match strip_fix t' with
           | r2 :: t2 => if Pos.eqb r2 r_up then gram_close (strip_fix t2) else gram_close t'
           | [] => false
           end
      else if Pos.eqb r r_up then gram_close (strip_fix t') else gram_close t
  | [] => false
  end.
Definition theta_gram (sk : list rule) : bool :=
  match sk with
  | r :: tl =>
      if Pos.eqb r r_init then rules_eqb tl [] || rules_eqb tl [r_FIX]
      else if Pos.eqb r r_LPAR
      then match strip_fix tl with
           | r1 :: t1 =>
               if Pos.eqb r1 r_init then gram_close (strip_fix t1)
               else if Pos.eqb r1 r_low
               then let t2 := strip_fix t1 in
                    match t2 with
                    | c1 :: c2 :: t3 =>
                        if Pos.eqb c1 r_COMMA && Pos.eqb c2 r_COMMA
                        then match strip_fix t3 with
                             | u :: t4 => Pos.eqb u r_up && gram_close (strip_fix t4)
                             | [] => false
                             end
                        else if Pos.eqb c1 r_COMMA
                             then match strip_fix (c2 :: t3) with
                                  | i :: t4 => Pos.eqb i r_init && after_init t4
                                  | [] => false
                                  end
                             else Pos.eqb c1 r_init && after_init (c2 :: t3)
                    | _ => false
                    end
               else false
           | [] => false
           end
      else false
  | [] => false
  end.

(* ---- lexer adjacency: the flattened leaves with their parent rule --------------------------- *)
Fixpoint leaves_p (parent : rule) (n : node) : list (rule * rule * text) :=
  match n with
  | Tok r v => [(parent, r, v)]
  | Tree r ch => flat_map (leaves_p r) ch
  end.
Definition is_numeric_rule (r : rule) : bool :=
  Pos.eqb r r_NUMERIC || Pos.eqb r r_INT || Pos.eqb r r_NEG_INF || Pos.eqb r r_POS_INF.
Definition starts_numeric_char (t : text) : bool :=
  match t with c :: _ => is_digit c || (c =? 46)%N | [] => false end.

(* adjacency the lexer cares about: a numeric token must not be glued to a following digit or "."
   (the former quirk - ")x2" / ")FIX" lexed as one VALUE token after a two-value form - was removed from
   the grammar by the fix for C01-THETA-XN-REFUSED, commit bd27e55: VALUE may no longer start with ")") *)
Fixpoint glue_scan (l : list (rule * rule * text)) : bool :=
  match l with
  | [] => true
  | (p, r, v) :: tl =>
      let next_text := match tl with (_, _, v') :: _ => v' | [] => [] end in
      (if is_numeric_rule r then negb (starts_numeric_char next_text) else true) && glue_scan tl
  end.

Definition reparse_ok (root : node) : bool :=
  forallb (fun t => theta_gram (skeleton (children t))) (thetas_of root)
  && glue_scan (leaves_p r_root root).

(* the theta parameters (with names) pharmpy reads back from the text of these record trees *)
Definition reread (all_names : list text) (roots : list node) : res (list (text * param V)) :=
  if forallb reparse_ok roots
  then parse_thetas V F all_names (map (fun r => hoist (relex r)) roots)
  else Err EParse.

End Reread.

(* ================================================================================================
   Guards: executable conditions on the INPUT of an update (record tree + new parameters) under
   which the property theorems are stated.  Conjuncts that exist because the code fails have a
   _refuted theorem in Refuted.v; the others describe parameters NONMEM / pharmpy's reader cannot
   represent.
   ================================================================================================ *)
Section Guards.
Variable V : Type.
Variable F : fops V.

(* ---- plain layout of one theta: the children without white space are exactly
        init [FIX]   |   ( [low ,] init [, up] ) [FIX | x n]                                       *)
Inductive close := CNone | CFix (t : text) | CN (tx ti : text) | CNFix (tx ti tf : text).
Inductive shape :=
| SBare (ti : text) (fx : option text)
| SPar (tl : text) (lo : option (rule * text * text)) (ti : text) (up : option (text * rule * text))
       (tr : text) (cl : close).

Definition n_node (tx ti : text) : node := Tree r_n [Tok r_X tx; Tok r_INT ti].
Definition enc_close (cl : close) : list node :=
  match cl with
  | CNone => []
  | CFix t => [Tok r_FIX t]
  | CN tx ti => [n_node tx ti]
  | CNFix tx ti tf => [n_node tx ti; Tok r_FIX tf]
  end.
Definition enc_lo (lo : option (rule * text * text)) : list node :=
  match lo with Some (r, t, tc) => [Tree r_low [Tok r t]; Tok r_COMMA tc] | None => [] end.
Definition enc_up (up : option (text * rule * text)) : list node :=
  match up with Some (tc, r, t) => [Tok r_COMMA tc; Tree r_up [Tok r t]] | None => [] end.
Definition encode (s : shape) : list node :=
  match s with
  | SBare ti fx => Tree r_init [Tok r_NUMERIC ti] :: match fx with Some t => [Tok r_FIX t] | None => [] end
  | SPar tl lo ti up tr cl =>
      Tok r_LPAR tl :: enc_lo lo ++ Tree r_init [Tok r_NUMERIC ti] :: enc_up up ++ Tok r_RPAR tr :: enc_close cl
  end.

Definition take_tok (r : rule) (l : list node) : option (text * list node) :=
  match l with
  | Tok r' t :: tl => if Pos.eqb r' r then Some (t, tl) else None
  | _ => None
  end.
Definition take_lab (lab : rule) (l : list node) : option (rule * text * list node) :=
  match l with
  | Tree r' [Tok rn t] :: tl => if Pos.eqb r' lab then Some (rn, t, tl) else None
  | _ => None
  end.
Definition dec_n (c : node) : option (text * text) :=
  match c with
  | Tree r [Tok r1 tx; Tok r2 ti] =>
      if Pos.eqb r r_n && Pos.eqb r1 r_X && Pos.eqb r2 r_INT then Some (tx, ti) else None
  | _ => None
  end.
Definition dec_close (l : list node) : option close :=
  match l with
  | [] => Some CNone
  | [c] => match take_tok r_FIX [c] with
           | Some (t, _) => Some (CFix t)
           | None => match dec_n c with Some (tx, ti) => Some (CN tx ti) | None => None end
           end
  | [c; d] => match dec_n c, take_tok r_FIX [d] with
              | Some (tx, ti), Some (tf, _) => Some (CNFix tx ti tf)
              | _, _ => None
              end
  | _ => None
  end.
Definition dec_lo (l : list node) : option (option (rule * text * text) * list node) :=
  match take_lab r_low l with
  | Some (rl, tlow, l2) => match take_tok r_COMMA l2 with
                           | Some (tc, l3) => Some (Some (rl, tlow, tc), l3)
                           | None => None
                           end
  | None => Some (None, l)
  end.
Definition dec_up (l : list node) : option (option (text * rule * text) * list node) :=
  match take_tok r_COMMA l with
  | Some (tc, l2) => match take_lab r_up l2 with
                     | Some (ru, tu, l3) => Some (Some (tc, ru, tu), l3)
                     | None => None
                     end
  | None => Some (None, l)
  end.
Definition decode (l : list node) : option shape :=
  match take_lab r_init l with
  | Some (rn, ti, tl) =>
      if Pos.eqb rn r_NUMERIC
      then match tl with
           | [] => Some (SBare ti None)
           | _ => match take_tok r_FIX tl with
                  | Some (t, []) => Some (SBare ti (Some t))
                  | _ => None
                  end
           end
      else None
  | None =>
      match take_tok r_LPAR l with
      | None => None
      | Some (tlp, l1) =>
          match dec_lo l1 with
          | None => None
          | Some (lo, l3) =>
              match take_lab r_init l3 with
              | Some (rn, ti, l4) =>
                  if Pos.eqb rn r_NUMERIC
                  then match dec_up l4 with
                       | None => None
                       | Some (up, l6) =>
                           match take_tok r_RPAR l6 with
                           | Some (tr, l7) => match dec_close l7 with
                                              | Some cl => Some (SPar tlp lo ti up tr cl)
                                              | None => None
                                              end
                           | None => None
                           end
                       end
                  else None
              | None => None
              end
          end
      end
  end.

Definition isSome {A} (x : option A) : bool := match x with Some _ => true | None => false end.
Definition bound_tok_ok (inf_rule : rule) (r : rule) (t : text) : bool :=
  Pos.eqb r r_NUMERIC || Pos.eqb r inf_rule.        (* update never reads the old bound values *)
Definition close_n (cl : close) : option N :=
  match cl with
  | CNone | CFix _ => Some 1%N
  | CN _ ti | CNFix _ ti _ => int_of_text ti
  end.
Definition close_ok (cl : close) : bool :=
  match cl with
  | CNone | CFix _ => true
  | CN _ ti => match int_of_text ti with Some n => (2 <=? n)%N | None => false end
  | CNFix _ _ _ => false
  end.
Definition shape_ok (s : shape) : bool :=
  match s with
  | SBare ti _ => isSome (tokval F ti)
  | SPar _ lo ti up _ cl =>
      isSome (tokval F ti)
      && match lo with Some (r, t, _) => bound_tok_ok r_NEG_INF r t | None => true end
      && match up with Some (_, r, t) => bound_tok_ok r_POS_INF r t && isSome lo | None => true end
      && close_ok cl
  end.

Definition nt (ch : list node) : list node := filter (fun c => negb (is_trivia c)) ch.

Definition plain_theta (ch : list node) : bool :=
  forallb (fun c => negb (has_rule r_COMMENT c)) ch
  && match decode (nt ch) with Some s => shape_ok s | None => false end.

(* ---- representable parameters ---------------------------------------------------------------- *)
Definition g_repr (p : param V) : bool :=
  negb (veqb F (p_init p) (vmax F)) && negb (veqb F (p_init p) (vmin F))
  && match p_lower p with MInf => true | Fin l => vltb F (vmin F) l | PInf => false end
  && match p_upper p with PInf => true | Fin u => vltb F u (vmax F) | MInf => false end
  && (p_fix p || negb (veqb F (p_init p) (vzero F)))
  && (p_fix p || negb (match p_lower p, p_upper p with
                       | Fin l, PInf => veqb F l (p_init p)
                       | Fin l, Fin u => veqb F l u && veqb F u (p_init p)
                       | _, _ => false
                       end)).

(* ---- one theta with its group of parameters -------------------------------------------------- *)
Definition need_up (p : param V) : bool := p_need_up V F p.
Definition need_low (p : param V) : bool := p_need_low V F p.

Definition g_xn_uniform (grp : list (param V)) : bool :=
  match grp with [] => false | p :: tl => forallb (param_eqb V F p) tl end.
Definition g_xn_nofix (ch : list node) (n : N) (p : param V) : bool :=
  N.eqb n 1 || negb (p_fix p) || has r_FIX ch.
Definition guard_theta (ch : list node) (n : N) (grp : list (param V)) : bool :=
  match grp with
  | [] => false
  | p :: _ =>
      plain_theta ch && Nat.eqb (length grp) (N.to_nat n) && g_xn_uniform grp
      && g_xn_nofix ch n p && g_repr p
  end.

Fixpoint guard_children (ch : list node) (ps : list (param V)) : bool :=
  match ch with
  | [] => match ps with [] => true | _ => false end
  | c :: tl =>
      if is_theta_tree c
      then match multiple (children c) with
           | Ok n => guard_theta (children c) n (firstn (N.to_nat n) ps)
                     && guard_children tl (skipn (N.to_nat n) ps)
           | Err _ => false
           end
      else guard_children tl ps
  end.
Definition guard_record (root : node) (ps : list (param V)) : bool := guard_children (children root) ps.

(* which conjunct fails (for classification): 1 plain, 2 xn_uniform, 3 xn_nofix, 5 repr, 6 count
   (4 was g_spaced, needed until the grammar fix bd27e55) *)
Fixpoint guard_fail_children (ch : list node) (ps : list (param V)) : list nat :=
  match ch with
  | [] => match ps with [] => [] | _ => [6] end
  | c :: tl =>
      if is_theta_tree c
      then match multiple (children c) with
           | Ok n =>
               let grp := firstn (N.to_nat n) ps in
               let k := children c in
               (if plain_theta k then [] else [1])
               ++ (if Nat.eqb (length grp) (N.to_nat n) then [] else [6])
               ++ (if g_xn_uniform grp then [] else [2])
               ++ match grp with
                  | p :: _ => (if g_xn_nofix k n p then [] else [3])
                              ++ (if forallb g_repr grp then [] else [5])
                  | [] => []
                  end
               ++ guard_fail_children tl (skipn (N.to_nat n) ps)
           | Err _ => [6]
           end
      else guard_fail_children tl ps
  end.

(* ---- spelling: a bound token that stays is already spelled the way format_number spells it ----- *)
Definition canon_bound (which : rule) (ch : list node) (p : param V) : bool :=
  match find which ch with
  | None => true
  | Some (Tree _ [Tok r t]) =>
      let v := if Pos.eqb r r_NUMERIC then tokval F t else None in
      let finite := match v with
                    | Some x => negb (veqb F x (if Pos.eqb which r_low then vmin F else vmax F))
                    | None => false
                    end in
      match v with
      | Some x => if finite then text_eqb t (fmtnum F x)
                  else (* an infinite bound: dropped, or (a lower next to a finite upper) respelled "-inf" *)
                       negb (Pos.eqb which r_low && need_up p) || text_eqb t [45; 105; 110; 102]%N
      | None => negb (Pos.eqb which r_low && need_up p) || text_eqb t [45; 105; 110; 102]%N
      end
  | Some _ => false
  end.
Definition canon_bounds (ch : list node) (p : param V) : bool :=
  canon_bound r_low ch p && canon_bound r_up ch p.
Fixpoint canon_children (ch : list node) (ps : list (param V)) : bool :=
  match ch with
  | [] => true
  | c :: tl =>
      if is_theta_tree c
      then match multiple (children c), ps with
           | Ok n, p :: _ => canon_bounds (children c) p && canon_children tl (skipn (N.to_nat n) ps)
           | _, _ => true
           end
      else canon_children tl ps
  end.

(* ---- update_thetas level --------------------------------------------------------------------- *)
Definition all_single (root : node) : bool :=
  forallb (fun t => match multiple (children t) with Ok n => N.eqb n 1 | Err _ => false end)
          (thetas_of root).

(* no COMMENT between a removed theta and the next theta (or the end) *)
Fixpoint no_comment_until_theta (l : list node) : bool :=
  match l with
  | [] => true
  | c :: tl => if has_rule r_theta c then true
               else negb (has_rule r_COMMENT c) && no_comment_until_theta tl
  end.
Fixpoint removed_unnamed (ch : list node) (i : nat) (inds : list nat) : bool :=
  match ch with
  | [] => true
  | c :: tl =>
      if has_rule r_theta c
      then (if memn' i inds
            then forallb (fun x => negb (has_rule r_COMMENT x)) (walk c) && no_comment_until_theta tl
            else true)
           && removed_unnamed tl (S i) inds
      else removed_unnamed tl i inds
  end.

Fixpoint remove_idx {A} (l : list A) (i : nat) (inds : list nat) : list A :=
  match l with
  | [] => []
  | x :: tl => (if memn' i inds then [] else [x]) ++ remove_idx tl (S i) inds
  end.

Definition action_guard_fail (a : action V) : list nat :=
  match a with
  | AKeep _ => []
  | ACreate nm p => if g_repr p then [] else [5]
  | AUpdate r rem chg =>
      (match rem with [] => [] | _ => (if all_single r then [] else [7])
                                     ++ (if removed_unnamed (children r) 0 rem then [] else [8]) end)
      ++ guard_fail_children (children (theta_remove r rem)) chg
  end.

(* the comment names the regenerated records carry if every comment stays with its theta *)
Definition action_cnames (a : action V) : res (list (option text)) :=
  match a with
  | AKeep r => comment_names r
  | ACreate nm _ => Ok [Some nm]
  | AUpdate r rem _ => bind (comment_names r) (fun l => Ok (remove_idx l 0 rem))
  end.
Definition g_names (all_names : list text) (acts : list (action V)) (new : list (text * param V)) : bool :=
  match mapM action_cnames acts with
  | Ok l => let cn := concat l in
            Nat.eqb (length cn) (length new)
            && forallb (fun ab => text_eqb (fst (fst ab)) (fst (snd ab)))
                 (combine (name_thetas V 1%N all_names (combine cn (map snd new))) new)
  | Err _ => false
  end.

Definition action_respell_free (a : action V) : bool :=
  match a with
  | AUpdate r rem chg => canon_children (children (theta_remove r rem)) chg
  | _ => true
  end.

(* ---- the guard of update_thetas_realises (changed + removed + added thetas in one step) ---------
   g_action: every planned surgery is inside the guard of the record-level theorems (evaluated on the tree
   AFTER the removal); g_order: the values the plan hands out, in the order the records are emitted
   (an unchanged one-theta record is appended as it is, a created record carries its parameter, an
   updated record its cur_to_change), are the new parameter list - this is where the order in which
   lcs.diff / reorder_diff emit the script and the loop consumes it enters. *)
Definition action_values (a : action V) : res (list (param V)) :=
  match a with
  | AKeep r => sem V F (relex r)
  | ACreate _ p => Ok [p]
  | AUpdate _ _ chg => Ok chg
  end.
Definition g_action (a : action V) : bool :=
  match a with
  | AKeep _ => true
  | ACreate _ p => g_repr p
  | AUpdate r rem chg => guard_record (theta_remove r rem) chg
  end.
Fixpoint params_eqb (a b : list (param V)) : bool :=
  match a, b with
  | [], [] => true
  | x :: a', y :: b' => param_eqb V F x y && params_eqb a' b'
  | _, _ => false
  end.
Definition g_order (acts : list (action V)) (new : list (text * param V)) : bool :=
  match mapM action_values acts with
  | Ok l => params_eqb (concat l) (map snd new)
  | Err _ => false
  end.
Definition guard_plan (recs : list node) (old new : list (text * param V)) : bool :=
  match ut_plan V F recs old new with
  | Ok acts => forallb g_action acts && g_order acts new
  | Err _ => false
  end.
(* what one regenerated record means: a created record is read as built (create_theta_readback), the
   others after the lexer's reclassification of infinite bounds *)
Definition out_sem (a : action V) (root : node) : res (list (param V)) :=
  match a with
  | ACreate _ _ => sem V F root
  | _ => sem V F (relex root)
  end.

End Guards.
