(* PV.C19.Spec — the declarative reference ("as documented") that the theorems relate the model to and that
   the oracle tags evaluate on the implementation's own output.  No recursion over the code's control flow:
   a candidate's row is defined from its own data and a count over the eligible candidates. *)
From Coq Require Import QArith ZArith List Bool PArith Arith Qabs.
From PV Require Import C19.Model.
Import ListNotations.
Local Open Scope nat_scope.

Definition count_estimated (ps : list param) : nat := length (filter (fun p => negb (p_fix p)) ps).

Fixpoint list_eqb_res (a b : list (res bool)) : bool :=
  match a, b with
  | [], [] => true
  | x :: a', y :: b' =>
      (match x, y with
       | Ok u, Ok v => Bool.eqb u v
       | Err EValue, Err EValue | Err EKey, Err EKey | Err EInternal, Err EInternal => true
       | _, _ => false end) && list_eqb_res a' b'
  | _, _ => false
  end.

Section Spec.
Variable logf : positive -> Q.
Variable isf : Q -> positive -> option Q.
Variable okf : cand -> res bool.
Variable cf : config.

(* likelihood-ratio test as documented: the OFV drop parent - child against the chi-square cut-off for the
   difference in parameter count; more parameters must buy at least isf(alpha, df); fewer parameters may cost
   at most isf(alpha, -df); equal counts need no worsening; NaN never passes *)
Definition spec_lrt_test (parent child : cand) (alpha : Q) : bool :=
  match c_ofv parent, c_ofv child with
  | Some po, Some co =>
      let dofv := (po - co)%Q in
      match Nat.compare (length (c_params child)) (length (c_params parent)) with
      | Eq => Qle_bool 0 dofv
      | Gt => match isf alpha (Pos.of_nat (length (c_params child) - length (c_params parent))) with
              | Some cut => Qle_bool cut dofv | None => false end
      | Lt => match isf alpha (Pos.of_nat (length (c_params parent) - length (c_params child))) with
              | Some cut => Qle_bool (- cut) dofv | None => false end
      end
  | _, _ => false
  end.

Definition criterion (c : cand) (o : Q) : res Q :=
  match cf_rt cf with
  | RT_ofv | RT_lrt => Ok o
  | RT_aic => Ok (o + 2 * natQ (count_estimated (c_params c)))%Q
  | RT_bic (Some t) => Ok (o + bic_penalty logf t c)%Q
  | RT_bic None | RT_unknown => Err EValue
  end.

(* rank value of the i-th model of base :: models: None when it fails the strictness criteria *)
Definition spec_value (i : nat) (c : cand) : res (option Q) :=
  match okf c with
  | Err e => Err e
  | Ok false => Ok None
  | Ok true => match c_ofv c with
               | None => match criterion c 0 with Ok _ => Ok None | Err e => Err e end
               | Some o => match criterion c o with
                           | Ok v => Ok (Some (v + match cf_pen cf with Some l => nth i l 0 | None => 0 end)%Q)
                           | Err e => Err e end
               end
  end.

Definition parent_of (base : cand) (all : list cand) (c : cand) : res cand :=
  let pn := match cf_parent cf with
            | [] => Some (c_name base)
            | l => lookup (c_name c) l end in
  match pn with
  | None => Err EKey
  | Some n => match find (fun m => Pos.eqb (c_name m) n) all with Some p => Ok p | None => Err EKey end
  end.

Definition spec_alpha (parent child : cand) : Q :=
  let more := Nat.leb (length (c_params parent)) (length (c_params child)) in
  match cf_cutoff cf with
  | CoNone => if more then alpha_more else alpha_fewer
  | CoNum q => q
  | CoPair a b => if more then a else b
  end.

(* passes the cut-off / the test against its parent (the base model itself always does) *)
Definition spec_passes (base : cand) (all : list cand) (ref : option Q) (c : cand) (v : Q) : res bool :=
  if Pos.eqb (c_name c) (c_name base) then Ok true
  else match cf_rt cf with
       | RT_lrt => match parent_of base all c with
                   | Err e => Err e
                   | Ok p => Ok (spec_lrt_test p c (spec_alpha p c))
                   end
       | _ => match cf_cutoff cf, ref with
              | CoNum co, Some r => Ok (negb (Qle_bool (r - v) co))
              | CoPair _ _, _ => Err EInternal
              | _, _ => Ok true
              end
       end.

(* (candidate, its rank value if eligible) *)
Definition spec_elig (base : cand) (all : list cand) (ref : option Q) (i : nat) (c : cand) : res (option Q) :=
  match spec_value i c with
  | Err e => Err e
  | Ok None => Ok None
  | Ok (Some v) => match spec_passes base all ref c v with
                   | Err e => Err e
                   | Ok true => Ok (Some v)
                   | Ok false => Ok None
                   end
  end.

Fixpoint mapi_res {A B} (f : nat -> A -> res B) (i : nat) (l : list A) : res (list B) :=
  match l with
  | [] => Ok []
  | a :: tl => match f i a with
               | Err e => Err e
               | Ok b => match mapi_res f (S i) tl with Err e => Err e | Ok bs => Ok (b :: bs) end
               end
  end.

(* lower rank value = better *)
Definition count_better (v : Q) (vs : list (option Q)) : nat :=
  length (filter (fun o => match o with Some w => Qlt_bool w v | None => false end) vs).

Definition spec_rows (base : cand) (models : list cand) : res (list row) :=
  let all := base :: models in
  match (match cf_pen cf with
         | Some l => if Nat.eqb (length l) (S (length models)) then None else Some EValue
         | None => None end) with
  | Some e => Err e
  | None =>
      match spec_value 0 base with
      | Err e => Err e
      | Ok ref =>
          match mapi_res (spec_elig base all ref) 0 all with
          | Err e => Err e
          | Ok vs =>
              Ok (map (fun p => match snd p with
                                | Some v => mkRow (c_name (fst p)) (ominus ref v) (Some v) (Some (S (count_better v vs)))
                                | None => mkRow (c_name (fst p)) None None None
                                end) (combine all vs))
          end
      end
  end.

End Spec.

(* positional equality of two tables *)
Definition oclose_s (tol : bool) (a b : option Q) : bool :=
  match a, b with
  | Some x, Some y => if tol then Qle_bool (Qabs (x - y)) ((1 # 1000000000) * (1 + Qabs x)) else Qeq_bool x y
  | None, None => true
  | _, _ => false
  end.
Fixpoint list_eqb_rows (tol : bool) (a b : list row) : bool :=
  match a, b with
  | [], [] => true
  | x :: a', y :: b' =>
      Pos.eqb (w_name x) (w_name y) && oclose_s tol (w_delta x) (w_delta y) && oclose_s tol (w_value x) (w_value y)
      && (match w_rank x, w_rank y with Some u, Some v => Nat.eqb u v | None, None => true | _, _ => false end)
      && list_eqb_rows tol a' b'
  | _, _ => false
  end.

(* ---------- readable order / rank notions used in the theorem statements *)
Definition ole (a b : option Q) : Prop :=      (* a may be listed before b, ascending, NaN last *)
  match a, b with Some x, Some y => (x <= y)%Q | Some _, None => True | None, Some _ => False | None, None => True end.
Definition oge (a b : option Q) : Prop :=      (* descending, NaN last *)
  match a, b with Some x, Some y => (y <= x)%Q | Some _, None => True | None, Some _ => False | None, None => True end.
(* a may be listed before b in the table returned for reference value [ref] *)
Definition listed_before_ok (ref : option Q) (a b : row) : Prop :=
  match ref with None => ole (w_value a) (w_value b) | Some _ => oge (w_delta a) (w_delta b) end.
Definition row_ranked (r : row) : Prop := w_rank r <> None.
Definition row_of (rows : list row) (n : id) : option row := find (fun r => Pos.eqb (w_name r) n) rows.
