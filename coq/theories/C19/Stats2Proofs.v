(* PV.C19.Stats2Proofs — lemmas about quantiles and the simeval summary (Stats2.v). *)
From Coq Require Import QArith ZArith List Bool PArith Arith Lia Lqa Permutation Sorted Qround.
From PV Require Import C19.Model C19.Stats C19.Stats2 C19.Proofs C19.StatsProofs.
Import ListNotations.
Local Open Scope nat_scope.

Lemma ins_asc_perm x l : Permutation (ins_asc x l) (x :: l).
Proof.
  induction l as [|y tl IH]; cbn [ins_asc]; [reflexivity|].
  destruct (Qlt_bool y x); [|reflexivity]. rewrite IH. apply perm_swap.
Qed.
Lemma sort_asc_perm l : Permutation (sort_asc l) l.
Proof.
  induction l as [|x tl IH]; cbn [sort_asc fold_right]; [reflexivity|].
  fold (sort_asc tl). rewrite ins_asc_perm. constructor. exact IH.
Qed.
Lemma ins_asc_sorted x l : StronglySorted Qle l -> StronglySorted Qle (ins_asc x l).
Proof.
  induction l as [|y tl IH]; intro HS; cbn [ins_asc].
  - constructor; constructor.
  - inversion HS as [|? ? S' F]; subst. destruct (Qlt_bool y x) eqn:E.
    + apply Qlt_bool_iff in E. constructor; [apply IH; exact S'|].
      rewrite Forall_forall in *. intros z Hz.
      apply (Permutation_in _ (ins_asc_perm x tl)) in Hz. destruct Hz as [<-|Hz]; [lra|apply F; exact Hz].
    + apply Qlt_bool_false in E. constructor; [exact HS|]. constructor; [exact E|].
      rewrite Forall_forall in *. intros z Hz. specialize (F z Hz). lra.
Qed.
Lemma sort_asc_sorted l : StronglySorted Qle (sort_asc l).
Proof.
  induction l as [|x tl IH]; cbn [sort_asc fold_right]; [constructor|]. apply ins_asc_sorted. exact IH.
Qed.

(* the default linear interpolation, spelled out on the sorted values *)
Lemma quantile_def_lemma p l v :
  quantile p l = Some v ->
  exists s, Permutation s l /\ StronglySorted Qle s /\ s <> [] /\
    let h := (natQ (length s - 1) * p)%Q in
    let lo := Z.to_nat (Qfloor h) in
    v = (nth lo s 0 + (h - inject_Z (Qfloor h)) * (nth (S lo) s (nth lo s 0) - nth lo s 0))%Q.
Proof.
  unfold quantile. intro H. exists (sort_asc l).
  split; [apply sort_asc_perm|]. split; [apply sort_asc_sorted|].
  destruct (sort_asc l) as [|x tl] eqn:E; [discriminate|]. split; [discriminate|].
  injection H as <-. reflexivity.
Qed.
Lemma quantile_none_lemma p l : quantile p l = None <-> l = [].
Proof.
  unfold quantile. split.
  - intro H. destruct (sort_asc l) as [|x tl] eqn:E; [|discriminate].
    pose proof (sort_asc_perm l) as P. rewrite E in P. apply Permutation_nil in P. exact P.
  - intros ->. reflexivity.
Qed.
Lemma qmin_is_min l m : qmin l = Some m -> In m l /\ forall x, In x l -> (m <= x)%Q.
Proof.
  unfold qmin. intro H. pose proof (sort_asc_perm l) as P. pose proof (sort_asc_sorted l) as S.
  destruct (sort_asc l) as [|y tl]; [discriminate|]. injection H as <-. split.
  - apply (Permutation_in _ P). left. reflexivity.
  - intros x Hx. apply (Permutation_in _ (Permutation_sym P)) in Hx. destruct Hx as [<-|Hx]; [lra|].
    inversion S as [|? ? _ F]; subst. rewrite Forall_forall in F. apply F. exact Hx.
Qed.

Lemma boot_dist_by_name_lemma reps j p :
  nth_error (boot_cols reps) j = Some p -> boot_dist reps j = doc_boot_dist reps p.
Proof. intro H. unfold boot_dist, doc_boot_dist. rewrite (column_is_values reps j p H). reflexivity. Qed.

Lemma simeval_label_order_lemma sqrtq sims sims' orig orig' i :
  Forall2 (fun r r' => Permutation r r' /\ NoDup (map fst r)) sims sims' ->
  Permutation orig orig' -> NoDup (map fst orig) ->
  simeval_row sqrtq sims orig i = simeval_row sqrtq sims' orig' i.
Proof.
  intros F P ND. unfold simeval_row. rewrite (values_of_perm sims sims' i F), (sget_perm orig orig' i ND P). reflexivity.
Qed.

Lemma simeval_formulas_lemma sqrtq sims orig i l x :
  avail (values_of sims i) = l -> 2 <= length l -> sget orig i = Some x ->
  let m := (qsum l / natQ (length l))%Q in
  let v := (qsum (map (fun y => (y - m) * (y - m))%Q l) / natQ (length l - 1))%Q in
  Qeq_bool (sqrtq v) 0 = false ->
  let r := simeval_row sqrtq sims orig i in
  sm_mean r = Some m /\ sm_stdev r = Some (sqrtq v) /\ sm_residual r = Some ((x - m) / sqrtq v)%Q /\
  sm_outlier r = Qle_bool 3 ((x - m) / sqrtq v) /\
  sm_q1 r = match quantile (1 # 4) l with Some q => Some ((x - q) / sqrtq v)%Q | None => None end /\
  sm_q3 r = match quantile (3 # 4) l with Some q => Some ((x - q) / sqrtq v)%Q | None => None end.
Proof.
  intros E L O m v NZ. unfold simeval_row. rewrite E, O.
  assert (M : mean_l l = Some m) by (destruct l; [cbn in L; lia|reflexivity]).
  assert (V : var_l l = Some v) by (unfold var_l; destruct (Nat.ltb_spec (length l) 2); [lia|reflexivity]).
  rewrite M, V. cbn [option_map omap2 odivq sm_mean sm_stdev sm_residual sm_outlier sm_q1 sm_q3]. rewrite NZ.
  repeat split; destruct (quantile _ l); cbn [omap2 odivq]; rewrite ?NZ; reflexivity.
Qed.

(* lrt.degrees_of_freedom: len(child.parameters) - len(parent.parameters), fixed parameters included *)
Lemma lrt_df_def_lemma parent child :
  degrees_of_freedom parent child = (Z.of_nat (length (c_params child)) - Z.of_nat (length (c_params parent)))%Z.
Proof. reflexivity. Qed.
Lemma lrt_df_ignores_fix_lemma parent child child' :
  map p_name (c_params child) = map p_name (c_params child') ->
  degrees_of_freedom parent child = degrees_of_freedom parent child'.
Proof.
  intro H. unfold degrees_of_freedom, npar.
  rewrite <- (map_length p_name (c_params child)), H, map_length. reflexivity.
Qed.
