(* PV.C19.Proofs — lemmas behind Properties.v *)
From Coq Require Import QArith ZArith List Bool PArith Arith Lia Lqa Permutation Sorted Qabs.
From PV Require Import C19.Model C19.Spec.
Import ListNotations.
Local Open Scope nat_scope.

(* ---------- Q reflection *)
Lemma Qlt_bool_iff x y : Qlt_bool x y = true <-> (x < y)%Q.
Proof.
  unfold Qlt_bool. rewrite negb_true_iff. split.
  - intro H. apply Qnot_le_lt. intro L. apply Qle_bool_iff in L. congruence.
  - intro H. destruct (Qle_bool y x) eqn:E; [|reflexivity]. apply Qle_bool_iff in E. lra.
Qed.
Lemma Qlt_bool_false x y : Qlt_bool x y = false <-> (y <= x)%Q.
Proof.
  split.
  - intro H. destruct (Qlt_le_dec x y) as [L|L]; [|exact L]. apply Qlt_bool_iff in L. congruence.
  - intro H. destruct (Qlt_bool x y) eqn:E; [|reflexivity]. apply Qlt_bool_iff in E. lra.
Qed.
Lemma Qeq_bool_false x y : Qeq_bool x y = false <-> ~ (x == y)%Q.
Proof.
  split.
  - intros H E. apply Qeq_bool_iff in E. congruence.
  - intro H. destruct (Qeq_bool x y) eqn:E; [|reflexivity]. apply Qeq_bool_iff in E. contradiction.
Qed.
Lemma Qle_bool_false x y : Qle_bool x y = false <-> (y < x)%Q.
Proof.
  split.
  - intro H. apply Qnot_le_lt. intro L. apply Qle_bool_iff in L. congruence.
  - intro H. destruct (Qle_bool x y) eqn:E; [|reflexivity]. apply Qle_bool_iff in E. lra.
Qed.

(* ---------- sort_desc *)
Section SortDesc.
Context {A : Type} (k : A -> Q).
Lemma ins_desc_perm x l : Permutation (ins_desc k x l) (x :: l).
Proof.
  induction l as [|y tl IH]; cbn [ins_desc]; [reflexivity|].
  destruct (Qlt_bool (k x) (k y)); [|reflexivity].
  rewrite IH. apply perm_swap.
Qed.
Lemma sort_desc_perm l : Permutation (sort_desc k l) l.
Proof.
  induction l as [|x tl IH]; cbn [sort_desc fold_right]; [reflexivity|].
  fold (sort_desc k tl). rewrite ins_desc_perm. constructor. exact IH.
Qed.
Definition ge_key (a b : A) : Prop := (k b <= k a)%Q.
Lemma ins_desc_sorted x l : StronglySorted ge_key l -> StronglySorted ge_key (ins_desc k x l).
Proof.
  induction l as [|y tl IH]; intro S; cbn [ins_desc].
  - constructor; constructor.
  - inversion S as [|? ? S' F]; subst.
    destruct (Qlt_bool (k x) (k y)) eqn:E.
    + constructor; [apply IH; exact S'|].
      apply Qlt_bool_iff in E.
      rewrite Forall_forall in *. intros z Hz.
      apply (Permutation_in _ (ins_desc_perm x tl)) in Hz. destruct Hz as [<-|Hz].
      * unfold ge_key. lra.
      * apply F; exact Hz.
    + apply Qlt_bool_false in E. constructor; [exact S|].
      constructor; [exact E|].
      rewrite Forall_forall in *. intros z Hz. specialize (F z Hz). unfold ge_key in *. lra.
Qed.
Lemma sort_desc_sorted l : StronglySorted ge_key (sort_desc k l).
Proof.
  induction l as [|x tl IH]; cbn [sort_desc fold_right]; [constructor|].
  apply ins_desc_sorted. exact IH.
Qed.
End SortDesc.

(* ---------- comp_rank *)
Definition cgt (v : Q) (l : list (id * Q)) : nat := length (filter (fun p => Qlt_bool v (snd p)) l).
Definition eqprev (prev : option Q) (v : Q) : bool := match prev with Some p => Qeq_bool v p | None => false end.

Lemma cgt_zero v l : (forall x, In x l -> (snd x <= v)%Q) -> cgt v l = 0.
Proof.
  unfold cgt. induction l as [|y tl IH]; intro H; cbn [filter]; [reflexivity|].
  assert (E : Qlt_bool v (snd y) = false) by (apply Qlt_bool_false, H; left; reflexivity).
  rewrite E. apply IH. intros x Hx. apply H. right. exact Hx.
Qed.
Lemma cgt_cons v y l : cgt v (y :: l) = (if Qlt_bool v (snd y) then 1 else 0) + cgt v l.
Proof. unfold cgt. cbn [filter]. destruct (Qlt_bool v (snd y)); reflexivity. Qed.

Lemma comp_rank_spec l : forall r c prev,
  StronglySorted (ge_key snd) l ->
  (forall p, prev = Some p -> forall x, In x l -> (snd x <= p)%Q) ->
  comp_rank r c prev l =
  map (fun x => (fst x, if eqprev prev (snd x) then r else r + c + 1 + cgt (snd x) l)) l.
Proof.
  induction l as [|[n v] tl IH]; intros r c prev HS B; [reflexivity|].
  inversion HS as [|? ? S' F]; subst. rewrite Forall_forall in F. unfold ge_key in F.
  cbn [comp_rank map fst snd]. fold (eqprev prev v).
  destruct (eqprev prev v) eqn:E.
  - f_equal.
    rewrite (IH r (S c) prev S'); [|intros p Hp x Hx; apply (B p Hp); right; exact Hx].
    apply map_ext_in. intros x Hx. destruct (eqprev prev (snd x)) eqn:E2; [reflexivity|].
    f_equal. rewrite cgt_cons. cbn [snd].
    destruct prev as [p|]; [|discriminate]. cbn [eqprev] in E, E2.
    apply Qeq_bool_iff in E. apply Qeq_bool_false in E2.
    assert (L : (snd x <= p)%Q) by (apply (B p eq_refl); right; exact Hx).
    assert (T : Qlt_bool (snd x) v = true) by (apply Qlt_bool_iff; lra).
    rewrite T. lia.
  - f_equal.
    + f_equal. rewrite cgt_zero; [lia|]. intros x [<-|Hx]; cbn [snd]; [lra|apply F; exact Hx].
    + rewrite (IH (r + S c) 0 (Some v) S'); [|intros p Hp x Hx; injection Hp as <-; apply F; exact Hx].
      apply map_ext_in. intros x Hx. cbn [eqprev]. rewrite cgt_cons. cbn [snd].
      assert (Lx : (snd x <= v)%Q) by (apply F; exact Hx).
      assert (E2 : eqprev prev (snd x) = false).
      { destruct prev as [p|]; [|reflexivity]. cbn [eqprev] in *.
        apply Qeq_bool_false in E. apply Qeq_bool_false. intro Q.
        assert (Lv : (v <= p)%Q) by (apply (B p eq_refl (n, v)); left; reflexivity).
        apply E. lra. }
      rewrite E2.
      destruct (Qeq_bool (snd x) v) eqn:E3.
      * apply Qeq_bool_iff in E3.
        assert (T : Qlt_bool (snd x) v = false) by (apply Qlt_bool_false; lra). rewrite T.
        rewrite cgt_zero; [f_equal; lia|]. intros y Hy. specialize (F y Hy). cbn [snd] in F. lra.
      * apply Qeq_bool_false in E3.
        assert (T : Qlt_bool (snd x) v = true) by (apply Qlt_bool_iff; lra). rewrite T. f_equal. lia.
Qed.

(* ---------- sort_rows *)
Lemma before_asym asc a b : before asc a b = true -> before asc b a = false.
Proof.
  destruct a as [x|], b as [y|]; cbn [before]; try congruence; try reflexivity.
  destruct asc; intro H; apply Qlt_bool_iff in H; apply Qlt_bool_false; lra.
Qed.
Lemma before_negtrans asc a b c : before asc a b = false -> before asc b c = false -> before asc a c = false.
Proof.
  destruct a as [x|], b as [y|], c as [z|]; cbn [before]; try congruence; try reflexivity.
  destruct asc; intros H1 H2; apply Qlt_bool_false in H1; apply Qlt_bool_false in H2; apply Qlt_bool_false; lra.
Qed.

Section SortRows.
Variable k : row -> option Q.
Variable asc : bool.
Definition nb (a b : row) : Prop := before asc (k b) (k a) = false.
Lemma ins_row_perm x l : Permutation (ins_row k asc x l) (x :: l).
Proof.
  induction l as [|y tl IH]; cbn [ins_row]; [reflexivity|].
  destruct (before asc (k y) (k x)); [|reflexivity].
  rewrite IH. apply perm_swap.
Qed.
Lemma sort_rows_perm l : Permutation (sort_rows k asc l) l.
Proof.
  induction l as [|x tl IH]; cbn [sort_rows fold_right]; [reflexivity|].
  fold (sort_rows k asc tl). rewrite ins_row_perm. constructor. exact IH.
Qed.
Lemma ins_row_sorted x l : StronglySorted nb l -> StronglySorted nb (ins_row k asc x l).
Proof.
  induction l as [|y tl IH]; intro HS; cbn [ins_row].
  - constructor; constructor.
  - inversion HS as [|? ? S' F]; subst.
    destruct (before asc (k y) (k x)) eqn:E.
    + constructor; [apply IH; exact S'|].
      rewrite Forall_forall in *. intros z Hz.
      apply (Permutation_in _ (ins_row_perm x tl)) in Hz. destruct Hz as [<-|Hz].
      * unfold nb. apply before_asym. exact E.
      * apply F; exact Hz.
    + constructor; [exact HS|]. constructor; [exact E|].
      rewrite Forall_forall in *. intros z Hz. specialize (F z Hz). unfold nb in *.
      eapply before_negtrans; eassumption.
Qed.
Lemma sort_rows_sorted l : StronglySorted nb (sort_rows k asc l).
Proof.
  induction l as [|x tl IH]; cbn [sort_rows fold_right]; [constructor|].
  apply ins_row_sorted. exact IH.
Qed.
End SortRows.

(* ---------- association lists with distinct keys *)
Lemma lookup_none {A} n (l : list (id * A)) : ~ In n (map fst l) -> lookup n l = None.
Proof.
  induction l as [|[k v] tl IH]; intro H; cbn [lookup]; [reflexivity|].
  destruct (Pos.eqb k n) eqn:E.
  - apply Pos.eqb_eq in E. subst. exfalso. apply H. left. reflexivity.
  - apply IH. intro X. apply H. right. exact X.
Qed.
Lemma lookup_in {A} n v (l : list (id * A)) : NoDup (map fst l) -> In (n, v) l -> lookup n l = Some v.
Proof.
  induction l as [|[k w] tl IH]; intros ND H; [contradiction|].
  cbn [map fst] in ND. inversion ND as [|? ? NI ND']; subst.
  cbn [lookup]. destruct H as [H|H].
  - injection H as -> ->. rewrite Pos.eqb_refl. reflexivity.
  - destruct (Pos.eqb k n) eqn:E.
    + apply Pos.eqb_eq in E. subst. exfalso. apply NI. apply (in_map fst) in H. exact H.
    + apply IH; assumption.
Qed.
Lemma lookup_some_in {A} n v (l : list (id * A)) : lookup n l = Some v -> In (n, v) l.
Proof.
  induction l as [|[k w] tl IH]; cbn [lookup]; [discriminate|].
  destruct (Pos.eqb k n) eqn:E.
  - apply Pos.eqb_eq in E. subst. intro H. injection H as ->. left. reflexivity.
  - intro H. right. apply IH. exact H.
Qed.
Lemma lookup_perm {A} n (l l' : list (id * A)) : NoDup (map fst l) -> Permutation l l' -> lookup n l = lookup n l'.
Proof.
  intros ND P.
  assert (ND' : NoDup (map fst l')) by (eapply Permutation_NoDup; [apply Permutation_map; exact P|exact ND]).
  destruct (lookup n l) as [v|] eqn:E.
  - symmetry. apply lookup_in; [exact ND'|]. eapply Permutation_in; [exact P|]. apply lookup_some_in. exact E.
  - destruct (lookup n l') as [v|] eqn:E'; [|reflexivity].
    apply lookup_some_in in E'. apply (Permutation_in _ (Permutation_sym P)) in E'.
    apply (lookup_in _ _ _ ND) in E'. congruence.
Qed.

(* ---------- lrt *)
Lemma Zsub_nat_pos n m : m < n -> (Z.of_nat n - Z.of_nat m)%Z = Z.pos (Pos.of_nat (n - m)).
Proof.
  intro H. replace (Z.of_nat n - Z.of_nat m)%Z with (Z.of_nat (n - m)) by lia.
  destruct (n - m) as [|k] eqn:E; [lia|].
  cbn [Z.of_nat]. f_equal. apply Pos.of_nat_succ.
Qed.
Lemma Zsub_nat_neg n m : n < m -> (Z.of_nat n - Z.of_nat m)%Z = Z.neg (Pos.of_nat (m - n)).
Proof.
  intro H. replace (Z.of_nat n - Z.of_nat m)%Z with (- Z.of_nat (m - n))%Z by lia.
  destruct (m - n) as [|k] eqn:E; [lia|].
  cbn [Z.of_nat Z.opp]. f_equal. apply Pos.of_nat_succ.
Qed.

Lemma lrt_test_def_lemma isf p c alpha :
  lrt_test isf p c (c_ofv p) (c_ofv c) alpha = spec_lrt_test isf p c alpha.
Proof.
  unfold lrt_test, spec_lrt_test, lrt_cutoff, degrees_of_freedom, npar.
  destruct (c_ofv p) as [a|]; [|reflexivity].
  destruct (c_ofv c) as [b|]; [|reflexivity].
  destruct (Nat.compare_spec (length (c_params c)) (length (c_params p))) as [E|E|E].
  - rewrite E, Z.sub_diag. reflexivity.
  - rewrite (Zsub_nat_neg _ _ E). destruct (isf alpha _); reflexivity.
  - rewrite (Zsub_nat_pos _ _ E). destruct (isf alpha _); reflexivity.
Qed.

Lemma alpha_for_spec cf p c : alpha_for cf (degrees_of_freedom p c) = Ok (spec_alpha cf p c).
Proof.
  unfold alpha_for, spec_alpha, degrees_of_freedom, npar.
  assert (E : (0 <=? Z.of_nat (length (c_params c)) - Z.of_nat (length (c_params p)))%Z
              = Nat.leb (length (c_params p)) (length (c_params c))).
  { destruct (Nat.leb_spec (length (c_params p)) (length (c_params c))); [apply Z.leb_le|apply Z.leb_gt]; lia. }
  rewrite E. destruct (cf_cutoff cf); reflexivity.
Qed.

(* ---------- get_rankval / process vs the reference *)
Section Bridge.
Variable logf : positive -> Q.
Variable isf : Q -> positive -> option Q.
Variable okf : cand -> res bool.
Variable cf : config.

Lemma spec_value_rankval i c :
  spec_value logf okf cf i c =
  match get_rankval logf okf cf c with
  | Err e => Err e
  | Ok None => Ok None
  | Ok (Some rv0) => Ok (Some (rv0 + pen_at cf i)%Q)
  end.
Proof.
  unfold spec_value, get_rankval, criterion, calculate_bic, calculate_aic, pen_at, nest, nonfixed, count_estimated.
  destruct (okf c) as [[|]|e]; try reflexivity.
  destruct (cf_rt cf) as [| |[t|]| |]; destruct (c_ofv c) as [o|]; reflexivity.
Qed.

Definition entry_of (ref : option Q) (c : cand) (o : option Q) : option entry :=
  match o with Some v => Some (mkEntry c v (ominus ref v)) | None => None end.

Lemma process_spec base models ref i c :
  In c (base :: models) ->
  process logf isf okf cf base (base :: models) ref i c =
  match spec_elig logf isf okf cf base (base :: models) ref i c with
  | Err e => Err e
  | Ok o => Ok (entry_of ref c o)
  end.
Proof.
  intro Hin. unfold process, spec_elig. rewrite spec_value_rankval.
  destruct (get_rankval logf okf cf c) as [[rv0|]|e]; try reflexivity.
  unfold spec_passes.
  destruct (Pos.eqb (c_name c) (c_name base)) eqn:EB; [reflexivity|].
  destruct (cf_rt cf) eqn:ERT;
    try (destruct (cf_cutoff cf) as [|co|a b]; [reflexivity| |reflexivity];
         destruct ref as [r|]; [|reflexivity]; destruct (Qle_bool (r - (rv0 + pen_at cf i)) co); reflexivity).
  (* lrt *)
  unfold parent_of.
  assert (TAIL : forall pn : option id,
    match pn with
    | Some pn =>
        match find (fun m => Pos.eqb (c_name m) pn) (base :: models) with
        | Some p =>
            match alpha_for cf (degrees_of_freedom p c) with
            | Ok co => if lrt_test isf p c (c_ofv p) (c_ofv c) co
                       then Ok (Some (mkEntry c (rv0 + pen_at cf i) (ominus ref (rv0 + pen_at cf i)))) else Ok None
            | Err e => Err e
            end
        | None => Err EKey
        end
    | None => Err EKey
    end =
    match
      match
        match
          match pn with
          | Some n => match find (fun m => Pos.eqb (c_name m) n) (base :: models) with
                      | Some p => Ok p | None => Err EKey end
          | None => Err EKey
          end
        with
        | Ok p => Ok (spec_lrt_test isf p c (spec_alpha cf p c))
        | Err e => Err e
        end
      with
      | Ok true => Ok (Some (rv0 + pen_at cf i)%Q)
      | Ok false => Ok None
      | Err e => Err e
      end
    with
    | Ok o => Ok (entry_of ref c o)
    | Err e => Err e
    end).
  { intros [pn|]; [|reflexivity].
    destruct (find (fun m => Pos.eqb (c_name m) pn) (base :: models)) as [p|]; [|reflexivity].
    rewrite alpha_for_spec, lrt_test_def_lemma.
    destruct (spec_lrt_test isf p c (spec_alpha cf p c)); reflexivity. }
  destruct (cf_parent cf) as [|x tl] eqn:EP.
  - cbn [tl].
    assert (PD : lookup (c_name c) (map (fun m => (c_name m, c_name base)) models) = Some (c_name base)).
    { destruct Hin as [<-|Hin]; [rewrite Pos.eqb_refl in EB; discriminate|].
      clear -Hin. induction models as [|m ms IH]; [contradiction|].
      cbn [map lookup]. destruct (Pos.eqb (c_name m) (c_name c)) eqn:E; [reflexivity|].
      destruct Hin as [<-|Hin]; [rewrite Pos.eqb_refl in E; discriminate|]. apply IH. exact Hin. }
    rewrite PD. apply (TAIL (Some (c_name base))).
  - apply (TAIL (lookup (c_name c) (x :: tl))).
Qed.
End Bridge.

(* ---------- process_all vs mapi_res *)
Definition entries_of (ref : option Q) (lv : list (cand * option Q)) : list entry :=
  flat_map (fun p => match entry_of ref (fst p) (snd p) with Some e => [e] | None => [] end) lv.

Lemma mapi_res_length {A B} (f : nat -> A -> res B) l : forall i vs, mapi_res f i l = Ok vs -> length vs = length l.
Proof.
  induction l as [|a tl IH]; intros i vs H; cbn [mapi_res] in H.
  - injection H as <-. reflexivity.
  - destruct (f i a) as [b|e]; [|discriminate].
    destruct (mapi_res f (S i) tl) as [bs|e] eqn:E; [|discriminate].
    injection H as <-. cbn [length]. f_equal. eapply IH. exact E.
Qed.

Section Bridge2.
Variable logf : positive -> Q.
Variable isf : Q -> positive -> option Q.
Variable okf : cand -> res bool.
Variable cf : config.

Lemma process_all_spec base models ref l : forall i,
  incl l (base :: models) ->
  process_all logf isf okf cf base (base :: models) ref i l =
  match mapi_res (spec_elig logf isf okf cf base (base :: models) ref) i l with
  | Err e => Err e
  | Ok vs => Ok (entries_of ref (combine l vs))
  end.
Proof.
  induction l as [|c tl IH]; intros i Hincl; [reflexivity|].
  cbn [process_all mapi_res].
  rewrite process_spec by (apply Hincl; left; reflexivity).
  destruct (spec_elig logf isf okf cf base (base :: models) ref i c) as [o|e]; [|reflexivity].
  rewrite IH by (intros x Hx; apply Hincl; right; exact Hx).
  destruct (mapi_res (spec_elig logf isf okf cf base (base :: models) ref) (S i) tl) as [vs|e]; [|reflexivity].
  cbn [combine entries_of flat_map fst snd]. destruct (entry_of ref c o); reflexivity.
Qed.
End Bridge2.

(* ---------- lookups in the dictionaries built from the entries *)
Lemma entries_names_incl ref lv n :
  In n (map (fun e => c_name (e_c e)) (entries_of ref lv)) -> In n (map (fun p => c_name (fst p)) lv).
Proof.
  induction lv as [|[c o] tl IH]; cbn [entries_of flat_map map fst snd]; [tauto|].
  rewrite map_app, in_app_iff. intros [H|H].
  - destruct o as [v|]; cbn [entry_of map] in H; [|contradiction].
    destruct H as [<-|[]]. left. reflexivity.
  - right. apply IH. exact H.
Qed.

Lemma entries_names_nodup ref lv :
  NoDup (map (fun p => c_name (fst p)) lv) -> NoDup (map (fun e => c_name (e_c e)) (entries_of ref lv)).
Proof.
  induction lv as [|[c o] tl IH]; cbn [entries_of flat_map map fst snd]; intro ND; [constructor|].
  inversion ND as [|? ? NI ND']; subst. rewrite map_app.
  destruct o as [v|]; cbn [entry_of map app].
  - constructor; [|apply IH; exact ND']. intro H. apply NI. eapply entries_names_incl. exact H.
  - apply IH. exact ND'.
Qed.

Lemma lookup_entries {B} (h : entry -> B) ref lv c o :
  NoDup (map (fun p => c_name (fst p)) lv) -> In (c, o) lv ->
  lookup (c_name c) (map (fun e => (c_name (e_c e), h e)) (entries_of ref lv)) =
  match entry_of ref c o with Some e => Some (h e) | None => None end.
Proof.
  induction lv as [|[c0 o0] tl IH]; intros ND Hin; [contradiction|].
  cbn [map fst] in ND. inversion ND as [|? ? NI ND']; subst.
  cbn [entries_of flat_map fst snd]. fold (entries_of ref tl). rewrite map_app.
  destruct Hin as [Hin|Hin].
  - injection Hin as -> ->.
    destruct o as [v|]; cbn [entry_of map app lookup e_c].
    + rewrite Pos.eqb_refl. reflexivity.
    + apply lookup_none. rewrite map_map. cbn [fst]. intro H. apply NI. eapply entries_names_incl. exact H.
  - assert (NE : Pos.eqb (c_name c0) (c_name c) = false).
    { apply Pos.eqb_neq. intro E. apply NI. rewrite E.
      change (c_name c) with ((fun p : cand * option Q => c_name (fst p)) (c, o)). apply in_map. exact Hin. }
    destruct o0 as [v0|]; cbn [entry_of map app lookup e_c].
    + rewrite NE. apply IH; assumption.
    + apply IH; assumption.
Qed.

Lemma cgt_perm v l l' : Permutation l l' -> cgt v l = cgt v l'.
Proof.
  induction 1 as [|x l l' P IH|x y l|l l' l'' P1 IH1 P2 IH2].
  - reflexivity.
  - rewrite !cgt_cons, IH. reflexivity.
  - rewrite !cgt_cons. lia.
  - congruence.
Qed.

Lemma sort_key_entry ref c v :
  sort_key ref (mkEntry c v (ominus ref v)) = match ref with Some r => (r - v)%Q | None => (- v)%Q end.
Proof. destruct ref; reflexivity. Qed.

Lemma cgt_entries ref c v lv :
  cgt (sort_key ref (mkEntry c v (ominus ref v)))
      (map (fun e => (c_name (e_c e), sort_key ref e)) (entries_of ref lv))
  = count_better v (map snd lv).
Proof.
  unfold count_better. induction lv as [|[c0 o0] tl IH]; [reflexivity|].
  cbn [entries_of flat_map fst snd map]. fold (entries_of ref tl). rewrite map_app.
  destruct o0 as [w|]; cbn [entry_of map app filter].
  - rewrite cgt_cons, IH. cbn [snd]. rewrite !sort_key_entry.
    assert (E : Qlt_bool (match ref with Some r => (r - v)%Q | None => (- v)%Q end)
                         (match ref with Some r => (r - w)%Q | None => (- w)%Q end) = Qlt_bool w v).
    { destruct (Qlt_bool w v) eqn:E1.
      - apply Qlt_bool_iff in E1. apply Qlt_bool_iff. destruct ref; lra.
      - apply Qlt_bool_false in E1. apply Qlt_bool_false. destruct ref; lra. }
    rewrite E. destruct (Qlt_bool w v); reflexivity.
  - exact IH.
Qed.

(* ---------- the table *)
Lemma StronglySorted_map {A B} (R : B -> B -> Prop) (f : A -> B) l :
  StronglySorted (fun a b => R (f a) (f b)) l -> StronglySorted R (map f l).
Proof.
  induction 1 as [|a l S IH F]; cbn [map]; constructor; [exact IH|].
  rewrite Forall_forall in *. intros y Hy. apply in_map_iff in Hy. destruct Hy as [x [<- Hx]]. apply F. exact Hx.
Qed.

Lemma map_combine_fst {A B C} (f : A -> C) (l : list A) : forall (vs : list B),
  length vs = length l -> map f l = map (fun p => f (fst p)) (combine l vs).
Proof.
  induction l as [|a tl IH]; intros [|v vs] H; cbn in *; try reflexivity; try discriminate.
  f_equal. apply IH. lia.
Qed.
Lemma map_snd_combine {A B} (l : list A) : forall (vs : list B), length vs = length l -> map snd (combine l vs) = vs.
Proof.
  induction l as [|a tl IH]; intros [|v vs] H; cbn in *; try reflexivity; try discriminate.
  f_equal. apply IH. lia.
Qed.

Definition spec_row (ref : option Q) (vs : list (option Q)) (p : cand * option Q) : row :=
  match snd p with
  | Some v => mkRow (c_name (fst p)) (ominus ref v) (Some v) (Some (S (count_better v vs)))
  | None => mkRow (c_name (fst p)) None None None
  end.

Lemma names_distinct_NoDup all : names_distinct all = true -> NoDup (map c_name all).
Proof.
  unfold names_distinct. generalize (map c_name all). intro l.
  induction l as [|x tl IH]; intro H; [constructor|].
  apply andb_true_iff in H. destruct H as [H1 H2]. constructor; [|apply IH; exact H2].
  intro Hin. apply negb_true_iff in H1.
  assert (existsb (Pos.eqb x) tl = true) by (apply existsb_exists; exists x; split; [exact Hin|apply Pos.eqb_refl]).
  congruence.
Qed.

Section Table.
Variable logf : positive -> Q.
Variable isf : Q -> positive -> option Q.
Variable okf : cand -> res bool.
Variable cf : config.

Lemma get_ref_spec base : get_ref logf okf cf base = spec_value logf okf cf 0 base.
Proof.
  rewrite spec_value_rankval. unfold get_ref.
  destruct (get_rankval logf okf cf base) as [[rv0|]|e]; reflexivity.
Qed.

Definition final_sort (ref : option Q) (rows : list row) : list row :=
  match ref with None => sort_rows w_value true rows | Some _ => sort_rows w_delta false rows end.

Lemma rank_models_table base models rows :
  NoDup (map c_name (base :: models)) ->
  rank_models logf isf okf cf base models = Ok rows ->
  exists ref vs,
    spec_value logf okf cf 0 base = Ok ref /\
    mapi_res (spec_elig logf isf okf cf base (base :: models) ref) 0 (base :: models) = Ok vs /\
    precheck cf models = None /\
    rows = final_sort ref (map (spec_row ref vs) (combine (base :: models) vs)).
Proof.
  intros ND H. unfold rank_models in H.
  destruct (precheck cf models) eqn:EP; [discriminate|].
  rewrite get_ref_spec in H.
  destruct (spec_value logf okf cf 0 base) as [ref|e] eqn:ER; [|discriminate].
  rewrite process_all_spec in H by apply incl_refl.
  remember (base :: models) as all eqn:EA.
  destruct (mapi_res (spec_elig logf isf okf cf base all ref) 0 all) as [vs|e] eqn:EM; [|discriminate].
  exists ref, vs. split; [reflexivity|]. split; [exact EM|]. split; [reflexivity|].
  injection H as <-.
  assert (LEN : length vs = length all) by (eapply mapi_res_length; exact EM).
  set (lv := combine all vs).
  set (entries := entries_of ref lv).
  assert (NDlv : NoDup (map (fun p : cand * option Q => c_name (fst p)) lv)).
  { unfold lv. rewrite <- (map_combine_fst c_name all vs LEN). exact ND. }
  assert (NDe : NoDup (map (fun e => c_name (e_c e)) entries)) by (apply entries_names_nodup; exact NDlv).
  set (key := sort_key ref).
  set (g := fun e : entry => (c_name (e_c e), key e)).
  set (sorted := sort_desc key entries).
  set (L := map g sorted).
  assert (RK : comp_rank 0 0 None L = map (fun e => (c_name (e_c e), 0 + 0 + 1 + cgt (key e) L)) sorted).
  { rewrite comp_rank_spec.
    - unfold L at 2. rewrite map_map. reflexivity.
    - unfold L. apply StronglySorted_map. apply (sort_desc_sorted key entries).
    - intros p Hp. discriminate. }
  assert (ROWS : map (fun m => mkRow (c_name m)
                      (match lookup (c_name m) (map (fun e => (c_name (e_c e), e_delta e)) entries) with
                       | Some d => d | None => None end)
                      (lookup (c_name m) (map (fun e => (c_name (e_c e), e_value e)) entries))
                      (lookup (c_name m) (comp_rank 0 0 None L))) all
                 = map (spec_row ref vs) lv).
  { unfold lv at 1. rewrite (map_combine_fst _ all vs LEN). fold lv.
    apply map_ext_in. intros [c o] Hin. cbn beta. cbn [fst]. unfold entries.
    rewrite (lookup_entries e_delta ref lv c o NDlv Hin).
    rewrite (lookup_entries e_value ref lv c o NDlv Hin).
    rewrite RK.
    rewrite <- (lookup_perm (c_name c) (map (fun e => (c_name (e_c e), 0 + 0 + 1 + cgt (key e) L)) (entries_of ref lv))).
    2:{ rewrite map_map. cbn [fst]. exact NDe. }
    2:{ apply Permutation_map. apply Permutation_sym. apply sort_desc_perm. }
    rewrite (lookup_entries (fun e => 0 + 0 + 1 + cgt (key e) L) ref lv c o NDlv Hin).
    unfold spec_row. cbn [fst snd].
    destruct o as [v|]; cbn [entry_of e_delta e_value]; [|reflexivity].
    f_equal. f_equal.
    assert (C : cgt (key (mkEntry c v (ominus ref v))) L = count_better v vs).
    { unfold L. rewrite (cgt_perm _ _ (map g entries)) by (apply Permutation_map; apply sort_desc_perm).
      unfold g, key, entries. rewrite cgt_entries. unfold lv. rewrite map_snd_combine by exact LEN. reflexivity. }
    rewrite C. reflexivity. }
  unfold final_sort. destruct ref; (f_equal; exact ROWS).
Qed.
End Table.

(* ---------- consequences for the returned table *)
Lemma count_better_perm v l l' : Permutation l l' -> count_better v l = count_better v l'.
Proof.
  unfold count_better. induction 1 as [|x l l' P IH|x y l|l l' l'' P1 IH1 P2 IH2]; cbn [filter].
  - reflexivity.
  - destruct x as [w|]; [destruct (Qlt_bool w v)|]; cbn [length]; congruence.
  - destruct x as [w|], y as [u|]; try destruct (Qlt_bool w v); try destruct (Qlt_bool u v); reflexivity.
  - congruence.
Qed.

Lemma spec_row_value ref vs p : w_value (spec_row ref vs p) = snd p.
Proof. unfold spec_row. destruct (snd p); reflexivity. Qed.
Lemma spec_row_name ref vs p : w_name (spec_row ref vs p) = c_name (fst p).
Proof. unfold spec_row. destruct (snd p); reflexivity. Qed.

Lemma nb_listed_ok ref a b :
  match ref with
  | None => nb w_value true a b
  | Some _ => nb w_delta false a b
  end -> listed_before_ok ref a b.
Proof.
  unfold nb, listed_before_ok, ole, oge, before.
  destruct ref; [destruct (w_delta a), (w_delta b)|destruct (w_value a), (w_value b)]; intro H;
    try exact I; try discriminate; apply Qlt_bool_false in H; exact H.
Qed.

Lemma StronglySorted_impl {A} (R R' : A -> A -> Prop) l :
  (forall a b, R a b -> R' a b) -> StronglySorted R l -> StronglySorted R' l.
Proof.
  intros HR. induction 1 as [|a l S IH F]; constructor; [exact IH|].
  eapply Forall_impl; [|exact F]. intros b. apply HR.
Qed.

Lemma final_sort_sorted ref l : StronglySorted (listed_before_ok ref) (final_sort ref l).
Proof.
  unfold final_sort. destruct ref as [r|].
  - eapply StronglySorted_impl; [|apply sort_rows_sorted]. intros a b H. apply (nb_listed_ok (Some r)). exact H.
  - eapply StronglySorted_impl; [|apply sort_rows_sorted]. intros a b H. apply (nb_listed_ok None). exact H.
Qed.
Lemma final_sort_perm ref l : Permutation (final_sort ref l) l.
Proof. unfold final_sort. destruct ref; apply sort_rows_perm. Qed.

Lemma mapi_res_nth {A B} (f : nat -> A -> res B) l : forall i0 vs j a,
  mapi_res f i0 l = Ok vs -> nth_error l j = Some a ->
  exists b, nth_error vs j = Some b /\ f (i0 + j) a = Ok b.
Proof.
  induction l as [|x tl IH]; intros i0 vs j a H N; [destruct j; discriminate|].
  cbn [mapi_res] in H. destruct (f i0 x) as [b|e] eqn:E; [|discriminate].
  destruct (mapi_res f (S i0) tl) as [bs|e] eqn:E2; [|discriminate]. injection H as <-.
  destruct j as [|j]; cbn [nth_error] in *.
  - injection N as <-. exists b. split; [reflexivity|]. rewrite Nat.add_0_r. exact E.
  - destruct (IH (S i0) bs j a E2 N) as [b' [H1 H2]]. exists b'. split; [exact H1|].
    replace (i0 + S j) with (S i0 + j) by lia. exact H2.
Qed.

Lemma nth_error_combine {A B} (l : list A) : forall (vs : list B) j a b,
  nth_error l j = Some a -> nth_error vs j = Some b -> In (a, b) (combine l vs).
Proof.
  induction l as [|x tl IH]; intros [|v vs] [|j] a b H1 H2; cbn in *; try discriminate.
  - injection H1 as <-. injection H2 as <-. left. reflexivity.
  - right. eapply IH; eassumption.
Qed.

Lemma find_unique (rows : list row) r :
  NoDup (map w_name rows) -> In r rows -> row_of rows (w_name r) = Some r.
Proof.
  unfold row_of. induction rows as [|x tl IH]; intros ND Hin; [contradiction|].
  cbn [map] in ND. inversion ND as [|? ? NI ND']; subst. cbn [find].
  destruct Hin as [<-|Hin]; [rewrite Pos.eqb_refl; reflexivity|].
  destruct (Pos.eqb (w_name x) (w_name r)) eqn:E.
  - apply Pos.eqb_eq in E. exfalso. apply NI. rewrite E. apply in_map. exact Hin.
  - apply IH; assumption.
Qed.

(* count_better is monotone, strictly so past a listed value *)
Lemma count_better_le v1 v2 l : (v1 <= v2)%Q -> count_better v1 l <= count_better v2 l.
Proof.
  intro L. unfold count_better. induction l as [|[w|] tl IH]; cbn [filter length]; [lia| |exact IH].
  destruct (Qlt_bool w v1) eqn:E1.
  - apply Qlt_bool_iff in E1. assert (E2 : Qlt_bool w v2 = true) by (apply Qlt_bool_iff; lra).
    rewrite E2. cbn [length]. lia.
  - destruct (Qlt_bool w v2); cbn [length]; lia.
Qed.
Lemma count_better_lt v1 v2 l : (v1 < v2)%Q -> In (Some v1) l -> count_better v1 l < count_better v2 l.
Proof.
  intros L. unfold count_better. induction l as [|[w|] tl IH]; intro Hin; [contradiction| |].
  - cbn [filter]. destruct Hin as [Hin|Hin].
    + injection Hin as ->.
      assert (E1 : Qlt_bool v1 v1 = false) by (apply Qlt_bool_false; lra).
      assert (E2 : Qlt_bool v1 v2 = true) by (apply Qlt_bool_iff; exact L).
      rewrite E1, E2. cbn [length].
      pose proof (count_better_le v1 v2 tl) as M. unfold count_better in M. specialize (M ltac:(lra)). lia.
    + specialize (IH Hin).
      destruct (Qlt_bool w v1) eqn:E1.
      * apply Qlt_bool_iff in E1. assert (E2 : Qlt_bool w v2 = true) by (apply Qlt_bool_iff; lra).
        rewrite E2. cbn [length]. lia.
      * destruct (Qlt_bool w v2); cbn [length]; lia.
  - destruct Hin as [Hin|Hin]; [discriminate|]. cbn [filter]. apply IH. exact Hin.
Qed.
Lemma count_better_eq v1 v2 l : (v1 == v2)%Q -> count_better v1 l = count_better v2 l.
Proof.
  intro E. apply Nat.le_antisymm; apply count_better_le; lra.
Qed.
Lemma count_better_zero v l : (forall w, In (Some w) l -> (v <= w)%Q) -> count_better v l = 0.
Proof.
  unfold count_better. induction l as [|[w|] tl IH]; intro H; cbn [filter]; [reflexivity| |].
  - assert (E : Qlt_bool w v = false) by (apply Qlt_bool_false, H; left; reflexivity).
    rewrite E. apply IH. intros u Hu. apply H. right. exact Hu.
  - apply IH. intros u Hu. apply H. right. exact Hu.
Qed.

(* Series.idxmin *)
Lemma idxmin_from_spec l : forall best,
  match idxmin_from l best with
  | None => best = None /\ forall r, In r l -> w_rank r = None
  | Some (n, k) =>
      (best = Some (n, k) \/ exists r, In r l /\ w_name r = n /\ w_rank r = Some k)
      /\ (forall r k', In r l -> w_rank r = Some k' -> k <= k')
      /\ (forall n' k', best = Some (n', k') -> k <= k')
  end.
Proof.
  induction l as [|x tl IH]; intro best; cbn [idxmin_from].
  - destruct best as [[n k]|].
    + split; [left; reflexivity|]. split; [intros r k' []|]. intros n' k' E. injection E as _ <-. lia.
    + split; [reflexivity|intros r []].
  - destruct (w_rank x) as [kx|] eqn:EX.
    + destruct best as [[nb kb]|].
      * destruct (Nat.ltb kx kb) eqn:EL.
        -- apply Nat.ltb_lt in EL. specialize (IH (Some (w_name x, kx))).
           destruct (idxmin_from tl (Some (w_name x, kx))) as [[n k]|]; [|destruct IH; discriminate].
           destruct IH as [H1 [H2 H3]]. specialize (H3 _ _ eq_refl).
           split; [|split].
           ++ right. destruct H1 as [H1|[r [Hr [Hn Hk]]]].
              ** injection H1 as <- <-. exists x. split; [left; reflexivity|]. split; [reflexivity|exact EX].
              ** exists r. split; [right; exact Hr|]. split; assumption.
           ++ intros r k' [<-|Hr] Hk; [rewrite EX in Hk; injection Hk as <-; exact H3|eapply H2; eassumption].
           ++ intros n' k' E. injection E as _ <-. lia.
        -- apply Nat.ltb_ge in EL. specialize (IH (Some (nb, kb))).
           destruct (idxmin_from tl (Some (nb, kb))) as [[n k]|]; [|destruct IH; discriminate].
           destruct IH as [H1 [H2 H3]]. specialize (H3 _ _ eq_refl).
           split; [|split].
           ++ destruct H1 as [H1|[r [Hr [Hn Hk]]]]; [left; exact H1|].
              right. exists r. split; [right; exact Hr|]. split; assumption.
           ++ intros r k' [<-|Hr] Hk; [rewrite EX in Hk; injection Hk as <-; lia|eapply H2; eassumption].
           ++ intros n' k' E. injection E as _ <-. exact H3.
      * specialize (IH (Some (w_name x, kx))).
        destruct (idxmin_from tl (Some (w_name x, kx))) as [[n k]|]; [|destruct IH; discriminate].
        destruct IH as [H1 [H2 H3]]. specialize (H3 _ _ eq_refl).
        split; [|split].
        -- right. destruct H1 as [H1|[r [Hr [Hn Hk]]]].
           ++ injection H1 as <- <-. exists x. split; [left; reflexivity|]. split; [reflexivity|exact EX].
           ++ exists r. split; [right; exact Hr|]. split; assumption.
        -- intros r k' [<-|Hr] Hk; [rewrite EX in Hk; injection Hk as <-; exact H3|eapply H2; eassumption].
        -- intros n' k' E. discriminate.
    + specialize (IH best). destruct (idxmin_from tl best) as [[n k]|].
      * destruct IH as [H1 [H2 H3]]. split; [|split].
        -- destruct H1 as [H1|[r [Hr [Hn Hk]]]]; [left; exact H1|].
           right. exists r. split; [right; exact Hr|]. split; assumption.
        -- intros r k' [<-|Hr] Hk; [congruence|eapply H2; eassumption].
        -- exact H3.
      * destruct IH as [H1 H2]. split; [exact H1|]. intros r [<-|Hr]; [exact EX|apply H2; exact Hr].
Qed.

(* ---------- the statements of Properties.v *)
Section Final.
Variable logf : positive -> Q.
Variable isf : Q -> positive -> option Q.
Variable okf : cand -> res bool.
Variable cf : config.

Lemma rows_char base models rows :
  names_distinct (base :: models) = true ->
  rank_models logf isf okf cf base models = Ok rows ->
  exists ref vs,
    get_ref logf okf cf base = Ok ref /\
    mapi_res (spec_elig logf isf okf cf base (base :: models) ref) 0 (base :: models) = Ok vs /\
    length vs = length (base :: models) /\
    precheck cf models = None /\
    rows = final_sort ref (map (spec_row ref vs) (combine (base :: models) vs)) /\
    Permutation rows (map (spec_row ref vs) (combine (base :: models) vs)) /\
    Permutation (map w_value rows) vs /\
    NoDup (map w_name rows).
Proof.
  intros ND H. apply names_distinct_NoDup in ND.
  destruct (rank_models_table logf isf okf cf base models rows ND H) as [ref [vs [H1 [H2 [H3 H4]]]]].
  exists ref, vs. rewrite get_ref_spec.
  assert (LEN : length vs = length (base :: models)) by (eapply mapi_res_length; exact H2).
  assert (P : Permutation rows (map (spec_row ref vs) (combine (base :: models) vs)))
    by (rewrite H4; apply final_sort_perm).
  repeat (split; [assumption|]). split.
  - rewrite (Permutation_map w_value P), map_map.
    erewrite map_ext; [rewrite map_snd_combine by exact LEN; reflexivity|]. intro p. apply spec_row_value.
  - eapply Permutation_NoDup; [apply Permutation_sym, Permutation_map, P|].
    rewrite map_map. erewrite map_ext; [|intro p; apply spec_row_name].
    rewrite <- (map_combine_fst c_name (base :: models) vs LEN). exact ND.
Qed.

Lemma rank_models_is_reference_lemma base models rows :
  names_distinct (base :: models) = true ->
  rank_models logf isf okf cf base models = Ok rows ->
  exists srows, spec_rows logf isf okf cf base models = Ok srows /\ Permutation rows srows.
Proof.
  intros ND H. destruct (rows_char base models rows ND H) as [ref [vs [H1 [H2 [_ [H3 [_ [P _]]]]]]]].
  exists (map (spec_row ref vs) (combine (base :: models) vs)). split; [|exact P].
  unfold spec_rows. unfold precheck in H3. rewrite H3. rewrite <- get_ref_spec, H1, H2. reflexivity.
Qed.

Lemma rank_sorted_lemma base models rows :
  names_distinct (base :: models) = true ->
  rank_models logf isf okf cf base models = Ok rows ->
  exists ref, get_ref logf okf cf base = Ok ref /\ StronglySorted (listed_before_ok ref) rows.
Proof.
  intros ND H. destruct (rows_char base models rows ND H) as [ref [vs [H1 [_ [_ [_ [E _]]]]]]].
  exists ref. split; [exact H1|]. rewrite E. apply final_sort_sorted.
Qed.

Lemma row_shape base models rows ref :
  names_distinct (base :: models) = true ->
  rank_models logf isf okf cf base models = Ok rows ->
  get_ref logf okf cf base = Ok ref ->
  forall r, In r rows ->
    (w_value r = None /\ w_rank r = None /\ w_delta r = None) \/
    (exists v, w_value r = Some v /\ w_rank r = Some (S (count_better v (map w_value rows))) /\ w_delta r = ominus ref v).
Proof.
  intros ND H R r Hin. destruct (rows_char base models rows ND H) as [ref' [vs [H1 [_ [_ [_ [_ [P [PV _]]]]]]]]].
  rewrite R in H1. injection H1 as <-.
  apply (Permutation_in _ P) in Hin. apply in_map_iff in Hin. destruct Hin as [p [<- _]].
  unfold spec_row. destruct (snd p) as [v|]; [right|left; repeat split].
  exists v. cbn. repeat split. f_equal. f_equal. apply count_better_perm. apply Permutation_sym. exact PV.
Qed.

Lemma rank_is_competition_lemma base models rows :
  names_distinct (base :: models) = true ->
  rank_models logf isf okf cf base models = Ok rows ->
  forall r, In r rows ->
    match w_value r with
    | Some v => w_rank r = Some (S (count_better v (map w_value rows)))
    | None => w_rank r = None
    end.
Proof.
  intros ND H r Hin.
  destruct (rows_char base models rows ND H) as [ref [_ [R _]]].
  destruct (row_shape base models rows ref ND H R r Hin) as [[E1 [E2 _]]|[v [E1 [E2 _]]]]; rewrite E1; exact E2.
Qed.

Lemma ties_share_rank_lemma base models rows :
  names_distinct (base :: models) = true ->
  rank_models logf isf okf cf base models = Ok rows ->
  forall r1 r2 v1 v2, In r1 rows -> In r2 rows -> w_value r1 = Some v1 -> w_value r2 = Some v2 ->
    (w_rank r1 = w_rank r2 <-> (v1 == v2)%Q) /\
    ((v1 < v2)%Q -> exists k1 k2, w_rank r1 = Some k1 /\ w_rank r2 = Some k2 /\ k1 < k2).
Proof.
  intros ND H r1 r2 v1 v2 I1 I2 E1 E2.
  pose proof (rank_is_competition_lemma base models rows ND H r1 I1) as C1.
  pose proof (rank_is_competition_lemma base models rows ND H r2 I2) as C2.
  rewrite E1 in C1. rewrite E2 in C2.
  assert (M1 : In (Some v1) (map w_value rows)) by (rewrite <- E1; apply in_map; exact I1).
  assert (M2 : In (Some v2) (map w_value rows)) by (rewrite <- E2; apply in_map; exact I2).
  split.
  - rewrite C1, C2. split.
    + intro E. injection E as E.
      destruct (Qlt_le_dec v1 v2) as [L|L]; [pose proof (count_better_lt v1 v2 _ L M1); lia|].
      destruct (Qlt_le_dec v2 v1) as [L'|L']; [pose proof (count_better_lt v2 v1 _ L' M2); lia|]. lra.
    + intro E. f_equal. f_equal. apply count_better_eq. exact E.
  - intro L. eexists. eexists. split; [exact C1|]. split; [exact C2|].
    pose proof (count_better_lt v1 v2 _ L M1). lia.
Qed.

Lemma failed_never_above_eligible_lemma base models rows :
  names_distinct (base :: models) = true ->
  rank_models logf isf okf cf base models = Ok rows ->
  forall l1 a l2 b, rows = l1 ++ a :: l2 -> In b l2 -> w_rank a = None -> w_rank b = None.
Proof.
  intros ND H l1 a l2 b E Hb Ha.
  destruct (rank_sorted_lemma base models rows ND H) as [ref [R S]].
  assert (Ia : In a rows) by (rewrite E; apply in_or_app; right; left; reflexivity).
  assert (Ib : In b rows) by (rewrite E; apply in_or_app; right; right; exact Hb).
  assert (LB : listed_before_ok ref a b).
  { rewrite E in S. clear -S Hb. induction l1 as [|x l1 IH]; cbn [app] in S.
    - inversion S as [|? ? _ F]; subst. rewrite Forall_forall in F. apply F. exact Hb.
    - inversion S; subst. apply IH. assumption. }
  destruct (row_shape base models rows ref ND H R a Ia) as [[A1 [A2 A3]]|[v [A1 [A2 A3]]]]; [|congruence].
  destruct (row_shape base models rows ref ND H R b Ib) as [[B1 [B2 B3]]|[w [B1 [B2 B3]]]]; [exact B2|].
  exfalso. unfold listed_before_ok in LB. destruct ref as [r|].
  - rewrite A3, B3 in LB. cbn in LB. exact LB.
  - rewrite A1, B1 in LB. cbn in LB. exact LB.
Qed.

Lemma membership_lemma base models rows :
  names_distinct (base :: models) = true ->
  rank_models logf isf okf cf base models = Ok rows ->
  Permutation (map w_name rows) (map c_name (base :: models)).
Proof.
  intros ND H. destruct (rows_char base models rows ND H) as [ref [vs [_ [_ [LEN [_ [_ [P _]]]]]]]].
  rewrite (Permutation_map w_name P), map_map.
  erewrite map_ext; [|intro p; apply spec_row_name].
  rewrite <- (map_combine_fst c_name (base :: models) vs LEN). reflexivity.
Qed.

(* a candidate's row, and exactly when it is left unranked *)
Lemma excluded_iff_lemma base models rows :
  names_distinct (base :: models) = true ->
  rank_models logf isf okf cf base models = Ok rows ->
  exists ref, get_ref logf okf cf base = Ok ref /\
  forall i c, nth_error (base :: models) i = Some c ->
    exists r, row_of rows (c_name c) = Some r /\ w_name r = c_name c /\
      (w_rank r = None <->
         spec_value logf okf cf i c = Ok None \/
         exists v, spec_value logf okf cf i c = Ok (Some v) /\
                   spec_passes isf cf base (base :: models) ref c v = Ok false) /\
      (forall v, spec_value logf okf cf i c = Ok (Some v) ->
                 spec_passes isf cf base (base :: models) ref c v = Ok true ->
                 w_value r = Some v /\ w_delta r = ominus ref v).
Proof.
  intros ND H. destruct (rows_char base models rows ND H) as [ref [vs [R [M [LEN [_ [_ [P [_ NDr]]]]]]]]].
  exists ref. split; [exact R|]. intros i c N.
  destruct (mapi_res_nth _ _ 0 vs i c M N) as [o [No Eo]]. cbn [plus] in Eo.
  pose proof (nth_error_combine _ _ _ _ _ N No) as Hin.
  set (r := spec_row ref vs (c, o)).
  assert (Ir : In r rows).
  { apply (Permutation_in _ (Permutation_sym P)). apply in_map. exact Hin. }
  assert (Nr : w_name r = c_name c) by apply spec_row_name.
  exists r. split; [rewrite <- Nr; apply find_unique; assumption|]. split; [exact Nr|].
  unfold spec_elig in Eo. unfold r, spec_row. cbn [fst snd].
  destruct (spec_value logf okf cf i c) as [[v|]|e]; [| |discriminate].
  - destruct (spec_passes isf cf base (base :: models) ref c v) as [[|]|e] eqn:EP; [| |discriminate]; injection Eo as <-; cbn.
    + split.
      * split; [intro X; discriminate X|]. intros [X|[v' [X Y]]]; [discriminate X|injection X as <-; rewrite EP in Y; discriminate Y].
      * intros v' X _. injection X as <-. split; reflexivity.
    + split.
      * split; [|reflexivity]. intros _. right. exists v. split; [reflexivity|exact EP].
      * intros v' X Y. injection X as <-. rewrite EP in Y. discriminate Y.
  - injection Eo as <-. cbn. split.
    + split; [|reflexivity]. intros _. left. reflexivity.
    + intros v X. discriminate X.
Qed.

(* the final model chosen by create_results from ANY row order of the table *)
Lemma best_is_top_eligible_lemma base models rows rows' :
  names_distinct (base :: models) = true ->
  rank_models logf isf okf cf base models = Ok rows ->
  Permutation rows' rows ->
  let b := best_of_rows (c_name base) rows' in
  ((forall r, In r rows -> w_rank r = None) /\ b = c_name base) \/
  (exists r v, In r rows /\ w_name r = b /\ w_rank r = Some 1 /\ w_value r = Some v /\
               forall r' v', In r' rows -> w_value r' = Some v' -> (v <= v')%Q).
Proof.
  intros ND H P b. unfold b, best_of_rows.
  pose proof (idxmin_from_spec rows' None) as I.
  destruct (idxmin_from rows' None) as [[n k]|].
  - right. destruct I as [[X|[r [Hr [Hn Hk]]]] [Hmin _]]; [discriminate|].
    apply (Permutation_in _ P) in Hr.
    pose proof (rank_is_competition_lemma base models rows ND H r Hr) as C.
    destruct (w_value r) as [v|] eqn:EV; [|congruence].
    assert (MIN : forall r' v', In r' rows -> w_value r' = Some v' -> (v <= v')%Q).
    { intros r' v' Hr' EV'. destruct (Qlt_le_dec v' v) as [L|L]; [|exact L]. exfalso.
      destruct (ties_share_rank_lemma base models rows ND H r' r v' v Hr' Hr EV' EV) as [_ T].
      destruct (T L) as [k1 [k2 [K1 [K2 LT]]]].
      rewrite Hk in K2. injection K2 as <-.
      assert (k <= k1) by (eapply Hmin; [eapply Permutation_in; [apply Permutation_sym; exact P|exact Hr']|exact K1]).
      lia. }
    exists r, v. split; [exact Hr|]. split; [exact Hn|]. split; [|split; [exact EV|exact MIN]].
    rewrite C. f_equal. f_equal. apply count_better_zero.
    intros w Hw. apply in_map_iff in Hw. destruct Hw as [r' [EV' Hr']]. eapply MIN; eassumption.
  - left. destruct I as [_ I]. split; [|reflexivity].
    intros r Hr. apply I. eapply Permutation_in; [apply Permutation_sym; exact P|exact Hr].
Qed.

(* NaN reference value (the base model fails): the cut-off is not applied, no delta is reported *)
Lemma rank_total_on_nan_lemma base models rows :
  names_distinct (base :: models) = true ->
  rank_models logf isf okf cf base models = Ok rows ->
  get_ref logf okf cf base = Ok None ->
  cf_rt cf <> RT_lrt ->
  forall i c v, nth_error (base :: models) i = Some c -> spec_value logf okf cf i c = Ok (Some v) ->
    exists r, row_of rows (c_name c) = Some r /\ w_value r = Some v /\ w_rank r <> None /\ w_delta r = None.
Proof.
  intros ND H R NL i c v N SV.
  destruct (excluded_iff_lemma base models rows ND H) as [ref [R' X]].
  rewrite R in R'. injection R' as <-.
  destruct (X i c N) as [r [F [_ [EX KEEP]]]].
  exists r. split; [exact F|].
  assert (PASS : spec_passes isf cf base (base :: models) None c v = Ok true \/
                 spec_passes isf cf base (base :: models) None c v = Err EInternal).
  { unfold spec_passes. destruct (Pos.eqb (c_name c) (c_name base)); [left; reflexivity|].
    destruct (cf_rt cf); try congruence; destruct (cf_cutoff cf); auto. }
  destruct PASS as [PASS|PASS].
  - destruct (KEEP v SV PASS) as [K1 K2]. split; [exact K1|]. split; [|exact K2].
    intro E. apply EX in E. destruct E as [E|[v' [E1 E2]]]; [congruence|].
    rewrite SV in E1. injection E1 as <-. congruence.
  - (* impossible: the table exists, so no candidate raised *)
    exfalso. destruct (rows_char base models rows ND H) as [ref [vs [R2 [M _]]]].
    rewrite R in R2. injection R2 as <-.
    destruct (mapi_res_nth _ _ 0 vs i c M N) as [o [_ Eo]]. cbn [plus] in Eo.
    unfold spec_elig in Eo. rewrite SV, PASS in Eo. discriminate.
Qed.
End Final.

(* ---------- strictness evaluation *)
Lemma cmpq_spec op x v :
  cmpq op x v = true <->
  match op with
  | CLt => (x < v)%Q | CLe => (x <= v)%Q | CEq => (x == v)%Q
  | CNe => ~ (x == v)%Q | CGe => (v <= x)%Q | CGt => (v < x)%Q
  end.
Proof.
  destruct op; cbn [cmpq].
  - apply Qlt_bool_iff.
  - apply Qle_bool_iff.
  - apply Qeq_bool_iff.
  - rewrite negb_true_iff. apply Qeq_bool_false.
  - apply Qle_bool_iff.
  - apply Qlt_bool_iff.
Qed.

Lemma arr_cmp_all op l v :
  op <> CNe ->
  (arr_cmp op l v = true <-> forall e, In e l -> exists x, e = Some x /\ cmpq op x v = true).
Proof.
  intro NE.
  assert (E : arr_cmp op l v = forallb (elem_cmp op v) l) by (destruct op; try reflexivity; congruence).
  rewrite E, forallb_forall. split; intros H e He; specialize (H e He).
  - destruct e as [x|]; [exists x; split; [reflexivity|exact H]|discriminate].
  - destruct H as [x [-> H]]. exact H.
Qed.
Lemma arr_cmp_ne l v : arr_cmp CNe l v = negb (arr_cmp CEq l v).
Proof. reflexivity. Qed.

Lemma uses_and a b n : uses (SAnd a b) n = uses a n || uses b n.
Proof. unfold uses. cbn [used]. apply existsb_app. Qed.
Lemma uses_or a b n : uses (SOr a b) n = uses a n || uses b n.
Proof. unfold uses. cbn [used]. apply existsb_app. Qed.

Lemma py_round_sig2_eq x : py_round_sig2 x = round53 (round_sig2 x).
Proof.
  unfold py_round_sig2, round_sig2. destruct (Qeq_bool x 0); reflexivity.
Qed.

Lemma near_target_spec_eq x b : near_target x b = spec_near_bound x b.
Proof.
  unfold near_target, spec_near_bound. rewrite !py_round_sig2_eq.
  change (Qabs zero_limit) with zero_limit. reflexivity.
Qed.

Lemma near_bounds_any_spec_eq ps l : near_bounds_any ps l = spec_near_any ps l.
Proof.
  unfold spec_near_any. induction l as [|[n v] tl IH]; [reflexivity|]. cbn [near_bounds_any].
  destruct (find (fun p => Pos.eqb (p_name p) n) ps) as [p|]; [|reflexivity].
  rewrite IH. unfold close_to_bound.
  destruct (p_lower p), (p_upper p); rewrite ?near_target_spec_eq; reflexivity.
Qed.

Lemma zero_or_nan_eq ps k r :
  any_zero (rows_of ps k (olist (r_grad r))) || any_null (rows_of ps k (olist (r_grad r))) = zero_or_nan_gradient ps k r.
Proof.
  unfold zero_or_nan_gradient, any_zero, any_null. generalize (rows_of ps k (olist (r_grad r))). intro l.
  induction l as [|row tl IH]; [reflexivity|]. cbn [existsb]. rewrite <- IH.
  destruct (snd row) as [x|]; [destruct (Qeq_bool x 0)|]; cbn [orb];
    repeat match goal with |- context [existsb ?f tl] => destruct (existsb f tl) end; reflexivity.
Qed.

Lemma bool_value_spec ps r n : bool_value ps r n = spec_bool_value ps r n.
Proof.
  destruct n; cbn [bool_value spec_bool_value]; try reflexivity;
    try (rewrite zero_or_nan_eq; reflexivity); apply near_bounds_any_spec_eq.
Qed.

Lemma seval_spec ps r e : seval ps r e = spec_seval ps r e.
Proof.
  induction e as [n|n op v|a IH|a IHa b IHb|a IHa b IHb]; cbn [seval spec_seval].
  - apply bool_value_spec.
  - reflexivity.
  - rewrite IH. reflexivity.
  - rewrite IHa, IHb. reflexivity.
  - rewrite IHa, IHb. reflexivity.
Qed.

Lemma strictness_eval_sound_lemma s c : is_strictness_fulfilled s c = spec_strictness s c.
Proof.
  unfold is_strictness_fulfilled, spec_strictness.
  destruct (c_ofv c); [|reflexivity]. destruct s as [|e|]; try reflexivity.
  destruct (setup_error e (c_res c)); [reflexivity|]. apply seval_spec.
Qed.

Lemma strictness_nan_lemma s c : c_ofv c = None -> is_strictness_fulfilled s c = Ok false.
Proof. intro H. unfold is_strictness_fulfilled. rewrite H. reflexivity. Qed.

Lemma strictness_true_has_ofv s c : is_strictness_fulfilled s c = Ok true -> exists o, c_ofv c = Some o.
Proof. unfold is_strictness_fulfilled. destruct (c_ofv c) as [o|]; [exists o; reflexivity|discriminate]. Qed.

(* for the real strictness predicate "no rank value" means "strictness not fulfilled" *)
Lemma spec_value_none_iff logf cf s i c :
  (exists t, cf_rt cf = RT_ofv \/ cf_rt cf = RT_aic \/ cf_rt cf = RT_lrt \/ cf_rt cf = RT_bic (Some t)) ->
  (spec_value logf (is_strictness_fulfilled s) cf i c = Ok None <-> is_strictness_fulfilled s c = Ok false).
Proof.
  intros [t RT]. unfold spec_value, criterion.
  destruct (is_strictness_fulfilled s c) as [[|]|e] eqn:E.
  - destruct (strictness_true_has_ofv s c E) as [o EO]. rewrite EO.
    destruct RT as [RT|[RT|[RT|RT]]]; rewrite RT; split; discriminate.
  - split; reflexivity.
  - split; discriminate.
Qed.

(* ---------- lrt under the facts about the chi-square oracles *)
Section LrtFacts.
Variable isf : Q -> positive -> option Q.
Variable sf : Q -> Z -> option Q.

Lemma lrt_df_zero_lemma p c a b alpha :
  degrees_of_freedom p c = 0%Z -> c_ofv p = Some a -> c_ofv c = Some b ->
  (lrt_test isf p c (c_ofv p) (c_ofv c) alpha = true <-> (b <= a)%Q).
Proof.
  intros D A B. unfold lrt_test, lrt_cutoff. rewrite D, A, B. rewrite Qle_bool_iff. split; intro; lra.
Qed.

Lemma lrt_more_params_lemma p c a b alpha d cut :
  degrees_of_freedom p c = Z.pos d -> c_ofv p = Some a -> c_ofv c = Some b -> isf alpha d = Some cut ->
  (lrt_test isf p c (c_ofv p) (c_ofv c) alpha = true <-> (cut <= a - b)%Q).
Proof.
  intros D A B I. unfold lrt_test, lrt_cutoff. rewrite D, A, B, I. apply Qle_bool_iff.
Qed.

Lemma lrt_fewer_params_lemma p c a b alpha d cut :
  degrees_of_freedom p c = Z.neg d -> c_ofv p = Some a -> c_ofv c = Some b -> isf alpha d = Some cut ->
  (lrt_test isf p c (c_ofv p) (c_ofv c) alpha = true <-> (b - a <= cut)%Q).
Proof.
  intros D A B I. unfold lrt_test, lrt_cutoff. rewrite D, A, B, I. rewrite Qle_bool_iff. split; intro; lra.
Qed.

Lemma lrt_nan_lemma p c po co alpha : po = None \/ co = None -> lrt_test isf p c po co alpha = false.
Proof. unfold lrt_test. intros [->| ->]; [reflexivity|destruct po; reflexivity]. Qed.

Hypothesis isf_pos : forall a d v, isf a d = Some v -> (0 < v)%Q.
Lemma lrt_must_improve_lemma p c a b alpha d :
  degrees_of_freedom p c = Z.pos d -> c_ofv p = Some a -> c_ofv c = Some b ->
  lrt_test isf p c (c_ofv p) (c_ofv c) alpha = true -> (b < a)%Q.
Proof.
  intros D A B T. unfold lrt_test, lrt_cutoff in T. rewrite D, A, B in T.
  destruct (isf alpha d) as [cut|] eqn:I; [|discriminate].
  apply Qle_bool_iff in T. pose proof (isf_pos _ _ _ I). lra.
Qed.

Hypothesis isf_antitone : forall a1 a2 d v1 v2, (a1 <= a2)%Q -> isf a1 d = Some v1 -> isf a2 d = Some v2 -> (v2 <= v1)%Q.
Lemma lrt_stricter_alpha_lemma p c a1 a2 d v2 :
  degrees_of_freedom p c = Z.pos d -> (a1 <= a2)%Q -> isf a2 d = Some v2 ->
  lrt_test isf p c (c_ofv p) (c_ofv c) a1 = true -> lrt_test isf p c (c_ofv p) (c_ofv c) a2 = true.
Proof.
  intros D L I2 T. unfold lrt_test, lrt_cutoff in *. rewrite D in *.
  destruct (c_ofv p) as [a|]; [|discriminate]. destruct (c_ofv c) as [b|]; [|discriminate].
  destruct (isf a1 d) as [v1|] eqn:I1; [|discriminate]. rewrite I2.
  apply Qle_bool_iff in T. apply Qle_bool_iff. pose proof (isf_antitone _ _ _ _ _ L I1 I2). lra.
Qed.

Hypothesis sf_isf : forall x d a v pv, isf a d = Some v -> sf x (Z.pos d) = Some pv -> ((pv <= a)%Q <-> (v <= x)%Q).
Lemma lrt_test_iff_pvalue_lemma p c alpha d cut pv :
  degrees_of_freedom p c = Z.pos d -> isf alpha d = Some cut ->
  p_value sf p c (c_ofv p) (c_ofv c) = Some pv ->
  (lrt_test isf p c (c_ofv p) (c_ofv c) alpha = true <-> (pv <= alpha)%Q).
Proof.
  intros D I PV. unfold p_value in PV. unfold lrt_test, lrt_cutoff. rewrite D in *.
  destruct (c_ofv p) as [a|]; [|discriminate]. destruct (c_ofv c) as [b|]; [|discriminate].
  rewrite I. rewrite Qle_bool_iff. symmetry. apply (sf_isf _ _ _ _ _ I PV).
Qed.
End LrtFacts.

(* ---------- best_of_two / best_of_many *)
Lemma nanargmin_from_spec l : forall i best,
  match nanargmin_from l i best with
  | None => best = None /\ forall o, In o l -> o = None
  | Some (j, x) =>
      (best = Some (j, x) \/ (i <= j /\ nth_error l (j - i) = Some (Some x)))
      /\ (forall y, In (Some y) l -> (x <= y)%Q)
      /\ (forall jb b, best = Some (jb, b) -> (x <= b)%Q)
  end.
Proof.
  induction l as [|[x|] tl IH]; intros i best; cbn [nanargmin_from].
  - destruct best as [[j b]|].
    + split; [left; reflexivity|]. split; [intros y []|]. intros jb b' E. injection E as _ <-. lra.
    + split; [reflexivity|intros o []].
  - assert (SHIFT : forall j, S i <= j -> nth_error tl (j - S i) = nth_error (Some x :: tl) (j - i)).
    { intros j L. replace (j - i) with (S (j - S i)) by lia. reflexivity. }
    destruct best as [[jb b]|].
    + destruct (Qlt_bool x b) eqn:E.
      * apply Qlt_bool_iff in E. specialize (IH (S i) (Some (i, x))).
        destruct (nanargmin_from tl (S i) (Some (i, x))) as [[j m]|]; [|destruct IH; discriminate].
        destruct IH as [H1 [H2 H3]]. specialize (H3 _ _ eq_refl). split; [|split].
        -- right. destruct H1 as [H1|[L N]].
           ++ injection H1 as <- <-. split; [lia|]. rewrite Nat.sub_diag. reflexivity.
           ++ split; [lia|]. rewrite <- SHIFT by exact L. exact N.
        -- intros y [Hy|Hy]; [injection Hy as <-; exact H3|apply H2; exact Hy].
        -- intros jb' b' X. injection X as _ <-. lra.
      * apply Qlt_bool_false in E. specialize (IH (S i) (Some (jb, b))).
        destruct (nanargmin_from tl (S i) (Some (jb, b))) as [[j m]|]; [|destruct IH; discriminate].
        destruct IH as [H1 [H2 H3]]. specialize (H3 _ _ eq_refl). split; [|split].
        -- destruct H1 as [H1|[L N]]; [left; exact H1|]. right. split; [lia|]. rewrite <- SHIFT by exact L. exact N.
        -- intros y [Hy|Hy]; [injection Hy as <-; lra|apply H2; exact Hy].
        -- intros jb' b' X. injection X as _ <-. exact H3.
    + specialize (IH (S i) (Some (i, x))).
      destruct (nanargmin_from tl (S i) (Some (i, x))) as [[j m]|]; [|destruct IH; discriminate].
      destruct IH as [H1 [H2 H3]]. specialize (H3 _ _ eq_refl). split; [|split].
      * right. destruct H1 as [H1|[L N]].
        -- injection H1 as <- <-. split; [lia|]. rewrite Nat.sub_diag. reflexivity.
        -- split; [lia|]. rewrite <- SHIFT by exact L. exact N.
      * intros y [Hy|Hy]; [injection Hy as <-; exact H3|apply H2; exact Hy].
      * intros jb' b' X. discriminate.
  - specialize (IH (S i) best).
    assert (SHIFT : forall j, S i <= j -> nth_error tl (j - S i) = nth_error (None :: tl) (j - i)).
    { intros j L. replace (j - i) with (S (j - S i)) by lia. reflexivity. }
    destruct (nanargmin_from tl (S i) best) as [[j m]|].
    + destruct IH as [H1 [H2 H3]]. split; [|split].
      * destruct H1 as [H1|[L N]]; [left; exact H1|]. right. split; [lia|]. rewrite <- SHIFT by exact L. exact N.
      * intros y [Hy|Hy]; [discriminate|apply H2; exact Hy].
      * exact H3.
    + destruct IH as [H1 H2]. split; [exact H1|]. intros o [<-|Ho]; [reflexivity|apply H2; exact Ho].
Qed.

Lemma best_of_many_lemma isf parent models po ofvs alpha :
  (forall o, In o ofvs -> o = None) /\ best_of_many isf parent models po ofvs alpha = Some parent
  \/
  exists i x, nth_error ofvs i = Some (Some x) /\ (forall y, In (Some y) ofvs -> (x <= y)%Q) /\
    best_of_many isf parent models po ofvs alpha =
    match nth_error models i with
    | Some m => Some (if lrt_test isf parent m po (Some x) alpha then m else parent)
    | None => None
    end.
Proof.
  unfold best_of_many, nanargmin. pose proof (nanargmin_from_spec ofvs 0 None) as S.
  destruct (nanargmin_from ofvs 0 None) as [[i x]|].
  - right. destruct S as [[X|[_ N]] [M _]]; [discriminate|]. rewrite Nat.sub_0_r in N.
    exists i, x. split; [exact N|]. split; [exact M|]. reflexivity.
  - left. destruct S as [_ S]. split; [exact S|reflexivity].
Qed.

Lemma bic_def_lemma logf c o :
  calculate_bic logf (Some BFixed) c o = Ok (o + natQ (count_estimated (c_params c)) * logf (c_nobs c))%Q /\
  calculate_bic logf (Some BRandom) c o = Ok (o + natQ (count_estimated (c_params c)) * logf (c_nsubs c))%Q /\
  calculate_bic logf (Some BIiv) c o =
    Ok (o + natQ (length (filter (fun p => negb (p_fix p) && is_iiv (p_kind p)) (c_params c))) * logf (c_nsubs c))%Q /\
  calculate_bic logf (Some BMixed) c o =
    Ok (o + (natQ (c_nrandm c) * logf (c_nsubs c) + natQ (c_nfixm c) * logf (c_nobs c)))%Q /\
  calculate_bic logf None c o = Err EValue.
Proof.
  repeat split. unfold calculate_bic, bic_penalty, niiv, nonfixed.
  do 3 f_equal. f_equal. generalize (c_params c). intro l.
  induction l as [|p tl IH]; [reflexivity|]. cbn [filter].
  destruct (p_fix p); cbn [negb andb filter]; [exact IH|].
  destruct (is_iiv (p_kind p)); cbn [length]; rewrite IH; reflexivity.
Qed.

(* ---------- calculate_bic_penalty, summaries *)
From PV Require Import C19.Penalty C19.Summary.

Lemma penalty_zero_lemma logq p q Ep Eq l1 l2 :
  logq (inject_Z 1 / match Ep with Some e => e | None => 1 end)%Q = Some l1 ->
  logq (inject_Z 1 / match Eq with Some e => e | None => 1 end)%Q = Some l2 ->
  (forall e, Ep = Some e -> Qeq_bool e 0 = false) -> (forall e, Eq = Some e -> Qeq_bool e 0 = false) ->
  exists v, penalty_formula logq p 0 q 0 Ep Eq = Ok v /\ (v == 0)%Q.
Proof.
  intros L1 L2 N1 N2. unfold penalty_formula. cbn [Z.eqb].
  assert (E1 : Qeq_bool (match Ep with Some e => e | None => 1 end) 0 = false)
    by (destruct Ep as [e|]; [apply N1; reflexivity|reflexivity]).
  assert (E2 : Qeq_bool (match Eq with Some e => e | None => 1 end) 0 = false)
    by (destruct Eq as [e|]; [apply N2; reflexivity|reflexivity]).
  rewrite E1, L1, E2, L2. eexists. split; [reflexivity|]. cbn [inject_Z]. ring.
Qed.

Lemma penalty_formula_def_lemma logq p kp q kq Ep Eq v :
  penalty_formula logq p kp q kq (Some Ep) (Some Eq) = Ok v ->
  exists l1 l2,
    logq (inject_Z (if Z.eqb kp 0 then 1 else p) / Ep)%Q = Some l1 /\
    logq (inject_Z (if Z.eqb kq 0 then 1 else q) / Eq)%Q = Some l2 /\
    v = (2 * inject_Z kp * l1 + 2 * inject_Z kq * l2)%Q.
Proof.
  unfold penalty_formula. intro H.
  destruct (Qeq_bool Ep 0); [discriminate|].
  destruct (logq (inject_Z (if Z.eqb kp 0 then 1 else p) / Ep)%Q) as [l1|]; [|discriminate].
  destruct (Qeq_bool Eq 0); [discriminate|].
  destruct (logq (inject_Z (if Z.eqb kq 0 then 1 else q) / Eq)%Q) as [l2|]; [|discriminate].
  injection H as <-. exists l1, l2. repeat split.
Qed.

Lemma last_of_step_spec {A} step (l : list (nat * A)) v :
  last_of_step step l = Some v <->
  exists l1 l2, l = l1 ++ (step, v) :: l2 /\ forall x, In x l2 -> fst x <> step.
Proof.
  unfold last_of_step. split.
  - intro H. induction l as [|[s a] tl IH] using rev_ind; [discriminate|].
    rewrite filter_app, rev_app_distr in H. cbn [filter fst] in H.
    destruct (Nat.eqb s step) eqn:E.
    + apply Nat.eqb_eq in E. subst. cbn in H. injection H as <-. exists tl, []. split; [reflexivity|intros x []].
    + cbn [rev app] in H. destruct (IH H) as [l1 [l2 [-> N]]].
      exists l1, (l2 ++ [(s, a)]). split; [rewrite <- app_assoc; reflexivity|].
      intros x Hx. apply in_app_iff in Hx. destruct Hx as [Hx|[<-|[]]]; [apply N; exact Hx|].
      cbn. apply Nat.eqb_neq. exact E.
  - intros [l1 [l2 [-> N]]]. rewrite filter_app. cbn [filter fst]. rewrite Nat.eqb_refl.
    assert (F : filter (fun p : nat * A => Nat.eqb (fst p) step) l2 = []).
    { clear -N. induction l2 as [|x tl IH]; [reflexivity|]. cbn [filter].
      assert (Nat.eqb (fst x) step = false) by (apply Nat.eqb_neq, N; left; reflexivity).
      rewrite H. apply IH. intros y Hy. apply N. right. exact Hy. }
    rewrite F, rev_app_distr. reflexivity.
Qed.

Lemma summary_final_lemma name r row :
  summarize_step name r None = Ok row ->
  sr_minsucc row = match s_minsucc r with Some b => b | None => false end /\
  sr_nerr row = s_nerr r /\ sr_nwarn row = s_nwarn r /\ sr_step row = None /\
  sr_runtime_total row = s_runtime_total r /\
  match s_ofv_iter r with
  | None => sr_ofv row = s_ofv r
  | Some t => last_of_step (max_step t) t = Some (sr_ofv row)
  end /\
  match s_est_runtime_iter r with
  | None => sr_est_runtime row = s_runtime_total r
  | Some l => match s_ofv_iter r with
              | Some t => nth_error l (max_step t - 1) = Some (sr_est_runtime row)
              | None => nth_error (rev l) 0 = Some (sr_est_runtime row)
              end
  end.
Proof.
  unfold summarize_step. intro H.
  destruct (s_ofv_iter r) as [t|] eqn:ET; destruct (s_est_runtime_iter r) as [l|] eqn:EL;
    repeat match type of H with
           | match (match ?X with _ => _ end) with _ => _ end = _ => destruct X eqn:?; try discriminate
           | match ?X with _ => _ end = _ => destruct X eqn:?; try discriminate
           end;
    injection H as <-; cbn; repeat split; congruence.
Qed.

(* ---------- _categorize_parameters *)
From PV Require Import Base.PyData Base.Expr Base.Interp C19.Categorize.

Definition cat_inv (pop : list id) (st : list id * list id) : Prop :=
  (forall x, In x (fst st) -> ~ In x (snd st)) /\ (forall x, In x (fst st) \/ In x (snd st) -> In x pop).

Lemma In_interp_l x a b : In x (interp_l a b) <-> In x a /\ In x b.
Proof. unfold interp_l. rewrite filter_In, memp_In. tauto. Qed.

Lemma cat_step_inv pop etas symbols cur st :
  (forall x, In x cur -> In x pop) -> cat_inv pop st -> cat_inv pop (cat_step etas symbols cur st).
Proof.
  intros HC [D S]. destruct st as [f r]. unfold cat_step. cbn [fst snd] in *.
  destruct (interp_nonempty symbols etas); split; cbn [fst snd].
  - intros x Hf Hr. apply In_diffp in Hf. destruct Hf as [Hf Hn]. apply In_unionp in Hr.
    destruct Hr as [Hr|Hr]; [apply (D x Hf Hr)|contradiction].
  - intros x [H|H]; [apply In_diffp in H; apply S; left; apply H|].
    apply In_unionp in H. destruct H as [H|H]; [apply S; right; exact H|apply HC; exact H].
  - intros x Hf Hr. apply In_unionp in Hf. destruct Hf as [Hf|Hf]; [apply (D x Hf Hr)|].
    apply In_diffp in Hf. destruct Hf as [_ Hn]. contradiction.
  - intros x [H|H]; [|apply S; right; exact H].
    apply In_unionp in H. destruct H as [H|H]; [apply S; left; exact H|].
    apply In_diffp in H. apply HC. apply H.
Qed.

Lemma fold_left_inv {A B} (P : A -> Prop) (f : A -> B -> A) l : forall a,
  P a -> (forall a b, P a -> P (f a b)) -> P (fold_left f l a).
Proof. induction l as [|b tl IH]; intros a Ha Hf; cbn [fold_left]; [exact Ha|]. apply IH; [apply Hf; exact Ha|exact Hf]. Qed.

Lemma categorize_inv m : cat_inv (cm_nonfixed m) (categorize m).
Proof.
  unfold categorize. apply fold_left_inv.
  - apply fold_left_inv.
    + split; cbn [fst snd]; [intros x []|]. intros x [[]|H]. apply In_interp_l in H. apply H.
    + intros st ip Hst. apply cat_step_inv; [|exact Hst]. intros x H. apply In_interp_l in H. apply H.
  - intros st y Hst. apply cat_step_inv; [|exact Hst].
    intros x H. apply In_unionp in H. destruct H as [H|H]; apply In_interp_l in H; apply H.
Qed.

Lemma cat_step_random etas symbols cur f r :
  interp_nonempty symbols etas = true ->
  forall x, In x cur -> In x (snd (cat_step etas symbols cur (f, r))) /\ ~ In x (fst (cat_step etas symbols cur (f, r))).
Proof.
  intros E x Hx. unfold cat_step. rewrite E. cbn [fst snd]. split.
  - apply In_unionp. right. exact Hx.
  - intro H. apply In_diffp in H. destruct H as [_ H]. contradiction.
Qed.
Lemma cat_step_fixed etas symbols cur f r :
  interp_nonempty symbols etas = false ->
  snd (cat_step etas symbols cur (f, r)) = r /\
  forall x, In x cur -> ~ In x r -> In x (fst (cat_step etas symbols cur (f, r))).
Proof.
  intros E. unfold cat_step. rewrite E. cbn [fst snd]. split; [reflexivity|].
  intros x Hx Hn. apply In_unionp. right. apply In_diffp. split; assumption.
Qed.

Lemma zero_eta_constant m d eta :
  In d (cm_rvs m) -> is_zero_dist m d = true -> In eta (rd_names d) ->
  alook (zero_syms m) [] eta = AConst (Some 0%Q).
Proof.
  intros Hd Hz He. unfold alook. cbn [alookup_v].
  assert (M : memp eta (zero_syms m) = true).
  { apply memp_In. unfold zero_syms. apply in_flat_map. exists d. split.
    - apply filter_In. split; assumption.
    - apply in_or_app. right. exact He. }
  rewrite M. reflexivity.
Qed.
Lemma amul_zero_l v : amul (AConst (Some 0%Q)) v = AConst (Some 0%Q).
Proof. destruct v as [[q|]|s]; reflexivity. Qed.
Lemma amul_zero_r v : amul v (AConst (Some 0%Q)) = AConst (Some 0%Q).
Proof.
  destruct v as [[q|]|s]; unfold amul; try reflexivity.
  f_equal. f_equal. transitivity (Qred 0); [apply Qred_complete; ring|reflexivity].
Qed.
Lemma zero_factor_vanishes look eta a :
  look eta = AConst (Some 0%Q) ->
  aeval look (Mul (Sym eta) a) = AConst (Some 0%Q) /\ aeval look (Mul a (Sym eta)) = AConst (Some 0%Q)
  /\ aeval look (Fn1 F_EXP (Sym eta)) = AConst (Some 1%Q).
Proof.
  intro H. cbn [aeval]. rewrite H. repeat split; [apply amul_zero_l|apply amul_zero_r].
Qed.

Lemma bic_mixed_over_categorize_lemma logf c m o :
  c_nrandm c = cat_nrand m -> c_nfixm c = cat_nfix m ->
  calculate_bic logf (Some BMixed) c o =
  Ok (o + (natQ (length (normp (snd (categorize m)))) * logf (c_nsubs c)
           + natQ (length (normp (fst (categorize m)))) * logf (c_nobs c)))%Q.
Proof.
  intros H1 H2. unfold calculate_bic, bic_penalty. rewrite H1, H2. reflexivity.
Qed.

(* ---------- comparing the rounded decimals as doubles is comparing the decimals (bounded domain, by computation) *)
Fixpoint zrange (lo : Z) (n : nat) : list Z := match n with O => [] | S k => lo :: zrange (lo + 1)%Z k end.
Definition sig2_decimals_list : list Q :=
  flat_map (fun e => map (fun m => (inject_Z m * Qpower 10 e)%Q) (zrange 10 90)) (zrange (-15) 31).
Fixpoint incr (l : list Q) : bool :=
  match l with
  | a :: ((b :: _) as tl) => Qlt_bool a b && incr tl
  | _ => true
  end.

Lemma incr_sorted l : incr l = true -> StronglySorted Qlt l.
Proof.
  induction l as [|a tl IH]; intro H; [constructor|].
  destruct tl as [|b tl']; [constructor; constructor|].
  cbn [incr] in H. apply andb_true_iff in H. destruct H as [H1 H2]. apply Qlt_bool_iff in H1.
  specialize (IH H2). constructor; [exact IH|].
  inversion IH as [|? ? S F]; subst. constructor; [exact H1|].
  rewrite Forall_forall in *. intros y Hy. specialize (F y Hy). lra.
Qed.

Lemma sorted_map_injective (f : Q -> Q) l :
  StronglySorted Qlt (map f l) -> forall a b, In a l -> In b l -> (f a == f b)%Q -> a = b.
Proof.
  induction l as [|x tl IH]; intros S a b Ha Hb E; [contradiction|].
  cbn [map] in S. inversion S as [|? ? S' F]; subst. rewrite Forall_forall in F.
  destruct Ha as [<-|Ha], Hb as [<-|Hb].
  - reflexivity.
  - exfalso. assert (f x < f b)%Q by (apply F, in_map, Hb). lra.
  - exfalso. assert (f x < f a)%Q by (apply F, in_map, Ha). lra.
  - apply IH; assumption.
Qed.

Lemma round53_separates_lemma :
  forall a b, In a sig2_decimals_list -> In b sig2_decimals_list -> (round53 a == round53 b)%Q -> a = b.
Proof.
  apply sorted_map_injective. apply incr_sorted. vm_compute. reflexivity.
Qed.

(* ---------- summarize_errors *)
Lemma ins_erow_perm x l : Permutation (ins_erow x l) (x :: l).
Proof.
  induction l as [|y tl IH]; cbn [ins_erow]; [reflexivity|].
  destruct (erow_lt y x); [|reflexivity]. rewrite IH. apply perm_swap.
Qed.
Lemma summarize_errors_perm entries : Permutation (summarize_errors entries) (error_rows entries).
Proof.
  unfold summarize_errors. generalize (error_rows entries). intro l.
  induction l as [|x tl IH]; cbn [fold_right]; [reflexivity|]. rewrite ins_erow_perm. constructor. exact IH.
Qed.
Lemma enum_from_spec {A} (l : list A) : forall i k x, nth_error l k = Some x -> In (i + k, x) (enum_from i l).
Proof.
  induction l as [|y tl IH]; intros i [|k] x H; cbn in *; try discriminate.
  - injection H as <-. left. f_equal. lia.
  - right. replace (i + S k) with (S i + k) by lia. apply IH. exact H.
Qed.
Lemma summarize_errors_complete_lemma entries name log k c m :
  In (name, Some log) entries -> nth_error log k = Some (c, m) ->
  In (mkErow name c k m) (summarize_errors entries).
Proof.
  intros He Hk. apply (Permutation_in _ (Permutation_sym (summarize_errors_perm entries))).
  unfold error_rows. apply in_flat_map. exists (name, Some log). split; [exact He|]. cbn [snd fst].
  apply in_map_iff. exists (k, (c, m)). split; [reflexivity|]. apply (enum_from_spec log 0 k (c, m) Hk).
Qed.

(* ---------- MFL penalty counting *)
Lemma mfl_counts_sum m e :
  elim_counts (mf_elim m) = Ok e ->
  mfl_counts m = Ok ((fst (abs_counts (mf_abs m)) + (fst e + (fst (trans_counts (mf_trans m))
                       + (fst (per_counts (mf_per m)) + fst (lag_counts (mf_lag m))))))%Z,
                     (snd (abs_counts (mf_abs m)) + (snd e + (snd (trans_counts (mf_trans m))
                       + (snd (per_counts (mf_per m)) + snd (lag_counts (mf_lag m))))))%Z).
Proof. intro H. unfold mfl_counts. rewrite H. reflexivity. Qed.

Lemma mfl_single_option_lemma ab el tr pe la a c e ce ssd cnts cd c0 pc on :
  ab = Some ([a], c) -> el = Some ([e], ce) -> tr = Some (1, ssd, cnts, cd, c0) -> pe = Some (1, pc) -> la = Some (1, on) ->
  mfl_counts (mkMfl ab el tr pe la) = Ok (0, 0)%Z.
Proof. intros -> -> -> -> ->. reflexivity. Qed.

Lemma lag_counts_def len on : len <> 1 -> lag_counts (Some (len, on)) = (1%Z, if on then 1%Z else 0%Z).
Proof. intro H. unfold lag_counts. destruct (Nat.eqb_spec len 1); [contradiction|reflexivity]. Qed.
Lemma per_counts_def len c0 : len <> 1 -> per_counts (Some (len, c0)) = ((Z.of_nat len - 1)%Z, c0).
Proof. intro H. unfold per_counts. destruct (Nat.eqb_spec len 1); [contradiction|reflexivity]. Qed.
