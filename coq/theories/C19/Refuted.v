(* PV.C19.Refuted — counter-models and regression examples. *)
From Coq Require Import QArith ZArith List Bool PArith Arith Permutation.
From PV Require Import C19.Model C19.Spec.
Import ListNotations.
Local Open Scope nat_scope.

Definition pTH : param := mkParam 1%positive KTheta false (Some 0%Q) None.
Definition pOM : param := mkParam 2%positive KOmegaIIV false (Some 0%Q) None.
Definition pSI : param := mkParam 3%positive KSigma false (Some 0%Q) None.

Definition res_ok (rse grad : option (list (id * option Q))) : resrec :=
  mkRes true TNone (Some 3%Q) false false rse grad None None.
Definition cand_of (n : id) (ofv : Q) (r : resrec) : cand :=
  mkCand n (Some ofv) [pTH; pOM; pSI] 1 2 59%positive 155%positive r.

(* No statement of C19 is refuted any more: the three strictness defects were repaired in /repo (fix commits
   382c897, 6a7564c, 839c032).  The former witnesses are kept as regression examples of the repaired behaviour. *)

(* 1. `rse` together with `rse_theta` (formerly ValueError: the local `rse` was re-bound to the pandas Series) *)
Definition e_rebound : sexpr := SAnd (SCmp S_rse CLt (1 # 2)) (SCmp S_rse_theta CLt (1 # 2)).
Definition c_rebound : cand :=
  cand_of 10%positive 1 (res_ok (Some [(1%positive, Some (1 # 10)); (2%positive, Some (1 # 5)); (3%positive, Some (3 # 10))]) None).
Example rse_rebound_fixed : is_strictness_fulfilled (StExpr e_rebound) c_rebound = Ok true.
Proof. vm_compute. reflexivity. Qed.

(* 2. final_zero_gradient_omega with a NaN omega gradient (formerly False: NaN was tested on the theta rows) ... *)
Definition e_fzg_omega : sexpr := SB S_fzg_omega.
Definition c_omega_nan : cand :=
  cand_of 11%positive 1 (res_ok None (Some [(1%positive, Some 1%Q); (2%positive, None); (3%positive, Some 2%Q)])).
Example fzg_omega_nan_fixed : is_strictness_fulfilled (StExpr e_fzg_omega) c_omega_nan = Ok true.
Proof. vm_compute. reflexivity. Qed.
(* ... and final_zero_gradient_sigma with a NaN THETA gradient (formerly True) *)
Definition c_theta_nan : cand :=
  cand_of 12%positive 1 (res_ok None (Some [(1%positive, None); (2%positive, Some 1%Q); (3%positive, Some 2%Q)])).
Example fzg_sigma_theta_nan_fixed : is_strictness_fulfilled (StExpr (SB S_fzg_sigma)) c_theta_nan = Ok false.
Proof. vm_compute. reflexivity. Qed.

(* 3. an estimate exactly at its bound 0.00125 (formerly not "near": the estimate was rounded by numpy,
   rint(0.00125 * 1e4) / 1e4 = 0.0012 in double arithmetic, the bound by Python's round, 0.0013) *)
Definition d_00125 : Q := (5764607523034235 # 4611686018427387904)%Q.      (* the double 0.00125 *)
Definition pTHb : param := mkParam 1%positive KTheta false (Some d_00125) None.
Definition c_at_bound : cand :=
  mkCand 13%positive (Some 1%Q) [pTHb; pOM; pSI] 1 2 59%positive 155%positive
         (mkRes true TNone (Some 3%Q) false false None None None
                (Some [(1%positive, d_00125); (2%positive, (3 # 4)%Q); (3%positive, (3 # 4)%Q)])).
Example near_bound_rounding_fixed : is_strictness_fulfilled (StExpr (SB S_enb_theta)) c_at_bound = Ok true.
Proof. vm_compute. reflexivity. Qed.
(* the old numpy rounding, kept to document what went wrong *)
Definition np_round (x : Q) (d : Z) : Q :=
  let f := Qpower 10 (Z.abs d) in
  if (0 <=? d)%Z then round53 (inject_Z (round_half_even (round53 (x * f))) / f)
  else round53 (inject_Z (round_half_even (round53 (x / f))) * f).
Example numpy_rounding_differed :
  Qeq_bool (np_round d_00125 4) (12 # 10000) = false /\ Qeq_bool (np_round d_00125 4) (round53 (12 # 10000)) = true /\
  Qeq_bool (py_round_sig2 d_00125) (round53 (13 # 10000)) = true.
Proof. repeat split; vm_compute; reflexivity. Qed.

(* table level: with strictness "not final_zero_gradient_omega" the candidate whose omega gradient is NaN is now
   excluded, as documented (formerly ranked first) *)
Definition cf_not_fzg : config := mkConfig RT_ofv CoNone None [] (StExpr (SNot (SB S_fzg_omega))).
Definition base_ok : cand :=
  cand_of 20%positive 10 (res_ok None (Some [(1%positive, Some 1%Q); (2%positive, Some 1%Q); (3%positive, Some 2%Q)])).
Definition logf0 (_ : positive) : Q := 0%Q.
Definition isf0 (_ : Q) (_ : positive) : option Q := None.

Example ranking_nan_omega_gradient_fixed :
  match rank_models logf0 isf0 (is_strictness_fulfilled (cf_strict cf_not_fzg)) cf_not_fzg base_ok [c_omega_nan] with
  | Ok rows => map (fun r => (w_name r, w_rank r)) rows
  | Err _ => []
  end = [(20%positive, Some 1); (11%positive, None)].
Proof. vm_compute. reflexivity. Qed.
