(* PV.C19.Refuted — counter-models: one per guard conjunct of strictness_eval_sound that exists because the
   CODE fails (tools/run.py, is_strictness_fulfilled), plus the effect on the ranking table. *)
From Coq Require Import QArith ZArith List Bool PArith Arith Permutation.
From PV Require Import C19.Model C19.Spec.
Import ListNotations.
Local Open Scope nat_scope.

Definition pTH : param := mkParam 1%positive KTheta false (Some 0%Q) None.
Definition pOM : param := mkParam 2%positive KOmegaIIV false (Some 0%Q) None.
Definition pSI : param := mkParam 3%positive KSigma false (Some 0%Q) None.

Definition res_ok (rse grad : option (list (id * option Q))) : resrec :=
  mkRes true TNone (Some 3%Q) false false rse grad None None.
Definition cand_of (n : id) (ofv : Q) (r : resrec) : cand :=
  mkCand n (Some ofv) [pTH; pOM; pSI] 1 2 59%positive 155%positive r.

(* 1. `rse` together with `rse_theta`: the local variable rse is re-bound to the pandas Series, the comparison
   yields a Series and testing it raises ValueError — documented meaning: all RSEs below the limits -> True. *)
Definition e_rebound : sexpr := SAnd (SCmp S_rse CLt (1 # 2)) (SCmp S_rse_theta CLt (1 # 2)).
Definition c_rebound : cand :=
  cand_of 10%positive 1 (res_ok (Some [(1%positive, Some (1 # 10)); (2%positive, Some (1 # 5)); (3%positive, Some (3 # 10))]) None).

Theorem strictness_rse_rebound_refuted :
  exists e c, g_rse_not_rebound e = false /\ g_grad_nan_rows e c = true /\
              g_near_round e c = true /\
              is_strictness_fulfilled (StExpr e) c = Err EValue /\ spec_strictness (StExpr e) c = Ok true.
Proof. exists e_rebound, c_rebound. repeat split; vm_compute; reflexivity. Qed.

(* 2. final_zero_gradient_omega tests NaN on the THETA rows: a NaN omega gradient goes unnoticed ... *)
Definition e_fzg_omega : sexpr := SB S_fzg_omega.
Definition c_omega_nan : cand :=
  cand_of 11%positive 1 (res_ok None (Some [(1%positive, Some 1%Q); (2%positive, None); (3%positive, Some 2%Q)])).
Theorem strictness_grad_nan_refuted :
  exists e c, g_grad_nan_rows e c = false /\ g_rse_not_rebound e = true /\ g_near_round e c = true /\
              is_strictness_fulfilled (StExpr e) c = Ok false /\ spec_strictness (StExpr e) c = Ok true.
Proof. exists e_fzg_omega, c_omega_nan. repeat split; vm_compute; reflexivity. Qed.

(* ... and a NaN theta gradient is reported as a zero SIGMA gradient *)
Definition c_theta_nan : cand :=
  cand_of 12%positive 1 (res_ok None (Some [(1%positive, None); (2%positive, Some 1%Q); (3%positive, Some 2%Q)])).
Theorem strictness_grad_nan_sigma_refuted :
  exists e c, g_grad_nan_rows e c = false /\
              is_strictness_fulfilled (StExpr e) c = Ok true /\ spec_strictness (StExpr e) c = Ok false.
Proof. exists (SB S_fzg_sigma), c_theta_nan. repeat split; vm_compute; reflexivity. Qed.

(* 3. an estimate exactly AT its non-zero bound is not "near" it: the estimate (numpy.float64 out of the pandas
   Series) is rounded by numpy — rint(0.00125 * 1e4) / 1e4 = 0.0012 — and the bound (Python float) by Python's
   correctly rounded round() — 0.0013 (the double 0.00125 lies above the decimal tie). *)
Definition d_00125 : Q := (5764607523034235 # 4611686018427387904)%Q.      (* the double 0.00125 *)
Definition pTHb : param := mkParam 1%positive KTheta false (Some d_00125) None.
Definition c_at_bound : cand :=
  mkCand 13%positive (Some 1%Q) [pTHb; pOM; pSI] 1 2 59%positive 155%positive
         (mkRes true TNone (Some 3%Q) false false None None None
                (Some [(1%positive, d_00125); (2%positive, (3 # 4)%Q); (3%positive, (3 # 4)%Q)])).
Theorem strictness_near_bound_rounding_refuted :
  exists e c, g_near_round e c = false /\ g_rse_not_rebound e = true /\ g_grad_nan_rows e c = true /\
              is_strictness_fulfilled (StExpr e) c = Ok false /\ spec_strictness (StExpr e) c = Ok true.
Proof. exists (SB S_enb_theta), c_at_bound. repeat split; vm_compute; reflexivity. Qed.

(* effect on the table: with strictness "not final_zero_gradient_omega" the candidate whose omega gradient is
   NaN is ranked first by the code although the documented criterion excludes it *)
Definition cf_not_fzg : config := mkConfig RT_ofv CoNone None [] (StExpr (SNot (SB S_fzg_omega))).
Definition base_ok : cand :=
  cand_of 20%positive 10 (res_ok None (Some [(1%positive, Some 1%Q); (2%positive, Some 1%Q); (3%positive, Some 2%Q)])).
Definition logf0 (_ : positive) : Q := 0%Q.
Definition isf0 (_ : Q) (_ : positive) : option Q := None.

Theorem ranking_documented_strictness_refuted :
  exists cf base models rows srows,
    forallb (g_grad_nan_rows (SNot (SB S_fzg_omega))) (base :: models) = false /\
    rank_models logf0 isf0 (is_strictness_fulfilled (cf_strict cf)) cf base models = Ok rows /\
    spec_rows logf0 isf0 (spec_strictness (cf_strict cf)) cf base models = Ok srows /\
    ~ Permutation rows srows.
Proof.
  exists cf_not_fzg, base_ok, [c_omega_nan].
  eexists. eexists. split; [vm_compute; reflexivity|]. split; [vm_compute; reflexivity|].
  split; [vm_compute; reflexivity|].
  intro P. apply Permutation_length_2_inv in P. destruct P as [P|P]; discriminate P.
Qed.
