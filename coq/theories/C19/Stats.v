(* PV.C19.Stats — the arithmetic post-processing statistics of the resampling / diagnostic tools as a model of the
   code's ARRAY PIPELINE (pandas: alignment by label, NaN skipping, ddof) next to their DOCUMENTED formulas by name:
     tools/bootstrap/results.py calculate_results   mean, bias, standard error, RSE, covariance matrix
     tools/cdd/results.py        compute_jackknife_covariance_matrix, compute_cook_scores (as x^T C^-1 x, C^-1 given)
     modeling/results.py         calculate_eta_shrinkage (variance and sd form), calculate_individual_shrinkage
     internals/math.py           se_delta_method (gradient vector given: sympy.diff is an engine)
   Exact over Q; sqrt is an oracle (Section variable).  Percentiles (numpy interpolation) are NOT modelled.
   Includes the in-Coq comparison for its cases. *)
From Coq Require Import QArith ZArith List Bool PArith Arith Qabs.
From PV Require Import C19.Model.
Import ListNotations.
Local Open Scope nat_scope.

Definition series := list (id * option Q).          (* a labelled pandas Series; NaN = None *)
(* label alignment: a label that is absent reads as NaN *)
Definition sget (s : series) (n : id) : option Q := match lookup n s with Some v => v | None => None end.

(* pandas reductions skip NaN *)
Definition avail (c : list (option Q)) : list Q := flat_map (fun o => match o with Some x => [x] | None => [] end) c.
Definition qsum (l : list Q) : Q := fold_right Qplus 0%Q l.
Definition mean_l (l : list Q) : option Q := match l with [] => None | _ => Some (qsum l / natQ (length l))%Q end.
(* sample variance, ddof = 1, two-pass as in pandas.nanops *)
Definition var_l (l : list Q) : option Q :=
  if length l <? 2 then None
  else let m := (qsum l / natQ (length l))%Q in
       Some (qsum (map (fun x => (x - m) * (x - m))%Q l) / natQ (length l - 1))%Q.
(* pairwise-complete covariance of two columns, ddof = 1 *)
Definition pairs_avail (a b : list (option Q)) : list (Q * Q) :=
  flat_map (fun p => match p with (Some x, Some y) => [(x, y)] | _ => [] end) (combine a b).
Definition cov_l (l : list (Q * Q)) : option Q :=
  if length l <? 2 then None
  else let n := natQ (length l) in
       let ma := (qsum (map fst l) / n)%Q in let mb := (qsum (map snd l) / n)%Q in
       Some (qsum (map (fun p => (fst p - ma) * (snd p - mb))%Q l) / natQ (length l - 1))%Q.
Definition omap2 (f : Q -> Q -> Q) (a b : option Q) : option Q :=
  match a, b with Some x, Some y => Some (f x y) | _, _ => None end.
Definition odiv (a b : option Q) : option Q :=
  match a, b with Some x, Some y => if Qeq_bool y 0 then None else Some (x / y)%Q | _, _ => None end.

Section Sqrt.
Variable sqrtq : Q -> Q.          (* numpy.sqrt *)

(* ---------------- bootstrap: calculate_results *)
(* concat(axis=1) of the replicate Series aligns on the labels; reindex(results[0].parameter_estimates.index) *)
Definition boot_cols (reps : list series) : list id := match reps with r :: _ => map fst r | [] => [] end.
Definition boot_table (reps : list series) : list (list (option Q)) :=     (* rows = replicates *)
  map (fun r => map (sget r) (boot_cols reps)) reps.
Definition column (j : nat) (t : list (list (option Q))) : list (option Q) := map (fun row => nth j row None) t.

Record bstat := mkBstat { bs_mean : option Q; bs_bias : option Q; bs_stderr : option Q; bs_rse : option Q }.
(* df.mean(), mean - orig (label aligned), df.std(), stderr / mean — column j of the stacked table *)
Definition boot_stat (reps : list series) (orig : option series) (j : nat) : bstat :=
  let c := column j (boot_table reps) in
  let m := mean_l (avail c) in
  let se := option_map sqrtq (var_l (avail c)) in
  mkBstat m
          (match orig with Some o => omap2 Qminus m (sget o (nth j (boot_cols reps) 1%positive)) | None => None end)
          se (odiv se m).
Definition boot_cov (reps : list series) (i j : nat) : option Q :=
  cov_l (pairs_avail (column i (boot_table reps)) (column j (boot_table reps))).

(* documented, by parameter NAME: statistics of the bootstrap estimates of that parameter *)
Definition values_of (reps : list series) (p : id) : list (option Q) := map (fun r => sget r p) reps.
Definition doc_boot_stat (reps : list series) (orig : option series) (p : id) : bstat :=
  let l := avail (values_of reps p) in
  let se := option_map sqrtq (var_l l) in
  mkBstat (mean_l l)
          (match orig with Some o => omap2 Qminus (mean_l l) (sget o p) | None => None end)
          se (odiv se (mean_l l)).
Definition doc_boot_cov (reps : list series) (p q : id) : option Q :=
  cov_l (pairs_avail (values_of reps p) (values_of reps q)).

(* ---------------- cdd *)
(* compute_jackknife_covariance_matrix on a complete table (rows = cases, columns by position):
   delta = est - est.mean();  delta^T @ delta * (N - 1) / N *)
Definition col_q (j : nat) (t : list (list Q)) : list Q := map (fun row => nth j row 0%Q) t.
Definition jackknife (t : list (list Q)) (a b : nat) : Q :=
  let n := natQ (length t) in
  let ma := (qsum (col_q a t) / n)%Q in let mb := (qsum (col_q b t) / n)%Q in
  (qsum (map (fun row => (nth a row 0 - ma) * (nth b row 0 - mb))%Q t) * natQ (length t - 1) / n)%Q.
(* rows built from labelled case estimates, columns in the order [cols] *)
Definition rows_of_cases (cols : list id) (cases : list series) : list (list Q) :=
  map (fun s => map (fun c => match sget s c with Some x => x | None => 0%Q end) cols) cases.

(* Cook score of one case: sqrt(x^T C^-1 x), x = estimate - base taken BY NAME in the order of the covariance labels *)
Definition quad (x : list Q) (m : list (list Q)) : Q :=
  qsum (map (fun p => (fst p * qsum (map (fun q => fst q * snd q)%Q (combine (snd p) x)))%Q) (combine x m)).
Definition cook_delta (labels : list id) (base est : series) : list (option Q) :=
  map (fun c => omap2 Qminus (sget est c) (sget base c)) labels.
Definition cook_sq (labels : list id) (cinv : list (list Q)) (base est : series) : option Q :=
  let d := cook_delta labels base est in
  if forallb (fun o => match o with Some _ => true | None => false end) d then Some (quad (avail d) cinv) else None.
Definition cook_score (labels : list id) (cinv : list (list Q)) (base est : series) : option Q :=
  option_map sqrtq (cook_sq labels cinv base est).

(* ---------------- shrinkage *)
(* calculate_eta_shrinkage: the omega of the j-th eta is attached to the j-th column of the eta table
   (diag_ests.index = individual_estimates.columns), then 1 - var / omega  resp.  1 - sd / omega ** 0.5 *)
Definition eta_shrinkage (sd : bool) (omegas : list Q) (ie : list (id * list (option Q))) (j : nat) : option Q :=
  match nth_error ie j, nth_error omegas j with
  | Some (_, col), Some om =>
      match var_l (avail col) with
      | Some v => if sd then Some (1 - sqrtq v / sqrtq om)%Q
                  else if Qeq_bool om 0 then None else Some (1 - v / om)%Q
      | None => None
      end
  | _, _ => None
  end.
(* calculate_individual_shrinkage: diag(cov_i) / omega per individual *)
Definition individual_shrinkage (omegas : list Q) (diag_i : list Q) : list (option Q) :=
  map (fun p => if Qeq_bool (snd p) 0 then None else Some (fst p / snd p)%Q) (combine diag_i omegas).

(* ---------------- delta method: sqrt(g^T C g), the symbols taken in the order of the covariance labels *)
Definition delta_names (cov_labels used : list id) : list id := filter (fun c => existsb (Pos.eqb c) used) cov_labels.
Definition submatrix (labels sel : list id) (m : list (list Q)) : list (list Q) :=
  map (fun r => map snd (filter (fun p => existsb (Pos.eqb (fst p)) sel) (combine labels r)))
      (map snd (filter (fun p => existsb (Pos.eqb (fst p)) sel) (combine labels m))).
Definition delta_var (cov_labels : list id) (cov : list (list Q)) (grad : list (id * Q)) : Q :=
  let names := delta_names cov_labels (map fst grad) in
  quad (map (fun n => match lookup n grad with Some g => g | None => 0%Q end) names) (submatrix cov_labels names cov).
Definition se_delta (cov_labels : list id) (cov : list (list Q)) (grad : list (id * Q)) : Q :=
  sqrtq (delta_var cov_labels cov grad).
End Sqrt.

(* ---- comparison: exact where the float computation is exact on dyadic inputs (means over 2^k values, bias,
   jackknife with 2^k cases), relative 1e-12 where a division by n-1 / a square root / a Cholesky solve rounds.
   A reported square root r is compared through r*r. *)
Definition close12 (x y : Q) : bool := Qle_bool (Qabs (x - y)) ((1 # 1000000000000) * (1 + Qabs x)).
Definition oexact (a b : option Q) : bool :=
  match a, b with Some x, Some y => Qeq_bool x y | None, None => true | _, _ => false end.
Definition oclose (a b : option Q) : bool :=
  match a, b with Some x, Some y => close12 x y | None, None => true | _, _ => false end.
Definition osq (a : option Q) : option Q := option_map (fun x => x * x)%Q a.
Definition idq (x : Q) : Q := x.       (* the model is evaluated with sqrt := identity and compared with squares *)

Record bootobs := mkBootobs { bo_name : id; bo_mean : option Q; bo_bias : option Q; bo_stderr : option Q; bo_rse : option Q }.
Inductive stcase :=
| StBoot (exact : bool) (reps : list series) (orig : option series) (obs : list bootobs) (cov : list (list (option Q)))
| StJack (cols : list id) (cases : list series) (obs : list (list Q))
| StCook (labels : list id) (cinv : list (list Q)) (base : series) (cases : list series) (obs : list (option Q))
| StShrink (omegas : list Q) (ie : list (id * list (option Q))) (obs_var obs_sd : list (option Q))
| StIshr (omegas : list Q) (diag : list (list Q)) (obs : list (list (option Q)))
| StDelta (labels : list id) (cov : list (list Q)) (grad : list (id * Q)) (obs : Q).

Fixpoint seqn (k n : nat) : list nat := match n with O => [] | S m => k :: seqn (S k) m end.
Definition tagb (b : bool) (t : nat) : list nat := if b then [] else [t].

Definition stverdict (c : stcase) : list nat :=
  match c with
  | StBoot ex reps orig obs cov =>
      let cols := boot_cols reps in
      let oex := if ex then oexact else oclose in      (* means over 2^k values are exact in double arithmetic *)
      tagb (Nat.eqb (length obs) (length cols)) 31 ++
      flat_map (fun p =>
        let '(j, o) := p in
        let s := boot_stat idq reps orig j in                 (* with sqrt := id: bs_stderr is the variance *)
        let d := doc_boot_stat idq reps orig (bo_name o) in
        tagb (Pos.eqb (nth j cols 1%positive) (bo_name o)) 31 ++
        tagb (oex (bs_mean s) (bo_mean o) && oex (bs_bias s) (bo_bias o)) 31 ++
        tagb (oclose (bs_stderr s) (osq (bo_stderr o))) 31 ++
        tagb (oclose (match bs_stderr s, bs_mean s with
                      | Some v, Some m => if Qeq_bool m 0 then None else Some (v / (m * m))%Q | _, _ => None end)
                     (osq (bo_rse o))) 31 ++
        (* the documented formula by NAME, on the tool's own output *)
        tagb (oex (bs_mean d) (bo_mean o) && oex (bs_bias d) (bo_bias o) && oclose (bs_stderr d) (osq (bo_stderr o))) 41)
        (combine (seqn 0 (length obs)) obs) ++
      flat_map (fun p => let '(i, row) := p in
        flat_map (fun q => let '(j, o) := q in
          tagb (oclose (boot_cov reps i j) o) 31 ++
          tagb (oclose (doc_boot_cov reps (nth i cols 1%positive) (nth j cols 1%positive)) o) 41)
          (combine (seqn 0 (length row)) row)) (combine (seqn 0 (length cov)) cov)
  | StJack cols cases obs =>
      let t := rows_of_cases cols cases in
      flat_map (fun p => let '(a, row) := p in
        flat_map (fun q => let '(b, o) := q in tagb (Qeq_bool (jackknife t a b) o) 32) (combine (seqn 0 (length row)) row))
        (combine (seqn 0 (length obs)) obs) ++ tagb (Nat.eqb (length obs) (length cols)) 32
  | StCook labels cinv base cases obs =>
      tagb (Nat.eqb (length obs) (length cases)) 33 ++
      flat_map (fun p => tagb (oclose (cook_sq labels cinv base (fst p)) (osq (snd p))) 33) (combine cases obs)
  | StShrink omegas ie obs_var obs_sd =>
      flat_map (fun p => let '(j, o) := p in tagb (oclose (eta_shrinkage idq false omegas ie j) o) 34)
               (combine (seqn 0 (length obs_var)) obs_var) ++
      (* sd form: (1 - s)^2 = var / omega *)
      flat_map (fun p => let '(j, o) := p in
                 tagb (oclose (match nth_error ie j, nth_error omegas j with
                               | Some (_, col), Some om => match var_l (avail col) with
                                                           | Some v => if Qeq_bool om 0 then None else Some (v / om)%Q
                                                           | None => None end
                               | _, _ => None end)
                              (option_map (fun s => (1 - s) * (1 - s))%Q o)) 34)
               (combine (seqn 0 (length obs_sd)) obs_sd) ++
      tagb (Nat.eqb (length obs_var) (length ie) && Nat.eqb (length obs_sd) (length ie)) 34
  | StIshr omegas diag obs =>
      tagb (Nat.eqb (length obs) (length diag)) 35 ++
      flat_map (fun p => tagb (Nat.eqb (length (snd p)) (length omegas)
                               && forallb (fun q => oclose (fst q) (snd q)) (combine (individual_shrinkage omegas (fst p)) (snd p))) 35)
               (combine diag obs)
  | StDelta labels cov grad obs => tagb (close12 (delta_var labels cov grad) (obs * obs)) 36
  end.
