(* PV.C19.Check — the comparison run inside Coq by the correspondence check.
   Correspondence tags 1..9 (model vs implementation), oracle tags >= 11 (the property statement evaluated
   on the implementation's own output, against the declarative reference of Model/Spec), guard tags >= 200,
   machinery tags >= 1000 (oracle table miss). *)
From Coq Require Import QArith ZArith List Bool PArith Arith Qabs.
From PV Require Import C19.Model C19.Spec.
Import ListNotations.
Local Open Scope nat_scope.

Record lrtobs := mkLrt {
  lo_parent : nat; lo_child : nat;      (* indices into base :: models *)
  lo_alpha : Q;
  lo_df : Z; lo_cutoff : option Q; lo_pvalue : option Q; lo_test : bool; lo_best : id
}.
Record bomobs := mkBom { bo_parent : nat; bo_models : list nat; bo_alpha : Q; bo_best : option id }.
Record icobs := mkIc { io_like : Q; io_aic : Q; io_bic : list Q }.      (* bic: mixed, fixed, random, iiv *)
Record trow := mkTrow { t_name : id; t_nparams : Z; t_dparams : Z; t_row : row }.

Record case := mkCase {
  k_base : cand; k_models : list cand; k_cf : config;
  k_logs : list (positive * Q);
  k_isf : list (Q * positive * option Q);
  k_sf : list (Q * Z * option Q);
  k_strict : list (res bool);                  (* truth of is_strictness_fulfilled, for base :: models *)
  k_ic : list icobs;                           (* calculate_aic / calculate_bic, for base :: models *)
  k_rank : res (list row);                     (* rank_models: rows in DataFrame order *)
  k_tool : option (res (list trow * id));      (* create_results: summary_tool rows, final_model.name *)
  k_lrt : list lrtobs;
  k_bom : list bomobs;
  k_xstrict : list (sexpr * list (res bool))   (* further expressions evaluated on base :: models *)
}.

Definition tab_log (t : list (positive * Q)) (n : positive) : Q :=
  match find (fun p => Pos.eqb (fst p) n) t with Some p => snd p | None => 0%Q end.
Definition tab_isf (t : list (Q * positive * option Q)) (a : Q) (d : positive) : option Q :=
  match find (fun p => Qeq_bool (fst (fst p)) a && Pos.eqb (snd (fst p)) d) t with Some p => snd p | None => None end.
Definition tab_sf (t : list (Q * Z * option Q)) (x : Q) (d : Z) : option Q :=
  match find (fun p => Qeq_bool (fst (fst p)) x && Z.eqb (snd (fst p)) d) t with Some p => snd p | None => None end.

Definition tag (b : bool) (t : nat) : list nat := if b then [] else [t].

Definition err_eqb (a b : err) : bool :=
  match a, b with EValue, EValue | EKey, EKey | EInternal, EInternal => true | _, _ => false end.
Definition resb_eqb (a b : res bool) : bool :=
  match a, b with Ok x, Ok y => Bool.eqb x y | Err x, Err y => err_eqb x y | _, _ => false end.

(* floats: exact, or relative 1e-9 where the implementation rounds (log penalties) *)
Definition close (tol : bool) (x y : Q) : bool :=
  if tol then Qle_bool (Qabs (x - y)) ((1 # 1000000000) * (1 + Qabs x)) else Qeq_bool x y.
Definition oclose (tol : bool) (a b : option Q) : bool :=
  match a, b with Some x, Some y => close tol x y | None, None => true | _, _ => false end.
Definition onat_eqb (a b : option nat) : bool :=
  match a, b with Some x, Some y => Nat.eqb x y | None, None => true | _, _ => false end.
Definition row_eqb (tol : bool) (a b : row) : bool :=
  Pos.eqb (w_name a) (w_name b) && oclose tol (w_delta a) (w_delta b) && oclose tol (w_value a) (w_value b)
  && onat_eqb (w_rank a) (w_rank b).

Definition find_row (n : id) (l : list row) : option row := find (fun r => Pos.eqb (w_name r) n) l.
Definition names_nodup (l : list id) : bool :=
  (fix nd (l : list id) : bool := match l with [] => true | x :: tl => negb (existsb (Pos.eqb x) tl) && nd tl end) l.

(* same rows (by name), same sequence of sort keys: equal up to the order inside groups of tied keys *)
Definition rows_agree (tol : bool) (key : row -> option Q) (obs model : list row) : bool :=
  Nat.eqb (length obs) (length model)
  && names_nodup (map w_name obs)
  && forallb (fun r => match find_row (w_name r) model with Some m => row_eqb tol r m | None => false end) obs
  && forallb (fun p => oclose tol (key (fst p)) (key (snd p))) (combine obs model).

Definition is_bic (cf : config) : bool := match cf_rt cf with RT_bic _ => true | _ => false end.

Section WithCase.
Variable k : case.
Let logf := tab_log (k_logs k).
Let isf := tab_isf (k_isf k).
Let sf := tab_sf (k_sf k).
Let all := k_base k :: k_models k.
Let cf := k_cf k.
Let tol := is_bic cf.

Definition model_strict : list (res bool) := map (is_strictness_fulfilled (cf_strict cf)) all.
Definition spec_strict : list (res bool) := map (spec_strictness (cf_strict cf)) all.

Definition check_strict : list nat :=
  tag (list_eqb_res model_strict (k_strict k)) 2.

Definition model_rank : res (list row) :=
  rank_models logf isf (is_strictness_fulfilled (cf_strict cf)) cf (k_base k) (k_models k).

(* reference value as the implementation's own table shows it: NaN iff the delta column is all NaN *)
Definition ref_is_nan (rows : list row) : bool := forallb (fun r => match w_delta r with None => true | _ => false end) rows.
Definition obs_key (rows : list row) : row -> option Q := if ref_is_nan rows then w_value else w_delta.

Definition agrees_with (okf : cand -> res bool) (m : res (list row)) : bool :=
  match m, k_rank k with
  | Err a, Err b => err_eqb a b
  | Ok m, Ok o =>
      let key := match get_ref logf okf cf (k_base k) with Ok (Some _) => w_delta | _ => w_value end in
      rows_agree tol key o m
  | _, _ => false
  end.
Definition check_rank : list nat :=
  tag (agrees_with (is_strictness_fulfilled (cf_strict cf)) model_rank) 1.

(* ---- oracle: the property statement on the implementation's output *)
Definition ranked (r : row) : bool := match w_rank r with Some _ => true | None => false end.

(* 11: ranked rows ordered by the criterion, unranked rows after all ranked ones *)
Fixpoint ordered (asc : bool) (key : row -> option Q) (l : list row) : bool :=
  match l with
  | a :: ((b :: _) as tl) => negb (before asc (key b) (key a)) && ordered asc key tl
  | _ => true
  end.
Fixpoint no_ranked_after_unranked (l : list row) (seen_unranked : bool) : bool :=
  match l with
  | [] => true
  | r :: tl => if ranked r then negb seen_unranked && no_ranked_after_unranked tl seen_unranked
               else no_ranked_after_unranked tl true
  end.

(* 12: rank = 1 + number of ranked rows with a strictly better criterion value (ties share a rank) *)
Definition better (nanref : bool) (a b : row) : bool :=   (* a strictly better than b *)
  if nanref then (match w_value a, w_value b with Some x, Some y => Qlt_bool x y | _, _ => false end)
  else (match w_delta a, w_delta b with Some x, Some y => Qlt_bool y x | _, _ => false end).
Definition comp_rank_ok (rows : list row) : bool :=
  let rk := filter ranked rows in
  let nanref := ref_is_nan rows in
  forallb (fun r => onat_eqb (w_rank r) (Some (S (length (filter (fun a => better nanref a r) rk))))) rk.

(* 13: the table is the reference table: excluded exactly the candidates that fail the documented strictness
   meaning, the cut-off or the test against their parent; values, deltas and ranks as defined *)
Definition spec_table : res (list row) :=
  spec_rows logf isf (spec_strictness (cf_strict cf)) cf (k_base k) (k_models k).
Definition check_oracle_rank : list nat :=
  match k_rank k with
  | Err _ => []
  | Ok o =>
      let nanref := ref_is_nan o in
      tag (ordered nanref (obs_key o) o) 11 ++
      tag (no_ranked_after_unranked o false) 15 ++
      tag (comp_rank_ok o) 12 ++
      match spec_table with
      | Err _ => []
      | Ok s => tag (Nat.eqb (length o) (length s) && names_nodup (map w_name o)
                     && forallb (fun r => match find_row (w_name r) s with Some m => row_eqb tol r m | None => false end) o) 13
      end
  end.
Definition check_oracle_strict : list nat :=
  tag (list_eqb_res spec_strict (k_strict k)) 14.

(* further expressions: correspondence, and strictness_eval_sound's statement itself (guards -> documented meaning) *)
Definition check_xstrict : list nat :=
  flat_map (fun p =>
    let '(e, obs) := p in
    tag (list_eqb_res (map (is_strictness_fulfilled (StExpr e)) all) obs) 2 ++
    tag (list_eqb_res (map (spec_strictness (StExpr e)) all) obs) 19 ++
    tag (well_typed e) 1002) (k_xstrict k).

(* 16/5: final model of create_results *)
Definition min_rank (rows : list row) : option nat :=
  fold_right (fun r acc => match w_rank r, acc with
                           | Some a, Some b => Some (Nat.min a b) | Some a, None => Some a | None, x => x end) None rows.
Definition check_tool : list nat :=
  match k_tool k with
  | None => []
  | Some (Err e) =>
      (* summarize_tool raises ValueError when no candidate has a rank value (non-lrt), or rank_models raised *)
      tag (match model_tool logf isf (is_strictness_fulfilled (cf_strict cf)) cf (k_base k) (k_models k) with
           | Err e' => err_eqb e e' | Ok _ => false end) 5
  | Some (Ok (trs, best)) =>
      let rows := map t_row trs in
      (* the model does not refuse either *)
      tag (match model_tool logf isf (is_strictness_fulfilled (cf_strict cf)) cf (k_base k) (k_models k) with
           | Ok _ => true | Err _ => false end) 5 ++
      (* same table as rank_models returned *)
      tag (match k_rank k with Ok o => list_eqb_rows tol rows o | Err _ => false end) 6 ++
      (* n_params = number of non-fixed parameters, d_params relative to the base *)
      tag (forallb (fun t => match find (fun c => Pos.eqb (c_name c) (t_name t)) all with
                             | Some c => Z.eqb (t_nparams t) (Z.of_nat (nest c))
                                         && Z.eqb (t_dparams t) (Z.of_nat (nest c) - Z.of_nat (nest (k_base k)))
                             | None => false end) trs) 7 ++
      (* model: final model = idxmin of the rank column in table order, base when nothing is ranked *)
      tag (Pos.eqb best (best_of_rows (c_name (k_base k)) rows)) 5 ++
      (* property: the reported best is a top-ranked eligible candidate, or the base when none is eligible *)
      tag (match min_rank rows with
           | None => Pos.eqb best (c_name (k_base k))
           | Some m => Nat.eqb m 1 && match find_row best rows with Some r => onat_eqb (w_rank r) (Some 1) | None => false end
           end) 16
  end.

(* ---- information criteria and LRT helpers *)
Definition check_ic : list nat :=
  flat_map (fun p =>
    let '(c, o) := p in
    tag (Qeq_bool (calculate_aic c (io_like o)) (io_aic o)) 3 ++
    tag (match io_bic o with
         | [m; f; r; i] =>
             close true (io_like o + bic_penalty logf BMixed c) m && close true (io_like o + bic_penalty logf BFixed c) f
             && close true (io_like o + bic_penalty logf BRandom c) r && close true (io_like o + bic_penalty logf BIiv c) i
         | _ => false end) 3 ++
    (* property: AIC = -2LL + 2 * number of estimated parameters, counted directly *)
    tag (Qeq_bool (io_aic o) (io_like o + 2 * natQ (count_estimated (c_params c)))) 17) (combine all (k_ic k)).

Definition nthc (i : nat) : cand := nth i all (k_base k).
Definition check_lrt : list nat :=
  flat_map (fun o =>
    let p := nthc (lo_parent o) in let c := nthc (lo_child o) in
    tag (Z.eqb (degrees_of_freedom p c) (lo_df o)) 4 ++
    tag (oclose false (lrt_cutoff isf p c (lo_alpha o)) (lo_cutoff o)) 4 ++
    tag (oclose false (p_value sf p c (c_ofv p) (c_ofv c)) (lo_pvalue o)) 4 ++
    tag (Bool.eqb (lrt_test isf p c (c_ofv p) (c_ofv c) (lo_alpha o)) (lo_test o)) 4 ++
    tag (Pos.eqb (c_name (best_of_two isf p c (c_ofv p) (c_ofv c) (lo_alpha o))) (lo_best o)) 4 ++
    (* property: degrees of freedom = difference in parameter count; the test compares the OFV drop with the
       chi-square cut-off of |df| (sign cases), a NaN never passes *)
    tag (Bool.eqb (lo_test o) (spec_lrt_test isf p c (lo_alpha o))) 18 ++
    (* oracle tables must cover the lookups *)
    tag (match lo_df o with
         | Z0 => true
         | Zpos d | Zneg d => existsb (fun e => Qeq_bool (fst (fst e)) (lo_alpha o) && Pos.eqb (snd (fst e)) d) (k_isf k)
         end) 1001) (k_lrt k)
  ++
  flat_map (fun o =>
    let p := nthc (bo_parent o) in
    let ms := map nthc (bo_models o) in
    tag (match best_of_many isf p ms (c_ofv p) (map c_ofv ms) (bo_alpha o), bo_best o with
         | Some m, Some n => Pos.eqb (c_name m) n
         | None, None => true
         | _, _ => false end) 4) (k_bom k).

Definition guard_tags : list nat := tag (names_distinct all) 203.

Definition verdict_of : list nat :=
  check_strict ++ check_xstrict ++ check_rank ++ check_tool ++ check_ic ++ check_lrt
  ++ check_oracle_rank ++ check_oracle_strict ++ guard_tags.

End WithCase.

Definition verdict (k : case) : list nat := verdict_of k.
