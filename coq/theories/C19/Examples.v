(* PV.C19.Examples — non-vacuity: concrete non-trivial instances of the hypotheses / guards of the theorems. *)
From Coq Require Import QArith ZArith List Bool PArith Arith Lia Lqa.
From PV Require Import Base.PyData Base.Expr Base.Interp C19.Model C19.Spec C19.Penalty C19.Summary C19.Categorize C19.Stats C19.Stats2 C19.Stats3 C19.Refuted.
Import ListNotations.
Local Open Scope nat_scope.

Definition r_ok : resrec := res_ok (Some [(1%positive, Some (1 # 10)); (2%positive, Some (1 # 5)); (3%positive, Some (3 # 10))])
                                   (Some [(1%positive, Some 1%Q); (2%positive, Some 1%Q); (3%positive, Some 2%Q)]).
Definition r_fail : resrec := mkRes false TRounding None false false None None None None.
Definition mk (n : id) (ofv : option Q) (ps : list param) (r : resrec) : cand :=
  mkCand n ofv ps 1 2 59%positive 155%positive r.
Definition pX : param := mkParam 4%positive KTheta false None None.
Definition pF : param := mkParam 5%positive KTheta true None None.

Definition ex_base := mk 1%positive (Some 0%Q) [pTH; pOM; pSI] r_ok.
Definition ex_models := [
  mk 2%positive (Some (-5)%Q) [pTH; pOM; pSI; pX] r_fail;            (* fails "minimization_successful" *)
  mk 3%positive (Some (-4)%Q) [pTH; pOM; pSI; pX] r_ok;
  mk 4%positive (Some (-4)%Q) [pTH; pOM; pSI; pX; pF] r_ok;          (* tie with model 3 on OFV *)
  mk 5%positive (Some 1%Q) [pTH; pOM] r_ok;
  mk 6%positive None [pTH; pOM] r_ok ].                               (* NaN objective value *)
Definition ex_strict := StExpr (SOr (SB S_minimization_successful) (SAnd (SB S_rounding_errors) (SCmp S_sigdigs CGe (1 # 10)))).
Definition ex_cf (rt : rtype) (co : cutoff_t) : config := mkConfig rt co None [] ex_strict.
Definition isf_ex (a : Q) (d : positive) : option Q :=       (* a toy inverse survival function, decreasing in alpha *)
  if Qlt_bool 0 a && Qle_bool a 1 then Some (2 - a + inject_Z (Z.pos d))%Q else None.
Definition sf_ex (x : Q) (d : Z) : option Q := Some (2 - x + inject_Z d)%Q.

(* the hypotheses of the ranking theorems: distinct names, an Ok table — with a tie (rank 1 twice, then 3),
   an excluded and a NaN candidate *)
Example rank_example :
  names_distinct (ex_base :: ex_models) = true /\
  rank_models logf0 isf_ex (is_strictness_fulfilled ex_strict) (ex_cf RT_ofv CoNone) ex_base ex_models =
  Ok [mkRow 3%positive (Some (0 - (-4 + 0))%Q) (Some (-4 + 0)%Q) (Some 1);
      mkRow 4%positive (Some (0 - (-4 + 0))%Q) (Some (-4 + 0)%Q) (Some 1);
      mkRow 1%positive (Some (0 - (0 + 0))%Q) (Some (0 + 0)%Q) (Some 3);
      mkRow 5%positive (Some (0 - (1 + 0))%Q) (Some (1 + 0)%Q) (Some 4);
      mkRow 2%positive None None None;
      mkRow 6%positive None None None].
Proof. split; vm_compute; reflexivity. Qed.

(* cut-off 1 on the OFV: model 5 (delta -1) and the base itself? the base is always kept; model 5 is dropped *)
Example rank_cutoff_example :
  match rank_models logf0 isf_ex (is_strictness_fulfilled ex_strict) (ex_cf RT_ofv (CoNum 1)) ex_base ex_models with
  | Ok rows => map (fun r => (w_name r, w_rank r)) rows
  | Err _ => []
  end = [(3%positive, Some 1); (4%positive, Some 1); (1%positive, Some 3);
         (2%positive, None); (5%positive, None); (6%positive, None)].
Proof. vm_compute. reflexivity. Qed.

(* lrt against the base (default parent map), default alpha by sign of df: model 3 (df 1, drop 4 >= 2.95) passes,
   model 4 (df 2, 4 >= 3.95) passes, model 5 (df -1, drop -1 >= -(2.99)) passes *)
Example rank_lrt_example :
  match rank_models logf0 isf_ex (is_strictness_fulfilled ex_strict) (ex_cf RT_lrt CoNone) ex_base ex_models with
  | Ok rows => map (fun r => (w_name r, w_rank r)) rows
  | Err _ => []
  end = [(3%positive, Some 1); (4%positive, Some 1); (1%positive, Some 3); (5%positive, Some 4);
         (2%positive, None); (6%positive, None)].
Proof. vm_compute. reflexivity. Qed.

(* NaN reference value: hypothesis of rank_total_on_nan *)
Example rank_nan_reference_example :
  get_ref logf0 (is_strictness_fulfilled ex_strict) (ex_cf RT_aic (CoNum 1)) (mk 1%positive None [pTH] r_ok) = Ok None /\
  match rank_models logf0 isf_ex (is_strictness_fulfilled ex_strict) (ex_cf RT_aic (CoNum 1)) (mk 1%positive None [pTH] r_ok) ex_models with
  | Ok rows => map (fun r => (w_name r, w_delta r, w_rank r)) rows
  | Err _ => []
  end = [(3%positive, None, Some 1); (4%positive, None, Some 1); (5%positive, None, Some 3);
         (1%positive, None, None); (2%positive, None, None); (6%positive, None, None)].
Proof. split; vm_compute; reflexivity. Qed.

(* the final model of create_results on that table, and on its tie-swapped permutation *)
Example best_example :
  best_of_rows 1%positive [mkRow 3%positive None (Some 1%Q) (Some 1); mkRow 4%positive None (Some 1%Q) (Some 1)] = 3%positive /\
  best_of_rows 1%positive [mkRow 4%positive None (Some 1%Q) (Some 1); mkRow 3%positive None (Some 1%Q) (Some 1)] = 4%positive /\
  best_of_rows 1%positive [mkRow 4%positive None None None] = 1%positive.
Proof. repeat split. Qed.

(* an estimate 0.0005 next to the zero lower bound of parameter 1, the others far from their bounds *)
Definition ex_near := mk 7%positive (Some 0%Q) [pTH; pOM; pSI]
  (mkRes true TNone (Some 3%Q) false false (Some [(1%positive, Some (1 # 10)); (2%positive, Some (1 # 5)); (3%positive, Some (3 # 10))])
         (Some [(1%positive, Some 1%Q); (2%positive, Some 1%Q); (3%positive, Some 2%Q)]) None
         (Some [(1%positive, (1 # 2000)%Q); (2%positive, (3 # 4)%Q); (3%positive, (3 # 4)%Q)])).

(* a non-trivial strictness expression using rse_theta, a gradient criterion and the near-bound criterion *)
Definition e_good : sexpr :=
  SAnd (SOr (SB S_minimization_successful) (SCmp S_rse_theta CLt (1 # 2))) (SNot (SB S_fzg_omega)).
Example strictness_guards_example :
  is_strictness_fulfilled (StExpr e_good) ex_base = Ok true /\
  is_strictness_fulfilled (StExpr (SAnd e_good (SB S_enb))) ex_near = Ok true.
Proof. repeat split; vm_compute; reflexivity. Qed.

(* the chi-square premises of the lrt theorems are satisfiable (by the toy oracle) *)
Example isf_premises_example :
  (forall a d v, isf_ex a d = Some v -> (0 < v)%Q) /\
  (forall a1 a2 d v1 v2, (a1 <= a2)%Q -> isf_ex a1 d = Some v1 -> isf_ex a2 d = Some v2 -> (v2 <= v1)%Q) /\
  (forall x d a v pv, isf_ex a d = Some v -> sf_ex x (Z.pos d) = Some pv -> ((pv <= a)%Q <-> (v <= x)%Q)).
Proof.
  assert (POS : forall d, (0 < inject_Z (Z.pos d))%Q) by (intro d; unfold Qlt; cbn; lia).
  unfold isf_ex, sf_ex. repeat split.
  - intros a d v H. destruct (Qlt_bool 0 a && Qle_bool a 1) eqn:E; [|discriminate]. injection H as <-.
    apply andb_true_iff in E. destruct E as [_ E]. apply Qle_bool_iff in E. specialize (POS d). lra.
  - intros a1 a2 d v1 v2 L H1 H2.
    destruct (Qlt_bool 0 a1 && Qle_bool a1 1); [|discriminate]. destruct (Qlt_bool 0 a2 && Qle_bool a2 1); [|discriminate].
    injection H1 as <-. injection H2 as <-. lra.
  - destruct (Qlt_bool 0 a && Qle_bool a 1); [|discriminate]. injection H as <-. injection H0 as <-. intro; lra.
  - destruct (Qlt_bool 0 a && Qle_bool a 1); [|discriminate]. injection H as <-. injection H0 as <-. intro; lra.
Qed.

(* lrt cases: df > 0, df < 0, df = 0 all occur *)
Example lrt_df_example :
  degrees_of_freedom ex_base (nth 1 ex_models ex_base) = 1%Z /\
  degrees_of_freedom ex_base (nth 3 ex_models ex_base) = (-1)%Z /\
  degrees_of_freedom ex_base ex_base = 0%Z /\
  lrt_test isf_ex ex_base (nth 1 ex_models ex_base) (Some 0%Q) (Some (-4)%Q) (1 # 20) = true /\
  lrt_test isf_ex ex_base (nth 1 ex_models ex_base) (Some 0%Q) (Some (-2)%Q) (1 # 20) = false.
Proof. repeat split; vm_compute; reflexivity. Qed.

(* near-boundary rounding: 2 significant digits, half-even on the exact value *)
Example round_sig2_example :
  Qeq_bool (round_sig2 (-994 # 1000)) (-99 # 100) = true /\ Qeq_bool (round_sig2 (-996 # 1000)) (-1) = true /\
  Qeq_bool (round_sig2 (1254 # 10)) 130 = true /\ Qeq_bool (round_sig2 (125 # 1)) 120 = true /\
  Qeq_bool (round_sig2 (135 # 1)) 140 = true /\ Qeq_bool (round_sig2 (1 # 1000)) (1 # 1000) = true.
Proof. repeat split; vm_compute; reflexivity. Qed.

(* calculate_bic_penalty on the iiv search space: base with 3 unfixed variances, candidate with 2 of them plus
   one covariance; log 3/2 and log 3 supplied by a table *)
Definition rv_base := mkRv [mkDist LIIV [10%positive] []; mkDist LIIV [11%positive] []; mkDist LIIV [12%positive] []] [].
Definition rv_cand := mkRv [mkDist LIIV [10%positive; 11%positive] [13%positive]; mkDist LIIV [12%positive] []] [12%positive].
Example penalty_example :
  penalty_counts rv_base rv_cand [SS_iiv_diag; SS_iiv_block] 0 = (3, 2, 3, 1)%Z /\
  calculate_bic_penalty (fun x => if Qeq_bool x (3 # 2) then Some (13 # 32) else if Qeq_bool x 3 then Some (35 # 32) else None)%Q
    (Some rv_base) rv_cand [SS_iiv_diag; SS_iiv_block] 0 (Some 2%Q) (Some 1%Q) = Ok (2 * 2 * (13 # 32) + 2 * 1 * (35 # 32))%Q.
Proof. split; vm_compute; reflexivity. Qed.

(* fit summary: two steps, the last row of step 2 is reported *)
Example summary_example :
  match summarize_step 1%positive
          (mkSres None (Some 9%Q) (Some [(1, Some 5%Q); (1, Some 4%Q); (2, Some 3%Q); (2, Some (5 # 2))]) [] None None None
                  [true; false] [false; true] 1 2 (Some 9%Q) (Some [Some 1%Q; Some (7 # 2)%Q])) None with
  | Ok row => (sr_minsucc row, sr_ofv row, sr_nerr row, sr_nwarn row, sr_est_runtime row)
  | Err _ => (true, None, 0, 0, None)
  end = (false, Some (5 # 2)%Q, 1, 2, Some (7 # 2)%Q).
Proof. vm_compute. reflexivity. Qed.

(* _categorize_parameters: CL = TH1*exp(ETA1), V = TH2 + TH3*ETA2, Y = F + F*EPS; ETA2's omega (8) is fixed to 0.
   With the zero-fixed omega: TH1 random, TH2 fixed, TH3 not counted, sigma (9) fixed;
   had ETA2 been random: TH2 and TH3 random as well. *)
Definition cat_stmts : list (id * expr) :=
  [(20%positive, Mul (Sym 1%positive) (Fn1 F_EXP (Sym 11%positive)));
   (21%positive, Add (Sym 2%positive) (Mul (Sym 3%positive) (Sym 12%positive)))].
Definition cat_err : list (id * expr) := [(30%positive, Add (Sym 31%positive) (Mul (Sym 31%positive) (Sym 13%positive)))].
Definition cat_rvs := [mkRvd true [11%positive] [7%positive]; mkRvd true [12%positive] [8%positive]; mkRvd false [13%positive] [9%positive]].
Definition cat_zero := mkCat cat_stmts cat_err cat_rvs [8%positive] [1%positive; 2%positive; 3%positive; 7%positive; 9%positive]
                            [20%positive; 21%positive] [30%positive].
Definition cat_random := mkCat cat_stmts cat_err cat_rvs [] [1%positive; 2%positive; 3%positive; 7%positive; 8%positive; 9%positive]
                              [20%positive; 21%positive] [30%positive].
Example categorize_example :
  (setp_eqb (fst (categorize cat_zero)) [2%positive; 9%positive] && setp_eqb (snd (categorize cat_zero)) [1%positive; 7%positive]) = true /\
  (setp_eqb (fst (categorize cat_random)) [9%positive]
   && setp_eqb (snd (categorize cat_random)) [1%positive; 2%positive; 3%positive; 7%positive; 8%positive]) = true /\
  is_zero_dist cat_zero (mkRvd true [12%positive] [8%positive]) = true /\
  cat_nfix cat_zero = 2 /\ cat_nrand cat_zero = 2.
Proof. repeat split; vm_compute; reflexivity. Qed.

(* statistics model: three replicates listing A (1), B (2) in different orders, one lacks B and has an extra label;
   the stacked column of B skips the NaN; quad is sum_a sum_b x_a M_ab x_b *)
Definition st_reps : list series :=
  [[(1%positive, Some 1%Q); (2%positive, Some 2%Q)]; [(2%positive, Some 4%Q); (1%positive, Some 3%Q)];
   [(3%positive, Some 9%Q); (1%positive, Some 5%Q)]].
Example stats_example :
  boot_cols st_reps = [1%positive; 2%positive] /\
  column 1 (boot_table st_reps) = [Some 2%Q; Some 4%Q; None] /\
  Qeq_bool (match bs_mean (boot_stat idq st_reps None 1) with Some m => m | None => 0 end) 3 = true /\
  Qeq_bool (match bs_stderr (boot_stat idq st_reps None 0) with Some v => v | None => 0 end) 4 = true /\
  Qeq_bool (quad [1; 2] [[2; 1]; [1; 3]])%Q 18 = true /\
  Qeq_bool (jackknife [[1; 2]; [3; 6]]%Q 0 1) 2 = true.
Proof. repeat split; vm_compute; reflexivity. Qed.

(* summarize_errors: two models, rows sorted by (model, category, position in the log) *)
Example summarize_errors_example :
  map (fun r => (er_model r, cat_nat (er_cat r), er_no r))
      (summarize_errors [(2%positive, Some [(LWarning, 7%positive); (LError, 8%positive)]); (1%positive, None);
                         (3%positive, Some [(LError, 9%positive)])])
  = [(2%positive, 0, 1); (2%positive, 1, 0); (3%positive, 0, 0)].
Proof. vm_compute. reflexivity. Qed.

(* MFL penalty counts: search space ABSORPTION([FO,ZO,SEQ-ZO-FO]);ELIMINATION([FO,MM,MIX-FO-MM]);LAGTIME([OFF,ON]);
   TRANSITS([0,1,3], any depot);PERIPHERALS(0..2), candidate SEQ-ZO-FO / MM / 3 transits with depot / 1 peripheral / lag ON *)
Example mfl_counts_example :
  mfl_counts (mkMfl (Some ([AB_FO; AB_ZO; AB_SEQ], AB_SEQ)) (Some ([EL_MIX; EL_FO; EL_MM], EL_MM))
                    (Some (6, true, [0; 1; 3]%Z, true, 3%Z)) (Some (3, 1%Z)) (Some (2, true))) = Ok (8, 5)%Z.
Proof. vm_compute. reflexivity. Qed.

(* quantiles of 1, 2, 4, 8: median 3, first quartile 1.75, 97.5 % = 7.7; simeval row with an outlier *)
Example quantile_example :
  Qeq_bool (match quantile (1 # 2) [8; 1; 4; 2]%Q with Some v => v | None => 0 end) 3 = true /\
  Qeq_bool (match quantile (1 # 4) [8; 1; 4; 2]%Q with Some v => v | None => 0 end) (7 # 4) = true /\
  Qeq_bool (match quantile (975 # 1000) [8; 1; 4; 2]%Q with Some v => v | None => 0 end) (77 # 10) = true /\
  quantile (1 # 2) [] = None /\
  sm_outlier (simeval_row idq [[(1%positive, Some 1%Q)]; [(1%positive, Some 3%Q)]] [(1%positive, Some 10%Q)] 1%positive) = true.
Proof. repeat split; vm_compute; reflexivity. Qed.

(* cdd delta OFV: individuals 5, 2, 9 with iOFV 1, 2.5, 4; skipping 2 (and an unknown 77) leaves 5; run OFV 1 -> 4 > 3.86 *)
Example cdd_delta_ofv_example :
  compute_delta_ofv (Some [(5%positive, 1%Q); (2%positive, (5 # 2)%Q); (9%positive, 4%Q)])
                    [([2%positive; 77%positive], Some 1%Q); ([5%positive], None)]
  = [Some (1 + (4 + 0) - 1)%Q; None] /\
  dofv_influential (Some 4%Q) = true /\ dofv_influential (Some (385 # 100)%Q) = false /\ dofv_influential None = false.
Proof. repeat split; vm_compute; reflexivity. Qed.
