(* PV.C19.Properties — the property theorems of C19 and nothing else.
   Conventions: [logf], [isf], [sf] are the engines math.log / chi2.isf / chi2.sf as arbitrary functions (every
   theorem holds for all of them; the few facts about the chi-square distribution that a statement needs are
   explicit premises).  [okf] is the strictness predicate: the ranking theorems hold for EVERY predicate, in
   particular for [is_strictness_fulfilled s]; what that predicate means is the subject of
   [strictness_eval_sound].  [names_distinct]: the candidate set is a set (the table is indexed by model name). *)
From Coq Require Import QArith ZArith List Bool PArith Arith Permutation Sorted Qround.
From PV Require Import Base.PyData Base.Expr Base.Interp C19.Model C19.Spec C19.Penalty C19.Summary C19.Categorize C19.Proofs C19.Stats C19.StatsProofs C19.Stats2 C19.Stats2Proofs C19.Stats3 C19.Stats3Proofs.
Import ListNotations.
Local Open Scope nat_scope.

(* ---- ranking *)

(* The table returned by rank_models is, row for row, the documented reference table (Spec.spec_rows: a
   candidate is listed with rank value, delta to the base and rank 1 + number of strictly better eligible
   candidates iff it fulfils the strictness predicate and passes the cut-off / the test against its parent,
   otherwise with NaNs), up to row order — for all candidate sets, objective values incl. NaN, rank types,
   cut-offs, penalties, parent maps. *)
Theorem rank_models_is_reference :
  forall logf isf okf cf base models rows,
    names_distinct (base :: models) = true ->
    rank_models logf isf okf cf base models = Ok rows ->
    exists srows, spec_rows logf isf okf cf base models = Ok srows /\ Permutation rows srows.
Proof. exact rank_models_is_reference_lemma. Qed.

(* rank_sorted: the rows are ordered by the criterion — by delta, descending, or by the rank value, ascending,
   when the reference value is NaN; NaN rows last. *)
Theorem rank_sorted :
  forall logf isf okf cf base models rows,
    names_distinct (base :: models) = true ->
    rank_models logf isf okf cf base models = Ok rows ->
    exists ref, get_ref logf okf cf base = Ok ref /\ StronglySorted (listed_before_ok ref) rows.
Proof. exact rank_sorted_lemma. Qed.

(* every candidate appears exactly once *)
Theorem rank_membership :
  forall logf isf okf cf base models rows,
    names_distinct (base :: models) = true ->
    rank_models logf isf okf cf base models = Ok rows ->
    Permutation (map w_name rows) (map c_name (base :: models)).
Proof. exact membership_lemma. Qed.

(* competition ranking: the rank of a listed candidate is 1 + the number of listed candidates with a strictly
   smaller rank value; an unlisted candidate has no rank *)
Theorem rank_is_competition :
  forall logf isf okf cf base models rows,
    names_distinct (base :: models) = true ->
    rank_models logf isf okf cf base models = Ok rows ->
    forall r, In r rows ->
      match w_value r with
      | Some v => w_rank r = Some (S (count_better v (map w_value rows)))
      | None => w_rank r = None
      end.
Proof. exact rank_is_competition_lemma. Qed.

(* ties_share_rank: two listed candidates have the same rank iff their rank values are equal, and a strictly
   better value gets a strictly smaller rank *)
Theorem ties_share_rank :
  forall logf isf okf cf base models rows,
    names_distinct (base :: models) = true ->
    rank_models logf isf okf cf base models = Ok rows ->
    forall r1 r2 v1 v2, In r1 rows -> In r2 rows -> w_value r1 = Some v1 -> w_value r2 = Some v2 ->
      (w_rank r1 = w_rank r2 <-> (v1 == v2)%Q) /\
      ((v1 < v2)%Q -> exists k1 k2, w_rank r1 = Some k1 /\ w_rank r2 = Some k2 /\ k1 < k2).
Proof. exact ties_share_rank_lemma. Qed.

(* excluded_iff: the row of the i-th model of base :: models is unranked iff the model has no rank value
   (strictness not fulfilled — see spec_value_none_is_strictness) or it has one and fails the cut-off / the
   likelihood-ratio test against its parent (Spec.spec_passes; the base model never does); an eligible model is
   listed with exactly its rank value and its delta to the reference value. *)
Theorem excluded_iff :
  forall logf isf okf cf base models rows,
    names_distinct (base :: models) = true ->
    rank_models logf isf okf cf base models = Ok rows ->
    exists ref, get_ref logf okf cf base = Ok ref /\
    forall i c, nth_error (base :: models) i = Some c ->
      exists r, row_of rows (c_name c) = Some r /\ w_name r = c_name c /\
        (w_rank r = None <->
           spec_value logf okf cf i c = Ok None \/
           exists v, spec_value logf okf cf i c = Ok (Some v) /\
                     spec_passes isf cf base (base :: models) ref c v = Ok false) /\
        (forall v, spec_value logf okf cf i c = Ok (Some v) ->
                   spec_passes isf cf base (base :: models) ref c v = Ok true ->
                   w_value r = Some v /\ w_delta r = ominus ref v).
Proof. exact excluded_iff_lemma. Qed.

Theorem spec_value_none_is_strictness :
  forall logf cf s i c,
    (exists t, cf_rt cf = RT_ofv \/ cf_rt cf = RT_aic \/ cf_rt cf = RT_lrt \/ cf_rt cf = RT_bic (Some t)) ->
    (spec_value logf (is_strictness_fulfilled s) cf i c = Ok None <-> is_strictness_fulfilled s c = Ok false).
Proof. exact spec_value_none_iff. Qed.

(* failed_never_above_eligible: no unranked row is listed above a ranked one *)
Theorem failed_never_above_eligible :
  forall logf isf okf cf base models rows,
    names_distinct (base :: models) = true ->
    rank_models logf isf okf cf base models = Ok rows ->
    forall l1 a l2 b, rows = l1 ++ a :: l2 -> In b l2 -> w_rank a = None -> w_rank b = None.
Proof. exact failed_never_above_eligible_lemma. Qed.

(* best_is_top_eligible: the final model chosen by create_results (idxmin of the rank column, base model when
   nothing is ranked) — for ANY order of the table's rows, so also for the engine-dependent order inside tie
   groups — is a candidate of rank 1 whose rank value is minimal among all eligible candidates; it is the base
   model when no candidate is eligible. *)
Theorem best_is_top_eligible :
  forall logf isf okf cf base models rows rows',
    names_distinct (base :: models) = true ->
    rank_models logf isf okf cf base models = Ok rows ->
    Permutation rows' rows ->
    let b := best_of_rows (c_name base) rows' in
    ((forall r, In r rows -> w_rank r = None) /\ b = c_name base) \/
    (exists r v, In r rows /\ w_name r = b /\ w_rank r = Some 1 /\ w_value r = Some v /\
                 forall r' v', In r' rows -> w_value r' = Some v' -> (v <= v')%Q).
Proof. exact best_is_top_eligible_lemma. Qed.

(* rank_total_on_nan: when the reference value is NaN (the base model fails) and the rank type is not lrt,
   every candidate with a rank value is ranked (the cut-off is not applied) and no delta is reported *)
Theorem rank_total_on_nan :
  forall logf isf okf cf base models rows,
    names_distinct (base :: models) = true ->
    rank_models logf isf okf cf base models = Ok rows ->
    get_ref logf okf cf base = Ok None ->
    cf_rt cf <> RT_lrt ->
    forall i c v, nth_error (base :: models) i = Some c -> spec_value logf okf cf i c = Ok (Some v) ->
      exists r, row_of rows (c_name c) = Some r /\ w_value r = Some v /\ w_rank r <> None /\ w_delta r = None.
Proof. exact rank_total_on_nan_lemma. Qed.

(* ---- strictness *)

(* strictness_eval_sound: the truth value computed by is_strictness_fulfilled is the documented meaning
   (docs/strictness.rst, Model.spec_strictness: criterion by criterion) — for EVERY strictness argument, every model
   and every result, no side condition.  (Until the fix commits 382c897, 6a7564c, 839c032 this needed three guards;
   the former counter-examples are regression Examples in Refuted.v.) *)
Theorem strictness_eval_sound :
  forall s c, is_strictness_fulfilled s c = spec_strictness s c.
Proof. exact strictness_eval_sound_lemma. Qed.

(* comparing the 2-significant-digit roundings as doubles is comparing the decimals: on all decimals m * 10^e,
   10 <= m <= 99, -15 <= e <= 15 the nearest-double map is injective (closed by computation over the 2790 values) *)
Theorem round53_separates_sig2_decimals :
  forall a b, In a sig2_decimals_list -> In b sig2_decimals_list -> (round53 a == round53 b)%Q -> a = b.
Proof. exact round53_separates_lemma. Qed.

(* numeric criteria compare ALL elements; a NaN element fails every comparison; `!=` is the negation of `==` *)
Theorem strictness_all_elements :
  forall op l v, op <> CNe ->
    (arr_cmp op l v = true <-> forall e, In e l -> exists x, e = Some x /\ cmpq op x v = true).
Proof. exact arr_cmp_all. Qed.
Theorem strictness_cmp_meaning :
  forall op x v,
    cmpq op x v = true <->
    match op with
    | CLt => (x < v)%Q | CLe => (x <= v)%Q | CEq => (x == v)%Q
    | CNe => ~ (x == v)%Q | CGe => (v <= x)%Q | CGt => (v < x)%Q
    end.
Proof. exact cmpq_spec. Qed.
Theorem strictness_ne_is_not_eq : forall l v, arr_cmp CNe l v = negb (arr_cmp CEq l v).
Proof. exact arr_cmp_ne. Qed.

(* a NaN objective value never fulfils any strictness argument (not even a malformed one) *)
Theorem strictness_nan_ofv : forall s c, c_ofv c = None -> is_strictness_fulfilled s c = Ok false.
Proof. exact strictness_nan_lemma. Qed.

(* ---- information criteria *)

(* aic_def: AIC = -2LL + 2 * (number of parameters that are not fixed) *)
Theorem aic_def : forall c o, calculate_aic c o = (o + 2 * natQ (count_estimated (c_params c)))%Q.
Proof. reflexivity. Qed.

(* bic_def: the four documented variants over the counts (log = the engine's log) *)
Theorem bic_def :
  forall logf c o,
    calculate_bic logf (Some BFixed) c o = Ok (o + natQ (count_estimated (c_params c)) * logf (c_nobs c))%Q /\
    calculate_bic logf (Some BRandom) c o = Ok (o + natQ (count_estimated (c_params c)) * logf (c_nsubs c))%Q /\
    calculate_bic logf (Some BIiv) c o =
      Ok (o + natQ (length (filter (fun p => negb (p_fix p) && is_iiv (p_kind p)) (c_params c))) * logf (c_nsubs c))%Q /\
    calculate_bic logf (Some BMixed) c o =
      Ok (o + (natQ (c_nrandm c) * logf (c_nsubs c) + natQ (c_nfixm c) * logf (c_nobs c)))%Q /\
    calculate_bic logf None c o = Err EValue.
Proof. exact bic_def_lemma. Qed.

(* ---- likelihood-ratio test *)

(* lrt_test_def: the test is the documented one — OFV drop against the chi-square cut-off of the difference in
   parameter count, by sign of that difference; NaN never passes *)
Theorem lrt_test_def :
  forall isf p c alpha, lrt_test isf p c (c_ofv p) (c_ofv c) alpha = spec_lrt_test isf p c alpha.
Proof. exact lrt_test_def_lemma. Qed.
Theorem lrt_df_zero :
  forall isf p c a b alpha,
    degrees_of_freedom p c = 0%Z -> c_ofv p = Some a -> c_ofv c = Some b ->
    (lrt_test isf p c (c_ofv p) (c_ofv c) alpha = true <-> (b <= a)%Q).
Proof. exact lrt_df_zero_lemma. Qed.
Theorem lrt_more_params :
  forall isf p c a b alpha d cut,
    degrees_of_freedom p c = Z.pos d -> c_ofv p = Some a -> c_ofv c = Some b -> isf alpha d = Some cut ->
    (lrt_test isf p c (c_ofv p) (c_ofv c) alpha = true <-> (cut <= a - b)%Q).
Proof. exact lrt_more_params_lemma. Qed.
Theorem lrt_fewer_params :
  forall isf p c a b alpha d cut,
    degrees_of_freedom p c = Z.neg d -> c_ofv p = Some a -> c_ofv c = Some b -> isf alpha d = Some cut ->
    (lrt_test isf p c (c_ofv p) (c_ofv c) alpha = true <-> (b - a <= cut)%Q).
Proof. exact lrt_fewer_params_lemma. Qed.
Theorem lrt_nan_never_passes :
  forall isf p c po co alpha, po = None \/ co = None -> lrt_test isf p c po co alpha = false.
Proof. exact lrt_nan_lemma. Qed.
(* with a positive cut-off (0 < alpha < 1) a larger model must strictly improve the objective value *)
Theorem lrt_must_improve :
  forall isf, (forall a d v, isf a d = Some v -> (0 < v)%Q) ->
  forall p c a b alpha d,
    degrees_of_freedom p c = Z.pos d -> c_ofv p = Some a -> c_ofv c = Some b ->
    lrt_test isf p c (c_ofv p) (c_ofv c) alpha = true -> (b < a)%Q.
Proof. exact lrt_must_improve_lemma. Qed.
(* isf is antitone in alpha: a smaller alpha is the stricter test *)
Theorem lrt_stricter_alpha :
  forall isf, (forall a1 a2 d v1 v2, (a1 <= a2)%Q -> isf a1 d = Some v1 -> isf a2 d = Some v2 -> (v2 <= v1)%Q) ->
  forall p c a1 a2 d v2,
    degrees_of_freedom p c = Z.pos d -> (a1 <= a2)%Q -> isf a2 d = Some v2 ->
    lrt_test isf p c (c_ofv p) (c_ofv c) a1 = true -> lrt_test isf p c (c_ofv p) (c_ofv c) a2 = true.
Proof. exact lrt_stricter_alpha_lemma. Qed.
(* sf and isf are inverse: the test passes iff the p-value is at most alpha *)
Theorem lrt_test_iff_pvalue :
  forall isf sf,
    (forall x d a v pv, isf a d = Some v -> sf x (Z.pos d) = Some pv -> ((pv <= a)%Q <-> (v <= x)%Q)) ->
  forall p c alpha d cut pv,
    degrees_of_freedom p c = Z.pos d -> isf alpha d = Some cut ->
    p_value sf p c (c_ofv p) (c_ofv c) = Some pv ->
    (lrt_test isf p c (c_ofv p) (c_ofv c) alpha = true <-> (pv <= alpha)%Q).
Proof. exact lrt_test_iff_pvalue_lemma. Qed.
(* best_of_many tests the candidate with the smallest non-NaN objective value, and keeps the parent when all
   values are NaN *)
Theorem best_of_many_def :
  forall isf parent models po ofvs alpha,
    (forall o, In o ofvs -> o = None) /\ best_of_many isf parent models po ofvs alpha = Some parent
    \/
    exists i x, nth_error ofvs i = Some (Some x) /\ (forall y, In (Some y) ofvs -> (x <= y)%Q) /\
      best_of_many isf parent models po ofvs alpha =
      match nth_error models i with
      | Some m => Some (if lrt_test isf parent m po (Some x) alpha then m else parent)
      | None => None
      end.
Proof. exact best_of_many_lemma. Qed.

(* ---- calculate_bic_penalty (list search spaces) and the fit summary *)

(* the penalty is 2 k_p log(p / E_p) + 2 k_q log(q / E_q), with p (q) replaced by 1 when k_p (k_q) is 0 *)
Theorem bic_penalty_formula_def :
  forall logq p kp q kq Ep Eq v,
    penalty_formula logq p kp q kq (Some Ep) (Some Eq) = Ok v ->
    exists l1 l2,
      logq (inject_Z (if Z.eqb kp 0 then 1 else p) / Ep)%Q = Some l1 /\
      logq (inject_Z (if Z.eqb kq 0 then 1 else q) / Eq)%Q = Some l2 /\
      v = (2 * inject_Z kp * l1 + 2 * inject_Z kq * l2)%Q.
Proof. exact penalty_formula_def_lemma. Qed.
(* a candidate that uses none of the optional random effects gets no penalty *)
Theorem bic_penalty_zero :
  forall logq p q Ep Eq l1 l2,
    logq (inject_Z 1 / match Ep with Some e => e | None => 1 end)%Q = Some l1 ->
    logq (inject_Z 1 / match Eq with Some e => e | None => 1 end)%Q = Some l2 ->
    (forall e, Ep = Some e -> Qeq_bool e 0 = false) -> (forall e, Eq = Some e -> Qeq_bool e 0 = false) ->
    exists v, penalty_formula logq p 0 q 0 Ep Eq = Ok v /\ (v == 0)%Q.
Proof. exact penalty_zero_lemma. Qed.

(* the one-row-per-model fit summary reports the final step: minimization_successful (None counts as False), the
   numbers of logged errors / warnings, and as OFV the LAST iteration of the LAST step of the iteration table
   (the result's own OFV when there is no table) *)
Theorem summary_reports_final_step :
  forall name r row,
    summarize_step name r None = Ok row ->
    sr_minsucc row = match s_minsucc r with Some b => b | None => false end /\
    sr_nerr row = s_nerr r /\ sr_nwarn row = s_nwarn r /\ sr_step row = None /\
    sr_runtime_total row = s_runtime_total r /\
    match s_ofv_iter r with
    | None => sr_ofv row = s_ofv r
    | Some t => last_of_step (max_step t) t = Some (sr_ofv row)
    end /\
    (* estimation run time: that of the last step of the OFV table; of the last row without such a table; the total
       run time when there is no per-step table *)
    match s_est_runtime_iter r with
    | None => sr_est_runtime row = s_runtime_total r
    | Some l => match s_ofv_iter r with
                | Some t => nth_error l (max_step t - 1) = Some (sr_est_runtime row)
                | None => nth_error (rev l) 0 = Some (sr_est_runtime row)
                end
    end.
Proof. exact summary_final_lemma. Qed.
(* summarize_errors: every entry of every model's log appears, indexed by model, category and its position in that
   model's log, and nothing else does (the table is a permutation of exactly these rows) *)
Theorem summarize_errors_exact :
  forall entries, Permutation (summarize_errors entries) (error_rows entries).
Proof. exact summarize_errors_perm. Qed.
Theorem summarize_errors_complete :
  forall entries name log k c m,
    In (name, Some log) entries -> nth_error log k = Some (c, m) ->
    In (mkErow name c k m) (summarize_errors entries).
Proof. exact summarize_errors_complete_lemma. Qed.
Theorem last_of_step_is_last :
  forall (step : nat) (l : list (nat * option Q)) v,
    last_of_step step l = Some v <->
    exists l1 l2, l = l1 ++ (step, v) :: l2 /\ forall x, In x l2 -> fst x <> step.
Proof. intros. apply last_of_step_spec. Qed.

(* ---- _categorize_parameters: the counts of the 'mixed' BIC (Categorize.v) *)

(* the mixed BIC over the MODELLED counts: a candidate whose two counts are those of [categorize] on its statements
   gets  -2LL + |random| log(n_individuals) + |fixed| log(n_observations) *)
Theorem bic_mixed_over_categorize :
  forall logf c m o,
    c_nrandm c = cat_nrand m -> c_nfixm c = cat_nfix m ->
    calculate_bic logf (Some BMixed) c o =
    Ok (o + (natQ (length (normp (snd (categorize m)))) * logf (c_nsubs c)
             + natQ (length (normp (fst (categorize m)))) * logf (c_nobs c)))%Q.
Proof. exact bic_mixed_over_categorize_lemma. Qed.

(* fixed and random parameters are disjoint sets of ESTIMATED (non-fixed) parameters, for every model *)
Theorem categorize_partition :
  forall m,
    (forall x, In x (fst (categorize m)) -> ~ In x (snd (categorize m))) /\
    (forall x, In x (fst (categorize m)) \/ In x (snd (categorize m)) -> In x (cm_nonfixed m)).
Proof. exact categorize_inv. Qed.

(* one classification step: when the expression contains an eta, all its estimated parameters (and sigmas) become
   random and are withdrawn from the fixed ones; otherwise those that are not already random become fixed *)
Theorem categorize_step_random :
  forall etas symbols cur f r,
    interp_nonempty symbols etas = true ->
    forall x, In x cur -> In x (snd (cat_step etas symbols cur (f, r))) /\ ~ In x (fst (cat_step etas symbols cur (f, r))).
Proof. exact cat_step_random. Qed.
Theorem categorize_step_fixed :
  forall etas symbols cur f r,
    interp_nonempty symbols etas = false ->
    snd (cat_step etas symbols cur (f, r)) = r /\
    forall x, In x cur -> ~ In x r -> In x (fst (cat_step etas symbols cur (f, r))).
Proof. exact cat_step_fixed. Qed.

(* zero-fixed omegas: the etas of a distribution whose parameters are all fixed to 0 are the constant 0, so a term
   they multiply vanishes (its thetas are not counted at all) and exp(eta) is 1 *)
Theorem zero_fixed_eta_is_constant :
  forall m d eta,
    In d (cm_rvs m) -> is_zero_dist m d = true -> In eta (rd_names d) ->
    alook (zero_syms m) [] eta = AConst (Some 0%Q).
Proof. exact zero_eta_constant. Qed.
Theorem zero_eta_term_vanishes :
  forall look eta a,
    look eta = AConst (Some 0%Q) ->
    aeval look (Mul (Sym eta) a) = AConst (Some 0%Q) /\ aeval look (Mul a (Sym eta)) = AConst (Some 0%Q)
    /\ aeval look (Fn1 F_EXP (Sym eta)) = AConst (Some 1%Q).
Proof. exact zero_factor_vanishes. Qed.


(* ---- the arithmetic statistics of the resampling / diagnostic tools (Stats.v): the code's array pipeline equals the
   documented formula BY PARAMETER NAME.  [sqrtq] is numpy.sqrt as an arbitrary function; series = labelled values with
   NaN = None; all replicate lists, label orders, missing and extra labels. *)

(* bootstrap: the statistics of column j of the stacked table (labels of the first replicate, replicates aligned on
   their labels, NaN skipped, ddof = 1) are the documented statistics of the parameter named by that column:
   mean, bias = mean - original, standard error = sample sd, RSE = stderr / mean *)
Theorem bootstrap_stats_by_name :
  forall sqrtq reps orig j p,
    nth_error (boot_cols reps) j = Some p -> boot_stat sqrtq reps orig j = doc_boot_stat sqrtq reps orig p.
Proof. exact bootstrap_stats_by_name_lemma. Qed.
Theorem bootstrap_cov_by_name :
  forall reps i j p q,
    nth_error (boot_cols reps) i = Some p -> nth_error (boot_cols reps) j = Some q ->
    boot_cov reps i j = doc_boot_cov reps p q.
Proof. exact bootstrap_cov_by_name_lemma. Qed.
(* the documented formulas spelled out over the available (non-NaN) estimates l of the parameter, |l| >= 2 *)
Theorem bootstrap_formulas :
  forall sqrtq reps orig p l,
    avail (values_of reps p) = l -> 2 <= length l ->
    let n := natQ (length l) in
    let m := (qsum l / n)%Q in
    let v := (qsum (map (fun x => (x - m) * (x - m))%Q l) / natQ (length l - 1))%Q in
    bs_mean (doc_boot_stat sqrtq reps orig p) = Some m /\
    bs_stderr (doc_boot_stat sqrtq reps orig p) = Some (sqrtq v) /\
    bs_rse (doc_boot_stat sqrtq reps orig p) = (if Qeq_bool m 0 then None else Some (sqrtq v / m)%Q) /\
    bs_bias (doc_boot_stat sqrtq reps orig p) =
      match orig with Some o => match sget o p with Some x => Some (m - x)%Q | None => None end | None => None end.
Proof. exact doc_boot_formulas. Qed.
(* the order in which a replicate lists its parameters is irrelevant *)
Theorem bootstrap_label_order_irrelevant :
  forall sqrtq reps reps' orig p,
    Forall2 (fun r r' => Permutation r r' /\ NoDup (map fst r)) reps reps' ->
    doc_boot_stat sqrtq reps orig p = doc_boot_stat sqrtq reps' orig p.
Proof. exact bootstrap_label_order_lemma. Qed.

(* cdd: entry (a, b) of compute_jackknife_covariance_matrix on the case table is (N-1)/N * sum over the cases of
   (theta_p - mean_p)(theta_q - mean_q) for the parameters p, q NAMED by columns a, b *)
Theorem jackknife_by_name :
  forall cols cases a b p q,
    nth_error cols a = Some p -> nth_error cols b = Some q ->
    jackknife (rows_of_cases cols cases) a b = doc_jackknife cases p q.
Proof. exact jackknife_by_name_lemma. Qed.
(* Cook score sqrt(x^T C^-1 x), x = case estimate - base estimate by name in the order of the covariance labels:
   independent of the label order of the case estimates and of the base estimates (since fix 7b6cdfd) *)
Theorem cook_case_label_order_irrelevant :
  forall sqrtq labels cinv base est est',
    NoDup (map fst est) -> Permutation est est' ->
    cook_score sqrtq labels cinv base est = cook_score sqrtq labels cinv base est'.
Proof. exact cook_label_order_lemma. Qed.
Theorem cook_base_label_order_irrelevant :
  forall sqrtq labels cinv base base' est,
    NoDup (map fst base) -> Permutation base base' ->
    cook_score sqrtq labels cinv base est = cook_score sqrtq labels cinv base' est.
Proof. exact cook_base_order_lemma. Qed.

(* shrinkage of the j-th eta with sample variance v and omega om: 1 - v / om, resp. 1 - sd / sqrt(om);
   individual shrinkage: diag(cov_i) / omega *)
Theorem eta_shrinkage_def :
  forall sqrtq omegas ie j e col om v,
    nth_error ie j = Some (e, col) -> nth_error omegas j = Some om -> var_l (avail col) = Some v ->
    eta_shrinkage sqrtq false omegas ie j = (if Qeq_bool om 0 then None else Some (1 - v / om)%Q) /\
    eta_shrinkage sqrtq true omegas ie j = Some (1 - sqrtq v / sqrtq om)%Q.
Proof. exact eta_shrinkage_def_lemma. Qed.
Theorem individual_shrinkage_def :
  forall omegas diag j d om,
    nth_error diag j = Some d -> nth_error omegas j = Some om ->
    nth_error (individual_shrinkage omegas diag) j = Some (if Qeq_bool om 0 then None else Some (d / om)%Q).
Proof. exact individual_shrinkage_def_lemma. Qed.
(* delta method: sqrt(g^T C g) over the symbols of the expression, in the order of the covariance labels *)
Theorem se_delta_def :
  forall sqrtq labels cov grad,
    se_delta sqrtq labels cov grad =
    sqrtq (quad (map (fun n => match lookup n grad with Some g => g | None => 0%Q end) (delta_names labels (map fst grad)))
                (submatrix labels (delta_names labels (map fst grad)) cov)).
Proof. exact se_delta_def_lemma. Qed.

(* ---- calculate_bic_penalty for MFL search spaces (get_penalty_parameters_mfl; the expansion of the MFL strings is the
   oracle of property C18: the expanded attributes are the inputs) *)

(* p and k_p are the sums of the per-attribute contributions (absorption, elimination, transits, peripherals, lagtime) *)
Theorem mfl_counts_are_sums :
  forall m e,
    elim_counts (mf_elim m) = Ok e ->
    mfl_counts m = Ok ((fst (abs_counts (mf_abs m)) + (fst e + (fst (trans_counts (mf_trans m))
                         + (fst (per_counts (mf_per m)) + fst (lag_counts (mf_lag m))))))%Z,
                       (snd (abs_counts (mf_abs m)) + (snd e + (snd (trans_counts (mf_trans m))
                         + (snd (per_counts (mf_per m)) + snd (lag_counts (mf_lag m))))))%Z).
Proof. exact mfl_counts_sum. Qed.
(* an attribute with a single option in the search space contributes nothing: with one option everywhere p = k_p = 0 *)
Theorem mfl_single_option_no_penalty :
  forall ab el tr pe la a c e ce ssd cnts cd c0 pc on,
    ab = Some ([a], c) -> el = Some ([e], ce) -> tr = Some (1, ssd, cnts, cd, c0) -> pe = Some (1, pc) -> la = Some (1, on) ->
    mfl_counts (mkMfl ab el tr pe la) = Ok (0, 0)%Z.
Proof. exact mfl_single_option_lemma. Qed.
Theorem mfl_lagtime_counts : forall len on, len <> 1 -> lag_counts (Some (len, on)) = (1%Z, if on then 1%Z else 0%Z).
Proof. exact lag_counts_def. Qed.
Theorem mfl_peripherals_counts : forall len c0, len <> 1 -> per_counts (Some (len, c0)) = ((Z.of_nat len - 1)%Z, c0).
Proof. exact per_counts_def. Qed.


(* ---- percentiles (pandas / numpy `quantile`, default linear interpolation) and the simeval summary (Stats2.v) *)

(* quantile p of the non-NaN values l: with s the ascending sort of l, h = (n-1) p, lo = floor h, the value is
   s[lo] + (h - lo)(s[lo+1] - s[lo]) (the upper neighbour at the last position being the value itself) *)
Theorem quantile_def :
  forall p l v,
    quantile p l = Some v ->
    exists s, Permutation s l /\ StronglySorted Qle s /\ s <> [] /\
      let h := (natQ (length s - 1) * p)%Q in
      let lo := Z.to_nat (Qfloor h) in
      v = (nth lo s 0 + (h - inject_Z (Qfloor h)) * (nth (S lo) s (nth lo s 0) - nth lo s 0))%Q.
Proof. exact quantile_def_lemma. Qed.
Theorem quantile_nan_iff_empty : forall p l, quantile p l = None <-> l = [].
Proof. exact quantile_none_lemma. Qed.
Theorem distribution_min_is_min : forall l m, qmin l = Some m -> In m l /\ forall x, In x l -> (m <= x)%Q.
Proof. exact qmin_is_min. Qed.
(* bootstrap parameter_distribution: min, the nine percentile columns (0.05 % ... median ... 99.95 %) and max of column j of
   the stacked table are those of the estimates of the parameter NAMED by column j *)
Theorem bootstrap_percentiles_by_name :
  forall reps j p, nth_error (boot_cols reps) j = Some p -> boot_dist reps j = doc_boot_dist reps p.
Proof. exact boot_dist_by_name_lemma. Qed.

(* simeval iofv_summary of individual i with simulated iOFVs l (|l| >= 2, sd <> 0) and original iOFV x:
   sampled mean, sampled sd (ddof 1), residual = (x - mean) / sd, outlier iff residual >= 3, quartile residuals *)
Theorem simeval_formulas :
  forall sqrtq sims orig i l x,
    avail (values_of sims i) = l -> 2 <= length l -> sget orig i = Some x ->
    let m := (qsum l / natQ (length l))%Q in
    let v := (qsum (map (fun y => (y - m) * (y - m))%Q l) / natQ (length l - 1))%Q in
    Qeq_bool (sqrtq v) 0 = false ->
    let r := simeval_row sqrtq sims orig i in
    sm_mean r = Some m /\ sm_stdev r = Some (sqrtq v) /\ sm_residual r = Some ((x - m) / sqrtq v)%Q /\
    sm_outlier r = Qle_bool 3 ((x - m) / sqrtq v) /\
    sm_q1 r = match quantile (1 # 4) l with Some q => Some ((x - q) / sqrtq v)%Q | None => None end /\
    sm_q3 r = match quantile (3 # 4) l with Some q => Some ((x - q) / sqrtq v)%Q | None => None end.
Proof. exact simeval_formulas_lemma. Qed.
(* the order in which the simulated / original results list the individuals is irrelevant *)
Theorem simeval_label_order_irrelevant :
  forall sqrtq sims sims' orig orig' i,
    Forall2 (fun r r' => Permutation r r' /\ NoDup (map fst r)) sims sims' ->
    Permutation orig orig' -> NoDup (map fst orig) ->
    simeval_row sqrtq sims orig i = simeval_row sqrtq sims' orig' i.
Proof. exact simeval_label_order_lemma. Qed.

(* lrt.degrees_of_freedom is the difference of the numbers of ALL parameters of the two models: fixing or unfixing a
   parameter does not change it (docs are silent on fixed parameters; the property statement says "difference in parameter
   count" — recorded as an observation, not a finding, see agents_out/C19.md) *)
Theorem lrt_df_is_parameter_count_difference :
  forall parent child,
    degrees_of_freedom parent child = (Z.of_nat (length (c_params child)) - Z.of_nat (length (c_params parent)))%Z.
Proof. exact lrt_df_def_lemma. Qed.
Theorem lrt_df_ignores_fixing :
  forall parent child child',
    map p_name (c_params child) = map p_name (c_params child') ->
    degrees_of_freedom parent child = degrees_of_freedom parent child'.
Proof. exact lrt_df_ignores_fix_lemma. Qed.


(* ---- cdd delta OFV (Stats3.v: compute_delta_ofv and the dofv_influential flag) *)

(* the delta OFV of a case-deleted run is the base model's OFV (sum of ALL individual OFVs) minus the share of the
   skipped individuals minus the OFV of the case-deleted run — for every table of individual OFVs, every list of
   skipped individuals (also ones the base results do not list), every OFV *)
Theorem cdd_delta_ofv_def :
  forall t skipped o d,
    delta_ofv (Some t) skipped (Some o) = Some d ->
    (d == qsum (map snd t) - qsum (map snd (filter (fun p => memid3 (fst p) skipped) t)) - o)%Q.
Proof. exact delta_ofv_complement_lemma. Qed.
(* it is NaN exactly when the base results have no individual OFVs or the case-deleted run has no results *)
Theorem cdd_delta_ofv_nan_iff : forall iofv skipped o, delta_ofv iofv skipped o = None <-> iofv = None \/ o = None.
Proof. exact delta_ofv_nan_lemma. Qed.
(* one value per case-deleted run, in order *)
Theorem cdd_delta_ofv_per_case :
  forall iofv cases k skipped o,
    nth_error cases k = Some (skipped, o) ->
    nth_error (compute_delta_ofv iofv cases) k = Some (delta_ofv iofv skipped o).
Proof. exact compute_delta_ofv_nth_lemma. Qed.
(* nothing skipped: base OFV minus the run's OFV *)
Theorem cdd_delta_ofv_nothing_skipped : forall t o, (kept_sum t [] - o == qsum (map snd t) - o)%Q.
Proof. exact nothing_skipped_lemma. Qed.
(* a case is flagged influential iff its delta OFV exceeds 3.86 (the double); NaN is never flagged *)
Theorem cdd_influential_def : forall d x, d = Some x -> (dofv_influential d = true <-> (influence_limit < x)%Q).
Proof. exact influential_lemma. Qed.
