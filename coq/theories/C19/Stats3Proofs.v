(* PV.C19.Stats3Proofs — lemmas about cdd delta OFV (Stats3.v). *)
From Coq Require Import QArith ZArith List Bool PArith Arith Lia Lqa.
From PV Require Import C19.Model C19.Stats C19.Stats3 C19.Proofs.
Import ListNotations.
Local Open Scope nat_scope.

Lemma qsum_split (f : id * Q -> bool) l :
  (qsum (map snd l) == qsum (map snd (filter f l)) + qsum (map snd (filter (fun p => negb (f p)) l)))%Q.
Proof.
  induction l as [|x tl IH]; cbn [map filter qsum fold_right]; [lra|].
  fold (qsum (map snd tl)). destruct (f x); cbn [negb map qsum fold_right];
    fold (qsum (map snd (filter f tl))); fold (qsum (map snd (filter (fun p => negb (f p)) tl))); lra.
Qed.

(* delta OFV = (base OFV summed over all individuals) - (the skipped individuals' share) - case-deleted OFV *)
Lemma delta_ofv_complement_lemma t skipped o d :
  delta_ofv (Some t) skipped (Some o) = Some d ->
  (d == qsum (map snd t) - qsum (map snd (filter (fun p => memid3 (fst p) skipped) t)) - o)%Q.
Proof.
  unfold delta_ofv, kept_sum. intro H. injection H as <-.
  pose proof (qsum_split (fun p => memid3 (fst p) skipped) t) as S. cbn beta in S. lra.
Qed.

Lemma delta_ofv_nan_lemma iofv skipped o : delta_ofv iofv skipped o = None <-> iofv = None \/ o = None.
Proof.
  unfold delta_ofv. destruct iofv, o; split; intro H; try discriminate; auto; destruct H; discriminate.
Qed.

Lemma compute_delta_ofv_nth_lemma iofv cases k skipped o :
  nth_error cases k = Some (skipped, o) ->
  nth_error (compute_delta_ofv iofv cases) k = Some (delta_ofv iofv skipped o).
Proof. intro H. unfold compute_delta_ofv. rewrite nth_error_map, H. reflexivity. Qed.

Lemma nothing_skipped_lemma t o : (kept_sum t [] - o == qsum (map snd t) - o)%Q.
Proof.
  unfold kept_sum. assert (E : filter (fun p : id * Q => negb (memid3 (fst p) [])) t = t).
  { induction t as [|x tl IH]; [reflexivity|]. cbn [filter]. replace (negb (memid3 (fst x) [])) with true by reflexivity. rewrite IH. reflexivity. }
  rewrite E. lra.
Qed.

Lemma influential_lemma d x : d = Some x -> (dofv_influential d = true <-> (influence_limit < x)%Q).
Proof. intros ->. unfold dofv_influential. apply Qlt_bool_iff. Qed.
