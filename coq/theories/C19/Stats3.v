(* PV.C19.Stats3 — tools/cdd/results.py compute_delta_ofv and the dofv_influential flag of calculate_results:
   for every case-deleted run, the base model's individual OFVs summed over the individuals that were NOT skipped
   (iofv.index.difference(skipped)) minus the OFV of the case-deleted run; NaN when that run has no results or the base
   results have no individual OFVs; influential iff delta OFV > 3.86.  Exact over Q.  Includes the in-Coq comparison. *)
From Coq Require Import QArith ZArith List Bool PArith Arith.
From PV Require Import C19.Model C19.Stats.
Import ListNotations.
Local Open Scope nat_scope.

Definition memid3 (x : id) (l : list id) : bool := existsb (Pos.eqb x) l.
(* sum(iofv[iofv.index.difference(skipped)]) *)
Definition kept_sum (iofv : list (id * Q)) (skipped : list id) : Q :=
  qsum (map snd (filter (fun p => negb (memid3 (fst p) skipped)) iofv)).
Definition delta_ofv (iofv : option (list (id * Q))) (skipped : list id) (cdd_ofv : option Q) : option Q :=
  match iofv, cdd_ofv with
  | Some t, Some o => Some (kept_sum t skipped - o)%Q
  | _, _ => None
  end.
Definition compute_delta_ofv (iofv : option (list (id * Q))) (cases : list (list id * option Q)) : list (option Q) :=
  map (fun c => delta_ofv iofv (fst c) (snd c)) cases.
Definition influence_limit : Q := (8691947280825057 # 2251799813685248)%Q.      (* the double 3.86 *)
Definition dofv_influential (d : option Q) : bool := match d with Some x => Qlt_bool influence_limit x | None => false end.

Record ddcase := mkDdcase { dd_iofv : option (list (id * Q)); dd_cases : list (list id * option Q);
                            dd_obs : list (option Q); dd_infl : list bool }.
Definition oq_eqb3 (a b : option Q) : bool :=
  match a, b with Some x, Some y => Qeq_bool x y | None, None => true | _, _ => false end.
Fixpoint all2 {A B} (f : A -> B -> bool) (a : list A) (b : list B) : bool :=
  match a, b with [], [] => true | x :: a', y :: b' => f x y && all2 f a' b' | _, _ => false end.
Definition ddverdict (c : ddcase) : list nat :=
  let m := compute_delta_ofv (dd_iofv c) (dd_cases c) in
  (if all2 oq_eqb3 m (dd_obs c) then [] else [39]) ++
  (if all2 Bool.eqb (map dofv_influential m) (dd_infl c) then [] else [39]).
