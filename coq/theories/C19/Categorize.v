(* PV.C19.Categorize — modeling/results.py _categorize_parameters (the counts behind the 'mixed' BIC):
   replace_non_random_rvs (random variables whose parameters are all fixed to 0 are the constant 0), then for
   every individual parameter / dependent variable: which estimated parameters occur in its full expression and
   whether an eta does — parameters reaching the prediction only through random effects are "random", the
   others "fixed"; the set updates are order dependent and mirrored as written.

   Expressions are PV.Base.Expr trees of the ORIGINAL statements.  sympy's automatic evaluation after the
   substitution eta := 0 (0*x = 0, x+0 = x, exp(0) = 1, x**0 = 1, ...) is mirrored by a small constant-folding
   abstract evaluation [aeval] (value = known constant | unknown constant | set of leaf symbols), a forward
   dataflow over the statements (= free symbols of full_expression).  [get_individual_parameters] is an oracle:
   its result is an input.  Includes the in-Coq comparison for its cases. *)
From Coq Require Import QArith ZArith List Bool PArith Arith.
From PV Require Import Base.PyData Base.Expr Base.Interp C19.Model.
Import ListNotations.
Local Open Scope nat_scope.

Inductive aval := AConst (q : option Q) | ASyms (s : list id).
Definition asyms (v : aval) : list id := match v with ASyms s => s | AConst _ => [] end.
Definition ajoin (a b : aval) : aval :=
  match a, b with
  | AConst _, AConst _ => AConst None
  | _, _ => ASyms (unionp (asyms a) (asyms b))
  end.
Definition is0 (q : Q) : bool := Qeq_bool q 0.
Definition is1 (q : Q) : bool := Qeq_bool q 1.

Definition aadd (a b : aval) : aval :=
  match a, b with
  | AConst (Some x), AConst (Some y) => AConst (Some (Qred (x + y)))
  | AConst (Some x), _ => if is0 x then b else ajoin a b
  | _, AConst (Some y) => if is0 y then a else ajoin a b
  | _, _ => ajoin a b
  end.
Definition amul (a b : aval) : aval :=
  match a, b with
  | AConst (Some x), AConst (Some y) => AConst (Some (Qred (x * y)))
  | AConst (Some x), _ => if is0 x then AConst (Some 0%Q) else ajoin a b
  | _, AConst (Some y) => if is0 y then AConst (Some 0%Q) else ajoin a b
  | _, _ => ajoin a b
  end.
Definition aneg (a : aval) : aval := match a with AConst (Some x) => AConst (Some (- x)%Q) | _ => a end.
Definition adiv (a b : aval) : aval :=
  match a, b with
  | AConst (Some x), AConst (Some y) => if is0 y then AConst None else AConst (Some (Qred (x / y)))
  | AConst (Some x), _ => if is0 x then AConst (Some 0%Q) else ajoin a b
  | _, _ => ajoin a b
  end.
Definition afn1 (f : id) (a : aval) : aval :=
  match a with
  | AConst (Some x) =>
      if Pos.eqb f F_EXP && is0 x then AConst (Some 1%Q)
      else if Pos.eqb f F_LOG && is1 x then AConst (Some 0%Q)
      else if Pos.eqb f F_SQRT && (is0 x || is1 x) then AConst (Some x)
      else AConst None
  | _ => a
  end.
Definition afn2 (f : id) (a b : aval) : aval :=
  if Pos.eqb f F_POW then
    match a, b with
    | _, AConst (Some y) =>
        if is0 y then AConst (Some 1%Q)
        else if is1 y then a
        else match a with
             | AConst (Some x) =>
                 if is1 x then AConst (Some 1%Q)
                 else if is0 x && Qlt_bool 0 y then AConst (Some 0%Q)
                 else if Qeq_bool y (-1) && negb (is0 x) then AConst (Some (Qred (1 / x)))
                 else if Qeq_bool y 2 then AConst (Some (Qred (x * x)))
                 else AConst None
             | _ => ajoin a b
             end
    | AConst (Some x), _ => if is1 x then AConst (Some 1%Q) else ajoin a b
    | _, _ => ajoin a b
    end
  else ajoin a b.

Section AEval.
Variable look : id -> aval.      (* value of a symbol: defined earlier / constant 0 / leaf *)

Fixpoint aeval (e : expr) : aval :=
  match e with
  | Num q => AConst (Some q)
  | Sym s => look s
  | Fn1 f a => afn1 f (aeval a)
  | Fn2 f a b => afn2 f (aeval a) (aeval b)
  | Add a b => aadd (aeval a) (aeval b)
  | Mul a b => amul (aeval a) (aeval b)
  | Neg a => aneg (aeval a)
  | Div a b => adiv (aeval a) (aeval b)
  | PwNil => AConst None
  | PwCons c e rest =>
      let sc := acond c in
      match sc, aeval e, aeval rest with
      | [], AConst _, AConst _ => AConst None
      | _, ve, vr => ASyms (unionp sc (unionp (asyms ve) (asyms vr)))
      end
  end
with acond (c : cond) : list id :=
  match c with
  | CTrue | CFalse => []
  | CRel _ a b => unionp (asyms (aeval a)) (asyms (aeval b))
  | CAnd a b => unionp (acond a) (acond b)
  | COr a b => unionp (acond a) (acond b)
  | CNot a => acond a
  end.
End AEval.

Fixpoint alookup_v (s : id) (env : list (id * aval)) : option aval :=
  match env with [] => None | (k, v) :: tl => if Pos.eqb k s then Some v else alookup_v s tl end.
Definition alook (zs : list id) (env : list (id * aval)) (s : id) : aval :=
  match alookup_v s env with
  | Some v => v
  | None => if memp s zs then AConst (Some 0%Q) else ASyms [s]
  end.
(* forward dataflow over assignments: the latest definition of a symbol is at the head *)
Definition run_stmts (zs : list id) (stmts : list (id * expr)) : list (id * aval) :=
  fold_left (fun env st => (fst st, aeval (alook zs env) (snd st)) :: env) stmts [].
(* free symbols of statements.full_expression(symbol) *)
Definition full_syms (zs : list id) (stmts : list (id * expr)) (s : id) : list id :=
  asyms (alook zs (run_stmts zs stmts) s).

Record rvd := mkRvd { rd_eta : bool; rd_names : list id; rd_params : list id }.
Record catmodel := mkCat {
  cm_before : list (id * expr);       (* assignments before the ODE system *)
  cm_after : list (id * expr);        (* assignments after it *)
  cm_rvs : list rvd;                  (* model.random_variables, with their parameter names *)
  cm_zerofix : list id;               (* parameters with init == 0 and fix *)
  cm_nonfixed : list id;              (* model.parameters.nonfixed *)
  cm_indpars : list id;               (* ORACLE: get_individual_parameters(replace_non_random_rvs(model)) *)
  cm_ys : list id                     (* model.dependent_variables *)
}.

Definition is_zero_dist (m : catmodel) (d : rvd) : bool := forallb (fun p => memp p (cm_zerofix m)) (rd_params d).
Definition zero_syms (m : catmodel) : list id :=
  flat_map (fun d => rd_params d ++ rd_names d) (filter (is_zero_dist m) (cm_rvs m)).
Definition kept (m : catmodel) : list rvd := filter (fun d => negb (is_zero_dist m d)) (cm_rvs m).
Definition eta_syms (m : catmodel) : list id := flat_map rd_names (filter rd_eta (kept m)).
Definition eps_dists (m : catmodel) : list rvd := filter (fun d => negb (rd_eta d)) (kept m).
Definition omega_syms (m : catmodel) : list id := flat_map rd_params (filter rd_eta (kept m)).
Definition interp_l (a b : list id) : list id := filter (fun x => memp x b) a.

(* one iteration of either loop *)
Definition cat_step (etas : list id) (symbols cursymbols : list id) (st : list id * list id) : list id * list id :=
  let '(fixedpars, randpars) := st in
  if interp_nonempty symbols etas
  then (diffp fixedpars cursymbols, unionp randpars cursymbols)
  else (unionp fixedpars (diffp cursymbols randpars), randpars).

Definition categorize (m : catmodel) : list id * list id :=        (* (fixedpars, randpars) *)
  let zs := zero_syms m in
  let pop := cm_nonfixed m in
  let etas := eta_syms m in
  let st0 := ([], interp_l (omega_syms m) pop) in
  let st1 := fold_left (fun st ip =>
                          let symbols := full_syms zs (cm_before m) ip in
                          cat_step etas symbols (interp_l symbols pop) st) (cm_indpars m) st0 in
  fold_left (fun st y =>
               let symbols := full_syms zs (cm_after m) y in
               let cureps := interp_l symbols (flat_map rd_names (eps_dists m)) in
               let cursigmas := interp_l (flat_map rd_params
                                            (filter (fun d => interp_nonempty (rd_names d) cureps) (eps_dists m))) pop in
               cat_step etas symbols (unionp (interp_l symbols pop) cursigmas) st) (cm_ys m) st1.

Definition cat_nfix (m : catmodel) : nat := length (normp (fst (categorize m))).
Definition cat_nrand (m : catmodel) : nat := length (normp (snd (categorize m))).

(* ---- comparison: the two sets returned by the real _categorize_parameters *)
Record ccase := mkCcase { cc_model : catmodel; cc_fixed : list id; cc_rand : list id }.
Definition cverdict (c : ccase) : list nat :=
  let '(f, r) := categorize (cc_model c) in
  (if setp_eqb f (cc_fixed c) && setp_eqb r (cc_rand c) then [] else [10]).
