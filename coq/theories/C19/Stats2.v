(* PV.C19.Stats2 — second part of the statistics model:
     pandas / numpy `quantile` with the default linear interpolation (bootstrap create_distribution: min, max, median and
       the percentile columns; simeval quartiles):  position h = (n - 1) p in the sorted non-NaN values, lo = floor h,
       value = s[lo] + (h - lo) (s[lo+1] - s[lo]);
     tools/simeval/results.py calculate_results: per individual the mean / sd of the simulated iOFVs (aligned on the ID
       label, NaN skipped), residual = (original - mean) / sd, quartile residuals, outlier flag residual >= 3.
   Exact over Q; sqrt is an oracle.  Includes the in-Coq comparison for its cases. *)
From Coq Require Import QArith ZArith List Bool PArith Arith Qabs Qround.
From PV Require Import C19.Model C19.Stats.
Import ListNotations.
Local Open Scope nat_scope.

(* ascending insertion sort (numpy sorts / partitions the non-NaN values) *)
Fixpoint ins_asc (x : Q) (l : list Q) : list Q :=
  match l with [] => [x] | y :: tl => if Qlt_bool y x then y :: ins_asc x tl else x :: l end.
Definition sort_asc (l : list Q) : list Q := fold_right ins_asc [] l.

(* Series.quantile(p), interpolation='linear', NaN skipped; None for an all-NaN column *)
Definition quantile (p : Q) (l : list Q) : option Q :=
  match sort_asc l with
  | [] => None
  | s =>
      let h := (natQ (length s - 1) * p)%Q in
      let lo := Z.to_nat (Qfloor h) in
      let a := nth lo s 0%Q in
      let b := nth (S lo) s a in                  (* at the last position the upper neighbour is the value itself *)
      Some (a + (h - inject_Z (Qfloor h)) * (b - a))%Q
  end.
Definition qmin (l : list Q) : option Q := match sort_asc l with [] => None | x :: _ => Some x end.
Definition qmax (l : list Q) : option Q := match rev (sort_asc l) with [] => None | x :: _ => Some x end.

(* the percentile columns of bootstrap create_distribution *)
Definition boot_percentiles : list Q :=
  [5 # 10000; 5 # 1000; 25 # 1000; 5 # 100; 1 # 2; 95 # 100; 975 # 1000; 995 # 1000; 9995 # 10000]%Q.
(* column j of the stacked table / documented: the estimates of the parameter named p *)
Definition boot_dist (reps : list series) (j : nat) : option Q * list (option Q) * option Q :=
  let l := avail (column j (boot_table reps)) in (qmin l, map (fun p => quantile p l) boot_percentiles, qmax l).
Definition doc_boot_dist (reps : list series) (p : id) : option Q * list (option Q) * option Q :=
  let l := avail (values_of reps p) in (qmin l, map (fun q => quantile q l) boot_percentiles, qmax l).

(* ---------------- simeval *)
Section Sqrt.
Variable sqrtq : Q -> Q.
Record simrow := mkSimrow {
  sm_original : option Q; sm_mean : option Q; sm_stdev : option Q;
  sm_residual : option Q; sm_q1 : option Q; sm_q3 : option Q; sm_outlier : bool }.
Definition odivq (a b : option Q) : option Q :=
  match a, b with Some x, Some y => if Qeq_bool y 0 then None else Some (x / y)%Q | _, _ => None end.
(* row of iofv_summary for the individual labelled i: sampled_iofv is the label-aligned concat of the simulations *)
Definition simeval_row (sims : list series) (orig : series) (i : id) : simrow :=
  let l := avail (values_of sims i) in
  let o := sget orig i in
  let m := mean_l l in
  let sd := option_map sqrtq (var_l l) in
  let res := odivq (omap2 Qminus o m) sd in
  mkSimrow o m sd res (odivq (omap2 Qminus o (quantile (1 # 4) l)) sd) (odivq (omap2 Qminus o (quantile (3 # 4) l)) sd)
           (match res with Some r => Qle_bool 3 r | None => false end).
End Sqrt.

(* ---- comparison *)
Record simobs := mkSimobs { so_id : id; so_original : option Q; so_mean : option Q; so_stdev : option Q;
                            so_residual : option Q; so_q1 : option Q; so_q3 : option Q; so_outlier : bool }.
Inductive st2case :=
| StPct (exact_med : bool) (reps : list series) (obs : list (id * option Q * list (option Q) * option Q))
| StSim (exact : bool) (sims : list series) (orig : series) (obs : list simobs).

Definition sq_signed (a : option Q) : option Q := option_map (fun x => x * Qabs x)%Q a.     (* order preserving square *)
Definition stverdict2 (c : st2case) : list nat :=
  match c with
  | StPct ex reps obs =>
      let cols := boot_cols reps in
      tagb (Nat.eqb (length obs) (length cols)) 37 ++
      flat_map (fun p =>
        let '(j, (n, mn, qs, mx)) := p in
        let '(mmin, mqs, mmax) := boot_dist reps j in
        let '(dmin, dqs, dmax) := doc_boot_dist reps n in
        tagb (Pos.eqb (nth j cols 1%positive) n) 37 ++
        (* min / max exact; the median exact on dyadic data; the other percentiles to 1e-12 (numpy evaluates the position
           (n-1)p and the interpolation in double arithmetic with the double nearest to p) *)
        tagb (oexact mmin mn && oexact mmax mx) 37 ++
        tagb (Nat.eqb (length qs) (length mqs) && forallb (fun q => oclose (fst q) (snd q)) (combine mqs qs)) 37 ++
        tagb (negb ex || oexact (nth 4 mqs None) (nth 4 qs None)) 37 ++
        tagb (oexact dmin mn && oexact dmax mx && forallb (fun q => oclose (fst q) (snd q)) (combine dqs qs)) 42)
        (combine (seqn 0 (length obs)) obs)
  | StSim ex sims orig obs =>
      flat_map (fun o =>
        let r := simeval_row idq sims orig (so_id o) in           (* sqrt := id: sm_stdev is the variance *)
        let oex := if ex then oexact else oclose in
        let num := omap2 Qminus (sm_original r) (sm_mean r) in
        let rsq (n : option Q) := match n, sm_stdev r with
                                  | Some x, Some v => if Qeq_bool v 0 then None else Some (x * Qabs x / v)%Q
                                  | _, _ => None end in
        tagb (oexact (sm_original r) (so_original o) && oex (sm_mean r) (so_mean o)) 38 ++
        tagb (oclose (sm_stdev r) (osq (so_stdev o))) 38 ++
        tagb (oclose (rsq num) (sq_signed (so_residual o))) 38 ++
        tagb (oclose (rsq (omap2 Qminus (sm_original r) (quantile (1 # 4) (avail (values_of sims (so_id o))))))
                     (sq_signed (so_q1 o))
              && oclose (rsq (omap2 Qminus (sm_original r) (quantile (3 # 4) (avail (values_of sims (so_id o))))))
                        (sq_signed (so_q3 o))) 38 ++
        (* residual >= 3  <=>  signed square >= 9; not decided within 1e-9 of the threshold *)
        tagb (match rsq num with
              | Some s => if Qle_bool (Qabs (s - 9)) (1 # 1000000000) then true else Bool.eqb (Qle_bool 9 s) (so_outlier o)
              | None => negb (so_outlier o) end) 38) obs
  end.
