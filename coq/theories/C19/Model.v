(* PV.C19.Model — executable model of pharmpy's ranking / selection-criteria code.

   Mirrors, statement by statement:
     tools/run.py      rank_models, get_rankval, is_strictness_fulfilled (+ ArrayEvaluator), create_results' choice
                       of the best model (tools/common.py), calculate_bic_penalty's closing formula
     modeling/results.py  calculate_aic, calculate_bic (counting logic), check_parameters_near_bounds,
                       _is_close_to_bound, _is_near_target, internals/math.py round_to_n_sigdig
     modeling/lrt.py   degrees_of_freedom, cutoff, p_value, test, best_of_two, best_of_many

   Conventions: a float is its exact rational value, NaN is [None]; Python dicts keyed by model name are
   association lists (the modelled domain has pairwise distinct model names, [names_distinct]);
   [math.log], [chi2.isf], [chi2.sf] are oracles (Section variables).  NO proofs in this file. *)
From Coq Require Import QArith ZArith List Bool PArith Arith Qround Qabs.
From Coq Require String.
Import String.StringSyntax.
Delimit Scope string_scope with string.
Import ListNotations.
Local Open Scope nat_scope.

Definition id := positive.

Inductive err := EValue | EKey | EInternal.
Inductive res (A : Type) := Ok (a : A) | Err (e : err).
Arguments Ok {A} a.
Arguments Err {A} e.

Definition Qlt_bool (x y : Q) : bool := negb (Qle_bool y x).

(* ------------------------------------------------------------------ parameters, results *)
Inductive pkind := KTheta | KOmegaIIV | KOmegaIOV | KSigma.
Definition is_theta k := match k with KTheta => true | _ => false end.
Definition is_omega k := match k with KOmegaIIV | KOmegaIOV => true | _ => false end.
Definition is_sigma k := match k with KSigma => true | _ => false end.
Definition is_iiv k := match k with KOmegaIIV => true | _ => false end.

Record param := mkParam {
  p_name : id; p_kind : pkind; p_fix : bool;
  p_lower : option Q;     (* None = -inf *)
  p_upper : option Q      (* None = +inf *)
}.

Inductive termcause := TNone | TRounding | TMaxevals | TOther.

Record resrec := mkRes {
  r_minsucc : bool;                           (* minimization_successful (None counts as False) *)
  r_term : termcause;                         (* termination_cause *)
  r_sigdigs : option Q;                       (* significant_digits, NaN = None *)
  r_wfzg : bool;                              (* 'final_zero_gradient' in warnings *)
  r_wenb : bool;                              (* 'estimate_near_boundary' in warnings *)
  r_rse : option (list (id * option Q));      (* relative_standard_errors *)
  r_grad : option (list (id * option Q));     (* gradients *)
  r_cond : option (option Q);                 (* None: no covariance matrix; Some v: np.linalg.cond (engine value) *)
  r_est : option (list (id * Q))              (* parameter_estimates *)
}.

Record cand := mkCand {
  c_name : id;
  c_ofv : option Q;                            (* NaN = None *)
  c_params : list param;                       (* model.parameters, in order *)
  c_nfixm : nat; c_nrandm : nat;               (* |fixedpars|, |randpars| of _categorize_parameters *)
  c_nsubs : positive; c_nobs : positive;       (* len(get_ids), len(get_observations) *)
  c_res : resrec
}.

Definition npar (c : cand) : nat := length (c_params c).
Definition nonfixed (c : cand) : list param := filter (fun p => negb (p_fix p)) (c_params c).
Definition nest (c : cand) : nat := length (nonfixed c).
Definition niiv (c : cand) : nat := length (filter (fun p => is_iiv (p_kind p)) (nonfixed c)).
Definition natQ (n : nat) : Q := inject_Z (Z.of_nat n).

(* ------------------------------------------------------------------ strictness expressions *)
Inductive sname :=
| S_minimization_successful | S_rounding_errors | S_sigdigs | S_maxevals_exceeded
| S_rse | S_rse_theta | S_rse_omega | S_rse_sigma | S_condition_number
| S_fzg | S_fzg_theta | S_fzg_omega | S_fzg_sigma
| S_enb | S_enb_theta | S_enb_omega | S_enb_sigma.

Definition all_snames : list sname :=
  [S_minimization_successful; S_rounding_errors; S_sigdigs; S_maxevals_exceeded;
   S_rse; S_rse_theta; S_rse_omega; S_rse_sigma; S_condition_number;
   S_fzg; S_fzg_theta; S_fzg_omega; S_fzg_sigma; S_enb; S_enb_theta; S_enb_omega; S_enb_sigma].

Definition sname_string (n : sname) : String.string :=
  match n with
  | S_minimization_successful => "minimization_successful" | S_rounding_errors => "rounding_errors"
  | S_sigdigs => "sigdigs" | S_maxevals_exceeded => "maxevals_exceeded"
  | S_rse => "rse" | S_rse_theta => "rse_theta" | S_rse_omega => "rse_omega" | S_rse_sigma => "rse_sigma"
  | S_condition_number => "condition_number"
  | S_fzg => "final_zero_gradient" | S_fzg_theta => "final_zero_gradient_theta"
  | S_fzg_omega => "final_zero_gradient_omega" | S_fzg_sigma => "final_zero_gradient_sigma"
  | S_enb => "estimate_near_boundary" | S_enb_theta => "estimate_near_boundary_theta"
  | S_enb_omega => "estimate_near_boundary_omega" | S_enb_sigma => "estimate_near_boundary_sigma"
  end%string.

Definition sname_eqb (a b : sname) : bool :=
  match a, b with
  | S_minimization_successful, S_minimization_successful | S_rounding_errors, S_rounding_errors
  | S_sigdigs, S_sigdigs | S_maxevals_exceeded, S_maxevals_exceeded | S_rse, S_rse | S_rse_theta, S_rse_theta
  | S_rse_omega, S_rse_omega | S_rse_sigma, S_rse_sigma | S_condition_number, S_condition_number
  | S_fzg, S_fzg | S_fzg_theta, S_fzg_theta | S_fzg_omega, S_fzg_omega | S_fzg_sigma, S_fzg_sigma
  | S_enb, S_enb | S_enb_theta, S_enb_theta | S_enb_omega, S_enb_omega | S_enb_sigma, S_enb_sigma => true
  | _, _ => false
  end.

Definition is_numeric (n : sname) : bool :=
  match n with S_sigdigs | S_rse | S_rse_theta | S_rse_omega | S_rse_sigma | S_condition_number => true | _ => false end.

Inductive cmpop := CLt | CLe | CEq | CNe | CGe | CGt.

(* The documented grammar "(A or B) and C < n": boolean criteria, numeric criterion <op> number, and/or/not.
   "number <op> criterion" is represented with the reflected operator (Python falls back to the reflected
   method of ArrayEvaluator), a chained comparison as the conjunction of its links. *)
Inductive sexpr :=
| SB (n : sname)
| SCmp (n : sname) (op : cmpop) (v : Q)
| SNot (e : sexpr)
| SAnd (a b : sexpr)
| SOr (a b : sexpr).

Fixpoint used (e : sexpr) : list sname :=
  match e with
  | SB n => [n] | SCmp n _ _ => [n] | SNot a => used a | SAnd a b => used a ++ used b | SOr a b => used a ++ used b
  end.
Definition uses (e : sexpr) (n : sname) : bool := existsb (sname_eqb n) (used e).

Fixpoint well_typed (e : sexpr) : bool :=
  match e with
  | SB n => negb (is_numeric n) | SCmp n _ _ => is_numeric n
  | SNot a => well_typed a | SAnd a b => well_typed a && well_typed b | SOr a b => well_typed a && well_typed b
  end.

(* ArrayEvaluator: all(e <op> value for e in x); a NaN element makes every comparison False.
   There is no __ne__: Python derives `!=` as `not __eq__`. *)
Definition cmpq (op : cmpop) (x v : Q) : bool :=
  match op with
  | CLt => Qlt_bool x v | CLe => Qle_bool x v | CEq => Qeq_bool x v
  | CNe => negb (Qeq_bool x v) | CGe => Qle_bool v x | CGt => Qlt_bool v x
  end.
Definition elem_cmp (op : cmpop) (v : Q) (e : option Q) : bool :=
  match e with None => false | Some x => cmpq op x v end.
Definition arr_cmp (op : cmpop) (l : list (option Q)) (v : Q) : bool :=
  match op with
  | CNe => negb (forallb (elem_cmp CEq v) l)
  | _ => forallb (elem_cmp op v) l
  end.

Definition kind_of (ps : list param) (n : id) : option pkind :=
  match find (fun p => Pos.eqb (p_name p) n) ps with Some p => Some (p_kind p) | None => None end.
Definition rows_of {A} (ps : list param) (k : pkind -> bool) (l : list (id * A)) : list (id * A) :=
  filter (fun r => match kind_of ps (fst r) with Some kd => k kd | None => false end) l.
Definition any_zero (l : list (id * option Q)) : bool :=
  existsb (fun r => match snd r with Some x => Qeq_bool x 0 | None => false end) l.
Definition any_null (l : list (id * option Q)) : bool :=
  existsb (fun r => match snd r with None => true | Some _ => false end) l.

(* ---- round_to_n_sigdig(x, 2), exact on the rational value of the float *)
Fixpoint norm10 (fuel : nat) (y : Q) (e : Z) : Q * Z :=     (* |x| = y * 10^e, goal 10 <= y < 100 *)
  match fuel with
  | O => (y, e)
  | S f => if Qlt_bool y 10 then norm10 f (y * 10) (e - 1)%Z
           else if Qle_bool 100 y then norm10 f (y / 10) (e + 1)%Z else (y, e)
  end.
Definition round_half_even (y : Q) : Z :=
  let fl := Qfloor y in
  let fr := (y - inject_Z fl)%Q in
  match Qcompare fr (1 # 2) with
  | Lt => fl | Gt => (fl + 1)%Z | Eq => if Z.even fl then fl else (fl + 1)%Z
  end.
Definition round_sig2 (x : Q) : Q :=          (* the exact decimal: x to 2 significant digits, ties to even *)
  if Qeq_bool x 0 then 0%Q
  else let '(y, e) := norm10 700 (Qabs x) 0%Z in
       let r := (inject_Z (round_half_even y) * Qpower 10 e)%Q in
       Qred (if Qlt_bool x 0 then - r else r)%Q.

(* IEEE double arithmetic where the code depends on it: the nearest double (ties to even; no subnormals /
   overflow in the range of the inputs) *)
Definition round53 (q : Q) : Q :=
  if Qeq_bool q 0 then 0%Q
  else let a := Qabs q in
       let e0 := (Z.log2 (Qnum a) - Z.log2 (Zpos (Qden a)) - 52)%Z in
       let s := (a / Qpower 2 e0)%Q in
       let e := if Qlt_bool s (Qpower 2 52) then (e0 - 1)%Z
                else if Qle_bool (Qpower 2 53) s then (e0 + 1)%Z else e0 in
       let m := round_half_even (a / Qpower 2 e) in
       let r := (inject_Z m * Qpower 2 e)%Q in
       Qred (if Qlt_bool q 0 then - r else r)%Q.

(* number of decimals passed to round(): -floor(log10 |x|) + (2 - 1) *)
Definition sig2_decimals (x : Q) : Z := let '(_, e) := norm10 700 (Qabs x) 0%Z in (- e)%Z.

(* Python's float.__round__ is correctly rounded: the double nearest to the exact decimal *)
Definition py_round_sig2 (x : Q) : Q := if Qeq_bool x 0 then 0%Q else round53 (round_sig2 x).

Definition zero_limit : Q := (1152921504606847 # 1152921504606846976)%Q.   (* the double 0.001 *)
(* _is_near_target(x, target, ...): both x (converted with float(), fix 839c032) and target go through Python's
   round(): the two doubles nearest to the 2-significant-digit decimals are compared *)
Definition near_target (x target : Q) : bool :=
  if Qeq_bool target 0 then Qlt_bool (Qabs x) (Qabs zero_limit)
  else Qeq_bool (py_round_sig2 x) (py_round_sig2 target).
Definition close_to_bound (p : param) (v : Q) : bool :=
  (match p_lower p with Some lo => near_target v lo | None => false end)
  || (match p_upper p with Some up => near_target v up | None => false end).
(* check_parameters_near_bounds(model, values).any(); KeyError for a name that is not a model parameter *)
Fixpoint near_bounds_any (ps : list param) (vals : list (id * Q)) : res bool :=
  match vals with
  | [] => Ok false
  | (n, v) :: tl =>
      match find (fun p => Pos.eqb (p_name p) n) ps with
      | None => Err EKey
      | Some p => match near_bounds_any ps tl with
                  | Err e => Err e
                  | Ok b => Ok (close_to_bound p v || b)
                  end
      end
  end.

(* ---- the environment set up by is_strictness_fulfilled before eval() *)
Definition uses_rse_sub (e : sexpr) : bool := uses e S_rse_theta || uses e S_rse_omega || uses e S_rse_sigma.
Definition uses_fzg_sub (e : sexpr) : bool := uses e S_fzg_theta || uses e S_fzg_omega || uses e S_fzg_sigma.
Definition uses_enb_any (e : sexpr) : bool :=
  uses e S_enb || uses e S_enb_theta || uses e S_enb_omega || uses e S_enb_sigma.

Definition setup_error (e : sexpr) (r : resrec) : option err :=
  if uses e S_condition_number && (match r_cond r with None => true | _ => false end) then Some EValue
  else if uses e S_rse && (match r_rse r with None => true | _ => false end) then Some EValue
  else if uses_rse_sub e && (match r_rse r with None => true | _ => false end) then Some EInternal
  else if uses_fzg_sub e && (match r_grad r with None => true | _ => false end) then Some EInternal
  else if uses_enb_any e && (match r_est r with None => true | _ => false end) then Some EInternal
  else None.

Definition vals {A} (l : list (id * A)) : list A := map snd l.
Definition olist {A} (o : option (list A)) : list A := match o with Some l => l | None => [] end.

(* value of a boolean criterion (the NaN test of each gradient criterion reads its own rows, fix 6a7564c) *)
Definition bool_value (ps : list param) (r : resrec) (n : sname) : res bool :=
  let g := olist (r_grad r) in
  let est := olist (r_est r) in
  match n with
  | S_minimization_successful => Ok (r_minsucc r)
  | S_rounding_errors => Ok (match r_term r with TRounding => true | _ => false end)
  | S_maxevals_exceeded => Ok (match r_term r with TMaxevals => true | _ => false end)
  | S_fzg => Ok (r_wfzg r)
  | S_fzg_theta => Ok (any_zero (rows_of ps is_theta g) || any_null (rows_of ps is_theta g))
  | S_fzg_omega => Ok (any_zero (rows_of ps is_omega g) || any_null (rows_of ps is_omega g))
  | S_fzg_sigma => Ok (any_zero (rows_of ps is_sigma g) || any_null (rows_of ps is_sigma g))
  | S_enb => near_bounds_any ps est
  | S_enb_theta => near_bounds_any ps (rows_of ps is_theta est)
  | S_enb_omega => near_bounds_any ps (rows_of ps is_omega est)
  | S_enb_sigma => near_bounds_any ps (rows_of ps is_sigma est)
  | _ => Err EInternal
  end.

(* array behind a numeric criterion *)
Definition num_value (ps : list param) (r : resrec) (n : sname) : res (list (option Q)) :=
  let rse := olist (r_rse r) in
  match n with
  | S_sigdigs => Ok [r_sigdigs r]
  | S_rse => Ok (vals rse)
  | S_rse_theta => Ok (vals (rows_of ps is_theta rse))
  | S_rse_omega => Ok (vals (rows_of ps is_omega rse))
  | S_rse_sigma => Ok (vals (rows_of ps is_sigma rse))
  | S_condition_number => match r_cond r with Some c => Ok [c] | None => Err EValue end
  | _ => Err EInternal
  end.

(* eval(strictness): short-circuiting, left to right, like Python's (the rse_theta/omega/sigma block no longer
   re-binds `rse`, fix 382c897) *)
Fixpoint seval (ps : list param) (r : resrec) (e : sexpr) : res bool :=
  match e with
  | SB n => bool_value ps r n
  | SCmp n op v => match num_value ps r n with Ok l => Ok (arr_cmp op l v) | Err x => Err x end
  | SNot a => match seval ps r a with Ok b => Ok (negb b) | Err x => Err x end
  | SAnd a b => match seval ps r a with Ok true => seval ps r b | Ok false => Ok false | Err x => Err x end
  | SOr a b => match seval ps r a with Ok true => Ok true | Ok false => seval ps r b | Err x => Err x end
  end.

(* the strictness argument: "" | an expression of the documented grammar | a string that one of the two
   regular-expression checks rejects (unknown word, unallowed operator character) *)
Inductive strictness := StEmpty | StExpr (e : sexpr) | StInvalid.

(* truth value of is_strictness_fulfilled(model, results, strictness) *)
Definition is_strictness_fulfilled (s : strictness) (c : cand) : res bool :=
  match c_ofv c with
  | None => Ok false
  | Some _ =>
      match s with
      | StEmpty => Ok true
      | StInvalid => Err EValue
      | StExpr e =>
          match setup_error e (c_res c) with
          | Some x => Err x
          | None => seval (c_params c) (c_res c) e
          end
      end
  end.

(* ---- the documented meaning (docs/strictness.rst), criterion by criterion *)
Definition zero_or_nan_gradient (ps : list param) (k : pkind -> bool) (r : resrec) : bool :=
  existsb (fun row => match snd row with Some x => Qeq_bool x 0 | None => true end) (rows_of ps k (olist (r_grad r))).
(* "near its boundary (maximum distance to 0 = 0.001, maximum distance to non-zero bound = 2 significant digits)":
   equal to the bound after both are rounded to 2 significant digits (ties to even on the exact value; the
   rounded decimals are compared as doubles — Properties.round53_separates_sig2_decimals) *)
Definition spec_near_bound (x bound : Q) : bool :=
  if Qeq_bool bound 0 then Qlt_bool (Qabs x) zero_limit
  else Qeq_bool (round53 (round_sig2 x)) (round53 (round_sig2 bound)).
Definition spec_near_any (ps : list param) (ests : list (id * Q)) : res bool :=
  (fix go (l : list (id * Q)) : res bool :=
     match l with
     | [] => Ok false
     | (n, v) :: tl =>
         match find (fun p => Pos.eqb (p_name p) n) ps with
         | None => Err EKey
         | Some p =>
             match go tl with
             | Err e => Err e
             | Ok b => Ok ((match p_lower p with Some lo => spec_near_bound v lo | None => false end)
                           || (match p_upper p with Some up => spec_near_bound v up | None => false end) || b)
             end
         end
     end) ests.
Definition spec_bool_value (ps : list param) (r : resrec) (n : sname) : res bool :=
  match n with
  | S_minimization_successful => Ok (r_minsucc r)
  | S_rounding_errors => Ok (match r_term r with TRounding => true | _ => false end)
  | S_maxevals_exceeded => Ok (match r_term r with TMaxevals => true | _ => false end)
  | S_fzg => Ok (r_wfzg r)
  | S_fzg_theta => Ok (zero_or_nan_gradient ps is_theta r)
  | S_fzg_omega => Ok (zero_or_nan_gradient ps is_omega r)
  | S_fzg_sigma => Ok (zero_or_nan_gradient ps is_sigma r)
  | S_enb => spec_near_any ps (olist (r_est r))
  | S_enb_theta => spec_near_any ps (rows_of ps is_theta (olist (r_est r)))
  | S_enb_omega => spec_near_any ps (rows_of ps is_omega (olist (r_est r)))
  | S_enb_sigma => spec_near_any ps (rows_of ps is_sigma (olist (r_est r)))
  | _ => Err EInternal
  end.
Fixpoint spec_seval (ps : list param) (r : resrec) (e : sexpr) : res bool :=
  match e with
  | SB n => spec_bool_value ps r n
  | SCmp n op v => match num_value ps r n with Ok l => Ok (arr_cmp op l v) | Err x => Err x end
  | SNot a => match spec_seval ps r a with Ok b => Ok (negb b) | Err x => Err x end
  | SAnd a b => match spec_seval ps r a with Ok true => spec_seval ps r b | Ok false => Ok false | Err x => Err x end
  | SOr a b => match spec_seval ps r a with Ok true => Ok true | Ok false => spec_seval ps r b | Err x => Err x end
  end.
Definition spec_strictness (s : strictness) (c : cand) : res bool :=
  match c_ofv c with
  | None => Ok false
  | Some _ => match s with
              | StEmpty => Ok true
              | StInvalid => Err EValue
              | StExpr e => match setup_error e (c_res c) with
                          | Some x => Err x
                          | None => spec_seval (c_params c) (c_res c) e
                          end
              end
  end.

(* ------------------------------------------------------------------ criteria, tests, ranking *)
Inductive bictype := BMixed | BFixed | BRandom | BIiv.
Inductive rtype := RT_ofv | RT_aic | RT_bic (t : option bictype) | RT_lrt | RT_unknown.
Inductive cutoff_t := CoNone | CoNum (q : Q) | CoPair (a b : Q).

Record config := mkConfig {
  cf_rt : rtype;
  cf_cutoff : cutoff_t;
  cf_pen : option (list Q);          (* penalties, base first *)
  cf_parent : list (id * id);        (* parent_dict: child name -> parent name; [] = not given *)
  cf_strict : strictness
}.

Record row := mkRow { w_name : id; w_delta : option Q; w_value : option Q; w_rank : option nat }.

Definition oplus (a : option Q) (b : Q) : option Q := match a with Some x => Some (x + b)%Q | None => None end.
Definition ominus (a : option Q) (b : Q) : option Q := match a with Some x => Some (x - b)%Q | None => None end.

Fixpoint lookup {A} (n : id) (l : list (id * A)) : option A :=
  match l with [] => None | (k, v) :: tl => if Pos.eqb k n then Some v else lookup n tl end.

Definition alpha_more : Q := (3602879701896397 # 72057594037927936)%Q.      (* the double 0.05 *)
Definition alpha_fewer : Q := (5764607523034235 # 576460752303423488)%Q.    (* the double 0.01 *)

Section Oracles.
Variable logf : positive -> Q.               (* math.log(n) *)
Variable isf : Q -> positive -> option Q.    (* scipy.stats.chi2.isf(q=alpha, df), NaN = None *)
Variable sf : Q -> Z -> option Q.            (* scipy.stats.chi2.sf(x, df) *)

Definition calculate_aic (c : cand) (o : Q) : Q := (o + 2 * natQ (nest c))%Q.

Definition bic_penalty (t : bictype) (c : cand) : Q :=
  match t with
  | BFixed => natQ (nest c) * logf (c_nobs c)
  | BRandom => natQ (nest c) * logf (c_nsubs c)
  | BIiv => natQ (niiv c) * logf (c_nsubs c)
  | BMixed => natQ (c_nrandm c) * logf (c_nsubs c) + natQ (c_nfixm c) * logf (c_nobs c)
  end%Q.
Definition calculate_bic (t : option bictype) (c : cand) (o : Q) : res Q :=
  match t with Some t => Ok (o + bic_penalty t c)%Q | None => Err EValue end.

(* ---- modeling/lrt.py *)
Definition degrees_of_freedom (parent child : cand) : Z := (Z.of_nat (npar child) - Z.of_nat (npar parent))%Z.
Definition lrt_cutoff (parent child : cand) (alpha : Q) : option Q :=
  let df := degrees_of_freedom parent child in
  match df with
  | Z0 => Some 0%Q
  | Zpos p => isf alpha p
  | Zneg p => match isf alpha p with Some v => Some (- v)%Q | None => None end
  end.
Definition p_value (reduced extended : cand) (ro eo : option Q) : option Q :=
  match ro, eo with
  | Some a, Some b => sf (a - b)%Q (degrees_of_freedom reduced extended)
  | _, _ => None
  end.
Definition lrt_test (parent child : cand) (po co : option Q) (alpha : Q) : bool :=
  match po, co, lrt_cutoff parent child alpha with
  | Some a, Some b, Some cut => Qle_bool cut (a - b)
  | _, _, _ => false
  end.
Definition best_of_two (parent child : cand) (po co : option Q) (alpha : Q) : cand :=
  if lrt_test parent child po co alpha then child else parent.
(* np.nanargmin: index of the first minimal non-NaN value *)
Fixpoint nanargmin_from (l : list (option Q)) (i : nat) (best : option (nat * Q)) : option (nat * Q) :=
  match l with
  | [] => best
  | None :: tl => nanargmin_from tl (S i) best
  | Some x :: tl =>
      match best with
      | Some (_, b) => if Qlt_bool x b then nanargmin_from tl (S i) (Some (i, x)) else nanargmin_from tl (S i) best
      | None => nanargmin_from tl (S i) (Some (i, x))
      end
  end.
Definition nanargmin (l : list (option Q)) : option (nat * Q) := nanargmin_from l 0 None.
Definition best_of_many (parent : cand) (models : list cand) (po : option Q) (ofvs : list (option Q)) (alpha : Q)
  : option cand :=      (* None: IndexError (fewer models than values) *)
  match nanargmin ofvs with
  | None => Some parent
  | Some (i, x) => match nth_error models i with
                   | Some m => Some (best_of_two parent m po (Some x) alpha)
                   | None => None
                   end
  end.

(* ---- get_rankval, generic in the strictness predicate *)
Section Rank.
Variable okf : cand -> res bool.
Variable cf : config.

Definition get_rankval (c : cand) : res (option Q) :=
  match okf c with
  | Err e => Err e
  | Ok false => Ok None
  | Ok true =>
      match cf_rt cf with
      | RT_ofv | RT_lrt => Ok (c_ofv c)
      | RT_aic => Ok (match c_ofv c with Some o => Some (calculate_aic c o) | None => None end)
      | RT_bic t => match c_ofv c with
                    | Some o => match calculate_bic t c o with Ok v => Ok (Some v) | Err e => Err e end
                    | None => match t with Some _ => Ok None | None => Err EValue end
                    end
      | RT_unknown => Err EValue
      end
  end.

Definition pen_at (i : nat) : Q := match cf_pen cf with Some l => nth i l 0%Q | None => 0%Q end.

Record entry := mkEntry { e_c : cand; e_value : Q; e_delta : option Q }.

Definition alpha_for (df : Z) : res Q :=
  match cf_cutoff cf with
  | CoNone => Ok (if (0 <=? df)%Z then alpha_more else alpha_fewer)
  | CoPair a b => Ok (if (0 <=? df)%Z then a else b)
  | CoNum q => Ok q
  end.

(* one iteration of the "Filter on strictness" loop: Ok None = `continue` *)
Definition process (base : cand) (all : list cand) (ref : option Q) (i : nat) (c : cand) : res (option entry) :=
  match get_rankval c with
  | Err e => Err e
  | Ok None => Ok None
  | Ok (Some rv0) =>
      let rv := (rv0 + pen_at i)%Q in
      let keep := Ok (Some (mkEntry c rv (ominus ref rv))) in
      if Pos.eqb (c_name c) (c_name base) then keep
      else match cf_rt cf with
           | RT_lrt =>
               let pd := match cf_parent cf with
                         | [] => map (fun m => (c_name m, c_name base)) (tl all)
                         | l => l end in
               match lookup (c_name c) pd with
               | None => Err EKey
               | Some pn =>
                   match find (fun m => Pos.eqb (c_name m) pn) all with
                   | None => Err EKey
                   | Some p =>
                       match alpha_for (degrees_of_freedom p c) with
                       | Err e => Err e
                       | Ok co => if lrt_test p c (c_ofv p) (c_ofv c) co then keep else Ok None
                       end
                   end
               end
           | _ =>
               match cf_cutoff cf with
               | CoNone => keep
               | CoNum co => match ref with
                             | Some r => if Qle_bool (r - rv) co then Ok None else keep
                             | None => keep
                             end
               | CoPair _ _ => Err EInternal
               end
           end
  end.

Fixpoint process_all (base : cand) (all : list cand) (ref : option Q) (i : nat) (l : list cand) : res (list entry) :=
  match l with
  | [] => Ok []
  | c :: tl =>
      match process base all ref i c with
      | Err e => Err e
      | Ok o => match process_all base all ref (S i) tl with
                | Err e => Err e
                | Ok es => Ok (match o with Some x => x :: es | None => es end)
                end
      end
  end.

(* sort key of _get_delta: delta, or minus the rank value when the reference value is NaN *)
Definition sort_key (ref : option Q) (e : entry) : Q :=
  match ref, e_delta e with
  | Some _, Some d => d
  | _, _ => (- e_value e)%Q
  end.

(* sorted(..., key=k, reverse=True): descending, elements with equal keys keep their order *)
Fixpoint ins_desc {A} (k : A -> Q) (x : A) (l : list A) : list A :=
  match l with
  | [] => [x]
  | y :: tl => if Qlt_bool (k x) (k y) then y :: ins_desc k x tl else x :: l
  end.
Definition sort_desc {A} (k : A -> Q) (l : list A) : list A := fold_right (ins_desc k) [] l.

(* the ranking loop: rank, count, prev = 0, 0, None *)
Fixpoint comp_rank (rank count : nat) (prev : option Q) (l : list (id * Q)) : list (id * nat) :=
  match l with
  | [] => []
  | (n, v) :: tl =>
      if (match prev with Some p => Qeq_bool v p | None => false end)
      then (n, rank) :: comp_rank rank (S count) prev tl
      else (n, rank + S count) :: comp_rank (rank + S count) 0 (Some v) tl
  end.

(* DataFrame.sort_values(by=col): NaN last; ascending or descending; modelled as the stable sort
   (the order inside a group of equal keys is decided by numpy's argsort — engine, compared modulo ties) *)
Definition before (asc : bool) (a b : option Q) : bool :=      (* a must come strictly before b *)
  match a, b with
  | Some x, Some y => if asc then Qlt_bool x y else Qlt_bool y x
  | Some _, None => true
  | None, _ => false
  end.
Fixpoint ins_row (k : row -> option Q) (asc : bool) (x : row) (l : list row) : list row :=
  match l with
  | [] => [x]
  | y :: tl => if before asc (k y) (k x) then y :: ins_row k asc x tl else x :: l
  end.
Definition sort_rows (k : row -> option Q) (asc : bool) (l : list row) : list row := fold_right (ins_row k asc) [] l.

Definition names_distinct (all : list cand) : bool :=
  (fix nd (l : list id) : bool := match l with [] => true | x :: tl => negb (existsb (Pos.eqb x) tl) && nd tl end)
    (map c_name all).

Definition precheck (models : list cand) : option err :=
  match cf_pen cf with
  | Some l => if Nat.eqb (length l) (S (length models)) then None else Some EValue
  | None => None
  end.

Definition get_ref (base : cand) : res (option Q) :=
  match get_rankval base with
  | Err e => Err e
  | Ok ref0 => Ok (oplus ref0 (pen_at 0))     (* `if penalties: ref_value += penalties[0]`; pen_at is 0 without penalties *)
  end.

Definition rank_models (base : cand) (models : list cand) : res (list row) :=
  match precheck models with
  | Some e => Err e
  | None =>
      let all := base :: models in
      match get_ref base with
      | Err e => Err e
      | Ok ref =>
          match process_all base all ref 0 all with
          | Err e => Err e
          | Ok entries =>
              let sorted := sort_desc (sort_key ref) entries in
              let ranking := comp_rank 0 0 None (map (fun e => (c_name (e_c e), sort_key ref e)) sorted) in
              let rank_values := map (fun e => (c_name (e_c e), e_value e)) entries in
              let delta_values := map (fun e => (c_name (e_c e), e_delta e)) entries in
              let rows := map (fun m => mkRow (c_name m)
                                              (match lookup (c_name m) delta_values with Some d => d | None => None end)
                                              (lookup (c_name m) rank_values)
                                              (lookup (c_name m) ranking)) all in
              Ok (match ref with
                  | None => sort_rows w_value true rows
                  | Some _ => sort_rows w_delta false rows
                  end)
          end
      end
  end.

(* ---- tools/common.py: summarize_tool's refusal and create_results' choice of the final model.
   Series.idxmin(): label of the first row holding the minimal non-NaN rank. *)
Fixpoint idxmin_from (l : list row) (best : option (id * nat)) : option (id * nat) :=
  match l with
  | [] => best
  | r :: tl =>
      match w_rank r with
      | None => idxmin_from tl best
      | Some k => match best with
                  | Some (_, b) => if Nat.ltb k b then idxmin_from tl (Some (w_name r, k)) else idxmin_from tl best
                  | None => idxmin_from tl (Some (w_name r, k))
                  end
      end
  end.
Definition best_of_rows (base : id) (rows : list row) : id :=
  match idxmin_from rows None with Some (n, _) => n | None => base end.
Definition model_tool (base : cand) (models : list cand) : res (list row * id) :=
  match rank_models base models with
  | Err e => Err e
  | Ok rows =>
      if negb (match cf_rt cf with RT_lrt => true | _ => false end)
         && forallb (fun r => match w_value r with None => true | Some _ => false end) rows
      then Err EValue       (* "All models fail the strictness criteria!" *)
      else Ok (rows, best_of_rows (c_name base) rows)
  end.

End Rank.
End Oracles.
