(* PV.C19.StatsProofs — lemmas about the statistics model (Stats.v). *)
From Coq Require Import QArith ZArith List Bool PArith Arith Lia Lqa Permutation.
From PV Require Import C19.Model C19.Stats C19.Proofs.
Import ListNotations.
Local Open Scope nat_scope.

Lemma nth_map_some {A B} (f : A -> B) l j a d : nth_error l j = Some a -> nth j (map f l) d = f a.
Proof.
  revert j. induction l as [|x tl IH]; intros [|j] H; cbn in *; try discriminate.
  - injection H as <-. reflexivity.
  - apply IH. exact H.
Qed.
Lemma nth_of_nth_error {A} (l : list A) j a d : nth_error l j = Some a -> nth j l d = a.
Proof.
  revert j. induction l as [|x tl IH]; intros [|j] H; cbn in *; try discriminate.
  - injection H as <-. reflexivity.
  - apply IH. exact H.
Qed.

Lemma column_is_values reps j p :
  nth_error (boot_cols reps) j = Some p -> column j (boot_table reps) = values_of reps p.
Proof.
  intro H. unfold column, boot_table, values_of. rewrite map_map. apply map_ext. intro r.
  apply nth_map_some. exact H.
Qed.

Lemma bootstrap_stats_by_name_lemma sqrtq reps orig j p :
  nth_error (boot_cols reps) j = Some p -> boot_stat sqrtq reps orig j = doc_boot_stat sqrtq reps orig p.
Proof.
  intro H. unfold boot_stat, doc_boot_stat. cbv zeta. rewrite (column_is_values reps j p H).
  destruct orig as [o|]; [|reflexivity].
  rewrite (nth_of_nth_error (boot_cols reps) j p 1%positive H). reflexivity.
Qed.

Lemma bootstrap_cov_by_name_lemma reps i j p q :
  nth_error (boot_cols reps) i = Some p -> nth_error (boot_cols reps) j = Some q ->
  boot_cov reps i j = doc_boot_cov reps p q.
Proof.
  intros H1 H2. unfold boot_cov, doc_boot_cov. rewrite (column_is_values _ _ _ H1), (column_is_values _ _ _ H2). reflexivity.
Qed.

(* label order inside a Series is irrelevant *)
Lemma sget_perm (s s' : series) n : NoDup (map fst s) -> Permutation s s' -> sget s n = sget s' n.
Proof. intros ND P. unfold sget. rewrite (lookup_perm n s s' ND P). reflexivity. Qed.

Lemma values_of_perm reps reps' p :
  Forall2 (fun r r' => Permutation r r' /\ NoDup (map fst r)) reps reps' -> values_of reps p = values_of reps' p.
Proof.
  induction 1 as [|r r' l l' [P ND] F IH]; [reflexivity|]. unfold values_of in *. cbn [map].
  rewrite IH, (sget_perm r r' p ND P). reflexivity.
Qed.

Lemma bootstrap_label_order_lemma sqrtq reps reps' orig p :
  Forall2 (fun r r' => Permutation r r' /\ NoDup (map fst r)) reps reps' ->
  doc_boot_stat sqrtq reps orig p = doc_boot_stat sqrtq reps' orig p.
Proof. intro H. unfold doc_boot_stat. rewrite (values_of_perm reps reps' p H). reflexivity. Qed.

(* the documented formulas, spelled out *)
Lemma doc_boot_formulas sqrtq reps orig p l :
  avail (values_of reps p) = l -> 2 <= length l ->
  let n := natQ (length l) in
  let m := (qsum l / n)%Q in
  let v := (qsum (map (fun x => (x - m) * (x - m))%Q l) / natQ (length l - 1))%Q in
  bs_mean (doc_boot_stat sqrtq reps orig p) = Some m /\
  bs_stderr (doc_boot_stat sqrtq reps orig p) = Some (sqrtq v) /\
  bs_rse (doc_boot_stat sqrtq reps orig p) = (if Qeq_bool m 0 then None else Some (sqrtq v / m)%Q) /\
  bs_bias (doc_boot_stat sqrtq reps orig p) =
    match orig with Some o => match sget o p with Some x => Some (m - x)%Q | None => None end | None => None end.
Proof.
  intros E L. unfold doc_boot_stat. rewrite E. cbn [bs_mean bs_stderr bs_rse bs_bias].
  assert (M : mean_l l = Some (qsum l / natQ (length l))%Q) by (destruct l; [cbn in L; lia|reflexivity]).
  assert (V : var_l l = Some (qsum (map (fun x => (x - qsum l / natQ (length l)) * (x - qsum l / natQ (length l)))%Q l)
                              / natQ (length l - 1))%Q).
  { unfold var_l. destruct (Nat.ltb_spec (length l) 2); [lia|reflexivity]. }
  rewrite M, V. cbn [option_map odiv omap2]. repeat split.
Qed.

(* ---------------- cdd *)
Lemma col_of_cases cols cases a p :
  nth_error cols a = Some p ->
  col_q a (rows_of_cases cols cases) = map (fun s => match sget s p with Some x => x | None => 0%Q end) cases.
Proof.
  intro H. unfold col_q, rows_of_cases. rewrite map_map. apply map_ext. intro s.
  apply (nth_map_some (fun c => match sget s c with Some x => x | None => 0%Q end) cols a p 0%Q H).
Qed.

Definition val_of (s : series) (p : id) : Q := match sget s p with Some x => x | None => 0%Q end.
Definition doc_jackknife (cases : list series) (p q : id) : Q :=
  let n := natQ (length cases) in
  let mp := (qsum (map (fun s => val_of s p) cases) / n)%Q in
  let mq := (qsum (map (fun s => val_of s q) cases) / n)%Q in
  (qsum (map (fun s => (val_of s p - mp) * (val_of s q - mq))%Q cases) * natQ (length cases - 1) / n)%Q.

Lemma jackknife_by_name_lemma cols cases a b p q :
  nth_error cols a = Some p -> nth_error cols b = Some q ->
  jackknife (rows_of_cases cols cases) a b = doc_jackknife cases p q.
Proof.
  intros Ha Hb. unfold jackknife, doc_jackknife.
  rewrite (col_of_cases cols cases a p Ha), (col_of_cases cols cases b q Hb).
  assert (L : length (rows_of_cases cols cases) = length cases) by (unfold rows_of_cases; apply map_length).
  rewrite L. unfold val_of. f_equal. f_equal. f_equal.
  unfold rows_of_cases. rewrite map_map. apply map_ext. intro s.
  rewrite (nth_map_some (fun c => match sget s c with Some x => x | None => 0%Q end) cols a p 0%Q Ha).
  rewrite (nth_map_some (fun c => match sget s c with Some x => x | None => 0%Q end) cols b q 0%Q Hb). reflexivity.
Qed.

Lemma cook_label_order_lemma sqrtq labels cinv base est est' :
  NoDup (map fst est) -> Permutation est est' ->
  cook_score sqrtq labels cinv base est = cook_score sqrtq labels cinv base est'.
Proof.
  intros ND P. unfold cook_score, cook_sq, cook_delta.
  assert (E : map (fun c => omap2 Qminus (sget est c) (sget base c)) labels
              = map (fun c => omap2 Qminus (sget est' c) (sget base c)) labels).
  { apply map_ext. intro c. rewrite (sget_perm est est' c ND P). reflexivity. }
  rewrite E. reflexivity.
Qed.

Lemma cook_base_order_lemma sqrtq labels cinv base base' est :
  NoDup (map fst base) -> Permutation base base' ->
  cook_score sqrtq labels cinv base est = cook_score sqrtq labels cinv base' est.
Proof.
  intros ND P. unfold cook_score, cook_sq, cook_delta.
  assert (E : map (fun c => omap2 Qminus (sget est c) (sget base c)) labels
              = map (fun c => omap2 Qminus (sget est c) (sget base' c)) labels).
  { apply map_ext. intro c. rewrite (sget_perm base base' c ND P). reflexivity. }
  rewrite E. reflexivity.
Qed.

(* ---------------- shrinkage, delta method *)
Lemma eta_shrinkage_def_lemma sqrtq omegas ie j e col om v :
  nth_error ie j = Some (e, col) -> nth_error omegas j = Some om -> var_l (avail col) = Some v ->
  eta_shrinkage sqrtq false omegas ie j = (if Qeq_bool om 0 then None else Some (1 - v / om)%Q) /\
  eta_shrinkage sqrtq true omegas ie j = Some (1 - sqrtq v / sqrtq om)%Q.
Proof. intros H1 H2 H3. unfold eta_shrinkage. rewrite H1, H2, H3. split; reflexivity. Qed.

Lemma individual_shrinkage_def_lemma omegas diag j d om :
  nth_error diag j = Some d -> nth_error omegas j = Some om ->
  nth_error (individual_shrinkage omegas diag) j = Some (if Qeq_bool om 0 then None else Some (d / om)%Q).
Proof.
  unfold individual_shrinkage. revert omegas j. induction diag as [|x tl IH]; intros [|o os] [|j] H1 H2; cbn in *; try discriminate.
  - injection H1 as <-. injection H2 as <-. reflexivity.
  - apply IH; assumption.
Qed.

Lemma se_delta_def_lemma sqrtq labels cov grad :
  se_delta sqrtq labels cov grad =
  sqrtq (quad (map (fun n => match lookup n grad with Some g => g | None => 0%Q end) (delta_names labels (map fst grad)))
              (submatrix labels (delta_names labels (map fst grad)) cov)).
Proof. reflexivity. Qed.

(* the quadratic form, entry by entry: sum_a sum_b x_a M_ab x_b for a 2x2 instance is checked in Examples; in general
   quad x M = sum over rows (x_a * <row_a, x>) *)
Lemma quad_nil : quad [] [] = 0%Q.
Proof. reflexivity. Qed.
