(* PV.C19.Summary — tools/run.py summarize_modelfit_results_from_entries / _get_model_result_summary /
   _summarize_step / _get_ofv / _get_parameter_estimates: which numbers of a ModelfitResults end up in the
   summary table.  Includes the in-Coq comparison for its cases.  Run times are not modelled. *)
From Coq Require Import QArith ZArith List Bool PArith Arith.
From PV Require Import C19.Model.
Import ListNotations.
Local Open Scope nat_scope.

Record sres := mkSres {
  s_minsucc : option bool;                              (* minimization_successful, may be None *)
  s_ofv : option Q;
  s_ofv_iter : option (list (nat * option Q));          (* ofv_iterations: (step, value) rows in table order *)
  s_pe : list (id * option Q);                          (* parameter_estimates *)
  s_pe_iter : option (list (nat * list (id * option Q)));   (* parameter_estimates_iterations: (step, row) *)
  s_se : option (list (id * option Q));
  s_rse : option (list (id * option Q));
  s_minsucc_iter : list bool;                           (* minimization_successful_iterations, per step *)
  s_eval : list bool;                                   (* evaluation, per step *)
  s_nerr : nat; s_nwarn : nat;                          (* len(log.errors), len(log.warnings) *)
  s_runtime_total : option Q;
  s_est_runtime_iter : option (list (option Q))         (* estimation_runtime_iterations, per step *)
}.

Record srow := mkSrow {
  sr_name : id; sr_step : option nat; sr_evaluation : option bool;
  sr_minsucc : bool; sr_nerr : nat; sr_nwarn : nat; sr_ofv : option Q;
  sr_params : list (id * option Q * option Q * option Q);     (* name, estimate, SE, RSE (NaN when absent) *)
  sr_runtime_total : option Q; sr_est_runtime : option Q
}.

Definition last_of_step {A} (step : nat) (l : list (nat * A)) : option A :=
  match rev (filter (fun p => Nat.eqb (fst p) step) l) with
  | x :: _ => Some (snd x)
  | [] => None
  end.
Definition max_step {A} (l : list (nat * A)) : nat := fold_right (fun p acc => Nat.max (fst p) acc) 0 l.

Definition oflat (o : option (option Q)) : option Q := match o with Some x => x | None => None end.

(* _summarize_step(res, i) with i : None = -1 (the final step), Some k = step index k (0-based) *)
Definition summarize_step (name : id) (r : sres) (i : option nat) : res srow :=
  let minsucc := match i with
                 | Some k => nth_error (s_minsucc_iter r) k
                 | None => Some (match s_minsucc r with Some b => b | None => false end)
                 end in
  (* `if i == -1 and res.ofv_iterations is not None: i = max(step level) - 1` *)
  let step : option nat :=                      (* the 1-based step looked up in the iteration tables *)
    match i, s_ofv_iter r with
    | None, Some t => Some (max_step t)
    | None, None => None                        (* i stays -1: looks up step 0 *)
    | Some k, _ => Some (S k)
    end in
  let ofv := match s_ofv_iter r with
             | None => Ok (s_ofv r)
             | Some t => match last_of_step (match step with Some s => s | None => 0 end) t with
                         | Some v => Ok v | None => Err EKey end
             end in
  let pe := match s_pe_iter r with
            | None => Ok (s_pe r)
            | Some t => match last_of_step (match step with Some s => s | None => 0 end) t with
                        | Some row => Ok row | None => Err EKey end
            end in
  (* _get_estimation_runtime(res, i): runtime_total without a table, else .iloc[i] (i = -1: the last row) *)
  let ert : res (option Q) :=
    match s_est_runtime_iter r with
    | None => Ok (s_runtime_total r)
    | Some l => match (match step with Some s => nth_error l (s - 1) | None => nth_error (rev l) 0 end) with
                | Some v => Ok v | None => Err EInternal end
    end in
  match minsucc, ofv, ert, pe with
  | None, _, _, _ => Err EInternal                 (* IndexError *)
  | _, Err e, _, _ => Err e
  | _, _, Err e, _ => Err e
  | _, _, _, Err e => Err e
  | Some ms, Ok o, Ok rt, Ok row =>
      let look (t : option (list (id * option Q))) (n : id) : res (option Q) :=
        match t with
        | None => Ok None
        | Some l => match lookup n l with Some v => Ok v | None => Err EKey end
        end in
      let fix cols (l : list (id * option Q)) : res (list (id * option Q * option Q * option Q)) :=
        match l with
        | [] => Ok []
        | (n, v) :: tl =>
            match look (s_se r) n, look (s_rse r) n, cols tl with
            | Ok a, Ok b, Ok rest => Ok ((n, v, a, b) :: rest)
            | Err e, _, _ => Err e
            | _, Err e, _ => Err e
            | _, _, Err e => Err e
            end
        end in
      match cols row with
      | Err e => Err e
      | Ok ps => Ok (mkSrow name (match i with Some k => Some (S k) | None => None end)
                            (match i with Some k => nth_error (s_eval r) k | None => None end)
                            ms (s_nerr r) (s_nwarn r) o ps (s_runtime_total r) rt)
      end
  end.

Fixpoint seq_steps (k n : nat) : list nat := match n with O => [] | S m => k :: seq_steps (S k) m end.

Fixpoint collect {A} (l : list (res (list A))) : res (list A) :=
  match l with
  | [] => Ok []
  | Err e :: _ => Err e
  | Ok x :: tl => match collect tl with Ok r => Ok (x ++ r) | Err e => Err e end
  end.

(* entries: None = a None entry; Some (name, None) = an entry without results *)
Definition summarize (all_steps : bool) (entries : list (option (id * option sres))) : res (list srow) :=
  if forallb (fun e => match e with None => true | Some _ => false end) entries then Err EValue
  else
    let per := flat_map (fun e => match e with
                                  | Some (n, Some r) =>
                                      [ if all_steps
                                        then collect (map (fun k => match summarize_step n r (Some k) with
                                                                    | Ok x => Ok [x] | Err e => Err e end)
                                                          (seq_steps 0 (length (s_eval r))))
                                        else match summarize_step n r None with Ok x => Ok [x] | Err e => Err e end ]
                                  | _ => [] end) entries in
    match per with
    | [] => Err EValue                 (* pd.concat of nothing *)
    | _ => collect per
    end.

(* ---- summarize_errors_from_entries: one row per log entry, indexed (model, category, position in the model's log),
   DataFrame.sort_index() = lexicographic order of that index.  Model names are numbered in string order. *)
Inductive logcat := LError | LWarning.          (* 'ERROR' < 'WARNING' *)
Definition cat_nat (c : logcat) : nat := match c with LError => 0 | LWarning => 1 end.
Record erow := mkErow { er_model : id; er_cat : logcat; er_no : nat; er_msg : id }.
Fixpoint enum_from {A} (i : nat) (l : list A) : list (nat * A) :=
  match l with [] => [] | x :: tl => (i, x) :: enum_from (S i) tl end.
Definition error_rows (entries : list (id * option (list (logcat * id)))) : list erow :=
  flat_map (fun e => match snd e with
                     | Some log => map (fun p => mkErow (fst e) (fst (snd p)) (fst p) (snd (snd p))) (enum_from 0 log)
                     | None => [] end) entries.
Definition erow_lt (a b : erow) : bool :=
  match Pos.compare (er_model a) (er_model b) with
  | Lt => true | Gt => false
  | Eq => match Nat.compare (cat_nat (er_cat a)) (cat_nat (er_cat b)) with
          | Lt => true | Gt => false | Eq => Nat.ltb (er_no a) (er_no b) end
  end.
Fixpoint ins_erow (x : erow) (l : list erow) : list erow :=
  match l with [] => [x] | y :: tl => if erow_lt y x then y :: ins_erow x tl else x :: l end.
Definition summarize_errors (entries : list (id * option (list (logcat * id)))) : list erow :=
  fold_right ins_erow [] (error_rows entries).

(* ---- comparison *)
Record scase := mkScase { sc_all : bool; sc_entries : list (option (id * option sres)); sc_obs : res (list srow) }.
Record ecase := mkEcase { ec_entries : list (id * option (list (logcat * id))); ec_obs : list erow }.

Definition oq_eqb (a b : option Q) : bool :=
  match a, b with Some x, Some y => Qeq_bool x y | None, None => true | _, _ => false end.
Definition onat_eqb (a b : option nat) : bool :=
  match a, b with Some x, Some y => Nat.eqb x y | None, None => true | _, _ => false end.
Definition obool_eqb (a b : option bool) : bool :=
  match a, b with Some x, Some y => Bool.eqb x y | None, None => true | _, _ => false end.
Fixpoint params_eqb (a b : list (id * option Q * option Q * option Q)) : bool :=
  match a, b with
  | [], [] => true
  | (n, v, s, r) :: a', (n', v', s', r') :: b' =>
      Pos.eqb n n' && oq_eqb v v' && oq_eqb s s' && oq_eqb r r' && params_eqb a' b'
  | _, _ => false
  end.
Definition srow_eqb (a b : srow) : bool :=
  Pos.eqb (sr_name a) (sr_name b) && onat_eqb (sr_step a) (sr_step b) && obool_eqb (sr_evaluation a) (sr_evaluation b)
  && Bool.eqb (sr_minsucc a) (sr_minsucc b) && Nat.eqb (sr_nerr a) (sr_nerr b) && Nat.eqb (sr_nwarn a) (sr_nwarn b)
  && oq_eqb (sr_ofv a) (sr_ofv b) && params_eqb (sr_params a) (sr_params b)
  && oq_eqb (sr_runtime_total a) (sr_runtime_total b) && oq_eqb (sr_est_runtime a) (sr_est_runtime b).
Fixpoint srows_eqb (a b : list srow) : bool :=
  match a, b with [], [] => true | x :: a', y :: b' => srow_eqb x y && srows_eqb a' b' | _, _ => false end.

Definition sverdict (c : scase) : list nat :=
  match summarize (sc_all c) (sc_entries c), sc_obs c with
  | Ok a, Ok b => if srows_eqb a b then [] else [9]
  | Err EValue, Err EValue | Err EKey, Err EKey | Err EInternal, Err EInternal => []
  | _, _ => [9]
  end.

Definition erow_eqb (a b : erow) : bool :=
  Pos.eqb (er_model a) (er_model b) && Nat.eqb (cat_nat (er_cat a)) (cat_nat (er_cat b)) && Nat.eqb (er_no a) (er_no b)
  && Pos.eqb (er_msg a) (er_msg b).
Fixpoint erows_eqb (a b : list erow) : bool :=
  match a, b with [], [] => true | x :: a', y :: b' => erow_eqb x y && erows_eqb a' b' | _, _ => false end.
Definition everdict (c : ecase) : list nat := if erows_eqb (summarize_errors (ec_entries c)) (ec_obs c) then [] else [9].
