(* PV.C19.Penalty — tools/run.py calculate_bic_penalty for a list search space (iiv_diag / iiv_block / iov):
   _get_var_params, get_penalty_parameters_rvs and the closing formula, plus the in-Coq comparison for its cases.
   The MFL branch (get_penalty_parameters_mfl) is not modelled.  [logq] is math.log as an oracle. *)
From Coq Require Import QArith ZArith List Bool PArith Arith Qabs.
From PV Require Import C19.Model.
Import ListNotations.
Local Open Scope nat_scope.

Inductive rvlevel := LIIV | LIOV.
Record dist := mkDist {
  d_level : rvlevel;
  d_var : list id;        (* diagonal of the distribution's covariance matrix *)
  d_cov : list id         (* its other parameters *)
}.
Record rvmodel := mkRv { rv_dists : list dist; rv_fixed : list id }.   (* etas in order; model.parameters.fixed.names *)

Inductive ssopt := SS_iiv_diag | SS_iiv_block | SS_iov | SS_other.
Definition ss_eqb (a b : ssopt) : bool :=
  match a, b with
  | SS_iiv_diag, SS_iiv_diag | SS_iiv_block, SS_iiv_block | SS_iov, SS_iov | SS_other, SS_other => true
  | _, _ => false end.
Definition ss_mem (a : ssopt) (l : list ssopt) : bool := existsb (ss_eqb a) l.

Definition memid (x : id) (l : list id) : bool := existsb (Pos.eqb x) l.
Fixpoint dedup (l : list id) (seen : list id) : list id :=
  match l with
  | [] => []
  | x :: tl => if memid x seen then dedup tl seen else x :: dedup tl (x :: seen)
  end.
Definition dist_params (d : dist) : list id := d_var d ++ d_cov d.
Definition unfixed (fixed : list id) (d : dist) : bool := negb (existsb (fun p => memid p fixed) (dist_params d)).

(* _get_var_params *)
Definition var_params (m : rvmodel) (ss : list ssopt) : list dist :=
  (if ss_mem SS_iiv_diag ss || ss_mem SS_iiv_block ss
   then filter (fun d => match d_level d with LIIV => unfixed (rv_fixed m) d | LIOV => false end) (rv_dists m) else [])
  ++
  (if ss_mem SS_iov ss
   then filter (fun d => match d_level d with LIOV => unfixed (rv_fixed m) d | LIIV => false end) (rv_dists m) else []).

Definition variance_parameters (ds : list dist) : list id := dedup (flat_map d_var ds) [].
Definition parameter_names (ds : list dist) : list id := dedup (flat_map dist_params ds) [].

(* get_penalty_parameters_rvs: (p, k_p, q, k_q) *)
Definition penalty_counts (base cand : rvmodel) (ss : list ssopt) (nkeep : nat) : Z * Z * Z * Z :=
  let be := var_params base ss in
  let ce := var_params cand ss in
  let nb := Z.of_nat (length (variance_parameters be)) in
  let '(p, kp) := if ss_mem SS_iiv_diag ss || ss_mem SS_iov ss
                  then ((nb - Z.of_nat nkeep)%Z, (Z.of_nat (length (variance_parameters ce)) - Z.of_nat nkeep)%Z)
                  else (0%Z, 0%Z) in
  let '(q, kq) := if ss_mem SS_iiv_block ss
                  then ((nb * (nb - 1) / 2)%Z,
                        Z.of_nat (length (filter (fun x => negb (memid x (variance_parameters ce))) (parameter_names ce))))
                  else (0%Z, 0%Z) in
  (p, kp, q, kq).

Section Pen.
Variable logq : Q -> option Q.       (* math.log; None = ValueError (math domain error) *)

Definition penalty_formula (p kp q kq : Z) (Ep Eq : option Q) : res Q :=
  let p := if Z.eqb kp 0 then 1%Z else p in
  let q := if Z.eqb kq 0 then 1%Z else q in
  let Ep := match Ep with Some e => e | None => 1%Q end in
  let Eq := match Eq with Some e => e | None => 1%Q end in
  if Qeq_bool Ep 0 then Err EInternal        (* ZeroDivisionError *)
  else match logq (inject_Z p / Ep) with
       | None => Err EValue
       | Some l1 =>
           if Qeq_bool Eq 0 then Err EInternal
           else match logq (inject_Z q / Eq) with
                | None => Err EValue
                | Some l2 => Ok (2 * inject_Z kp * l1 + 2 * inject_Z kq * l2)%Q
                end
       end.

Definition calculate_bic_penalty (base : option rvmodel) (cand : rvmodel) (ss : list ssopt) (nkeep : nat)
           (Ep Eq : option Q) : res Q :=
  if ss_mem SS_other ss then Err EValue
  else if ss_mem SS_iiv_block ss && ss_mem SS_iov ss then Err EValue
  else if ss_mem SS_iiv_block ss && (match Eq with None => true | _ => false end) then Err EValue
  else if (ss_mem SS_iiv_diag ss || ss_mem SS_iov ss) && (match Ep with None => true | _ => false end) then Err EValue
  else match base with
       | None => Err EValue
       | Some b => let '(p, kp, q, kq) := penalty_counts b cand ss nkeep in penalty_formula p kp q kq Ep Eq
       end.
End Pen.

(* ---- MFL search spaces: get_penalty_parameters_mfl.  The expansion of the MFL strings into mode / count sets
   (tools/mfl parse + ModelFeatures, property C18) is an oracle: the expanded attributes are inputs.  An attribute
   is [None] when the candidate's attribute is empty (skipped). *)
Inductive absm := AB_FO | AB_ZO | AB_SEQ | AB_INST.
Inductive elm := EL_FO | EL_MM | EL_MIX.
Definition absm_eqb (a b : absm) : bool :=
  match a, b with AB_FO, AB_FO | AB_ZO, AB_ZO | AB_SEQ, AB_SEQ | AB_INST, AB_INST => true | _, _ => false end.
Definition elm_rank (e : elm) : nat := match e with EL_FO => 0 | EL_MM => 1 | EL_MIX => 2 end.
Record mfl_in := mkMfl {
  mf_abs : option (list absm * absm);                     (* search-space modes, candidate mode *)
  mf_elim : option (list elm * elm);
  mf_trans : option (nat * bool * list Z * bool * Z);     (* len(ss), DEPOT in ss.eval.depot, ss.counts, DEPOT in the candidate's depot, candidate counts[0] *)
  mf_per : option (nat * Z);                              (* len(ss), candidate counts[0] *)
  mf_lag : option (nat * bool)                            (* len(ss), candidate mode is ON *)
}.
Definition b2z (b : bool) : Z := if b then 1%Z else 0%Z.
Definition abs_counts (a : option (list absm * absm)) : Z * Z :=
  match a with
  | None => (0, 0)%Z
  | Some (ss, c) =>
      if Nat.eqb (length ss) 1 then (0, 0)%Z
      else let has_seq := existsb (absm_eqb AB_SEQ) ss in
           let has_inst := existsb (absm_eqb AB_INST) ss in
           ((b2z has_seq + b2z has_inst)%Z,
            (b2z (absm_eqb c AB_SEQ) + (if has_inst then b2z (negb (absm_eqb c AB_INST)) else 0))%Z)
  end.
Fixpoint ins_elm (x : elm) (l : list elm) : list elm :=
  match l with [] => [x] | y :: tl => if Nat.ltb (elm_rank x) (elm_rank y) then x :: l else y :: ins_elm x tl end.
Fixpoint index_elm (x : elm) (l : list elm) (i : nat) : option nat :=
  match l with [] => None | y :: tl => if Nat.eqb (elm_rank x) (elm_rank y) then Some i else index_elm x tl (S i) end.
Definition elim_counts (a : option (list elm * elm)) : res (Z * Z) :=
  match a with
  | None => Ok (0, 0)%Z
  | Some (ss, c) =>
      if Nat.eqb (length ss) 1 then Ok (0, 0)%Z
      else match index_elm c (fold_right ins_elm [] ss) 0 with
           | Some i => Ok ((Z.of_nat (length ss) - 1)%Z, Z.of_nat i)
           | None => Err EValue                                 (* list.index: not in list *)
           end
  end.
Definition trans_counts (a : option (nat * bool * list Z * bool * Z)) : Z * Z :=
  match a with
  | None => (0, 0)%Z
  | Some (len, ss_depot, counts, c_depot, c0) =>
      if Nat.eqb len 1 then (0, 0)%Z
      else if ss_depot then (Z.of_nat (length (filter (fun n => (0 <? n)%Z) counts)),
                             if c_depot then b2z (0 <? c0)%Z else 0%Z)
      else (0, 0)%Z
  end.
Definition per_counts (a : option (nat * Z)) : Z * Z :=
  match a with None => (0, 0)%Z | Some (len, c0) => if Nat.eqb len 1 then (0, 0)%Z else ((Z.of_nat len - 1)%Z, c0) end.
Definition lag_counts (a : option (nat * bool)) : Z * Z :=
  match a with None => (0, 0)%Z | Some (len, on) => if Nat.eqb len 1 then (0, 0)%Z else (1%Z, b2z on) end.
Definition zadd2 (a b : Z * Z) : Z * Z := ((fst a + fst b)%Z, (snd a + snd b)%Z).
Definition mfl_counts (m : mfl_in) : res (Z * Z) :=            (* (p, k_p) *)
  match elim_counts (mf_elim m) with
  | Err e => Err e
  | Ok e => Ok (zadd2 (abs_counts (mf_abs m)) (zadd2 e (zadd2 (trans_counts (mf_trans m))
                (zadd2 (per_counts (mf_per m)) (lag_counts (mf_lag m))))))
  end.
(* calculate_bic_penalty(candidate, search_space: str | ModelFeatures, base_model, E_p, E_q) *)
Definition calculate_bic_penalty_mfl (logq : Q -> option Q) (has_base : bool) (m : mfl_in) (Ep Eq : option Q) : res Q :=
  if has_base then Err EValue
  else match Ep with
       | None => Err EValue
       | Some _ => match mfl_counts m with
                   | Err e => Err e
                   | Ok (p, kp) => penalty_formula logq p kp 0 0 Ep Eq
                   end
       end.

(* ---- comparison *)
Record pcase := mkPcase {
  pc_base : option rvmodel; pc_cand : rvmodel; pc_ss : list ssopt; pc_nkeep : nat;
  pc_Ep : option Q; pc_Eq : option Q;
  pc_logs : list (Q * option Q);
  pc_counts : option (Z * Z * Z * Z);      (* get_penalty_parameters_rvs observed directly (when base is given) *)
  pc_obs : res Q
}.
Definition tab_logq (t : list (Q * option Q)) (x : Q) : option Q :=
  match find (fun p => Qeq_bool (fst p) x) t with Some p => snd p | None => None end.
Definition counts_eqb (a b : Z * Z * Z * Z) : bool :=
  let '(p, kp, q, kq) := a in let '(p', kp', q', kq') := b in
  Z.eqb p p' && Z.eqb kp kp' && Z.eqb q q' && Z.eqb kq kq'.
Definition pverdict (c : pcase) : list nat :=
  (match pc_counts c, pc_base c with
   | Some o, Some b => if counts_eqb (penalty_counts b (pc_cand c) (pc_ss c) (pc_nkeep c)) o then [] else [8]
   | _, _ => [] end) ++
  (match calculate_bic_penalty (tab_logq (pc_logs c)) (pc_base c) (pc_cand c) (pc_ss c) (pc_nkeep c) (pc_Ep c) (pc_Eq c), pc_obs c with
   | Ok x, Ok y => if Qle_bool (Qabs (x - y)) ((1 # 1000000000) * (1 + Qabs x)) then [] else [8]
   | Err EValue, Err EValue | Err EKey, Err EKey | Err EInternal, Err EInternal => []
   | _, _ => [8] end).

Record mcase := mkMcase { mc_in : mfl_in; mc_has_base : bool; mc_Ep : option Q; mc_Eq : option Q;
                          mc_logs : list (Q * option Q); mc_counts : option (Z * Z); mc_obs : res Q }.
Definition mverdict (c : mcase) : list nat :=
  (match mc_counts c, mfl_counts (mc_in c) with
   | Some (p, k), Ok (p', k') => if Z.eqb p p' && Z.eqb k k' then [] else [8]
   | Some _, Err _ => [8]
   | None, _ => [] end) ++
  (match calculate_bic_penalty_mfl (tab_logq (mc_logs c)) (mc_has_base c) (mc_in c) (mc_Ep c) (mc_Eq c), mc_obs c with
   | Ok x, Ok y => if Qle_bool (Qabs (x - y)) ((1 # 1000000000) * (1 + Qabs x)) then [] else [8]
   | Err EValue, Err EValue | Err EKey, Err EKey | Err EInternal, Err EInternal => []
   | _, _ => [8] end).
