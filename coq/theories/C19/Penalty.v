(* PV.C19.Penalty — tools/run.py calculate_bic_penalty for a list search space (iiv_diag / iiv_block / iov):
   _get_var_params, get_penalty_parameters_rvs and the closing formula, plus the in-Coq comparison for its cases.
   The MFL branch (get_penalty_parameters_mfl) is not modelled.  [logq] is math.log as an oracle. *)
From Coq Require Import QArith ZArith List Bool PArith Arith Qabs.
From PV Require Import C19.Model.
Import ListNotations.
Local Open Scope nat_scope.

Inductive rvlevel := LIIV | LIOV.
Record dist := mkDist {
  d_level : rvlevel;
  d_var : list id;        (* diagonal of the distribution's covariance matrix *)
  d_cov : list id         (* its other parameters *)
}.
Record rvmodel := mkRv { rv_dists : list dist; rv_fixed : list id }.   (* etas in order; model.parameters.fixed.names *)

Inductive ssopt := SS_iiv_diag | SS_iiv_block | SS_iov | SS_other.
Definition ss_eqb (a b : ssopt) : bool :=
  match a, b with
  | SS_iiv_diag, SS_iiv_diag | SS_iiv_block, SS_iiv_block | SS_iov, SS_iov | SS_other, SS_other => true
  | _, _ => false end.
Definition ss_mem (a : ssopt) (l : list ssopt) : bool := existsb (ss_eqb a) l.

Definition memid (x : id) (l : list id) : bool := existsb (Pos.eqb x) l.
Fixpoint dedup (l : list id) (seen : list id) : list id :=
  match l with
  | [] => []
  | x :: tl => if memid x seen then dedup tl seen else x :: dedup tl (x :: seen)
  end.
Definition dist_params (d : dist) : list id := d_var d ++ d_cov d.
Definition unfixed (fixed : list id) (d : dist) : bool := negb (existsb (fun p => memid p fixed) (dist_params d)).

(* _get_var_params *)
Definition var_params (m : rvmodel) (ss : list ssopt) : list dist :=
  (if ss_mem SS_iiv_diag ss || ss_mem SS_iiv_block ss
   then filter (fun d => match d_level d with LIIV => unfixed (rv_fixed m) d | LIOV => false end) (rv_dists m) else [])
  ++
  (if ss_mem SS_iov ss
   then filter (fun d => match d_level d with LIOV => unfixed (rv_fixed m) d | LIIV => false end) (rv_dists m) else []).

Definition variance_parameters (ds : list dist) : list id := dedup (flat_map d_var ds) [].
Definition parameter_names (ds : list dist) : list id := dedup (flat_map dist_params ds) [].

(* get_penalty_parameters_rvs: (p, k_p, q, k_q) *)
Definition penalty_counts (base cand : rvmodel) (ss : list ssopt) (nkeep : nat) : Z * Z * Z * Z :=
  let be := var_params base ss in
  let ce := var_params cand ss in
  let nb := Z.of_nat (length (variance_parameters be)) in
  let '(p, kp) := if ss_mem SS_iiv_diag ss || ss_mem SS_iov ss
                  then ((nb - Z.of_nat nkeep)%Z, (Z.of_nat (length (variance_parameters ce)) - Z.of_nat nkeep)%Z)
                  else (0%Z, 0%Z) in
  let '(q, kq) := if ss_mem SS_iiv_block ss
                  then ((nb * (nb - 1) / 2)%Z,
                        Z.of_nat (length (filter (fun x => negb (memid x (variance_parameters ce))) (parameter_names ce))))
                  else (0%Z, 0%Z) in
  (p, kp, q, kq).

Section Pen.
Variable logq : Q -> option Q.       (* math.log; None = ValueError (math domain error) *)

Definition penalty_formula (p kp q kq : Z) (Ep Eq : option Q) : res Q :=
  let p := if Z.eqb kp 0 then 1%Z else p in
  let q := if Z.eqb kq 0 then 1%Z else q in
  let Ep := match Ep with Some e => e | None => 1%Q end in
  let Eq := match Eq with Some e => e | None => 1%Q end in
  if Qeq_bool Ep 0 then Err EInternal        (* ZeroDivisionError *)
  else match logq (inject_Z p / Ep) with
       | None => Err EValue
       | Some l1 =>
           if Qeq_bool Eq 0 then Err EInternal
           else match logq (inject_Z q / Eq) with
                | None => Err EValue
                | Some l2 => Ok (2 * inject_Z kp * l1 + 2 * inject_Z kq * l2)%Q
                end
       end.

Definition calculate_bic_penalty (base : option rvmodel) (cand : rvmodel) (ss : list ssopt) (nkeep : nat)
           (Ep Eq : option Q) : res Q :=
  if ss_mem SS_other ss then Err EValue
  else if ss_mem SS_iiv_block ss && ss_mem SS_iov ss then Err EValue
  else if ss_mem SS_iiv_block ss && (match Eq with None => true | _ => false end) then Err EValue
  else if (ss_mem SS_iiv_diag ss || ss_mem SS_iov ss) && (match Ep with None => true | _ => false end) then Err EValue
  else match base with
       | None => Err EValue
       | Some b => let '(p, kp, q, kq) := penalty_counts b cand ss nkeep in penalty_formula p kp q kq Ep Eq
       end.
End Pen.

(* ---- comparison *)
Record pcase := mkPcase {
  pc_base : option rvmodel; pc_cand : rvmodel; pc_ss : list ssopt; pc_nkeep : nat;
  pc_Ep : option Q; pc_Eq : option Q;
  pc_logs : list (Q * option Q);
  pc_counts : option (Z * Z * Z * Z);      (* get_penalty_parameters_rvs observed directly (when base is given) *)
  pc_obs : res Q
}.
Definition tab_logq (t : list (Q * option Q)) (x : Q) : option Q :=
  match find (fun p => Qeq_bool (fst p) x) t with Some p => snd p | None => None end.
Definition counts_eqb (a b : Z * Z * Z * Z) : bool :=
  let '(p, kp, q, kq) := a in let '(p', kp', q', kq') := b in
  Z.eqb p p' && Z.eqb kp kp' && Z.eqb q q' && Z.eqb kq kq'.
Definition pverdict (c : pcase) : list nat :=
  (match pc_counts c, pc_base c with
   | Some o, Some b => if counts_eqb (penalty_counts b (pc_cand c) (pc_ss c) (pc_nkeep c)) o then [] else [8]
   | _, _ => [] end) ++
  (match calculate_bic_penalty (tab_logq (pc_logs c)) (pc_base c) (pc_cand c) (pc_ss c) (pc_nkeep c) (pc_Ep c) (pc_Eq c), pc_obs c with
   | Ok x, Ok y => if Qle_bool (Qabs (x - y)) ((1 # 1000000000) * (1 + Qabs x)) then [] else [8]
   | Err EValue, Err EValue | Err EKey, Err EKey | Err EInternal, Err EInternal => []
   | _, _ => [8] end).
