(* PV.C12.Properties — the property theorems of C12 and nothing else.
   [engine_ok G] is what is assumed of the symbolic engines (sympy.srepr / parse_expr for Expr,
   Matrix, Unit; decidable equality): see Model.v.  json.dumps and sha256 enter only through the
   pairwise hypotheses [dumps_sep] / [H_sep] written in the statements.
   State after the fix commits cee2988 (from_dict restores tuples), e582408 (categories written as
   a plain dict), ddb8814 (ModelHash encodes systems in name order), 30e26dc (generic read) and
   876afb2 (== of systems without dose), eb87ce1 (ModelHash sorts the two mappings): the guards those
   defects required are gone. *)
From Coq Require Import QArith ZArith List Bool Arith String.
From PV Require Import C12.Model C12.Proofs.
Local Open Scope string_scope.

(* ---- json.loads . json.dumps on the values to_dict produces ---- *)

(* The JSON image of a value is a fixed point: a second trip through the text changes nothing. *)
Theorem json_normal_idempotent :
  forall v : pyv, normalise (normalise v) = normalise v.
Proof. exact normalise_idem_all. Qed.

(* ... it contains no tuple and no int key ... *)
Theorem json_normal_is_json :
  forall v : pyv, is_json (normalise v) = true.
Proof. exact normalise_is_json_lemma. Qed.

(* ... and exactly the values without tuples / int keys survive the text unchanged. *)
Theorem json_normal_fixpoint :
  forall v : pyv, is_json v = true -> normalise v = v.
Proof. exact normalise_fix_lemma. Qed.

(* ---- component_roundtrip: from_dict (to_dict x) = x, for every value of every component ---- *)

Theorem parameter_roundtrip : forall p : parameter, param_from_dict (param_to_dict p) = Some p.
Proof. exact param_roundtrip. Qed.

Theorem parameters_roundtrip : forall l : list parameter, params_from_dict (params_to_dict l) = Some l.
Proof. exact params_roundtrip. Qed.

Theorem variability_level_roundtrip : forall l : vlevel, vlevel_from_dict (vlevel_to_dict l) = Some l.
Proof. exact vlevel_roundtrip. Qed.

Theorem variability_hierarchy_roundtrip : forall h : list vlevel, hier_from_dict (hier_to_dict h) = Some h.
Proof. exact hier_roundtrip. Qed.

(* Normal and joint normal distributions. *)
Theorem distribution_roundtrip :
  forall G, engine_ok G -> forall x : dist G, dist_from_dict G (dist_to_dict G x) = Some x.
Proof. exact dist_roundtrip. Qed.

Theorem random_variables_roundtrip :
  forall G, engine_ok G -> forall r : rvs G, rvs_from_dict G (rvs_to_dict G r) = Some r.
Proof. exact rvs_roundtrip. Qed.

Theorem assignment_roundtrip :
  forall G, engine_ok G -> forall a : assignment G, assign_from_dict G (assign_to_dict G a) = Some a.
Proof. exact assign_roundtrip. Qed.

(* Bolus and Infusion (rate / duration None or an expression). *)
Theorem dose_roundtrip :
  forall G, engine_ok G -> forall x : dose G, dose_from_dict G (dose_to_dict G x) = Some x.
Proof. exact Proofs.dose_roundtrip. Qed.

(* A compartment with any number of doses (the empty tuple travels as None). *)
Theorem compartment_roundtrip :
  forall G, engine_ok G -> forall c : compartment G, comp_from_dict G (comp_to_dict G c) = Some c.
Proof. exact comp_roundtrip. Qed.

(* A compartmental system comes back node for node and edge for edge, in the same enumeration
   order: for every graph the builder can hold (distinct nodes, edges between nodes, distinct
   targets per node) whose first node is the output node (every builder starts with it). *)
Theorem compartmental_system_roundtrip :
  forall G, engine_ok G -> forall s : csys G,
    graph_wf G (cs_g G s) = true -> out_first G (cs_g G s) = true ->
    cs_from_dict G (cs_to_dict G s) = Some s.
Proof. exact cs_roundtrip_lemma. Qed.

(* The two graph guards are invariants of the builder: every system made by any sequence of
   add_compartment / add_flow from a fresh CompartmentalSystemBuilder satisfies them, hence comes
   back exactly. *)
Theorem builder_systems_roundtrip :
  forall G, engine_ok G -> forall (ops : list (bop G)) (t : expr G),
    cs_ok G (mkCs G (run_bops G ops) t) = true /\
    cs_from_dict G (cs_to_dict G (mkCs G (run_bops G ops) t)) = Some (mkCs G (run_bops G ops) t).
Proof. exact builder_systems_roundtrip_thm. Qed.

(* remove_flow is part of the builder histories above (round 4): it keeps both graph guards, so
   builder_systems_roundtrip and builder_encoding_order_blind hold for every history of
   add_compartment / add_flow / remove_flow.  What it does to the graph: the node order and every
   other adjacency stay as they are. *)
Theorem remove_flow_keeps_guards :
  forall G, engine_ok G -> forall (u v : node G) (g : graph G),
    graph_wf G g = true -> out_first G g = true ->
    graph_wf G (remove_edge G u v g) = true /\ out_first G (remove_edge G u v g) = true /\
    g_nodes G (remove_edge G u v g) = g_nodes G g.
Proof. exact remove_flow_keeps_guards_thm. Qed.

Theorem statements_roundtrip :
  forall G, engine_ok G -> forall l : list (stmt G),
    forallb (stmt_ok G) l = true -> stmts_from_dict G (stmts_to_dict G l) = Some l.
Proof. exact stmts_roundtrip. Qed.

Theorem simulation_step_roundtrip : forall s : simstep, sim_from_dict (sim_to_dict s) = Some s.
Proof. exact sim_roundtrip. Qed.

(* An estimation step comes back with its derivatives turned into the tuple of their texts
   ([est_flat]) and everything else unchanged: full strength, no guard ... *)
Theorem estimation_step_roundtrip_image :
  forall G (e : eststep G), est_from_dict G (est_to_dict G e) = Some (est_flat G e).
Proof. exact est_roundtrip. Qed.

(* ... hence unchanged when the derivatives are already a tuple of texts (the default ()).
   (guard: C12-DERIVATIVES-TEXT, open) *)
Theorem estimation_step_roundtrip :
  forall G (e : eststep G), derivs_canon G (es_derivatives G e) = true ->
    est_from_dict G (est_to_dict G e) = Some e.
Proof. exact estimation_step_roundtrip_thm. Qed.

Theorem execution_steps_roundtrip :
  forall G (l : list (step G)), forallb (step_canon G) l = true ->
    steps_from_dict G (steps_to_dict G l) = Some l.
Proof. exact execution_steps_roundtrip_thm. Qed.

(* ColumnInfo.to_dict (unit as srepr) and the per-column dictionary of DataInfo (unit as str), with
   None / tuple / mapping categories: the mapping is written as a plain dict and read back. *)
Theorem column_roundtrip :
  forall G, engine_ok G -> forall c : column G, column_from_dict G (column_to_dict G c) = Some c.
Proof. exact Proofs.column_roundtrip. Qed.

(* DataInfo: everything but the path, which to_dict never writes. *)
Theorem datainfo_roundtrip :
  forall G, engine_ok G -> forall x : datainfo G,
    di_from_dict G (di_to_dict G x) = Some (mkDi G (di_columns G x) None (di_separator G x) (di_missing G x)).
Proof. exact di_roundtrip. Qed.

(* Model: everything Model.__eq__ looks at comes back; name, description and data path do not
   travel ([strip]).  Side conditions: compartment graphs as above, dependent variables are
   symbols, estimation steps hold canonical derivatives, and the representation artefact that an
   absent DataFrame is None, not Some None. *)
Theorem model_roundtrip :
  forall G, engine_ok G -> forall m : model G,
    forallb (stmt_ok G) (m_statements G m) = true -> depvars_ok G m ->
    forallb (step_canon G) (m_steps G m) = true -> m_iie G m <> Some PNone ->
    model_from_dict G (model_to_dict G m) = Some (strip G m).
Proof. exact model_roundtrip_thm. Qed.

(* to_dict is injective wherever the round trip is exact: different objects, different dictionaries *)
Theorem compartmental_system_to_dict_injective :
  forall G, engine_ok G -> forall a b : csys G,
    cs_ok G a = true -> cs_ok G b = true -> cs_to_dict G a = cs_to_dict G b -> a = b.
Proof. exact compartmental_system_to_dict_injective_thm. Qed.

(* For two systems that == calls equal, the dictionaries are equal exactly when the graphs
   enumerate nodes and successors in the same order (to_dict itself is still order dependent;
   the key no longer is, see hash_order_blind). *)
Theorem compartmental_system_dict_iff_order :
  forall G, engine_ok G -> forall a b : csys G,
    cs_ok G a = true -> cs_ok G b = true -> cs_eq G a b = true ->
    (cs_to_dict G a = cs_to_dict G b <-> same_enum G (cs_g G a) (cs_g G b) = true).
Proof. exact cs_dict_iff_order. Qed.

Theorem statements_equal_same_order :
  forall G, engine_ok G -> forall l l' : list (stmt G),
    forallb (stmt_ok G) l = true -> forallb (stmt_ok G) l' = true ->
    stmts_eq G l l' = true -> zip_all (stmt_same_enum G) l l' = true -> l = l'.
Proof. exact stmts_eq_same_enum. Qed.

(* ---- from_dict(to_dict(x)) == x with the implementation's own == ---- *)

Theorem parameter_roundtrip_eq :
  forall p, param_no_nan p = true ->
    exists q, param_from_dict (param_to_dict p) = Some q /\ param_eqb q p = true.
Proof. exact parameter_roundtrip_eq_thm. Qed.

Theorem random_variables_roundtrip_eq :
  forall G, engine_ok G -> forall r : rvs G,
    exists q, rvs_from_dict G (rvs_to_dict G r) = Some q /\ rvs_eqb G q r = true.
Proof. exact random_variables_roundtrip_eq_thm. Qed.

(* == is defined on every system (with or without a dosing compartment: 876afb2) and says True *)
Theorem compartmental_system_roundtrip_eq :
  forall G, engine_ok G -> forall s : csys G,
    cs_ok G s = true -> exists q, cs_from_dict G (cs_to_dict G s) = Some q /\ cs_eq G q s = true.
Proof. exact compartmental_system_roundtrip_eq_thm. Qed.

Theorem statements_roundtrip_eq :
  forall G (GOK : engine_ok G) (l : list (stmt G)),
    forallb (stmt_ok G) l = true ->
    exists q, stmts_from_dict G (stmts_to_dict G l) = Some q /\ stmts_eq G q l = true.
Proof. exact statements_roundtrip_eq_thm. Qed.

(* ---- from_dict_ignores_normalise: the way back through the JSON text ---- *)

Theorem parameters_json_roundtrip : forall l, params_from_dict (normalise (params_to_dict l)) = Some l.
Proof. exact params_json. Qed.

(* Random variables come back unchanged: from_dict restores the names tuple (cee2988). *)
Theorem random_variables_json_roundtrip :
  forall G, engine_ok G -> forall r : rvs G, rvs_from_dict G (normalise (rvs_to_dict G r)) = Some r.
Proof. exact rvs_json_lemma. Qed.

Theorem random_variables_json_roundtrip_eq :
  forall G, engine_ok G -> forall r : rvs G,
    exists q, rvs_from_dict G (normalise (rvs_to_dict G r)) = Some q /\ rvs_eqb G q r = true.
Proof. exact random_variables_json_roundtrip_eq_thm. Qed.

Theorem compartmental_system_json_roundtrip :
  forall G, engine_ok G -> forall s : csys G,
    graph_wf G (cs_g G s) = true -> out_first G (cs_g G s) = true ->
    cs_from_dict G (normalise (cs_to_dict G s)) = Some s.
Proof. exact cs_json_lemma. Qed.

Theorem statements_json_roundtrip :
  forall G, engine_ok G -> forall l : list (stmt G),
    forallb (stmt_ok G) l = true -> stmts_from_dict G (normalise (stmts_to_dict G l)) = Some l.
Proof. exact stmts_json. Qed.

(* Execution steps: residuals and predictions come back as tuples; what still changes is what is
   held verbatim: tool options are normalised, derivatives are texts ([step_json]). *)
Theorem execution_steps_json_image :
  forall G (l : list (step G)), steps_from_dict G (normalise (steps_to_dict G l)) = Some (map (step_json G) l).
Proof. exact steps_json. Qed.

(* A datainfo: tuple categories come back as tuples, mapping categories as mappings; their values
   / keys are normalised ([di_json]); no path. *)
Theorem datainfo_json_image :
  forall G, engine_ok G -> forall x : datainfo G, di_from_dict G (normalise (di_to_dict G x)) = Some (di_json G x).
Proof. exact di_json_lemma. Qed.

(* A model is read back from its generic code (json.loads, then from_dict) as its JSON image
   [model_json]: exact characterisation, no guard on the contents. *)
Theorem model_json_image :
  forall G, engine_ok G -> forall m : model G,
    forallb (stmt_ok G) (m_statements G m) = true -> depvars_ok G m ->
    (forall x, m_iie G m = Some x -> normalise x <> PNone) ->
    model_from_dict G (normalise (model_to_dict G m)) = Some (model_json G m).
Proof. exact model_json_lemma. Qed.

(* The generic model code parses back to the model itself (up to name / description / path): no
   condition on tuple-valued fields any more (cee2988).  Remaining guards: derivatives are texts
   (C12-DERIVATIVES-TEXT, open) and nothing held verbatim has an int key or a nested tuple
   (C12-JSON-INTKEY, open). *)
Theorem model_json_roundtrip :
  forall G, engine_ok G -> forall m : model G,
    forallb (stmt_ok G) (m_statements G m) = true -> depvars_ok G m ->
    forallb (step_json_ok G) (m_steps G m) = true ->
    forallb (column_json_ok G) (di_columns G (m_datainfo G m)) = true ->
    (forall x, m_iie G m = Some x -> is_json x = true /\ x <> PNone) ->
    model_from_dict G (normalise (model_to_dict G m)) = Some (strip G m).
Proof. exact model_json_roundtrip_thm. Qed.

(* ---- the database key ---- *)

(* Name, description and data path do not enter the key (nor the dictionary at all). *)
Theorem hash_ignores_name_description_path :
  forall G dumps digest (H : string -> digest) ds (m : model G) nm de pa,
    key G dumps digest H ds (with_meta G m nm de pa) = key G dumps digest H ds m.
Proof. exact key_ignores_meta. Qed.

Theorem to_dict_ignores_name_description_path :
  forall G (m : model G) nm de pa, model_to_dict G (with_meta G m nm de pa) = model_to_dict G m.
Proof. exact to_dict_ignores_meta. Qed.

(* Same dataset bytes and same encoded dictionary: same key, whatever dumps and the digest are — in
   particular in every process and under every hash seed, as neither enters the definition. *)
Theorem hash_same_dictionary :
  forall G dumps digest (H : string -> digest) ds (m m' : model G),
    model_encode G (blank G m) = model_encode G (blank G m') ->
    key G dumps digest H ds m = key G dumps digest H ds m'.
Proof. exact key_same_dict. Qed.

(* hash_order_blind (was hash_order_refuted before ddb8814): replacing the statements of a model
   by statements that == calls equal — the same systems entered in any other order of compartments
   and flows, e.g. after a relabelling transformation and its inverse — does not change the key.
   For all models whose systems are builder-shaped with distinct compartment names. *)
Theorem hash_order_blind :
  forall G dumps digest (H : string -> digest), engine_ok G -> forall ds (m : model G) (l' : list (stmt G)),
    forallb (stmt_ok G) (m_statements G m) = true -> forallb (stmt_ok G) l' = true ->
    forallb (stmt_names_distinct G) (m_statements G m) = true ->
    stmts_eq G (m_statements G m) l' = true ->
    key G dumps digest H ds (with_statements G m l') = key G dumps digest H ds m.
Proof. exact key_order_blind. Qed.

(* hash_content_order_blind (eb87ce1 added the two mappings): the key sees neither the order in
   which a system was built nor the order in which dependent variables and observation
   transformations were entered: replacing statements and the two mappings by ones that == calls
   equal keeps the key.  (NoDup conditions: a dict has distinct keys, with distinct texts.) *)
Theorem hash_content_order_blind :
  forall G, engine_ok G -> forall dumps digest (H : string -> digest) ds (m : model G) l' dv' ot',
    forallb (stmt_ok G) (m_statements G m) = true -> forallb (stmt_ok G) l' = true ->
    forallb (stmt_names_distinct G) (m_statements G m) = true ->
    NoDup (map fst (m_depvars G m)) -> NoDup (map (depvar_key G) (m_depvars G m)) ->
    NoDup (map fst (m_obstrans G m)) -> NoDup (map (obstrans_key G) (m_obstrans G m)) ->
    stmts_eq G (m_statements G m) l' = true ->
    map_eqb (expr_eqb G) Z.eqb (m_depvars G m) dv' = true ->
    map_eqb (expr_eqb G) (expr_eqb G) (m_obstrans G m) ot' = true ->
    key G dumps digest H ds (with_content G m l' dv' ot') = key G dumps digest H ds m.
Proof. exact key_content_order_blind. Qed.

(* The encoding order itself: equal systems are encoded identically ... *)
Theorem compartmental_system_encoding_order_blind :
  forall G, engine_ok G -> forall a b : csys G,
    graph_wf G (cs_g G a) = true -> graph_wf G (cs_g G b) = true -> names_distinct G (cs_g G a) = true ->
    cs_eq G a b = true -> cs_canon G a = cs_canon G b.
Proof. exact cs_canon_unique. Qed.

(* ... in particular two builder histories of the same system ... *)
Theorem builder_encoding_order_blind :
  forall G, engine_ok G -> forall (ops ops' : list (bop G)) (t : expr G),
    names_distinct G (run_bops G ops) = true ->
    cs_eq G (mkCs G (run_bops G ops) t) (mkCs G (run_bops G ops') t) = true ->
    cs_canon G (mkCs G (run_bops G ops) t) = cs_canon G (mkCs G (run_bops G ops') t).
Proof. exact builder_encoding_order_blind_thm. Qed.

(* ... and the re-ordered system is again one from_dict reads back exactly. *)
Theorem encoding_order_well_formed :
  forall G, engine_ok G -> forall s : csys G, cs_ok G s = true -> cs_ok G (cs_canon G s) = true.
Proof. exact cs_canon_ok. Qed.

(* hash_separates: models whose (JSON images of the) encoded dictionaries differ get different
   keys, given that dumps separates these two dictionaries and the digest these two inputs. *)
Theorem hash_separates :
  forall G dumps digest (H : string -> digest) ds (m m' : model G),
    let d := model_encode G (blank G m) in let d' := model_encode G (blank G m') in
    dumps_sep dumps d d' -> H_sep H (ds ++ dumps d) (ds ++ dumps d') ->
    normalise d <> normalise d' ->
    key G dumps digest H ds m <> key G dumps digest H ds m'.
Proof. exact key_separates_model. Qed.

(* The same model on different dataset bytes gets a different key. *)
Theorem hash_separates_dataset :
  forall G dumps digest (H : string -> digest) ds ds' (m : model G),
    let d := model_encode G (blank G m) in
    H_sep H (ds ++ dumps d) (ds' ++ dumps d) -> ds <> ds' ->
    key G dumps digest H ds m <> key G dumps digest H ds' m.
Proof. exact key_separates_dataset. Qed.

(* No false sharing: two models with the same key over the same data have, once their systems are
   put in the encoding order, the same JSON image: they agree on parameters, random variables,
   statements (up to compartment order), steps, columns, value type, dependent variables,
   observation transformation and initial estimates up to int/str keys of verbatim values. *)
Theorem hash_sound :
  forall G, engine_ok G -> forall dumps digest (H : string -> digest) ds (m m' : model G),
    let d := model_encode G (blank G m) in let d' := model_encode G (blank G m') in
    forallb (stmt_ok G) (m_statements G m) = true -> forallb (stmt_ok G) (m_statements G m') = true ->
    depvars_ok G m -> depvars_ok G m' ->
    (forall x, m_iie G m = Some x -> normalise x <> PNone) -> (forall x, m_iie G m' = Some x -> normalise x <> PNone) ->
    dumps_sep dumps d d' -> H_sep H (ds ++ dumps d) (ds ++ dumps d') ->
    key G dumps digest H ds m = key G dumps digest H ds m' ->
    model_json G (model_canon G m) = model_json G (model_canon G m').
Proof. exact key_sound_lemma. Qed.

(* Conversely: the same image in the encoding order => the same key, given that dumps writes a value
   and its normal form alike for these two dictionaries.  With hash_sound: over the same data,
   same key <-> same JSON image in encoding order. *)
Theorem hash_complete :
  forall G dumps digest (H : string -> digest) ds (m m' : model G),
    (forall v, v = model_encode G (blank G m) \/ v = model_encode G (blank G m') -> dumps (normalise v) = dumps v) ->
    model_json G (model_canon G m) = model_json G (model_canon G m') ->
    key G dumps digest H ds m = key G dumps digest H ds m'.
Proof. exact key_complete_lemma. Qed.

(* ---- the dataset half of the key ---- *)

(* Everything that reaches the hash of a dataset is its [ds_input]: the cells row by row, the
   column names, what repr() shows of the index, the dtypes.  Frames with the same input — built
   from a dict, from records, copied, with other attrs or another name of the columns axis — give
   the same bytes and the same key, for every engine. *)
Theorem dataset_same_input_same_key :
  forall G dumps digest (H : string -> digest) rowhash repr_names repr_index repr_dtypes (f g : frame) (m : model G),
    ds_input f = ds_input g ->
    key G dumps digest H (ds_bytes rowhash repr_names repr_index repr_dtypes f) m =
    key G dumps digest H (ds_bytes rowhash repr_names repr_index repr_dtypes g) m.
Proof. exact key_same_frames. Qed.

(* The bytes can be read back: for frames with the same number of rows, equal bytes mean equal
   input — given that the row hash is 8 bytes wide and separates the rows of these two frames, that the repr of a list of names
   and of an index can be read off the front of a text, and that the dtype repr is injective. *)
Theorem dataset_bytes_read_back :
  forall rowhash repr_names repr_index repr_dtypes,
    (forall r, String.length (rowhash r) = 8%nat) ->
    decodable repr_names -> decodable repr_index -> (forall a b, repr_dtypes a = repr_dtypes b -> a = b) ->
    forall f g : frame, rows_sep rowhash (f_rows f) (f_rows g) -> List.length (f_rows f) = List.length (f_rows g) ->
      ds_bytes rowhash repr_names repr_index repr_dtypes f = ds_bytes rowhash repr_names repr_index repr_dtypes g ->
      ds_input f = ds_input g.
Proof. exact ds_bytes_read_back. Qed.

(* hash_separates_dataset at full strength: the same model on two frames of the same length that
   differ in a cell, a column name, the column order, a dtype or a visible part of the index gets
   different keys (digest collision free on these two inputs).  (_partial in one respect: frames of
   different length are not covered — the byte format has no length field; see the report.) *)
Theorem hash_separates_dataset_full :
  forall G dumps digest (H : string -> digest) rowhash repr_names repr_index repr_dtypes (f g : frame) (m : model G),
    (forall r, String.length (rowhash r) = 8%nat) -> rows_sep rowhash (f_rows f) (f_rows g) ->
    decodable repr_names -> decodable repr_index -> (forall a b, repr_dtypes a = repr_dtypes b -> a = b) ->
    let bytes := ds_bytes rowhash repr_names repr_index repr_dtypes in
    let d := model_encode G (blank G m) in
    List.length (f_rows f) = List.length (f_rows g) -> ds_input f <> ds_input g ->
    H_sep H (bytes f ++ dumps d) (bytes g ++ dumps d) ->
    key G dumps digest H (bytes f) m <> key G dumps digest H (bytes g) m.
Proof. exact key_separates_frames. Qed.

(* ---- Results JSON (workflows/results.py) ---- *)

(* results_json_roundtrip: read_results(r.to_json()) gives r back, for every results object whose
   class name ends in "Results" and whose attributes are JSON-stable plain values without reserved
   keys, DataFrames, Series and Logs — given that pandas reads a table back from its own
   orient='table' text (where it does not is C20-JSON-15-DECIMALS, C20's finding) and that neither the
   table nor the log dictionary uses the keys __class__ / __module__. *)
Theorem results_json_roundtrip :
  forall (tbl : Type) (tbl_json : tbl -> list (pkey * pyv)) (tbl_read : list (pkey * pyv) -> option tbl)
         (logv : Type) (log_json : logv -> list (pkey * pyv)) (log_read : list (pkey * pyv) -> option logv),
    (forall t, tbl_read (norm_items (tbl_json t)) = Some t) ->
    (forall t k, reserved_key k = true -> dget k (norm_items (tbl_json t)) = None) ->
    (forall l, log_read (norm_items (log_json l)) = Some l) ->
    (forall l k, reserved_key k = true -> dget k (norm_items (log_json l)) = None) ->
    forall r : results tbl logv, results_supported tbl logv r = true ->
      exists p, encode_results tbl tbl_json logv log_json r = Some p /\
                decode_results tbl tbl_read logv log_read (normalise p) = Some r.
Proof. exact results_roundtrip_lemma. Qed.

(* hash_separates_dataset for frames of DIFFERENT length (closes the gap left by
   hash_separates_dataset_full): the byte stream has no length field, so what separates the two
   streams is that the shorter frame's text begins where the longer one still has a row hash — the
   one assumption is that this row hash does not read like the beginning of the column-name text
   (Python writes "[" first; a collision-type assumption on the two compared inputs, like H_sep). *)
Theorem hash_separates_dataset_length :
  forall G dumps digest (H : string -> digest) rowhash repr_names repr_index repr_dtypes (f g : frame) (m : model G),
    (forall r, String.length (rowhash r) = 8%nat) ->
    let bytes := ds_bytes rowhash repr_names repr_index repr_dtypes in
    let d := model_encode G (blank G m) in
    (List.length (f_rows f) < List.length (f_rows g))%nat ->
    (forall x y, rowhash (nth (List.length (f_rows f)) (f_rows g) nil) ++ x <> repr_names (f_columns f) ++ y) ->
    H_sep H (bytes f ++ dumps d) (bytes g ++ dumps d) ->
    key G dumps digest H (bytes f) m <> key G dumps digest H (bytes g) m.
Proof. exact key_separates_frames_length. Qed.

(* ---- the generic model code, end to end ---- *)

(* generic_code_image: convert_model(m, 'generic'), .code (json.dumps of to_dict plus the two magic
   keys), read_model_from_string (json.loads, Model.from_dict) returns exactly the JSON image of the
   converted model — for every model; json enters through one equation on the one dictionary. *)
Theorem generic_code_image :
  forall G, engine_ok G -> forall (dumps : pyv -> string) (loads : string -> option pyv) version (m : model G),
    loads (dumps (generic_code_dict G version (generic_convert G m))) =
      Some (normalise (generic_code_dict G version (generic_convert G m))) ->
    forallb (stmt_ok G) (m_statements G m) = true -> depvars_ok G m ->
    (forall x, m_iie G m = Some x -> normalise x <> PNone) ->
    generic_roundtrip G dumps loads version m = Some (model_json G (generic_convert G m)).
Proof. exact generic_image. Qed.

(* generic_code_roundtrip: the code parses back to the model itself up to name, description and data
   path (which == does not look at), under one guard per open finding: derivatives are texts
   (C12-DERIVATIVES-TEXT) and verbatim values are JSON-stable (C12-JSON-INTKEY) [step_json_ok,
   column_json_ok, the iie condition]; the engine assumption engine_ok (C12-SREPR-DISTRIBUTES).
   The value_type guard is gone: convert_model carries value_type over since 7115d86. *)
Theorem generic_code_roundtrip :
  forall G, engine_ok G -> forall (dumps : pyv -> string) (loads : string -> option pyv) version (m : model G),
    loads (dumps (generic_code_dict G version (generic_convert G m))) =
      Some (normalise (generic_code_dict G version (generic_convert G m))) ->
    forallb (stmt_ok G) (m_statements G m) = true -> depvars_ok G m ->
    forallb (step_json_ok G) (m_steps G m) = true ->
    forallb (column_json_ok G) (di_columns G (m_datainfo G m)) = true ->
    (forall x, m_iie G m = Some x -> is_json x = true /\ x <> PNone) ->
    generic_roundtrip G dumps loads version m = Some (strip G m).
Proof. exact generic_code_roundtrip_lemma. Qed.

(* The conversion itself changes nothing == (or anything else in the model) looks at. *)
Theorem generic_convert_identity :
  forall G (m : model G), generic_convert G m = m.
Proof. exact generic_convert_id. Qed.

(* ... and == cannot tell the read-back model from the original. *)
Theorem strip_is_equal_for_eq :
  forall G (m m' : model G), model_eq G (strip G m) m' = model_eq G m m'.
Proof. exact model_eq_strip. Qed.
