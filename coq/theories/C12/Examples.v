(* PV.C12.Examples — non-vacuity: concrete non-trivial instances of every hypothesis and guard of
   the theorems of Properties.v, and the theorems' conclusions re-checked on them by computation. *)
From Coq Require Import QArith ZArith List Bool Arith String.
From PV Require Import C12.Model C12.Proofs C12.Check C12.Refuted.
Import ListNotations.
Local Open Scope nat_scope.
Local Open Scope string_scope.

(* the engine assumptions are satisfiable *)
Example engine_assumptions_satisfiable : engine_ok strG.
Proof. exact strG_ok. Qed.

(* a value with tuples, int keys and nesting is accepted by dumps, changed by the round trip, and
   its image is a fixed point *)
Definition ex_value : pyv :=
  PDict [(KStr "a", PTuple [PInt 1%Z; PFloat FInf; PList [PTuple []]]); (KInt 7%Z, PDict [(KInt (-3)%Z, PNone)])].
Example normalise_example :
  is_json ex_value = false /\
  normalise ex_value = PDict [(KStr "a", PList [PInt 1%Z; PFloat FInf; PList [PList []]]); (KStr "7", PDict [(KStr "-3", PNone)])]
  /\ is_json (normalise ex_value) = true.
Proof. repeat split; vm_compute; reflexivity. Qed.

(* a three node system with three flows satisfies the graph guards; == is defined on it *)
Example graph_guards_example :
  graph_wf strG (cs_g strG sys_cp) = true /\ out_first strG (cs_g strG sys_cp) = true /\
  List.length (edges_of strG (cs_g strG sys_cp)) = 3 /\
  dosing strG (cs_g strG sys_cp) = Some [central] /\
  cs_from_dict strG (cs_to_dict strG sys_cp) = Some sys_cp /\
  cs_from_dict strG (normalise (cs_to_dict strG sys_cp)) = Some sys_cp /\
  cs_eq strG sys_cp sys_cp = true.
Proof. repeat split; vm_compute; reflexivity. Qed.

(* a model with parameters, a joint distribution, statements around a system, two steps, a
   column with categories and initial individual estimates, all JSON-stable: every guard of
   model_roundtrip and model_json_roundtrip holds and both ways back give [strip] of it *)
Definition ex_params : list parameter :=
  [mkParameter "POP_CL" (NFloat (FFin (1 # 100))) (NFloat (FFin 0)) (NFloat FInf) false;
   mkParameter "OMEGA" (NFloat (FFin (1 # 10))) (NFloat FNegInf) (NFloat FInf) true].
Definition ex_levels_eta : list vlevel := [mkLevel "IIV" true (Some "ID"); mkLevel "IOV" false (Some "OCC")].
Definition ex_levels_eps : list vlevel := [mkLevel "RUV" true None].
Definition ex_rvs : rvs strG :=
  mkRvs strG [DNormal strG (mkNormal strG "ETA_3" "IIV" zero "Symbol('OMEGA')");
              DJoint strG (mkJoint strG ["ETA_1"; "ETA_2"] "IIV" "MutableDenseMatrix([[Integer(0)], [Integer(0)]])"
                                  "MutableDenseMatrix([[Symbol('O11'), Symbol('O21')], [Symbol('O21'), Symbol('O22')]])")]
        ex_levels_eta ex_levels_eps.
Definition ex_stmts : list (stmt strG) :=
  [SAssign strG (mkAssign strG "Symbol('CL')" "Mul(Symbol('POP_CL'), exp(Symbol('ETA_1')))");
   SOde strG sys_cp;
   SAssign strG (mkAssign strG "Symbol('Y')" "Add(Symbol('F'), Symbol('EPS_1'))")].
Definition ex_steps : list (step strG) :=
  [StEst strG (mkEst strG "FOCE" true (Some "SANDWICH") false (Some 9999%Z) false None None None None
                     ["CWRES"] ["IPRED"; "PRED"] (DStrs strG ["(ETA_1,)"]) false
                     (mkCommon (Some "LSODA") None (Some (NInt 6%Z)) [(KStr "NITER", PInt 5%Z); (KStr "opt", PList [PInt 1%Z])]));
   StSim strG (mkSim 300%Z 64206%Z (mkCommon None None None []))].
Definition ex_di : datainfo strG :=
  mkDi strG [mkColumn strG "APGR" "covariate" one "ratio" (Some false) (CTuple [PInt 1%Z; PInt 2%Z]) false "float64" None;
             mkColumn strG "SEX" "covariate" "kilogram" "nominal" (Some false) (CMap [(KStr "1", PStr "m")]) true "int32" (Some "age")]
       (Some "/data/pheno.dta") "," "-99".
Definition ex_model : model strG :=
  mkModel strG "run1" "a description" ex_params ex_rvs ex_stmts ex_steps ex_di "PREDICTION"
          [("Symbol('Y')", 1%Z)] [("Symbol('Y')", "log(Symbol('Y'))")]
          (Some (PDict [(KStr "ETA_1", PDict [(KStr "1", PFloat (FFin (1 # 8)))])])).

Example depvars_guard_example : depvars_ok strG ex_model.
Proof. intros kv [E|[]]. subst. reflexivity. Qed.

Example model_guards_example :
  forallb (stmt_ok strG) (m_statements strG ex_model) = true /\
  forallb (stmt_eq_ok strG) (m_statements strG ex_model) = true /\
  forallb (step_json_ok strG) (m_steps strG ex_model) = true /\
  forallb (column_json_ok strG) (di_columns strG (m_datainfo strG ex_model)) = true /\
  model_from_dict strG (normalise (model_to_dict strG ex_model)) = Some (strip strG ex_model) /\
  model_eq strG (strip strG ex_model) ex_model = true.
Proof. repeat split; vm_compute; reflexivity. Qed.

(* the same with tuple-valued fields and canonical derivatives: the guards of model_roundtrip *)
Definition ex_model_t : model strG :=
  mkModel strG "run1" "" ex_params no_rvs ex_stmts [StEst strG est_default] no_di "PREDICTION"
          [("Symbol('Y')", 1%Z)] [("Symbol('Y')", "Symbol('Y')")] None.
Example model_roundtrip_guards_example :
  forallb (stmt_ok strG) (m_statements strG ex_model_t) = true /\
  forallb (step_canon strG) (m_steps strG ex_model_t) = true /\
  m_iie strG ex_model_t <> Some PNone /\
  model_from_dict strG (model_to_dict strG ex_model_t) = Some (strip strG ex_model_t).
Proof. repeat split; try (vm_compute; reflexivity). discriminate. Qed.

(* hash hypotheses: a dumps that separates the two dictionaries of the order witness and a digest
   that separates the two inputs exist, and the two keys are then indeed different and defined *)
Definition ex_dumps (v : pyv) : string :=
  if pyv_same (normalise v) (normalise (model_encode strG (blank strG M_cp))) then "1" else "0".
Example hash_hypotheses_example :
  let d := model_encode strG (blank strG M_cp) in let d' := model_encode strG (blank strG M_yz) in
  dumps_sep ex_dumps d d' /\ H_sep (fun s : string => s) ("ds" ++ ex_dumps d) ("ds" ++ ex_dumps d') /\
  key strG ex_dumps string (fun s => s) "ds" M_cp = "ds1" /\
  key strG ex_dumps string (fun s => s) "ds" M_yz = "ds0".
Proof.
  cbn zeta. repeat split; try (vm_compute; reflexivity).
  - intros E. vm_compute in E. discriminate.
  - intros E. exact E.
Qed.

(* hash_content_order_blind: statements in another build order, both mappings in another order *)
Definition M_base : model strG :=
  mkModel strG "m" "" ex_params ex_rvs [SOde strG sys_cp] ex_steps ex_di "PREDICTION"
          [("Symbol('Y')", 1%Z); ("Symbol('Z')", 2%Z)] [("Symbol('Y')", "log(Symbol('Y'))"); ("Symbol('Z')", "Symbol('Z')")] None.
Example hash_content_order_blind_example :
  let dv' := [("Symbol('Z')", 2%Z); ("Symbol('Y')", 1%Z)] in
  let ot' := [("Symbol('Z')", "Symbol('Z')"); ("Symbol('Y')", "log(Symbol('Y'))")] in
  with_content strG M_base [SOde strG sys_pc] dv' ot' <> M_base /\
  stmts_eq strG (m_statements strG M_base) [SOde strG sys_pc] = true /\
  map_eqb String.eqb Z.eqb (m_depvars strG M_base) dv' = true /\
  map_eqb String.eqb String.eqb (m_obstrans strG M_base) ot' = true /\
  NoDup (map (depvar_key strG) (m_depvars strG M_base)) /\ NoDup (map (obstrans_key strG) (m_obstrans strG M_base)) /\
  key strG ex_dumps string (fun s => s) "ds" (with_content strG M_base [SOde strG sys_pc] dv' ot') =
  key strG ex_dumps string (fun s => s) "ds" M_base.
Proof.
  cbn zeta. repeat split; try (vm_compute; reflexivity).
  - intro E. inversion E.
  - cbn. repeat constructor; cbn; intuition discriminate.
  - cbn. repeat constructor; cbn; intuition discriminate.
Qed.

(* renaming: a non-trivial use of with_meta *)
Example rename_example :
  with_meta strG ex_model "other" "text" None <> ex_model /\
  model_to_dict strG (with_meta strG ex_model "other" "text" None) = model_to_dict strG ex_model.
Proof. split; [intro E; inversion E | reflexivity]. Qed.

(* different datasets: the hypothesis ds <> ds' with an injective digest *)
Example dataset_example :
  key strG ex_dumps string (fun s => s) "rows-A" M_cp <> key strG ex_dumps string (fun s => s) "rows-B" M_cp.
Proof. vm_compute. intro E. discriminate. Qed.

(* the hypotheses of compartmental_system_dict_iff_order on the order witness: == says equal, the
   enumeration orders differ, and so do the dictionaries; a system has the same order as itself *)
Example dict_iff_order_example :
  cs_ok strG sys_cp = true /\ cs_ok strG sys_pc = true /\ cs_eq strG sys_cp sys_pc = true /\
  same_enum strG (cs_g strG sys_cp) (cs_g strG sys_pc) = false /\
  pyv_same (cs_to_dict strG sys_cp) (cs_to_dict strG sys_pc) = false /\
  same_enum strG (cs_g strG sys_cp) (cs_g strG sys_cp) = true /\
  zip_all (stmt_same_enum strG) ex_stmts ex_stmts = true /\ stmts_eq strG ex_stmts ex_stmts = true.
Proof. repeat split; vm_compute; reflexivity. Qed.

(* a builder history (two compartments, three flows, one flow entered twice) *)
Example builder_example :
  run_bops strG [BAddComp strG central; BAddComp strG periph; BAddFlow strG (NComp strG central) (NComp strG periph) "k";
                 BAddFlow strG (NComp strG periph) (NComp strG central) k21; BAddFlow strG (NComp strG central) (NOut strG) kel;
                 BAddFlow strG (NComp strG central) (NComp strG periph) k12] = cs_g strG sys_cp.
Proof. vm_compute. reflexivity. Qed.

(* hash_order_blind / hash_complete: a model and the same model with its system entered in the other
   order: different models, == statements, distinct names, same image in encoding order, same key *)
Definition M_full (st : list (stmt strG)) : model strG :=
  mkModel strG "m" "" ex_params ex_rvs st ex_steps ex_di "PREDICTION"
          [("Symbol('Y')", 1%Z)] [("Symbol('Y')", "Symbol('Y')")] None.
Example hash_order_blind_example :
  M_full [SOde strG sys_cp] <> M_full [SOde strG sys_pc] /\
  forallb (stmt_ok strG) [SOde strG sys_cp] = true /\ forallb (stmt_ok strG) [SOde strG sys_pc] = true /\
  forallb (stmt_names_distinct strG) [SOde strG sys_cp] = true /\
  stmts_eq strG [SOde strG sys_cp] [SOde strG sys_pc] = true /\
  model_json strG (model_canon strG (M_full [SOde strG sys_cp])) = model_json strG (model_canon strG (M_full [SOde strG sys_pc])) /\
  (forall v, ex_dumps (normalise v) = ex_dumps v) /\
  key strG ex_dumps string (fun s => s) "ds" (M_full [SOde strG sys_cp]) =
  key strG ex_dumps string (fun s => s) "ds" (M_full [SOde strG sys_pc]).
Proof.
  repeat split; try (vm_compute; reflexivity).
  - intro E. inversion E.
  - intros v. unfold ex_dumps. rewrite normalise_idem_all. reflexivity.
Qed.

(* the encoding order of a system with a relabelled (re-entered) compartment *)
Example canon_example :
  g_nodes strG (graph_canon strG (cs_g strG sys_pc)) = [NOut strG; NComp strG central; NComp strG periph] /\
  names_distinct strG (cs_g strG sys_pc) = true /\ cs_ok strG (cs_canon strG sys_pc) = true.
Proof. repeat split; vm_compute; reflexivity. Qed.

(* the dataset hypotheses are satisfiable together, non-trivially: an 8 character row "hash" that
   separates the rows of two given frames, reprs that can be read off the front of a text *)
Definition ex_rowhash (r : list cell) : string :=
  if list_eqb cell_same r [CFloat 0%Z] then "row....0" else
  if list_eqb cell_same r [CFloat 1%Z] then "row....1" else
  if list_eqb cell_same r [CFloat 2%Z] then "row....2" else "row....x".
Example two_frames_example :
  (forall r, String.length (ex_rowhash r) = 8) /\
  rows_sep ex_rowhash (f_rows frame_range3) (f_rows frame_labels3) /\
  frame_equals frame_range3 frame_labels3 = true /\ ds_input_same frame_range3 frame_labels3 = false /\
  ds_input_same frame_l101 frame_l101' = true.
Proof.
  repeat split; try (vm_compute; reflexivity).
  - intros r. unfold ex_rowhash.
    destruct (list_eqb cell_same r [CFloat 0%Z]); [reflexivity|].
    destruct (list_eqb cell_same r [CFloat 1%Z]); [reflexivity|].
    destruct (list_eqb cell_same r [CFloat 2%Z]); reflexivity.
  - intros r r' Hr Hr'. cbn in Hr, Hr'.
    destruct Hr as [<-|[<-|[<-|[]]]]; destruct Hr' as [<-|[<-|[<-|[]]]]; cbn; intros E; try reflexivity; discriminate.
Qed.

(* results_json_roundtrip: engines satisfying the four hypotheses (a table / a log is a text token),
   and a results object with every supported attribute kind *)
Definition tok_json (s : string) : list (pkey * pyv) := [(KStr "data", PStr s)].
Definition tok_read (d : list (pkey * pyv)) : option string := match dget "data" d with Some (PStr s) => Some s | _ => None end.
Example results_roundtrip_example :
  (forall t, tok_read (norm_items (tok_json t)) = Some t) /\
  (forall t k, reserved_key k = true -> dget k (norm_items (tok_json t)) = None) /\
  let r := mkResults string string "pharmpy.tools.modelfit.results" "ModelfitResults"
             [("__version__", FPlain _ _ (PStr "1.2.0")); ("ofv", FPlain _ _ (PFloat (FFin (3 # 2))));
              ("parameter_estimates", FSeries _ _ "series-1"); ("covariance_matrix", FFrame _ _ "frame-1");
              ("log", FLog _ _ "log-1"); ("warnings", FPlain _ _ (PList [PStr "w"; PDict [(KStr "k", PNone)]]))] in
  results_supported string string r = true /\
  exists p, encode_results string tok_json string tok_json r = Some p /\
            decode_results string tok_read string tok_read (normalise p) = Some r.
Proof.
  split; [reflexivity|]. split.
  - intros t k R. cbn. destruct (String.eqb k "data") eqn:E; [|reflexivity].
    apply String.eqb_eq in E. subst. discriminate.
  - cbn zeta. split; [reflexivity|]. eexists. split; vm_compute; reflexivity.
Qed.

(* hash_separates_dataset_length: a two row frame against the three row frame, with the example row
   hash and a Python-like repr of the names ("[" first): the hypothesis holds, the bytes differ *)
Definition frame_range2 : frame := frame_idx (IRange 0 2 1) 2.
Definition ex_repr_names (l : list string) : string := "[" ++ String.concat ", " l ++ "]".
Example dataset_length_example :
  (List.length (f_rows frame_range2) < List.length (f_rows frame_range3)) /\
  (forall x y, ex_rowhash (nth (List.length (f_rows frame_range2)) (f_rows frame_range3) []) ++ x
               <> ex_repr_names (f_columns frame_range2) ++ y).
Proof. split; [vm_compute; apply le_n|]. intros x y E. vm_compute in E. discriminate. Qed.

(* generic_code_roundtrip: a json engine satisfying the one equation for ex_model's code dictionary,
   all guards true on ex_model (a full model), and the round trip computed *)
Definition ex_code_dict : pyv := generic_code_dict strG "1.2.0" (generic_convert strG ex_model).
Example generic_code_roundtrip_example :
  let dumps := fun _ : pyv => "code" in let loads := fun _ : string => Some (normalise ex_code_dict) in
  loads (dumps ex_code_dict) = Some (normalise ex_code_dict) /\
  generic_convert strG ex_model = ex_model /\
  generic_roundtrip strG dumps loads "1.2.0" ex_model = Some (strip strG ex_model) /\
  model_eq strG (strip strG ex_model) ex_model = true.
Proof. cbn zeta. repeat split; vm_compute; reflexivity. Qed.

(* a builder history with remove_flow: the flow is entered, removed and entered again, which moves
   it to the end of its compartment's successors; the guards hold and the system comes back exactly *)
Example remove_flow_example :
  let h := [BAddComp strG central; BAddComp strG periph; BAddFlow strG (NComp strG central) (NOut strG) kel;
            BAddFlow strG (NComp strG central) (NComp strG periph) k12; BAddFlow strG (NComp strG periph) (NComp strG central) k21;
            BRemoveFlow strG (NComp strG central) (NOut strG); BAddFlow strG (NComp strG central) (NOut strG) kel] in
  run_bops strG h = cs_g strG sys_cp /\
  run_bops strG (firstn 6 h) <> run_bops strG (firstn 5 h) /\
  cs_ok strG (mkCs strG (run_bops strG (firstn 6 h)) "Symbol('t')") = true /\
  cs_from_dict strG (cs_to_dict strG (mkCs strG (run_bops strG (firstn 6 h)) "Symbol('t')")) =
    Some (mkCs strG (run_bops strG (firstn 6 h)) "Symbol('t')").
Proof. cbn zeta. repeat split; try (vm_compute; reflexivity). vm_compute. intro E. discriminate. Qed.
